(* Proofs/RatLiftEx.v — the hypotheses of C16_marginal / C16_normalised are satisfiable: a padded
   Bernoulli RAT-SPN over Qc (3 features, depth 1, 2 repetitions, 2 channels, 2 classes). *)
From Coq Require Import List Arith ZArith QArith Qcanon Lia Permutation.
From DV Require Import Model.Core Model.Leaves Model.QcInst Model.Rat Proofs.QcLaws Proofs.RatRegion Proofs.RatLift.
Import ListNotations.
Local Open Scope nat_scope.

Definition ex_dom : nat -> list Z := fun _ => [Z0; Zpos xH].
Definition ex_tab (k : Z) : list (Z * Qc) := [(Z0, q (16 - k) 16); (Zpos xH, q k 16)].
Definition ex_permss : list (list (list (list nat))) := [[[[2; 0; 1]]]; [[[1; 2; 0]]]].
Definition ex_tabs : list (list (list (list (Z * Qc)))) :=
  [[[ex_tab 3; ex_tab 5]; [ex_tab 7; ex_tab 9]]; [[ex_tab 2; ex_tab 4]; [ex_tab 6; ex_tab 10]];
   [[ex_tab 11; ex_tab 5]; [ex_tab 3; ex_tab 9]]; [[ex_tab 2; ex_tab 13]; [ex_tab 6; ex_tab 4]]].
Definition ex_Wroot : list (list Qc) :=
  [[q 1 16; q 2 16; q 3 16; q 1 16; q 1 16; q 2 16; q 5 16; q 1 16];
   [q 2 16; q 2 16; q 2 16; q 2 16; q 1 16; q 1 16; q 1 16; q 5 16]].

Lemma ex_perm_ok : Forall (fun perms => length perms = 1 /\ adm [items 3] perms) ex_permss.
Proof.
  repeat constructor.
  - apply (Permutation_trans (l' := isort [2;0;1])); [symmetry; apply isort_perm | reflexivity].
  - apply (Permutation_trans (l' := isort [1;2;0])); [symmetry; apply isort_perm | reflexivity].
Qed.

Ltac qc_solve := apply Qc_is_canon; vm_compute; reflexivity.

Lemma ex_tabs_ok : tabs_ok Qc 0%Qc 1%Qc Qcplus ex_dom (dim_of 3 1) ex_tabs.
Proof. repeat constructor; intros v; qc_solve. Qed.

Lemma ex_wshape : wshape Qc 0%Qc 1%Qc Qcplus 2 2 [] ex_Wroot.
Proof. cbn. repeat constructor; qc_solve. Qed.

Example ex_all_hyps :
  1 = S (length (@nil (list (list (list Qc))))) /\ 2 ^ 1 <= 3 /\
  Forall (fun perms => length perms = 1 /\ adm [items 3] perms) ex_permss /\
  length ex_tabs = length ex_permss * 2 ^ 1 /\ tabs_ok Qc 0%Qc 1%Qc Qcplus ex_dom (dim_of 3 1) ex_tabs /\
  Forall (fun tr => length tr = 2) ex_tabs /\ wshape Qc 0%Qc 1%Qc Qcplus 2 2 [] ex_Wroot.
Proof.
  repeat split; try (cbn; lia); [apply ex_perm_ok | apply ex_tabs_ok | repeat constructor | apply ex_wshape].
Qed.

