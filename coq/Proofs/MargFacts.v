(* Proofs/MargFacts.v — structural marginalisation equals marginal inference: on every row whose
   cells outside the kept set are missing, the marginalised circuit has the value of the original. *)
From Coq Require Import List Arith ZArith Ring Lia Bool.
From DV Require Import Model.Core Model.Clt Model.Leaves Model.Check Model.Prune Model.ToPc Model.Marg
  Proofs.CoreFacts Proofs.PruneFacts.
Import ListNotations.

Section MargFacts.
  Variable T : Type.
  Variables (t0 t1 : T) (tadd tmul : T -> T -> T).
  Hypothesis SRth : semi_ring_theory t0 t1 tadd tmul (@eq T).
  Add Ring Tring9 : SRth.
  Infix "*" := tmul.
  Variable dom : nat -> list Z.
  Notation leaf := (leaf T).
  Notation lval := (leaf_val T t0 t1 tadd tmul).
  Notation node := (node T leaf).
  Notation table := (table T leaf).
  Notation dnode := (dummy_node T leaf).
  Notation sumT := (sumT T t0 tadd).
  Notation prodT := (prodT T t1 tmul).
  Notation dotT := (dotT T t0 tadd tmul).
  Notation vals := (vals T t0 t1 tadd tmul leaf lval).
  Notation val := (val T t0 t1 tadd tmul leaf lval).
  Notation node_val := (node_val T t0 t1 tadd tmul leaf lval).
  Notation scope_of := (scope_of T leaf).
  Notation valid := (valid T t0 tadd dom leaf lval).
  Notation normalised := (normalised T t0 t1 tadd leaf lval).
  Notation wf := (wf T leaf).
  Notation sum_norm := (sum_norm T t0 t1 tadd leaf).
  Notation mstate := (mstate T).
  Notation marg_step := (marg_step T t0 t1 tadd tmul).
  Notation marg_inner := (marg_inner T).
  Notation marg_clt := (marg_clt T t0 t1 tadd tmul).
  Notation shift := (shift T).

  Variable K : list nat.
  Variable rowok : row -> Prop.   (* extra condition on rows, e.g. binary on Chow-Liu variables *)
  Definition outside_missing (r : row) : Prop := (forall v, ~ In v K -> r v = None) /\ rowok r.
  Definition disj (sc : list nat) : Prop := forall v, In v sc -> ~ In v K.

  (* what the Chow-Liu leaf handler must guarantee (discharged in Proofs/MargClt.v) *)
  Definition clt_handler_ok (c : clt T) : Prop :=
    existsb (fun v => memb v K) (cscope c) = true ->
    exists sub r, marg_clt K c = Some (sub, r) /\ wf sub /\ Forall sum_norm sub /\ r < length sub /\
                  forall row, outside_missing row -> val sub r row = lval (LClt c) row.

  Definition leaf_scoped (n : node) : Prop :=
    match nkind n with
    | KLeaf (LTab v _) => nscope n = [v]
    | KLeaf (LClt c) => forall v, In v (nscope n) <-> In v (cscope c)
    | _ => True
    end.

  Record MInv (t : table) (st : mstate) : Prop := {
    mi_len : length (snd st) = length t;
    mi_rng : forall i j, nth i (snd st) None = Some j -> j < length (fst st);
    mi_wf : wf (fst st);
    mi_norm : Forall sum_norm (fst st);
    mi_none : forall i, i < length t -> (nth i (snd st) None = None <-> disj (scope_of t i));
    mi_val : forall i j, i < length t -> nth i (snd st) None = Some j ->
             forall r, outside_missing r -> val (fst st) j r = val t i r }.

  Lemma memb_iff x l : memb x l = true <-> In x l.
  Proof.
    unfold memb. rewrite existsb_exists. split.
    - intros [y [Hy He]]. apply Nat.eqb_eq in He. now subst.
    - intros H. exists x. split; [exact H | apply Nat.eqb_refl].
  Qed.

  Lemma nth_snoc_last {A} (l : list A) x d : nth (length l) (l ++ [x]) d = x.
  Proof. rewrite app_nth2, Nat.sub_diag by lia. reflexivity. Qed.

  (* splice: a table appended with shifted child indices keeps its values *)
  Lemma vals_splice (new sub : table) r :
    vals (new ++ shift (length new) sub) r = vals new r ++ vals sub r.
  Proof.
    induction sub as [|n sub IH] using rev_ind; [cbn; now rewrite !app_nil_r|].
    unfold Marg.shift in *. rewrite map_app, app_assoc. cbn [map].
    rewrite !(vals_snoc T t0 t1 tadd tmul leaf lval), IH, <- app_assoc. f_equal. f_equal.
    unfold Core.node_val. cbn [nkind nkids].
    assert (Hn : forall k, nth (length new + k) (vals new r ++ vals sub r) t0 = nth k (vals sub r) t0).
    { intros k. rewrite app_nth2; rewrite (vals_length T t0 t1 tadd tmul leaf lval); [f_equal; lia | lia]. }
    assert (Hmap : map (fun k => nth k (vals new r ++ vals sub r) t0) (map (Nat.add (length new)) (nkids n)) =
                   map (fun k => nth k (vals sub r) t0) (nkids n))
      by (rewrite map_map; apply map_ext; intros; apply Hn).
    destruct (nkind n); [reflexivity | now rewrite Hmap | now rewrite Hmap].
  Qed.
  Lemma val_splice (new sub : table) j r : val (new ++ shift (length new) sub) (length new + j) r = val sub j r.
  Proof.
    unfold Core.val. rewrite vals_splice, app_nth2; rewrite (vals_length T t0 t1 tadd tmul leaf lval); [f_equal; lia | lia].
  Qed.
  Lemma wf_splice (new sub : table) : wf new -> wf sub -> wf (new ++ shift (length new) sub).
  Proof.
    intros Hn Hs j Hj. rewrite app_length in Hj. unfold Marg.shift in *. rewrite map_length in Hj.
    destruct (Nat.lt_ge_cases j (length new)) as [Hlt|Hge].
    - rewrite app_nth1 by exact Hlt. now apply Hn.
    - rewrite app_nth2 by exact Hge.
      rewrite (nth_indep _ dnode (Build_node (nkind dnode) (nscope dnode) (map (Nat.add (length new)) (nkids dnode))))
        by (rewrite map_length; lia).
      rewrite (map_nth (fun n => Build_node (nkind n) (nscope n) (map (Nat.add (length new)) (nkids n)))). cbn [nkids].
      specialize (Hs (j - length new) ltac:(lia)). rewrite Forall_map. eapply Forall_impl; [|exact Hs]. cbn. intros; lia.
  Qed.
  Lemma norm_splice (new sub : table) : Forall sum_norm new -> Forall sum_norm sub ->
    Forall sum_norm (new ++ shift (length new) sub).
  Proof.
    intros Hn Hs. apply Forall_app. split; [exact Hn|]. unfold Marg.shift. rewrite Forall_map.
    eapply Forall_impl; [|exact Hs]. intros n H. unfold PruneFacts.sum_norm in *. cbn [nkind nkids].
    destruct (nkind n); auto. now rewrite map_length.
  Qed.

  Lemma somes_In {A} (l : list (option A)) x : In x (somes l) <-> In (Some x) l.
  Proof.
    induction l as [|[y|] l IH]; cbn; [tauto| |].
    - rewrite IH. split; [intros [->|H]; auto | intros [H|H]; [inversion H; auto | auto]].
    - rewrite IH. split; [auto | intros [H|H]; [discriminate | auto]].
  Qed.

  (* product over the kids = product over the kept kids when dropped kids have value one *)
  Lemma prod_somes (f : nat -> T) (g : nat -> T) (mm : nat -> option nat) ks :
    (forall k, In k ks -> match mm k with Some j => g j = f k | None => f k = t1 end) ->
    prodT (map f ks) = prodT (map g (somes (map mm ks))).
  Proof.
    induction ks as [|k ks IH]; intros H; cbn; [reflexivity|].
    pose proof (H k (or_introl eq_refl)) as Hk. rewrite IH by (intros; apply H; now right).
    destruct (mm k); cbn; [now rewrite Hk | rewrite Hk; ring].
  Qed.
  Lemma somes_all_some (mm : nat -> option nat) ks :
    (forall k, In k ks -> mm k <> None) -> map Some (somes (map mm ks)) = map mm ks.
  Proof.
    induction ks as [|k ks IH]; intros H; cbn; [reflexivity|].
    destruct (mm k) eqn:E; [cbn; f_equal; apply IH; intros; apply H; now right|].
    exfalso. now apply (H k (or_introl eq_refl)).
  Qed.
  Lemma somes_all_none (mm : nat -> option nat) ks :
    (forall k, In k ks -> mm k = None) -> somes (map mm ks) = [].
  Proof.
    induction ks as [|k ks IH]; intros H; cbn; [reflexivity|].
    rewrite (H k (or_introl eq_refl)). apply IH. intros; apply H; now right.
  Qed.
  Lemma dot_somes ws (f g : nat -> T) (mm : nat -> option nat) ks :
    (forall k, In k ks -> exists j, mm k = Some j /\ g j = f k) ->
    dotT ws (map f ks) = dotT ws (map g (somes (map mm ks))).
  Proof.
    revert ws. induction ks as [|k ks IH]; intros ws H; cbn; [reflexivity|].
    destruct (H k (or_introl eq_refl)) as [j [E Hj]]. rewrite E. cbn. destruct ws as [|w ws]; [reflexivity|].
    cbn. rewrite Hj. f_equal. apply IH. intros; apply H; now right.
  Qed.
  Lemma somes_length_le {A} (l : list (option A)) : length (somes l) <= length l.
  Proof. induction l as [|[x|] l IH]; cbn; lia. Qed.

  Lemma classic_disj sc : disj sc \/ ~ disj sc.
  Proof.
    induction sc as [|v sc IH]; [left; intros v []|].
    destruct (in_dec Nat.eq_dec v K) as [Hin|Hout].
    - right. intros Hd. apply (Hd v); [now left | exact Hin].
    - destruct IH as [Hd|Hnd].
      + left. intros u [<-|Hu]; [exact Hout | now apply Hd].
      + right. intros Hd. apply Hnd. intros u Hu. apply Hd. now right.
  Qed.

  Section Step.
    Variable t : table.
    Variable n : node.
    Hypothesis Hvalid : valid (t ++ [n]).
    Hypothesis Hnormd : normalised (t ++ [n]).
    Hypothesis Hscoped : leaf_scoped n.
    Hypothesis Hclt : forall c, nkind n = KLeaf (LClt c) -> clt_handler_ok c.
    Hypothesis Hnonempty : match nkind n with KSum _ => nkids n <> [] | _ => True end.

    Lemma valid_prefix : valid t /\ node_ok T t0 tadd dom leaf lval t n.
    Proof.
      inversion Hvalid as [Hnil | t' n' Hv Hok Heq]; [destruct t; discriminate|].
      apply app_inj_tail in Heq. destruct Heq; subst. auto.
    Qed.
    Lemma norm_prefix : normalised t /\ node_norm T t0 t1 tadd leaf lval n.
    Proof.
      unfold CoreFacts.normalised in Hnormd. apply Forall_app in Hnormd. destruct Hnormd as [H1 H2].
      inversion H2; subst. auto.
    Qed.

    Theorem marg_step_inv st : MInv t st -> MInv (t ++ [n]) (marg_step K st n).
    Proof.
      intros [Hlen Hrng Hwf Hnorm Hnone Hval]. destruct st as [new m]. cbn [fst snd] in *.
      destruct valid_prefix as [Hvt [Hkids Hok]]. destruct norm_prefix as [Hnt Hnn].
      assert (Hlast : forall r, val (t ++ [n]) (length t) r = node_val n (vals t r) r)
        by (intros; apply (val_last T t0 t1 tadd tmul leaf lval)).
      assert (Hsl : scope_of (t ++ [n]) (length t) = nscope n) by apply (scope_of_last T leaf).
      (* closing lemmas *)
      assert (Hdrop : disj (nscope n) -> MInv (t ++ [n]) (new, m ++ [None])).
      { intros Hd. constructor; cbn [fst snd].
        - rewrite !app_length, Hlen. reflexivity.
        - intros i j Hij. destruct (Nat.lt_ge_cases i (length m)) as [Hi|Hi].
          + rewrite app_nth1 in Hij by exact Hi. now apply (Hrng i).
          + rewrite app_nth2 in Hij by exact Hi. destruct (i - length m) as [|[|?]]; discriminate.
        - exact Hwf.
        - exact Hnorm.
        - intros i Hi. rewrite app_length in Hi. cbn in Hi. destruct (Nat.eq_dec i (length t)) as [->|Hne].
          + rewrite <- Hlen, nth_snoc_last, Hlen, Hsl. tauto.
          + rewrite app_nth1 by lia. rewrite (scope_of_prefix T leaf) by lia. apply Hnone. lia.
        - intros i j Hi Hij r Hr. rewrite app_length in Hi. cbn in Hi. destruct (Nat.eq_dec i (length t)) as [->|Hne].
          + rewrite <- Hlen, nth_snoc_last in Hij. discriminate.
          + rewrite app_nth1 in Hij by lia. rewrite (val_prefix T t0 t1 tadd tmul leaf lval) by lia. apply (Hval i j); auto; lia. }
      assert (Hkeepk : forall k, k < length new -> ~ disj (nscope n) ->
                      (forall r, outside_missing r -> val new k r = val (t ++ [n]) (length t) r) ->
                      MInv (t ++ [n]) (new, m ++ [Some k])).
      { intros k Hk Hnd Hv. constructor; cbn [fst snd].
        - rewrite !app_length, Hlen. reflexivity.
        - intros i j Hij. destruct (Nat.lt_ge_cases i (length m)) as [Hi|Hi].
          + rewrite app_nth1 in Hij by exact Hi. now apply (Hrng i).
          + rewrite app_nth2 in Hij by exact Hi. destruct (i - length m) as [|[|?]]; try discriminate. inversion Hij; subst. exact Hk.
        - exact Hwf.
        - exact Hnorm.
        - intros i Hi. rewrite app_length in Hi. cbn in Hi. destruct (Nat.eq_dec i (length t)) as [->|Hne].
          + rewrite <- Hlen, nth_snoc_last, Hlen, Hsl. split; [discriminate | tauto].
          + rewrite app_nth1 by lia. rewrite (scope_of_prefix T leaf) by lia. apply Hnone. lia.
        - intros i j Hi Hij r Hr. rewrite app_length in Hi. cbn in Hi. destruct (Nat.eq_dec i (length t)) as [->|Hne].
          + rewrite <- Hlen, nth_snoc_last in Hij. inversion Hij; subst. now apply Hv.
          + rewrite app_nth1 in Hij by lia. rewrite (val_prefix T t0 t1 tadd tmul leaf lval) by lia. apply (Hval i j); auto; lia. }
      assert (Happ : forall ext j, wf (new ++ ext) -> Forall sum_norm (new ++ ext) -> j < length (new ++ ext) -> ~ disj (nscope n) ->
                      (forall r, outside_missing r -> val (new ++ ext) j r = val (t ++ [n]) (length t) r) ->
                      MInv (t ++ [n]) (new ++ ext, m ++ [Some j])).
      { intros ext j Hw' Hn' Hj Hnd Hv. constructor; cbn [fst snd].
        - rewrite !app_length, Hlen. reflexivity.
        - intros i j' Hij. destruct (Nat.lt_ge_cases i (length m)) as [Hi|Hi].
          + rewrite app_nth1 in Hij by exact Hi. specialize (Hrng i j' Hij). rewrite app_length. lia.
          + rewrite app_nth2 in Hij by exact Hi. destruct (i - length m) as [|[|?]]; try discriminate. inversion Hij; subst. exact Hj.
        - exact Hw'.
        - exact Hn'.
        - intros i Hi. rewrite app_length in Hi. cbn in Hi. destruct (Nat.eq_dec i (length t)) as [->|Hne].
          + rewrite <- Hlen, nth_snoc_last, Hlen, Hsl. split; [discriminate | tauto].
          + rewrite app_nth1 by lia. rewrite (scope_of_prefix T leaf) by lia. apply Hnone. lia.
        - intros i j' Hi Hij r Hr. rewrite app_length in Hi. cbn in Hi. destruct (Nat.eq_dec i (length t)) as [->|Hne].
          + rewrite <- Hlen, nth_snoc_last in Hij. inversion Hij; subst. now apply Hv.
          + rewrite app_nth1 in Hij by lia.
            rewrite (val_prefix T t0 t1 tadd tmul leaf lval new ext j' r) by (apply (Hrng i j'); exact Hij).
            rewrite (val_prefix T t0 t1 tadd tmul leaf lval t [n] i r) by lia.
            apply (Hval i j'); auto; lia. }
      unfold Marg.marg_step. unfold leaf_scoped in Hscoped. destruct (nkind n) as [l|ws|] eqn:Ek.
      - (* leaves *)
        destruct l as [v tab|c].
        + destruct (memb v K) eqn:Em.
          * apply memb_iff in Em.
            apply (Happ [Build_node (KLeaf (LTab v tab)) (nscope n) []] (length new)).
            -- apply wf_snoc; [exact Hwf | constructor].
            -- apply Forall_app. split; [exact Hnorm | constructor; [exact I | constructor]].
            -- rewrite app_length. cbn. lia.
            -- intros Hd. apply (Hd v); [rewrite Hscoped; now left | exact Em].
            -- intros r _. rewrite (val_last T t0 t1 tadd tmul leaf lval), Hlast. unfold Core.node_val. cbn. now rewrite Ek.
          * apply Hdrop. intros u Hu Hk. rewrite Hscoped in Hu. destruct Hu as [<-|[]].
            apply memb_iff in Hk. congruence.
        + destruct (existsb (fun v => memb v K) (cscope c)) eqn:Ex.
          * destruct (Hclt c eq_refl Ex) as (sub & r0 & Hm & Hws & Hns & Hr0 & Hvs). rewrite Hm.
            apply (Happ (shift (length new) sub) (length new + r0)).
            -- now apply wf_splice.
            -- now apply norm_splice.
            -- rewrite app_length. unfold Marg.shift. rewrite map_length. lia.
            -- intros Hd. apply existsb_exists in Ex. destruct Ex as [v [Hv Hk]]. apply memb_iff in Hk.
               apply (Hd v); [now apply Hscoped | exact Hk].
            -- intros r Hr. rewrite val_splice, Hlast. unfold Core.node_val. rewrite Ek. now apply Hvs.
          * apply Hdrop. intros u Hu Hk. apply Hscoped in Hu.
            assert (existsb (fun v => memb v K) (cscope c) = true) by (apply existsb_exists; exists u; split; [exact Hu | now apply memb_iff]).
            congruence.
      - (* sum *)
        destruct Hok as [Hlenw Hsc]. unfold CoreFacts.node_norm in Hnn. rewrite Ek in Hnn.
        rewrite Forall_forall in Hkids, Hsc.
        unfold Marg.marg_inner. rewrite ?Ek. set (mm := fun k => nth k m None).
        destruct (classic_disj (nscope n)) as [Hd|Hnd].
        + (* every kid is dropped *)
          rewrite (somes_all_none mm (nkids n)).
          * now apply Hdrop.
          * intros k Hk. apply Hnone; [now apply Hkids|]. intros v Hv. apply Hd. now apply (Hsc k Hk).
        + (* every kid is kept *)
          assert (Hall : forall k, In k (nkids n) -> exists j, mm k = Some j).
          { intros k Hk. destruct (mm k) eqn:E; [eauto|]. exfalso. apply Hnd.
            apply (Hnone k (Hkids k Hk)) in E. intros v Hv. apply E. now apply (Hsc k Hk). }
          assert (Hdot : forall r, outside_missing r ->
                    dotT ws (map (fun j => val new j r) (somes (map mm (nkids n)))) = val (t ++ [n]) (length t) r).
          { intros r Hr. rewrite Hlast. unfold Core.node_val. rewrite Ek. symmetry.
            apply (dot_somes ws (fun k => nth k (vals t r) t0) (fun j => val new j r) mm).
            intros k Hk. destruct (Hall k Hk) as [j Hj]. exists j. split; [exact Hj|].
            apply (Hval k j (Hkids k Hk) Hj r Hr). }
          assert (Hlenk : length (somes (map mm (nkids n))) = length (nkids n)).
          { rewrite <- (map_length Some), somes_all_some, map_length; [reflexivity|].
            intros k Hk. destruct (Hall k Hk) as [j ->]. discriminate. }
          assert (Hrk : Forall (fun j => j < length new) (somes (map mm (nkids n)))).
          { rewrite Forall_forall. intros j Hj. apply somes_In, in_map_iff in Hj. destruct Hj as [k [Hk _]]. now apply (Hrng k). }
          destruct (somes (map mm (nkids n))) as [|k1 [|k2 ks']] eqn:Es.
          * (* no kid at all: an empty sum cannot be normalised unless the semiring is trivial *)
            cbn in Hlenk. try rewrite Ek in Hnonempty. destruct (nkids n); [now contradiction Hnonempty | discriminate].
          * inversion Hrk; subst. apply Hkeepk; [assumption | exact Hnd|]. intros r Hr. rewrite <- (Hdot r Hr). cbn.
            destruct ws as [|w [|w2 ws2]]; cbn in *; try lia.
            assert (w = t1) by (rewrite <- Hnn; ring). subst. ring.
          * apply (Happ [Build_node (KSum ws) (nscope (nth (hd 0 (k1 :: k2 :: ks')) new dnode)) (k1 :: k2 :: ks')] (length new)).
            -- apply wf_snoc; [exact Hwf | exact Hrk].
            -- apply Forall_app. split; [exact Hnorm | constructor; [|constructor]].
               unfold PruneFacts.sum_norm. cbn [nkind nkids]. split; [congruence | exact Hnn].
            -- rewrite app_length. cbn. lia.
            -- exact Hnd.
            -- intros r Hr. rewrite (val_last T t0 t1 tadd tmul leaf lval). unfold Core.node_val. cbn [nkind nkids].
               now apply Hdot.
      - (* product *)
        destruct Hok as [Hun Hdis]. rewrite Forall_forall in Hkids.
        unfold Marg.marg_inner. rewrite ?Ek. set (mm := fun k => nth k m None).
        assert (Hprod : forall r, outside_missing r ->
                  prodT (map (fun j => val new j r) (somes (map mm (nkids n)))) = val (t ++ [n]) (length t) r).
        { intros r Hr. rewrite Hlast. unfold Core.node_val. rewrite Ek. symmetry.
          apply (prod_somes (fun k => nth k (vals t r) t0) (fun j => val new j r) mm).
          intros k Hk. destruct (mm k) as [j|] eqn:E.
          - apply (Hval k j (Hkids k Hk) E r Hr).
          - apply (val_all_missing T t0 t1 tadd tmul SRth dom leaf lval t Hvt Hnt k (Hkids k Hk) r).
            intros v Hv. apply (proj1 Hr). apply (proj1 (Hnone k (Hkids k Hk)) E v Hv). }
        assert (Hrk : Forall (fun j => j < length new) (somes (map mm (nkids n)))).
        { rewrite Forall_forall. intros j Hj. apply somes_In, in_map_iff in Hj. destruct Hj as [k [Hk _]]. now apply (Hrng k). }
        assert (Hnd_iff : somes (map mm (nkids n)) = [] <-> disj (nscope n)).
        { split.
          - intros Hs v Hv. apply Hun in Hv. destruct Hv as [k [Hk Hvk]].
            assert (E : mm k = None).
            { destruct (mm k) as [j|] eqn:E; [|reflexivity]. exfalso.
              assert (In j (somes (map mm (nkids n)))) by (apply somes_In, in_map_iff; eauto). rewrite Hs in H. contradiction. }
            apply (proj1 (Hnone k (Hkids k Hk)) E v Hvk).
          - intros Hd. apply somes_all_none. intros k Hk. apply (Hnone k (Hkids k Hk)).
            intros v Hv. apply Hd. apply Hun. eauto. }
        destruct (somes (map mm (nkids n))) as [|k1 [|k2 ks']] eqn:Es.
        * apply Hdrop. now apply Hnd_iff.
        * inversion Hrk; subst. apply Hkeepk; [assumption | |].
          -- intros Hd. apply Hnd_iff in Hd. discriminate.
          -- intros r Hr. rewrite <- (Hprod r Hr). cbn. ring.
        * apply (Happ [Build_node KProd (concat (map (fun k => nscope (nth k new dnode)) (k1 :: k2 :: ks'))) (k1 :: k2 :: ks')] (length new)).
          -- apply wf_snoc; [exact Hwf | exact Hrk].
          -- apply Forall_app. split; [exact Hnorm | constructor; [exact I | constructor]].
          -- rewrite app_length. cbn. lia.
          -- intros Hd. apply Hnd_iff in Hd. discriminate.
          -- intros r Hr. rewrite (val_last T t0 t1 tadd tmul leaf lval). unfold Core.node_val. cbn [nkind nkids].
             now apply Hprod.
    Qed.
  End Step.

  Definition node_pre (n : node) : Prop :=
    leaf_scoped n /\ (forall c, nkind n = KLeaf (LClt c) -> clt_handler_ok c) /\
    match nkind n with KSum _ => nkids n <> [] | _ => True end.

  Lemma minv_init : MInv [] ([], []).
  Proof.
    constructor; cbn; try reflexivity; try (intros; lia).
    - intros [|i] j H; discriminate.
    - intros j Hj; cbn in Hj; lia.
    - constructor.
  Qed.

  Lemma valid_app_l (t : table) n : valid (t ++ [n]) -> valid t.
  Proof.
    intros H. inversion H as [Hnil | t' n' Hv Hok Heq]; [destruct t; discriminate|].
    apply app_inj_tail in Heq. destruct Heq; now subst.
  Qed.

  Theorem marg_inv t : valid t -> normalised t -> Forall node_pre t ->
      MInv t (marg_state T t0 t1 tadd tmul K t).
  Proof.
    unfold marg_state. induction t as [|n t IH] using rev_ind; intros Hv Hn Hp; [apply minv_init|].
    rewrite fold_left_app. cbn [fold_left].
    apply Forall_app in Hp. destruct Hp as [Hp1 Hp2]. inversion Hp2 as [|? ? [Hs [Hc Hne]] _]; subst.
    apply marg_step_inv; auto. apply IH; [now apply valid_app_l in Hv | | exact Hp1].
    unfold CoreFacts.normalised in *. apply Forall_app in Hn. tauto.
  Qed.

  Lemma wf_firstn (t : table) k : wf t -> wf (firstn k t).
  Proof.
    intros H j Hj. rewrite firstn_length in Hj.
    rewrite <- (firstn_skipn k t) in H. specialize (H j).
    rewrite app_nth1 in H by (rewrite firstn_length; lia). apply H. rewrite app_length, firstn_length. lia.
  Qed.
  Lemma forall_firstn {A} (P : A -> Prop) (l : list A) k : Forall P l -> Forall P (firstn k l).
  Proof. intros H. rewrite <- (firstn_skipn k l) in H. apply Forall_app in H. tauto. Qed.
  Lemma val_firstn (t : table) k i r : i < k -> k <= length t -> val (firstn k t) i r = val t i r.
  Proof.
    intros Hi Hk. rewrite <- (firstn_skipn k t) at 2. symmetry.
    apply (val_prefix T t0 t1 tadd tmul leaf lval). rewrite firstn_length. lia.
  Qed.

  (* C10: the marginalised (and pruned) circuit evaluates, on every row whose cells outside the kept
     set are missing, to the original circuit's value on that row *)
  Theorem marginalize_eval t : valid t -> normalised t -> Forall node_pre t -> 0 < length t ->
      forall res root, marginalize T t0 t1 tadd tmul K t = Some (res, root) ->
      forall r, outside_missing r -> val res root r = val t (length t - 1) r.
  Proof.
    intros Hv Hn Hp Hlen res root Hm r Hr. unfold marginalize in Hm.
    destruct (marg_guard K _); [|discriminate]. unfold marg_raw in Hm.
    pose proof (marg_inv t Hv Hn Hp) as [Hl Hrng Hwf Hnorm Hnone Hval].
    destruct (nth (length t - 1) (snd (marg_state T t0 t1 tadd tmul K t)) None) as [j|] eqn:Ej; [|discriminate].
    inversion Hm; subst. clear Hm.
    set (mt := fst (marg_state T t0 t1 tadd tmul K t)) in *.
    specialize (Hrng _ _ Ej).
    rewrite (prune_preserves T t0 t1 tadd tmul SRth leaf lval (firstn (S j) mt)).
    - rewrite val_firstn by lia. apply (Hval (length t - 1) j); [lia | exact Ej | exact Hr].
    - now apply wf_firstn.
    - now apply forall_firstn.
    - rewrite firstn_length. lia.
  Qed.

  (* the marginalised circuit exists whenever the guard accepts and the root scope meets the kept set *)
  Theorem marginalize_defined t : valid t -> normalised t -> Forall node_pre t -> 0 < length t ->
      marg_guard K (nscope (nth (length t - 1) t dnode)) = MOk -> ~ disj (scope_of t (length t - 1)) ->
      exists res root, marginalize T t0 t1 tadd tmul K t = Some (res, root).
  Proof.
    intros Hv Hn Hp Hlen Hg Hnd. unfold marginalize. rewrite Hg. unfold marg_raw.
    pose proof (marg_inv t Hv Hn Hp) as [Hl Hrng Hwf Hnorm Hnone Hval].
    destruct (nth (length t - 1) (snd (marg_state T t0 t1 tadd tmul K t)) None) as [j|] eqn:Ej; [eauto|].
    exfalso. apply Hnd. apply (Hnone (length t - 1)); [lia | exact Ej].
  Qed.
End MargFacts.
