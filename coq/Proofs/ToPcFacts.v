(* Proofs/ToPcFacts.v — the circuit built from a Chow-Liu tree returns the tree's value on every
   complete and every marginal query: val (sum for parent value b) r = up t b r. *)
From Coq Require Import List Arith ZArith Ring Lia Bool.
From DV Require Import Model.Core Model.Clt Model.Leaves Model.ToPc Proofs.CoreFacts Proofs.CltFacts Proofs.PruneFacts.
Import ListNotations.

Section ToPcFacts.
  Variable T : Type.
  Variables (t0 t1 : T) (tadd tmul : T -> T -> T).
  Hypothesis SRth : semi_ring_theory t0 t1 tadd tmul (@eq T).
  Add Ring Tring8 : SRth.
  Infix "*" := tmul.
  Notation leaf := (leaf T).
  Notation lval := (leaf_val T t0 t1 tadd tmul).
  Notation table := (table T leaf).
  Notation dnode := (dummy_node T leaf).
  Notation prodT := (prodT T t1 tmul).
  Notation vals := (vals T t0 t1 tadd tmul leaf lval).
  Notation val := (val T t0 t1 tadd tmul leaf lval).
  Notation up := (up T t0 t1 tadd tmul).
  Notation vars := (vars T).
  Notation wf := (wf T leaf).
  Notation topc := (topc T t0 t1).
  Notation go_with := (go_with T).
  Notation emit := (emit T t0 t1).

  Definition binary_on (vs : list nat) (r : row) : Prop :=
    forall v, In v vs -> r v = None \/ r v = Some 0%Z \/ r v = Some 1%Z.

  Lemma topc_eq v cpt kids acc :
    topc (CT v cpt kids) acc =
    let '(acc1, (negs, poss, scs)) := go_with topc kids acc [] [] [] in
    emit v cpt (match kids with [] => true | _ => false end) acc1 negs poss scs.
  Proof. reflexivity. Qed.

  (* what one subtree's conversion guarantees *)
  Definition spec (k : ctree T) : Prop := forall acc, wf acc ->
    let '(res, (n, p)) := topc k acc in
    (exists ext, res = acc ++ ext) /\ wf res /\ n < length res /\ p < length res /\
    forall r, binary_on (vars k) r -> val res n r = up k 0%Z r /\ val res p r = up k 1%Z r.

  Lemma val_app (acc ext : table) i r : i < length acc -> val (acc ++ ext) i r = val acc i r.
  Proof. apply (val_prefix T t0 t1 tadd tmul leaf lval). Qed.

  Lemma map_val_app (acc ext : table) l r : Forall (fun i => i < length acc) l ->
    map (fun i => val (acc ++ ext) i r) l = map (fun i => val acc i r) l.
  Proof. intros H. apply map_ext_Forall. rewrite Forall_forall in *. intros i Hi. apply val_app. auto. Qed.

  Lemma go_spec ks : Forall spec ks -> forall acc negs poss sc, wf acc ->
      Forall (fun i => i < length acc) negs -> Forall (fun i => i < length acc) poss ->
      let '(res, (negs', poss', sc')) := go_with topc ks acc negs poss sc in
      (exists ext, res = acc ++ ext) /\ wf res /\
      Forall (fun i => i < length res) negs' /\ Forall (fun i => i < length res) poss' /\
      forall r, binary_on (flat_map vars ks) r ->
        prodT (map (fun i => val res i r) negs') =
          prodT (map (fun k => up k 0%Z r) ks) * prodT (map (fun i => val acc i r) negs) /\
        prodT (map (fun i => val res i r) poss') =
          prodT (map (fun k => up k 1%Z r) ks) * prodT (map (fun i => val acc i r) poss).
  Proof.
    induction 1 as [|k ks Hk Hks IH]; intros acc negs poss sc Hwf Hn Hp; cbn [ToPc.go_with].
    - split; [exists []; now rewrite app_nil_r|]. split; [exact Hwf|]. split; [exact Hn|]. split; [exact Hp|].
      intros r _. cbn. split; ring.
    - specialize (Hk acc Hwf). destruct (topc k acc) as [a1 [n p]] eqn:Ek.
      destruct Hk as ([ext1 He1] & Hwf1 & Hn1 & Hp1 & Hv1).
      assert (Hlen : length acc <= length a1) by (rewrite He1, app_length; lia).
      assert (Hn' : Forall (fun i => i < length a1) (n :: negs)).
      { constructor; [exact Hn1|]. eapply Forall_impl; [|exact Hn]. cbn. intros; lia. }
      assert (Hp' : Forall (fun i => i < length a1) (p :: poss)).
      { constructor; [exact Hp1|]. eapply Forall_impl; [|exact Hp]. cbn. intros; lia. }
      specialize (IH a1 (n :: negs) (p :: poss) (nscope (nth n a1 dnode) :: sc) Hwf1 Hn' Hp').
      destruct (go_with topc ks a1 (n :: negs) (p :: poss) (nscope (nth n a1 dnode) :: sc)) as [res [[negs' poss'] sc']].
      destruct IH as ([ext2 He2] & Hwf2 & Hn2 & Hp2 & Hv2).
      split; [exists (ext1 ++ ext2); now rewrite He2, He1, app_assoc|]. split; [exact Hwf2|].
      split; [exact Hn2|]. split; [exact Hp2|]. intros r Hb.
      assert (Hbk : binary_on (vars k) r) by (intros v Hv; apply Hb; cbn; apply in_or_app; now left).
      assert (Hbks : binary_on (flat_map vars ks) r) by (intros v Hv; apply Hb; cbn; apply in_or_app; now right).
      destruct (Hv1 r Hbk) as [Hv1n Hv1p]. destruct (Hv2 r Hbks) as [Hv2n Hv2p].
      rewrite Hv2n, Hv2p. cbn [map Core.prodT]. rewrite Hv1n, Hv1p.
      rewrite He1, !map_val_app by assumption. split; ring.
  Qed.

  Lemma nth_app_new {A} (l ext : list A) j d : nth (length l + j) (l ++ ext) d = nth j ext d.
  Proof. rewrite app_nth2 by lia. f_equal. lia. Qed.

  Lemma ind0_val v r : lval (LTab v [(0%Z, t1); (1%Z, t0)]) r =
    match r v with None => t1 | Some x => if Z.eqb 0 x then t1 else if Z.eqb 1 x then t0 else t0 end.
  Proof. reflexivity. Qed.
  Lemma ind1_val v r : lval (LTab v [(0%Z, t0); (1%Z, t1)]) r =
    match r v with None => t1 | Some x => if Z.eqb 0 x then t0 else if Z.eqb 1 x then t1 else t0 end.
  Proof. reflexivity. Qed.

  Theorem topc_spec t : NoDup (vars t) -> spec t.
  Proof.
    induction t as [v cpt kids IH] using (ctree_ind' T). intros Hnd acc Hwf.
    cbn in Hnd. apply NoDup_cons_iff in Hnd. destruct Hnd as [Hv Hnd].
    assert (Hspecs : Forall spec kids).
    { rewrite Forall_forall in *. intros k Hk. apply IH; [exact Hk|].
      destruct (in_split _ _ Hk) as [l1 [l2 ->]]. rewrite flat_map_app in Hnd. cbn in Hnd.
      apply nodup_app_r in Hnd. now apply nodup_app_l in Hnd. }
    rewrite topc_eq.
    pose proof (go_spec kids Hspecs acc [] [] [] Hwf (Forall_nil _) (Forall_nil _)) as Hgo.
    destruct (go_with topc kids acc [] [] []) as [acc1 [[negs poss] scs]].
    destruct Hgo as ([ext1 He1] & Hwf1 & Hn1 & Hp1 & Hv1).
    set (i0 := length acc1).
    unfold ToPc.emit. fold i0.
    destruct kids as [|k0 kids'] eqn:Ekids.
    - (* leaf of the tree *)
      set (res := acc1 ++ [ind0 T t0 t1 v; ind1 T t0 t1 v;
                           Build_node (KSum [cpt 0%Z 0%Z; cpt 0%Z 1%Z]) [v] [i0; S i0];
                           Build_node (KSum [cpt 1%Z 0%Z; cpt 1%Z 1%Z]) [v] [i0; S i0]]).
      assert (Hres : wf res).
      { intros j Hj. unfold res in *. rewrite app_length in Hj. cbn in Hj.
        destruct (Nat.lt_ge_cases j i0) as [Hlt|Hge]; [rewrite app_nth1 by exact Hlt; now apply Hwf1|].
        replace j with (i0 + (j - i0)) by lia. unfold i0. rewrite nth_app_new. fold i0.
        destruct (j - i0) as [|[|[|[|?]]]] eqn:E; cbn; repeat constructor; lia. }
      split; [exists (ext1 ++ [ind0 T t0 t1 v; ind1 T t0 t1 v;
                           Build_node (KSum [cpt 0%Z 0%Z; cpt 0%Z 1%Z]) [v] [i0; S i0];
                           Build_node (KSum [cpt 1%Z 0%Z; cpt 1%Z 1%Z]) [v] [i0; S i0]]); unfold res; now rewrite He1, app_assoc|].
      split; [exact Hres|].
      assert (Hlen : length res = i0 + 4) by (unfold res; rewrite app_length; reflexivity).
      split; [lia|]. split; [lia|]. intros r Hb.
      assert (H0 : val res i0 r = lval (LTab v [(0%Z, t1); (1%Z, t0)]) r).
      { rewrite (val_unfold T t0 t1 tadd tmul leaf lval res Hres i0 ltac:(lia) r).
        unfold res. replace i0 with (i0 + 0) at 1 by lia. unfold i0 at 1. rewrite nth_app_new. reflexivity. }
      assert (H1 : val res (S i0) r = lval (LTab v [(0%Z, t0); (1%Z, t1)]) r).
      { rewrite (val_unfold T t0 t1 tadd tmul leaf lval res Hres (S i0) ltac:(lia) r).
        unfold res. replace (S i0) with (i0 + 1) at 1 by lia. unfold i0 at 1. rewrite nth_app_new. reflexivity. }
      assert (Hs : forall b j, (j = 2 /\ b = 0%Z) \/ (j = 3 /\ b = 1%Z) ->
                   val res (i0 + j) r = tadd (cpt b 0%Z * val res i0 r) (tadd (cpt b 1%Z * val res (S i0) r) t0)).
      { intros b j Hj. rewrite (val_unfold T t0 t1 tadd tmul leaf lval res Hres (i0 + j) ltac:(lia) r).
        unfold res. unfold i0 at 1. rewrite nth_app_new. fold i0.
        destruct Hj as [[-> ->]|[-> ->]]; reflexivity. }
      rewrite (Hs 0%Z 2), (Hs 1%Z 3), H0, H1, ind0_val, ind1_val by auto. cbn [Clt.up map Core.prodT dom2 Core.sumT].
      destruct (Hb v ltac:(cbn; auto)) as [E|[E|E]]; rewrite E; cbn; split; ring.
    - (* inner node *)
      set (psc := v :: concat scs).
      set (res := acc1 ++ [ind0 T t0 t1 v; ind1 T t0 t1 v;
                           Build_node KProd psc (i0 :: negs); Build_node KProd psc (S i0 :: poss);
                           Build_node (KSum [cpt 0%Z 0%Z; cpt 0%Z 1%Z]) psc [i0 + 2; i0 + 3];
                           Build_node (KSum [cpt 1%Z 0%Z; cpt 1%Z 1%Z]) psc [i0 + 2; i0 + 3]]).
      assert (Hres : wf res).
      { intros j Hj. unfold res in *. rewrite app_length in Hj. cbn in Hj.
        destruct (Nat.lt_ge_cases j i0) as [Hlt|Hge]; [rewrite app_nth1 by exact Hlt; now apply Hwf1|].
        replace j with (i0 + (j - i0)) by lia. unfold i0. rewrite nth_app_new. fold i0.
        destruct (j - i0) as [|[|[|[|[|[|?]]]]]] eqn:E; cbn; repeat constructor; try lia.
        - eapply Forall_impl; [|exact Hn1]. cbn. fold i0. intros; lia.
        - eapply Forall_impl; [|exact Hp1]. cbn. fold i0. intros; lia. }
      split; [exists (ext1 ++ [ind0 T t0 t1 v; ind1 T t0 t1 v;
                           Build_node KProd psc (i0 :: negs); Build_node KProd psc (S i0 :: poss);
                           Build_node (KSum [cpt 0%Z 0%Z; cpt 0%Z 1%Z]) psc [i0 + 2; i0 + 3];
                           Build_node (KSum [cpt 1%Z 0%Z; cpt 1%Z 1%Z]) psc [i0 + 2; i0 + 3]]); unfold res; now rewrite He1, app_assoc|].
      split; [exact Hres|].
      assert (Hlen : length res = i0 + 6) by (unfold res; rewrite app_length; reflexivity).
      split; [lia|]. split; [lia|]. intros r Hb.
      assert (Hbk : binary_on (flat_map vars (k0 :: kids')) r) by (intros u Hu; apply Hb; cbn; right; exact Hu).
      destruct (Hv1 r Hbk) as [Hvn Hvp].
      assert (H0 : val res i0 r = lval (LTab v [(0%Z, t1); (1%Z, t0)]) r).
      { rewrite (val_unfold T t0 t1 tadd tmul leaf lval res Hres i0 ltac:(lia) r).
        unfold res. replace i0 with (i0 + 0) at 1 by lia. unfold i0 at 1. rewrite nth_app_new. reflexivity. }
      assert (H1 : val res (S i0) r = lval (LTab v [(0%Z, t0); (1%Z, t1)]) r).
      { rewrite (val_unfold T t0 t1 tadd tmul leaf lval res Hres (S i0) ltac:(lia) r).
        unfold res. replace (S i0) with (i0 + 1) at 1 by lia. unfold i0 at 1. rewrite nth_app_new. reflexivity. }
      assert (Hpn : val res (i0 + 2) r = val res i0 r * prodT (map (fun i => val acc1 i r) negs)).
      { rewrite (val_unfold T t0 t1 tadd tmul leaf lval res Hres (i0 + 2) ltac:(lia) r).
        unfold res at 1. unfold i0 at 1. rewrite nth_app_new. unfold Core.node_val. cbn [nkind nkids nth map Core.prodT].
        f_equal. f_equal. unfold res. apply map_val_app. exact Hn1. }
      assert (Hpp : val res (i0 + 3) r = val res (S i0) r * prodT (map (fun i => val acc1 i r) poss)).
      { rewrite (val_unfold T t0 t1 tadd tmul leaf lval res Hres (i0 + 3) ltac:(lia) r).
        unfold res at 1. unfold i0 at 1. rewrite nth_app_new. unfold Core.node_val. cbn [nkind nkids nth map Core.prodT].
        f_equal. f_equal. unfold res. apply map_val_app. exact Hp1. }
      assert (Hs : forall b j, (j = 4 /\ b = 0%Z) \/ (j = 5 /\ b = 1%Z) ->
                   val res (i0 + j) r = tadd (cpt b 0%Z * val res (i0 + 2) r) (tadd (cpt b 1%Z * val res (i0 + 3) r) t0)).
      { intros b j Hj. rewrite (val_unfold T t0 t1 tadd tmul leaf lval res Hres (i0 + j) ltac:(lia) r).
        unfold res at 1. unfold i0 at 1. rewrite nth_app_new.
        destruct Hj as [[-> ->]|[-> ->]]; reflexivity. }
      rewrite (Hs 0%Z 4), (Hs 1%Z 5), Hpn, Hpp, H0, H1, ind0_val, ind1_val, Hvn, Hvp by auto.
      cbn [map Core.prodT].
      assert (Hx : forall x, prodT (map (fun k => up k x r) (k0 :: kids')) * t1 = up k0 x r * prodT (map (fun k => up k x r) kids'))
        by (intros; cbn; ring).
      cbn [Clt.up map Core.prodT dom2 Core.sumT].
      destruct (Hb v ltac:(cbn; auto)) as [E|[E|E]]; rewrite E; cbn; split; ring.
  Qed.

  (* C12: the converted circuit evaluates to the tree on every binary row with any cells missing *)
  Theorem to_pc_value (t : ctree T) : NoDup (vars t) ->
      let '(res, (n, p)) := topc t [] in
      n < length res /\ p < length res /\ wf res /\
      forall r, binary_on (vars t) r -> val res n r = up t 0%Z r /\ val res p r = up t 1%Z r.
  Proof.
    intros Hnd. pose proof (topc_spec t Hnd [] ltac:(intros j Hj; cbn in Hj; lia)) as H.
    destruct (topc t []) as [res [n p]]. destruct H as (_ & Hwf & Hn & Hp & Hv). auto.
  Qed.
End ToPcFacts.
