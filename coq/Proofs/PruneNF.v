(* Proofs/PruneNF.v — pruning yields a normal form (every node of the rebuilt table: no inner node with
   one child, no sum under a sum, no product under a product, a sum's children pairwise distinct) and
   pruning a normal form changes nothing (the rebuild returns the same table and the identity map),
   hence pruning is idempotent. *)
From Coq Require Import List Arith ZArith Ring Lia Bool.
From DV Require Import Model.Core Model.Prune Proofs.CoreFacts Proofs.PruneFacts.
Import ListNotations.

Section PruneNF.
  Variable T : Type.
  Variables (t0 t1 : T) (tadd tmul : T -> T -> T).
  Variable leaf : Type.
  Notation node := (node T leaf).
  Notation table := (table T leaf).
  Notation dnode := (dummy_node T leaf).
  Notation prune_step := (prune_step T tadd tmul leaf).
  Notation prune_state := (prune_state T tadd tmul leaf).
  Notation merge_add := (merge_add T tadd).
  Notation merge_all := (merge_all T tadd).
  Notation expand_sum := (expand_sum T tmul leaf).
  Notation expand_prod := (expand_prod T leaf).
  Notation wf := (wf T leaf).

  Definition is_sum (t : table) (k : nat) : Prop := exists ws, nkind (nth k t dnode) = KSum ws.
  Definition is_prod (t : table) (k : nat) : Prop := nkind (nth k t dnode) = KProd.

  (* normal form of one node w.r.t. the table that holds its children *)
  Definition nfP (t : table) (n : node) : Prop :=
    match nkind n with
    | KLeaf _ => nkids n = []
    | KSum ws => length ws = length (nkids n) /\ length (nkids n) <> 1 /\ NoDup (nkids n) /\
                 forall k, In k (nkids n) -> ~ is_sum t k
    | KProd => length (nkids n) <> 1 /\ forall k, In k (nkids n) -> ~ is_prod t k
    end.
  Definition NF (t : table) : Prop := Forall (nfP t) t.

  (* input side condition (what check_spn + constructors give): leaves have no children, sums carry
     one weight per child *)
  Definition shaped (n : node) : Prop :=
    match nkind n with
    | KLeaf _ => nkids n = []
    | KSum ws => length ws = length (nkids n)
    | KProd => True
    end.

  Lemma nth_app_old (a ext : table) k : k < length a -> nth k (a ++ ext) dnode = nth k a dnode.
  Proof. intros. now rewrite app_nth1. Qed.
  Lemma nfP_app (a ext : table) n : Forall (fun k => k < length a) (nkids n) -> nfP a n -> nfP (a ++ ext) n.
  Proof.
    intros Hk H. unfold nfP, is_sum, is_prod in *. rewrite Forall_forall in Hk.
    destruct (nkind n); [exact H| |].
    - destruct H as (H1 & H2 & H3 & H4). repeat split; auto. intros k Hin. rewrite nth_app_old by auto. now apply H4.
    - destruct H as (H1 & H2). split; auto. intros k Hin. rewrite nth_app_old by auto. now apply H2.
  Qed.

  (* keys of the merged association list: duplicate free, same set as the input keys *)
  Lemma merge_add_nodup k w acc : NoDup (map fst acc) -> NoDup (map fst (merge_add k w acc)).
  Proof.
    induction acc as [|[k' w'] acc IH]; cbn; intros H; [repeat constructor; auto|].
    inversion H as [|? ? Hn Hr]; subst. destruct (Nat.eqb_spec k k') as [->|Hne]; cbn; [constructor; auto|].
    constructor; [|now apply IH]. intro Hin. apply in_map_iff in Hin. destruct Hin as [[k1 w1] [Hk1 Hin]]. cbn in Hk1. subst k1.
    destruct (merge_add_keys T tadd _ _ _ _ _ Hin) as [->|[w2 H2]]; [congruence|]. apply Hn. apply in_map_iff. exists (k', w2). auto.
  Qed.
  Lemma merge_all_nodup l : NoDup (map fst (merge_all l)).
  Proof.
    unfold Prune.merge_all. assert (H : forall acc, NoDup (map fst acc) ->
      NoDup (map fst (fold_left (fun a kw => merge_add (fst kw) (snd kw) a) l acc))).
    { induction l as [|[k w] l IH]; intros acc Ha; [exact Ha|]. cbn [fold_left]. apply IH. now apply merge_add_nodup. }
    apply H. constructor.
  Qed.
  (* on a duplicate-free list merging is the identity *)
  Lemma merge_add_fresh k w acc : ~ In k (map fst acc) -> merge_add k w acc = acc ++ [(k, w)].
  Proof.
    induction acc as [|[k' w'] acc IH]; cbn; intros H; [reflexivity|].
    destruct (Nat.eqb_spec k k') as [->|Hne]; [exfalso; apply H; now left|]. f_equal. apply IH. tauto.
  Qed.
  Lemma merge_all_nodup_id l : NoDup (map fst l) -> merge_all l = l.
  Proof.
    unfold Prune.merge_all. assert (H : forall acc, NoDup (map fst (acc ++ l)) ->
      fold_left (fun a kw => merge_add (fst kw) (snd kw) a) l acc = acc ++ l).
    { induction l as [|[k w] l IH]; intros acc Ha; [now rewrite app_nil_r|]. cbn [fold_left fst snd].
      rewrite merge_add_fresh.
      - rewrite IH; rewrite <- app_assoc; [reflexivity | exact Ha].
      - rewrite map_app in Ha. cbn in Ha. apply NoDup_remove_2 in Ha. intro Hin. apply Ha. apply in_or_app. now left. }
    intros Hl. apply (H []). exact Hl.
  Qed.

  Lemma expand_sum_keys (new : table) ws ks k w : NF new -> Forall (fun j => j < length new) ks ->
    In (k, w) (expand_sum new ws ks) -> ~ is_sum new k.
  Proof.
    intros Hnf Hks Hin. unfold Prune.expand_sum in Hin. apply in_flat_map in Hin. destruct Hin as [[w' k'] [Hc Hin]].
    apply in_combine_r in Hc. rewrite Forall_forall in Hks. specialize (Hks k' Hc).
    destruct (nkind (nth k' new dnode)) as [l|ws'|] eqn:E.
    - destruct Hin as [Heq|[]]. inversion Heq; subst. intros [ws2 H2]. congruence.
    - apply in_combine_l in Hin. unfold NF in Hnf. rewrite Forall_forall in Hnf.
      specialize (Hnf _ (nth_In new dnode Hks)). unfold nfP in Hnf. rewrite E in Hnf. destruct Hnf as (_ & _ & _ & H4). now apply H4.
    - destruct Hin as [Heq|[]]. inversion Heq; subst. intros [ws2 H2]. congruence.
  Qed.
  Lemma expand_prod_keys (new : table) ks k : NF new -> Forall (fun j => j < length new) ks ->
    In k (expand_prod new ks) -> ~ is_prod new k.
  Proof.
    intros Hnf Hks Hin. unfold Prune.expand_prod in Hin. apply in_flat_map in Hin. destruct Hin as [k' [Hk' Hin]].
    rewrite Forall_forall in Hks. specialize (Hks k' Hk').
    destruct (nkind (nth k' new dnode)) as [l|ws'|] eqn:E.
    - destruct Hin as [<-|[]]. unfold is_prod. congruence.
    - destruct Hin as [<-|[]]. unfold is_prod. congruence.
    - unfold NF in Hnf. rewrite Forall_forall in Hnf. specialize (Hnf _ (nth_In new dnode Hks)).
      unfold nfP in Hnf. rewrite E in Hnf. destruct Hnf as [_ H2]. now apply H2.
  Qed.
  Lemma expand_prod_length (new : table) ks : NF new -> Forall (fun j => j < length new) ks ->
    (forall k, In k ks -> is_prod new k -> nkids (nth k new dnode) <> []) -> 2 <= length ks -> 2 <= length (expand_prod new ks).
  Proof.
    intros Hnf Hks Hne Hl. unfold Prune.expand_prod.
    assert (H1 : forall k, In k ks -> 1 <= length (match nkind (nth k new dnode) with KProd => nkids (nth k new dnode) | _ => [k] end)).
    { intros k Hk. destruct (nkind (nth k new dnode)) eqn:E; cbn; try lia.
      specialize (Hne k Hk E). destruct (nkids (nth k new dnode)); [congruence | cbn; lia]. }
    destruct ks as [|a [|b ks']]; cbn in Hl; try lia. cbn [flat_map]. rewrite !app_length.
    pose proof (H1 a ltac:(now left)). pose proof (H1 b ltac:(right; now left)). lia.
  Qed.

  Record Inv2 (t : table) (st : pstate T leaf) : Prop := {
    i2_len : length (snd st) = length t;
    i2_rng : forall i, i < length t -> nth i (snd st) 0 < length (fst st);
    i2_wf : wf (fst st);
    i2_nf : NF (fst st);
    i2_prodne : forall k, k < length (fst st) -> is_prod (fst st) k -> nkids (nth k (fst st) dnode) <> [] }.

  Lemma NF_snoc (new : table) n : wf new -> NF new -> Forall (fun k => k < length new) (nkids n) -> nfP new n -> NF (new ++ [n]).
  Proof.
    intros Hw Hnf Hk Hn. unfold NF. apply Forall_app. split.
    - rewrite Forall_forall. intros m Hm. destruct (In_nth _ _ dnode Hm) as [j [Hj Hnth]]. subst m.
      apply nfP_app; [|unfold NF in Hnf; rewrite Forall_forall in Hnf; apply Hnf, nth_In, Hj].
      specialize (Hw j Hj). eapply Forall_impl; [|exact Hw]. cbn. intros; lia.
    - constructor; [|constructor]. now apply nfP_app.
  Qed.

  (* products of the input have at least one child (check_spn rejects childless inner nodes) *)
  Definition prod_nonempty (n : node) : Prop := match nkind n with KProd => nkids n <> [] | _ => True end.

  Theorem prune_step_nf t st n : PruneFacts.wf T leaf (t ++ [n]) -> shaped n -> prod_nonempty n ->
      Inv2 t st -> Inv2 (t ++ [n]) (prune_step st n).
  Proof.
    intros Hwf Hsh Hpn [Hlen Hrng Hwfn Hnf Hpne]. destruct st as [new m]. cbn [fst snd] in *.
    assert (Hkids : Forall (fun k => k < length t) (nkids n)).
    { specialize (Hwf (length t)). rewrite app_length, app_nth2, Nat.sub_diag in Hwf by lia. apply Hwf. cbn. lia. }
    set (ks := map (fun k => nth k m 0) (nkids n)).
    assert (Hks : Forall (fun k => k < length new) ks).
    { unfold ks. rewrite Forall_map. rewrite Forall_forall in *. intros k Hk. apply Hrng, Hkids, Hk. }
    assert (Hkeep : forall k, k < length new -> Inv2 (t ++ [n]) (new, m ++ [k])).
    { intros k Hk. constructor; cbn [fst snd]; auto.
      - rewrite !app_length, Hlen. reflexivity.
      - intros i Hi. rewrite app_length in Hi. cbn in Hi. destruct (Nat.eq_dec i (length t)) as [->|Hne].
        + rewrite <- Hlen, app_nth2, Nat.sub_diag by lia. exact Hk.
        + rewrite app_nth1 by lia. apply Hrng. lia. }
    assert (Happend : forall n', Forall (fun k => k < length new) (nkids n') -> nfP new n' ->
                      (nkind n' = KProd -> nkids n' <> []) ->
                      Inv2 (t ++ [n]) (new ++ [n'], m ++ [length new])).
    { intros n' Hk' Hn' Hp'. constructor; cbn [fst snd].
      - rewrite !app_length, Hlen. reflexivity.
      - intros i Hi. rewrite app_length in Hi. cbn in Hi. rewrite app_length. cbn.
        destruct (Nat.eq_dec i (length t)) as [->|Hne].
        + rewrite <- Hlen, app_nth2, Nat.sub_diag by lia. cbn. lia.
        + rewrite app_nth1 by lia. specialize (Hrng i ltac:(lia)). lia.
      - now apply wf_snoc.
      - now apply NF_snoc.
      - intros k Hk Hp. rewrite app_length in Hk. cbn in Hk. unfold is_prod in Hp.
        destruct (Nat.eq_dec k (length new)) as [->|Hne].
        + rewrite app_nth2, Nat.sub_diag in Hp |- * by lia. cbn in *. now apply Hp'.
        + rewrite app_nth1 in Hp |- * by lia. apply Hpne; [lia | exact Hp]. }
    unfold Prune.prune_step. unfold shaped, prod_nonempty in *. destruct (nkind n) as [l|ws|] eqn:Ek.
    - apply Happend; [constructor | unfold nfP; cbn; reflexivity | cbn; discriminate].
    - fold ks.
      set (acc := merge_all (expand_sum new ws ks)).
      assert (Hin : forall k w, In (k, w) acc -> k < length new /\ ~ is_sum new k).
      { intros k w Hkw. destruct (merge_all_keys T tadd _ _ _ Hkw) as [w' H']. split; [|now apply (expand_sum_keys new ws ks k w')].
        unfold Prune.expand_sum in H'. apply in_flat_map in H'. destruct H' as [[w2 k2'] [Hc H']].
        apply in_combine_r in Hc. rewrite Forall_forall in Hks. specialize (Hks k2' Hc).
        destruct (nkind (nth k2' new dnode)) eqn:E.
        - destruct H' as [Heq|[]]. inversion Heq; subst. exact Hks.
        - apply in_combine_l in H'. specialize (Hwfn k2' Hks). rewrite Forall_forall in Hwfn. specialize (Hwfn k H'). lia.
        - destruct H' as [Heq|[]]. inversion Heq; subst. exact Hks. }
      assert (Hacc : length acc <> 1 ->
                Inv2 (t ++ [n]) (new ++ [Build_node (KSum (map snd acc)) (nscope n) (map fst acc)], m ++ [length new])).
      { intros Hl1. apply Happend; cbn [nkids nkind]; [| | discriminate].
        - rewrite Forall_forall. intros k Hk. apply in_map_iff in Hk. destruct Hk as [[k' w] [<- Hk]]. now apply (Hin k' w).
        - unfold nfP. cbn [nkind nkids]. split; [now rewrite !map_length|]. split; [now rewrite map_length|].
          split; [apply merge_all_nodup|].
          intros k Hk. apply in_map_iff in Hk. destruct Hk as [[k' w] [<- Hk]]. now apply (Hin k' w). }
      destruct ks as [|k1 [|k2 ks']] eqn:Eks.
      + assert (Hnil : acc = []) by (unfold acc, Prune.expand_sum; destruct ws; reflexivity).
        rewrite Hnil in *. apply Hacc. cbn. lia.
      + inversion Hks; subst. now apply Hkeep.
      + destruct acc as [|[k w] [|p acc']] eqn:Eacc.
        * apply Hacc. cbn. lia.
        * apply Hkeep. apply (Hin k w). now left.
        * apply Hacc. cbn. lia.
    - fold ks. destruct ks as [|k1 [|k2 ks']] eqn:Eks.
      + (* a childless product is excluded by prod_nonempty *)
        exfalso. unfold ks in Eks. destruct (nkids n); [now apply Hpn | discriminate].
      + inversion Hks; subst. now apply Hkeep.
      + apply Happend; cbn [nkids nkind].
        * unfold Prune.expand_prod. rewrite Forall_forall. intros k Hk. apply in_flat_map in Hk. destruct Hk as [k' [Hk' Hk]].
          rewrite Forall_forall in Hks. specialize (Hks k' Hk'). destruct (nkind (nth k' new dnode)).
          -- destruct Hk as [<-|[]]. exact Hks.
          -- destruct Hk as [<-|[]]. exact Hks.
          -- specialize (Hwfn k' Hks). rewrite Forall_forall in Hwfn. specialize (Hwfn k Hk). lia.
        * unfold nfP. cbn [nkind nkids]. split.
          -- pose proof (expand_prod_length new (k1 :: k2 :: ks') Hnf Hks) as Hl.
             assert (2 <= length (expand_prod new (k1 :: k2 :: ks'))); [|lia].
             apply Hl; [|cbn; lia]. intros k Hk Hp. apply Hpne; [|exact Hp]. rewrite Forall_forall in Hks. now apply Hks.
          -- intros k Hk. now apply (expand_prod_keys new (k1 :: k2 :: ks')).
        * intros _. pose proof (expand_prod_length new (k1 :: k2 :: ks') Hnf Hks) as Hl.
          assert (2 <= length (expand_prod new (k1 :: k2 :: ks'))).
          { apply Hl; [|cbn; lia]. intros k Hk Hp. apply Hpne; [|exact Hp]. rewrite Forall_forall in Hks. now apply Hks. }
          destruct (expand_prod new (k1 :: k2 :: ks')); [cbn in H; lia | discriminate].
  Qed.

  Lemma inv2_init : Inv2 [] ([], []).
  Proof. constructor; cbn; try reflexivity; try (intros; lia); [intros j Hj; cbn in Hj; lia | constructor]. Qed.

  (* C09 normal form: every node of the rebuilt table is in normal form *)
  Theorem prune_nf t : PruneFacts.wf T leaf t -> Forall shaped t -> Forall prod_nonempty t -> Inv2 t (prune_state t).
  Proof.
    unfold Prune.prune_state. induction t as [|n t IH] using rev_ind; intros Hwf Hs Hp; [apply inv2_init|].
    rewrite fold_left_app. cbn [fold_left]. apply Forall_app in Hs, Hp. destruct Hs as [Hs1 Hs2], Hp as [Hp1 Hp2].
    inversion Hs2; inversion Hp2; subst. apply prune_step_nf; auto.
    apply IH; auto. intros j Hj. specialize (Hwf j). rewrite app_length, app_nth1 in Hwf by lia. apply Hwf. lia.
  Qed.

  (* ---- pruning a normal form is the identity ---- *)
  Lemma nfP_app_inv (a ext : table) n : Forall (fun k => k < length a) (nkids n) -> nfP (a ++ ext) n -> nfP a n.
  Proof.
    intros Hk H. unfold nfP, is_sum, is_prod in *. rewrite Forall_forall in Hk.
    destruct (nkind n); [exact H| |].
    - destruct H as (H1 & H2 & H3 & H4). repeat split; auto. intros k Hin. rewrite <- (nth_app_old a ext) by auto. now apply H4.
    - destruct H as (H1 & H2). split; auto. intros k Hin. rewrite <- (nth_app_old a ext) by auto. now apply H2.
  Qed.
  Lemma map_nth_seq ks L : Forall (fun k => k < L) ks -> map (fun k => nth k (seq 0 L) 0) ks = ks.
  Proof.
    induction 1 as [|k ks Hk Hks IH]; [reflexivity|]. cbn. rewrite seq_nth by exact Hk. now rewrite IH.
  Qed.
  Lemma expand_sum_nf (new : table) ws ks : length ws = length ks -> (forall k, In k ks -> ~ is_sum new k) ->
    expand_sum new ws ks = combine ks ws.
  Proof.
    unfold Prune.expand_sum. revert ks. induction ws as [|w ws IH]; intros [|k ks] Hl Hn; cbn in *; try lia; [reflexivity|].
    rewrite IH by (try lia; intros; apply Hn; now right).
    destruct (nkind (nth k new dnode)) as [l|ws'|] eqn:E; try reflexivity.
    exfalso. apply (Hn k (or_introl eq_refl)). now exists ws'.
  Qed.
  Lemma expand_prod_nf (new : table) ks : (forall k, In k ks -> ~ is_prod new k) -> expand_prod new ks = ks.
  Proof.
    unfold Prune.expand_prod. induction ks as [|k ks IH]; intros Hn; cbn; [reflexivity|].
    rewrite IH by (intros; apply Hn; now right).
    destruct (nkind (nth k new dnode)) eqn:E; try reflexivity. exfalso. now apply (Hn k (or_introl eq_refl)).
  Qed.
  Lemma combine_fst {A B} (l : list A) (l' : list B) : length l = length l' -> map fst (combine l l') = l.
  Proof. revert l'. induction l; destruct l'; cbn; intros; try lia; [reflexivity | f_equal; apply IHl; lia]. Qed.
  Lemma combine_snd {A B} (l : list A) (l' : list B) : length l = length l' -> map snd (combine l l') = l'.
  Proof. revert l'. induction l; destruct l'; cbn; intros; try lia; [reflexivity | f_equal; apply IHl; lia]. Qed.
  Lemma node_eta (n : node) : Build_node (nkind n) (nscope n) (nkids n) = n.
  Proof. now destruct n. Qed.

  Theorem prune_nf_fixpoint t : PruneFacts.wf T leaf t -> (forall j, j < length t -> nfP t (nth j t dnode)) ->
      prune_state t = (t, seq 0 (length t)).
  Proof.
    unfold Prune.prune_state. induction t as [|n t IH] using rev_ind; intros Hwf Hnf; [reflexivity|].
    assert (Hkids : Forall (fun k => k < length t) (nkids n)).
    { specialize (Hwf (length t)). rewrite app_length, app_nth2, Nat.sub_diag in Hwf by lia. apply Hwf. cbn. lia. }
    assert (Hwft : PruneFacts.wf T leaf t).
    { intros j Hj. specialize (Hwf j). rewrite app_length, app_nth1 in Hwf by lia. apply Hwf. lia. }
    rewrite fold_left_app. cbn [fold_left]. rewrite IH.
    2: exact Hwft.
    2:{ intros j Hj. specialize (Hnf j). rewrite app_length, app_nth1 in Hnf by lia.
        apply (nfP_app_inv t [n]); [|apply Hnf; lia]. specialize (Hwft j Hj). eapply Forall_impl; [|exact Hwft]. cbn. intros; lia. }
    pose proof (Hnf (length t)) as Hn. rewrite app_length, app_nth2, Nat.sub_diag in Hn by lia. cbn [nth] in Hn.
    specialize (Hn ltac:(cbn; lia)). apply (nfP_app_inv t [n]) in Hn; [|exact Hkids].
    unfold Prune.prune_step. rewrite (map_nth_seq _ _ Hkids). rewrite app_length, seq_app. cbn [length seq Nat.add].
    unfold nfP in Hn. destruct (nkind n) as [l|ws|] eqn:Ek.
    - rewrite <- Hn, <- Ek, node_eta. reflexivity.
    - destruct Hn as (Hl & H1 & Hnd & Hns).
      rewrite expand_sum_nf by (auto).
      rewrite merge_all_nodup_id by (rewrite combine_fst by (now symmetry); exact Hnd).
      assert (Hc1 : map fst (combine (nkids n) ws) = nkids n) by (apply combine_fst; now symmetry).
      assert (Hc2 : map snd (combine (nkids n) ws) = ws) by (apply combine_snd; now symmetry).
      destruct (nkids n) as [|k1 [|k2 ks']] eqn:Ekids.
      + destruct ws; [|discriminate]. cbn. rewrite <- Ekids, <- Ek at 1. now rewrite node_eta.
      + cbn in H1. lia.
      + destruct (combine (k1 :: k2 :: ks') ws) as [|[k w] [|p acc']] eqn:Ec.
        * destruct ws; cbn in Ec; discriminate.
        * exfalso. destruct ws as [|w1 [|w2 ws']]; cbn in Ec, Hl; try lia; discriminate.
        * rewrite Hc1, Hc2, <- Ekids. rewrite <- Ek at 1. now rewrite node_eta.
    - destruct Hn as (H1 & Hnp). rewrite expand_prod_nf by exact Hnp.
      destruct (nkids n) as [|k1 [|k2 ks']] eqn:Ekids.
      + rewrite <- Ekids. rewrite <- Ek at 1. now rewrite node_eta.
      + cbn in H1. lia.
      + rewrite <- Ekids. rewrite <- Ek at 1. now rewrite node_eta.
  Qed.

  (* idempotence: pruning the pruned table returns the same table and the identity map *)
  Theorem prune_idempotent t : PruneFacts.wf T leaf t -> Forall shaped t -> Forall prod_nonempty t ->
      let t' := fst (prune_state t) in prune_state t' = (t', seq 0 (length t')).
  Proof.
    intros Hwf Hs Hp t'. destruct (prune_nf t Hwf Hs Hp) as [_ _ Hw Hnf _]. fold t' in Hw, Hnf.
    apply prune_nf_fixpoint; [exact Hw|]. intros j Hj. unfold NF in Hnf. rewrite Forall_forall in Hnf. apply Hnf, nth_In, Hj.
  Qed.
End PruneNF.
