(* Proofs/CltPositive.v — C06, positivity clause for Chow-Liu tree leaves: decoding with max-product
   messages keeps the SUM-product probability of the evidence positive.  Two additions over the same
   carrier: tadd (sum; the circuit value) and tmx (selective max; what BinaryCLT.mpe propagates). *)
From Coq Require Import List Arith ZArith Lia Bool.
From DV Require Import Model.Core Model.Clt Model.Mpe Proofs.CoreFacts Proofs.CltFacts Proofs.MpeFacts.
Import ListNotations.

Section CltPositive.
  Variable T : Type.
  Variables (t0 t1 : T) (tadd tmx tmul : T -> T -> T).
  Infix "*" := tmul.
  Variables (pos nonneg : T -> Prop).
  Hypothesis pos_nonneg : forall a, pos a -> nonneg a.
  Hypothesis nonneg_0 : nonneg t0.
  Hypothesis nonneg_1 : nonneg t1.
  Hypothesis pos_1 : pos t1.
  Hypothesis not_pos_0 : ~ pos t0.
  Hypothesis nonneg_add : forall a b, nonneg a -> nonneg b -> nonneg (tadd a b).
  Hypothesis nonneg_mul : forall a b, nonneg a -> nonneg b -> nonneg (a * b).
  Hypothesis pos_add_inv : forall a b, nonneg a -> nonneg b -> pos (tadd a b) -> pos a \/ pos b.
  Hypothesis pos_add_l : forall a b, pos a -> nonneg b -> pos (tadd a b).
  Hypothesis pos_add_r : forall a b, nonneg a -> pos b -> pos (tadd a b).
  Hypothesis pos_mul_inv : forall a b, nonneg a -> nonneg b -> pos (a * b) -> pos a /\ pos b.
  Hypothesis pos_mul : forall a b, pos a -> pos b -> pos (a * b).
  Variable sel : T -> T -> bool.
  Hypothesis tmx_sel : forall a b, tmx a b = if sel a b then a else b.
  Hypothesis sel_pos_l : forall a b, sel a b = true -> pos b -> pos a.
  Hypothesis sel_pos_r : forall a b, sel a b = false -> pos a -> pos b.

  Notation prodT := (prodT T t1 tmul).
  Notation ups := (up T t0 t1 tadd tmul).     (* sum-product *)
  Notation upm := (up T t0 t1 tmx tmul).      (* max-product *)
  Notation vars := (vars T).
  Notation assign := (assign T t0 t1 tmx tmul sel).

  Inductive ct_nonneg : ctree T -> Prop :=
  | ct_nn v cpt kids : (forall a b, nonneg (cpt a b)) -> Forall ct_nonneg kids -> ct_nonneg (CT v cpt kids).

  Lemma nonneg_prod l : Forall nonneg l -> nonneg (prodT l).
  Proof. induction 1; cbn; auto. Qed.
  Lemma pos_prod l : Forall pos l -> pos (prodT l).
  Proof. induction 1; cbn; auto. Qed.
  Lemma pos_prod_inv l : Forall nonneg l -> pos (prodT l) -> Forall pos l.
  Proof.
    induction 1 as [|x l Hx Hl IH]; cbn; intros Hp; [constructor|].
    destruct (pos_mul_inv _ _ Hx (nonneg_prod l Hl) Hp). constructor; auto.
  Qed.
  Lemma nonneg_mx a b : nonneg a -> nonneg b -> nonneg (tmx a b).
  Proof. intros. rewrite tmx_sel. now destruct (sel a b). Qed.
  Lemma pos_mx a b : pos (tmx a b) <-> pos a \/ pos b.
  Proof.
    rewrite tmx_sel. destruct (sel a b) eqn:E; split; auto.
    - intros [H|H]; [exact H | now apply (sel_pos_l a b)].
    - intros [H|H]; [now apply (sel_pos_r a b) | exact H].
  Qed.

  (* both message-passing values are non-negative and positive together *)
  Lemma up_nonneg_both t : ct_nonneg t -> forall pv r,
      nonneg (ups t pv r) /\ nonneg (upm t pv r) /\ (pos (ups t pv r) <-> pos (upm t pv r)).
  Proof.
    induction t as [u cpt kids IH] using (ctree_ind' T). intros Hn pv r. inversion Hn as [? ? ? Hc Hk]; subst.
    rewrite Forall_forall in IH, Hk.
    assert (Hterm : forall x,
               nonneg (cpt pv x * prodT (map (fun k => ups k x r) kids)) /\
               nonneg (cpt pv x * prodT (map (fun k => upm k x r) kids)) /\
               (pos (cpt pv x * prodT (map (fun k => ups k x r) kids)) <->
                pos (cpt pv x * prodT (map (fun k => upm k x r) kids)))).
    { intro x.
      assert (Hs : Forall nonneg (map (fun k => ups k x r) kids)).
      { rewrite Forall_map, Forall_forall. intros k Hin. apply (IH k Hin (Hk k Hin)). }
      assert (Hm : Forall nonneg (map (fun k => upm k x r) kids)).
      { rewrite Forall_map, Forall_forall. intros k Hin. apply (IH k Hin (Hk k Hin)). }
      split; [apply nonneg_mul; [apply Hc | now apply nonneg_prod]|].
      split; [apply nonneg_mul; [apply Hc | now apply nonneg_prod]|].
      split; intros Hp.
      - destruct (pos_mul_inv _ _ (Hc pv x) (nonneg_prod _ Hs) Hp) as [H1 H2]. apply pos_mul; [exact H1|].
        apply pos_prod. pose proof (pos_prod_inv _ Hs H2) as H3. rewrite Forall_map, Forall_forall in H3 |- *.
        intros k Hin. apply (IH k Hin (Hk k Hin)). now apply H3.
      - destruct (pos_mul_inv _ _ (Hc pv x) (nonneg_prod _ Hm) Hp) as [H1 H2]. apply pos_mul; [exact H1|].
        apply pos_prod. pose proof (pos_prod_inv _ Hm H2) as H3. rewrite Forall_map, Forall_forall in H3 |- *.
        intros k Hin. apply (IH k Hin (Hk k Hin)). now apply H3. }
    cbn [Clt.up]. destruct (r u) as [x|]; [apply Hterm|].
    cbn [map dom2 Core.sumT].
    destruct (Hterm 0%Z) as (A1 & A2 & A3). destruct (Hterm 1%Z) as (B1 & B2 & B3).
    set (a := cpt pv 0%Z * prodT (map (fun k => ups k 0%Z r) kids)) in *.
    set (b := cpt pv 1%Z * prodT (map (fun k => ups k 1%Z r) kids)) in *.
    set (a' := cpt pv 0%Z * prodT (map (fun k => upm k 0%Z r) kids)) in *.
    set (b' := cpt pv 1%Z * prodT (map (fun k => upm k 1%Z r) kids)) in *.
    split; [auto|]. split; [repeat apply nonneg_mx; auto|].
    rewrite !pos_mx. split.
    - intros Hp. destruct (pos_add_inv a (tadd b t0) A1 (nonneg_add _ _ B1 nonneg_0) Hp) as [H|H]; [left; tauto|].
      destruct (pos_add_inv b t0 B1 nonneg_0 H) as [H'|H']; [right; left; tauto | contradiction].
    - intros [H|[H|H]]; [| |contradiction].
      + apply pos_add_l; [tauto | auto].
      + apply pos_add_r; [exact A1|]. apply pos_add_l; [tauto | exact nonneg_0].
  Qed.

  (* decoding keeps the sum-product value positive *)
  Theorem clt_decode_pos t : ct_nonneg t -> NoDup (vars t) -> forall pv r,
      pos (ups t pv r) -> pos (ups t pv (apply_assign (assign t pv r) r)).
  Proof.
    induction t as [u cpt kids IH] using (ctree_ind' T). intros Hn Hnd pv r Hp.
    inversion Hn as [? ? ? Hc Hk]; subst. rewrite Forall_forall in IH, Hk.
    cbn in Hnd. apply NoDup_cons_iff in Hnd. destruct Hnd as [Hu Hnd].
    rewrite (assign_eq T t0 t1 tmx tmul sel).
    set (x := chosen T t0 t1 tmx tmul sel cpt kids pv r u).
    set (own := match r u with None => [(u, x)] | Some _ => [] end).
    set (r' := apply_assign (own ++ flat_map (fun k => assign k x r) kids) r).
    assert (Hownu : forall w, In w (map fst own) -> w = u).
    { unfold own. destruct (r u); cbn; [tauto | intros w [<-|[]]; reflexivity]. }
    assert (Hr'u : r' u = Some x).
    { unfold r'. rewrite apply_assign_app. rewrite apply_assign_notin.
      - unfold own. destruct (r u) eqn:E; cbn; [| apply upd_same].
        rewrite E. f_equal. unfold x, chosen. now rewrite E.
      - intro Hin. rewrite flat_map_concat_map, concat_map, map_map, in_concat in Hin.
        destruct Hin as [l [Hl Hv]]. apply in_map_iff in Hl. destruct Hl as [k [<- Hk']].
        apply (assign_vars T t0 t1 tmx tmul sel) in Hv. apply Hu. apply in_flat_map. exists k. tauto. }
    (* the term selected for u is positive under the sum-product messages *)
    assert (Hx : pos (cpt pv x * prodT (map (fun k => ups k x r) kids))).
    { cbn [Clt.up] in Hp. unfold x, chosen. destruct (r u) as [y|] eqn:E; [exact Hp|].
      cbn [map dom2 Core.sumT] in Hp.
      assert (Ht : forall y, nonneg (cpt pv y * prodT (map (fun k => ups k y r) kids)) /\
                   (pos (cpt pv y * prodT (map (fun k => ups k y r) kids)) <->
                    pos (cpt pv y * prodT (map (fun k => upm k y r) kids)))).
      { intro y. pose proof (up_nonneg_both (CT u cpt kids) Hn pv (upd r u (Some y))) as H.
        cbn [Clt.up] in H. rewrite upd_same in H.
        assert (He : forall A (F : ctree T -> Z -> row -> A), map (fun k => F k y (upd r u (Some y))) kids = map (fun k => F k y r) kids -> True) by auto.
        assert (Hes : map (fun k => ups k y (upd r u (Some y))) kids = map (fun k => ups k y r) kids).
        { apply map_ext_in. intros k Hin. apply up_local. intro Hv. apply Hu. apply in_flat_map. eauto. }
        assert (Hem : map (fun k => upm k y (upd r u (Some y))) kids = map (fun k => upm k y r) kids).
        { apply map_ext_in. intros k Hin. apply up_local. intro Hv. apply Hu. apply in_flat_map. eauto. }
        rewrite Hes, Hem in H. tauto. }
      destruct (Ht 0%Z) as [A1 A3]. destruct (Ht 1%Z) as [B1 B3].
      set (a := cpt pv 0%Z * prodT (map (fun k => ups k 0%Z r) kids)) in *.
      set (b := cpt pv 1%Z * prodT (map (fun k => ups k 1%Z r) kids)) in *.
      set (a' := cpt pv 0%Z * prodT (map (fun k => upm k 0%Z r) kids)) in *.
      set (b' := cpt pv 1%Z * prodT (map (fun k => upm k 1%Z r) kids)) in *.
      assert (Hab : pos a \/ pos b).
      { destruct (pos_add_inv a (tadd b t0) A1 (nonneg_add _ _ B1 nonneg_0) Hp) as [H|H]; [now left|].
        destruct (pos_add_inv b t0 B1 nonneg_0 H) as [H'|H']; [now right | contradiction]. }
      destruct (sel a' b') eqn:Es.
      - apply A3. destruct Hab as [H|H]; [tauto|]. apply (sel_pos_l a' b' Es). tauto.
      - apply B3. destruct Hab as [H|H]; [|tauto]. apply (sel_pos_r a' b' Es). tauto. }
    assert (Hs : Forall nonneg (map (fun k => ups k x r) kids)).
    { rewrite Forall_map, Forall_forall. intros k Hin. apply (up_nonneg_both k (Hk k Hin)). }
    destruct (pos_mul_inv _ _ (Hc pv x) (nonneg_prod _ Hs) Hx) as [Hcx Hpx].
    pose proof (pos_prod_inv _ Hs Hpx) as Hkids. rewrite Forall_map, Forall_forall in Hkids.
    change (pos (ups (CT u cpt kids) pv r')). cbn [Clt.up]. rewrite Hr'u.
    apply pos_mul; [exact Hcx|]. apply pos_prod. rewrite Forall_map, Forall_forall. intros k Hin.
    destruct (in_split _ _ Hin) as [ks1 [ks2 Heq]].
    assert (Hndk : NoDup (vars k)).
    { rewrite Heq, flat_map_app in Hnd. cbn in Hnd. apply nodup_app_r in Hnd. now apply nodup_app_l in Hnd. }
    rewrite (up_ext T t0 t1 tadd tmul k x r' (apply_assign (assign k x r) r)).
    - apply (IH k Hin (Hk k Hin) Hndk x r). now apply Hkids.
    - intros v Hv. unfold r'. now apply (kid_isolated T t0 t1 tmx tmul sel u own kids x r Hnd Hu Hownu k Hin v Hv).
  Qed.

  Lemma up_nonneg t : ct_nonneg t -> forall pv r, nonneg (ups t pv r).
  Proof. intros H pv r. apply (up_nonneg_both t H pv r). Qed.
End CltPositive.
