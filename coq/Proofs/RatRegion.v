(* Proofs/RatRegion.v — C16: the region graph of RegionGraph.random_layers for EVERY oracle
   permutation: consecutive region pairs partition their parent, leaves partition 0..n-1, leaf
   sizes are floor/ceil of n/2^depth, padding arithmetic (dummies = pad). *)
From Coq Require Import List Arith ZArith Lia Bool Permutation Sorted.
From DV Require Import Model.Rat.
Import ListNotations.
Local Opaque Nat.div Nat.modulo.

(* ---------- sorted(...) ---------- *)
Lemma insert_perm x l : Permutation (insert x l) (x :: l).
Proof.
  induction l as [|y l IH]; cbn; [reflexivity|].
  destruct (x <=? y); [reflexivity|].
  rewrite IH. apply perm_swap.
Qed.
Lemma isort_perm l : Permutation (isort l) l.
Proof. induction l as [|x l IH]; cbn; [reflexivity|]. now rewrite insert_perm, IH. Qed.
Lemma isort_length l : length (isort l) = length l.
Proof. apply Permutation_length, isort_perm. Qed.

Lemma insert_sorted x l : StronglySorted le l -> StronglySorted le (insert x l).
Proof.
  induction 1 as [|y l Hs IH Hall]; cbn; [repeat constructor|].
  destruct (Nat.leb_spec x y).
  - constructor; [now constructor|]. constructor; [exact H|].
    eapply Forall_impl; [|exact Hall]. cbn. intros; lia.
  - constructor; [exact IH|].
    eapply Permutation_Forall; [symmetry; apply insert_perm|].
    constructor; [lia|exact Hall].
Qed.
Lemma isort_sorted l : StronglySorted le (isort l).
Proof. induction l; cbn; [constructor|now apply insert_sorted]. Qed.

(* ---------- one split ---------- *)
Lemma split_region_perm r p : Permutation p r ->
  Permutation (concat (split_region r p)) r.
Proof.
  intros H. unfold split_region. cbn. rewrite app_nil_r, !isort_perm, firstn_skipn. exact H.
Qed.

Lemma split_region_sizes r p : Permutation p r ->
  map (@length nat) (split_region r p) = [length r / 2; length r - length r / 2].
Proof.
  intros H. unfold split_region. cbn. rewrite !isort_length, firstn_length, skipn_length.
  rewrite (Permutation_length H).
  assert (Hle : length r / 2 <= length r) by (apply Nat.div_le_upper_bound; lia).
  rewrite (Nat.min_l _ _ Hle). reflexivity.
Qed.

(* admissible oracle answers: one permutation of each region, at every level *)
Fixpoint adm (regs : list (list nat)) (perms : list (list (list nat))) : Prop :=
  match perms with
  | [] => True
  | ps :: rest => Forall2 (@Permutation nat) ps regs /\ adm (split_level regs ps) rest
  end.

(* "consecutive region pairs partition their parent" *)
Definition is_partition (r : list nat) (ab : list nat * list nat) : Prop :=
  Permutation (fst ab ++ snd ab) r /\ fst ab <> [] /\ snd ab <> [] /\
  StronglySorted le (fst ab) /\ StronglySorted le (snd ab).

Lemma length_pos_nonnil {A} (l : list A) : 0 < length l -> l <> [].
Proof. destruct l; cbn; [lia|discriminate]. Qed.

Lemma split_level_partitions regs ps : Forall2 (@Permutation nat) ps regs ->
  Forall (fun r => 2 <= length r) regs ->
  Forall2 is_partition regs (partitions_of (split_level regs ps)).
Proof.
  induction 1 as [|p r ps regs Hp Hall IH]; intros Hlen; cbn; [constructor|].
  inversion Hlen; subst. constructor; [|now apply IH].
  pose proof (split_region_sizes r p Hp) as Hs. unfold split_region in Hs. cbn in Hs.
  injection Hs as Hs1 Hs2.
  assert (1 <= length r / 2) by (apply Nat.div_le_lower_bound; lia).
  assert (length r / 2 < length r) by (apply Nat.div_lt; lia).
  unfold is_partition; cbn. repeat split.
  - pose proof (split_region_perm r p Hp) as Hq. unfold split_region in Hq. cbn in Hq.
    now rewrite app_nil_r in Hq.
  - apply length_pos_nonnil. lia.
  - apply length_pos_nonnil. lia.
  - apply isort_sorted.
  - apply isort_sorted.
Qed.

Lemma split_level_concat regs ps : Forall2 (@Permutation nat) ps regs ->
  Permutation (concat (split_level regs ps)) (concat regs).
Proof.
  induction 1 as [|p r ps regs Hp Hall IH]; [reflexivity|].
  cbn [split_level concat]. rewrite concat_app, (split_region_perm r p Hp), IH. reflexivity.
Qed.

Lemma split_level_length regs ps : Forall2 (@Permutation nat) ps regs ->
  length (split_level regs ps) = 2 * length regs.
Proof. induction 1; cbn in *; lia. Qed.

Theorem leaves_partition regs perms : adm regs perms ->
  Permutation (concat (leaves_of regs perms)) (concat regs).
Proof.
  revert regs. induction perms as [|ps rest IH]; intros regs H; cbn in *; [reflexivity|].
  destruct H as [H1 H2]. rewrite (IH _ H2). now apply split_level_concat.
Qed.

Lemma leaves_length regs perms : adm regs perms ->
  length (leaves_of regs perms) = length regs * 2 ^ length perms.
Proof.
  revert regs. induction perms as [|ps rest IH]; intros regs H; cbn [leaves_of length Nat.pow] in *; [lia|].
  destruct H as [H1 H2]. rewrite (IH _ H2), (split_level_length _ _ H1). lia.
Qed.

(* ---------- sizes: floor/ceil halving ---------- *)
Definition near (n j s : nat) : Prop :=
  n <= s * 2 ^ j + (2 ^ j - 1) /\ s * 2 ^ j <= n + (2 ^ j - 1).

Lemma pow2_pos j : 1 <= 2 ^ j.
Proof. induction j; cbn; lia. Qed.

Lemma near_half n j s : near n j s -> near n (S j) (s / 2) /\ near n (S j) (s - s / 2).
Proof.
  unfold near. intros [H1 H2]. pose proof (pow2_pos j) as HQ.
  pose proof (Nat.div_mod s 2 ltac:(lia)) as Hd.
  pose proof (Nat.mod_upper_bound s 2 ltac:(lia)) as Hm.
  set (h := s / 2) in *. set (Q := 2 ^ j) in *.
  replace (2 ^ S j) with (2 * Q) by (cbn; lia).
  assert (Hs : s = 2 * h + s mod 2) by lia.
  assert (E1 : h * (2 * Q) = (2 * h) * Q) by lia.
  assert (E2 : (s - h) * (2 * Q) = (2 * (s - h)) * Q) by lia.
  assert (B1 : s * Q <= (2 * h) * Q + Q) by nia.
  assert (B2 : (2 * h) * Q <= s * Q) by nia.
  assert (B3 : (2 * (s - h)) * Q <= s * Q + Q) by nia.
  assert (B4 : s * Q <= (2 * (s - h)) * Q) by nia.
  repeat split; lia.
Qed.

Lemma split_level_near n j regs ps : Forall2 (@Permutation nat) ps regs ->
  Forall (fun r => near n j (length r)) regs ->
  Forall (fun r => near n (S j) (length r)) (split_level regs ps).
Proof.
  induction 1 as [|p r ps regs Hp Hall IH]; intros Hn; cbn; [constructor|].
  inversion Hn as [|? ? Hr Hrest]; subst.
  pose proof (split_region_sizes r p Hp) as Hs. unfold split_region in Hs. cbn in Hs.
  injection Hs as H1 H2.
  destruct (near_half _ _ _ Hr) as [Ha Hb].
  constructor; [now rewrite H1|]. constructor; [now rewrite H2|]. now apply IH.
Qed.

Lemma leaves_near n j regs perms : adm regs perms ->
  Forall (fun r => near n j (length r)) regs ->
  Forall (fun r => near n (j + length perms) (length r)) (leaves_of regs perms).
Proof.
  revert j regs. induction perms as [|ps rest IH]; intros j regs H Hn; cbn [leaves_of length] in *.
  - now rewrite Nat.add_0_r.
  - destruct H as [H1 H2]. replace (j + S (length rest)) with (S j + length rest) by lia.
    apply IH; [exact H2|]. now apply split_level_near.
Qed.

(* ---------- padding arithmetic ---------- *)
Lemma pad_dim n d : 2 ^ d * dim_of n d = n + pad_of n d /\ pad_of n d < 2 ^ d.
Proof.
  unfold dim_of, pad_of. pose proof (pow2_pos d) as HQ. set (Q := 2 ^ d) in *.
  assert (HQ0 : Q <> 0) by lia.
  pose proof (Nat.mod_upper_bound n Q HQ0) as Hm.
  pose proof (Nat.div_mod n Q HQ0) as Hd.
  split; [|apply Nat.mod_upper_bound; lia].
  destruct (Nat.eq_dec (n mod Q) 0) as [E|E].
  - rewrite E, Nat.sub_0_r, Nat.mod_same, Nat.add_0_r by lia.
    rewrite E, Nat.add_0_r in Hd. symmetry. exact Hd.
  - rewrite (Nat.mod_small (Q - n mod Q)) by lia.
    replace (n + (Q - n mod Q)) with ((n / Q + 1) * Q) by lia.
    rewrite Nat.div_mul by lia. lia.
Qed.

Lemma near_dim n d s : 2 ^ d <= n -> near n d s ->
  1 <= s /\ s <= dim_of n d /\ dim_of n d <= S s.
Proof.
  intros Hn [H1 H2]. destruct (pad_dim n d) as [E Hp]. pose proof (pow2_pos d) as HQ.
  set (Q := 2 ^ d) in *. set (D := dim_of n d) in *. set (P := pad_of n d) in *.
  clearbody Q D P.
  repeat split.
  - destruct s; [cbn in H1; lia | lia].
  - destruct (Nat.le_gt_cases s D) as [|Hgt]; [assumption|exfalso].
    assert (Hm : (D + 1) * Q <= s * Q) by (apply Nat.mul_le_mono_r; lia).
    rewrite Nat.mul_add_distr_r, Nat.mul_1_l in Hm. rewrite (Nat.mul_comm Q D) in E. lia.
  - destruct (Nat.le_gt_cases D (S s)) as [|Hgt]; [assumption|exfalso].
    assert (Hm : (s + 2) * Q <= D * Q) by (apply Nat.mul_le_mono_r; lia).
    rewrite Nat.mul_add_distr_r in Hm. rewrite (Nat.mul_comm Q D) in E. lia.
Qed.

Lemma dummies_sum D (l : list (list nat)) : Forall (fun r => length r <= D) l ->
  list_sum (map (fun r => D - length r) l) + length (concat l) = length l * D.
Proof.
  induction 1 as [|r l Hr Hall IH]; [reflexivity|].
  change (D - length r + list_sum (map (fun r => D - length r) l) + length (r ++ concat l) = D + length l * D).
  rewrite app_length. lia.
Qed.

(* ---------- the region-graph theorem for one repetition ---------- *)
Lemma near_root n : near n 0 n.
Proof. unfold near. cbn. lia. Qed.

Theorem regions_leaves n perms : adm [items n] perms -> 2 ^ length perms <= n ->
  let d := length perms in
  let leaves := leaves_of [items n] perms in
  Permutation (concat leaves) (items n) /\
  length leaves = 2 ^ d /\
  Forall (fun r => 1 <= length r /\ length r <= dim_of n d /\ dim_of n d <= S (length r)) leaves /\
  list_sum (map (fun r => dim_of n d - length r) leaves) = pad_of n d.
Proof.
  intros Ha Hn d leaves.
  assert (Hperm : Permutation (concat leaves) (items n)).
  { unfold leaves. rewrite (leaves_partition _ _ Ha). cbn. now rewrite app_nil_r. }
  assert (Hlen : length leaves = 2 ^ d).
  { unfold leaves, d. rewrite (leaves_length _ _ Ha). cbn [length]. lia. }
  assert (Hsz : Forall (fun r => 1 <= length r /\ length r <= dim_of n d /\ dim_of n d <= S (length r)) leaves).
  { pose proof (leaves_near n 0 [items n] perms Ha) as Hnear. cbn [Nat.add] in Hnear.
    eapply Forall_impl; [|apply Hnear].
    - intros r Hr. now apply near_dim.
    - constructor; [|constructor]. unfold items. rewrite seq_length. apply near_root. }
  repeat split; try assumption.
  assert (Hle : Forall (fun r => length r <= dim_of n d) leaves)
    by (eapply Forall_impl; [|exact Hsz]; cbn; intros; lia).
  pose proof (dummies_sum _ _ Hle) as Hd.
  rewrite (Permutation_length Hperm), Hlen in Hd. unfold items in Hd. rewrite seq_length in Hd.
  destruct (pad_dim n d) as [E _]. lia.
Qed.

(* every intermediate level: consecutive pairs partition their parent (all levels of random_layers) *)
Fixpoint levels_ok (regs : list (list nat)) (perms : list (list (list nat))) : Prop :=
  match perms with
  | [] => True
  | ps :: rest => Forall2 is_partition regs (partitions_of (split_level regs ps)) /\
                  levels_ok (split_level regs ps) rest
  end.

Lemma near_ge2 n j k s : 2 ^ (j + S k) <= n -> near n j s -> 2 <= s.
Proof.
  intros Hn [H1 H2]. pose proof (pow2_pos j). pose proof (pow2_pos k).
  rewrite Nat.pow_add_r in Hn. cbn [Nat.pow] in Hn.
  destruct (Nat.le_gt_cases 2 s) as [|Hlt]; [assumption|exfalso].
  assert (s * 2 ^ j <= 1 * 2 ^ j) by (apply Nat.mul_le_mono_r; lia). nia.
Qed.

Lemma levels_partition n j regs perms : adm regs perms -> 2 ^ (j + length perms) <= n ->
  Forall (fun r => near n j (length r)) regs -> levels_ok regs perms.
Proof.
  revert j regs. induction perms as [|ps rest IH]; intros j regs Ha Hn Hnear; cbn; [exact I|].
  destruct Ha as [H1 H2]. cbn [length] in Hn. split.
  - apply split_level_partitions; [exact H1|].
    eapply Forall_impl; [|exact Hnear]. intros r Hr. eapply near_ge2; eauto.
  - apply (IH (S j)); [exact H2 | now replace (S j + length rest) with (j + S (length rest)) by lia |].
    now apply split_level_near.
Qed.

Theorem regions_levels n perms : adm [items n] perms -> 2 ^ length perms <= n ->
  levels_ok [items n] perms.
Proof.
  intros Ha Hn. apply (levels_partition n 0); [exact Ha | exact Hn |].
  constructor; [|constructor]. unfold items. rewrite seq_length. apply near_root.
Qed.

(* hypotheses are satisfiable: 7 features, depth 2 (the configuration of the repaired defect) *)
Example adm_example : adm [items 7] [[[3;0;6;1;5;2;4]]; [[6;0;3]; [4;1;5;2]]] /\ 2 ^ 2 <= 7.
Proof.
  cbn. split; [|lia]. repeat split; repeat constructor.
  - apply (Permutation_trans (l' := isort [3;0;6;1;5;2;4])); [symmetry; apply isort_perm | reflexivity].
  - apply (Permutation_trans (l' := isort [6;0;3])); [symmetry; apply isort_perm | reflexivity].
  - apply (Permutation_trans (l' := isort [4;1;5;2])); [symmetry; apply isort_perm | reflexivity].
Qed.
