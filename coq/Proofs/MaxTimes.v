(* Proofs/MaxTimes.v — the hypotheses of C06_clt_exact are satisfiable: max-times on the non-negative
   rationals is a selective commutative semiring (the max-product instance the code uses), and so is
   or-and on booleans.  Subset type with a boolean side condition: equality of elements follows
   from equality of values by UIP on bool (Eqdep_dec, axiom free). *)
From Coq Require Import List Bool ZArith QArith Qcanon Ring Eqdep_dec Lia.
From DV Require Import Model.Core Model.Clt Model.Mpe Proofs.MpeFacts.
Import ListNotations.

Lemma bool_srth : semi_ring_theory false true orb andb (@eq bool).
Proof. constructor; intros; repeat match goal with b : bool |- _ => destruct b end; reflexivity. Qed.
Lemma bool_sel : forall a b, orb a b = if a then a else b.
Proof. destruct a, b; reflexivity. Qed.

Definition nn (q : Qc) : bool := Qle_bool 0 (this q).
Definition nnq := { q : Qc | nn q = true }.
Lemma nnq_eq (a b : nnq) : proj1_sig a = proj1_sig b -> a = b.
Proof.
  destruct a as [a Ha], b as [b Hb]. cbn. intros ->. f_equal. apply UIP_dec. apply bool_dec.
Qed.
Lemma nn_le q : nn q = true <-> (0 <= q)%Qc.
Proof. unfold nn. rewrite Qle_bool_iff. reflexivity. Qed.

Lemma nn_0 : nn 0%Qc = true. Proof. reflexivity. Qed.
Lemma nn_1 : nn 1%Qc = true. Proof. reflexivity. Qed.
Lemma nn_mul a b : nn a = true -> nn b = true -> nn (a * b)%Qc = true.
Proof.
  rewrite !nn_le. intros Ha Hb. replace 0%Qc with (0 * b)%Qc by ring. now apply Qcmult_le_compat_r.
Qed.
Definition qcmax (a b : Qc) : Qc := if Qle_bool (this b) (this a) then a else b.
Lemma nn_max a b : nn a = true -> nn b = true -> nn (qcmax a b) = true.
Proof. unfold qcmax. intros. destruct (Qle_bool (this b) (this a)); assumption. Qed.

Definition nn0 : nnq := exist _ 0%Qc nn_0.
Definition nn1 : nnq := exist _ 1%Qc nn_1.
Definition nnmax (a b : nnq) : nnq := exist _ (qcmax (proj1_sig a) (proj1_sig b)) (nn_max _ _ (proj2_sig a) (proj2_sig b)).
Definition nnmul (a b : nnq) : nnq := exist _ (proj1_sig a * proj1_sig b)%Qc (nn_mul _ _ (proj2_sig a) (proj2_sig b)).
Definition nnsel (a b : nnq) : bool := Qle_bool (this (proj1_sig b)) (this (proj1_sig a)).

Lemma le_bool_iff a b : Qle_bool (this b) (this a) = true <-> (b <= a)%Qc.
Proof. rewrite Qle_bool_iff. reflexivity. Qed.
Lemma le_bool_false a b : Qle_bool (this b) (this a) = false -> (a < b)%Qc.
Proof.
  intros H. destruct (Qclt_le_dec a b) as [Hlt|Hle]; [exact Hlt|]. apply le_bool_iff in Hle. congruence.
Qed.

Lemma qcmax_comm a b : qcmax a b = qcmax b a.
Proof.
  unfold qcmax. destruct (Qle_bool (this b) (this a)) eqn:E1, (Qle_bool (this a) (this b)) eqn:E2; try reflexivity.
  - apply le_bool_iff in E1, E2. now apply Qcle_antisym.
  - apply le_bool_false in E1, E2. exfalso. apply (Qclt_not_le _ _ E1). now apply Qclt_le_weak.
Qed.
Lemma qcmax_ge_l a b : (a <= qcmax a b)%Qc.
Proof.
  unfold qcmax. destruct (Qle_bool (this b) (this a)) eqn:E; [apply Qcle_refl|]. apply le_bool_false in E. now apply Qclt_le_weak.
Qed.
Lemma qcmax_ge_r a b : (b <= qcmax a b)%Qc.
Proof. rewrite qcmax_comm. apply qcmax_ge_l. Qed.
Lemma qcmax_lub a b c : (a <= c)%Qc -> (b <= c)%Qc -> (qcmax a b <= c)%Qc.
Proof. unfold qcmax. destruct (Qle_bool (this b) (this a)); auto. Qed.
Lemma qcmax_assoc a b c : qcmax a (qcmax b c) = qcmax (qcmax a b) c.
Proof.
  apply Qcle_antisym.
  - apply qcmax_lub.
    + eapply Qcle_trans; [apply (qcmax_ge_l a b) | apply qcmax_ge_l].
    + apply qcmax_lub; [eapply Qcle_trans; [apply (qcmax_ge_r a b) | apply qcmax_ge_l] | apply qcmax_ge_r].
  - apply qcmax_lub.
    + apply qcmax_lub; [apply qcmax_ge_l | eapply Qcle_trans; [apply (qcmax_ge_l b c) | apply qcmax_ge_r]].
    + eapply Qcle_trans; [apply (qcmax_ge_r b c) | apply qcmax_ge_r].
Qed.
Lemma qcmax_0_l a : (0 <= a)%Qc -> qcmax 0%Qc a = a.
Proof.
  intros H. unfold qcmax. destruct (Qle_bool (this a) (this 0%Qc)) eqn:E; [|reflexivity].
  apply le_bool_iff in E. now apply Qcle_antisym.
Qed.
Lemma qcmax_mul_r a b c : (0 <= c)%Qc -> (qcmax a b * c = qcmax (a * c) (b * c))%Qc.
Proof.
  intros Hc. apply Qcle_antisym.
  - unfold qcmax at 1. destruct (Qle_bool (this b) (this a)); [apply qcmax_ge_l | apply qcmax_ge_r].
  - apply qcmax_lub; apply Qcmult_le_compat_r; auto; [apply qcmax_ge_l | apply qcmax_ge_r].
Qed.

Lemma nnq_srth : semi_ring_theory nn0 nn1 nnmax nnmul (@eq nnq).
Proof.
  constructor; intros; apply nnq_eq; cbn.
  - apply qcmax_0_l. apply nn_le. exact (proj2_sig n).
  - apply qcmax_comm.
  - apply qcmax_assoc.
  - ring.
  - ring.
  - ring.
  - ring.
  - apply qcmax_mul_r. apply nn_le. exact (proj2_sig p).
Qed.
Lemma nnmax_sel : forall a b, nnmax a b = if nnsel a b then a else b.
Proof.
  intros a b. apply nnq_eq. unfold nnmax, nnsel, qcmax. cbn. destruct (Qle_bool _ _); reflexivity.
Qed.

(* C06_clt_exact instantiated: for every tree with distinct variables over the non-negative rationals,
   the decoded completion attains the max-product value *)
Example clt_mpe_exact_maxtimes : forall t : ctree nnq, NoDup (vars nnq t) -> forall pv r,
    up nnq nn0 nn1 nnmax nnmul t pv (apply_assign (assign nnq nn0 nn1 nnmax nnmul nnsel t pv r) r) =
    up nnq nn0 nn1 nnmax nnmul t pv r.
Proof. exact (clt_mpe_exact nnq nn0 nn1 nnmax nnmul nnq_srth nnsel nnmax_sel). Qed.
Example clt_mpe_exact_bool : forall t : ctree bool, NoDup (vars bool t) -> forall pv r,
    up bool false true orb andb t pv (apply_assign (assign bool false true orb andb (fun a _ => a) t pv r) r) =
    up bool false true orb andb t pv r.
Proof. exact (clt_mpe_exact bool false true orb andb bool_srth (fun a _ => a) bool_sel). Qed.
