(* Proofs/MstLayer.v — dominance of threshold counts implies dominance of sums (integer layer-cake identity). *)
From Coq Require Import List Arith ZArith Bool Lia.
Import ListNotations.
Local Open Scope Z_scope.

Fixpoint sumZ (f : Z -> Z) (L : Z) (k : nat) : Z :=
  match k with O => 0 | S k' => sumZ f L k' + f (L + Z.of_nat (S k')) end.
Fixpoint cge (s : Z) (l : list Z) : Z :=
  match l with [] => 0 | x :: tl => (if Z.leb s x then 1 else 0) + cge s tl end.
Fixpoint lsum (l : list Z) : Z := match l with [] => 0 | x :: tl => x + lsum tl end.

Lemma sumZ_add f g L k : sumZ (fun s => f s + g s) L k = sumZ f L k + sumZ g L k.
Proof. induction k as [|k IH]; cbn [sumZ]; [reflexivity | rewrite IH; lia]. Qed.
Lemma sumZ_le f g L k : (forall s, f s <= g s) -> sumZ f L k <= sumZ g L k.
Proof. intros H. induction k as [|k IH]; cbn [sumZ]; [lia | specialize (H (L + Z.of_nat (S k))); lia]. Qed.
Lemma sumZ_ind x L k : L <= x -> sumZ (fun s => if Z.leb s x then 1 else 0) L k = Z.min (x - L) (Z.of_nat k).
Proof.
  intros Hx. induction k as [|k IH]; cbn [sumZ]; [lia|]. rewrite IH. rewrite !Nat2Z.inj_succ.
  destruct (Z.leb_spec (L + Z.succ (Z.of_nat k)) x); lia.
Qed.
Lemma layer l L k : (forall x, In x l -> L <= x <= L + Z.of_nat k) ->
  sumZ (fun s => cge s l) L k = lsum l - Z.of_nat (length l) * L.
Proof.
  induction l as [|x l IH]; intros H.
  - assert (Hz : forall k0, sumZ (fun _ => 0) L k0 = 0) by (induction k0 as [|k0 IHk]; cbn [sumZ]; lia).
    cbn [cge lsum length]. rewrite Hz. lia.
  - cbn [cge lsum length]. rewrite (sumZ_add (fun s => if Z.leb s x then 1 else 0) (fun s => cge s l)).
    rewrite IH by (intros y Hy; apply H; now right).
    rewrite sumZ_ind by (apply H; now left). pose proof (H x (or_introl eq_refl)). lia.
Qed.
Lemma bounds_exist (l : list Z) : exists L k, forall x, In x l -> L <= x <= L + Z.of_nat k.
Proof.
  induction l as [|a l [L [k H]]]; [exists 0, O; intros x []|].
  exists (Z.min L a), (Z.to_nat (Z.max (L + Z.of_nat k) a - Z.min L a)).
  intros x [<-|Hx]; [lia | specialize (H x Hx); lia].
Qed.
Lemma bounds_mono L k L' k' (l : list Z) : L' <= L -> L + Z.of_nat k <= L' + Z.of_nat k' ->
  (forall x, In x l -> L <= x <= L + Z.of_nat k) -> forall x, In x l -> L' <= x <= L' + Z.of_nat k'.
Proof. intros H1 H2 H x Hx. specialize (H x Hx). lia. Qed.

(* equal lengths, every threshold count of l' dominated by that of l: the sum is dominated *)
Lemma dom_sum (l' l : list Z) : length l' = length l -> (forall s, cge s l' <= cge s l) -> lsum l' <= lsum l.
Proof.
  intros Hlen Hd. destruct (bounds_exist (l' ++ l)) as [L [k Hb]].
  assert (H1 : forall x, In x l' -> L <= x <= L + Z.of_nat k) by (intros x Hx; apply Hb, in_or_app; now left).
  assert (H2 : forall x, In x l -> L <= x <= L + Z.of_nat k) by (intros x Hx; apply Hb, in_or_app; now right).
  pose proof (layer l' L k H1) as E1. pose proof (layer l L k H2) as E2.
  pose proof (sumZ_le (fun s => cge s l') (fun s => cge s l) L k Hd). rewrite Hlen in E1. lia.
Qed.

Lemma cge_shift e s l : cge s (map (fun x => x - e) l) = cge (s + e) l.
Proof.
  induction l as [|x l IH]; cbn; [reflexivity|]. rewrite IH.
  destruct (Z.leb_spec s (x - e)), (Z.leb_spec (s + e) x); lia.
Qed.
Lemma lsum_shift e l : lsum (map (fun x => x - e) l) = lsum l - Z.of_nat (length l) * e.
Proof. induction l as [|x l IH]; cbn [map lsum length]; [lia | rewrite IH; lia]. Qed.

(* with a shift: counts of l' at s + e dominated by counts of l at s *)
Lemma dom_sum_eps (l' l : list Z) e : length l' = length l -> (forall s, cge (s + e) l' <= cge s l) ->
  lsum l' <= lsum l + Z.of_nat (length l) * e.
Proof.
  intros Hlen Hd.
  pose proof (dom_sum (map (fun x => x - e) l') l ltac:(now rewrite map_length)) as H.
  rewrite lsum_shift in H. rewrite Hlen in H. apply Z.le_sub_le_add_r. apply H.
  intros s. rewrite cge_shift. apply Hd.
Qed.
