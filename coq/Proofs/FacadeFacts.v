(* Proofs/FacadeFacts.v — C20: the scikit-learn classifier facade computes the class posterior of
   the wrapped circuit: shape for every batch size, entry formula, rows sum to one, prediction =
   class of the largest entry, missing features marginalised; shape law of the pinned variant. *)
From Coq Require Import List Arith ZArith Ring Lia Bool.
From DV Require Import Model.Core Model.Clt Model.Leaves Model.Mpe Model.Facade
  Proofs.CoreFacts Proofs.MpeFacts.
Import ListNotations.

Section ArrFacts.
  Variable T : Type.
  Lemma bdim_same k : bdim k k = Some k.
  Proof. unfold bdim. now rewrite Nat.eqb_refl. Qed.
  Lemma bidx_lt d j : j < d -> bidx d j = j.
  Proof. unfold bidx. destruct (Nat.eqb_spec d 1); [lia | reflexivity]. Qed.
  Lemma bdim_some a b c : bdim a b = Some c -> a = b \/ a = 1 \/ b = 1.
  Proof.
    unfold bdim. destruct (Nat.eqb_spec a b); [auto|]. destruct (Nat.eqb_spec a 1); [auto|].
    destruct (Nat.eqb_spec b 1); [auto | discriminate].
  Qed.
  Lemma nth_map_in {A B} (f : A -> B) l i d d' : i < length l -> nth i (map f l) d' = f (nth i l d).
  Proof. intros Hi. rewrite (nth_indep _ d' (f d)) by now rewrite map_length. apply map_nth. Qed.
  Lemma to_lists_length (a : arr2 T) : length (to_lists T a) = nr a.
  Proof. unfold to_lists. now rewrite map_length, seq_length. Qed.
  Lemma to_lists_row (a : arr2 T) i : i < nr a -> nth i (to_lists T a) [] = map (at2 a i) (seq 0 (nc a)).
  Proof.
    intros Hi. unfold to_lists.
    rewrite (nth_map_in _ (seq 0 (nr a)) i 0 []) by now rewrite seq_length.
    rewrite seq_nth by exact Hi. reflexivity.
  Qed.
End ArrFacts.

Section FacadeFacts.
  Variable T : Type.
  Variables (t0 t1 : T) (tadd tmul : T -> T -> T) (tinv : T -> T).
  Hypothesis SRth : semi_ring_theory t0 t1 tadd tmul (@eq T).
  Add Ring Tring : SRth.
  Hypothesis tinv_r : forall x, x <> t0 -> tmul x (tinv x) = t1.
  Infix "+" := tadd. Infix "*" := tmul.
  Variable sel : T -> T -> bool.
  Variable dom : nat -> list Z.
  Variable leaf : Type.
  Variable leaf_val : leaf -> row -> T.
  Variable leaf_fill : leaf -> row -> list (nat * Z).

  Notation sumT := (sumT T t0 tadd).
  Notation dotT := (dotT T t0 tadd tmul).
  Notation table := (table T leaf).
  Notation vals := (vals T t0 t1 tadd tmul leaf leaf_val).
  Notation val := (val T t0 t1 tadd tmul leaf leaf_val).
  Notation root_val := (root_val T t0 t1 tadd tmul leaf leaf_val).
  Notation scope_of := (scope_of T leaf).
  Notation valid := (valid T t0 tadd dom leaf leaf_val).
  Notation root_node := (root_node T leaf).
  Notation root_ws := (root_ws T leaf).
  Notation class_ids := (class_ids T leaf).
  Notation predict_proba := (predict_proba T t0 t1 tadd tmul tinv leaf leaf_val).
  Notation predict_proba_pinned := (predict_proba_pinned T t0 t1 tadd tmul tinv leaf leaf_val).
  Notation predict := (predict T t0 t1 tadd tmul sel leaf leaf_val leaf_fill).
  Notation mpe_at := (mpe_at T t0 t1 tadd tmul sel leaf leaf_val leaf_fill).
  Notation mpe_row := (mpe_row T t0 t1 tadd tmul sel leaf leaf_val leaf_fill).
  Notation picks := (picks T t0 t1 tadd tmul sel leaf leaf_val).
  Notation argmax := (argmax T sel).
  Notation wvals := (wvals T tmul).

  (* the data row of sample r: label column appended as NaN *)
  Definition drow (nf : nat) (r : row) : row := with_label nf None r.
  (* unnormalised class score of a data row d: prior x value of the class sub-circuit *)
  Definition joint (t : table) (c : nat) (d : row) : T :=
    nth c (root_ws t) t0 * val t (nth c (class_ids t) 0) d.
  Definition evidence (t : table) (d : row) : T :=
    sumT (map (fun c => joint t c d) (seq 0 (length (root_ws t)))).

  (* a classifier circuit: the root is a sum with one weight per child *)
  Definition clf (t : table) : Prop :=
    exists ws, nkind (root_node t) = KSum ws /\ length ws = length (class_ids t).

  Lemma clf_ws t : clf t -> length (root_ws t) = length (class_ids t).
  Proof. intros [ws [Hk Hl]]. unfold Facade.root_ws. now rewrite Hk. Qed.

  (* ---------- shape: rows x classes for EVERY batch size ---------- *)
  Theorem proba_shape t nf X : clf t ->
    exists a, predict_proba t nf X = Some a /\ nr a = length X /\ nc a = length (class_ids t).
  Proof.
    intros Hc. pose proof (clf_ws t Hc) as Hl.
    unfold Facade.predict_proba, Facade.class_ll, bvec_arr. cbn [nc transpose take_rows nr].
    rewrite Hl, bdim_same. cbn [option_map]. eexists. split; [reflexivity|].
    cbn. rewrite map_length. auto.
  Qed.

  Lemma class_ll_entry t nf X a : clf t -> Facade.class_ll T t0 t1 tadd tmul leaf leaf_val t nf X = Some a ->
    nr a = length X /\ nc a = length (class_ids t) /\
    forall i c, i < length X -> c < length (class_ids t) ->
      at2 a i c = joint t c (drow nf (nth i X row_none)).
  Proof.
    intros Hc. pose proof (clf_ws t Hc) as Hl.
    unfold Facade.class_ll, bvec_arr. cbn [nc transpose take_rows nr].
    rewrite Hl, bdim_same. intros H. injection H as <-. cbn [nr nc at2 lls_arr].
    rewrite map_length. repeat split. intros i c Hi Hc'.
    rewrite !bidx_lt by assumption. unfold joint, drow. f_equal. cbn [at2 transpose take_rows lls_arr].
    f_equal. now apply nth_map_in.
  Qed.

  (* ---------- every entry is the posterior  w_c val_c(x) / sum_c' w_c' val_c'(x) ---------- *)
  Theorem proba_entry t nf X a : clf t -> predict_proba t nf X = Some a ->
    forall i c, i < length X -> c < length (class_ids t) ->
      at2 a i c = joint t c (drow nf (nth i X row_none)) * tinv (evidence t (drow nf (nth i X row_none))).
  Proof.
    intros Hc. unfold Facade.predict_proba.
    destruct (Facade.class_ll T t0 t1 tadd tmul leaf leaf_val t nf X) as [b|] eqn:Hb; [|discriminate].
    destruct (class_ll_entry t nf X b Hc Hb) as [Hr [Hn He]].
    cbn [option_map]. intros H. injection H as <-. intros i c Hi Hc'.
    cbn [at2 softmax1]. rewrite (He i c Hi Hc'). f_equal. f_equal.
    unfold row_sum, evidence. rewrite Hn, (clf_ws t Hc).
    apply (f_equal sumT). apply map_ext_in. intros c' Hin. apply in_seq in Hin. apply He; [exact Hi | lia].
  Qed.

  (* ---------- rows sum to one ---------- *)
  Theorem proba_rows_sum_one t nf X a : clf t -> predict_proba t nf X = Some a ->
    forall i, i < length X -> evidence t (drow nf (nth i X row_none)) <> t0 ->
      row_sum T t0 tadd a i = t1.
  Proof.
    intros Hc Ha i Hi Hne.
    destruct (proba_shape t nf X Hc) as [a' [Ha' [_ Hn]]]. rewrite Ha in Ha'. injection Ha' as <-.
    unfold row_sum. rewrite Hn.
    erewrite map_ext_in; [| intros c Hin; apply in_seq in Hin; apply (proba_entry t nf X a Hc Ha i c Hi); lia].
    rewrite (sumT_scal_r T t0 t1 tadd tmul SRth).
    rewrite <- (clf_ws t Hc). fold (evidence t (drow nf (nth i X row_none))).
    now apply tinv_r.
  Qed.

  (* ---------- the normaliser is the value of the wrapped circuit (P(x), label marginalised) ---------- *)
  Lemma dotT_seq ws (g : nat -> T) : forall ks, length ws = length ks ->
    dotT ws (map g ks) = sumT (map (fun c => nth c ws t0 * g (nth c ks 0)) (seq 0 (length ws))).
  Proof.
    induction ws as [|w ws IH]; intros [|k ks] Hl; cbn in Hl; try lia; [reflexivity|].
    cbn [map Core.dotT length seq Core.sumT nth]. rewrite <- seq_shift, map_map. f_equal.
    rewrite IH by lia. reflexivity.
  Qed.

  Theorem evidence_is_root_val t n d : clf (t ++ [n]) -> Forall (fun k => k < length t) (nkids n) ->
    evidence (t ++ [n]) d = root_val (t ++ [n]) d.
  Proof.
    intros Hc Hk. pose proof (clf_ws _ Hc) as Hl. destruct Hc as [ws [Hkind Hlen]].
    unfold evidence, joint, Core.root_val. rewrite app_length. cbn [length]. rewrite Nat.add_sub.
    rewrite (val_last T t0 t1 tadd tmul leaf leaf_val).
    assert (Hroot : root_node (t ++ [n]) = n).
    { unfold Facade.root_node. rewrite app_length. cbn [length]. rewrite Nat.add_sub, app_nth2, Nat.sub_diag by lia. reflexivity. }
    unfold Facade.root_ws, Facade.class_ids in *. rewrite Hroot in *. unfold Core.node_val. rewrite Hkind.
    rewrite (dotT_seq ws (fun k => nth k (vals t d) t0) (nkids n) Hlen).
    apply (f_equal sumT). apply map_ext_in. intros c Hin. apply in_seq in Hin. f_equal.
    unfold Core.val. apply (vals_prefix T t0 t1 tadd tmul leaf leaf_val).
    rewrite Forall_forall in Hk. apply Hk. apply nth_In. lia.
  Qed.

  (* ---------- missing features are marginalised in every class score ---------- *)
  Theorem joint_marg1 t c d v : valid t -> nth c (class_ids t) 0 < length t ->
    In v (scope_of t (nth c (class_ids t) 0)) -> d v = None ->
    joint t c d = sumT (map (fun x => joint t c (upd d v (Some x))) (dom v)).
  Proof.
    intros Hv Hk Hin Hnone. unfold joint.
    rewrite (val_marg1 T t0 t1 tadd tmul SRth dom leaf leaf_val t Hv _ Hk d v Hin Hnone).
    now rewrite <- (sumT_scal T t0 t1 tadd tmul SRth).
  Qed.

  Theorem joint_marg t c d vs : valid t -> nth c (class_ids t) 0 < length t -> NoDup vs ->
    (forall v, In v vs -> In v (scope_of t (nth c (class_ids t) 0)) /\ d v = None) ->
    joint t c d = nth c (root_ws t) t0 * sum_compl T t0 tadd dom vs (val t (nth c (class_ids t) 0)) d.
  Proof.
    intros Hv Hk Hnd Hall. unfold joint. f_equal.
    now apply (iter_marg T t0 t1 tadd tmul SRth dom leaf leaf_val t Hv _ Hk vs Hnd d).
  Qed.

  (* ---------- predict = class of the largest entry ---------- *)
  Lemma wvals_seq ws vs : length ws = length vs ->
    wvals ws vs = map (fun c => nth c ws t0 * nth c vs t0) (seq 0 (length ws)).
  Proof.
    revert vs. induction ws as [|w ws IH]; intros [|v vs] Hl; cbn in Hl; try lia; [reflexivity|].
    cbn [Mpe.wvals length seq map nth]. f_equal. rewrite <- seq_shift, map_map. apply IH. lia.
  Qed.

  Lemma argmax_from_scale c (Hsc : forall a b, sel (a * c) (b * c) = sel a b) l :
    forall best bi i, argmax_from T sel (best * c) bi i (map (fun x => x * c) l) = argmax_from T sel best bi i l.
  Proof.
    induction l as [|x l IH]; intros best bi i; cbn; [reflexivity|].
    rewrite Hsc. destruct (sel best x); apply IH.
  Qed.
  Lemma argmax_scale c (Hsc : forall a b, sel (a * c) (b * c) = sel a b) l :
    argmax (map (fun x => x * c) l) = argmax l.
  Proof. destruct l as [|x l]; [reflexivity|]. cbn. now apply argmax_from_scale. Qed.

  (* MPE from the root of a classifier = MPE inside the class branch maximising w_c val_c(x) *)
  Lemma mpe_root_sum t n ws d : nkind n = KSum ws -> length ws = length (nkids n) -> nkids n <> [] ->
    Forall (fun k => k < length t) (nkids n) ->
    let b := argmax (wvals ws (map (fun k => val (t ++ [n]) k d) (nkids n))) in
    b < length (nkids n) /\ mpe_row (t ++ [n]) d = mpe_at (t ++ [n]) (nth b (nkids n) 0) d.
  Proof.
    intros Hkind Hlen Hne Hk b.
    assert (Hvals : map (fun k => val (t ++ [n]) k d) (nkids n) = map (fun k => nth k (vals t d) t0) (nkids n)).
    { apply map_ext_in. intros k Hin. rewrite Forall_forall in Hk.
      apply (vals_prefix T t0 t1 tadd tmul leaf leaf_val). now apply Hk. }
    assert (Hlw : length (wvals ws (map (fun k => val (t ++ [n]) k d) (nkids n))) = length (nkids n)).
    { rewrite (wvals_length T tmul) by now rewrite map_length. apply map_length. }
    assert (Hb : b < length (nkids n)).
    { pose proof (argmax_lt T sel (wvals ws (map (fun k => val (t ++ [n]) k d) (nkids n)))) as H.
      rewrite Hlw in H. apply H. intro H0. rewrite H0 in Hlw. cbn in Hlw.
      destruct (nkids n); [congruence | discriminate]. }
    split; [exact Hb|].
    unfold Mpe.mpe_row, Facade.mpe_at. rewrite app_length. cbn [length]. rewrite Nat.add_sub.
    rewrite (picks_snoc T t0 t1 tadd tmul sel leaf leaf_val).
    rewrite app_nth2 by (rewrite (picks_length T t0 t1 tadd tmul sel leaf leaf_val); lia).
    rewrite (picks_length T t0 t1 tadd tmul sel leaf leaf_val), Nat.sub_diag. cbn [nth].
    unfold Mpe.node_picks. rewrite Hkind. unfold Mpe.branch. rewrite <- Hvals. fold b.
    rewrite app_nth1; [reflexivity|].
    rewrite (picks_length T t0 t1 tadd tmul sel leaf leaf_val).
    rewrite Forall_forall in Hk. apply Hk. now apply nth_In.
  Qed.

  Theorem predict_is_argmax t n nf X a (cls : nat -> Z) :
    clf (t ++ [n]) -> nkids n <> [] -> Forall (fun k => k < length t) (nkids n) ->
    predict_proba (t ++ [n]) nf X = Some a ->
    forall i, i < length X ->
      let d := drow nf (nth i X row_none) in
      (* every class branch completes the label with its own class *)
      (forall c, c < length (nkids n) -> mpe_at (t ++ [n]) (nth c (nkids n) 0) d nf = Some (cls c)) ->
      (* dividing by the evidence does not change comparisons (true in an ordered field when it is positive) *)
      (forall x y, sel (x * tinv (evidence (t ++ [n]) d)) (y * tinv (evidence (t ++ [n]) d)) = sel x y) ->
      nth i (predict (t ++ [n]) nf X) None = Some (cls (argmax (nth i (to_lists T a) []))).
  Proof.
    intros Hc Hne Hk Ha i Hi d Hmode Hsc.
    assert (Hroot : root_node (t ++ [n]) = n).
    { unfold Facade.root_node. rewrite app_length. cbn [length]. rewrite Nat.add_sub, app_nth2, Nat.sub_diag by lia. reflexivity. }
    pose proof (clf_ws _ Hc) as Hl.
    destruct (proba_shape _ nf X Hc) as [a' [Ha' [Hnr Hnc]]]. rewrite Ha in Ha'. injection Ha' as <-.
    pose proof Hc as [ws [Hkind Hlen]]. unfold Facade.class_ids in Hlen, Hl, Hnc. rewrite Hroot in Hkind, Hlen, Hl, Hnc.
    assert (Hws : root_ws (t ++ [n]) = ws) by (unfold Facade.root_ws; now rewrite Hroot, Hkind).
    unfold Facade.predict.
    rewrite (nth_map_in _ X i row_none None Hi). fold (drow nf (nth i X row_none)). fold d.
    destruct (mpe_root_sum t n ws d Hkind Hlen Hne Hk) as [Hb Hm]. cbv zeta in Hb, Hm.
    rewrite Hm, (Hmode _ Hb). f_equal. f_equal.
    rewrite to_lists_row by lia. rewrite Hnc.
    rewrite (map_ext_in (at2 a i) (fun c => joint (t ++ [n]) c d * tinv (evidence (t ++ [n]) d)) (seq 0 (length (nkids n)))).
    2:{ intros c Hin. apply in_seq in Hin.
        apply (proba_entry _ nf X a Hc Ha i c Hi). unfold Facade.class_ids. rewrite Hroot. lia. }
    rewrite <- (map_map (fun c => joint (t ++ [n]) c d) (fun x => x * tinv (evidence (t ++ [n]) d))).
    rewrite (argmax_scale _ Hsc). f_equal.
    rewrite wvals_seq by now rewrite map_length.
    rewrite <- Hlen. apply map_ext_in. intros c Hin. apply in_seq in Hin.
    unfold joint. rewrite Hws. unfold Facade.class_ids. rewrite Hroot. f_equal.
    apply (nth_map_in (fun k => val (t ++ [n]) k d) (nkids n) c 0 t0). lia.
  Qed.

  (* ---------- the pinned variant (no transposition) ---------- *)
  Theorem pinned_needs_square t nf X a : clf t -> predict_proba_pinned t nf X = Some a ->
    length (class_ids t) = length X \/ length (class_ids t) = 1 \/ length X = 1.
  Proof.
    intros Hc. pose proof (clf_ws t Hc) as Hl.
    unfold Facade.predict_proba_pinned, Facade.class_ll_pinned, bvec_arr. cbn [nc take_rows lls_arr].
    rewrite map_length, Hl.
    destruct (bdim (length (class_ids t)) (length X)) as [c|] eqn:Hb; [|discriminate].
    intros _. exact (bdim_some _ _ _ Hb).
  Qed.

  (* when it does broadcast because there are as many samples as classes: row = CLASS, column = SAMPLE,
     the prior of class j multiplies the value of sample j, and the normalisation runs over samples *)
  Theorem pinned_square_entry t nf X a : clf t -> length X = length (class_ids t) ->
    predict_proba_pinned t nf X = Some a ->
    nr a = length X /\ nc a = length X /\
    forall i j, i < length X -> j < length X ->
      at2 a i j = (nth j (root_ws t) t0 * val t (nth i (class_ids t) 0) (drow nf (nth j X row_none))) *
                  tinv (sumT (map (fun j' => nth j' (root_ws t) t0 *
                                             val t (nth i (class_ids t) 0) (drow nf (nth j' X row_none)))
                                  (seq 0 (length X)))).
  Proof.
    intros Hc Hsq. pose proof (clf_ws t Hc) as Hl.
    unfold Facade.predict_proba_pinned, Facade.class_ll_pinned, bvec_arr. cbn [nc take_rows lls_arr].
    rewrite map_length, Hl, <- Hsq, bdim_same. cbn [option_map]. intros H. injection H as <-.
    cbn [nr nc at2 softmax1 row_sum]. rewrite <- Hsq. repeat split.
    intros i j Hi Hj. rewrite !bidx_lt by assumption.
    unfold drow. rewrite (nth_map_in (with_label nf None) X j row_none row_none Hj). f_equal. f_equal.
    unfold row_sum. cbn [nc at2]. apply (f_equal sumT). apply map_ext_in. intros j' Hin. apply in_seq in Hin.
    rewrite !bidx_lt by lia.
    rewrite (nth_map_in (with_label nf None) X j' row_none row_none) by lia. reflexivity.
  Qed.

  (* ---------- facade bookkeeping: row counts, evidence and labels preserved ---------- *)
  Lemma predict_length t nf X : length (predict t nf X) = length X.
  Proof. unfold Facade.predict. now rewrite map_length. Qed.

  Theorem predict_keeps_features t nf X i v x : fill_missing_only leaf leaf_fill -> i < length X -> v <> nf ->
    nth i X row_none v = Some x ->
    mpe_row t (drow nf (nth i X row_none)) v = Some x.
  Proof.
    intros Hf Hi Hv Hx. apply (mpe_preserves_observed T t0 t1 tadd tmul sel leaf leaf_val leaf_fill t _ Hf).
    unfold drow, with_label, upd. destruct (Nat.eqb_spec v nf); [contradiction | exact Hx].
  Qed.

  Lemma sample_inputs_rows n : length (sample_inputs n) = n /\ forall r v, In r (sample_inputs n) -> r v = None.
  Proof.
    split; [apply repeat_length|]. intros r v Hin. apply repeat_spec in Hin. now subst.
  Qed.
  Lemma sample_inputs_y_rows nf ys : length (sample_inputs_y nf ys) = length ys /\
    forall i, i < length ys -> nth i (sample_inputs_y nf ys) row_none nf = Some (nth i ys 0%Z).
  Proof.
    split; [apply map_length|]. intros i Hi. unfold sample_inputs_y.
    rewrite (nth_map_in _ ys i 0%Z row_none Hi). unfold with_label, upd. now rewrite Nat.eqb_refl.
  Qed.
End FacadeFacts.
