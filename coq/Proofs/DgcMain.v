(* Proofs/DgcMain.v — the C17 statements about the network built by the constructor model, obtained
   by combining the geometry (DgcGeom) with the evaluation facts (DgcEval); a refutation showing that the
   divisibility premise is needed; examples showing the hypotheses are satisfiable. *)
From Coq Require Import List ZArith Bool Lia Ring QArith Qcanon.
From DV Require Import Model.Dgc Proofs.DgcFacts Proofs.DgcGeom Proofs.DgcEval.
Import ListNotations.
Open Scope Z_scope.

Definition admissible (g : cfg) : Prop :=
  1 <= cf_side g /\ 0 <= cf_pool g <= depth_of (cf_side g) /\ (2 ^ cf_pool g | cf_side g) /\
  0 < cf_batch g /\ 0 < cf_sumc g.

(* what the constructor accepts (plus the divisibility premise of C17) is admissible *)
Lemma accepted_admissible g :
  accepted g = true -> 1 <= cf_side g -> (2 ^ cf_pool g | cf_side g) -> admissible g.
Proof.
  unfold accepted, admissible. rewrite !andb_true_iff. intros [[[[[[H1 H2] H3] H4] H5] H6] H7] HD Hdv.
  repeat split; auto; lia.
Qed.

Section Main.
  Variable g : cfg.
  Hypothesis Hadm : admissible g.
  Variable T : Type.
  Variables (t0 t1 : T) (tadd tmul : T -> T -> T).
  Hypothesis SRth : semi_ring_theory t0 t1 tadd tmul (@eq T).
  Variable wt : nat -> Z -> Z -> Z -> Z -> T.
  Variable rw : Z -> Z -> T.

  Let b := build g.

  (* normalised class weights; normalised sum weights *)
  Definition root_norm (k : Z) : Prop :=
    zsum T t0 tadd (map (rw k) (zrange (s_c (build g) * s_side (build g) * s_side (build g)))) = t1.

  Theorem built_all_missing lf k :
    (forall c h w, lf c h w = t1) -> wnorm T t0 t1 tadd wt (s_ls (build g)) -> root_norm k ->
    eval_root T t0 t1 tadd tmul wt lf rw (s_ls (build g)) (s_c (build g)) (s_side (build g)) k = t1.
  Proof. intros. apply (root_all_missing T t0 t1 tadd tmul SRth); assumption. Qed.

  (* summing a class output over the values of any one pixel gives the output with that pixel missing *)
  Theorem built_class_marginal (V : Type) (dom : list V) px py lfv lfm k :
    0 <= px < cf_side g -> 0 <= py < cf_side g ->
    (forall v c h w, (h =? px) && (w =? py) = false -> lfv v c h w = lfm c h w) ->
    (forall c, zsum T t0 tadd (map (fun v => lfv v c px py) dom) = lfm c px py) ->
    zsum T t0 tadd (map (fun v : V => eval_root T t0 t1 tadd tmul wt (lfv v) rw (s_ls (build g))
                                               (s_c (build g)) (s_side (build g)) k) dom) =
    eval_root T t0 t1 tadd tmul wt lfm rw (s_ls (build g)) (s_c (build g)) (s_side (build g)) k.
  Proof.
    intros Hx Hy Hoff Hon. destruct Hadm as (HD & Hn & Hdv & Hb & Hs).
    destruct (final_build g HD Hn Hdv Hb Hs) as (_ & _ & Hside & Hu).
    apply (root_marg1 T t0 t1 tadd tmul SRth wt V dom px py lfv lfm Hoff Hon).
    - rewrite Hside. apply Z.pow_pos_nonneg; lia.
    - intros h w Hh Hw. rewrite use2_factor, (Hu h px), (Hu w py); auto.
  Qed.
End Main.

(* ---------- statements under `admissible` ---------- *)
Lemma adm_sizes : forall g, admissible g ->
    (forall k : nat, Z.of_nat k <= depth_of (cf_side g) ->
       0 < s_c (state_at g k) /\ 0 < s_side (state_at g k) /\
       (s_side (state_at g k) - EE g (Z.of_nat k) + 1) * PP g (Z.of_nat k) = cf_side g) /\
    s_side (build g) = 2 ^ (depth_of (cf_side g) - cf_pool g) /\ 0 < s_c (build g).
Proof.
  intros g (HD & Hn & Hdv & Hb & Hs). split.
  - exact (sizes g HD Hn Hdv Hb Hs).
  - exact (final_side g HD Hn Hdv Hb Hs).
Qed.

Lemma adm_scope_interval : forall g, admissible g ->
    forall (k : nat) h w x y, Z.of_nat k <= depth_of (cf_side g) ->
      0 <= h < s_side (state_at g k) -> 0 <= w < s_side (state_at g k) ->
      0 <= x < cf_side g -> 0 <= y < cf_side g ->
      use2 (s_ls (state_at g k)) h w x y =
      ind (PP g (Z.of_nat k)) (EE g (Z.of_nat k)) h x * ind (PP g (Z.of_nat k)) (EE g (Z.of_nat k)) w y.
Proof. intros g (HD & Hn & Hdv & Hb & Hs). exact (scope_interval g HD Hn Hdv Hb Hs). Qed.

Lemma adm_each_pixel_once : forall g, admissible g ->
    forall (ch : nat -> Z -> Z -> Z -> Z) c h w x y,
      0 <= h < s_side (build g) -> 0 <= w < s_side (build g) ->
      0 <= x < cf_side g -> 0 <= y < cf_side g ->
      count_px x y (leaves ch (s_ls (build g)) c h w) = 1.
Proof. intros g (HD & Hn & Hdv & Hb & Hs). exact (each_pixel_once g HD Hn Hdv Hb Hs). Qed.

Lemma adm_decomposable : forall g, admissible g ->
    forall (k : nat) h w, Z.of_nat k <= depth_of (cf_side g) ->
      0 <= h < l_outs (prod_at g k) -> 0 <= w < l_outs (prod_at g k) ->
      decomposable_at (prod_at g k) (s_ls (state_at g k)) h w
                      (fun x y => 0 <= x < cf_side g /\ 0 <= y < cf_side g).
Proof. intros g (HD & Hn & Hdv & Hb & Hs). exact (decomposable g HD Hn Hdv Hb Hs). Qed.

Section MainEval.
  Variable T : Type.
  Variables (t0 t1 : T) (tadd tmul : T -> T -> T).
  Hypothesis SRth : semi_ring_theory t0 t1 tadd tmul (@eq T).
Lemma sec_all_missing : forall g wt rw lf k,
      (forall c h w, lf c h w = t1) -> wnorm T t0 t1 tadd wt (s_ls (build g)) -> root_norm g T t0 t1 tadd rw k ->
      eval_root T t0 t1 tadd tmul wt lf rw (s_ls (build g)) (s_c (build g)) (s_side (build g)) k = t1.
  Proof. intros g. exact (built_all_missing g T t0 t1 tadd tmul SRth). Qed.

Lemma sec_class_marginal : forall g, admissible g ->
      forall wt rw (V : Type) (dom : list V) px py lfv lfm k,
        0 <= px < cf_side g -> 0 <= py < cf_side g ->
        (forall v c h w, (h =? px) && (w =? py) = false -> lfv v c h w = lfm c h w) ->
        (forall c, zsum T t0 tadd (map (fun v => lfv v c px py) dom) = lfm c px py) ->
        zsum T t0 tadd (map (fun v : V => eval_root T t0 t1 tadd tmul wt (lfv v) rw (s_ls (build g))
                                                   (s_c (build g)) (s_side (build g)) k) dom) =
        eval_root T t0 t1 tadd tmul wt lfm rw (s_ls (build g)) (s_c (build g)) (s_side (build g)) k.
  Proof. intros g Hadm. exact (built_class_marginal g Hadm T t0 t1 tadd tmul SRth). Qed.

Lemma sec_normalised_partial : forall g, admissible g ->
      forall wt rw (V : Type) (dom : list V) px py lfv lfm k,
        0 <= px < cf_side g -> 0 <= py < cf_side g ->
        (forall v c h w, (h =? px) && (w =? py) = false -> lfv v c h w = lfm c h w) ->
        (forall c, zsum T t0 tadd (map (fun v => lfv v c px py) dom) = lfm c px py) ->
        (forall c h w, lfm c h w = t1) ->
        wnorm T t0 t1 tadd wt (s_ls (build g)) -> root_norm g T t0 t1 tadd rw k ->
        zsum T t0 tadd (map (fun v : V => eval_root T t0 t1 tadd tmul wt (lfv v) rw (s_ls (build g))
                                                   (s_c (build g)) (s_side (build g)) k) dom) = t1.
  Proof.
    intros g Hadm wt rw V dom px py lfv lfm k Hx Hy Hoff Hon Hm Hw Hr.
    rewrite (built_class_marginal g Hadm T t0 t1 tadd tmul SRth wt rw V dom px py lfv lfm k Hx Hy Hoff Hon).
    exact (built_all_missing g T t0 t1 tadd tmul SRth wt rw lfm k Hm Hw Hr).
  Qed.
End MainEval.

(* ---------- the divisibility premise is needed: D = 6 with two pooling layers ---------- *)
Definition g_indiv : cfg :=
  {| cf_chan := 1; cf_side := 6; cf_classes := 1; cf_batch := 1; cf_sumc := 1; cf_pool := 2; cf_dw := [true] |}.

Lemma indivisible_refuted :
  accepted g_indiv = true /\
  forall h w, In h (zrange (s_side (build g_indiv))) -> In w (zrange (s_side (build g_indiv))) ->
              use2 (s_ls (build g_indiv)) h w 5 5 = 0.
Proof.
  split; [reflexivity|]. intros h w Hh Hw.
  cbv in Hh, Hw.
  repeat (destruct Hh as [<- | Hh]; [repeat (destruct Hw as [<- | Hw]; [vm_compute; reflexivity|]); destruct Hw|]).
  destruct Hh.
Qed.

(* ---------- the hypotheses are satisfiable ---------- *)
Definition g_ex : cfg :=
  {| cf_chan := 3; cf_side := 12; cf_classes := 10; cf_batch := 2; cf_sumc := 2; cf_pool := 2; cf_dw := [false; true] |}.

Example g_ex_admissible : admissible g_ex /\ accepted g_ex = true.
Proof.
  split; [|reflexivity]. unfold admissible, g_ex; cbn [cf_side cf_pool cf_batch cf_sumc].
  change (depth_of 12) with 4. repeat split; try lia. exists 3. reflexivity.
Qed.

(* uniform weights over Qc are normalised on the example network: wnorm and root_norm are inhabited *)
Definition g_small : cfg :=
  {| cf_chan := 1; cf_side := 2; cf_classes := 1; cf_batch := 2; cf_sumc := 2; cf_pool := 1; cf_dw := [true] |}.
Definition wt_half : nat -> Z -> Z -> Z -> Z -> Qc := fun _ _ _ _ _ => Q2Qc (1 # 2).
Example g_small_norm :
  admissible g_small /\ wnorm Qc 0%Qc 1%Qc Qcplus wt_half (s_ls (build g_small)) /\
  root_norm g_small Qc 0%Qc 1%Qc Qcplus (fun _ _ => Q2Qc (1 # 2)) 0.
Proof.
  split; [|split].
  - unfold admissible, g_small; cbn [cf_side cf_pool cf_batch cf_sumc]. change (depth_of 2) with 1.
    repeat split; try lia. exists 1. reflexivity.
  - vm_compute. repeat split; intros; apply Qc_is_canon; reflexivity.
  - vm_compute. apply Qc_is_canon. reflexivity.
Qed.
