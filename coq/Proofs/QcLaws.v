From Coq Require Import QArith Qcanon Ring Field.
Lemma Qc_srth : semi_ring_theory 0%Qc 1%Qc Qcplus Qcmult (@eq Qc).
Proof.
  constructor; intros; try ring.
Qed.
