(* Proofs/DgcNorm.v — total mass one: for every admissible configuration, normalised sum/root weights and
   finite-valued leaf tables that are normalised per pixel and channel, every class output summed over ALL
   assignments of all D x D pixels is one.  Single-pixel marginalisation (DgcMain.built_class_marginal)
   iterated over the list of pixels, then the all-missing value (built_all_missing). *)
From Coq Require Import List ZArith Bool Lia Ring QArith Qcanon FinFun.
From DV Require Import Model.Dgc Model.DgcAsg Proofs.DgcFacts Proofs.DgcGeom Proofs.DgcEval Proofs.DgcMain.
Import ListNotations.
Open Scope Z_scope.

Lemma nodup_app {A} (l l' : list A) :
  NoDup l -> NoDup l' -> (forall x, In x l -> ~ In x l') -> NoDup (l ++ l').
Proof.
  induction l as [|a l IH]; intros H1 H2 H; simpl; [exact H2|].
  inversion H1; subst. constructor.
  - rewrite in_app_iff. intros [Hin | Hin]; [contradiction|]. apply (H a); [left; reflexivity | exact Hin].
  - apply IH; auto. intros x Hx. apply H. right. exact Hx.
Qed.

Lemma zrange_nodup m : NoDup (zrange m).
Proof.
  unfold zrange. apply Injective_map_NoDup; [|apply seq_NoDup].
  intros a b. apply Nat2Z.inj.
Qed.

Lemma zrange_spec m a : In a (zrange m) -> 0 <= a < m.
Proof. unfold zrange. rewrite in_map_iff. intros (i & <- & Hi). apply in_seq in Hi. lia. Qed.

Lemma pixels_in D p : In p (pixels D) -> 0 <= fst p < D /\ 0 <= snd p < D.
Proof.
  unfold pixels. rewrite in_flat_map. intros (h & Hh & Hp). rewrite in_map_iff in Hp.
  destruct Hp as (w & <- & Hw). cbn [fst snd]. split; apply zrange_spec; assumption.
Qed.

Lemma pixels_nodup D : NoDup (pixels D).
Proof.
  unfold pixels. generalize (zrange_nodup D). generalize (zrange D) at 1 3. intros l Hl.
  induction l as [|h l IH]; simpl; [constructor|]. inversion Hl; subst.
  apply nodup_app.
  - apply Injective_map_NoDup; [|apply zrange_nodup]. intros a b E. inversion E. reflexivity.
  - apply IH. assumption.
  - intros x Hx Hx'. rewrite in_map_iff in Hx. destruct Hx as (w & <- & _).
    rewrite in_flat_map in Hx'. destruct Hx' as (h' & Hh' & Hx'). rewrite in_map_iff in Hx'.
    destruct Hx' as (w' & E & _). inversion E; subst. contradiction.
Qed.

Section Norm.
  Variable g : cfg.
  Hypothesis Hadm : admissible g.
  Variable T : Type.
  Variables (t0 t1 : T) (tadd tmul : T -> T -> T).
  Hypothesis SRth : semi_ring_theory t0 t1 tadd tmul (@eq T).
  Variable wt : nat -> Z -> Z -> Z -> Z -> T.
  Variable rw : Z -> Z -> T.
  Variable V : Type.
  Variable dom : list V.
  Variable leaf : Z -> Z -> Z -> option V -> T.
  (* the table of every (channel, pixel) is normalised: its values add up to the value used for a
     missing cell *)
  Hypothesis Hleaf : forall c h w,
      zsum T t0 tadd (map (fun v => leaf c h w (Some v)) dom) = leaf c h w None.

  (* class output k on an assignment *)
  Definition out (k : Z) (a : asg V) : T :=
    eval_root T t0 t1 tadd tmul wt (lf_of V T leaf a) rw (s_ls (build g)) (s_c (build g)) (s_side (build g)) k.

  Lemma upd_other (a : asg V) p c q : q <> p -> upd V a p c (fst q) (snd q) = a (fst q) (snd q).
  Proof.
    intros Hne. unfold upd. destruct (Z.eqb_spec (fst q) (fst p)); destruct (Z.eqb_spec (snd q) (snd p));
      cbn [andb]; try reflexivity.
    exfalso. apply Hne. destruct q, p; cbn [fst snd] in *; congruence.
  Qed.

  Lemma out_marg k p a :
    0 <= fst p < cf_side g -> 0 <= snd p < cf_side g -> a (fst p) (snd p) = None ->
    zsum T t0 tadd (map (fun v => out k (upd V a p (Some v))) dom) = out k a.
  Proof.
    intros Hx Hy Ha. unfold out.
    apply (built_class_marginal g Hadm T t0 t1 tadd tmul SRth wt rw V dom (fst p) (snd p)
             (fun v => lf_of V T leaf (upd V a p (Some v))) (lf_of V T leaf a) k Hx Hy).
    - intros v c h w E. unfold lf_of, upd. rewrite E. reflexivity.
    - intros c. unfold lf_of, upd. rewrite !Z.eqb_refl. cbn [andb]. rewrite Ha. apply Hleaf.
  Qed.

  (* sum over all completions of a duplicate-free list of missing pixels = marginal value *)
  Theorem iter_marg_pixels k : forall ps, NoDup ps ->
      (forall p, In p ps -> 0 <= fst p < cf_side g /\ 0 <= snd p < cf_side g) ->
      forall a, (forall p, In p ps -> a (fst p) (snd p) = None) ->
      sum_compl V T t0 tadd dom ps (out k) a = out k a.
  Proof.
    induction ps as [|p ps IH]; intros Hnd Hin a Ha; cbn [sum_compl]; [reflexivity|].
    inversion Hnd as [|? ? Hnotin Hnd']; subst.
    transitivity (zsum T t0 tadd (map (fun v => out k (upd V a p (Some v))) dom)).
    - apply (zsum_ext T t0 tadd). intros v. apply IH; [exact Hnd' | |].
      + intros q Hq. apply Hin. right. exact Hq.
      + intros q Hq. rewrite upd_other; [apply Ha; right; exact Hq|].
        intros ->. contradiction.
    - destruct (Hin p (or_introl eq_refl)). apply out_marg; auto. apply Ha. left. reflexivity.
  Qed.

  (* total mass *)
  Hypothesis Hnone : forall c h w, leaf c h w None = t1.
  Theorem total_mass_one k :
    wnorm T t0 t1 tadd wt (s_ls (build g)) -> root_norm g T t0 t1 tadd rw k ->
    sum_compl V T t0 tadd dom (pixels (cf_side g)) (out k) (asg_none V) = t1.
  Proof.
    intros Hw Hr. rewrite iter_marg_pixels.
    - unfold out. apply (built_all_missing g T t0 t1 tadd tmul SRth wt rw); [|exact Hw|exact Hr].
      intros c h w. unfold lf_of, asg_none. apply Hnone.
    - apply pixels_nodup.
    - apply pixels_in.
    - reflexivity.
  Qed.
End Norm.

(* the hypotheses are satisfiable, and the statement is not vacuous: a 2 x 2 network over Qc with two
   values per pixel, table (1/4, 3/4) in channel 0 and (1/2, 1/2) elsewhere *)
Definition leaf_ex (c h w : Z) (x : option bool) : Qc :=
  match x with
  | None => 1%Qc
  | Some b => if c =? 0 then (if b then Q2Qc (1 # 4) else Q2Qc (3 # 4)) else Q2Qc (1 # 2)
  end.
Example leaf_ex_normalised : forall c h w,
    zsum Qc 0%Qc Qcplus (map (fun v => leaf_ex c h w (Some v)) [true; false]) = leaf_ex c h w None.
Proof. intros c h w. unfold leaf_ex. destruct (c =? 0); apply Qc_is_canon; reflexivity. Qed.
Example total_mass_instance :
  sum_compl bool Qc 0%Qc Qcplus [true; false] (pixels (cf_side g_small))
            (out g_small Qc 0%Qc 1%Qc Qcplus Qcmult wt_half (fun _ _ => Q2Qc (1 # 2)) bool leaf_ex 0)
            (asg_none bool) = 1%Qc.
Proof. apply Qc_is_canon. vm_compute. reflexivity. Qed.
