(* Proofs/FacadeExamples.v — C20: the Qc instance of the facade theorems (division law, scaling of
   comparisons by a positive evidence) and a concrete 3-class classifier circuit meeting every
   hypothesis (non-vacuity), queried with 2 rows (batch size <> class count) and 3 rows. *)
From Coq Require Import List Arith ZArith QArith Qabs Qcanon Ring Field Lia Bool.
From DV Require Import Model.Core Model.Clt Model.Leaves Model.Check Model.QcInst Model.Run
  Model.Mpe Model.MpeRun Model.Facade Model.FacadeRun
  Proofs.CoreFacts Proofs.QcLaws Proofs.CheckFacts Proofs.MpeFacts Proofs.Examples Proofs.FacadeFacts.
Import ListNotations.
Local Open Scope nat_scope.

Lemma Qc_inv_r : forall x : Qc, x <> 0%Qc -> (x * / x = 1)%Qc.
Proof. intros x Hx. now apply Qcmult_inv_r. Qed.

Lemma sel_first_iff a b : sel_first a b = true <-> (b <= a)%Qc.
Proof. unfold sel_first. rewrite Qle_bool_iff. reflexivity. Qed.

(* np.argmax comparisons are unchanged by multiplying both sides with a positive constant *)
Lemma sel_first_scale c : (0 < c)%Qc -> forall a b, sel_first (a * c) (b * c) = sel_first a b.
Proof.
  intros Hc a b. apply eq_true_iff_eq. rewrite !sel_first_iff. split; intros H.
  - apply (Qcmult_lt_0_le_reg_r _ _ c Hc H).
  - apply Qcmult_le_compat_r; [exact H | now apply Qclt_le_weak].
Qed.

Lemma Qc_inv_pos x : (0 < x)%Qc -> (0 < / x)%Qc.
Proof.
  intros Hx. destruct (Qclt_le_dec 0 (/ x)) as [H|H]; [exact H|exfalso].
  assert (Hne : x <> 0%Qc) by (intro E; rewrite E in Hx; exact (Qclt_not_eq _ _ Hx eq_refl)).
  pose proof (Qcmult_le_compat_r _ _ x H (Qclt_le_weak _ _ Hx)) as H1.
  rewrite Qcmult_comm, (Qc_inv_r x Hne), Qcmult_0_l in H1.
  exact (Qcle_not_lt _ _ H1 ltac:(reflexivity)).
Qed.

(* predict = class of the largest predict_proba entry, at Qc with the code's argmax (first maximum),
   for every classifier table, batch and row whose evidence has positive probability *)
Theorem predict_is_argmax_Qc (t : qtable) n nf X a (cls : nat -> Z) :
  clf Qc qleaf (t ++ [n]) -> nkids n <> [] -> Forall (fun k => k < length t) (nkids n) ->
  qproba (t ++ [n]) nf X = Some a ->
  forall i, i < length X ->
    let d := drow nf (nth i X row_none) in
    (forall c, c < length (nkids n) -> qmpe_at sel_first (t ++ [n]) (nth c (nkids n) 0) d nf = Some (cls c)) ->
    (0 < qroot (t ++ [n]) d)%Qc ->
    nth i (qpredict sel_first (t ++ [n]) nf X) None = Some (cls (argmax Qc sel_first (nth i (qlists a) []))).
Proof.
  intros Hc Hne Hk Ha i Hi d Hmode Hpos.
  apply (predict_is_argmax Qc 0%Qc 1%Qc Qcplus Qcmult Qcinv sel_first qleaf qleaf_val (qfill sel_first)
           t n nf X a cls Hc Hne Hk Ha i Hi Hmode).
  intros x y. apply sel_first_scale. apply Qc_inv_pos.
  fold d. rewrite (evidence_is_root_val Qc 0%Qc 1%Qc Qcplus Qcmult qleaf qleaf_val t n d Hc Hk). exact Hpos.
Qed.

(* ---- a concrete classifier: features X0 (binary), X1 (categorical {0,1,2}); label = variable 2,
   three classes; class c's branch is a product of three leaves whose label leaf has mode c
   (a smoothed indicator, as the learner produces on the rows of class c) ---- *)
Definition fx_doms : list (nat * list Z) := [(0, [0;1]%Z); (1, [0;1;2]%Z); (2, [0;1;2]%Z)].
Definition fx_t : qtable :=
  [ Build_node (KLeaf (LTab 0 [(1, q 3 4); (0, q 1 4)]%Z)) [0] [];
    Build_node (KLeaf (LTab 1 [(0, q 1 2); (1, q 1 4); (2, q 1 4)]%Z)) [1] [];
    Build_node (KLeaf (LTab 2 [(0, q 7 8); (1, q 1 16); (2, q 1 16)]%Z)) [2] [];
    Build_node KProd [0;1;2] [0;1;2];
    Build_node (KLeaf (LTab 0 [(1, q 1 8); (0, q 7 8)]%Z)) [0] [];
    Build_node (KLeaf (LTab 1 [(0, q 1 4); (1, q 1 2); (2, q 1 4)]%Z)) [1] [];
    Build_node (KLeaf (LTab 2 [(0, q 1 16); (1, q 7 8); (2, q 1 16)]%Z)) [2] [];
    Build_node KProd [0;1;2] [4;5;6];
    Build_node (KLeaf (LTab 0 [(1, q 1 2); (0, q 1 2)]%Z)) [0] [];
    Build_node (KLeaf (LTab 2 [(0, q 1 16); (1, q 1 16); (2, q 7 8)]%Z)) [2] [];
    Build_node KProd [0;1;2] [8;1;9];
    Build_node (KSum [q 1 2; q 1 4; q 1 4]) [0;1;2] [3;7;10] ].
Definition fx_cls (c : nat) : Z := Z.of_nat c.
(* batch of two rows (fewer than classes): complete evidence; X1 missing *)
Definition fx_X2 : list row := [mkrow [S_ 1; S_ 0]%Z; mkrow [S_ 0; N_]%Z].
Definition fx_X3 : list row := fx_X2 ++ [mkrow [N_; N_]].

Example fx_valid_b : qvalid_b fx_doms fx_t = true.
Proof. vm_compute. reflexivity. Qed.
Example fx_valid : valid Qc 0%Qc Qcplus (dom fx_doms) qleaf qleaf_val fx_t.
Proof. apply (valid_b_sound Qc 0%Qc 1%Qc Qcplus Qcmult Qc_srth Qc_eq_bool Qc_eq_bool_sound fx_doms), fx_valid_b. Qed.
Example fx_clf : clf Qc qleaf fx_t.
Proof. exists [q 1 2; q 1 4; q 1 4]. split; reflexivity. Qed.

Example fx_proba2 : option_map (fun a => map (map this) (qlists a)) (qproba fx_t 2 fx_X2) =
  Some [[8 # 11; 1 # 33; 8 # 33]; [4 # 15; 7 # 15; 4 # 15]]%Q.
Proof. vm_compute. reflexivity. Qed.
Example fx_proba3_prior_row : option_map (fun a => map this (nth 2 (qlists a) [])) (qproba fx_t 2 fx_X3) =
  Some [1 # 2; 1 # 4; 1 # 4]%Q.
Proof. vm_compute. reflexivity. Qed.
Example fx_predict2 : qpredict sel_first fx_t 2 fx_X2 = [Some 0%Z; Some 1%Z].
Proof. vm_compute. reflexivity. Qed.

(* the instance of the theorem: all hypotheses hold for row 1 of the 2-row batch *)
Example fx_predict_is_argmax :
  exists a, qproba fx_t 2 fx_X2 = Some a /\
    nth 1 (qpredict sel_first fx_t 2 fx_X2) None = Some (fx_cls (argmax Qc sel_first (nth 1 (qlists a) []))).
Proof.
  destruct (proba_shape Qc 0%Qc 1%Qc Qcplus Qcmult Qcinv qleaf qleaf_val fx_t 2 fx_X2 fx_clf) as [a [Ha _]].
  exists a. split; [exact Ha|].
  change fx_t with (firstn 11 fx_t ++ [nth 11 fx_t (dummy_node Qc qleaf)]) in *.
  apply predict_is_argmax_Qc.
  - exact fx_clf.
  - discriminate.
  - repeat constructor.
  - exact Ha.
  - cbn; lia.
  - intros c Hc. cbn in Hc. destruct c as [|[|[|c]]]; try lia; vm_compute; reflexivity.
  - vm_compute. reflexivity.
Qed.

(* missing X1 in row 1 is summed out of every class score *)
Example fx_marginalised :
  joint Qc 0%Qc 1%Qc Qcplus Qcmult qleaf qleaf_val fx_t 1 (drow 2 (nth 1 fx_X2 row_none)) =
  qsum (map (fun x => joint Qc 0%Qc 1%Qc Qcplus Qcmult qleaf qleaf_val fx_t 1
                        (upd (drow 2 (nth 1 fx_X2 row_none)) 1 (Some x))) [0;1;2]%Z).
Proof.
  apply (joint_marg1 Qc 0%Qc 1%Qc Qcplus Qcmult Qc_srth (dom fx_doms) qleaf qleaf_val fx_t 1 _ 1 fx_valid).
  - cbn. lia.
  - cbn. auto.
  - reflexivity.
Qed.
