(* Proofs/CltFacts.v — locality and single-variable marginalisation of leaves-to-root message
   passing, for every commutative semiring (sum-product and max-product are two instances). *)
From Coq Require Import List Arith ZArith Ring Lia Bool.
From DV Require Import Model.Core Model.Clt Proofs.CoreFacts.
Import ListNotations.

Section CltFacts.
  Variable T : Type.
  Variables (t0 t1 : T) (tadd tmul : T -> T -> T).
  Hypothesis SRth : semi_ring_theory t0 t1 tadd tmul (@eq T).
  Add Ring Tring2 : SRth.
  Infix "+" := tadd. Infix "*" := tmul.
  Notation sumT := (sumT T t0 tadd).
  Notation prodT := (prodT T t1 tmul).
  Notation ctree := (ctree T).
  Notation up := (up T t0 t1 tadd tmul).
  Notation vars := (vars T).

  Section Ind.
    Variable P : ctree -> Prop.
    Hypothesis H : forall v cpt kids, Forall P kids -> P (CT v cpt kids).
    Fixpoint ctree_ind' (t : ctree) : P t :=
      match t with
      | CT v cpt kids =>
          H v cpt kids ((fix go (l : list ctree) : Forall P l :=
                           match l with [] => Forall_nil _ | k :: ks => Forall_cons _ (ctree_ind' k) (go ks) end) kids)
      end.
  End Ind.

  Theorem up_local t : forall pv r v c, ~ In v (vars t) -> up t pv (upd r v c) = up t pv r.
  Proof.
    induction t as [u cpt kids IH] using ctree_ind'. intros pv r v c Hn. cbn in Hn.
    assert (Hk : forall x, map (fun k => up k x (upd r v c)) kids = map (fun k => up k x r) kids).
    { intro x. apply map_ext_Forall. rewrite Forall_forall in *. intros k Hin. apply IH; [exact Hin|].
      intro Hv. apply Hn. right. apply in_flat_map. eauto. }
    cbn. rewrite upd_other by (intro; subst; tauto).
    destruct (r u); [now rewrite Hk|]. cbn. now rewrite !Hk.
  Qed.

  Lemma prod_split_list (F : ctree -> Z -> T) (G : ctree -> T) ks l :
    (exists k1 ks1 ks2, ks = ks1 ++ k1 :: ks2 /\ G k1 = sumT (map (F k1) l) /\
        (forall k, In k (ks1 ++ ks2) -> forall x, F k x = G k)) ->
    prodT (map G ks) = sumT (map (fun x => prodT (map (fun k => F k x) ks)) l).
  Proof.
    intros (k1 & ks1 & ks2 & -> & Hs & Hc). revert Hc. induction ks1 as [|a ks1 IH]; intros Hc; cbn.
    - rewrite Hs, <- (sumT_scal_r T t0 t1 tadd tmul SRth). f_equal. apply map_ext. intros x. f_equal. f_equal.
      apply map_ext_Forall. rewrite Forall_forall. intros k Hk. symmetry. apply Hc. exact Hk.
    - rewrite IH by (intros k Hk; apply Hc; now right).
      rewrite <- (sumT_scal T t0 t1 tadd tmul SRth). f_equal. apply map_ext.
      intros x. now rewrite (Hc a (or_introl eq_refl)).
  Qed.

  Lemma nodup_app_disj {A} (a b : list A) : NoDup (a ++ b) -> forall x, In x a -> In x b -> False.
  Proof.
    induction a as [|y a IH]; cbn; intros Hnd x Ha Hb; [contradiction|].
    apply NoDup_cons_iff in Hnd. destruct Hnd as [Hy Hnd]. destruct Ha as [->|Ha].
    - apply Hy. apply in_or_app. now right.
    - now apply (IH Hnd x).
  Qed.
  Lemma nodup_app_r {A} (a b : list A) : NoDup (a ++ b) -> NoDup b.
  Proof. induction a as [|y a IH]; cbn; intros H; [exact H|]. apply NoDup_cons_iff in H. tauto. Qed.
  Lemma nodup_app_l {A} (a b : list A) : NoDup (a ++ b) -> NoDup a.
  Proof.
    induction a as [|y a IH]; cbn; intros H; [constructor|]. apply NoDup_cons_iff in H. destruct H as [Hy H].
    constructor; [intro; apply Hy; apply in_or_app; now left | now apply IH].
  Qed.

  Theorem up_marg1 t : NoDup (vars t) -> forall pv r v, In v (vars t) -> r v = None ->
      up t pv r = sumT (map (fun x => up t pv (upd r v (Some x))) dom2).
  Proof.
    induction t as [u cpt kids IH] using ctree_ind'. intros Hnd pv r v Hin Hnone.
    cbn in Hnd, Hin. apply NoDup_cons_iff in Hnd. destruct Hnd as [Hu Hnd].
    destruct (Nat.eq_dec v u) as [->|Hne].
    - cbn. rewrite Hnone. cbn. rewrite !upd_same.
      assert (Hk : forall x y, map (fun k => up k y (upd r u (Some x))) kids = map (fun k => up k y r) kids).
      { intros x y. apply map_ext_Forall. rewrite Forall_forall. intros k Hk. apply up_local.
        intro Hv. apply Hu. apply in_flat_map. eauto. }
      now rewrite !Hk.
    - destruct Hin as [Heq|Hin]; [congruence|].
      apply in_flat_map in Hin. destruct Hin as [k1 [Hk1 Hv1]].
      destruct (in_split _ _ Hk1) as [ks1 [ks2 ->]].
      rewrite flat_map_app in Hnd. cbn in Hnd.
      assert (Hother : forall k, In k (ks1 ++ ks2) -> ~ In v (vars k)).
      { intros k Hk Hv. apply in_app_or in Hk. destruct Hk as [Hk|Hk].
        - apply (nodup_app_disj _ _ Hnd v); [apply in_flat_map; eauto | apply in_or_app; now left].
        - apply nodup_app_r in Hnd. apply (nodup_app_disj _ _ Hnd v); [exact Hv1 | apply in_flat_map; eauto]. }
      assert (Hnd1 : NoDup (vars k1)) by (apply nodup_app_r in Hnd; now apply nodup_app_l in Hnd).
      rewrite Forall_forall in IH.
      assert (Hsplit : forall y, prodT (map (fun k => up k y r) (ks1 ++ k1 :: ks2)) =
                 sumT (map (fun x => prodT (map (fun k => up k y (upd r v (Some x))) (ks1 ++ k1 :: ks2))) dom2)).
      { intro y. apply (prod_split_list (fun k x => up k y (upd r v (Some x))) (fun k => up k y r)).
        exists k1, ks1, ks2. split; [reflexivity|]. split.
        - apply IH; [exact Hk1 | exact Hnd1 | exact Hv1 | exact Hnone].
        - intros k Hk x. apply up_local. now apply Hother. }
      cbn [dom2 map Core.sumT]. cbn [Clt.up]. cbv zeta. rewrite !upd_other by congruence.
      destruct (r u) as [y|].
      + rewrite Hsplit. cbn [dom2 map Core.sumT]. ring.
      + cbn [dom2 map Core.sumT]. rewrite !Hsplit. cbn [dom2 map Core.sumT]. ring.
  Qed.

  (* all variables missing: the tree sums to one when every CPT row does *)
  Fixpoint rows_norm (t : ctree) : Prop :=
    match t with CT _ cpt kids =>
      (forall pv, In pv dom2 -> cpt pv 0%Z + cpt pv 1%Z = t1) /\
      (fix all (l : list ctree) := match l with [] => True | k :: ks => rows_norm k /\ all ks end) kids
    end.

  Lemma rows_norm_kids v cpt kids : rows_norm (CT v cpt kids) -> Forall rows_norm kids.
  Proof. cbn. intros [_ H]. induction kids as [|k ks IH]; constructor; tauto. Qed.

  Theorem up_all_missing t : rows_norm t -> forall pv r, In pv dom2 ->
      (forall v, In v (vars t) -> r v = None) -> up t pv r = t1.
  Proof.
    induction t as [u cpt kids IH] using ctree_ind'. intros Hn pv r Hpv Hmiss.
    pose proof (rows_norm_kids _ _ _ Hn) as Hk. destruct Hn as [Hrow _].
    cbn. rewrite (Hmiss u) by (cbn; auto). cbn.
    assert (Hones : forall x, In x dom2 -> prodT (map (fun k => up k x r) kids) = t1).
    { intros x Hx. apply (prod_ones T t0 t1 tadd tmul SRth). rewrite Forall_map.
      rewrite Forall_forall in *. intros k Hin. apply IH; auto.
      intros v Hv. apply Hmiss. cbn. right. apply in_flat_map. eauto. }
    rewrite !Hones by (cbn; auto). rewrite <- (Hrow pv Hpv) at 3. ring.
  Qed.
End CltFacts.

Section CltBatchFacts.
  Variable T : Type.
  Variables (t0 t1 : T) (tadd tmul : T -> T -> T).
  Lemma merge_split {A} (p : A -> bool) (f g : A -> T) (l : list A) :
    merge T (map p l) (map f (filter p l)) (map g (filter (fun r => negb (p r)) l)) =
    map (fun r => if p r then f r else g r) l.
  Proof. induction l as [|x l IH]; cbn; [reflexivity|]. destruct (p x); cbn; now rewrite IH. Qed.

  (* the split / merge batch evaluation is row-wise evaluation, for every batch *)
  Theorem clt_batch_rowwise (c : clt T) (rows : list row) :
    clt_batch T t0 t1 tadd tmul c rows = map (clt_lik T t0 t1 tadd tmul c) rows.
  Proof.
    unfold clt_batch, clt_lik. destruct (forallb (fun b => b) (map (complete_on (cscope c)) rows)) eqn:E.
    - apply map_ext_in. intros r Hr. rewrite forallb_forall in E.
      rewrite (E (complete_on (cscope c) r)); [reflexivity | now apply in_map].
    - apply merge_split.
  Qed.
End CltBatchFacts.
