(* Proofs/RatLift.v — C16: the level-wise induction that lifts the per-node steps of RatMarg.v to every
   class output of rat_forward / rat_model: locality + single-variable marginalisation over 0..n-1,
   value = sum over completions, all-missing value = one, total mass = one. *)
From Coq Require Import List Arith ZArith Ring Lia Bool Permutation.
From DV Require Import Model.Core Model.Leaves Model.Rat Proofs.CoreFacts Proofs.RatRegion Proofs.RatMarg.
Import ListNotations.
Local Opaque Nat.div Nat.modulo.

(* ---------- two-step list induction and pairing of scopes ---------- *)
Lemma pair_ind {A} (P : list A -> Prop) :
  P [] -> (forall a, P [a]) -> (forall a b l, P l -> P (a :: b :: l)) -> forall l, P l.
Proof.
  intros H0 H1 H2 l. enough (P l /\ forall a, P (a :: l)) by tauto.
  induction l as [|x l [IH1 IH2]].
  - split; [exact H0 | exact H1].
  - split; [apply IH2 | intros a; apply H2; exact IH1].
Qed.

Fixpoint pair_sc (l : list (list nat)) : list (list nat) :=
  match l with a :: b :: tl => (a ++ b) :: pair_sc tl | _ => [] end.
Fixpoint pairs_disj (l : list (list nat)) : Prop :=
  match l with a :: b :: tl => (forall v, In v a -> ~ In v b) /\ pairs_disj tl | _ => True end.
Definition evenl {A} (l : list A) : Prop := exists h, length l = 2 * h.

Lemma pair_sc_app a b : evenl a -> pair_sc (a ++ b) = pair_sc a ++ pair_sc b.
Proof.
  induction a as [|x|x y l IH] using pair_ind; intros [h H]; cbn in *; [reflexivity | lia |].
  f_equal. apply IH. exists (h - 1). lia.
Qed.
Lemma pairs_disj_app a b : evenl a -> pairs_disj a -> pairs_disj b -> pairs_disj (a ++ b).
Proof.
  induction a as [|x|x y l IH] using pair_ind; intros [h H] Ha Hb; cbn in *; [exact Hb | lia |].
  destruct Ha as [H1 H2]. split; [exact H1|]. apply IH; auto. exists (h - 1). lia.
Qed.
Lemma pair_sc_length a : forall h, length a = 2 * h -> length (pair_sc a) = h.
Proof.
  induction a as [|x|x y l IH] using pair_ind; intros h H; cbn in *; [lia | lia |].
  rewrite (IH (h - 1)); lia.
Qed.
Lemma pair_sc_concat a : evenl a -> concat (pair_sc a) = concat a.
Proof.
  induction a as [|x|x y l IH] using pair_ind; intros [h H]; cbn in *; [reflexivity | lia |].
  rewrite IH by (exists (h - 1); lia). now rewrite app_assoc.
Qed.

Lemma NoDup_app_inv {A} (a b : list A) : NoDup (a ++ b) ->
  NoDup a /\ NoDup b /\ forall v, In v a -> ~ In v b.
Proof.
  induction a as [|x a IH]; cbn; intros H.
  - repeat split; [constructor | exact H | intros v []].
  - inversion H as [|? ? Hn Hd]; subst. destruct (IH Hd) as [Ha [Hb Hdis]].
    repeat split; [constructor; [intro; apply Hn; apply in_or_app; auto | exact Ha] | exact Hb |].
    intros v [<-|Hv] Hb'; [apply Hn; apply in_or_app; auto | exact (Hdis v Hv Hb')].
Qed.
Lemma nodup_pairs_disj l : NoDup (concat l) -> pairs_disj l.
Proof.
  induction l as [|x|x y l IH] using pair_ind; cbn; intros H; [exact I | exact I |].
  rewrite app_assoc in H. apply NoDup_app_inv in H. destruct H as [H1 [H2 _]].
  apply NoDup_app_inv in H1. destruct H1 as [_ [_ Hd]]. split; [exact Hd | now apply IH].
Qed.
Lemma nodup_concat_each (l : list (list nat)) : NoDup (concat l) -> Forall (@NoDup nat) l.
Proof.
  induction l as [|x l IH]; cbn; intros H; constructor; apply NoDup_app_inv in H; [tauto | apply IH; tauto].
Qed.

(* scopes of a level: `reps` blocks of 2^k consecutive regions, each block a partition of S *)
Definition BD (S : list nat) (reps k : nat) (scs : list (list nat)) : Prop :=
  exists blocks, scs = concat blocks /\ length blocks = reps /\
                 Forall (fun b => length b = 2 ^ k /\ Permutation (concat b) S) blocks.

Lemma BD_length S reps k scs : BD S reps k scs -> length scs = reps * 2 ^ k.
Proof.
  intros [bl [-> [<- H]]]. induction H as [|b bl [Hb _] _ IH]; cbn; [reflexivity|].
  rewrite app_length, IH, Hb. lia.
Qed.

Lemma BD_step S reps k scs : NoDup S -> BD S reps (Datatypes.S k) scs ->
  pairs_disj scs /\ BD S reps k (pair_sc scs).
Proof.
  intros HS [bl [-> [<- H]]]. induction H as [|b bl [Hb Hp] _ [IH1 [bl' [E [Hl HF]]]]].
  - split; [exact I|]. exists []. repeat split; constructor.
  - assert (He : evenl b) by (exists (2 ^ k); rewrite Hb; cbn; lia).
    cbn [concat]. split.
    + apply pairs_disj_app; auto. apply nodup_pairs_disj. eapply Permutation_NoDup; [symmetry; exact Hp | exact HS].
    + exists (pair_sc b :: bl'). rewrite pair_sc_app by exact He. cbn [concat length]. rewrite E, Hl.
      repeat split. constructor; [|exact HF]. split.
      * apply pair_sc_length. rewrite Hb. cbn. lia.
      * now rewrite pair_sc_concat.
Qed.

Lemma BD_zero S reps scs : BD S reps 0 scs -> Forall (fun sc => Permutation sc S) scs.
Proof.
  intros [bl [-> [_ H]]]. induction H as [|b bl [Hb Hp] _ IH]; cbn; [constructor|].
  destruct b as [|sc [|? ?]]; cbn in Hb; try lia. cbn in *. rewrite app_nil_r in Hp. now constructor.
Qed.

Section RatLift.
  Variable T : Type.
  Variables (t0 t1 : T) (tadd tmul : T -> T -> T).
  Hypothesis SRth : semi_ring_theory t0 t1 tadd tmul (@eq T).
  Add Ring Tring3 : SRth.
  Declare Scope TT_scope.
  Infix "+" := tadd : TT_scope. Infix "*" := tmul : TT_scope.
  Local Open Scope TT_scope.
  Variable dom : nat -> list Z.
  Notation sumT := (sumT T t0 tadd).
  Notation dotT := (dotT T t0 tadd tmul).
  Notation good := (good T t0 tadd dom).
  Notation sum_compl := (sum_compl T t0 tadd dom).
  Notation outer := (outer T tmul).
  Notation pair_up := (pair_up T tmul).
  Notation sum_layer := (sum_layer T t0 tadd tmul).
  Notation root_layer := (root_layer T t0 tadd tmul).
  Notation inner := (inner T t0 tadd tmul).
  Notation leaf_prod := (leaf_prod T t0 t1 tmul).
  Notation base_layer := (base_layer T t0 t1 tmul).
  Notation rat_forward := (rat_forward T t0 t1 tadd tmul).
  Notation rat_model := (rat_model T t0 t1 tadd tmul).
  Notation lookup := (lookup T t0).
  Let F := (row -> T).

  Lemma good_ext sc (f g : F) : (forall r, f r = g r) -> good sc f -> good sc g.
  Proof.
    intros E [L M]. split.
    - intros r v c Hn. rewrite <- !E. now apply L.
    - intros r v Hin Hnone. rewrite <- E, (M r v Hin Hnone). f_equal. apply map_ext. intros x. apply E.
  Qed.
  Lemma good_const (f : F) : (forall r r', f r = f r') -> good [] f.
  Proof. intros H. split; [intros; apply H | intros r v []]. Qed.

  (* value = sum over the completions of any duplicate-free list of missing in-scope variables *)
  Lemma good_iter sc (f : F) : good sc f -> forall vs, NoDup vs ->
    forall r, (forall v, In v vs -> In v sc /\ r v = None) -> f r = sum_compl vs f r.
  Proof.
    intros [_ M] vs Hnd. induction Hnd as [|v vs Hnin Hnd IH]; intros r Hall; [reflexivity|].
    cbn [Core.sum_compl]. destruct (Hall v (or_introl eq_refl)) as [Hin Hnone].
    rewrite (M r v Hin Hnone). f_equal. apply map_ext. intros x.
    apply IH. intros u Hu. destruct (Hall u (or_intror Hu)) as [Hus Hun]. split; [exact Hus|].
    unfold upd. destruct (Nat.eqb_spec u v); [subst; contradiction | exact Hun].
  Qed.

  (* ---------- a level as a list of lists of value functions ---------- *)
  Definition evl (r : row) (Fs : list (list F)) : list (list T) := map (map (fun f => f r)) Fs.
  Definition LG (scs : list (list nat)) (Fs : list (list F)) : Prop :=
    Forall2 (fun sc fs => Forall (good sc) fs) scs Fs.
  Definition lvl (scs : list (list nat)) (L : row -> list (list T)) : Prop :=
    exists Fs, (forall r, L r = evl r Fs) /\ LG scs Fs.

  (* product layer *)
  Definition outerF (a b : list F) : list F := flat_map (fun f => map (fun g => (fun r => f r * g r) : F) b) a.
  Fixpoint pairF (l : list (list F)) : list (list F) :=
    match l with a :: b :: tl => outerF a b :: pairF tl | _ => [] end.

  Lemma ev_outer r a b : map (fun f : F => f r) (outerF a b) = outer (map (fun f : F => f r) a) (map (fun f : F => f r) b).
  Proof.
    unfold outerF, Rat.outer. induction a as [|f a IH]; cbn; [reflexivity|].
    rewrite map_app, IH, !map_map. reflexivity.
  Qed.
  Lemma ev_pair r Fs : pair_up (evl r Fs) = evl r (pairF Fs).
  Proof.
    induction Fs as [|a|a b l IH] using pair_ind; cbn; [reflexivity | reflexivity |].
    rewrite ev_outer. f_equal. exact IH.
  Qed.
  Lemma good_outer sa sb a b : Forall (good sa) a -> Forall (good sb) b -> (forall v, In v sa -> ~ In v sb) ->
    Forall (good (sa ++ sb)) (outerF a b).
  Proof.
    intros Ha Hb Hd. rewrite Forall_forall in *. intros h Hin. unfold outerF in Hin.
    apply in_flat_map in Hin. destruct Hin as [f [Hf Hin]]. apply in_map_iff in Hin. destruct Hin as [g [<- Hg]].
    apply (good_mul T t0 t1 tadd tmul SRth dom); auto.
  Qed.
  Lemma LG_pair scs : forall Fs, LG scs Fs -> pairs_disj scs -> LG (pair_sc scs) (pairF Fs).
  Proof.
    induction scs as [|x|x y l IH] using pair_ind; intros Fs H Hd.
    - inversion H; subst. constructor.
    - inversion H as [|? ? ? ? H1 H2]; subst. inversion H2; subst. constructor.
    - inversion H as [|? fa ? ? H1 H2]; subst. inversion H2 as [|? fb ? Fl H3 H4]; subst.
      destruct Hd as [Hd1 Hd2]. cbn. constructor; [now apply good_outer | now apply IH].
  Qed.
  Lemma lvl_pair scs L : lvl scs L -> pairs_disj scs -> lvl (pair_sc scs) (fun r => pair_up (L r)).
  Proof.
    intros [Fs [HL HG]] Hd. exists (pairF Fs). split; [intros r; rewrite HL; apply ev_pair | now apply LG_pair].
  Qed.

  (* sum layer *)
  Definition sumF (W : list (list (list T))) (Fs : list (list F)) : list (list F) :=
    map (fun Wx => map (fun w => (fun r => dotT w (map (fun f : F => f r) (snd Wx))) : F) (fst Wx)) (combine W Fs).
  Lemma ev_sum r W : forall Fs, sum_layer W (evl r Fs) = evl r (sumF W Fs).
  Proof.
    unfold Rat.sum_layer, evl, sumF. induction W as [|Wr W IH]; intros [|fs Fs]; cbn; try reflexivity.
    f_equal; [|apply IH]. rewrite map_map. reflexivity.
  Qed.
  Lemma LG_sum scs Fs : LG scs Fs -> forall W, length W = length scs -> LG scs (sumF W Fs).
  Proof.
    induction 1 as [|sc fs scs Fs Hg _ IH]; intros [|Wr W] Hl; cbn in Hl; try discriminate; [constructor|].
    unfold sumF. cbn. constructor; [|apply IH; lia].
    rewrite Forall_forall. intros h Hin. apply in_map_iff in Hin. destruct Hin as [w [<- _]].
    now apply (good_dot T t0 t1 tadd tmul SRth dom).
  Qed.
  Lemma lvl_sum scs L W : lvl scs L -> length W = length scs -> lvl scs (fun r => sum_layer W (L r)).
  Proof.
    intros [Fs [HL HG]] Hl. exists (sumF W Fs). split; [intros r; rewrite HL; apply ev_sum | now apply LG_sum].
  Qed.

  (* root layer *)
  Lemma LG_concat S scs Fs : LG scs Fs -> Forall (fun sc => forall v, In v sc <-> In v S) scs ->
    Forall (good S) (concat Fs).
  Proof.
    induction 1 as [|sc fs scs Fs Hg _ IH]; intros Hs; cbn; [constructor|].
    inversion Hs as [|? ? He Hs']; subst. apply Forall_app. split; [|now apply IH].
    eapply Forall_impl; [|exact Hg]. intros f Hf. eapply good_seteq; eauto.
  Qed.
  Lemma lvl_root S scs L w : lvl scs L -> Forall (fun sc => forall v, In v sc <-> In v S) scs ->
    good S (fun r => dotT w (concat (L r))).
  Proof.
    intros [Fs [HL HG]] Hs.
    apply (good_ext S (fun r => dotT w (map (fun f : F => f r) (concat Fs)))).
    - intros r. rewrite HL. unfold evl. now rewrite concat_map.
    - apply (good_dot T t0 t1 tadd tmul SRth dom). now apply (LG_concat S scs).
  Qed.

  (* inner layers: Product, (Sum, Product)* *)
  Fixpoint wlen (reps : nat) (Ws : list (list (list (list T)))) : Prop :=
    match Ws with
    | [] => True
    | W :: Ws' => length W = (reps * 2 ^ length Ws)%nat /\ wlen reps Ws'
    end.

  Lemma lvl_inner S reps : NoDup S -> forall Ws scs L, lvl scs L -> BD S reps (Datatypes.S (length Ws)) scs ->
    wlen reps Ws -> exists scs', lvl scs' (fun r => inner Ws (L r)) /\ BD S reps 0 scs'.
  Proof.
    intros HS Ws. induction Ws as [|W Ws IH]; intros scs L HL HB Hw.
    - destruct (BD_step S reps 0 scs HS HB) as [Hd HB']. exists (pair_sc scs). split; [|exact HB'].
      cbn [Rat.inner]. now apply lvl_pair.
    - cbn [length] in HB. destruct (BD_step S reps _ scs HS HB) as [Hd HB']. destruct Hw as [Hl Hw].
      cbn [Rat.inner]. apply (IH (pair_sc scs) (fun r => sum_layer W (pair_up (L r)))); [|exact HB'|exact Hw].
      apply lvl_sum; [now apply lvl_pair|]. rewrite (BD_length _ _ _ _ HB'). exact Hl.
  Qed.

  (* ---------- base layer ---------- *)
  Definition tab_norm (tb : list (Z * T)) : Prop := forall v, sumT (map (lookup tb) (dom v)) = t1.

  Lemma pad_const x k : forall tc r r', leaf_prod (repeat x k) (repeat true k) tc r = leaf_prod (repeat x k) (repeat true k) tc r'.
  Proof. induction k as [|k IH]; intros [|tb tc] r r'; cbn; try reflexivity. now rewrite (IH tc r r'). Qed.

  Lemma leaf_good x k reg : NoDup reg -> forall tc, length reg <= length tc -> Forall tab_norm tc ->
    good reg (leaf_prod (reg ++ repeat x k) (repeat false (length reg) ++ repeat true k) tc).
  Proof.
    induction 1 as [|v reg Hn Hnd IH]; intros tc Hl Hnorm.
    - cbn. apply good_const. apply pad_const.
    - destruct tc as [|tb tc]; cbn in Hl; [lia|]. inversion Hnorm as [|? ? Hb Hrest]; subst.
      apply (good_ext _ (fun r => cell T t0 t1 tb (r v) *
                                   leaf_prod (reg ++ repeat x k) (repeat false (length reg) ++ repeat true k) tc r));
        [intros r; reflexivity|].
      change (v :: reg) with ([v] ++ reg).
      apply (good_mul T t0 t1 tadd tmul SRth dom).
      + apply (good_cell T t0 t1 tadd tmul SRth dom). apply Hb.
      + apply IH; [lia | exact Hrest].
      + intros u [<-|[]]. exact Hn.
  Qed.

  Definition baseF (D : nat) (regs : list (list nat)) (tabs : list (list (list (list (Z * T))))) : list (list F) :=
    map (fun rt => map (fun tc => leaf_prod (mask_row D (fst rt)) (padm_row D (fst rt)) tc : F) (snd rt)) (combine regs tabs).

  Lemma ev_base D r regs : forall tabs,
    base_layer (mask_of D regs) (padm_of D regs) tabs r = evl r (baseF D regs tabs).
  Proof.
    unfold Rat.base_layer, mask_of, padm_of, evl, baseF.
    induction regs as [|reg regs IH]; intros [|tr tabs]; cbn; try reflexivity.
    f_equal; [|apply IH]. now rewrite map_map.
  Qed.

  Definition tabs_ok (D : nat) (tabs : list (list (list (list (Z * T))))) : Prop :=
    Forall (Forall (fun tc => length tc = D /\ Forall tab_norm tc)) tabs.

  Lemma LG_base D regs : Forall (fun reg => length reg <= D /\ NoDup reg) regs ->
    forall tabs, length tabs = length regs -> tabs_ok D tabs -> LG regs (baseF D regs tabs).
  Proof.
    induction 1 as [|reg regs [Hr Hnd] _ IH]; intros [|tr tabs] Hl Hok; cbn in Hl; try discriminate; [constructor|].
    inversion Hok as [|? ? Htr Hrest]; subst. unfold baseF. cbn. constructor; [|apply IH; [lia | exact Hrest]].
    rewrite Forall_forall in *. intros h Hin. apply in_map_iff in Hin. destruct Hin as [tc [<- Htc]].
    destruct (Htr tc Htc) as [Hlen Hn]. unfold mask_row, padm_row. apply leaf_good; [exact Hnd | lia | exact Hn].
  Qed.

  (* ---------- the theorem: every class output of the model built from admissible permutations ---------- *)
  Lemma rat_leaves_BD n d permss : 2 ^ d <= n ->
    Forall (fun perms => length perms = d /\ adm [items n] perms) permss ->
    BD (items n) (length permss) d (rat_leaves n permss) /\
    Forall (fun reg => length reg <= dim_of n d /\ NoDup reg) (rat_leaves n permss).
  Proof.
    intros Hn H. unfold rat_leaves. induction H as [|perms permss [Hd Ha] _ [[bl [E [Hl HF]]] IH2]].
    - split; [exists []; repeat split; constructor | constructor].
    - subst d. destruct (regions_leaves n perms Ha Hn) as [Hp [Hlen [Hsz _]]].
      cbn [map concat]. split.
      + exists (leaves_of [items n] perms :: bl). cbn [concat length]. rewrite E, Hl. repeat split.
        constructor; [split; assumption | exact HF].
      + apply Forall_app. split; [|exact IH2].
        assert (Hnd : Forall (@NoDup nat) (leaves_of [items n] perms)).
        { apply nodup_concat_each. eapply Permutation_NoDup; [symmetry; exact Hp | apply seq_NoDup]. }
        rewrite Forall_forall in *. intros reg Hin. split; [apply Hsz in Hin; lia | now apply Hnd].
  Qed.

  Theorem rat_good n d permss tabs Ws Wroot :
    d = S (length Ws) -> 2 ^ d <= n ->
    Forall (fun perms => length perms = d /\ adm [items n] perms) permss ->
    length tabs = (length permss * 2 ^ d)%nat -> tabs_ok (dim_of n d) tabs ->
    wlen (length permss) Ws ->
    forall c, good (items n) (fun r => nth c (rat_model n d permss tabs Ws Wroot r) t0).
  Proof.
    intros Hd Hn Hp Hlt Hok Hw c.
    destruct (rat_leaves_BD n d permss Hn Hp) as [HB Hregs].
    assert (Hbase : lvl (rat_leaves n permss)
                        (base_layer (mask_of (dim_of n d) (rat_leaves n permss)) (padm_of (dim_of n d) (rat_leaves n permss)) tabs)).
    { exists (baseF (dim_of n d) (rat_leaves n permss) tabs). split; [intros r; apply ev_base|].
      apply LG_base; [exact Hregs | now rewrite (BD_length _ _ _ _ HB) | exact Hok]. }
    rewrite Hd in HB.
    destruct (lvl_inner (items n) (length permss) (seq_NoDup n 0) Ws _ _ Hbase HB Hw) as [scs' [Hl' HB0]].
    apply BD_zero in HB0.
    assert (Hs : Forall (fun sc => forall v, In v sc <-> In v (items n)) scs').
    { eapply Forall_impl; [|exact HB0]. intros sc Hperm v. split; apply Permutation_in; [exact Hperm | now symmetry]. }
    apply (good_ext _ (fun r => dotT (nth c Wroot [])
              (concat (inner Ws (base_layer (mask_of (dim_of n d) (rat_leaves n permss))
                                            (padm_of (dim_of n d) (rat_leaves n permss)) tabs r))))).
    - intros r. unfold Rat.rat_model, Rat.rat_forward, Rat.root_layer.
      symmetry. apply (map_nth (fun w => dotT w _) Wroot [] c).
    - now apply (lvl_root (items n) scs').
  Qed.

  (* ---------- all-missing rows: every node is one ---------- *)
  Lemma leaf_prod_none (r : row) : (forall v, r v = None) -> forall m p tc, leaf_prod m p tc r = t1.
  Proof.
    intros Hr m. induction m as [|v m IH]; intros [|b p] [|tb tc]; cbn; try reflexivity.
    rewrite IH, Hr. destruct b; cbn; ring.
  Qed.

  Definition ones (K : nat) (L : list (list T)) : Prop := Forall (fun v => v = repeat t1 K) L.

  Lemma map_repeat' {A B} (f : A -> B) x k : map f (repeat x k) = repeat (f x) k.
  Proof. induction k; cbn; congruence. Qed.
  Lemma outer_ones a b : outer (repeat t1 a) (repeat t1 b) = repeat t1 (a * b)%nat.
  Proof.
    unfold Rat.outer. induction a as [|a IH]; cbn [repeat flat_map Nat.mul]; [reflexivity|].
    rewrite IH, map_repeat', repeat_app. f_equal. f_equal. ring.
  Qed.
  Lemma pair_ones K L : ones K L -> ones (K * K)%nat (pair_up L).
  Proof.
    unfold ones. induction L as [|a|a b l IH] using pair_ind; intros H; cbn; [constructor | constructor |].
    inversion H as [|? ? Ha H']; subst. inversion H' as [|? ? Hb H'']; subst.
    constructor; [apply outer_ones | now apply IH].
  Qed.
  Lemma pair_up_length L : forall h, length L = (2 * h)%nat -> length (pair_up L) = h.
  Proof.
    induction L as [|a|a b l IH] using pair_ind; intros h H; cbn in *; [lia | lia |].
    rewrite (IH (h - 1)%nat); lia.
  Qed.

  Definition wrow_ok (KK : nat) (w : list T) : Prop := length w = KK /\ sumT w = t1.
  Lemma dot_one KK w : wrow_ok KK w -> dotT w (repeat t1 KK) = t1.
  Proof.
    intros [Hl Hs]. rewrite (dot_ones T t0 t1 tadd tmul SRth w (repeat t1 KK)); [exact Hs | now rewrite repeat_length |].
    rewrite Forall_forall. intros x Hx. now apply repeat_spec in Hx.
  Qed.
  Lemma sum_ones KK S W : Forall (fun Wr => length Wr = S /\ Forall (wrow_ok KK) Wr) W ->
    forall xs, ones KK xs -> ones S (sum_layer W xs).
  Proof.
    unfold ones, Rat.sum_layer. induction 1 as [|Wr W [Hl Hr] _ IH]; intros [|x xs] Hx; cbn; try constructor.
    - inversion Hx as [|? ? Hx1 Hx2]. cbn [fst snd]. rewrite Hx1, <- Hl. clear Hl. induction Hr as [|w Wr Hw _ IHr]; cbn; [reflexivity|].
      now rewrite IHr, (dot_one KK w Hw).
    - inversion Hx as [|? ? Hx1 Hx2]. now apply IH.
  Qed.
  Lemma concat_ones K L : ones K L -> concat L = repeat t1 (length L * K)%nat.
  Proof.
    unfold ones. induction 1 as [|v L Hv _ IH]; cbn; [reflexivity|]. now rewrite IH, Hv, repeat_app.
  Qed.

  (* shapes and normalisation of the weights, as RatSpn.__init__ allocates them *)
  Fixpoint wshape (reps K : nat) (Ws : list (list (list (list T)))) (Wroot : list (list T)) : Prop :=
    match Ws with
    | [] => Forall (wrow_ok (reps * (K * K))%nat) Wroot
    | W :: Ws' => length W = (reps * 2 ^ length Ws)%nat /\
                  exists S, Forall (fun Wr => length Wr = S /\ Forall (wrow_ok (K * K)%nat) Wr) W /\
                            wshape reps S Ws' Wroot
    end.
  Lemma wshape_wlen reps Ws Wroot : forall K, wshape reps K Ws Wroot -> wlen reps Ws.
  Proof. induction Ws as [|W Ws IH]; intros K H; cbn in *; [exact I|]. destruct H as [Hl [S [_ H]]]. split; eauto. Qed.

  Lemma inner_ones reps Wroot : forall Ws K x, length x = (reps * 2 ^ S (length Ws))%nat -> ones K x ->
    wshape reps K Ws Wroot -> Forall (fun y => y = t1) (root_layer Wroot (inner Ws x)).
  Proof.
    intros Ws. induction Ws as [|W Ws IH]; intros K x Hl Hx Hw.
    - cbn [Rat.inner]. cbn [wshape] in Hw. unfold Rat.root_layer. rewrite Forall_map.
      eapply Forall_impl; [|exact Hw]. intros w Hwr. cbn beta.
      rewrite (concat_ones _ _ (pair_ones K x Hx)), (pair_up_length x reps) by (rewrite Hl; cbn; lia).
      now apply dot_one.
    - cbn [Rat.inner]. destruct Hw as [HlW [Sn [HW Hw]]]. cbn [length] in *.
      assert (Hp : length (pair_up x) = (reps * 2 ^ S (length Ws))%nat)
        by (apply pair_up_length; rewrite Hl; cbn [Nat.pow]; lia).
      apply (IH Sn).
      + unfold Rat.sum_layer. rewrite map_length, combine_length, Hp, HlW. apply Nat.min_id.
      + apply (sum_ones (K * K)%nat Sn W HW). now apply pair_ones.
      + exact Hw.
  Qed.

  Lemma base_ones B (r : row) mask padm tabs : (forall v, r v = None) -> Forall (fun tr => length tr = B) tabs ->
    ones B (base_layer mask padm tabs r).
  Proof.
    intros Hr Ht. unfold ones, Rat.base_layer. rewrite Forall_map, Forall_forall. intros [[m p] tr] Hin. cbn [fst snd].
    assert (Htr : length tr = B).
    { apply in_combine_r in Hin. rewrite Forall_forall in Ht. now apply Ht. }
    rewrite <- Htr. clear Htr Hin. induction tr as [|tc tr IH]; cbn; [reflexivity|]. rewrite IH. f_equal.
    now apply leaf_prod_none.
  Qed.

  Theorem rat_all_missing n d permss B tabs Ws Wroot (r : row) :
    d = S (length Ws) -> 2 ^ d <= n ->
    Forall (fun perms => length perms = d /\ adm [items n] perms) permss ->
    length tabs = (length permss * 2 ^ d)%nat -> Forall (fun tr => length tr = B) tabs ->
    wshape (length permss) B Ws Wroot ->
    (forall v, r v = None) ->
    forall c, c < length Wroot -> nth c (rat_model n d permss tabs Ws Wroot r) t0 = t1.
  Proof.
    intros Hd Hn Hp Hlt Hb Hw Hr c Hc.
    destruct (rat_leaves_BD n d permss Hn Hp) as [HB _]. apply BD_length in HB.
    unfold Rat.rat_model, Rat.rat_forward.
    set (x := base_layer _ _ tabs r).
    assert (Hx : ones B x) by (apply base_ones; assumption).
    assert (Hlx : length x = (length permss * 2 ^ S (length Ws))%nat).
    { unfold x, Rat.base_layer, mask_of, padm_of. rewrite map_length, !combine_length, !map_length, HB, Hlt, <- Hd. lia. }
    pose proof (inner_ones (length permss) Wroot Ws B x Hlx Hx Hw) as Hall.
    rewrite Forall_forall in Hall. apply Hall. apply nth_In. unfold Rat.root_layer. now rewrite map_length.
  Qed.
End RatLift.

Lemma items_in n v : In v (items n) <-> v < n.
Proof. unfold items. rewrite in_seq. lia. Qed.
