(* Proofs/RatSampleFacts.v — C16: the sampler's measure (Model/RatSample.v) puts on every complete row
   exactly the model's value of that row, for every class, every admissible architecture and every
   commutative semiring; every outcome writes only cells of the variables 0..n-1. *)
From Coq Require Import List Arith ZArith Ring Lia Bool Permutation.
From DV Require Import Model.Core Model.Leaves Model.Mpe Model.Sample Model.Rat Model.RatSample
  Proofs.CoreFacts Proofs.SampleFacts Proofs.SampleClt Proofs.RatRegion Proofs.RatLift.
Import ListNotations.
Local Opaque Nat.div Nat.modulo.

Section RatSampleFacts.
  Variable T : Type.
  Variables (t0 t1 : T) (tadd tmul : T -> T -> T).
  Hypothesis SRth : semi_ring_theory t0 t1 tadd tmul (@eq T).
  Add Ring Tring4 : SRth.
  Declare Scope TS_scope.
  Infix "+" := tadd : TS_scope. Infix "*" := tmul : TS_scope.
  Local Open Scope TS_scope.
  Notation sumT := (sumT T t0 tadd).
  Notation dotT := (dotT T t0 tadd tmul).
  Notation meas := (meas T).
  Notation cross := (cross T tmul).
  Notation mix := (mix T tmul).
  Notation mass_at := (mass_at T t0 tadd).
  Notation keys_in := (keys_in T).
  Notation outer := (outer T tmul).
  Notation pair_up := (pair_up T tmul).
  Notation sum_layer := (sum_layer T t0 tadd tmul).
  Notation inner := (inner T t0 tadd tmul).
  Notation leaf_prod := (leaf_prod T t0 t1 tmul).
  Notation base_layer := (base_layer T t0 t1 tmul).
  Notation rat_model := (rat_model T t0 t1 tadd tmul).
  Notation lookup := (lookup T t0).
  Notation pos_meas := (pos_meas T).
  Notation leaf_meas := (leaf_meas T t1 tmul).
  Notation base_meas := (base_meas T t1 tmul).
  Notation outerM := (outerM T tmul).
  Notation pairM := (pairM T tmul).
  Notation sumM := (sumM T tmul).
  Notation innerM := (innerM T tmul).
  Notation rat_meas := (rat_meas T t1 tmul).

  (* the complete row whose mass is measured *)
  Variable z : nat -> Z.
  Let x : row := fun v => Some (z v).

  Definition mgood (sc : list nat) (m : meas) (f : T) : Prop :=
    keys_in m sc /\ mass_at m row_none sc x = f.
  Definition pgood (sc : list nat) (p : meas * T) : Prop := mgood sc (fst p) (snd p).

  Lemma mgood_cross sa sb m1 m2 f1 f2 : mgood sa m1 f1 -> mgood sb m2 f2 -> (forall v, In v sa -> ~ In v sb) ->
    mgood (sa ++ sb) (cross m1 m2) (f1 * f2).
  Proof.
    intros [K1 M1] [K2 M2] Hd. split.
    - intros a Ha v Hv. apply in_cross in Ha. destruct Ha as (a1 & a2 & H1 & H2 & ->).
      rewrite map_app, in_app_iff in Hv. apply in_or_app. destruct Hv as [Hv|Hv]; [left; exact (K1 a1 H1 v Hv) | right; exact (K2 a2 H2 v Hv)].
    - rewrite (mass_cross T t0 t1 tadd tmul SRth m1 m2 row_none sa sb x K1 K2 Hd). now rewrite M1, M2.
  Qed.

  Lemma keys_in_mix sc (w : list T) : forall ms, Forall (fun m => keys_in m sc) ms -> keys_in (mix w ms) sc.
  Proof.
    induction w as [|a w IH]; intros [|m ms] H; cbn; try (intros e []).
    inversion H as [|? ? Hm Hms]; subst. intros e He. rewrite map_app, in_app_iff in He. destruct He as [He|He].
    - unfold scale in He. rewrite map_map in He. cbn [fst] in He. now apply Hm.
    - now apply (IH ms Hms).
  Qed.

  Lemma mgood_mix sc w (ps : list (meas * T)) : Forall (pgood sc) ps ->
    mgood sc (mix w (map fst ps)) (dotT w (map snd ps)).
  Proof.
    intros H. split.
    - apply keys_in_mix. rewrite Forall_map. eapply Forall_impl; [|exact H]. intros p [Hk _]. exact Hk.
    - rewrite (mass_mix T t0 t1 tadd tmul SRth). f_equal. rewrite map_map.
      apply map_ext_Forall. eapply Forall_impl; [|exact H]. intros p [_ Hm]. exact Hm.
  Qed.

  Lemma mgood_seteq sc sc' m f : (forall v, In v sc <-> In v sc') -> mgood sc m f -> mgood sc' m f.
  Proof.
    intros He [K M]. split.
    - intros a Ha v Hv. apply He. exact (K a Ha v Hv).
    - rewrite <- M. symmetry. now apply mass_seteq.
  Qed.

  (* ---------- leaves ---------- *)
  Definition stab_ok (tb : list (Z * T)) : Prop := NoDup (map fst tb) /\ sumT (map snd tb) = t1.

  Lemma pos_real v tb : NoDup (map fst tb) -> mgood [v] (pos_meas v false tb) (cell T t0 t1 tb (x v)).
  Proof.
    intros Hnd. split.
    - intros a Ha u Hu. unfold RatSample.pos_meas in Ha. rewrite map_map in Ha. cbn [fst] in Ha.
      apply in_map_iff in Ha. destruct Ha as [kp [<- _]]. cbn in Hu. destruct Hu as [<-|[]]. now left.
    - unfold Sample.mass_at, RatSample.pos_meas. rewrite map_map. cbn [fst snd].
      erewrite map_ext.
      2:{ intros kp. cbn [agree_on forallb]. change (apply_assign [(v, fst kp)] row_none) with (upd row_none v (Some (fst kp))).
          unfold upd at 1. rewrite Nat.eqb_refl, andb_true_r. unfold x. cbn [ocell_eqb]. reflexivity. }
      unfold x. cbn [cell]. now apply (lookup_sum T t0 t1 tadd tmul SRth).
  Qed.
  Lemma pos_dummy v tb : sumT (map snd tb) = t1 -> mgood [] (pos_meas v true tb) t1.
  Proof.
    intros Hs. split.
    - intros a Ha u Hu. unfold RatSample.pos_meas in Ha. rewrite map_map in Ha. cbn [fst] in Ha.
      apply in_map_iff in Ha. destruct Ha as [kp [<- _]]. destruct Hu.
    - unfold Sample.mass_at, RatSample.pos_meas. rewrite map_map. cbn [fst snd agree_on forallb]. exact Hs.
  Qed.

  Lemma pad_mgood d k : forall tc, Forall stab_ok tc ->
    mgood [] (leaf_meas (repeat d k) (repeat true k) tc) (leaf_prod (repeat d k) (repeat true k) tc x).
  Proof.
    induction k as [|k IH]; intros [|tb tc] H; cbn [repeat RatSample.leaf_meas Rat.leaf_prod];
      try (split; [intros a [<-|[]] u [] | unfold Sample.mass_at; cbn; ring]).
    inversion H as [|? ? [_ Hs] Hr]; subst.
    change (@nil nat) with (@nil nat ++ @nil nat). apply mgood_cross; [now apply pos_dummy | now apply IH | intros u []].
  Qed.

  Lemma leaf_mgood d k reg : NoDup reg -> forall tc, length reg <= length tc -> Forall stab_ok tc ->
    mgood reg (leaf_meas (reg ++ repeat d k) (repeat false (length reg) ++ repeat true k) tc)
              (leaf_prod (reg ++ repeat d k) (repeat false (length reg) ++ repeat true k) tc x).
  Proof.
    induction 1 as [|v reg Hn Hnd IH]; intros tc Hl Hok.
    - cbn [app length repeat]. now apply pad_mgood.
    - destruct tc as [|tb tc]; cbn in Hl; [lia|]. inversion Hok as [|? ? [Hk _] Hr]; subst.
      cbn [app length repeat RatSample.leaf_meas Rat.leaf_prod].
      change (v :: reg) with ([v] ++ reg). apply mgood_cross.
      + now apply pos_real.
      + apply IH; [lia | exact Hr].
      + intros u [<-|[]]. exact Hn.
  Qed.

  (* ---------- levels as lists of lists of (measure, value) pairs ---------- *)
  Definition PLG (scs : list (list nat)) (PL : list (list (meas * T))) : Prop :=
    Forall2 (fun sc ps => Forall (pgood sc) ps) scs PL.
  Definition mlvl (scs : list (list nat)) (Ms : list (list meas)) (X : list (list T)) : Prop :=
    exists PL, Ms = map (map fst) PL /\ X = map (map snd) PL /\ PLG scs PL.

  Definition outerP (a b : list (meas * T)) : list (meas * T) :=
    flat_map (fun p => map (fun q => (cross (fst p) (fst q), snd p * snd q)) b) a.
  Fixpoint pairP (l : list (list (meas * T))) : list (list (meas * T)) :=
    match l with a :: b :: tl => outerP a b :: pairP tl | _ => [] end.

  Lemma fst_outerP a b : map fst (outerP a b) = outerM (map fst a) (map fst b).
  Proof.
    unfold outerP, RatSample.outerM. induction a as [|p a IH]; cbn; [reflexivity|].
    rewrite map_app, IH, !map_map. reflexivity.
  Qed.
  Lemma snd_outerP a b : map snd (outerP a b) = outer (map snd a) (map snd b).
  Proof.
    unfold outerP, Rat.outer. induction a as [|p a IH]; cbn; [reflexivity|].
    rewrite map_app, IH, !map_map. reflexivity.
  Qed.
  Lemma fst_pairP PL : map (map fst) (pairP PL) = pairM (map (map fst) PL).
  Proof. induction PL as [|a|a b l IH] using pair_ind; cbn; [reflexivity | reflexivity |]. now rewrite fst_outerP, IH. Qed.
  Lemma snd_pairP PL : map (map snd) (pairP PL) = pair_up (map (map snd) PL).
  Proof. induction PL as [|a|a b l IH] using pair_ind; cbn; [reflexivity | reflexivity |]. now rewrite snd_outerP, IH. Qed.

  Lemma pgood_outer sa sb a b : Forall (pgood sa) a -> Forall (pgood sb) b -> (forall v, In v sa -> ~ In v sb) ->
    Forall (pgood (sa ++ sb)) (outerP a b).
  Proof.
    intros Ha Hb Hd. rewrite Forall_forall in *. intros h Hin. unfold outerP in Hin.
    apply in_flat_map in Hin. destruct Hin as [p [Hp Hin]]. apply in_map_iff in Hin. destruct Hin as [q [<- Hq]].
    unfold pgood. cbn [fst snd]. apply mgood_cross; [exact (Ha p Hp) | exact (Hb q Hq) | exact Hd].
  Qed.
  Lemma PLG_pair scs : forall PL, PLG scs PL -> pairs_disj scs -> PLG (pair_sc scs) (pairP PL).
  Proof.
    induction scs as [|s|s s' l IH] using pair_ind; intros PL H Hd.
    - inversion H; subst. constructor.
    - inversion H as [|? ? ? ? H1 H2]; subst. inversion H2; subst. constructor.
    - inversion H as [|? fa ? ? H1 H2]; subst. inversion H2 as [|? fb ? Fl H3 H4]; subst.
      destruct Hd as [Hd1 Hd2]. cbn. constructor; [now apply pgood_outer | now apply IH].
  Qed.
  Lemma mlvl_pair scs Ms X : mlvl scs Ms X -> pairs_disj scs -> mlvl (pair_sc scs) (pairM Ms) (pair_up X).
  Proof.
    intros [PL [-> [-> HG]]] Hd. exists (pairP PL). repeat split; [symmetry; apply fst_pairP | symmetry; apply snd_pairP | now apply PLG_pair].
  Qed.

  Definition sumP (W : list (list (list T))) (PL : list (list (meas * T))) : list (list (meas * T)) :=
    map (fun Wx => map (fun w => (mix w (map fst (snd Wx)), dotT w (map snd (snd Wx)))) (fst Wx)) (combine W PL).
  Lemma fst_sumP W : forall PL, map (map fst) (sumP W PL) = sumM W (map (map fst) PL).
  Proof.
    unfold sumP, RatSample.sumM. induction W as [|Wr W IH]; intros [|ps PL]; cbn; try reflexivity.
    f_equal; [|apply IH]. now rewrite map_map.
  Qed.
  Lemma snd_sumP W : forall PL, map (map snd) (sumP W PL) = sum_layer W (map (map snd) PL).
  Proof.
    unfold sumP, Rat.sum_layer. induction W as [|Wr W IH]; intros [|ps PL]; cbn; try reflexivity.
    f_equal; [|apply IH]. now rewrite map_map.
  Qed.
  Lemma PLG_sum scs PL : PLG scs PL -> forall W, length W = length scs -> PLG scs (sumP W PL).
  Proof.
    induction 1 as [|sc ps scs PL Hg _ IH]; intros [|Wr W] Hl; cbn in Hl; try discriminate; [constructor|].
    unfold sumP. cbn. constructor; [|apply IH; lia].
    rewrite Forall_forall. intros h Hin. apply in_map_iff in Hin. destruct Hin as [w [<- _]].
    unfold pgood. cbn [fst snd]. now apply mgood_mix.
  Qed.
  Lemma mlvl_sum scs Ms X W : mlvl scs Ms X -> length W = length scs -> mlvl scs (sumM W Ms) (sum_layer W X).
  Proof.
    intros [PL [-> [-> HG]]] Hl. exists (sumP W PL). repeat split; [symmetry; apply fst_sumP | symmetry; apply snd_sumP | now apply PLG_sum].
  Qed.

  Lemma PLG_concat S scs PL : PLG scs PL -> Forall (fun sc => forall v, In v sc <-> In v S) scs ->
    Forall (pgood S) (concat PL).
  Proof.
    induction 1 as [|sc ps scs PL Hg _ IH]; intros Hs; cbn; [constructor|].
    inversion Hs as [|? ? He Hs']; subst. apply Forall_app. split; [|now apply IH].
    eapply Forall_impl; [|exact Hg]. intros p Hp. unfold pgood in *. eapply mgood_seteq; eauto.
  Qed.
  Lemma mlvl_root S scs Ms X w : mlvl scs Ms X -> Forall (fun sc => forall v, In v sc <-> In v S) scs ->
    mgood S (mix w (concat Ms)) (dotT w (concat X)).
  Proof.
    intros [PL [-> [-> HG]]] Hs. rewrite <- !concat_map. apply mgood_mix. now apply (PLG_concat S scs).
  Qed.

  Lemma mlvl_inner S reps : NoDup S -> forall Ws scs Ms X, mlvl scs Ms X -> BD S reps (Datatypes.S (length Ws)) scs ->
    wlen T reps Ws -> exists scs', mlvl scs' (innerM Ws Ms) (inner Ws X) /\ BD S reps 0 scs'.
  Proof.
    intros HS Ws. induction Ws as [|W Ws IH]; intros scs Ms X HL HB Hw.
    - destruct (BD_step S reps 0 scs HS HB) as [Hd HB']. exists (pair_sc scs). split; [|exact HB'].
      cbn [RatSample.innerM Rat.inner]. now apply mlvl_pair.
    - cbn [length] in HB. destruct (BD_step S reps _ scs HS HB) as [Hd HB']. destruct Hw as [Hl Hw].
      cbn [RatSample.innerM Rat.inner]. apply (IH (pair_sc scs)); [|exact HB'|exact Hw].
      apply mlvl_sum; [now apply mlvl_pair|]. rewrite (BD_length _ _ _ _ HB'). exact Hl.
  Qed.

  (* base *)
  Definition stabs_ok (D : nat) (tabs : list (list (list (list (Z * T))))) : Prop :=
    Forall (Forall (fun tc => length tc = D /\ Forall stab_ok tc)) tabs.
  Definition baseP (D : nat) (regs : list (list nat)) (tabs : list (list (list (list (Z * T))))) : list (list (meas * T)) :=
    map (fun rt => map (fun tc => (leaf_meas (mask_row D (fst rt)) (padm_row D (fst rt)) tc,
                                   leaf_prod (mask_row D (fst rt)) (padm_row D (fst rt)) tc x)) (snd rt)) (combine regs tabs).
  Lemma fst_baseP D regs : forall tabs, map (map fst) (baseP D regs tabs) = base_meas (mask_of D regs) (padm_of D regs) tabs.
  Proof.
    unfold RatSample.base_meas, mask_of, padm_of, baseP.
    induction regs as [|reg regs IH]; intros [|tr tabs]; cbn; try reflexivity.
    f_equal; [|apply IH]. now rewrite map_map.
  Qed.
  Lemma snd_baseP D regs : forall tabs, map (map snd) (baseP D regs tabs) = base_layer (mask_of D regs) (padm_of D regs) tabs x.
  Proof.
    unfold Rat.base_layer, mask_of, padm_of, baseP.
    induction regs as [|reg regs IH]; intros [|tr tabs]; cbn; try reflexivity.
    f_equal; [|apply IH]. now rewrite map_map.
  Qed.
  Lemma PLG_base D regs : Forall (fun reg => length reg <= D /\ NoDup reg) regs ->
    forall tabs, length tabs = length regs -> stabs_ok D tabs -> PLG regs (baseP D regs tabs).
  Proof.
    induction 1 as [|reg regs [Hr Hnd] _ IH]; intros [|tr tabs] Hl Hok; cbn in Hl; try discriminate; [constructor|].
    inversion Hok as [|? ? Htr Hrest]; subst. unfold baseP. cbn. constructor; [|apply IH; [lia | exact Hrest]].
    rewrite Forall_forall in *. intros h Hin. apply in_map_iff in Hin. destruct Hin as [tc [<- Htc]].
    destruct (Htr tc Htc) as [Hlen Hn]. unfold pgood, mask_row, padm_row. cbn [fst snd].
    apply leaf_mgood; [exact Hnd | lia | exact Hn].
  Qed.

  Theorem rat_sample_good n d permss tabs Ws Wroot :
    d = S (length Ws) -> 2 ^ d <= n ->
    Forall (fun perms => length perms = d /\ adm [items n] perms) permss ->
    length tabs = (length permss * 2 ^ d)%nat -> stabs_ok (dim_of n d) tabs ->
    wlen T (length permss) Ws ->
    forall c, mgood (items n) (nth c (rat_meas n d permss tabs Ws Wroot) [])
                    (nth c (rat_model n d permss tabs Ws Wroot x) t0).
  Proof.
    intros Hd Hn Hp Hlt Hok Hw c.
    destruct (rat_leaves_BD n d permss Hn Hp) as [HB Hregs].
    set (regs := rat_leaves n permss) in *. set (D := dim_of n d) in *.
    assert (Hbase : mlvl regs (base_meas (mask_of D regs) (padm_of D regs) tabs)
                              (base_layer (mask_of D regs) (padm_of D regs) tabs x)).
    { exists (baseP D regs tabs). repeat split; [symmetry; apply fst_baseP | symmetry; apply snd_baseP|].
      apply PLG_base; [exact Hregs | now rewrite (BD_length _ _ _ _ HB) | exact Hok]. }
    rewrite Hd in HB.
    destruct (mlvl_inner (items n) (length permss) (seq_NoDup n 0) Ws _ _ _ Hbase HB Hw) as [scs' [Hl' HB0]].
    apply BD_zero in HB0.
    assert (Hs : Forall (fun sc => forall v, In v sc <-> In v (items n)) scs').
    { eapply Forall_impl; [|exact HB0]. intros sc Hperm v. split; apply Permutation_in; [exact Hperm | now symmetry]. }
    pose proof (mlvl_root (items n) scs' _ _ (nth c Wroot []) Hl' Hs) as G.
    unfold RatSample.rat_meas, RatSample.rootM, Rat.rat_model, Rat.rat_forward, Rat.root_layer.
    fold regs D.
    rewrite <- (map_nth (fun w => mix w _) Wroot [] c) in G.
    rewrite <- (map_nth (fun w => dotT w _) Wroot [] c) in G. exact G.
  Qed.
End RatSampleFacts.
