(* Determinant of a matrix that is triangular up to a ranking of its indices (pure algebra, any
   commutative ring): if J i j = 0 whenever i <> j and rank i <= rank j, then det J = prod_i J i i.
   Proof on the Leibniz formula: every non-identity permutation moves some index; among the moved
   indices take one of least rank; its image is moved too, so it has rank at least as large and
   the corresponding factor vanishes. *)
From mathcomp Require Import all_ssreflect all_fingroup all_algebra.
Set Implicit Arguments. Unset Strict Implicit. Unset Printing Implicit Defensive.
Import GRing.Theory.
Local Open Scope ring_scope.

Section DetRank.
Variable R : comRingType.

Lemma det_ranked n (J : 'M[R]_n) (rank : 'I_n -> nat) :
  (forall i j, i != j -> (rank i <= rank j)%N -> J i j = 0) ->
  \det J = \prod_i J i i.
Proof.
move=> Hz; rewrite /determinant (bigD1 1%g) //= [X in _ + X]big1 => [|s s1].
  by rewrite odd_perm1 expr0 mul1r addr0; apply: eq_bigr => i _; rewrite perm1.
have [i0 mi0] : exists i, s i != i.
  apply/existsP; apply: contraR s1; rewrite negb_exists => /forallP H.
  by apply/eqP/permP => i; rewrite perm1; move: (H i); rewrite negbK => /eqP.
case: (@arg_minnP _ i0 (fun i => s i != i) rank mi0) => i mi Hmin.
rewrite (bigD1 i) //= Hz ?mul0r ?mulr0 // 1?eq_sym //.
by apply: Hmin; rewrite (inj_eq perm_inj).
Qed.

(* autoregressive layer: rank = position in the ordering (injective) *)
Corollary det_autoregressive n (J : 'M[R]_n) (deg : 'I_n -> nat) :
  injective deg -> (forall i j, (deg i < deg j)%N -> J i j = 0) -> \det J = \prod_i J i i.
Proof.
move=> inj Hz; apply: (@det_ranked _ _ deg) => i j ij; rewrite leq_eqVlt => /orP[/eqP e|]; last exact: Hz.
by move/inj: e ij => ->; rewrite eqxx.
Qed.

(* coupling layer: the pass-through coordinates (mask = true) are copied, the others are transformed
   coordinate-wise given the pass-through ones: J i j = 0 for i <> j unless i is transformed and j
   is passed through *)
Corollary det_coupling n (J : 'M[R]_n) (mask : 'I_n -> bool) :
  (forall i j, i != j -> mask i || ~~ mask j -> J i j = 0) -> \det J = \prod_i J i i.
Proof.
move=> Hz; apply: (@det_ranked _ _ (fun i => if mask i then 0%N else 1%N)) => i j ij.
by case mi: (mask i); case mj: (mask j) => // _; apply: Hz => //; rewrite mi mj.
Qed.

(* element-wise layers (batch normalisation, logit): diagonal Jacobian *)
Corollary det_elementwise n (J : 'M[R]_n) :
  (forall i j, i != j -> J i j = 0) -> \det J = \prod_i J i i.
Proof. by move=> Hz; apply: (@det_ranked _ _ (fun=> 0%N)) => i j ij _; apply: Hz. Qed.

(* chain rule at the level of determinants: a flow is a composition, its Jacobian a product *)
Corollary det_chain n (A B : 'M[R]_n) : \det (A *m B) = \det A * \det B.
Proof. exact: det_mulmx. Qed.

(* a permutation of the coordinates (the fixed permutations between flow layers) has determinant +-1 *)
Corollary det_permutation n (s : 'S_n) : \det (perm_mx s : 'M[R]_n) = (-1) ^+ s.
Proof. exact: det_perm. Qed.

End DetRank.
