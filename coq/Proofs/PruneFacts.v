(* Proofs/PruneFacts.v — pruning preserves the value of every node on every row (complete or with
   missing cells), for every children-first table whose sums are normalised. *)
From Coq Require Import List Arith ZArith Ring Lia Bool.
From DV Require Import Model.Core Model.Prune Proofs.CoreFacts.
Import ListNotations.

Section PruneFacts.
  Variable T : Type.
  Variables (t0 t1 : T) (tadd tmul : T -> T -> T).
  Hypothesis SRth : semi_ring_theory t0 t1 tadd tmul (@eq T).
  Add Ring Tring7 : SRth.
  Infix "+" := tadd. Infix "*" := tmul.
  Variable leaf : Type.
  Variable leaf_val : leaf -> row -> T.
  Notation node := (node T leaf).
  Notation table := (table T leaf).
  Notation dnode := (dummy_node T leaf).
  Notation sumT := (sumT T t0 tadd).
  Notation prodT := (prodT T t1 tmul).
  Notation dotT := (dotT T t0 tadd tmul).
  Notation vals := (vals T t0 t1 tadd tmul leaf leaf_val).
  Notation val := (val T t0 t1 tadd tmul leaf leaf_val).
  Notation node_val := (node_val T t0 t1 tadd tmul leaf leaf_val).
  Notation prune_step := (prune_step T tadd tmul leaf).
  Notation merge_add := (merge_add T tadd).
  Notation merge_all := (merge_all T tadd).
  Notation expand_sum := (expand_sum T tmul leaf).
  Notation expand_prod := (expand_prod T leaf).

  (* children strictly before parents *)
  Definition wf (t : table) : Prop := forall j, j < length t -> Forall (fun k => k < j) (nkids (nth j t dnode)).

  Lemma wf_snoc t n : wf t -> Forall (fun k => k < length t) (nkids n) -> wf (t ++ [n]).
  Proof.
    intros Hw Hn j Hj. rewrite app_length in Hj. cbn in Hj.
    destruct (Nat.eq_dec j (length t)) as [->|Hne].
    - rewrite app_nth2, Nat.sub_diag by lia. exact Hn.
    - rewrite app_nth1 by lia. apply Hw. lia.
  Qed.

  Lemma node_val_ext n vs1 vs2 r : Forall (fun k => nth k vs1 t0 = nth k vs2 t0) (nkids n) ->
    node_val n vs1 r = node_val n vs2 r.
  Proof.
    intros H. unfold Core.node_val. destruct (nkind n); [reflexivity| |]; f_equal; now apply map_ext_Forall.
  Qed.

  Lemma skipn_nth {A} (l : list A) d : forall j, j < length l -> skipn j l = nth j l d :: skipn (S j) l.
  Proof. induction l as [|x l IH]; intros [|j] H; cbn in *; try lia; [reflexivity | apply IH; lia]. Qed.

  (* in a children-first table a node's value is its node function on the table's values *)
  Lemma val_unfold t : wf t -> forall j, j < length t -> forall r,
      val t j r = node_val (nth j t dnode) (vals t r) r.
  Proof.
    intros Hw j Hj r.
    assert (Hsplit : t = firstn j t ++ [nth j t dnode] ++ skipn (S j) t).
    { rewrite <- (firstn_skipn j t) at 1. f_equal.
      now apply skipn_nth. }
    assert (Hlen : length (firstn j t) = j) by (rewrite firstn_length; lia).
    set (pre := firstn j t) in *. set (nj := nth j t dnode) in *. set (rest := skipn (S j) t) in *.
    transitivity (val (pre ++ [nj]) (length pre) r).
    - rewrite Hlen. rewrite Hsplit at 1. rewrite app_assoc.
      apply (val_prefix T t0 t1 tadd tmul leaf leaf_val). rewrite app_length. cbn. lia.
    - rewrite (val_last T t0 t1 tadd tmul leaf leaf_val).
      apply node_val_ext. specialize (Hw j Hj). fold nj in Hw. rewrite Forall_forall in *. intros k Hk. specialize (Hw k Hk).
      rewrite Hsplit. symmetry. apply (vals_prefix T t0 t1 tadd tmul leaf leaf_val). lia.
  Qed.

  (* ---- weighted sums over association lists ---- *)
  Definition wsum (v : nat -> T) (l : list (nat * T)) : T := sumT (map (fun kw => snd kw * v (fst kw)) l).
  Definition tot (l : list (nat * T)) : T := sumT (map snd l).

  Lemma wsum_merge_add v k w acc : wsum v (merge_add k w acc) = wsum v acc + w * v k.
  Proof.
    unfold wsum. induction acc as [|[k' w'] acc IH]; cbn; [ring|].
    destruct (Nat.eqb_spec k k') as [->|Hne]; cbn; [ring | rewrite IH; ring].
  Qed.
  Lemma tot_merge_add k w acc : tot (merge_add k w acc) = tot acc + w.
  Proof.
    unfold tot. induction acc as [|[k' w'] acc IH]; cbn; [ring|].
    destruct (Nat.eqb k k'); cbn; [ring | rewrite IH; ring].
  Qed.
  Lemma wsum_app v l1 l2 : wsum v (l1 ++ l2) = wsum v l1 + wsum v l2.
  Proof. unfold wsum. rewrite map_app. apply (sumT_app T t0 t1 tadd tmul SRth). Qed.
  Lemma tot_app l1 l2 : tot (l1 ++ l2) = tot l1 + tot l2.
  Proof. unfold tot. rewrite map_app. apply (sumT_app T t0 t1 tadd tmul SRth). Qed.
  Lemma wsum_merge_all v l : wsum v (merge_all l) = wsum v l.
  Proof.
    unfold Prune.merge_all. assert (H : forall acc, wsum v (fold_left (fun a kw => merge_add (fst kw) (snd kw) a) l acc) = wsum v acc + wsum v l).
    { induction l as [|[k w] l IH]; intros acc; cbn [fold_left]; [unfold wsum; cbn; ring|].
      rewrite IH, wsum_merge_add. unfold wsum. cbn. ring. }
    rewrite H. unfold wsum. cbn. ring.
  Qed.
  Lemma tot_merge_all l : tot (merge_all l) = tot l.
  Proof.
    unfold Prune.merge_all. assert (H : forall acc, tot (fold_left (fun a kw => merge_add (fst kw) (snd kw) a) l acc) = tot acc + tot l).
    { induction l as [|[k w] l IH]; intros acc; cbn [fold_left]; [unfold tot; cbn; ring|].
      rewrite IH, tot_merge_add. unfold tot. cbn. ring. }
    rewrite H. unfold tot. cbn. ring.
  Qed.
  Lemma dot_wsum v ws ks : dotT ws (map v ks) = wsum v (combine ks ws).
  Proof.
    unfold wsum. revert ks. induction ws as [|w ws IH]; intros [|k ks]; cbn; try reflexivity.
    now rewrite IH.
  Qed.
  Lemma dot_assoc v acc : dotT (map snd acc) (map v (map fst acc)) = wsum v acc.
  Proof. unfold wsum. induction acc as [|[k w] acc IH]; cbn; [reflexivity | now rewrite IH]. Qed.

  Lemma wsum_scaled v w ks ws' : wsum v (combine ks (map (tmul w) ws')) = w * wsum v (combine ks ws').
  Proof.
    unfold wsum. revert ks. induction ws' as [|a ws' IH]; intros [|k ks]; cbn; try ring.
    rewrite IH. ring.
  Qed.
  Lemma tot_scaled w (ks : list nat) ws' : length ks = length ws' ->
    tot (combine ks (map (tmul w) ws')) = w * sumT ws'.
  Proof.
    unfold tot. revert ks. induction ws' as [|a ws' IH]; intros [|k ks] H; cbn in *; try lia; try ring.
    rewrite IH by lia. ring.
  Qed.

  Lemma merge_add_keys k w acc : forall k1 w1, In (k1, w1) (merge_add k w acc) -> k1 = k \/ exists w', In (k1, w') acc.
  Proof.
    induction acc as [|[k' w'] acc IH]; cbn; intros k1 w1 Hin.
    - destruct Hin as [Heq|[]]. inversion Heq. now left.
    - destruct (Nat.eqb_spec k k') as [->|Hne].
      + destruct Hin as [Heq|Hin]; [inversion Heq; subst; now left | right; eauto].
      + destruct Hin as [Heq|Hin]; [inversion Heq; subst; right; eauto|].
        destruct (IH _ _ Hin) as [->|[w2 H2]]; [now left | right; eauto].
  Qed.
  Lemma merge_all_keys l : forall k1 w1, In (k1, w1) (merge_all l) -> exists w', In (k1, w') l.
  Proof.
    unfold Prune.merge_all.
    assert (H : forall acc k1 w1, In (k1, w1) (fold_left (fun a kw => merge_add (fst kw) (snd kw) a) l acc) ->
                (exists w', In (k1, w') acc) \/ exists w', In (k1, w') l).
    { induction l as [|[k w] l IH]; intros acc k1 w1 Hin; cbn [fold_left] in Hin; [left; eauto|].
      destruct (IH _ _ _ Hin) as [[w' H']|[w' H']].
      - cbn [fst snd] in H'. destruct (merge_add_keys _ _ _ _ _ H') as [->|[w2 H2]]; [right; exists w; now left | left; eauto].
      - right. exists w'. now right. }
    intros k1 w1 Hin. destruct (H [] k1 w1 Hin) as [[w' []]|H']; exact H'.
  Qed.

  Definition sum_norm (n : node) : Prop :=
    match nkind n with KSum ws => length ws = length (nkids n) /\ sumT ws = t1 | _ => True end.

  Lemma wsum_expand (new : table) v ws ks :
    (forall k, In k ks -> match nkind (nth k new dnode) with
                          | KSum ws' => v k = dotT ws' (map v (nkids (nth k new dnode)))
                          | _ => True end) ->
    wsum v (expand_sum new ws ks) = dotT ws (map v ks).
  Proof.
    unfold Prune.expand_sum. revert ks. induction ws as [|w ws IH]; intros [|k ks] H; cbn [combine flat_map map Core.dotT]; try reflexivity.
    rewrite wsum_app, IH by (intros k' Hk'; apply H; now right). f_equal.
    specialize (H k (or_introl eq_refl)). destruct (nkind (nth k new dnode)) as [l|ws'|].
    - unfold wsum. cbn. ring.
    - rewrite wsum_scaled, H, dot_wsum. reflexivity.
    - unfold wsum. cbn. ring.
  Qed.
  Lemma tot_expand (new : table) ws ks : length ws = length ks ->
    (forall k, In k ks -> sum_norm (nth k new dnode)) ->
    tot (expand_sum new ws ks) = sumT ws.
  Proof.
    unfold Prune.expand_sum. revert ks. induction ws as [|w ws IH]; intros [|k ks] Hl H; cbn [length] in Hl; try lia; cbn [combine flat_map Core.sumT]; [reflexivity|].
    rewrite tot_app, IH by (try lia; intros k' Hk'; apply H; now right). f_equal.
    specialize (H k (or_introl eq_refl)). unfold sum_norm in H. destruct (nkind (nth k new dnode)) as [l|ws'|].
    - unfold tot. cbn. ring.
    - destruct H as [H1 H2]. rewrite tot_scaled by (now symmetry). rewrite H2. ring.
    - unfold tot. cbn. ring.
  Qed.

  Lemma prod_expand (new : table) v ks :
    (forall k, In k ks -> match nkind (nth k new dnode) with
                          | KProd => v k = prodT (map v (nkids (nth k new dnode)))
                          | _ => True end) ->
    prodT (map v (expand_prod new ks)) = prodT (map v ks).
  Proof.
    unfold Prune.expand_prod. induction ks as [|k ks IH]; intros H; cbn; [reflexivity|].
    rewrite map_app, (prodT_app T t0 t1 tadd tmul SRth), IH by (intros k' Hk'; apply H; now right). f_equal.
    specialize (H k (or_introl eq_refl)). destruct (nkind (nth k new dnode)); cbn; try ring.
    now rewrite H.
  Qed.

  (* ---- the invariant ---- *)
  Record Inv (t : table) (st : pstate T leaf) : Prop := {
    inv_len : length (snd st) = length t;
    inv_rng : forall i, i < length t -> nth i (snd st) 0 < length (fst st);
    inv_wf : wf (fst st);
    inv_norm : Forall sum_norm (fst st);
    inv_val : forall i, i < length t -> forall r, val (fst st) (nth i (snd st) 0) r = val t i r }.

  Lemma nth_vals_val (t : table) k r : nth k (vals t r) t0 = val t k r.
  Proof. reflexivity. Qed.

  Lemma nth_snoc_last {A} (l : list A) x d : nth (length l) (l ++ [x]) d = x.
  Proof. rewrite app_nth2, Nat.sub_diag by lia. reflexivity. Qed.

  Lemma In_nth_norm (new : table) k : Forall sum_norm new -> sum_norm (nth k new dnode).
  Proof.
    intros H. destruct (Nat.lt_ge_cases k (length new)) as [Hk|Hk].
    - rewrite Forall_forall in H. apply H, nth_In, Hk.
    - rewrite nth_overflow by exact Hk. exact I.
  Qed.

  Theorem prune_step_inv t st n : wf (t ++ [n]) -> sum_norm n ->
      Inv t st -> Inv (t ++ [n]) (prune_step st n).
  Proof.
    intros Hwf Hsn [Hlen Hrng Hwfn Hnorm Hval]. destruct st as [new m]. cbn [fst snd] in *.
    assert (Hkids : Forall (fun k => k < length t) (nkids n)).
    { specialize (Hwf (length t)). rewrite app_length, nth_snoc_last in Hwf. apply Hwf. cbn. lia. }
    set (ks := map (fun k => nth k m 0) (nkids n)).
    assert (Hks : Forall (fun k => k < length new) ks).
    { unfold ks. rewrite Forall_map. rewrite Forall_forall in *. intros k Hk. apply Hrng, Hkids, Hk. }
    (* value of the old node in terms of the new table *)
    assert (Hold : forall r, val (t ++ [n]) (length t) r =
                            node_val (Build_node (nkind n) (nscope n) ks) (vals new r) r).
    { intros r. rewrite (val_last T t0 t1 tadd tmul leaf leaf_val). unfold Core.node_val. cbn [nkind nkids].
      unfold ks. rewrite map_map.
      destruct (nkind n); [reflexivity| |]; f_equal; apply map_ext_Forall; rewrite Forall_forall in *;
        intros k Hk; symmetry; apply (Hval k (Hkids k Hk) r). }
    (* generic closing lemmas *)
    assert (Hkeep : forall k, k < length new -> (forall r, val new k r = val (t ++ [n]) (length t) r) ->
                    Inv (t ++ [n]) (new, m ++ [k])).
    { intros k Hk Hv. constructor; cbn [fst snd].
      - rewrite !app_length, Hlen. reflexivity.
      - intros i Hi. rewrite app_length in Hi. cbn in Hi. destruct (Nat.eq_dec i (length t)) as [->|Hne].
        + rewrite <- Hlen, nth_snoc_last. exact Hk.
        + rewrite app_nth1 by lia. apply Hrng. lia.
      - exact Hwfn.
      - exact Hnorm.
      - intros i Hi r. rewrite app_length in Hi. cbn in Hi. destruct (Nat.eq_dec i (length t)) as [->|Hne].
        + rewrite <- Hlen at 1. rewrite nth_snoc_last. apply Hv.
        + rewrite app_nth1 by lia. rewrite (val_prefix T t0 t1 tadd tmul leaf leaf_val) by lia. apply Hval. lia. }
    assert (Happend : forall n', Forall (fun k => k < length new) (nkids n') -> sum_norm n' ->
                      (forall r, node_val n' (vals new r) r = val (t ++ [n]) (length t) r) ->
                      Inv (t ++ [n]) (new ++ [n'], m ++ [length new])).
    { intros n' Hk' Hsn' Hv. constructor; cbn [fst snd].
      - rewrite !app_length, Hlen. reflexivity.
      - intros i Hi. rewrite app_length in Hi. cbn in Hi. rewrite app_length. cbn.
        destruct (Nat.eq_dec i (length t)) as [->|Hne].
        + rewrite <- Hlen, nth_snoc_last. lia.
        + rewrite app_nth1 by lia. specialize (Hrng i ltac:(lia)). lia.
      - now apply wf_snoc.
      - apply Forall_app. split; [exact Hnorm | constructor; auto].
      - intros i Hi r. rewrite app_length in Hi. cbn in Hi. destruct (Nat.eq_dec i (length t)) as [->|Hne].
        + rewrite <- Hlen at 1. rewrite nth_snoc_last. rewrite (val_last T t0 t1 tadd tmul leaf leaf_val). apply Hv.
        + rewrite app_nth1 by lia. rewrite !(val_prefix T t0 t1 tadd tmul leaf leaf_val) by (try apply Hrng; lia).
          apply Hval. lia. }
    unfold Prune.prune_step. destruct (nkind n) as [l|ws|] eqn:Ek.
    - (* leaf *)
      apply Happend; [constructor | exact I |]. intros r. rewrite (val_last T t0 t1 tadd tmul leaf leaf_val).
      unfold Core.node_val. cbn. now rewrite Ek.
    - (* sum *)
      fold ks. unfold sum_norm in Hsn. rewrite Ek in Hsn. destruct Hsn as [Hl Hs].
      assert (Hgen : forall r, dotT ws (map (fun k => val new k r) ks) = val (t ++ [n]) (length t) r).
      { intros r. rewrite Hold. unfold Core.node_val. cbn [nkind nkids]. reflexivity. }
      assert (Hexp : forall r, wsum (fun k => val new k r) (merge_all (expand_sum new ws ks)) = val (t ++ [n]) (length t) r).
      { intros r. rewrite wsum_merge_all, wsum_expand; [apply Hgen|].
        intros k Hk. destruct (nkind (nth k new dnode)) as [|ws'|] eqn:E; auto.
        rewrite Forall_forall in Hks. rewrite (val_unfold new Hwfn k (Hks k Hk) r). unfold Core.node_val. now rewrite E. }
      assert (Htot : tot (merge_all (expand_sum new ws ks)) = t1).
      { rewrite tot_merge_all, tot_expand; [exact Hs | unfold ks; now rewrite map_length |].
        intros k _. now apply In_nth_norm. }
      assert (Hin : forall k w, In (k, w) (merge_all (expand_sum new ws ks)) -> k < length new).
      { (* keys of the merged list come from ks or from kids of sums in new *)
        assert (Hsrc : forall k w, In (k, w) (expand_sum new ws ks) -> k < length new).
        { unfold Prune.expand_sum. intros k w Hin. apply in_flat_map in Hin. destruct Hin as [[w' k'] [Hc Hin]].
          apply in_combine_r in Hc. rewrite Forall_forall in Hks. specialize (Hks k' Hc).
          destruct (nkind (nth k' new dnode)) eqn:E.
          - destruct Hin as [Heq|[]]. inversion Heq; subst. exact Hks.
          - apply in_combine_l in Hin. specialize (Hwfn k' Hks). rewrite Forall_forall in Hwfn. specialize (Hwfn k Hin). lia.
          - destruct Hin as [Heq|[]]. inversion Heq; subst. exact Hks. }
        intros k w Hin. destruct (merge_all_keys _ _ _ Hin) as [w' H']. now apply (Hsrc k w'). }
      destruct ks as [|k1 [|k2 ks']] eqn:Eks.
      + (* no children: keep as rebuilt node *)
        set (acc := merge_all (expand_sum new ws [])) in *.
        assert (Hacc : Inv (t ++ [n]) (new ++ [Build_node (KSum (map snd acc)) (nscope n) (map fst acc)], m ++ [length new])).
        { apply Happend; cbn [nkids nkind].
          - rewrite Forall_forall. intros k Hk. apply in_map_iff in Hk. destruct Hk as [[k' w] [<- Hk]]. now apply (Hin k' w).
          - unfold sum_norm. cbn. split; [now rewrite !map_length | exact Htot].
          - intros r. unfold Core.node_val. cbn [nkind nkids]. rewrite <- Hexp.
            rewrite <- dot_assoc. reflexivity. }
        assert (Hnil : acc = []) by (unfold acc, Prune.expand_sum; destruct ws; reflexivity).
        rewrite Hnil in *. exact Hacc.
      + (* one child *)
        inversion Hks; subst. apply Hkeep; [assumption|]. intros r. rewrite <- Hgen. cbn.
        destruct ws as [|w [|w2 ws2]]; cbn in *; try (unfold ks in Eks; apply (f_equal (@length nat)) in Eks; rewrite map_length in Eks; cbn in Eks; lia).
        assert (w = t1) by (rewrite <- Hs; ring). subst. ring.
      + set (acc := merge_all (expand_sum new ws (k1 :: k2 :: ks'))) in *.
        assert (Hacc : Inv (t ++ [n]) (new ++ [Build_node (KSum (map snd acc)) (nscope n) (map fst acc)], m ++ [length new])).
        { apply Happend; cbn [nkids nkind].
          - rewrite Forall_forall. intros k Hk. apply in_map_iff in Hk. destruct Hk as [[k' w] [<- Hk]]. now apply (Hin k' w).
          - unfold sum_norm. cbn. split; [now rewrite !map_length | exact Htot].
          - intros r. unfold Core.node_val. cbn [nkind nkids]. rewrite <- Hexp.
            rewrite <- dot_assoc. reflexivity. }
        destruct acc as [|[k w] [|p acc']] eqn:Eacc; try exact Hacc.
        (* one distinct child left: its total weight is one *)
        apply Hkeep; [apply (Hin k w); now left|]. intros r. rewrite <- Hexp. unfold wsum. cbn.
        unfold tot in Htot. cbn in Htot. assert (w = t1) by (rewrite <- Htot; ring). subst. ring.
    - (* product *)
      fold ks.
      assert (Hgen : forall r, prodT (map (fun k => val new k r) ks) = val (t ++ [n]) (length t) r).
      { intros r. rewrite Hold. unfold Core.node_val. cbn [nkind nkids]. reflexivity. }
      assert (Hexp : forall r, prodT (map (fun k => val new k r) (expand_prod new ks)) = val (t ++ [n]) (length t) r).
      { intros r. rewrite prod_expand; [apply Hgen|].
        intros k Hk. destruct (nkind (nth k new dnode)) eqn:E; auto.
        rewrite Forall_forall in Hks. rewrite (val_unfold new Hwfn k (Hks k Hk) r). unfold Core.node_val. now rewrite E. }
      assert (Hrebuild : Inv (t ++ [n]) (new ++ [Build_node KProd (nscope n) (expand_prod new ks)], m ++ [length new])).
      { apply Happend; cbn [nkids nkind]; [| exact I | intros r; unfold Core.node_val; cbn [nkind nkids]; apply Hexp].
        unfold Prune.expand_prod. rewrite Forall_forall. intros k Hk. apply in_flat_map in Hk. destruct Hk as [k' [Hk' Hk]].
        rewrite Forall_forall in Hks. specialize (Hks k' Hk'). destruct (nkind (nth k' new dnode)).
        - destruct Hk as [<-|[]]. exact Hks.
        - destruct Hk as [<-|[]]. exact Hks.
        - specialize (Hwfn k' Hks). rewrite Forall_forall in Hwfn. specialize (Hwfn k Hk). lia. }
      destruct ks as [|k1 [|k2 ks']] eqn:Eks; try exact Hrebuild.
      inversion Hks; subst. apply Hkeep; [assumption|]. intros r. rewrite <- Hgen. cbn. ring.
  Qed.

  Lemma inv_init : Inv [] ([], []).
  Proof. constructor; cbn; try reflexivity; try (intros; lia); [intros j Hj; cbn in Hj; lia | constructor]. Qed.

  Lemma wf_prefix t n : wf (t ++ [n]) -> wf t.
  Proof. intros H j Hj. specialize (H j). rewrite app_length, app_nth1 in H by lia. apply H. lia. Qed.

  Theorem prune_inv t : wf t -> Forall sum_norm t -> Inv t (prune_state T tadd tmul leaf t).
  Proof.
    unfold prune_state. induction t as [|n t IH] using rev_ind; intros Hwf Hn; [apply inv_init|].
    rewrite fold_left_app. cbn [fold_left]. apply Forall_app in Hn. destruct Hn as [Hn1 Hn2]. inversion Hn2; subst.
    apply prune_step_inv; auto. apply IH; [now apply wf_prefix in Hwf | exact Hn1].
  Qed.

  (* C09: every old node has the same value as its image in the pruned table, on every row *)
  Theorem prune_preserves t : wf t -> Forall sum_norm t -> forall i, i < length t -> forall r,
      val (fst (prune_state T tadd tmul leaf t)) (nth i (snd (prune_state T tadd tmul leaf t)) 0) r = val t i r.
  Proof. intros Hwf Hn. apply (inv_val _ _ (prune_inv t Hwf Hn)). Qed.
End PruneFacts.
