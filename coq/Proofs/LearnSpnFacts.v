(* Proofs/LearnSpnFacts.v — the alignment invariant of the LearnSPN task queue: at every reachable
   state and for EVERY oracle answer, the children already attached to a sum node followed by its
   pending tasks (in queue order) carry exactly the sum's row groups, in order. *)
From Coq Require Import List Arith Bool Lia.
From DV Require Import Model.LearnSpn.
Import ListNotations.

Definition pending (p : nat) (q : list task) : list task := filter (fun t => Nat.eqb (tparent t) p) q.
Definition kid_rows (a : list anode) (n : anode) : list (list nat) :=
  map (fun k => arows (nth k a dummy_anode)) (akids n).

Definition aligned (s : state) : Prop :=
  forall p gs, p < length (arena s) -> akind_of (nth p (arena s) dummy_anode) = ASum gs ->
    kid_rows (arena s) (nth p (arena s) dummy_anode) ++ map trows (pending p (queue s)) = gs.
(* the general accounting invariant: every inner node knows (ghost) which (rows, columns) pairs its
   children are built for — a sum: its row groups with its own columns; a product: its own rows with
   its column groups — and the children attached so far followed by the pending tasks carry exactly
   that list, in order *)
Definition expected (n : anode) : option (list (list nat * list nat)) :=
  match akind_of n with
  | ASum gs => Some (map (fun g => (g, ascope n)) gs)
  | AProd ps => Some (map (fun c => (arows n, c)) ps)
  | ALeaf => None
  end.
Definition kid_info (a : list anode) (n : anode) : list (list nat * list nat) :=
  map (fun k => (arows (nth k a dummy_anode), ascope (nth k a dummy_anode))) (akids n).
Definition task_info (t : task) : list nat * list nat := (trows t, tcols t).
Definition accounted (s : state) : Prop :=
  forall p e, p < length (arena s) -> expected (nth p (arena s) dummy_anode) = Some e ->
    kid_info (arena s) (nth p (arena s) dummy_anode) ++ map task_info (pending p (queue s)) = e.

(* bookkeeping: parents and children are arena indices *)
Definition wfs (s : state) : Prop :=
  Forall (fun t => tparent t < length (arena s)) (queue s) /\
  Forall (fun n => Forall (fun k => k < length (arena s)) (akids n)) (arena s).

Lemma nth_firstn' {A} (l : list A) d : forall n i, i < n -> nth i (firstn n l) d = nth i l d.
Proof. induction l as [|x l IH]; intros [|n] [|i] H; cbn; try lia; try reflexivity. apply IH. lia. Qed.
Lemma nth_skipn' {A} (l : list A) d : forall n i, nth i (skipn n l) d = nth (n + i) l d.
Proof. induction l as [|x l IH]; intros [|n] i; cbn; try reflexivity; [destruct i; reflexivity | apply IH]. Qed.

Lemma add_child_length a p x : p < length a -> length (add_child a p x) = length a.
Proof.
  intros H. unfold add_child. rewrite app_length. cbn [length]. rewrite firstn_length, skipn_length. lia.
Qed.
Lemma add_child_same a p x : p < length a ->
  nth p (add_child a p x) dummy_anode =
  let n := nth p a dummy_anode in
  {| akind_of := akind_of n; ascope := ascope n; arows := arows n; akids := akids n ++ [x] |}.
Proof.
  intros H. unfold add_child. rewrite app_nth2; rewrite firstn_length; [|lia].
  replace (p - Nat.min p (length a)) with 0 by lia. reflexivity.
Qed.
Lemma add_child_other a p x k : p < length a -> k <> p -> nth k (add_child a p x) dummy_anode = nth k a dummy_anode.
Proof.
  intros H Hk. unfold add_child. destruct (Nat.lt_ge_cases k p) as [Hlt|Hge].
  - rewrite app_nth1 by (rewrite firstn_length; lia). apply nth_firstn'. exact Hlt.
  - rewrite app_nth2 by (rewrite firstn_length; lia). rewrite firstn_length.
    replace (k - Nat.min p (length a)) with (S (k - S p)) by lia. cbn [nth].
    rewrite nth_skipn'. f_equal. lia.
Qed.
Lemma add_child_arows a p x k : p < length a -> arows (nth k (add_child a p x) dummy_anode) = arows (nth k a dummy_anode).
Proof.
  intros H. destruct (Nat.eq_dec k p) as [->|Hne]; [now rewrite add_child_same | now rewrite add_child_other].
Qed.
Lemma add_child_kind a p x k : p < length a -> akind_of (nth k (add_child a p x) dummy_anode) = akind_of (nth k a dummy_anode).
Proof.
  intros H. destruct (Nat.eq_dec k p) as [->|Hne]; [now rewrite add_child_same | now rewrite add_child_other].
Qed.
Lemma add_child_kids_other a p x k : p < length a -> k <> p -> akids (nth k (add_child a p x) dummy_anode) = akids (nth k a dummy_anode).
Proof. intros. now rewrite add_child_other. Qed.

Lemma kid_rows_add_child a p x n : p < length a -> kid_rows (add_child a p x) n = kid_rows a n.
Proof. intros H. unfold kid_rows. apply map_ext. intros k. now apply add_child_arows. Qed.
Lemma kid_rows_app a ext n : Forall (fun k => k < length a) (akids n) -> kid_rows (a ++ ext) n = kid_rows a n.
Proof.
  intros H. unfold kid_rows. apply map_ext_in. intros k Hk. rewrite Forall_forall in H. now rewrite app_nth1 by auto.
Qed.

Lemma pending_app p q1 q2 : pending p (q1 ++ q2) = pending p q1 ++ pending p q2.
Proof. unfold pending. apply filter_app. Qed.
Lemma pending_fresh p q : Forall (fun t => tparent t <> p) q -> pending p q = [].
Proof.
  induction 1 as [|t q Ht Hq IH]; [reflexivity|]. cbn. destruct (Nat.eqb_spec (tparent t) p); [contradiction | exact IH].
Qed.
Lemma pending_all p q : Forall (fun t => tparent t = p) q -> pending p q = q.
Proof.
  induction 1 as [|t q Ht Hq IH]; [reflexivity|]. cbn. rewrite Ht, Nat.eqb_refl. now f_equal.
Qed.

(* appending a node x (rows R) under parent p0, removing the front task of p0 with rows R,
   and adding tasks whose parents are new nodes keeps the alignment *)
Section Attach.
  Variables (a : list anode) (t : task) (q : list task).
  Hypothesis Hal : aligned {| arena := a; queue := t :: q |}.
  Hypothesis Hwf : wfs {| arena := a; queue := t :: q |}.

  Lemma p0_lt : tparent t < length a.
  Proof. destruct Hwf as [H _]. cbn in H. now inversion H. Qed.
  Lemma q_lt : Forall (fun u => tparent u < length a) q.
  Proof. destruct Hwf as [H _]. cbn in H. now inversion H. Qed.
  Lemma kids_lt : Forall (fun n => Forall (fun k => k < length a) (akids n)) a.
  Proof. now destruct Hwf. Qed.

  (* ext: the new nodes; x: the new node attached to the parent of t; newq: the new tasks, all with
     parent x.  The only new node that may be a sum is x, with no kids yet and groups = rows of newq. *)
  Lemma attach_aligned (ext : list anode) (x : nat) (newq : list task) :
    length a <= x < length (a ++ ext) ->
    arows (nth x (a ++ ext) dummy_anode) = trows t ->
    (forall j gs, length a <= j < length (a ++ ext) -> akind_of (nth j (a ++ ext) dummy_anode) = ASum gs ->
       j = x /\ akids (nth j (a ++ ext) dummy_anode) = [] /\ map trows newq = gs) ->
    Forall (fun u => tparent u = x) newq ->
    aligned {| arena := add_child (a ++ ext) (tparent t) x; queue := q ++ newq |}.
  Proof.
    intros Hx Hrows Hnew Hnq p gs Hp Hk. cbn [arena queue] in *.
    pose proof p0_lt as Hp0. pose proof q_lt as Hq. pose proof kids_lt as Hkl.
    assert (Hp0' : tparent t < length (a ++ ext)) by (rewrite app_length; lia).
    rewrite add_child_length in Hp by exact Hp0'. rewrite add_child_kind in Hk by exact Hp0'.
    rewrite kid_rows_add_child by exact Hp0'. rewrite pending_app.
    destruct (Nat.lt_ge_cases p (length a)) as [Hold|Hnewp].
    - rewrite app_nth1 in Hk by exact Hold.
      assert (Hpn : pending p newq = []).
      { apply pending_fresh. eapply Forall_impl; [|exact Hnq]. cbn. intros; lia. }
      rewrite Hpn, app_nil_r. specialize (Hal p gs Hold Hk). cbn [arena queue] in Hal.
      assert (Hkp : Forall (fun k => k < length a) (akids (nth p a dummy_anode))).
      { rewrite Forall_forall in Hkl. apply Hkl, nth_In, Hold. }
      destruct (Nat.eq_dec p (tparent t)) as [->|Hne].
      + rewrite add_child_same by exact Hp0'. rewrite app_nth1 by exact Hold.
        unfold kid_rows. cbn [akids]. rewrite map_app. cbn [map]. rewrite Hrows.
        unfold pending in Hal. cbn [filter] in Hal. rewrite Nat.eqb_refl in Hal. cbn [map] in Hal.
        rewrite <- Hal. unfold kid_rows. rewrite <- app_assoc. cbn. f_equal.
        apply map_ext_in. intros k Hkin. rewrite Forall_forall in Hkp. now rewrite app_nth1 by auto.
      + rewrite add_child_other by (try exact Hp0'; exact Hne). rewrite app_nth1 by exact Hold.
        rewrite kid_rows_app by exact Hkp.
        unfold pending in Hal. cbn [filter] in Hal.
        destruct (Nat.eqb_spec (tparent t) p) as [E|_]; [congruence|]. exact Hal.
    - rewrite app_length in Hp.
      destruct (Hnew p gs ltac:(rewrite app_length; lia) Hk) as (-> & Hkids & Hgs).
      assert (Hxne : x <> tparent t) by lia.
      rewrite add_child_other by (try exact Hp0'; exact Hxne). unfold kid_rows. rewrite Hkids. cbn [map app].
      assert (Hpq : pending x q = []).
      { apply pending_fresh. eapply Forall_impl; [|exact Hq]. cbn. intros; lia. }
      rewrite Hpq. cbn [app]. rewrite (pending_all x newq Hnq). exact Hgs.
  Qed.

  Lemma attach_wfs (ext : list anode) (x : nat) (newq : list task) :
    length a <= x < length (a ++ ext) ->
    Forall (fun n => Forall (fun k => k < length (a ++ ext)) (akids n)) ext ->
    Forall (fun u => tparent u = x) newq ->
    wfs {| arena := add_child (a ++ ext) (tparent t) x; queue := q ++ newq |}.
  Proof.
    intros Hx Hext Hnq. pose proof p0_lt as Hp0. pose proof q_lt as Hq. pose proof kids_lt as Hkl.
    assert (Hp0' : tparent t < length (a ++ ext)) by (rewrite app_length; lia).
    split; cbn [arena queue]; rewrite add_child_length by exact Hp0'.
    - apply Forall_app. split.
      + eapply Forall_impl; [|exact Hq]. cbn. intros. rewrite app_length. lia.
      + eapply Forall_impl; [|exact Hnq]. cbn. intros u ->. lia.
    - rewrite Forall_forall. intros n Hn. destruct (In_nth _ _ dummy_anode Hn) as [k [Hk Hnth]].
      rewrite add_child_length in Hk by exact Hp0'. subst n.
      assert (Hbase : Forall (fun k0 => k0 < length (a ++ ext)) (akids (nth k (a ++ ext) dummy_anode))).
      { destruct (Nat.lt_ge_cases k (length a)) as [Hlt|Hge].
        - rewrite app_nth1 by exact Hlt. rewrite Forall_forall in Hkl. specialize (Hkl _ (nth_In a dummy_anode Hlt)).
          eapply Forall_impl; [|exact Hkl]. cbn. intros. rewrite app_length. lia.
        - rewrite app_nth2 by exact Hge. rewrite Forall_forall in Hext. apply Hext, nth_In. rewrite app_length in Hk. lia. }
      destruct (Nat.eq_dec k (tparent t)) as [->|Hne].
      + rewrite add_child_same by exact Hp0'. cbn [akids]. apply Forall_app. split; [exact Hbase | constructor; [lia | constructor]].
      + rewrite add_child_other by (try exact Hp0'; exact Hne). exact Hbase.
  Qed.
End Attach.

Lemma nth_new (a ext : list anode) j : length a <= j -> nth j (a ++ ext) dummy_anode = nth (j - length a) ext dummy_anode.
Proof. intros. now rewrite app_nth2. Qed.

Lemma add_child_new (a : list anode) (P : anode) rest i :
  add_child (a ++ P :: rest) (length a) i =
  a ++ {| akind_of := akind_of P; ascope := ascope P; arows := arows P; akids := akids P ++ [i] |} :: rest.
Proof.
  unfold add_child. rewrite firstn_app, firstn_all, Nat.sub_diag. cbn [firstn]. rewrite app_nil_r.
  rewrite app_nth2, Nat.sub_diag by lia. cbn [nth]. f_equal. f_equal.
  replace (S (length a)) with (length a + 1) by lia. rewrite skipn_app, skipn_all2 by lia.
  replace (length a + 1 - length a) with 1 by lia. reflexivity.
Qed.

Section StepInv.
  Variables (min_rows min_cols : nat).
  Notation step := (step min_rows min_cols).

  Lemma requeue_inv a t q t' : tparent t' = tparent t -> trows t' = trows t ->
    aligned {| arena := a; queue := t :: q |} -> wfs {| arena := a; queue := t :: q |} ->
    aligned {| arena := a; queue := t' :: q |} /\ wfs {| arena := a; queue := t' :: q |}.
  Proof.
    intros Hp Hr Hal [Hq Hk]. split.
    - intros p gs Hlt Hkind. specialize (Hal p gs Hlt Hkind). cbn [arena queue] in *.
      unfold pending in *. cbn [filter] in *. rewrite Hp. destruct (Nat.eqb (tparent t) p); cbn [map] in *; [now rewrite Hr | exact Hal].
    - split; [|exact Hk]. cbn [arena queue] in *. inversion Hq; subst. constructor; [now rewrite Hp | assumption].
  Qed.

  Lemma not_sum_nth (ext : list anode) j :
    Forall (fun n => forall gs, akind_of n <> ASum gs) ext -> forall gs, akind_of (nth j ext dummy_anode) <> ASum gs.
  Proof.
    intros H gs. destruct (Nat.lt_ge_cases j (length ext)) as [Hlt|Hge].
    - rewrite Forall_forall in H. apply H, nth_In, Hlt.
    - rewrite nth_overflow by exact Hge. discriminate.
  Qed.

  Theorem step_inv s ans : aligned s -> wfs s -> aligned (step s ans) /\ wfs (step s ans).
  Proof.
    intros Hal Hwf. destruct s as [a q0]. unfold LearnSpn.step. cbn [queue arena].
    destruct q0 as [|t q]; [auto|].
    pose proof (p0_lt a t q Hwf) as Hp0.
    destruct (select min_rows min_cols t (zv ans)).
    - (* REM *)
      set (rem := pickb (tcols t) (zv ans) true). set (oth := pickb (tcols t) (zv ans) false).
      set (b := length a).
      set (P := {| akind_of := AProd [rem; oth]; ascope := tcols t; arows := trows t; akids := [] |}).
      unfold naive. rewrite app_length. cbn [length]. replace (length a + 1) with (S b) by (unfold b; lia).
      rewrite <- app_assoc. cbn [app].
      set (rest := {| akind_of := AProd (map (fun s0 => [s0]) rem); ascope := rem; arows := trows t; akids := seq (S (S b)) (length rem) |} ::
                   map (fun s0 => {| akind_of := ALeaf; ascope := [s0]; arows := trows t; akids := [] |}) rem).
      set (ext := {| akind_of := AProd [rem; oth]; ascope := tcols t; arows := trows t; akids := [S b] |} :: rest).
      assert (Heq : add_child (a ++ P :: rest) b (S b) = a ++ ext) by (unfold b; apply add_child_new).
      rewrite Heq.
      set (newq := [mk_task b (trows t) oth false false (is_first t && match q with [] => true | _ => false end)]).
      assert (Hx : length a <= b < length (a ++ ext)) by (rewrite app_length; cbn; unfold b; lia).
      assert (Hns : Forall (fun n => forall gs, akind_of n <> ASum gs) ext).
      { unfold ext, rest. constructor; [discriminate|]. constructor; [discriminate|]. rewrite Forall_map, Forall_forall. discriminate. }
      split.
      + apply (attach_aligned a t q Hal Hwf ext b newq Hx).
        * rewrite nth_new by (unfold b; lia). unfold b. rewrite Nat.sub_diag. reflexivity.
        * intros j gs Hj Hk. rewrite nth_new in Hk by lia. exfalso. exact (not_sum_nth ext _ Hns gs Hk).
        * repeat constructor.
      + apply (attach_wfs a t q Hwf ext b newq Hx); [|repeat constructor].
        unfold ext, rest. rewrite app_length. cbn [length]. rewrite map_length. fold b.
        constructor; [cbn; repeat constructor; lia|]. constructor.
        * cbn [akids]. rewrite Forall_forall. intros k Hk. apply in_seq in Hk. lia.
        * rewrite Forall_map, Forall_forall. intros; cbn. constructor.
    - (* LEAF *)
      set (b := length a).
      set (ext := [{| akind_of := ALeaf; ascope := tcols t; arows := trows t; akids := [] |}]).
      assert (Hx : length a <= b < length (a ++ ext)) by (rewrite app_length; cbn; unfold b; lia).
      replace q with (q ++ []) by apply app_nil_r. split.
      + apply (attach_aligned a t q Hal Hwf ext b [] Hx).
        * rewrite nth_new by (unfold b; lia). unfold b. rewrite Nat.sub_diag. reflexivity.
        * intros j gs Hj Hk. rewrite nth_new in Hk by lia. exfalso.
          apply (not_sum_nth ext (j - length a) ltac:(repeat constructor; discriminate) gs Hk).
        * constructor.
      + apply (attach_wfs a t q Hwf ext b [] Hx); repeat constructor.
    - (* NAIVE *)
      unfold naive. set (b := length a).
      set (ext := {| akind_of := AProd (map (fun s0 => [s0]) (tcols t)); ascope := tcols t; arows := trows t; akids := seq (S b) (length (tcols t)) |} ::
                  map (fun s0 => {| akind_of := ALeaf; ascope := [s0]; arows := trows t; akids := [] |}) (tcols t)).
      assert (Hx : length a <= b < length (a ++ ext)) by (rewrite app_length; cbn; unfold b; lia).
      assert (Hns : Forall (fun n => forall gs, akind_of n <> ASum gs) ext).
      { unfold ext. constructor; [discriminate|]. rewrite Forall_map, Forall_forall. discriminate. }
      replace q with (q ++ []) by apply app_nil_r. split.
      + apply (attach_aligned a t q Hal Hwf ext b [] Hx).
        * rewrite nth_new by (unfold b; lia). unfold b. rewrite Nat.sub_diag. reflexivity.
        * intros j gs Hj Hk. rewrite nth_new in Hk by lia. exfalso. exact (not_sum_nth ext _ Hns gs Hk).
        * constructor.
      + apply (attach_wfs a t q Hwf ext b [] Hx); [|constructor].
        unfold ext. rewrite app_length. cbn [length]. rewrite map_length. fold b. constructor.
        * cbn [akids]. rewrite Forall_forall. intros k Hk. apply in_seq in Hk. lia.
        * rewrite Forall_map, Forall_forall. intros; cbn. constructor.
    - (* ROWS *)
      set (gs := group (trows t) (labels ans)).
      assert (Hre : aligned {| arena := a; queue := mk_task (tparent t) (trows t) (tcols t) false true false :: q |} /\
                    wfs {| arena := a; queue := mk_task (tparent t) (trows t) (tcols t) false true false :: q |})
        by (apply (requeue_inv a t q); auto).
      set (b := length a).
      set (ext := [{| akind_of := ASum gs; ascope := tcols t; arows := trows t; akids := [] |}]).
      set (newq := map (fun g => mk_task b g (tcols t) false false false) gs).
      assert (Hx : length a <= b < length (a ++ ext)) by (rewrite app_length; cbn; unfold b; lia).
      assert (Hsucc : aligned {| arena := add_child (a ++ ext) (tparent t) b; queue := q ++ newq |} /\
                      wfs {| arena := add_child (a ++ ext) (tparent t) b; queue := q ++ newq |}).
      { assert (Hnq : Forall (fun u => tparent u = b) newq) by (unfold newq; rewrite Forall_map, Forall_forall; reflexivity).
        split.
        - apply (attach_aligned a t q Hal Hwf ext b newq Hx).
          + rewrite nth_new by (unfold b; lia). unfold b. rewrite Nat.sub_diag. reflexivity.
          + intros j gs' Hj Hk. rewrite app_length in Hj. cbn in Hj. assert (j = b) by (unfold b; lia). subst j.
            rewrite nth_new in Hk |- * by (unfold b; lia). unfold b in Hk |- *. rewrite Nat.sub_diag in Hk |- *. cbn in Hk |- *.
            inversion Hk; subst. split; [reflexivity|]. split; [reflexivity|]. unfold newq. rewrite map_map. cbn. apply map_id.
          + exact Hnq.
        - apply (attach_wfs a t q Hwf ext b newq Hx); [repeat constructor | exact Hnq]. }
      destruct gs as [|g1 [|g2 gs']]; [exact Hsucc | exact Hre | exact Hsucc].
    - (* COLS *)
      set (gs := group (tcols t) (labels ans)).
      assert (Hre : aligned {| arena := a; queue := mk_task (tparent t) (trows t) (tcols t) true false false :: q |} /\
                    wfs {| arena := a; queue := mk_task (tparent t) (trows t) (tcols t) true false false :: q |})
        by (apply (requeue_inv a t q); auto).
      set (b := length a).
      set (ext := [{| akind_of := AProd gs; ascope := tcols t; arows := trows t; akids := [] |}]).
      set (newq := map (fun g => mk_task b (trows t) g false false false) gs).
      assert (Hx : length a <= b < length (a ++ ext)) by (rewrite app_length; cbn; unfold b; lia).
      assert (Hsucc : aligned {| arena := add_child (a ++ ext) (tparent t) b; queue := q ++ newq |} /\
                      wfs {| arena := add_child (a ++ ext) (tparent t) b; queue := q ++ newq |}).
      { assert (Hnq : Forall (fun u => tparent u = b) newq) by (unfold newq; rewrite Forall_map, Forall_forall; reflexivity).
        split.
        - apply (attach_aligned a t q Hal Hwf ext b newq Hx).
          + rewrite nth_new by (unfold b; lia). unfold b. rewrite Nat.sub_diag. reflexivity.
          + intros j gs' Hj Hk. rewrite nth_new in Hk by lia. exfalso.
            apply (not_sum_nth ext (j - length a) ltac:(repeat constructor; discriminate) gs' Hk).
          + exact Hnq.
        - apply (attach_wfs a t q Hwf ext b newq Hx); [repeat constructor | exact Hnq]. }
      destruct gs as [|g1 [|g2 gs']]; [exact Hsucc | exact Hre | exact Hsucc].
  Qed.

  Lemma init_inv rows cols : aligned (init rows cols) /\ wfs (init rows cols).
  Proof.
    split.
    - intros p gs Hp Hk. cbn in Hp. assert (p = 0) by lia. subst. cbn in Hk. discriminate.
    - split; cbn; repeat constructor.
  Qed.

  (* C05: the invariant holds at every reachable state, for every list of oracle answers *)
  Theorem run_aligned rows cols answers :
    aligned (run min_rows min_cols answers (init rows cols)) /\ wfs (run min_rows min_cols answers (init rows cols)).
  Proof.
    unfold run. generalize (init_inv rows cols). generalize (init rows cols).
    induction answers as [|ans answers IH]; intros s [Ha Hw]; [auto|]. cbn [fold_left].
    apply IH. now apply step_inv.
  Qed.

  (* when the run has emptied the queue, every sum's children carry exactly its row groups, in
     order: child i was fitted on slice i, so weight_i = |slice_i| / |rows| is the proportion of the
     sum's training rows routed to child i *)
  Theorem run_weights_are_proportions rows cols answers :
    let s := run min_rows min_cols answers (init rows cols) in
    queue s = [] -> forall p gs, p < length (arena s) -> akind_of (nth p (arena s) dummy_anode) = ASum gs ->
    kid_rows (arena s) (nth p (arena s) dummy_anode) = gs.
  Proof.
    intros s Hq p gs Hp Hk. destruct (run_aligned rows cols answers) as [Ha _]. fold s in Ha.
    specialize (Ha p gs Hp Hk). rewrite Hq in Ha. cbn in Ha. now rewrite app_nil_r in Ha.
  Qed.
End StepInv.

(* ---- the pinned tail re-queue breaks the alignment (5 answers): the first slice's column split
   fails and is deferred, its sibling becomes a leaf first ---- *)
Definition pin_answers : list answer :=
  [ {| zv := [false; false]; labels := [0; 0; 0; 1] |};   (* root: row split into {0,1,2} and {3} *)
    {| zv := [false; false]; labels := [0; 0] |};          (* slice 1: column split returns one cluster *)
    {| zv := [false; false]; labels := [] |};              (* slice 2: one row < min_rows => leaf *)
    {| zv := [false; false]; labels := [0; 0; 0] |};       (* slice 1 again: row split returns one cluster *)
    {| zv := [false; false]; labels := [] |} ].            (* slice 1: leaf *)
Definition pin_final (stp : state -> answer -> state) : state := fold_left stp pin_answers (init [0; 1; 2; 3] [0; 1]).

Lemma learnspn_pinned_refuted :
  let s := pin_final (step_pinned 2 1) in
  queue s = [] /\ akind_of (nth 1 (arena s) dummy_anode) = ASum [[0; 1; 2]; [3]] /\
  kid_rows (arena s) (nth 1 (arena s) dummy_anode) = [[3]; [0; 1; 2]].
Proof. vm_compute. repeat split; reflexivity. Qed.
Example learnspn_fixed_example :
  let s := pin_final (step 2 1) in
  queue s = [] /\ akind_of (nth 1 (arena s) dummy_anode) = ASum [[0; 1; 2]; [3]] /\
  kid_rows (arena s) (nth 1 (arena s) dummy_anode) = [[0; 1; 2]; [3]].
Proof. vm_compute. repeat split; reflexivity. Qed.
