(* Proofs/EmWeight.v — C14: the statistic EM accumulates for child k of sum node i is the weight-derivative form of
   the posterior responsibility: for every valid table (DAGs included) the root value is AFFINE in the weight
   w_{i,k}, with slope  v_k * g_i  (child value times the backward value of the sum node), so
       w_{i,k} * edge_stat i k = w_{i,k} * (d root / d w_{i,k}) / root,
   the classical expected count of the latent choice "sum i takes child k" given the row. *)
From Coq Require Import List Arith ZArith Ring Lia Bool.
From DV Require Import Model.Core Model.Clt Model.Leaves Model.Em Proofs.CoreFacts Proofs.PruneFacts Proofs.EmGrad.
Import ListNotations.

Section Weight.
  Variable T : Type.
  Variables (t0 t1 : T) (tadd tmul tdiv : T -> T -> T).
  Hypothesis SRth : semi_ring_theory t0 t1 tadd tmul (@eq T).
  Add Ring TringW : SRth.
  Hypothesis Hdiv : forall a b, b <> t0 -> tdiv (tmul a b) b = a.
  Infix "+" := tadd. Infix "*" := tmul.
  Variable dom : nat -> list Z.
  Variable lv : eleaf T -> row -> T.
  Notation dotT := (dotT T t0 tadd tmul).
  Notation enode := (enode T).
  Notation etable := (etable T).
  Notation node_val := (node_val T t0 t1 tadd tmul (eleaf T) lv).
  Notation vals := (vals T t0 t1 tadd tmul (eleaf T) lv).
  Notation valid := (valid T t0 tadd dom (eleaf T) lv).
  Notation scope_of := (scope_of T (eleaf T)).
  Notation grads := (grads T t0 t1 tadd tmul tdiv).
  Notation vals_ov := (vals_ov T t0 t1 tadd tmul lv).
  Notation root_with := (root_with T t0 t1 tadd tmul lv).
  Notation dnode := (dummy_node T (eleaf T)).

  Lemma valid_kids_e (t : etable) : valid t -> forall j, j < length t -> Forall (fun k => k < j) (nkids (nth j t dnode)).
  Proof.
    induction 1 as [|t n Hv IH Hok]; intros j Hj; [cbn in Hj; lia|].
    rewrite app_length in Hj. cbn in Hj. destruct (Nat.eq_dec j (length t)) as [->|Hne].
    - rewrite app_nth2, Nat.sub_diag by lia. cbn. now destruct Hok.
    - rewrite app_nth1 by lia. apply IH. lia.
  Qed.

  Fixpoint upd_w (k : nat) (y : T) (ws : list T) : list T :=
    match ws, k with
    | [], _ => []
    | _ :: tl, O => y :: tl
    | w :: tl, S k' => w :: upd_w k' y tl
    end.
  Lemma dot_upd k y : forall ws xs, k < length ws -> k < length xs ->
      dotT (upd_w k y ws) xs = dotT (upd_w k t0 ws) xs + y * nth k xs t0.
  Proof.
    induction k as [|k IH]; intros [|w ws] [|x xs] H1 H2; cbn in *; try lia; [ring|].
    rewrite (IH ws xs) by lia. ring.
  Qed.

  (* the table with the weights of node i replaced *)
  Definition set_ws (t : etable) (i : nat) (ws' : list T) : etable :=
    let n := nth i t dnode in
    firstn i t ++ [Build_node (KSum ws') (nscope n) (nkids n)] ++ skipn (S i) t.

  Lemma vals_ov_prefix (a : etable) i x r : length a <= i -> vals_ov a i x r = vals a r.
  Proof.
    induction a as [|m a IH] using rev_ind; intros H; [reflexivity|]. rewrite app_length in H. cbn in H.
    rewrite (ov_snoc T t0 t1 tadd tmul lv), (vals_snoc T t0 t1 tadd tmul (eleaf T) lv), IH by lia. f_equal. f_equal.
    unfold ov_step. rewrite (vals_length T t0 t1 tadd tmul (eleaf T) lv). destruct (Nat.eqb_spec (length a) i); [lia | reflexivity].
  Qed.

  (* replacing one node = overriding its value *)
  Lemma vals_replace (a b : etable) (n n' : enode) r :
      vals ((a ++ [n']) ++ b) r = vals_ov ((a ++ [n]) ++ b) (length a) (node_val n' (vals a r) r) r.
  Proof.
    induction b as [|m b IH] using rev_ind.
    - rewrite !app_nil_r. rewrite (ov_snoc T t0 t1 tadd tmul lv), (vals_snoc T t0 t1 tadd tmul (eleaf T) lv).
      rewrite vals_ov_prefix by lia. f_equal. f_equal. unfold ov_step.
      rewrite (vals_length T t0 t1 tadd tmul (eleaf T) lv), Nat.eqb_refl. reflexivity.
    - rewrite !(app_assoc _ b [m]). rewrite (ov_snoc T t0 t1 tadd tmul lv), (vals_snoc T t0 t1 tadd tmul (eleaf T) lv).
      rewrite IH. f_equal. f_equal. unfold ov_step.
      rewrite (ov_length T t0 t1 tadd tmul lv), !app_length. cbn [length].
      destruct (Nat.eqb_spec (length a + 1 + length b) (length a)); [lia | reflexivity].
  Qed.

  Lemma split_at (t : etable) i : i < length t -> t = firstn i t ++ [nth i t dnode] ++ skipn (S i) t.
  Proof.
    intros Hi. rewrite <- (firstn_skipn i t) at 1. f_equal.
    rewrite (skipn_nth t dnode i Hi). reflexivity.
  Qed.

  Lemma vals_replace' (a b : etable) (n n' : enode) r (tt : etable) : tt = (a ++ [n]) ++ b ->
      vals ((a ++ [n']) ++ b) r = vals_ov tt (length a) (node_val n' (vals a r) r) r.
  Proof. intros ->. apply vals_replace. Qed.

  Theorem root_set_ws t i ws' r : i < length t ->
      nth (length t - 1) (vals (set_ws t i ws') r) t0 =
      root_with t i (dotT ws' (map (fun k => nth k (vals (firstn i t) r) t0) (nkids (nth i t dnode)))) r.
  Proof.
    intros Hi. unfold set_ws, EmGrad.root_with.
    assert (E : t = (firstn i t ++ [nth i t dnode]) ++ skipn (S i) t) by (rewrite <- app_assoc; apply split_at; exact Hi).
    rewrite app_assoc.
    rewrite (vals_replace' (firstn i t) (skipn (S i) t) (nth i t dnode) _ r t E).
    rewrite firstn_length, Nat.min_l by lia. reflexivity.
  Qed.

  (* C14: the root is affine in one weight of one sum node, with slope v_k * g_i *)
  Theorem weight_affine t r i ws v0 k : valid t -> i < length t -> nkind (nth i t dnode) = KSum ws ->
      In v0 (scope_of t i) -> (forall j, j < length t -> nth j (vals t r) t0 <> t0) ->
      k < length ws -> k < length (nkids (nth i t dnode)) ->
      let root_at := fun y => nth (length t - 1) (vals (set_ws t i (upd_w k y ws)) r) t0 in
      let vk := nth (nth k (nkids (nth i t dnode)) 0) (vals t r) t0 in
      let gi := nth i (grads t (vals t r)) t0 in
      forall y, root_at y = root_at t0 + (vk * gi) * y.
  Proof.
    intros Hv Hi Hk Hsc Hnz Hkw Hkk root_at vk gi y. unfold root_at.
    rewrite !(root_set_ws t i _ r Hi).
    rewrite (grad_affine T t0 t1 tadd tmul tdiv SRth dom lv Hdiv t r i v0 Hv Hi Hsc Hnz (dotT (upd_w k y ws) _)).
    rewrite (grad_affine T t0 t1 tadd tmul tdiv SRth dom lv Hdiv t r i v0 Hv Hi Hsc Hnz (dotT (upd_w k t0 ws) _)).
    fold gi. rewrite (dot_upd k y) by (rewrite ?map_length; assumption).
    assert (Hvk : nth k (map (fun k0 => nth k0 (vals (firstn i t) r) t0) (nkids (nth i t dnode))) t0 = vk).
    { rewrite (nth_indep _ t0 ((fun k0 => nth k0 (vals (firstn i t) r) t0) 0)) by (rewrite map_length; exact Hkk).
      rewrite (map_nth (fun k0 => nth k0 (vals (firstn i t) r) t0)). unfold vk.
      set (c := nth k (nkids (nth i t dnode)) 0).
      assert (Hc : c < i).
      { pose proof (valid_kids_e t Hv i Hi) as Hlt. rewrite Forall_forall in Hlt. apply Hlt. apply nth_In. exact Hkk. }
      rewrite <- (firstn_skipn i t) at 2.
      symmetry. apply (vals_prefix T t0 t1 tadd tmul (eleaf T) lv). rewrite firstn_length. lia. }
    rewrite Hvk. ring.
  Qed.
End Weight.
