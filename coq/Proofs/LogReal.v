(* Proofs/LogReal.v — the real-number instance of the log-domain homomorphism: L = option R
   (None = log 0), ex = exp.  Uses the standard library's real numbers (its axioms are reported by
   Print Assumptions and named in the trusted base). *)
From Coq Require Import List Reals Lra Lia Bool.
From DV Require Import Model.Core Model.LogDomain Proofs.LogFacts.
Import ListNotations.
Open Scope R_scope.

Definition lR := option R.
Definition exR (x : lR) : R := match x with Some v => exp v | None => 0 end.

Fixpoint lprodR (xs : list lR) : lR :=
  match xs with
  | [] => Some 0
  | None :: _ => None
  | Some x :: tl => match lprodR tl with Some y => Some (x + y) | None => None end
  end.

Notation sumR := (Core.sumT R 0 Rplus).
Notation dotR := (Core.dotT R 0 Rplus Rmult).
Notation prodR := (Core.prodT R 1 Rmult).

(* logsumexp(x, b = ws): log of the weighted sum of exponentials; log 0 when the sum is 0 *)
Definition lseR (ws : list R) (xs : list lR) : lR :=
  let s := dotR ws (map exR xs) in
  if Rlt_dec 0 s then Some (ln s) else None.

Lemma exR_nonneg x : 0 <= exR x.
Proof. destruct x; cbn; [left; apply exp_pos | lra]. Qed.

Lemma lprodR_hom xs : exR (lprodR xs) = prodR (map exR xs).
Proof.
  induction xs as [|[x|] xs IH]; cbn.
  - apply exp_0.
  - rewrite <- IH. destruct (lprodR xs); cbn; [apply exp_plus | lra].
  - lra.
Qed.

Lemma dotR_nonneg ws xs : Forall (fun w => 0 <= w) ws -> Forall (fun x => 0 <= x) xs -> 0 <= dotR ws xs.
Proof.
  intros Hw. revert xs. induction Hw as [|w ws Hw0 Hw IH]; intros xs Hx; cbn; [lra|].
  destruct xs as [|x xs]; [lra|]. inversion Hx; subst.
  specialize (IH xs H2). apply Rplus_le_le_0_compat; [apply Rmult_le_pos|]; assumption.
Qed.

Lemma lseR_hom ws : Forall (fun w => 0 <= w) ws -> forall xs, exR (lseR ws xs) = dotR ws (map exR xs).
Proof.
  intros Hw xs. unfold lseR. destruct (Rlt_dec 0 (dotR ws (map exR xs))) as [Hpos|Hn]; cbn.
  - now apply exp_ln.
  - assert (0 <= dotR ws (map exR xs)).
    { apply dotR_nonneg; [exact Hw|]. rewrite Forall_map, Forall_forall. intros; apply exR_nonneg. }
    lra.
Qed.

Section LogReal.
  Variable leaf : Type.
  Variable leaf_ll : leaf -> row -> lR.
  Variable leaf_val : leaf -> row -> R.

  Definition wts_nonneg (n : node R leaf) : Prop :=
    match nkind n with KSum ws => Forall (fun w => 0 <= w) ws | _ => True end.
  Definition leaf_consistent (r : row) (n : node R leaf) : Prop :=
    match nkind n with KLeaf l => exR (leaf_ll l r) = leaf_val l r | _ => True end.

  (* exp of every node's log-likelihood is its likelihood; in particular LL = ln L where L > 0 *)
  Theorem log_hom_R (t : table R leaf) r :
      Forall wts_nonneg t -> Forall (leaf_consistent r) t ->
      map exR (lvals R lR None lprodR lseR leaf leaf_ll t r) = vals R 0 1 Rplus Rmult leaf leaf_val t r.
  Proof.
    intros Hw Hl. apply log_hom; [reflexivity|].
    rewrite Forall_forall in *. intros n Hn. specialize (Hw n Hn). specialize (Hl n Hn).
    unfold hom_node, wts_nonneg, leaf_consistent in *. destruct (nkind n) as [l|ws|].
    - exact Hl.
    - now apply lseR_hom.
    - apply lprodR_hom.
  Qed.
End LogReal.

(* the Isotonic out-of-support constants: likelihood uses eps32, log-likelihood ln eps32 (fixed
   code); the pinned code used ln eps64 in the log domain *)
Definition eps32 : R := / 8388608.           (* 2^-23 *)
Definition eps64 : R := / 4503599627370496.  (* 2^-52 *)
Lemma iso_consistent : exR (Some (ln eps32)) = eps32.
Proof. cbn. apply exp_ln. unfold eps32. apply Rinv_0_lt_compat. lra. Qed.
Lemma iso_pinned_refuted : exR (Some (ln eps64)) <> eps32.
Proof.
  cbn. rewrite exp_ln by (unfold eps64; apply Rinv_0_lt_compat; lra).
  unfold eps64, eps32. intro H. apply (f_equal Rinv) in H. rewrite !Rinv_inv in H. lra.
Qed.
