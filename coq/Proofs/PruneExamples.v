(* Proofs/PruneExamples.v — concrete witnesses for C09 (non-vacuity and the pinned defect). *)
From Coq Require Import List Arith ZArith QArith Qcanon Bool Lia.
From DV Require Import Model.Core Model.Clt Model.Leaves Model.QcInst Model.Prune Model.PruneRun
  Proofs.CoreFacts Proofs.QcLaws Proofs.PruneFacts.
Import ListNotations.
Local Open Scope nat_scope.

(* Product[ Sum[a, Sum[a]], b ] : a = Bernoulli(1/4) on var 0, b = Bernoulli(1/2) on var 1 *)
Definition pr_t : qtable :=
  [ Build_node (KLeaf (LTab 0 [(0, q 3 4); (1, q 1 4)]%Z)) [0] [];
    Build_node (KLeaf (LTab 1 [(0, q 1 2); (1, q 1 2)]%Z)) [1] [];
    Build_node (KSum [q 1 1]) [0] [0];
    Build_node (KSum [q 1 2; q 1 2]) [0] [0; 2];
    Build_node KProd [0; 1] [3; 1] ].

(* hypotheses of prune_preserves hold for it *)
Example pr_wf : wf Qc qleaf pr_t.
Proof.
  intros j Hj. cbn in Hj.
  do 5 (destruct j as [|j]; [cbn; repeat constructor; lia|]). lia.
Qed.
Example pr_norm : Forall (sum_norm Qc 0%Qc 1%Qc Qcplus qleaf) pr_t.
Proof. repeat constructor. all: try (apply Qc_is_canon; vm_compute; reflexivity). Qed.

(* the repaired pruning yields a normal form that pruning again does not change ... *)
Example pr_fixed_nf : nf_b Qc qleaf (fst (qprune pr_t)) (snd (qprune pr_t)) = true /\
                      nreach (qprune pr_t) = 3 /\ nreach (reprune (qprune pr_t)) = 3.
Proof. vm_compute. repeat split; reflexivity. Qed.
(* ... the pinned pruning kept a one-child sum (not a normal form; a second pass shrinks it) *)
Lemma prune_pinned_nf_refuted :
  nf_b Qc qleaf (fst (qprune_pinned pr_t)) (snd (qprune_pinned pr_t)) = false /\ nreach (qprune_pinned pr_t) = 4.
Proof. vm_compute. split; reflexivity. Qed.
