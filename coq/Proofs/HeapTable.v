(* Proofs/HeapTable.v — an acyclic (children-first) circuit accepted by the code's smoothness and
   decomposability checks is `valid` in the sense of CoreFacts; with normalised weights and leaves
   it therefore sums to one (C03: "no accepted circuit can define an unnormalised distribution"). *)
From Coq Require Import List Arith Bool Lia ZArith Ring.
From DV Require Import Model.Core Model.Clt Model.Check Model.Heap Proofs.CoreFacts Proofs.HeapFacts.
Import ListNotations.

Section HeapTable.
  Variable T : Type.
  Variables (t0 t1 : T) (tadd tmul : T -> T -> T).
  Hypothesis SRth : semi_ring_theory t0 t1 tadd tmul (@eq T).
  Variable dom : nat -> list Z.
  Variable leaf : Type.
  Variable leaf_val : leaf -> row -> T.
  Notation table := (table T leaf).
  Notation valid := (valid T t0 tadd dom leaf leaf_val).
  Notation scope_of := (scope_of T leaf).

  Definition obj_of (n : node T leaf) : obj :=
    {| oid := None;
       okind := match nkind n with KSum ws => HSum (Some (length ws)) | KProd => HProd | KLeaf _ => HLeaf end;
       oscope := nscope n; okids := nkids n |}.
  Definition heap_of (t : table) : heap := map obj_of t.

  Definition leaf_obl (n : node T leaf) : Prop :=
    match nkind n with
    | KLeaf l => leaf_local T leaf leaf_val l (nscope n) /\ leaf_marg T t0 tadd dom leaf leaf_val l (nscope n)
    | _ => True
    end.
  (* children before parents: what makes the object graph acyclic *)
  Fixpoint children_first (pre : nat) (t : table) : Prop :=
    match t with [] => True | n :: tl => Forall (fun k => k < pre) (nkids n) /\ children_first (S pre) tl end.

  Lemma hget_heap_of (t t' : table) k : k < length t -> oscope (hget (heap_of (t ++ t')) k) = scope_of t k.
  Proof.
    intros H. unfold hget, heap_of, Core.scope_of. rewrite map_app, app_nth1 by (now rewrite map_length).
    rewrite (nth_indep _ dummy_obj (obj_of (dummy_node T leaf))) by (now rewrite map_length).
    now rewrite map_nth.
  Qed.

  Lemma kid_scopes_heap (t t' : table) n : Forall (fun k => k < length t) (nkids n) ->
    kid_scopes (heap_of (t ++ t')) (obj_of n) = map (scope_of t) (nkids n).
  Proof.
    intros H. unfold kid_scopes. cbn [okids obj_of]. apply map_ext_Forall.
    rewrite Forall_forall in *. intros k Hk. now apply hget_heap_of, H.
  Qed.

  Lemma map_nth_scope' (t : table) ks j : j < length ks ->
    nth j (map (scope_of t) ks) [] = scope_of t (nth j ks 0).
  Proof. intros H. rewrite (nth_indep _ [] (scope_of t 0)) by (now rewrite map_length). apply map_nth. Qed.

  Lemma accepted_node_ok (t t' : table) n :
    Forall (fun k => k < length t) (nkids n) ->
    smooth_node (heap_of (t ++ t')) (obj_of n) = true ->
    decomp_node (heap_of (t ++ t')) (obj_of n) = true ->
    leaf_obl n -> node_ok T t0 tadd dom leaf leaf_val t n.
  Proof.
    intros Hk Hs Hd Hl. unfold node_ok. split; [exact Hk|].
    unfold smooth_node, decomp_node, leaf_obl in *. cbn [okind obj_of] in *.
    destruct (nkind n) as [l|ws|].
    - exact Hl.
    - rewrite kid_scopes_heap in Hs by exact Hk.
      rewrite !andb_true_iff, opt_nat_eqb_eq, forallb_forall in Hs. destruct Hs as [[_ Hlen] Hsc].
      split; [cbn [okids obj_of] in Hlen; congruence|].
      rewrite Forall_forall. intros k Hin. intros x. apply seteqb_iff, Hsc. now apply in_map.
    - rewrite kid_scopes_heap in Hd by exact Hk.
      rewrite !andb_true_iff, nodupb_iff, seteqb_iff, NoDup_concat_iff in Hd.
      destruct Hd as [_ [[_ Hp] Hun]]. split.
      + intros v. rewrite <- Hun, in_concat. split.
        * intros [s [Hs' Hv]]. apply in_map_iff in Hs'. destruct Hs' as [k [<- Hk']]. eauto.
        * intros [k [Hk' Hv]]. exists (scope_of t k). split; [now apply in_map | exact Hv].
      + intros i j Hij v Hi Hj. unfold pairwise_disjoint in Hp. rewrite map_length in Hp.
        specialize (Hp i j Hij v). rewrite !map_nth_scope' in Hp by lia. now apply Hp.
  Qed.

  Lemma accepted_valid_aux rest : forall pre : table, valid pre ->
      children_first (length pre) rest ->
      forallb (smooth_node (heap_of (pre ++ rest))) (heap_of rest) = true ->
      forallb (decomp_node (heap_of (pre ++ rest))) (heap_of rest) = true ->
      Forall leaf_obl rest -> valid (pre ++ rest).
  Proof.
    induction rest as [|n rest IH]; intros pre Hv Hcf Hs Hd Hl; [now rewrite app_nil_r|].
    cbn in Hcf, Hs, Hd. destruct Hcf as [Hk Hcf]. apply andb_true_iff in Hs, Hd.
    destruct Hs as [Hs1 Hs2], Hd as [Hd1 Hd2]. inversion Hl; subst.
    replace (pre ++ n :: rest) with ((pre ++ [n]) ++ rest) in * by (rewrite <- app_assoc; reflexivity).
    apply IH; auto.
    - constructor; [exact Hv|].
      rewrite <- app_assoc in Hs1, Hd1. now apply (accepted_node_ok pre ([n] ++ rest)).
    - rewrite app_length. cbn. now rewrite Nat.add_1_r.
  Qed.

  (* C03, consequence clause *)
  Theorem accepted_table_valid (t : table) :
      children_first 0 t ->
      forallb (smooth_node (heap_of t)) (heap_of t) = true ->
      forallb (decomp_node (heap_of t)) (heap_of t) = true ->
      Forall leaf_obl t -> valid t.
  Proof. intros. now apply (accepted_valid_aux t []); [constructor | | | |]. Qed.

  Theorem accepted_normalised_mass_one (t : table) :
      children_first 0 t ->
      forallb (smooth_node (heap_of t)) (heap_of t) = true ->
      forallb (decomp_node (heap_of t)) (heap_of t) = true ->
      Forall leaf_obl t -> normalised T t0 t1 tadd leaf leaf_val t ->
      forall i, i < length t -> NoDup (scope_of t i) ->
      sum_compl T t0 tadd dom (scope_of t i) (val T t0 t1 tadd tmul leaf leaf_val t i) row_none = t1.
  Proof.
    intros Hcf Hs Hd Hl Hn. apply (total_mass_one T t0 t1 tadd tmul SRth dom leaf leaf_val t); auto.
    now apply accepted_table_valid.
  Qed.
End HeapTable.
