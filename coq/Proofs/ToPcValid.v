(* Proofs/ToPcValid.v — the circuit built from a Chow-Liu tree is smooth, decomposable and
   normalised (valid /\ normalised in the sense of CoreFacts), for every tree with distinct binary
   variables and normalised CPT rows; the scope of the sums built for a subtree is its variable set. *)
From Coq Require Import List Arith ZArith Ring Lia Bool.
From DV Require Import Model.Core Model.Clt Model.Leaves Model.ToPc
  Proofs.CoreFacts Proofs.CltFacts Proofs.LeafFacts Proofs.HeapFacts.
Import ListNotations.

Section ToPcValid.
  Variable T : Type.
  Variables (t0 t1 : T) (tadd tmul : T -> T -> T).
  Hypothesis SRth : semi_ring_theory t0 t1 tadd tmul (@eq T).
  Add Ring Tring10 : SRth.
  Variable dom : nat -> list Z.
  Notation leaf := (leaf T).
  Notation lval := (leaf_val T t0 t1 tadd tmul).
  Notation table := (table T leaf).
  Notation dnode := (dummy_node T leaf).
  Notation sumT := (sumT T t0 tadd).
  Notation scope_of := (scope_of T leaf).
  Notation valid := (valid T t0 tadd dom leaf lval).
  Notation normalised := (normalised T t0 t1 tadd leaf lval).
  Notation node_ok := (node_ok T t0 tadd dom leaf lval).
  Notation node_norm := (node_norm T t0 t1 tadd leaf lval).
  Notation vars := (vars T).
  Notation topc := (topc T t0 t1).
  Notation go_with := (go_with T).
  Notation emit := (emit T t0 t1).

  Lemma valid_kids (t : table) : valid t -> forall j, j < length t -> Forall (fun k => k < j) (nkids (nth j t dnode)).
  Proof.
    induction 1 as [|t n Hv IH Hok]; intros j Hj; [cbn in Hj; lia|].
    rewrite app_length in Hj. cbn in Hj. destruct (Nat.eq_dec j (length t)) as [->|Hne].
    - rewrite app_nth2, Nat.sub_diag by lia. cbn. now destruct Hok.
    - rewrite app_nth1 by lia. apply IH. lia.
  Qed.

  Lemma scope_of_new (acc ext : table) j : scope_of (acc ++ ext) (length acc + j) = nscope (nth j ext dnode).
  Proof. unfold Core.scope_of. rewrite app_nth2 by lia. f_equal. f_equal. lia. Qed.
  Lemma scope_of_old (acc ext : table) i : i < length acc -> scope_of (acc ++ ext) i = scope_of acc i.
  Proof. apply (scope_of_prefix T leaf). Qed.

  Definition tree_ok (t : ctree T) : Prop :=
    NoDup (vars t) /\ rows_norm T t1 tadd t /\ forall v, In v (vars t) -> dom v = dom2.

  Lemma ind0_ok (acc : table) v : dom v = dom2 -> node_ok acc (ind0 T t0 t1 v) /\ node_norm (ind0 T t0 t1 v).
  Proof.
    intros Hd. unfold ind0, CoreFacts.node_ok, CoreFacts.node_norm. cbn [nkind nkids nscope]. repeat split.
    - constructor.
    - apply ltab_local. now left.
    - apply (ltab_marg T t0 t1 tadd tmul dom). rewrite Hd. cbn. ring.
    - apply ltab_one.
  Qed.
  Lemma ind1_ok (acc : table) v : dom v = dom2 -> node_ok acc (ind1 T t0 t1 v) /\ node_norm (ind1 T t0 t1 v).
  Proof.
    intros Hd. unfold ind1, CoreFacts.node_ok, CoreFacts.node_norm. cbn [nkind nkids nscope]. repeat split.
    - constructor.
    - apply ltab_local. now left.
    - apply (ltab_marg T t0 t1 tadd tmul dom). rewrite Hd. cbn. ring.
    - apply ltab_one.
  Qed.

  Lemma valid_snoc_norm (t : table) n : valid t -> normalised t -> node_ok t n -> node_norm n ->
    valid (t ++ [n]) /\ normalised (t ++ [n]).
  Proof.
    intros Hv Hn Hok Hnn. split; [now constructor|]. apply Forall_app. split; [exact Hn | constructor; auto].
  Qed.

  Definition spec2 (k : ctree T) : Prop := forall acc, valid acc -> normalised acc ->
    let '(res, (n, p)) := topc k acc in
    (exists ext, res = acc ++ ext) /\ valid res /\ normalised res /\
    length acc <= n < length res /\ length acc <= p < length res /\
    scope_of res p = scope_of res n /\ NoDup (scope_of res n) /\
    (forall v, In v (scope_of res n) <-> In v (vars k)).

  Lemma go_spec2 ks : Forall spec2 ks -> NoDup (flat_map vars ks) ->
      forall acc negs poss sc, valid acc -> normalised acc ->
      Forall (fun i => i < length acc) negs -> Forall (fun i => i < length acc) poss ->
      sc = map (scope_of acc) negs -> sc = map (scope_of acc) poss ->
      NoDup (concat sc) -> (forall v, In v (concat sc) -> ~ In v (flat_map vars ks)) ->
      let '(res, (negs', poss', sc')) := go_with topc ks acc negs poss sc in
      (exists ext, res = acc ++ ext) /\ valid res /\ normalised res /\
      Forall (fun i => i < length res) negs' /\ Forall (fun i => i < length res) poss' /\
      sc' = map (scope_of res) negs' /\ sc' = map (scope_of res) poss' /\
      NoDup (concat sc') /\
      (forall v, In v (concat sc') <-> In v (concat sc) \/ In v (flat_map vars ks)).
  Proof.
    induction 1 as [|k ks Hk Hks IH]; intros Hnd acc negs poss sc Hv Hn Hng Hps Hsn Hsp Hndc Hdisj; cbn [ToPc.go_with].
    - split; [exists []; now rewrite app_nil_r|]. repeat split; auto. cbn. tauto.
    - cbn in Hnd. specialize (Hk acc Hv Hn). destruct (topc k acc) as [a1 [n p]] eqn:Ek.
      destruct Hk as ([ext1 He1] & Hv1 & Hn1 & Hnr & Hpr & Hsp1 & Hnd1 & Hsc1).
      assert (Hlen : length acc <= length a1) by (rewrite He1, app_length; lia).
      assert (Hold : forall i, i < length acc -> scope_of a1 i = scope_of acc i) by (intros; rewrite He1; now apply scope_of_old).
      assert (Hng' : Forall (fun i => i < length a1) (n :: negs)).
      { constructor; [lia|]. eapply Forall_impl; [|exact Hng]. cbn. intros; lia. }
      assert (Hps' : Forall (fun i => i < length a1) (p :: poss)).
      { constructor; [lia|]. eapply Forall_impl; [|exact Hps]. cbn. intros; lia. }
      assert (Hsn' : scope_of a1 n :: sc = map (scope_of a1) (n :: negs)).
      { cbn. f_equal. rewrite Hsn. apply map_ext_Forall. rewrite Forall_forall in *. intros i Hi. symmetry. now apply Hold, Hng. }
      assert (Hsp' : scope_of a1 n :: sc = map (scope_of a1) (p :: poss)).
      { cbn. f_equal; [now symmetry|]. rewrite Hsp. apply map_ext_Forall. rewrite Forall_forall in *. intros i Hi. symmetry. now apply Hold, Hps. }
      assert (Hnd' : NoDup (concat (scope_of a1 n :: sc))).
      { cbn. apply NoDup_app_iff. split; [exact Hnd1|]. split; [exact Hndc|].
        intros v Hv1' Hv2. apply Hsc1 in Hv1'. apply (Hdisj v Hv2). cbn. apply in_or_app. now left. }
      assert (Hdisj' : forall v, In v (concat (scope_of a1 n :: sc)) -> ~ In v (flat_map vars ks)).
      { cbn. intros v Hv' Hks'. apply in_app_or in Hv'. destruct Hv' as [Hv'|Hv'].
        - apply Hsc1 in Hv'. apply (nodup_app_disj _ _ Hnd v Hv' Hks').
        - apply (Hdisj v Hv'). cbn. apply in_or_app. now right. }
      specialize (IH (nodup_app_r _ _ Hnd) a1 (n :: negs) (p :: poss) (scope_of a1 n :: sc) Hv1 Hn1 Hng' Hps' Hsn' Hsp' Hnd' Hdisj').
      unfold Core.scope_of in IH at 1. fold (scope_of a1 n) in IH.
      change (nscope (nth n a1 dnode)) with (scope_of a1 n).
      destruct (go_with topc ks a1 (n :: negs) (p :: poss) (scope_of a1 n :: sc)) as [res [[negs' poss'] sc']].
      destruct IH as ([ext2 He2] & Hv2 & Hn2 & Hn2' & Hp2' & Hs2n & Hs2p & Hnd2 & Hin2).
      split; [exists (ext1 ++ ext2); now rewrite He2, He1, app_assoc|]. repeat split; auto.
      + intros Hv'. apply Hin2 in Hv'. cbn in Hv'. destruct Hv' as [Hv'|Hv']; [|right; cbn; apply in_or_app; now right].
        apply in_app_or in Hv'. destruct Hv' as [Hv'|Hv']; [right; cbn; apply in_or_app; left; now apply Hsc1 | now left].
      + intros [Hv'|Hv']; apply Hin2; cbn.
        * left. apply in_or_app. now right.
        * cbn in Hv'. apply in_app_or in Hv'. destruct Hv' as [Hv'|Hv']; [left; apply in_or_app; left; now apply Hsc1 | now right].
  Qed.

  Lemma topc_eq2 v cpt kids acc :
    topc (CT v cpt kids) acc =
    let '(acc1, (negs, poss, scs)) := go_with topc kids acc [] [] [] in
    emit v cpt (match kids with [] => true | _ => false end) acc1 negs poss scs.
  Proof. reflexivity. Qed.

  Lemma rows_norm_kids' v cpt kids : rows_norm T t1 tadd (CT v cpt kids) -> Forall (rows_norm T t1 tadd) kids.
  Proof. apply rows_norm_kids. Qed.

  Lemma sum_pair_ok (t : table) sc a b w0 w1 : a < length t -> b < length t ->
    scope_of t a = sc -> scope_of t b = sc -> tadd w0 w1 = t1 ->
    node_ok t (Build_node (KSum [w0; w1]) sc [a; b]) /\ node_norm (Build_node (KSum [w0; w1]) sc [a; b]).
  Proof.
    intros Ha Hb Hsa Hsb Hw. unfold CoreFacts.node_ok, CoreFacts.node_norm. cbn [nkind nkids nscope]. repeat split.
    - repeat constructor; assumption.
    - constructor; [|constructor; [|constructor]]; intros x; [rewrite Hsa | rewrite Hsb]; tauto.
    - cbn. rewrite <- Hw. ring.
  Qed.

  Theorem topc_valid t : tree_ok t -> spec2 t.
  Proof.
    induction t as [v cpt kids IH] using (ctree_ind' T). intros (Hnd & Hrn & Hdom) acc Hv Hn.
    cbn in Hnd. apply NoDup_cons_iff in Hnd. destruct Hnd as [Hvn Hnd].
    assert (Hdv : dom v = dom2) by (apply Hdom; cbn; auto).
    pose proof (rows_norm_kids' _ _ _ Hrn) as Hrk. destruct Hrn as [Hrow _].
    assert (Hw0 : tadd (cpt 0%Z 0%Z) (cpt 0%Z 1%Z) = t1) by (apply Hrow; cbn; auto).
    assert (Hw1 : tadd (cpt 1%Z 0%Z) (cpt 1%Z 1%Z) = t1) by (apply Hrow; cbn; auto).
    assert (Hspecs : Forall spec2 kids).
    { rewrite Forall_forall in *. intros k Hk. apply IH; [exact Hk|]. split; [|split].
      - destruct (in_split _ _ Hk) as [l1 [l2 ->]]. rewrite flat_map_app in Hnd. cbn in Hnd.
        apply nodup_app_r in Hnd. now apply nodup_app_l in Hnd.
      - now apply Hrk.
      - intros u Hu. apply Hdom. cbn. right. apply in_flat_map. eauto. }
    rewrite topc_eq2.
    pose proof (go_spec2 kids Hspecs Hnd acc [] [] [] Hv Hn (Forall_nil _) (Forall_nil _) eq_refl eq_refl (NoDup_nil _)
                  ltac:(intros u [])) as Hgo.
    destruct (go_with topc kids acc [] [] []) as [acc1 [[negs poss] scs]].
    destruct Hgo as ([ext1 He1] & Hv1 & Hn1 & Hng & Hps & Hsn & Hsp & Hndc & Hin).
    set (i0 := length acc1). unfold ToPc.emit. fold i0.
    assert (Hlen01 : length acc <= i0) by (unfold i0; rewrite He1, app_length; lia).
    (* the two indicator leaves *)
    destruct (ind0_ok acc1 v Hdv) as [Hok0 Hnn0]. destruct (valid_snoc_norm acc1 _ Hv1 Hn1 Hok0 Hnn0) as [Hva Hna].
    destruct (ind1_ok (acc1 ++ [ind0 T t0 t1 v]) v Hdv) as [Hok1 Hnn1].
    destruct (valid_snoc_norm _ _ Hva Hna Hok1 Hnn1) as [Hvb Hnb].
    set (tb := (acc1 ++ [ind0 T t0 t1 v]) ++ [ind1 T t0 t1 v]) in *.
    assert (Hlb : length tb = i0 + 2) by (unfold tb; rewrite !app_length; cbn; unfold i0; lia).
    assert (Hs0 : scope_of tb i0 = [v]).
    { unfold tb. rewrite <- app_assoc. replace i0 with (length acc1 + 0) by (unfold i0; lia). now rewrite scope_of_new. }
    assert (Hs1 : scope_of tb (S i0) = [v]).
    { unfold tb. rewrite <- app_assoc. replace (S i0) with (length acc1 + 1) by (unfold i0; lia). now rewrite scope_of_new. }
    assert (Holdb : forall i, i < i0 -> scope_of tb i = scope_of acc1 i).
    { intros i Hi. unfold tb. rewrite <- app_assoc. now apply scope_of_old. }
    destruct kids as [|k0 kids'] eqn:Ekids.
    - (* leaf of the tree: two sums over the indicators *)
      destruct (sum_pair_ok tb [v] i0 (S i0) (cpt 0%Z 0%Z) (cpt 0%Z 1%Z) ltac:(lia) ltac:(lia) Hs0 Hs1 Hw0) as [Hokc Hnnc].
      destruct (valid_snoc_norm tb _ Hvb Hnb Hokc Hnnc) as [Hvc Hnc].
      set (tc := tb ++ [Build_node (KSum [cpt 0%Z 0%Z; cpt 0%Z 1%Z]) [v] [i0; S i0]]) in *.
      assert (Hs0c : scope_of tc i0 = [v]) by (unfold tc; rewrite scope_of_old by lia; exact Hs0).
      assert (Hs1c : scope_of tc (S i0) = [v]) by (unfold tc; rewrite scope_of_old by lia; exact Hs1).
      assert (Hlc : length tc = i0 + 3) by (unfold tc; rewrite app_length; cbn; lia).
      destruct (sum_pair_ok tc [v] i0 (S i0) (cpt 1%Z 0%Z) (cpt 1%Z 1%Z) ltac:(lia) ltac:(lia) Hs0c Hs1c Hw1) as [Hokd Hnnd].
      destruct (valid_snoc_norm tc _ Hvc Hnc Hokd Hnnd) as [Hvd Hnd'].
      set (td := tc ++ [Build_node (KSum [cpt 1%Z 0%Z; cpt 1%Z 1%Z]) [v] [i0; S i0]]) in *.
      assert (Heq : acc1 ++ [ind0 T t0 t1 v; ind1 T t0 t1 v;
                             Build_node (KSum [cpt 0%Z 0%Z; cpt 0%Z 1%Z]) [v] [i0; S i0];
                             Build_node (KSum [cpt 1%Z 0%Z; cpt 1%Z 1%Z]) [v] [i0; S i0]] = td).
      { unfold td, tc, tb. rewrite <- !app_assoc. reflexivity. }
      rewrite Heq.
      assert (Hld : length td = i0 + 4) by (unfold td; rewrite app_length; cbn; lia).
      assert (Hsn2 : scope_of td (i0 + 2) = [v]).
      { unfold td. rewrite scope_of_old by lia. unfold tc. replace (i0 + 2) with (length tb + 0) by lia. now rewrite scope_of_new. }
      assert (Hsp3 : scope_of td (i0 + 3) = [v]).
      { unfold td. replace (i0 + 3) with (length tc + 0) by lia. now rewrite scope_of_new. }
      split; [exists (ext1 ++ [ind0 T t0 t1 v; ind1 T t0 t1 v;
                             Build_node (KSum [cpt 0%Z 0%Z; cpt 0%Z 1%Z]) [v] [i0; S i0];
                             Build_node (KSum [cpt 1%Z 0%Z; cpt 1%Z 1%Z]) [v] [i0; S i0]]); rewrite <- Heq, He1, app_assoc; reflexivity|].
      split; [exact Hvd|]. split; [exact Hnd'|]. split; [lia|]. split; [lia|].
      rewrite Hsn2, Hsp3. split; [reflexivity|]. split; [repeat constructor; cbn; tauto|].
      intros u. cbn. tauto.
    - (* inner node *)
      set (psc := v :: concat scs).
      assert (Hpsc_nd : NoDup psc).
      { unfold psc. constructor; [|exact Hndc]. intro Hc. apply Hin in Hc. cbn in Hc. destruct Hc as [[]|Hc]. now apply Hvn. }
      assert (Hpsc_in : forall u, In u psc <-> In u (vars (CT v cpt (k0 :: kids')))).
      { intros u. unfold psc. cbn [In Clt.vars]. rewrite Hin. cbn. tauto. }
      (* Pneg *)
      assert (HokP : forall (first : nat) (ks : list nat), first = i0 \/ first = S i0 ->
                 Forall (fun i => i < i0) ks -> scs = map (scope_of acc1) ks ->
                 forall tt, (exists e, tt = tb ++ e) -> 
                 node_ok tt (Build_node KProd psc (first :: ks))).
      { intros first ks Hf Hks Hscs tt [e ->]. unfold CoreFacts.node_ok. cbn [nkind nkids nscope].
        assert (Hfs : scope_of (tb ++ e) first = [v]).
        { rewrite scope_of_old by (destruct Hf; subst; lia). destruct Hf; subst; assumption. }
        assert (Hkss : map (scope_of (tb ++ e)) ks = scs).
        { rewrite Hscs. apply map_ext_Forall. rewrite Forall_forall in *. intros i Hi.
          rewrite scope_of_old by (specialize (Hks i Hi); lia). apply Holdb. now apply Hks. }
        split; [|split].
        - constructor; [rewrite app_length; destruct Hf; subst; lia|].
          eapply Forall_impl; [|exact Hks]. cbn. intros. rewrite app_length. lia.
        - intros u. unfold psc. split.
          + intros [<-|Hu]; [exists first; split; [now left | rewrite Hfs; now left]|].
            apply in_concat in Hu. destruct Hu as [s [Hs Hus]]. rewrite <- Hkss in Hs.
            apply in_map_iff in Hs. destruct Hs as [i [<- Hi]]. exists i. split; [now right | exact Hus].
          + intros [i [[<-|Hi] Hu]]; [rewrite Hfs in Hu; destruct Hu as [<-|[]]; now left|].
            right. apply in_concat. exists (scope_of (tb ++ e) i). split; [rewrite <- Hkss; now apply in_map | exact Hu].
        - assert (Hall : NoDup (concat (map (scope_of (tb ++ e)) (first :: ks)))).
          { cbn [map concat]. rewrite Hfs, Hkss. exact Hpsc_nd. }
          apply NoDup_concat_iff in Hall. destruct Hall as [_ Hp]. intros i j Hij u Hi Hj.
          unfold pairwise_disjoint in Hp. rewrite map_length in Hp. specialize (Hp i j Hij u).
          rewrite !(nth_indep _ [] (scope_of (tb ++ e) 0)) in Hp by (rewrite map_length; lia).
          rewrite !map_nth in Hp. now apply Hp. }
      assert (HngF : Forall (fun i => i < i0) negs) by exact Hng.
      assert (HpsF : Forall (fun i => i < i0) poss) by exact Hps.
      pose proof (HokP i0 negs (or_introl eq_refl) HngF Hsn tb ltac:(exists []; now rewrite app_nil_r)) as Hokc.
      destruct (valid_snoc_norm tb _ Hvb Hnb Hokc I) as [Hvc Hnc].
      set (tc := tb ++ [Build_node KProd psc (i0 :: negs)]) in *.
      pose proof (HokP (S i0) poss (or_intror eq_refl) HpsF Hsp tc ltac:(eexists; reflexivity)) as Hokd.
      destruct (valid_snoc_norm tc _ Hvc Hnc Hokd I) as [Hvd Hnd'].
      set (td := tc ++ [Build_node KProd psc (S i0 :: poss)]) in *.
      assert (Hlc : length tc = i0 + 3) by (unfold tc; rewrite app_length; cbn; lia).
      assert (Hld : length td = i0 + 4) by (unfold td; rewrite app_length; cbn; lia).
      assert (Hs2 : scope_of td (i0 + 2) = psc).
      { unfold td. rewrite scope_of_old by lia. unfold tc. replace (i0 + 2) with (length tb + 0) by lia. now rewrite scope_of_new. }
      assert (Hs3 : scope_of td (i0 + 3) = psc).
      { unfold td. replace (i0 + 3) with (length tc + 0) by lia. now rewrite scope_of_new. }
      destruct (sum_pair_ok td psc (i0 + 2) (i0 + 3) (cpt 0%Z 0%Z) (cpt 0%Z 1%Z) ltac:(lia) ltac:(lia) Hs2 Hs3 Hw0) as [Hoke Hnne].
      destruct (valid_snoc_norm td _ Hvd Hnd' Hoke Hnne) as [Hve Hne].
      set (te := td ++ [Build_node (KSum [cpt 0%Z 0%Z; cpt 0%Z 1%Z]) psc [i0 + 2; i0 + 3]]) in *.
      assert (Hle : length te = i0 + 5) by (unfold te; rewrite app_length; cbn; lia).
      assert (Hs2e : scope_of te (i0 + 2) = psc) by (unfold te; rewrite scope_of_old by lia; exact Hs2).
      assert (Hs3e : scope_of te (i0 + 3) = psc) by (unfold te; rewrite scope_of_old by lia; exact Hs3).
      destruct (sum_pair_ok te psc (i0 + 2) (i0 + 3) (cpt 1%Z 0%Z) (cpt 1%Z 1%Z) ltac:(lia) ltac:(lia) Hs2e Hs3e Hw1) as [Hokf Hnnf].
      destruct (valid_snoc_norm te _ Hve Hne Hokf Hnnf) as [Hvf Hnf].
      set (tf := te ++ [Build_node (KSum [cpt 1%Z 0%Z; cpt 1%Z 1%Z]) psc [i0 + 2; i0 + 3]]) in *.
      assert (Heq : acc1 ++ [ind0 T t0 t1 v; ind1 T t0 t1 v; Build_node KProd psc (i0 :: negs); Build_node KProd psc (S i0 :: poss);
                             Build_node (KSum [cpt 0%Z 0%Z; cpt 0%Z 1%Z]) psc [i0 + 2; i0 + 3];
                             Build_node (KSum [cpt 1%Z 0%Z; cpt 1%Z 1%Z]) psc [i0 + 2; i0 + 3]] = tf).
      { unfold tf, te, td, tc, tb. rewrite <- !app_assoc. reflexivity. }
      fold psc. rewrite Heq.
      assert (Hlf : length tf = i0 + 6) by (unfold tf; rewrite app_length; cbn; lia).
      assert (Hs4 : scope_of tf (i0 + 4) = psc).
      { unfold tf. rewrite scope_of_old by lia. unfold te. replace (i0 + 4) with (length td + 0) by lia. now rewrite scope_of_new. }
      assert (Hs5 : scope_of tf (i0 + 5) = psc).
      { unfold tf. replace (i0 + 5) with (length te + 0) by lia. now rewrite scope_of_new. }
      split; [exists (ext1 ++ [ind0 T t0 t1 v; ind1 T t0 t1 v; Build_node KProd psc (i0 :: negs); Build_node KProd psc (S i0 :: poss);
                             Build_node (KSum [cpt 0%Z 0%Z; cpt 0%Z 1%Z]) psc [i0 + 2; i0 + 3];
                             Build_node (KSum [cpt 1%Z 0%Z; cpt 1%Z 1%Z]) psc [i0 + 2; i0 + 3]]); rewrite <- Heq, He1, app_assoc; reflexivity|].
      split; [exact Hvf|]. split; [exact Hnf|]. split; [lia|]. split; [lia|].
      rewrite Hs4, Hs5. split; [reflexivity|]. split; [exact Hpsc_nd | exact Hpsc_in].
  Qed.
End ToPcValid.
