(* Proofs/SampleClt.v — the Chow-Liu sampler (root-to-leaves, normalised conditionals built from
   the leaves-to-root messages) draws from the exact conditional, with evidence above and below the
   sampled variable; the built-in leaves meet the sampling obligations of SampleFacts.
   Every commutative semiring with a partial division  (a / b) * b = a  for b <> 0. *)
From Coq Require Import List Arith ZArith Ring Lia Bool.
From DV Require Import Model.Core Model.Clt Model.Leaves Model.Mpe Model.Sample
  Proofs.CoreFacts Proofs.CltFacts Proofs.MpeFacts Proofs.SampleFacts.
Import ListNotations.

Section CltSample.
  Variable T : Type.
  Variables (t0 t1 : T) (tadd tmul : T -> T -> T).
  Hypothesis SRth : semi_ring_theory t0 t1 tadd tmul (@eq T).
  Add Ring Tring9 : SRth.
  Variable tdiv : T -> T -> T.
  Hypothesis div_mul : forall a b, b <> t0 -> tmul (tdiv a b) b = a.
  Infix "+" := tadd. Infix "*" := tmul.
  Notation sumT := (sumT T t0 tadd).
  Notation prodT := (prodT T t1 tmul).
  Notation ctree := (ctree T).
  Notation up := (up T t0 t1 tadd tmul).
  Notation vars := (vars T).
  Notation cmeas := (cmeas T t0 t1 tadd tmul tdiv).
  Notation cross_all := (cross_all T t1 tmul).
  Notation total := (total T t0 tadd).
  Notation mass_at := (mass_at T t0 tadd).
  Notation keys_are := (keys_are T).
  Notation msum := (msum T t0 tadd).

  (* no conditional of a missing variable that the sampler can reach has a zero normaliser *)
  Fixpoint nz (t : ctree) (pv : Z) (r : row) : Prop :=
    match t with
    | CT v cpt kids =>
        match r v with
        | Some x => (fix all (l : list ctree) := match l with [] => True | k :: ks => nz k x r /\ all ks end) kids
        | None => up (CT v cpt kids) pv r <> t0 /\
                  (fix all (l : list ctree) :=
                     match l with [] => True | k :: ks => (nz k 0%Z r /\ nz k 1%Z r) /\ all ks end) kids
        end
    end.
  (* CPT entries outside {0,1} are zero (cpt_fn of Model/Clt.v) *)
  Fixpoint supp (t : ctree) : Prop :=
    match t with
    | CT _ cpt kids => (forall pv y, ~ In y dom2 -> cpt pv y = t0) /\
        (fix all (l : list ctree) := match l with [] => True | k :: ks => supp k /\ all ks end) kids
    end.

  Lemma nz_some v cpt kids pv r x : r v = Some x -> nz (CT v cpt kids) pv r -> Forall (fun k => nz k x r) kids.
  Proof. cbn. intros ->. induction kids as [|k ks IH]; intros H; constructor; tauto. Qed.
  Lemma nz_none v cpt kids pv r : r v = None -> nz (CT v cpt kids) pv r ->
    up (CT v cpt kids) pv r <> t0 /\ Forall (fun k => nz k 0%Z r /\ nz k 1%Z r) kids.
  Proof.
    cbn [nz]. intros ->. intros [H1 H2]. split; [exact H1|]. clear H1.
    induction kids as [|k ks IH]; constructor; tauto.
  Qed.
  Lemma supp_kids v cpt kids : supp (CT v cpt kids) -> Forall supp kids.
  Proof. cbn. intros [_ H]. induction kids as [|k ks IH]; constructor; tauto. Qed.

  Lemma flat_map_vars_concat (kids : list ctree) : flat_map vars kids = concat (map vars kids).
  Proof. apply flat_map_concat_map. Qed.

  (* ---------- the cells written: exactly the missing variables of the tree ---------- *)
  Lemma cmeas_keys t : forall pv r, keys_are (cmeas t pv r) (fun v => In v (vars t) /\ r v = None).
  Proof.
    induction t as [u cpt kids IH] using (ctree_ind' T). intros pv r.
    assert (Hcross : forall x, keys_are (cross_all (map (fun k => cmeas k x r) kids))
                                (fun v => In v (flat_map vars kids) /\ r v = None)).
    { intros x.
      set (mss := map (fun k => (cmeas k x r, fun v => In v (vars k) /\ r v = None)) kids).
      replace (map (fun k => cmeas k x r) kids) with (map fst mss) by (unfold mss; rewrite map_map; reflexivity).
      eapply keys_are_ext; [| apply (keys_are_cross_all T t1 tmul mss)].
      - intros v. split.
        + intros [p [Hp Hv]]. unfold mss in Hp. apply in_map_iff in Hp. destruct Hp as [k [<- Hk]]. cbn in Hv.
          split; [apply in_flat_map; exists k; tauto | tauto].
        + intros [Hin Hn]. apply in_flat_map in Hin. destruct Hin as [k [Hk Hv]].
          eexists. split; [unfold mss; apply in_map_iff; exists k; split; [reflexivity | exact Hk]|]. cbn. auto.
      - unfold mss. rewrite Forall_map. rewrite Forall_forall in *. intros k Hk. cbn. now apply IH. }
    cbn [Sample.cmeas]. destruct (r u) as [x|] eqn:E.
    - eapply keys_are_ext; [| apply (Hcross x)]. intros v. cbn. split; [tauto|].
      intros [[<-|H] Hn]; [congruence | auto].
    - intros a Ha v. rewrite in_map_iff in Ha. destruct Ha as [e [<- He]].
      apply in_flat_map in He. destruct He as [x [_ He]]. apply in_map_iff in He.
      destruct He as [e' [<- He']]. cbn [fst map].
      pose proof (Hcross x (fst e') (in_map fst _ _ He') v) as K. cbn. rewrite K. split.
      + intros [<-|[H1 H2]]; auto.
      + intros [[<-|H1] H2]; auto.
  Qed.

  Lemma pdisj_of_nodup (scs : list (list nat)) : NoDup (concat scs) -> pdisj scs.
  Proof.
    induction scs as [|s scs IH]; cbn; intros H; [exact I|]. split.
    - intros v Hv Hc. exact (nodup_app_disj _ _ H v Hv Hc).
    - apply IH. now apply nodup_app_r in H.
  Qed.

  Lemma prod_mul {A} (f g : A -> T) l : prodT (map f l) * prodT (map g l) = prodT (map (fun k => f k * g k) l).
  Proof. induction l as [|k l IH]; cbn; [ring|]. rewrite <- IH. ring. Qed.

  Lemma msum_and (b : bool) g m : msum (fun a => b && g a) m = if b then msum g m else t0.
  Proof.
    destruct b; cbn; [reflexivity|]. unfold SampleFacts.msum.
    induction m as [|e m IH]; cbn; [reflexivity|]. rewrite IH. ring.
  Qed.
  Lemma msum_map_cons f (g : asg -> asg) w (m : meas T) :
    msum f (map (fun e => (g (fst e), w * snd e)) m) = w * msum (fun a => f (g a)) m.
  Proof.
    unfold SampleFacts.msum. induction m as [|e m IH]; cbn; [ring|]. rewrite IH.
    destruct (f (g (fst e))); ring.
  Qed.

  (* kids' joint mass, times the kids' messages, in closed form *)
  Lemma kids_mass kids x r c :
    NoDup (flat_map vars kids) ->
    Forall (fun k => mass_at (cmeas k x r) r (vars k) c * up k x r =
                     if compl_b r (vars k) c then up k x c else t0) kids ->
    mass_at (cross_all (map (fun k => cmeas k x r) kids)) r (flat_map vars kids) c *
      prodT (map (fun k => up k x r) kids) =
    if compl_b r (flat_map vars kids) c then prodT (map (fun k => up k x c) kids) else t0.
  Proof.
    intros Hnd Hall.
    set (mss := map (fun k => (cmeas k x r, vars k)) kids).
    replace (map (fun k => cmeas k x r) kids) with (map fst mss) by (unfold mss; rewrite map_map; reflexivity).
    replace (flat_map vars kids) with (concat (map snd mss))
      by (unfold mss; rewrite map_map; cbn; symmetry; apply flat_map_concat_map).
    rewrite (mass_cross_all T t0 t1 tadd tmul SRth).
    - unfold mss. rewrite !map_map. cbn [fst snd]. rewrite prod_mul.
      erewrite map_ext_Forall; [| exact Hall].
      rewrite (prod_if T t0 t1 tadd tmul SRth (fun k => compl_b r (vars k) c) (fun k => up k x c)).
      rewrite compl_b_concat. rewrite (forallb_map' (fun s => compl_b r s c) vars). reflexivity.
    - unfold mss. rewrite Forall_map, Forall_forall. intros k Hk. cbn.
      apply (keys_are_in T _ _ _ (cmeas_keys k x r)). tauto.
    - unfold mss. rewrite map_map. cbn. apply pdisj_of_nodup. now rewrite <- flat_map_concat_map.
  Qed.

  (* ---------- the law: mass(c) * P(evidence) = P(c) for completions, 0 otherwise ---------- *)
  Theorem cmeas_mass t : NoDup (vars t) -> supp t -> forall pv r, nz t pv r -> forall c,
      mass_at (cmeas t pv r) r (vars t) c * up t pv r = if compl_b r (vars t) c then up t pv c else t0.
  Proof.
    induction t as [u cpt kids IH] using (ctree_ind' T). intros Hnd Hs pv r Hnz c.
    cbn in Hnd. apply NoDup_cons_iff in Hnd. destruct Hnd as [Hu Hnd].
    pose proof (supp_kids _ _ _ Hs) as Hsk. destruct Hs as [Hsup _].
    assert (Hndk : forall k, In k kids -> NoDup (vars k)).
    { intros k Hk. destruct (in_split _ _ Hk) as [ks1 [ks2 Heq]]. rewrite Heq, flat_map_app in Hnd. cbn in Hnd.
      apply nodup_app_r in Hnd. now apply nodup_app_l in Hnd. }
    (* the completed row of an outcome of the kids, seen on u :: kids' variables *)
    assert (Hagree : forall x a r', (forall v, v <> u -> r' v = r v) -> r' u = Some x ->
              In a (map fst (cross_all (map (fun k => cmeas k x r) kids))) ->
              agree_on (u :: flat_map vars kids) (apply_assign a r') c =
              ocell_eqb (Some x) (c u) && agree_on (flat_map vars kids) (apply_assign a r) c).
    { intros x a r' Hr' Hr'u Ha.
      assert (Hka : forall v, In v (map fst a) -> In v (flat_map vars kids)).
      { intros v Hv.
        set (mss := map (fun k => (cmeas k x r, vars k)) kids).
        assert (Hk : keys_in T (cross_all (map fst mss)) (concat (map snd mss))).
        { apply keys_in_cross_all. unfold mss. rewrite Forall_map, Forall_forall. intros k Hk. cbn.
          apply (keys_are_in T _ _ _ (cmeas_keys k x r)). tauto. }
        unfold mss in Hk. rewrite !map_map in Hk. cbn in Hk. rewrite <- flat_map_concat_map in Hk.
        exact (Hk a Ha v Hv). }
      cbn [agree_on forallb]. f_equal.
      - rewrite apply_assign_notin by (intro Hv; apply Hu; now apply Hka). now rewrite Hr'u.
      - apply agree_on_ext. intros v Hv. apply apply_assign_agree. apply Hr'. intro; subst; contradiction. }
    rewrite Forall_forall in IH.
    cbn [Sample.cmeas]. destruct (r u) as [x|] eqn:E.
    - (* observed: the kids are sampled given the observed value *)
      pose proof (nz_some _ _ _ _ _ _ E Hnz) as Hnzk. rewrite Forall_forall in Hnzk, Hsk.
      assert (Hk := kids_mass kids x r c Hnd).
      rewrite (mass_msum T t0 tadd).
      erewrite (msum_ext T t0 tadd); [| intros a Ha; apply (Hagree x a r (fun _ _ => eq_refl) E Ha)].
      rewrite msum_and. change (vars (CT u cpt kids)) with (u :: flat_map vars kids).
      cbn [Clt.up]. rewrite E.
      assert (Hc : compl_b r (u :: flat_map vars kids) c =
                   ocell_eqb (Some x) (c u) && compl_b r (flat_map vars kids) c).
      { cbn [compl_b forallb]. rewrite E. cbn. destruct (c u); reflexivity. }
      rewrite Hc. destruct (ocell_eqb (Some x) (c u)) eqn:Eb; cbn [andb]; [|ring].
      destruct (c u) as [y|] eqn:Ec; [|discriminate]. cbn in Eb. apply Z.eqb_eq in Eb. subst y.
      transitivity (cpt pv x * (msum (fun a => agree_on (flat_map vars kids) (apply_assign a r) c)
                                  (cross_all (map (fun k => cmeas k x r) kids)) *
                                prodT (map (fun k => up k x r) kids))); [ring|].
      rewrite <- (mass_msum T t0 tadd), Hk.
      + destruct (compl_b r (flat_map vars kids) c); ring.
      + rewrite Forall_forall. intros k Hkin. apply IH; auto.
    - (* missing: x is drawn with probability term x / (term 0 + term 1) *)
      destruct (nz_none _ _ _ _ _ E Hnz) as [Hz Hnzk]. rewrite Forall_forall in Hnzk, Hsk.
      change (vars (CT u cpt kids)) with (u :: flat_map vars kids).
      set (term := fun x => cpt pv x * prodT (map (fun k => up k x r) kids)) in *.
      assert (Hup : up (CT u cpt kids) pv r = sumT (map term dom2)) by (cbn [Clt.up]; now rewrite E).
      rewrite Hup in *. set (z := sumT (map term dom2)) in *.
      assert (Hpart : forall x, In x dom2 ->
                msum (fun a => agree_on (u :: flat_map vars kids) (apply_assign a r) c)
                  (map (fun e => ((u, x) :: fst e, tdiv (term x) z * snd e))
                       (cross_all (map (fun k => cmeas k x r) kids))) * z =
                if ocell_eqb (Some x) (c u)
                then cpt pv x * (if compl_b r (flat_map vars kids) c then prodT (map (fun k => up k x c) kids) else t0)
                else t0).
      { intros x Hx.
        rewrite (msum_map_cons _ (fun a => (u, x) :: a)).
        erewrite (msum_ext T t0 tadd).
        2:{ intros a Ha. change (apply_assign ((u, x) :: a) r) with (apply_assign a (upd r u (Some x))).
            apply (Hagree x a (upd r u (Some x))); [intros v Hv; now apply upd_other | apply upd_same | exact Ha]. }
        rewrite msum_and. destruct (ocell_eqb (Some x) (c u)); [|ring].
        transitivity ((tdiv (term x) z * z) *
                      msum (fun a => agree_on (flat_map vars kids) (apply_assign a r) c)
                        (cross_all (map (fun k => cmeas k x r) kids))); [ring|].
        rewrite (div_mul _ _ Hz). unfold term.
        transitivity (cpt pv x * (mass_at (cross_all (map (fun k => cmeas k x r) kids)) r (flat_map vars kids) c *
                                  prodT (map (fun k => up k x r) kids))); [rewrite (mass_msum T t0 tadd); ring|].
        rewrite (kids_mass kids x r c Hnd); [reflexivity|].
        rewrite Forall_forall. intros k Hkin. apply IH; auto.
        destruct Hx as [<-|[<-|[]]]; apply (Hnzk k Hkin). }
      rewrite (mass_msum T t0 tadd). cbn [dom2 flat_map]. rewrite app_nil_r.
      rewrite (msum_app T t0 t1 tadd tmul SRth).
      match goal with |- (?A + ?B) * z = _ => transitivity (A * z + B * z); [ring|] end.
      pose proof (Hpart 0%Z ltac:(cbn; auto)) as P0. pose proof (Hpart 1%Z ltac:(cbn; auto)) as P1.
      unfold term in P0, P1. cbn beta in P0, P1. rewrite P0, P1. clear P0 P1 Hpart.
      assert (Hc : compl_b r (u :: flat_map vars kids) c =
                   match c u with Some _ => compl_b r (flat_map vars kids) c | None => false end).
      { cbn [compl_b forallb]. rewrite E. destruct (c u); reflexivity. }
      rewrite Hc. cbn [Clt.up]. destruct (c u) as [y|] eqn:Ec; cbn [ocell_eqb]; [|ring].
      destruct (Z.eqb_spec 0 y) as [<-|H0]; [cbn; destruct (compl_b r (flat_map vars kids) c); ring|].
      destruct (Z.eqb_spec 1 y) as [<-|H1]; [cbn; destruct (compl_b r (flat_map vars kids) c); ring|].
      rewrite (Hsup pv y) by (cbn; intuition congruence).
      destruct (compl_b r (flat_map vars kids) c); ring.
  Qed.

  (* total mass one (stated without cancellation: total * P(evidence) = P(evidence)) *)
  Theorem cmeas_total t : forall pv r, nz t pv r -> total (cmeas t pv r) * up t pv r = up t pv r.
  Proof.
    induction t as [u cpt kids IH] using (ctree_ind' T). intros pv r Hnz. rewrite Forall_forall in IH.
    assert (Hk : forall x, Forall (fun k => nz k x r) kids ->
              total (cross_all (map (fun k => cmeas k x r) kids)) * prodT (map (fun k => up k x r) kids) =
              prodT (map (fun k => up k x r) kids)).
    { intros x Hn. rewrite (total_cross_all T t0 t1 tadd tmul SRth), map_map, prod_mul. f_equal.
      apply map_ext_Forall. rewrite Forall_forall in *. intros k Hkin. now apply IH; [|apply Hn]. }
    cbn [Sample.cmeas]. destruct (r u) as [x|] eqn:E.
    - pose proof (nz_some _ _ _ _ _ _ E Hnz) as Hnzk. cbn [Clt.up]. rewrite E.
      transitivity (cpt pv x * (total (cross_all (map (fun k => cmeas k x r) kids)) *
                                prodT (map (fun k => up k x r) kids))); [ring|]. now rewrite Hk.
    - destruct (nz_none _ _ _ _ _ E Hnz) as [Hz Hnzk].
      set (term := fun x => cpt pv x * prodT (map (fun k => up k x r) kids)) in *.
      assert (Hup : up (CT u cpt kids) pv r = sumT (map term dom2)) by (cbn [Clt.up]; now rewrite E).
      rewrite Hup in *. set (z := sumT (map term dom2)) in *.
      assert (Hpart : forall x, Forall (fun k => nz k x r) kids ->
                total (map (fun e => ((u, x) :: fst e, tdiv (term x) z * snd e))
                           (cross_all (map (fun k => cmeas k x r) kids))) * z = term x).
      { intros x Hn. rewrite (total_msum T t0 tadd), (msum_map_cons _ (fun a => (u, x) :: a)).
        transitivity ((tdiv (term x) z * z) * total (cross_all (map (fun k => cmeas k x r) kids))); [rewrite (total_msum T t0 tadd); ring|].
        rewrite (div_mul _ _ Hz). unfold term.
        transitivity (cpt pv x * (total (cross_all (map (fun k => cmeas k x r) kids)) *
                                  prodT (map (fun k => up k x r) kids))); [ring|]. now rewrite Hk. }
      cbn [dom2 flat_map]. rewrite app_nil_r, (total_app T t0 t1 tadd tmul SRth).
      match goal with |- (?A + ?B) * z = _ => transitivity (A * z + B * z); [ring|] end.
      assert (Hn0 : Forall (fun k => nz k 0%Z r) kids) by (rewrite Forall_forall in *; intros k Hk'; apply (Hnzk k Hk')).
      assert (Hn1 : Forall (fun k => nz k 1%Z r) kids) by (rewrite Forall_forall in *; intros k Hk'; apply (Hnzk k Hk')).
      pose proof (Hpart 0%Z Hn0) as P0. pose proof (Hpart 1%Z Hn1) as P1.
      unfold term in P0, P1. cbn beta in P0, P1. rewrite P0, P1.
      unfold z, term. cbn [dom2 map Core.sumT]. ring.
  Qed.

  (* the boolean check used by the runner and the examples *)
  Variable teqb : T -> T -> bool.
  Hypothesis teqb_neq : forall a b, teqb a b = false -> a <> b.
  Lemma nzb_sound t : forall pv r, nzb T t0 t1 tadd tmul teqb t pv r = true -> nz t pv r.
  Proof.
    induction t as [u cpt kids IH] using (ctree_ind' T). intros pv r H.
    cbn [Sample.nzb] in H. cbn [nz]. destruct (r u) as [x|].
    - rewrite forallb_forall in H. induction kids as [|k ks IHk]; [exact I|].
      inversion IH; subst. split; [apply H2, H; now left|]. apply IHk; [assumption|]. intros k' Hk'. apply H. now right.
    - apply andb_true_iff in H. destruct H as [Hz H]. split.
      + apply teqb_neq. now apply negb_true_iff in Hz.
      + rewrite forallb_forall in H. clear Hz. induction kids as [|k ks IHk]; [exact I|].
        inversion IH; subst. specialize (H k (or_introl eq_refl)) as Hk. apply andb_true_iff in Hk. destruct Hk as [Hk0 Hk1].
        split; [split; now apply H2|]. apply IHk; [assumption|]. intros k' Hk'. apply H. now right.
  Qed.
End CltSample.

(* ================= the built-in leaves meet the sampling obligations ================= *)
Section BuiltinLeaves.
  Variable T : Type.
  Variables (t0 t1 : T) (tadd tmul : T -> T -> T).
  Hypothesis SRth : semi_ring_theory t0 t1 tadd tmul (@eq T).
  Add Ring Tring10 : SRth.
  Variable tdiv : T -> T -> T.
  Hypothesis div_mul : forall a b, b <> t0 -> tmul (tdiv a b) b = a.
  Infix "+" := tadd. Infix "*" := tmul.
  Notation sumT := (sumT T t0 tadd).
  Notation lval := (leaf_val T t0 t1 tadd tmul).
  Notation lmeas := (lmeas T t0 t1 tadd tmul tdiv).
  Notation leaf_sample_ok := (leaf_sample_ok T t0 tadd (leaf T) lval lmeas).
  Notation lookup := (lookup T t0).
  Notation clt_tree := (clt_tree T t0).
  Notation vars := (vars T).
  Notation nz := (nz T t0 t1 tadd tmul).
  Notation supp := (supp T t0).
  Notation mass_at := (mass_at T t0 tadd).
  Notation total := (total T t0 tadd).

  Lemma lookup_sum tab y : NoDup (map fst tab) ->
    sumT (map (fun kp => if Z.eqb (fst kp) y then snd kp else t0) tab) = lookup tab y.
  Proof.
    induction tab as [|[k p] tab IH]; cbn; intros Hnd; [reflexivity|].
    apply NoDup_cons_iff in Hnd. destruct Hnd as [Hk Hnd]. destruct (Z.eqb_spec k y) as [->|Hne].
    - assert (Hz : sumT (map (fun kp => if Z.eqb (fst kp) y then snd kp else t0) tab) = t0).
      { clear IH Hnd. induction tab as [|[k' p'] tab IH]; cbn; [reflexivity|].
        cbn in Hk. destruct (Z.eqb_spec k' y) as [->|Hne]; [tauto|]. rewrite IH by tauto. ring. }
      rewrite Hz. ring.
    - rewrite IH by exact Hnd. ring.
  Qed.

  Lemma ltab_sample_ok r v tab : NoDup (map fst tab) -> sumT (map snd tab) = t1 ->
    leaf_sample_ok r (LTab v tab) [v].
  Proof.
    intros Hnd Hsum. unfold SampleFacts.leaf_sample_ok. cbn [Sample.lmeas]. unfold tab_meas.
    destruct (r v) as [x|] eqn:E; (split; [|split]).
    - intros a [<-|[]] u. cbn. split; [tauto|]. intros [[<-|[]] H]. congruence.
    - intros c. unfold Sample.mass_at. cbn. rewrite E. destruct (c v) as [y|]; cbn; [|ring].
      destruct (Z.eqb_spec x y) as [->|Hne]; cbn; ring.
    - unfold Sample.total. cbn. rewrite E. ring.
    - intros a Ha u. rewrite map_map in Ha. cbn in Ha. apply in_map_iff in Ha. destruct Ha as [kp [<- _]]. cbn.
      split; [intros [<-|[]]; auto | intros [[<-|[]] _]; auto].
    - intros c. unfold Sample.mass_at. rewrite map_map. cbn [fst snd].
      erewrite map_ext.
      2:{ intros kp. cbn [agree_on forallb]. change (apply_assign [(v, fst kp)] r) with (upd r v (Some (fst kp))).
          rewrite upd_same, andb_true_r. reflexivity. }
      cbn [compl_b forallb leaf_val]. rewrite E. destruct (c v) as [y|]; cbn [ocell_eqb andb].
      + now apply lookup_sum.
      + apply (sumT_zero T t0 t1 tadd tmul SRth).
    - unfold Sample.total. rewrite map_map. cbn [snd]. cbn [leaf_val]. now rewrite E.
  Qed.

  Lemma lclt_sample_ok r c sc :
    NoDup (vars (clt_tree c)) -> (forall v, In v sc <-> In v (vars (clt_tree c))) ->
    supp (clt_tree c) -> nz (clt_tree c) 0%Z r -> leaf_sample_ok r (LClt c) sc.
  Proof.
    intros Hnd Hsc Hs Hnz. unfold SampleFacts.leaf_sample_ok. cbn [Sample.lmeas leaf_val]. unfold clt_meas, clt_val.
    split; [|split].
    - apply keys_are_scale. eapply keys_are_ext; [| apply cmeas_keys].
      intros v. cbn beta. now rewrite Hsc.
    - intros cc. rewrite (mass_scale T t0 t1 tadd tmul SRth).
      rewrite (mass_seteq T t0 tadd _ r _ _ cc Hsc), (compl_b_seteq _ _ r cc Hsc).
      rewrite <- (cmeas_mass T t0 t1 tadd tmul SRth tdiv div_mul _ Hnd Hs 0%Z r Hnz cc). ring.
    - rewrite (total_scale T t0 t1 tadd tmul SRth).
      rewrite <- (cmeas_total T t0 t1 tadd tmul SRth tdiv div_mul _ 0%Z r Hnz) at 2. ring.
  Qed.

  (* the trees built from the array representation have CPTs supported on {0,1} *)
  Lemma in01_false y : ~ In y dom2 -> in01 y = false.
  Proof.
    intros H. unfold in01. destruct (Z.leb_spec 0 y), (Z.leb_spec y 1); cbn; try reflexivity.
    exfalso. apply H. cbn. lia.
  Qed.
  Lemma supp_all (l : list (ctree T)) : Forall supp l ->
    (fix all (l : list (ctree T)) := match l with [] => True | k :: ks => supp k /\ all ks end) l.
  Proof. induction 1; cbn; auto. Qed.
  Lemma supp_build c fuel : forall i, supp (build T t0 fuel c i).
  Proof.
    induction fuel as [|f IH]; intros i; cbn.
    - split; [|exact I]. intros pv y Hy. unfold cpt_fn. now rewrite (in01_false y Hy), andb_false_r.
    - split.
      + intros pv y Hy. unfold cpt_fn. now rewrite (in01_false y Hy), andb_false_r.
      + apply supp_all. rewrite Forall_map, Forall_forall. intros j _. apply IH.
  Qed.
  Lemma supp_clt_tree c : supp (clt_tree c).
  Proof. apply supp_build. Qed.

  (* checkable side conditions on the built-in leaves, for the evidence row r *)
  Definition builtin_ok (r : row) (l : leaf T) (sc : list nat) : Prop :=
    match l with
    | LTab v tab => sc = [v] /\ NoDup (map fst tab) /\ sumT (map snd tab) = t1
    | LClt c => NoDup (vars (clt_tree c)) /\ (forall v, In v sc <-> In v (vars (clt_tree c))) /\
                nz (clt_tree c) 0%Z r
    end.
  Lemma builtin_leaf_ok r l sc : builtin_ok r l sc -> leaf_sample_ok r l sc.
  Proof.
    destruct l as [v tab|c]; cbn.
    - intros (-> & H1 & H2). now apply ltab_sample_ok.
    - intros (H1 & H2 & H3). apply lclt_sample_ok; auto. apply supp_clt_tree.
  Qed.
  Definition builtin_table_ok (r : row) (t : table T (leaf T)) : Prop :=
    Forall (fun n => match nkind n with KLeaf l => builtin_ok r l (nscope n) | _ => True end) t.
  Lemma builtin_table_leaves_ok r t : builtin_table_ok r t ->
    leaves_sample_ok T t0 tadd (leaf T) lval lmeas r t.
  Proof.
    unfold builtin_table_ok, leaves_sample_ok. apply Forall_impl. intros n.
    destruct (nkind n); auto. apply builtin_leaf_ok.
  Qed.

  (* the circuit theorems of SampleFacts for tables over the built-in leaves *)
  Variable dom : nat -> list Z.
  Notation valid := (valid T t0 tadd dom (leaf T) lval).
  Notation val := (val T t0 t1 tadd tmul (leaf T) lval).
  Notation meas_at := (meas_at T t1 tmul (leaf T) lmeas).
  Theorem builtin_mass r t : valid t -> builtin_table_ok r t -> forall i, i < length t -> forall c,
      mass_at (meas_at t i r) r (scope_of T (leaf T) t i) c =
      if compl_b r (scope_of T (leaf T) t i) c then val t i c else t0.
  Proof.
    intros Hv Hb. apply (smeas_mass T t0 t1 tadd tmul SRth dom (leaf T) lval lmeas r t Hv).
    now apply builtin_table_leaves_ok.
  Qed.
  Theorem builtin_total r t : valid t -> builtin_table_ok r t -> forall i, i < length t ->
      total (meas_at t i r) = val t i r.
  Proof.
    intros Hv Hb. apply (smeas_total T t0 t1 tadd tmul SRth dom (leaf T) lval lmeas r t Hv).
    now apply builtin_table_leaves_ok.
  Qed.
End BuiltinLeaves.
