(* Proofs/DgcFacts.v — structural facts about Model/Dgc.v that hold for EVERY layer list:
   usage counts do not depend on channels or on the choice of sum children (smoothness),
   the 2-D count factorises into the two axes, decomposability follows from "usage <= 1". *)
From Coq Require Import List ZArith Bool Lia.
From DV Require Import Model.Dgc.
Import ListNotations.
Open Scope Z_scope.

Lemma count_px_app x y l1 l2 : count_px x y (l1 ++ l2) = count_px x y l1 + count_px x y l2.
Proof. induction l1 as [|p l1 IH]; simpl; [reflexivity|]. unfold count_px in *. simpl. rewrite IH. lia. Qed.

Lemma count_px_nil x y : count_px x y [] = 0.
Proof. reflexivity. Qed.

Lemma count_px_one x y c h w : count_px x y [(c, h, w)] = if (x =? h) && (y =? w) then 1 else 0.
Proof.
  unfold count_px; simpl. rewrite (Z.eqb_sym h x), (Z.eqb_sym w y).
  destruct ((x =? h) && (y =? w)); reflexivity.
Qed.

(* the number of occurrences of pixel (x,y) among the leaves of ANY induced sub-circuit rooted at
   ANY channel of position (h,w) is use2: it depends neither on the channel nor on the choices *)
Theorem leaves_count : forall ch ls c h w x y, count_px x y (leaves ch ls c h w) = use2 ls h w x y.
Proof.
  intros ch ls; induction ls as [|L rest IH]; intros c h w x y.
  - cbn [leaves use2]. apply count_px_one.
  - cbn [leaves use2]. destruct (lk L) as [pl pr s d dw|]; [|apply IH].
    cbn [flat_map fst snd]. rewrite !count_px_app, ?count_px_nil.
    rewrite !Z.mul_0_l, !Z.mul_1_l, !Z.add_0_r.
    repeat match goal with |- context [if ?b then leaves _ _ _ _ _ else []] => destruct b end;
      rewrite ?IH, ?count_px_nil; lia.
Qed.

Corollary scope_channel_free : forall ch ch' ls c c' h w x y,
    count_px x y (leaves ch ls c h w) = count_px x y (leaves ch' ls c' h w).
Proof. intros. rewrite !leaves_count. reflexivity. Qed.

Lemma use1_nonneg : forall ls h x, 0 <= use1 ls h x.
Proof.
  induction ls as [|L rest IH]; intros h x; cbn [use1].
  - destruct (x =? h); lia.
  - destruct (lk L) as [pl pr s d dw|]; [|apply IH].
    cbv zeta.
    pose proof (IH (h * s - pl) x). pose proof (IH (h * s - pl + d) x).
    destruct (inb (h * s - pl) (l_ins L)), (inb (h * s - pl + d) (l_ins L)); lia.
Qed.

(* rows and columns are independent *)
Theorem use2_factor : forall ls h w x y, use2 ls h w x y = use1 ls h x * use1 ls w y.
Proof.
  induction ls as [|L rest IH]; intros h w x y; cbn [use1 use2].
  - destruct (x =? h), (y =? w); reflexivity.
  - destruct (lk L) as [pl pr s d dw|]; [|apply IH].
    cbv zeta. rewrite !IH.
    destruct (inb (h * s - pl) (l_ins L)), (inb (h * s - pl + d) (l_ins L)),
             (inb (w * s - pl) (l_ins L)), (inb (w * s - pl + d) (l_ins L)); cbn [andb]; ring.
Qed.

Lemma use2_nonneg ls h w x y : 0 <= use2 ls h w x y.
Proof. rewrite use2_factor. apply Z.mul_nonneg_nonneg; apply use1_nonneg. Qed.

(* ---------- decomposability of one product node ---------- *)
(* factor (a,b), a,b in {0,1}, of the product at (h,w): its position, whether it is a real input
   (not padding), and whether pixel (x,y) is in its scope *)
Definition fpos (pl s d h a : Z) : Z := h * s - pl + a * d.
Definition factor_has (L : layer) (rest : list layer) (pl s d h w a b x y : Z) : Prop :=
  inb (fpos pl s d h a) (l_ins L) && inb (fpos pl s d w b) (l_ins L) = true /\
  0 < use2 rest (fpos pl s d h a) (fpos pl s d w b) x y.

Definition bit (a : Z) := a = 0 \/ a = 1.

(* the (up to) four factors of the product node at (h,w) have pairwise disjoint scopes *)
Definition decomposable_at (L : layer) (rest : list layer) (h w : Z) (pixel : Z -> Z -> Prop) : Prop :=
  match lk L with
  | KSumL => True
  | KProdL pl pr s d dw =>
    forall a b a' b', bit a -> bit b -> bit a' -> bit b' -> (a, b) <> (a', b') ->
      forall x y, pixel x y ->
        ~ (factor_has L rest pl s d h w a b x y /\ factor_has L rest pl s d h w a' b' x y)
  end.

Lemma usage_le1_decomposable (L : layer) rest h w (pixel : Z -> Z -> Prop) :
  (forall x y, pixel x y -> use2 (L :: rest) h w x y <= 1) -> decomposable_at L rest h w pixel.
Proof.
  intros Hle. unfold decomposable_at. destruct (lk L) as [pl pr s d dw|] eqn:EL; [|exact I].
  intros a b a' b' Ha Hb Ha' Hb' Hne x y Hp [[R1 U1] [R2 U2]].
  specialize (Hle x y Hp). cbn [use2] in Hle. rewrite EL in Hle. cbv zeta in Hle.
  pose proof (use2_nonneg rest (h * s - pl) (w * s - pl) x y).
  pose proof (use2_nonneg rest (h * s - pl) (w * s - pl + d) x y).
  pose proof (use2_nonneg rest (h * s - pl + d) (w * s - pl) x y).
  pose proof (use2_nonneg rest (h * s - pl + d) (w * s - pl + d) x y).
  unfold fpos in *.
  destruct Ha as [-> | ->], Hb as [-> | ->], Ha' as [-> | ->], Hb' as [-> | ->];
    try (exfalso; apply Hne; reflexivity);
    rewrite ?Z.mul_0_l, ?Z.mul_1_l, ?Z.add_0_r in *;
    rewrite ?R1, ?R2 in Hle;
    repeat match type of Hle with context [if ?c then _ else _] => destruct c end; lia.
Qed.

(* usage exactly one at a node: exactly one factor of a product carries the pixel *)
Lemma use1_01_cases ls h x : use1 ls h x <= 1 -> use1 ls h x = 0 \/ use1 ls h x = 1.
Proof. pose proof (use1_nonneg ls h x). lia. Qed.
