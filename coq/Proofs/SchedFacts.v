(* Proofs/SchedFacts.v — every interleaving of pairwise-commuting atomic actions gives the same
   memory; concrete commutation lemmas for the actions of eval_bottom_up / eval_top_down. *)
From Coq Require Import List Arith Bool Permutation Lia.
From DV Require Import Model.Sched.
Import ListNotations.

Section SchedFacts.
  Variable loc : Type.
  Variable leqb : loc -> loc -> bool.
  Hypothesis leqb_spec : forall a b, reflect (a = b) (leqb a b).
  Variable V : Type.
  Notation mem := (mem loc V).
  Notation act := (act loc V).
  Notation exec := (exec loc V).
  Notation interleave := (interleave loc V).

  Definition mem_eq (m m' : mem) := forall l, m l = m' l.
  Definition respects (a : act) := forall m m', mem_eq m m' -> mem_eq (a m) (a m').
  Definition commute (a b : act) := forall m, mem_eq (b (a m)) (a (b m)).

  Lemma exec_ext s : Forall respects s -> forall m m', mem_eq m m' -> mem_eq (exec s m) (exec s m').
  Proof. induction 1 as [|a s Ha Hs IH]; intros m m' H; [exact H|]. cbn. apply IH, Ha, H. Qed.

  Definition pairwise_commute (s : list act) := ForallOrdPairs (fun a b => commute a b) s.

  Lemma exec_perm s s' : Permutation s s' -> pairwise_commute s -> Forall respects s ->
      forall m, mem_eq (exec s m) (exec s' m) /\ pairwise_commute s' /\ Forall respects s'.
  Proof.
    induction 1 as [|a s s' Hp IH|a b s|s s' s'' H1 IH1 H2 IH2]; intros Hc Hr m.
    - repeat split; auto; try (intro; reflexivity).
    - inversion Hc as [|? ? Hall Hrest]; subst. inversion Hr as [|? ? Hra Hrs]; subst.
      destruct (IH Hrest Hrs (a m)) as [E [C R]]. split; [exact E|]. split.
      + constructor; [|exact C]. rewrite Forall_forall in *. intros y Hy. apply Hall.
        eapply Permutation_in; [symmetry; exact Hp | exact Hy].
      + constructor; auto.
    - inversion Hc as [|? ? Hall Hrest]; subst. inversion Hrest as [|? ? Hall' Hrest']; subst.
      inversion Hall as [|? ? Hab Hall'']; subst.
      inversion Hr as [|? ? Hrb Hr']; subst. inversion Hr' as [|? ? Hra Hrs]; subst.
      split; [|split].
      + cbn. apply exec_ext; [exact Hrs|]. intro l. apply Hab.
      + constructor; [constructor; [|exact Hall'] |]; [| constructor; [exact Hall'' | exact Hrest']].
        intro m0. intro l. symmetry. apply Hab.
      + repeat constructor; auto.
    - destruct (IH1 Hc Hr m) as [E1 [C1 R1]]. destruct (IH2 C1 R1 m) as [E2 [C2 R2]]. split; [|split; assumption].
      intro l. now rewrite E1, E2.
  Qed.

  Lemma concat_all_nil (ts : list (list act)) : Forall (fun t => t = []) ts -> concat ts = [].
  Proof. induction 1; cbn; [reflexivity | subst; assumption]. Qed.
  Lemma interleave_perm ts s : interleave ts s -> Permutation (concat ts) s.
  Proof.
    induction 1 as [ts H|ts1 a t ts2 s _ IH].
    - now rewrite concat_all_nil.
    - rewrite concat_app in *. cbn in *. rewrite <- IH. rewrite <- Permutation_middle. reflexivity.
  Qed.

  (* C08 core: every two schedules of the same task lists end in the same memory *)
  Theorem interleave_det ts s1 s2 m :
    pairwise_commute (concat ts) -> Forall respects (concat ts) ->
    interleave ts s1 -> interleave ts s2 -> mem_eq (exec s1 m) (exec s2 m).
  Proof.
    intros Hc Hr H1 H2. apply interleave_perm in H1, H2.
    destruct (exec_perm _ _ H1 Hc Hr m) as [E1 _]. destruct (exec_perm _ _ H2 Hc Hr m) as [E2 _].
    intro l. now rewrite <- E1, <- E2.
  Qed.
  (* ... in particular the same as running the tasks one after the other *)
  Theorem interleave_sequential ts s m :
    pairwise_commute (concat ts) -> Forall respects (concat ts) ->
    interleave ts s -> mem_eq (exec s m) (exec (concat ts) m).
  Proof.
    intros Hc Hr H. apply interleave_perm in H. destruct (exec_perm _ _ H Hc Hr m) as [E _].
    intro l. now rewrite <- E.
  Qed.

  (* ---- concrete atomic actions ---- *)
  Variable join : V -> V -> V.
  Hypothesis join_comm : forall a b, join a b = join b a.
  Hypothesis join_assoc : forall a b c, join a (join b c) = join (join a b) c.

  (* f reads only the locations in R *)
  Definition reads (f : mem -> V) (R : list loc) := forall m m', (forall x, In x R -> m x = m' x) -> f m = f m'.
  Definition set_at (l : loc) (f : mem -> V) : act := fun m x => if leqb x l then f m else m x.
  Definition join_at (l : loc) (f : mem -> V) : act := fun m x => if leqb x l then join (m x) (f m) else m x.

  Lemma reads_respects f R : reads f R -> forall m m', mem_eq m m' -> f m = f m'.
  Proof. intros H m m' E. apply H. intros; apply E. Qed.
  Lemma set_respects l f R : reads f R -> respects (set_at l f).
  Proof. intros H m m' E x. unfold set_at. destruct (leqb x l); [now apply (reads_respects f R) | apply E]. Qed.
  Lemma join_respects l f R : reads f R -> respects (join_at l f).
  Proof. intros H m m' E x. unfold join_at. destruct (leqb x l); [rewrite E; f_equal; now apply (reads_respects f R) | apply E]. Qed.

  (* a value function that does not read l is unaffected by a write to l *)
  Lemma unread_set f R l g m : reads f R -> ~ In l R -> f (set_at l g m) = f m.
  Proof. intros H Hn. apply H. intros x Hx. unfold set_at. destruct (leqb_spec x l); [subst; contradiction | reflexivity]. Qed.
  Lemma unread_join f R l g m : reads f R -> ~ In l R -> f (join_at l g m) = f m.
  Proof. intros H Hn. apply H. intros x Hx. unfold join_at. destruct (leqb_spec x l); [subst; contradiction | reflexivity]. Qed.

  (* bottom-up: two tasks write different rows and neither reads the other's row *)
  Lemma set_set_commute l f R l' f' R' : reads f R -> reads f' R' -> l <> l' -> ~ In l R' -> ~ In l' R ->
    commute (set_at l f) (set_at l' f').
  Proof.
    intros Hf Hf' Hne H1 H2 m x.
    assert (E1 : f' (set_at l f m) = f' m) by (now apply (unread_set f' R')).
    assert (E2 : f (set_at l' f' m) = f m) by (now apply (unread_set f R)).
    unfold set_at in *. rewrite E1, E2.
    destruct (leqb_spec x l'), (leqb_spec x l); subst; congruence.
  Qed.
  (* top-down mask propagation: atomic joins into (possibly the SAME) child row commute *)
  Lemma join_join_commute l f R l' f' R' : reads f R -> reads f' R' -> ~ In l R' -> ~ In l' R ->
    commute (join_at l f) (join_at l' f').
  Proof.
    intros Hf Hf' H1 H2 m x.
    assert (E1 : f' (join_at l f m) = f' m) by (now apply (unread_join f' R')).
    assert (E2 : f (join_at l' f' m) = f m) by (now apply (unread_join f R)).
    unfold join_at in *. rewrite E1, E2.
    destruct (leqb_spec x l'), (leqb_spec x l); subst; try congruence;
      try (rewrite <- !join_assoc, (join_comm (f m)); reflexivity).
  Qed.
  Lemma set_join_commute l f R l' f' R' : reads f R -> reads f' R' -> l <> l' -> ~ In l R' -> ~ In l' R ->
    commute (set_at l f) (join_at l' f').
  Proof.
    intros Hf Hf' Hne H1 H2 m x.
    assert (E1 : f' (set_at l f m) = f' m) by (now apply (unread_set f' R')).
    assert (E2 : f (join_at l' f' m) = f m) by (now apply (unread_join f R)).
    unfold set_at, join_at in *. rewrite E1, E2.
    destruct (leqb_spec x l'), (leqb_spec x l); subst; try congruence;
      try (destruct (leqb_spec l' l); congruence).
  Qed.

  (* a location nobody targets keeps its value at every point of every schedule *)
  Definition untouched (a : act) (l : loc) := forall m, a m l = m l.
  Lemma read_stable s l : Forall (fun a => untouched a l) s -> forall m, exec s m l = m l.
  Proof. induction 1 as [|a s Ha Hs IH]; intros m; [reflexivity|]. change (exec s (a m) l = m l). rewrite IH. apply Ha. Qed.

  (* a whole layer of bottom-up tasks: node n writes row (row_of n) from the rows in (reads_of n) *)
  Lemma layer_sets_commute (ns : list nat) (row_of : nat -> loc) (val_of : nat -> mem -> V) (reads_of : nat -> list loc) :
    NoDup (map row_of ns) -> (forall n, In n ns -> reads (val_of n) (reads_of n)) ->
    (forall n n', In n ns -> In n' ns -> ~ In (row_of n) (reads_of n')) ->
    pairwise_commute (map (fun n => set_at (row_of n) (val_of n)) ns) /\
    Forall respects (map (fun n => set_at (row_of n) (val_of n)) ns).
  Proof.
    induction ns as [|n ns IH]; intros Hnd Hr Hx; [split; constructor|]. cbn in Hnd. inversion Hnd; subst.
    destruct IH as [IH1 IH2]; [assumption | intros; apply Hr; now right | intros; apply Hx; now right|].
    cbn [map]. split.
    - constructor; [|exact IH1]. rewrite Forall_map, Forall_forall. intros n' Hn'.
      apply (set_set_commute _ _ (reads_of n) _ _ (reads_of n')).
      + apply Hr. now left.
      + apply Hr. now right.
      + intro E. apply H1. rewrite E. now apply in_map.
      + apply Hx; [now left | now right].
      + apply Hx; [now right | now left].
    - constructor; [|exact IH2]. apply (set_respects _ _ (reads_of n)). apply Hr. now left.
  Qed.
End SchedFacts.

(* ---- a whole layer of mixed atomic actions (top-down: mask joins + leaf cell writes) ---- *)
Section MixedLayer.
  Variable loc : Type.
  Variable leqb : loc -> loc -> bool.
  Hypothesis leqb_spec : forall a b, reflect (a = b) (leqb a b).
  Variable V : Type.
  Variable join : V -> V -> V.
  Hypothesis join_comm : forall a b, join a b = join b a.
  Hypothesis join_assoc : forall a b c, join a (join b c) = join (join a b) c.

  Record aspec := { is_join : bool; tgt : loc; fn : mem loc V -> V; rds : list loc }.
  Definition act_of (a : aspec) : act loc V :=
    if is_join a then join_at loc leqb V join (tgt a) (fn a) else set_at loc leqb V (tgt a) (fn a).
  (* two actions of a layer may run in either order: neither reads the other's target, and they
     have different targets unless both are joins *)
  Definition independent (a b : aspec) : Prop :=
    ~ In (tgt a) (rds b) /\ ~ In (tgt b) (rds a) /\ ((is_join a = true /\ is_join b = true) \/ tgt a <> tgt b).

  Lemma independent_commute a b : reads loc V (fn a) (rds a) -> reads loc V (fn b) (rds b) ->
    independent a b -> commute loc V (act_of a) (act_of b).
  Proof.
    intros Ha Hb (H1 & H2 & H3). unfold act_of.
    destruct (is_join a) eqn:Ea, (is_join b) eqn:Eb.
    - now apply (join_join_commute loc leqb leqb_spec V join join_comm join_assoc _ _ (rds a) _ _ (rds b)).
    - destruct H3 as [[_ H]|H]; [discriminate|].
      intros m x. symmetry.
      apply (set_join_commute loc leqb leqb_spec V join _ _ (rds b) _ _ (rds a)); auto.
    - destruct H3 as [[H _]|H]; [discriminate|].
      now apply (set_join_commute loc leqb leqb_spec V join _ _ (rds a) _ _ (rds b)).
    - destruct H3 as [[H _]|H]; [discriminate|].
      now apply (set_set_commute loc leqb leqb_spec V _ _ (rds a) _ _ (rds b)).
  Qed.

  Theorem mixed_layer_commute (l : list aspec) :
    Forall (fun a => reads loc V (fn a) (rds a)) l ->
    ForallOrdPairs independent l ->
    pairwise_commute loc V (map act_of l) /\ Forall (respects loc V) (map act_of l).
  Proof.
    induction l as [|a l IH]; intros Hr Hi; [split; constructor|].
    inversion Hr as [|? ? Hra Hrl]; subst. inversion Hi as [|? ? Hia Hil]; subst.
    destruct (IH Hrl Hil) as [IH1 IH2]. cbn [map]. split.
    - constructor; [|exact IH1]. rewrite Forall_map, Forall_forall. intros b Hb.
      rewrite Forall_forall in Hia, Hrl. apply independent_commute; auto.
    - constructor; [|exact IH2]. unfold act_of. destruct (is_join a).
      + now apply (join_respects loc leqb V join _ _ (rds a)).
      + now apply (set_respects loc leqb V _ _ (rds a)).
  Qed.
End MixedLayer.

(* ---- the pinned (unlocked) mask update `masks[c] |= v` is a read followed by a write: two parents
   of one child can lose an update.  Locations: 0 = masks[c], 1 and 2 = the threads' temporaries;
   values are bit sets as nat (1 = row 0, 2 = row 1). ---- *)
Definition p_rd (tmp : nat) : act nat nat := fun m x => if Nat.eqb x tmp then m 0 else m x.
Definition p_wr (tmp v : nat) : act nat nat := fun m x => if Nat.eqb x 0 then Nat.lor (m tmp) v else m x.
Definition p_task1 := [p_rd 1; p_wr 1 1].     (* parent 1 contributes row 0 *)
Definition p_task2 := [p_rd 2; p_wr 2 2].     (* parent 2 contributes row 1 *)
Definition p_m0 : mem nat nat := fun _ => 0.
Lemma td_pinned_refuted :
  interleave nat nat [p_task1; p_task2] [p_rd 1; p_rd 2; p_wr 1 1; p_wr 2 2] /\
  exec nat nat [p_rd 1; p_rd 2; p_wr 1 1; p_wr 2 2] p_m0 0 = 2 /\      (* parent 1's row is lost *)
  exec nat nat (p_task1 ++ p_task2) p_m0 0 = 3.                          (* sequential result *)
Proof.
  split; [|split; reflexivity].
  apply (il_step nat nat [] (p_rd 1) [p_wr 1 1] [p_task2]).
  apply (il_step nat nat [[p_wr 1 1]] (p_rd 2) [p_wr 2 2] []).
  apply (il_step nat nat [] (p_wr 1 1) [] [[p_wr 2 2]]).
  apply (il_step nat nat [[]] (p_wr 2 2) [] []).
  apply il_done. repeat constructor.
Qed.
