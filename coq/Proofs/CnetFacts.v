(* Proofs/CnetFacts.v — cutset networks (C18): well-formedness, the three facts (dependence on the
   scope only, single-variable marginalisation, all-missing = one) for OR-trees over Chow-Liu
   leaves, total mass, positional evaluation = semantics, FIFO batch evaluation = row-wise
   evaluation, learner skeleton well-formed for every oracle, certificate soundness. *)
From Coq Require Import List Arith ZArith Ring Lia Bool Permutation.
From DV Require Import Model.Core Model.Clt Model.Check Model.Cnet
  Proofs.CoreFacts Proofs.CltFacts Proofs.CheckFacts Proofs.CltGather.
Import ListNotations.

(* ---------- index_of / remove_at / row_of ---------- *)
Lemma index_of_lt v l : In v l -> index_of v l < length l.
Proof.
  induction l as [|a l IH]; cbn; [tauto|]. intros [->|H].
  - rewrite Nat.eqb_refl. lia.
  - destruct (Nat.eqb a v); [lia | specialize (IH H); lia].
Qed.
Lemma nth_index_of v l d : In v l -> nth (index_of v l) l d = v.
Proof.
  induction l as [|a l IH]; cbn; [tauto|]. intros H.
  destruct (Nat.eqb_spec a v) as [->|Hne]; [reflexivity|]. destruct H as [->|H]; [congruence | now apply IH].
Qed.
Lemma index_of_nth l : NoDup l -> forall i, i < length l -> index_of (nth i l 0) l = i.
Proof.
  induction 1 as [|a l Ha Hnd IH]; intros i Hi; cbn in *; [lia|]. destruct i as [|i].
  - now rewrite Nat.eqb_refl.
  - destruct (Nat.eqb_spec a (nth i l 0)) as [->|Hne].
    + exfalso. apply Ha. apply nth_In. lia.
    + f_equal. apply IH. lia.
Qed.
Lemma remove_at_length {A} (l : list A) : forall i, i < length l -> length (remove_at i l) = length l - 1.
Proof.
  induction l as [|a l IH]; intros i Hi; cbn in *; [lia|]. destruct i; cbn; [lia|]. rewrite IH by lia. lia.
Qed.
Lemma remove_at_map {A B} (f : A -> B) l : forall i, remove_at i (map f l) = map f (remove_at i l).
Proof. induction l as [|a l IH]; intros i; cbn; [reflexivity|]. destruct i; cbn; [reflexivity | now rewrite IH]. Qed.
Lemma remove_at_incl {A} (l : list A) : forall i u, In u (remove_at i l) -> In u l.
Proof.
  induction l as [|a l IH]; intros i u; cbn; [tauto|]. destruct i; cbn; [tauto|]. intros [->|H]; [tauto|]. right. eauto.
Qed.
Lemma remove_at_NoDup {A} (l : list A) : NoDup l -> forall i, NoDup (remove_at i l).
Proof.
  induction 1 as [|a l Ha Hnd IH]; intros i; cbn; [constructor|]. destruct i; [exact Hnd|].
  constructor; [|apply IH]. intro H. apply Ha. eapply remove_at_incl; eauto.
Qed.
Lemma remove_at_In l : NoDup l -> forall i, i < length l -> forall u,
    In u (remove_at i l) <-> In u l /\ u <> nth i l 0.
Proof.
  induction 1 as [|a l Ha Hnd IH]; intros i Hi u; cbn in *; [lia|]. destruct i as [|i].
  - split; [intros H; split; [tauto | intro; subst; contradiction] | intros [[->|H] Hne]; congruence].
  - cbn. rewrite (IH i ltac:(lia) u). split.
    + intros [->|[H1 H2]]; [split; [tauto|] | tauto]. intro He. apply Ha. rewrite He. apply nth_In. lia.
    + intros [[->|H1] H2]; tauto.
Qed.
Lemma Forall_remove_at {A} (P : A -> Prop) l : Forall P l -> forall i, Forall P (remove_at i l).
Proof. induction 1; intros i; cbn; [constructor|]. destruct i; [assumption | constructor; auto]. Qed.

Lemma row_of_nil_r sc u : row_of sc [] u = None.
Proof. destruct sc; reflexivity. Qed.
Lemma row_of_index sc : forall xs v, In v sc -> row_of sc xs v = nth_error xs (index_of v sc).
Proof.
  induction sc as [|a sc IH]; intros xs v Hin; cbn in *; [tauto|]. destruct xs as [|x xs].
  - now destruct (Nat.eqb a v).
  - destruct (Nat.eqb_spec a v) as [->|Hne]; [reflexivity|]. destruct Hin as [->|Hin]; [congruence|]. cbn. now apply IH.
Qed.
Lemma row_of_nth sc : NoDup sc -> forall xs i, i < length sc -> row_of sc xs (nth i sc 0) = nth_error xs i.
Proof.
  intros Hnd xs i Hi. rewrite row_of_index by (apply nth_In; exact Hi). now rewrite index_of_nth.
Qed.
Lemma row_of_remove sc : forall idx xs u, idx < length sc -> u <> nth idx sc 0 ->
    row_of (remove_at idx sc) (remove_at idx xs) u = row_of sc xs u.
Proof.
  induction sc as [|a sc IH]; intros idx xs u Hi Hne; cbn in *; [lia|]. destruct idx as [|idx].
  - destruct xs as [|x xs]; cbn; [apply row_of_nil_r|]. destruct (Nat.eqb_spec a u); [congruence | reflexivity].
  - destruct xs as [|x xs]; cbn; [reflexivity|]. destruct (Nat.eqb a u); [reflexivity|]. apply IH; [lia | exact Hne].
Qed.
Lemma memb_filter j p l : memb j (filter p l) = memb j l && p j.
Proof.
  unfold memb. induction l as [|a l IH]; cbn; [reflexivity|].
  destruct (p a) eqn:Ep; cbn; rewrite IH; destruct (Nat.eqb_spec j a) as [->|]; cbn;
    rewrite ?Ep, ?andb_false_r; reflexivity.
Qed.

Section CnetFacts.
  Variable T : Type.
  Variables (t0 t1 : T) (tadd tmul : T -> T -> T).
  Hypothesis SRth : semi_ring_theory t0 t1 tadd tmul (@eq T).
  Add Ring Tring18 : SRth.
  Infix "+" := tadd. Infix "*" := tmul.
  Notation sumT := (sumT T t0 tadd).
  Notation prodT := (prodT T t1 tmul).
  Notation clt := (clt T).
  Notation ornode := (ornode T).
  Notation osc := (osc T).
  Notation up := (up T t0 t1 tadd tmul).
  Notation vars := (vars T).
  Notation clt_tree := (clt_tree T t0).
  Notation clt_val := (clt_val T t0 t1 tadd tmul).
  Notation clt_gather := (clt_gather T t0 t1 tmul).
  Notation cnet_sem := (cnet_sem T t0 tadd tmul).
  Notation cnet_val := (cnet_val T t0 t1 tadd tmul).
  Notation cnet_gat := (cnet_gat T t0 t1 tadd tmul).
  Notation cnet_pos := (cnet_pos T t0 t1 tmul).
  Notation clt_pos := (clt_pos T t0 t1 tmul).
  Notation sum_compl := (sum_compl T t0 tadd (fun _ => dom2)).

  (* ---------- well-formedness ---------- *)
  Definition par_ok (n : nat) (p : option nat) : Prop := match p with Some j => j < n | None => True end.
  Definition leaf_wf (sc : list nat) (c : clt) : Prop :=
    cscope c = sc /\ NoDup sc /\ 0 < length sc /\ length (cpar c) = length sc /\
    Forall (par_ok (length sc)) (cpar c) /\
    NoDup (vars (clt_tree c)) /\ (forall v, In v (vars (clt_tree c)) <-> In v sc).

  (* generic in what is required of a leaf: P = leaf_wf is the full notion, P = (fun _ _ => True)
     the skeleton (scopes, cut variables, column deletion) *)
  Fixpoint wf_gen (P : list nat -> clt -> Prop) (n : ornode) : Prop :=
    match n with
    | OLeaf sc c => NoDup sc /\ sc <> [] /\ P sc c
    | OCut sc v w0 w1 l r =>
        NoDup sc /\ In v sc /\
        osc l = remove_at (index_of v sc) sc /\ osc r = remove_at (index_of v sc) sc /\
        wf_gen P l /\ wf_gen P r
    end.
  Definition wf_cnet : ornode -> Prop := wf_gen leaf_wf.

  Fixpoint norm_cnet (n : ornode) : Prop :=
    match n with
    | OLeaf _ c => rows_norm T t1 tadd (clt_tree c)
    | OCut _ _ w0 w1 l r => w0 + w1 = t1 /\ norm_cnet l /\ norm_cnet r
    end.

  Lemma wf_nodup P n : wf_gen P n -> NoDup (osc n).
  Proof. destruct n; cbn; tauto. Qed.

  (* facts about the scopes of the children of a well-formed cut *)
  Lemma cut_child_scope sc v u : NoDup sc -> In v sc ->
    (In u (remove_at (index_of v sc) sc) <-> In u sc /\ u <> v).
  Proof.
    intros Hnd Hin. rewrite (remove_at_In sc Hnd _ (index_of_lt _ _ Hin) u). now rewrite nth_index_of.
  Qed.

  (* ---------- 0. Chow-Liu message passing depends only on the tree's variables ---------- *)
  Lemma up_ext t : forall pv r r', (forall u, In u (vars t) -> r u = r' u) -> up t pv r = up t pv r'.
  Proof.
    induction t as [u cpt kids IH] using (ctree_ind' T). intros pv r r' Hag. cbn in Hag.
    assert (Hk : forall x, map (fun k => up k x r) kids = map (fun k => up k x r') kids).
    { intro x. apply map_ext_Forall. rewrite Forall_forall in *. intros k Hin. apply IH; [exact Hin|].
      intros w Hw. apply Hag. right. apply in_flat_map. eauto. }
    cbn. rewrite <- (Hag u (or_introl eq_refl)). destruct (r u); [now rewrite Hk|]. cbn. now rewrite !Hk.
  Qed.

  Definition leaf_ext (lv : clt -> row -> T) : Prop :=
    forall sc c, leaf_wf sc c -> forall r r', (forall u, In u sc -> r u = r' u) -> lv c r = lv c r'.

  Lemma clt_val_ext : leaf_ext clt_val.
  Proof.
    intros sc c (_ & _ & _ & _ & _ & _ & Hv) r r' Hag. unfold Clt.clt_val. apply up_ext.
    intros u Hu. apply Hag. now apply Hv.
  Qed.

  Lemma clt_gather_ext : leaf_ext clt_gather.
  Proof.
    intros sc c (Hsc & _ & Hpos & Hlen & Hpar & _ & _) r r' Hag. unfold Clt.clt_gather.
    assert (Hcell : forall i, i < length sc -> cell T c r i = cell T c r' i).
    { intros i Hi. unfold cell. rewrite Hsc. rewrite (Hag (nth i sc 0)); [reflexivity | now apply nth_In]. }
    f_equal. apply map_ext_in. intros i Hi. apply in_seq in Hi. rewrite Hlen in *.
    rewrite (Hcell i) by lia. f_equal.
    destruct (nth i (cpar c) None) as [p|] eqn:Ep.
    - apply Hcell. rewrite Forall_forall in Hpar. apply (Hpar (Some p)). rewrite <- Ep. apply nth_In. lia.
    - apply Hcell. lia.
  Qed.

  (* ---------- 1. the value depends only on the cells of the scope (locality) ---------- *)
  Theorem cnet_ext lv : leaf_ext lv -> forall n, wf_cnet n -> forall r r',
      (forall u, In u (osc n) -> r u = r' u) -> cnet_sem lv n r = cnet_sem lv n r'.
  Proof.
    intros Hlv. induction n as [sc c|sc v w0 w1 l IHl rr IHr]; intros Hwf r r' Hag; cbn in *.
    - destruct Hwf as (_ & _ & Hl). now apply (Hlv sc c Hl).
    - destruct Hwf as (Hnd & Hin & Hsl & Hsr & Hwl & Hwr).
      rewrite <- (Hag v Hin).
      assert (Hl : cnet_sem lv l r = cnet_sem lv l r').
      { apply IHl; [exact Hwl|]. intros u Hu. rewrite Hsl in Hu. apply Hag. now apply (cut_child_scope sc v u Hnd Hin). }
      assert (Hr : cnet_sem lv rr r = cnet_sem lv rr r').
      { apply IHr; [exact Hwr|]. intros u Hu. rewrite Hsr in Hu. apply Hag. now apply (cut_child_scope sc v u Hnd Hin). }
      now rewrite Hl, Hr.
  Qed.

  Theorem cnet_local n : wf_cnet n -> forall r v c, ~ In v (osc n) -> cnet_val n (upd r v c) = cnet_val n r.
  Proof.
    intros Hwf r v c Hn. apply (cnet_ext _ clt_val_ext n Hwf). intros u Hu.
    apply upd_other. intro; subst; contradiction.
  Qed.

  (* ---------- 2. single-variable marginalisation ---------- *)
  Theorem cnet_marg1 n : wf_cnet n -> forall r v, In v (osc n) -> r v = None ->
      cnet_val n r = sumT (map (fun x => cnet_val n (upd r v (Some x))) dom2).
  Proof.
    induction n as [sc c|sc v' w0 w1 l IHl rr IHr]; intros Hwf r v Hin Hnone.
    - destruct Hwf as (_ & _ & (_ & _ & _ & _ & _ & Hnd & Hv)). cbn in Hin.
      unfold Cnet.cnet_val. cbn [Cnet.cnet_sem]. unfold Clt.clt_val.
      apply (up_marg1 T t0 t1 tadd tmul SRth); [exact Hnd | now apply Hv | exact Hnone].
    - pose proof Hwf as Hwf0. destruct Hwf as (Hnd & Hin' & Hsl & Hsr & Hwl & Hwr). cbn in Hin.
      fold wf_cnet in Hwl, Hwr.
      destruct (Nat.eq_dec v v') as [->|Hne].
      + (* the cut variable itself: the children do not mention it *)
        assert (Hnl : ~ In v' (osc l)) by (rewrite Hsl; intro H; apply (cut_child_scope sc v' v' Hnd Hin') in H; tauto).
        assert (Hnr : ~ In v' (osc rr)) by (rewrite Hsr; intro H; apply (cut_child_scope sc v' v' Hnd Hin') in H; tauto).
        unfold Cnet.cnet_val. cbn [Cnet.cnet_sem dom2 map Core.sumT]. rewrite Hnone, !upd_same. cbn.
        fold cnet_val. rewrite (cnet_local l Hwl r v' _ Hnl), (cnet_local rr Hwr r v' _ Hnr). ring.
      + assert (Hil : In v (osc l)) by (rewrite Hsl; now apply (cut_child_scope sc v' v Hnd Hin')).
        assert (Hir : In v (osc rr)) by (rewrite Hsr; now apply (cut_child_scope sc v' v Hnd Hin')).
        pose proof (IHl Hwl r v Hil Hnone) as El. pose proof (IHr Hwr r v Hir Hnone) as Er.
        cbn [dom2 map Core.sumT] in *.
        unfold Cnet.cnet_val in *. cbn [Cnet.cnet_sem]. rewrite !upd_other by congruence.
        destruct (r v') as [y|].
        * destruct (Z.eqb y 0); [rewrite El; ring|]. destruct (Z.eqb y 1); [rewrite Er; ring | ring].
        * rewrite El, Er. ring.
  Qed.

  (* ---------- 3. all-missing rows evaluate to one ---------- *)
  Theorem cnet_all_missing n : wf_cnet n -> norm_cnet n -> forall r,
      (forall v, In v (osc n) -> r v = None) -> cnet_val n r = t1.
  Proof.
    induction n as [sc c|sc v w0 w1 l IHl rr IHr]; intros Hwf Hnorm r Hmiss.
    - destruct Hwf as (_ & _ & (_ & _ & _ & _ & _ & _ & Hv)). cbn in *.
      unfold Cnet.cnet_val. cbn. unfold Clt.clt_val.
      apply (up_all_missing T t0 t1 tadd tmul SRth); [exact Hnorm | cbn; auto |].
      intros u Hu. apply Hmiss. now apply Hv.
    - destruct Hwf as (Hnd & Hin & Hsl & Hsr & Hwl & Hwr). destruct Hnorm as (Hw & Hnl & Hnr). cbn in Hmiss.
      unfold Cnet.cnet_val in *. cbn [Cnet.cnet_sem]. rewrite (Hmiss v Hin).
      rewrite IHl, IHr; auto.
      + transitivity (w0 + w1); [ring | exact Hw].
      + intros u Hu. apply Hmiss. rewrite Hsr in Hu. now apply (cut_child_scope sc v u Hnd Hin).
      + intros u Hu. apply Hmiss. rewrite Hsl in Hu. now apply (cut_child_scope sc v u Hnd Hin).
  Qed.

  (* ---------- iteration (generic: any function of rows with fact 2 on a set of variables) ---------- *)
  Lemma iter_marg_fn (f : row -> T) (sc : list nat) :
    (forall r v, In v sc -> r v = None -> f r = sumT (map (fun x => f (upd r v (Some x))) dom2)) ->
    forall vs, NoDup vs -> forall r, (forall v, In v vs -> In v sc /\ r v = None) -> f r = sum_compl vs f r.
  Proof.
    intros Hm vs Hnd. induction Hnd as [|v vs Hnin Hnd IH]; intros r Hall; [reflexivity|].
    cbn [Core.sum_compl]. destruct (Hall v (or_introl eq_refl)) as [Hin Hnone].
    rewrite (Hm r v Hin Hnone). f_equal. apply map_ext. intros x.
    apply IH. intros u Hu. destruct (Hall u (or_intror Hu)) as [Hus Hun]. split; [exact Hus|].
    rewrite upd_other; [exact Hun | intro; subst; contradiction].
  Qed.

  (* the value on a row with missing cells is the sum over all completions *)
  Theorem cnet_marginal n : wf_cnet n -> forall vs, NoDup vs -> forall r,
      (forall v, In v vs -> In v (osc n) /\ r v = None) -> cnet_val n r = sum_compl vs (cnet_val n) r.
  Proof. intros Hwf. apply (iter_marg_fn (cnet_val n) (osc n)). apply (cnet_marg1 n Hwf). Qed.

  (* total mass over all binary rows = value of the all-missing row (no normalisation needed) *)
  Theorem cnet_total_mass n : wf_cnet n -> sum_compl (osc n) (cnet_val n) row_none = cnet_val n row_none.
  Proof.
    intros Hwf. symmetry. apply (cnet_marginal n Hwf (osc n) (wf_nodup _ n Hwf) row_none).
    intros v Hv. split; [exact Hv | reflexivity].
  Qed.

  Theorem cnet_normalised n : wf_cnet n -> norm_cnet n -> sum_compl (osc n) (cnet_val n) row_none = t1.
  Proof.
    intros Hwf Hn. rewrite (cnet_total_mass n Hwf). apply (cnet_all_missing n Hwf Hn). reflexivity.
  Qed.
End CnetFacts.

Section CnetCode.
  Variable T : Type.
  Variables (t0 t1 : T) (tadd tmul : T -> T -> T).
  Hypothesis SRth : semi_ring_theory t0 t1 tadd tmul (@eq T).
  Add Ring Tring18b : SRth.
  Infix "+" := tadd. Infix "*" := tmul.
  Notation prodT := (prodT T t1 tmul).
  Notation clt := (clt T).
  Notation ornode := (ornode T).
  Notation osc := (osc T).
  Notation osize := (osize T).
  Notation clt_gather := (clt_gather T t0 t1 tmul).
  Notation cnet_gat := (cnet_gat T t0 t1 tadd tmul).
  Notation cnet_pos := (cnet_pos T t0 t1 tmul).
  Notation clt_pos := (clt_pos T t0 t1 tmul).
  Notation wf_cnet := (wf_cnet T t0).
  Notation wf_gen := (wf_gen T).
  Notation leaf_wf := (leaf_wf T t0).
  Notation bfs := (bfs T t0 t1 tmul).
  Notation mul_at := (mul_at T tmul).
  Notation item := (item T).

  Definition binary (xs : list Z) : Prop := Forall (fun x => x = 0%Z \/ x = 1%Z) xs.

  (* ---------- positional evaluation of the code = OR-tree semantics ---------- *)
  Lemma clt_pos_gather sc c xs : leaf_wf sc c -> length xs = length sc ->
      clt_pos c xs = clt_gather c (row_of sc xs).
  Proof.
    intros (Hsc & Hnd & Hpos & Hlen & Hpar & _ & _) Hxs. unfold Cnet.clt_pos, Clt.clt_gather.
    assert (Hcell : forall i, i < length sc -> cell T c (row_of sc xs) i = nth i xs 0%Z).
    { intros i Hi. unfold cell. rewrite Hsc, (row_of_nth sc Hnd xs i Hi).
      now rewrite (nth_error_nth' xs 0%Z) by lia. }
    f_equal. apply map_ext_in. intros i Hi. apply in_seq in Hi. rewrite Hlen in *.
    rewrite (Hcell i) by lia. f_equal.
    destruct (nth i (cpar c) None) as [p|] eqn:Ep.
    - symmetry. apply Hcell. rewrite Forall_forall in Hpar. apply (Hpar (Some p)). rewrite <- Ep. apply nth_In. lia.
    - symmetry. apply Hcell. lia.
  Qed.

  Theorem cnet_pos_sem n : wf_cnet n -> forall xs, length xs = length (osc n) -> binary xs ->
      cnet_pos n xs = cnet_gat n (row_of (osc n) xs).
  Proof.
    induction n as [sc c|sc v w0 w1 l IHl rr IHr]; intros Hwf xs Hlen Hbin.
    - destruct Hwf as (_ & _ & Hl). cbn in *. unfold Cnet.cnet_gat. cbn. now apply clt_pos_gather.
    - pose proof Hwf as Hwf0. destruct Hwf as (Hnd & Hin & Hsl & Hsr & Hwl & Hwr). cbn in Hlen.
      set (idx := index_of v sc) in *.
      assert (Hidx : idx < length sc) by (apply index_of_lt; exact Hin).
      assert (Hv : nth idx sc 0 = v) by (apply nth_index_of; exact Hin).
      assert (Hk : forall k, (forall ys, length ys = length (osc k) -> binary ys ->
                                   cnet_pos k ys = cnet_gat k (row_of (osc k) ys)) ->
                        wf_cnet k -> osc k = remove_at idx sc ->
                        cnet_pos k (remove_at idx xs) = cnet_gat k (row_of sc xs)).
      { intros k IH Hwk Hsk. rewrite IH.
        - unfold Cnet.cnet_gat. apply (cnet_ext T t0 tadd tmul _ (clt_gather_ext T t0 t1 tmul) k Hwk).
          intros u Hu. rewrite Hsk in *. apply row_of_remove; [exact Hidx|].
          rewrite Hv. apply (cut_child_scope sc v u Hnd Hin) in Hu. tauto.
        - rewrite Hsk, !remove_at_length by lia. lia.
        - now apply Forall_remove_at. }
      cbn [Cnet.cnet_pos]. fold idx. unfold Cnet.cnet_gat. cbn [Cnet.cnet_sem osc Cnet.osc].
      rewrite (row_of_index sc xs v Hin). fold idx.
      destruct (nth_error xs idx) as [x|] eqn:Ex.
      2:{ apply nth_error_None in Ex. lia. }
      assert (Hx : x = 0%Z \/ x = 1%Z).
      { unfold binary in Hbin. rewrite Forall_forall in Hbin. apply Hbin. eapply nth_error_In; eauto. }
      destruct Hx as [->| ->]; cbn.
      + f_equal. apply (Hk l (IHl Hwl) Hwl Hsl).
      + f_equal. apply (Hk rr (IHr Hwr) Hwr Hsr).
  Qed.

  (* ---------- the FIFO batch evaluation = row-wise positional evaluation ---------- *)
  Variable X : matrix.
  Definition ifactor (it : item) (j : nat) : T :=
    if memb j (fst (snd it)) then cnet_pos (fst it) (prow X (snd (snd it)) j) else t1.
  Fixpoint qsize (q : list item) : nat :=
    match q with [] => 0 | it :: q' => Nat.add (osize (fst it)) (qsize q') end.
  Lemma osize_pos n : 0 < osize n. Proof. destruct n; cbn; lia. Qed.
  Lemma qsize_app q1 q2 : qsize (q1 ++ q2) = Nat.add (qsize q1) (qsize q2).
  Proof. induction q1 as [|a q1 IH]; cbn; [reflexivity | rewrite IH; lia]. Qed.
  Lemma prodT_app' l1 l2 : prodT (l1 ++ l2) = prodT l1 * prodT l2.
  Proof. induction l1 as [|x l1 IH]; cbn; [ring | rewrite IH; ring]. Qed.

  Lemma bfs_spec : forall fuel q acc, qsize q <= fuel -> forall j,
      bfs fuel X q acc j = acc j * prodT (map (fun it => ifactor it j) q).
  Proof.
    induction fuel as [|f IH]; intros q acc Hsz j.
    - destruct q as [|[n p] q]; cbn in *; [ring|]. pose proof (osize_pos n). lia.
    - destruct q as [|[n [ris cis]] q]; [cbn; ring|]. cbn [qsize fst] in Hsz.
      destruct n as [sc c|sc v w0 w1 l r]; cbn [Cnet.bfs].
      + rewrite IH by (cbn in Hsz; lia). cbn [map Core.prodT]. unfold ifactor at 2. cbn [fst snd Cnet.cnet_pos].
        unfold Cnet.mul_at. destruct (memb j ris); ring.
      + rewrite IH.
        2:{ rewrite qsize_app. cbn in *. lia. }
        rewrite map_app, prodT_app'. cbn [map Core.prodT]. unfold ifactor at 2 3 4. cbn [fst snd Cnet.cnet_pos].
        unfold Cnet.mul_at. rewrite !memb_filter.
        replace (prow X (remove_at (index_of v sc) cis) j) with (remove_at (index_of v sc) (prow X cis j))
          by (unfold prow; apply remove_at_map).
        destruct (memb j ris); cbn [andb]; [|ring].
        destruct (nth_error (prow X cis j) (index_of v sc)) as [x|]; cbn [opt_is]; [|ring].
        destruct (Z.eqb_spec x 0) as [->|H0]; cbn; [ring|].
        destruct (Z.eqb x 1); ring.
  Qed.

  Lemma memb_seq j n : j < n -> memb j (seq 0 n) = true.
  Proof. intros H. apply memb_In. apply in_seq. lia. Qed.

  Theorem cnet_batch_rowwise c w :
    cnet_batch T t0 t1 tmul c X w = map (fun i => cnet_pos c (prow X (seq 0 w) i)) (seq 0 (length X)).
  Proof.
    unfold Cnet.cnet_batch. apply map_ext_in. intros j Hj. apply in_seq in Hj.
    rewrite bfs_spec by (cbn; lia). cbn [map Core.prodT]. unfold ifactor. cbn [fst snd].
    rewrite memb_seq by lia. ring.
  Qed.
End CnetCode.

(* ---------- learner skeleton: well-formed for every oracle ---------- *)
Section GrowFacts.
  Variable T : Type.
  Variables (t0 t1 : T) (tadd : T -> T -> T).
  Notation clt := (clt T).
  Notation ornode := (ornode T).
  Notation osc := (osc T).
  Variable choose : list nat -> list nat -> list nat -> option nat.
  Variable weight0 : list nat -> list nat -> T.
  Variable tsub : T -> T -> T.
  Variable fitclt : list nat -> list nat -> list nat -> clt.
  Variable X : matrix.
  Notation grow := (grow T t1 choose weight0 tsub fitclt X).
  Variable P : list nat -> clt -> Prop.
  Hypothesis Hfit : forall sc ris cis, NoDup sc -> sc <> [] -> P sc (fitclt sc ris cis).

  Theorem grow_wf : forall fuel sc ris cis, NoDup sc -> sc <> [] ->
      wf_gen T P (grow fuel sc ris cis) /\ osc (grow fuel sc ris cis) = sc.
  Proof.
    induction fuel as [|f IH]; intros sc ris cis Hnd Hne.
    - cbn. auto.
    - cbn [Cnet.grow]. destruct (choose sc ris cis) as [idx|]; [|cbn; auto].
      destruct (Nat.leb (length sc) 1 || negb (Nat.ltb idx (length sc))) eqn:E; [cbn; auto|].
      apply orb_false_iff in E. destruct E as [E1 E2]. apply Nat.leb_gt in E1.
      apply negb_false_iff in E2. apply Nat.ltb_lt in E2.
      assert (Hnd' : NoDup (remove_at idx sc)) by (now apply remove_at_NoDup).
      assert (Hne' : remove_at idx sc <> []).
      { intro H. pose proof (remove_at_length sc idx E2) as Hl. rewrite H in Hl. cbn in Hl. lia. }
      cbn [wf_gen Cnet.osc]. rewrite (index_of_nth sc Hnd idx E2).
      destruct (IH (remove_at idx sc)
                   (filter (fun i => Z.eqb (mcell X i (nth idx cis 0)) 0%Z) ris) (remove_at idx cis) Hnd' Hne') as [Hl1 Hl2].
      destruct (IH (remove_at idx sc)
                   (filter (fun i => Z.eqb (mcell X i (nth idx cis 0)) 1%Z) ris) (remove_at idx cis) Hnd' Hne') as [Hr1 Hr2].
      repeat split; auto. apply nth_In. exact E2.
  Qed.

  Hypothesis Hsub : forall a, tadd a (tsub t1 a) = t1.
  Hypothesis Hfit_norm : forall sc ris cis, rows_norm T t1 tadd (clt_tree T t0 (fitclt sc ris cis)).
  Theorem grow_norm : forall fuel sc ris cis, norm_cnet T t0 t1 tadd (grow fuel sc ris cis).
  Proof.
    induction fuel as [|f IH]; intros sc ris cis; [cbn; apply Hfit_norm|].
    cbn [Cnet.grow]. destruct (choose sc ris cis) as [idx|]; [|cbn; apply Hfit_norm].
    destruct (Nat.leb (length sc) 1 || negb (Nat.ltb idx (length sc))); [cbn; apply Hfit_norm|].
    cbn [norm_cnet]. repeat split; auto.
  Qed.

  (* copying the temporary root's attributes into `self` (incl. clt) loses nothing *)
  Lemma fit_self_id (root : ornode) : fit_self T root = Some root.
  Proof. destruct root; reflexivity. Qed.

  Theorem fit_wf : forall fuel sc ris cis, NoDup sc -> sc <> [] ->
      exists c, fit_self T (grow fuel sc ris cis) = Some c /\ wf_gen T P c /\ osc c = sc.
  Proof.
    intros fuel sc ris cis Hnd Hne. exists (grow fuel sc ris cis). split; [apply fit_self_id|].
    now apply grow_wf.
  Qed.

  (* the learner decides not to split at the root: the object is the leaf with the fitted tree *)
  Lemma fit_root_unsplit fuel sc ris cis : choose sc ris cis = None ->
      fit_self T (grow fuel sc ris cis) = Some (OLeaf sc (fitclt sc ris cis)).
  Proof. intros H. destruct fuel; cbn [Cnet.grow]; [|rewrite H]; reflexivity. Qed.
End GrowFacts.

(* ---------- certificate soundness ---------- *)
Section CnetCheck.
  Variable T : Type.
  Variables (t0 t1 : T) (tadd : T -> T -> T).
  Variable teqb : T -> T -> bool.
  Hypothesis teqb_sound : forall a b, teqb a b = true -> a = b.
  Notation ornode := (ornode T).

  Lemma par_okb_sound n p : par_okb n p = true -> par_ok n p.
  Proof. destruct p; cbn; [apply Nat.ltb_lt | trivial]. Qed.

  Lemma leaf_wfb_sound sc c : leaf_wfb T t0 sc c = true -> leaf_wf T t0 sc c.
  Proof.
    unfold leaf_wfb, leaf_wf. rewrite !andb_true_iff.
    intros [[[[[[[H1 H2] H3] H4] H5] H6] H7] H8].
    apply natlist_eqb_sound in H1. apply nodupb_sound in H2. apply Nat.ltb_lt in H3. apply Nat.eqb_eq in H4.
    apply nodupb_sound in H6. pose proof (subsetb_sound _ _ H7). pose proof (subsetb_sound _ _ H8).
    repeat split; auto.
    rewrite Forall_forall. rewrite forallb_forall in H5. intros p Hp. now apply par_okb_sound, H5.
  Qed.

  Theorem wf_cnetb_sound (n : ornode) : wf_cnetb T t0 n = true -> wf_cnet T t0 n.
  Proof.
    induction n as [sc c|sc v w0 w1 l IHl r IHr]; cbn.
    - intros H. pose proof (leaf_wfb_sound sc c H) as Hl. split; [apply Hl|]. split; [|exact Hl].
      destruct Hl as (_ & _ & Hpos & _). intro; subst; cbn in Hpos; lia.
    - rewrite !andb_true_iff. intros [[[[[H1 H2] H3] H4] H5] H6].
      apply nodupb_sound in H1. apply memb_In in H2. apply natlist_eqb_sound in H3, H4. repeat split; auto.
  Qed.

  Theorem norm_cnetb_sound (n : ornode) : norm_cnetb T t0 t1 tadd teqb n = true -> norm_cnet T t0 t1 tadd n.
  Proof.
    induction n as [sc c|sc v w0 w1 l IHl r IHr]; cbn.
    - apply (rows_normb_sound T t1 tadd teqb teqb_sound).
    - rewrite !andb_true_iff. intros [[H1 H2] H3]. repeat split; auto.
  Qed.
End CnetCheck.

(* ---------- the semantics, unfolded ---------- *)
Section CnetUnfold.
  Variable T : Type.
  Variables (t0 t1 : T) (tadd tmul : T -> T -> T).
  Notation cnet_val := (cnet_val T t0 t1 tadd tmul).
  Lemma cnet_val_leaf sc c r : cnet_val (OLeaf sc c) r = clt_val T t0 t1 tadd tmul c r.
  Proof. reflexivity. Qed.
  Lemma cnet_val_cut0 sc v w0 w1 l rr r : r v = Some 0%Z ->
    cnet_val (OCut sc v w0 w1 l rr) r = tmul w0 (cnet_val l r).
  Proof. intros H. unfold Cnet.cnet_val. cbn. now rewrite H. Qed.
  Lemma cnet_val_cut1 sc v w0 w1 l rr r : r v = Some 1%Z ->
    cnet_val (OCut sc v w0 w1 l rr) r = tmul w1 (cnet_val rr r).
  Proof. intros H. unfold Cnet.cnet_val. cbn. now rewrite H. Qed.
  Lemma cnet_val_cut_missing sc v w0 w1 l rr r : r v = None ->
    cnet_val (OCut sc v w0 w1 l rr) r = tadd (tmul w0 (cnet_val l r)) (tmul w1 (cnet_val rr r)).
  Proof. intros H. unfold Cnet.cnet_val. cbn. now rewrite H. Qed.
End CnetUnfold.

(* ---------- gather leaves = message-passing leaves on rows complete on the scope ---------- *)
Section CnetGather.
  Variable T : Type.
  Variables (t0 t1 : T) (tadd tmul : T -> T -> T).
  Hypothesis SRth : semi_ring_theory t0 t1 tadd tmul (@eq T).
  Notation clt := (clt T).
  Notation ornode := (ornode T).
  Notation osc := (osc T).
  Notation cnet_val := (cnet_val T t0 t1 tadd tmul).
  Notation cnet_gat := (cnet_gat T t0 t1 tadd tmul).
  Notation cnet_pos := (cnet_pos T t0 t1 tmul).
  Notation wf_cnet := (wf_cnet T t0).
  Notation leaf_wf := (leaf_wf T t0).

  Definition root_ok (c : clt) : Prop :=
    nth (croot T c) (cpar c) None = None /\
    (forall y, cpt_fn T t0 c (croot T c) 1%Z y = cpt_fn T t0 c (croot T c) 0%Z y).
  Fixpoint groot_ok (n : ornode) : Prop :=
    match n with
    | OLeaf _ c => root_ok c
    | OCut _ _ _ _ l r => groot_ok l /\ groot_ok r
    end.

  Lemma leaf_wf_gwf sc c : leaf_wf sc c -> root_ok c -> clt_gwf T t0 c.
  Proof.
    intros (Hsc & Hnd & Hpos & Hlen & _ & Hndv & Hv) [Hr Hrows]. unfold clt_gwf.
    assert (Hl : length (vars T (clt_tree T t0 c)) = length sc).
    { apply Permutation_length. apply NoDup_Permutation; assumption. }
    rewrite Hsc, Hlen, Hl. repeat split; auto.
  Qed.

  Theorem cnet_gat_val n : wf_cnet n -> groot_ok n -> forall r,
      (forall v, In v (osc n) -> r v <> None) -> cnet_gat n r = cnet_val n r.
  Proof.
    induction n as [sc c|sc v w0 w1 l IHl rr IHr]; intros Hwf Hg r Hc.
    - destruct Hwf as (_ & _ & Hl). cbn in Hc, Hg. unfold Cnet.cnet_gat, Cnet.cnet_val. cbn [Cnet.cnet_sem].
      apply (clt_gather_val T t0 t1 tadd tmul SRth c (leaf_wf_gwf sc c Hl Hg)).
      destruct Hl as (Hsc & _). rewrite Hsc. unfold complete_on. apply forallb_forall. intros u Hu.
      specialize (Hc u Hu). destruct (r u); [reflexivity | congruence].
    - destruct Hwf as (Hnd & Hin & Hsl & Hsr & Hwl & Hwr). destruct Hg as [Hgl Hgr]. cbn in Hc.
      assert (El : cnet_gat l r = cnet_val l r).
      { apply IHl; auto. intros u Hu. apply Hc. rewrite Hsl in Hu. now apply (cut_child_scope sc v u Hnd Hin). }
      assert (Er : cnet_gat rr r = cnet_val rr r).
      { apply IHr; auto. intros u Hu. apply Hc. rewrite Hsr in Hu. now apply (cut_child_scope sc v u Hnd Hin). }
      unfold Cnet.cnet_gat, Cnet.cnet_val in *. cbn [Cnet.cnet_sem]. now rewrite El, Er.
  Qed.

  Lemma row_of_complete sc xs v : length xs = length sc -> In v sc -> row_of sc xs v <> None.
  Proof.
    intros Hl Hin. rewrite (row_of_index sc xs v Hin). intro H. apply nth_error_None in H.
    pose proof (index_of_lt v sc Hin). lia.
  Qed.

  (* the code's positional evaluation is the OR-tree semantics with message-passing leaves *)
  Theorem cnet_pos_val n : wf_cnet n -> groot_ok n -> forall xs, length xs = length (osc n) -> binary xs ->
      cnet_pos n xs = cnet_val n (row_of (osc n) xs).
  Proof.
    intros Hwf Hg xs Hl Hb. rewrite (cnet_pos_sem T t0 t1 tadd tmul n Hwf xs Hl Hb).
    apply (cnet_gat_val n Hwf Hg). intros v Hv. now apply row_of_complete.
  Qed.

  Variable teqb : T -> T -> bool.
  Hypothesis teqb_sound : forall a b, teqb a b = true -> a = b.
  Theorem groot_okb_sound (n : ornode) : groot_okb T t0 teqb n = true -> groot_ok n.
  Proof.
    induction n as [sc c|sc v w0 w1 l IHl r IHr]; cbn.
    - apply (root_rows_eqb_sound T t0 teqb teqb_sound c).
    - rewrite andb_true_iff. intros [H1 H2]. auto.
  Qed.
End CnetGather.
