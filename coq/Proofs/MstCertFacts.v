(* Proofs/MstCertFacts.v — soundness of the cycle-property certificate (Model/MstCert.v) for EVERY number of vertices:
   an accepted predecessor vector is a rooted spanning tree and every rooted spanning tree weighs at most as much,
   up to (n-1) * eps. *)
From Coq Require Import List Arith ZArith Bool Lia.
From DV Require Import Model.ChowLiu Proofs.ChowLiuTree Model.MstCert.
From DV Require Import Proofs.MstLayer Proofs.MstClasses.
Import ListNotations.
Local Open Scope nat_scope.

Lemma filter_eqb_none root : forall m s, root < s -> filter (fun i => Nat.eqb i root) (seq s m) = [].
Proof. induction m as [|m IH]; intros s Hs; [reflexivity|]. cbn. destruct (Nat.eqb_spec s root); [lia|]. apply IH. lia. Qed.
Lemma filter_eqb_one root : forall m s, s <= root < s + m -> length (filter (fun i => Nat.eqb i root) (seq s m)) = 1.
Proof.
  induction m as [|m IH]; intros s Hs; [lia|]. cbn [seq filter]. destruct (Nat.eqb_spec s root) as [->|Hne].
  - cbn [length]. rewrite filter_eqb_none by lia. reflexivity.
  - apply IH. lia.
Qed.

Section Weights.
  Variable w : nat -> nat -> Z.

  (* the edge weights of a predecessor vector, in index order *)
  Fixpoint ews_from (i : nat) (q : list (option nat)) : list Z :=
    match q with
    | [] => []
    | None :: tl => ews_from (S i) tl
    | Some j :: tl => w i j :: ews_from (S i) tl
    end.
  Lemma weight_from_lsum q : forall i, weight_from w i q = lsum (ews_from i q).
  Proof. induction q as [|[j|] q IH]; intros i; cbn; [reflexivity | now rewrite IH | apply IH]. Qed.

  Definition edge_of (q : list (option nat)) (i : nat) : list Z :=
    match par_of q i with Some j => [w i j] | None => [] end.
  Lemma ews_flat q : forall i, ews_from i q =
      flat_map (fun k => match nth k q None with Some j => [w (i + k) j] | None => [] end) (seq 0 (length q)).
  Proof.
    induction q as [|a q IH]; intros i; [reflexivity|]. cbn [length seq flat_map nth]. rewrite Nat.add_0_r.
    rewrite <- seq_shift, flat_map_concat_map, map_map, <- flat_map_concat_map.
    rewrite (flat_map_ext _ (fun k => match nth k q None with Some j => [w (S i + k) j] | None => [] end))
      by (intros k; cbn [nth]; now rewrite Nat.add_succ_r).
    rewrite <- IH. destruct a; reflexivity.
  Qed.
  Lemma ews_edges q n : length q = n -> ews_from 0 q = flat_map (edge_of q) (seq 0 n).
  Proof. intros <-. rewrite ews_flat. reflexivity. Qed.

  Lemma cge_app s a b : cge s (a ++ b) = (cge s a + cge s b)%Z.
  Proof. induction a as [|x a IH]; cbn; [reflexivity | rewrite IH; lia]. Qed.
  Definition heavy (q : list (option nat)) (s : Z) (i : nat) : bool :=
    match par_of q i with Some j => Z.leb s (w i j) | None => false end.
  Lemma cge_edges q s l : cge s (flat_map (edge_of q) l) = Z.of_nat (length (filter (heavy q s) l)).
  Proof.
    induction l as [|i l IH]; [reflexivity|]. cbn [flat_map filter]. rewrite cge_app, IH. unfold edge_of, heavy.
    destruct (par_of q i) as [j|]; cbn [cge]; [|lia]. destruct (Z.leb s (w i j)); cbn [length]; lia.
  Qed.
  Lemma len_edges q l : length (flat_map (edge_of q) l) = length (filter (fun i => match par_of q i with Some _ => true | None => false end) l).
  Proof.
    induction l as [|i l IH]; [reflexivity|]. cbn [flat_map filter]. rewrite app_length, IH. unfold edge_of.
    destruct (par_of q i); reflexivity.
  Qed.

  Variables (n root : nat).
  Lemma tree_edge_count q : is_tree n root q = true ->
      length (flat_map (edge_of q) (seq 0 n)) = length (filter (fun i => negb (Nat.eqb i root)) (seq 0 n)).
  Proof.
    intros Hq. rewrite len_edges. f_equal. apply filter_ext_in. intros i Hi. apply in_seq in Hi.
    destruct (Nat.eqb_spec i root) as [->|Hne].
    - destruct (q_root n root q Hq) as [_ Hr]. now rewrite Hr.
    - destruct (q_other n root q Hq i ltac:(lia) Hne) as [j [E _]]. now rewrite E.
  Qed.

  (* ---------- the theorem ---------- *)
  Variable p : list (option nat).
  Variable eps : Z.
  Hypothesis Hcert : mst_cert w p n root eps = true.

  Lemma cert_tree : is_tree n root p = true. Proof. unfold mst_cert in Hcert. apply andb_true_iff in Hcert. tauto. Qed.
  Lemma cert_cp u v : u < n -> v < n -> u <> v -> T w n p (w u v - eps) u = T w n p (w u v - eps) v.
  Proof.
    intros Hu Hv Hne. unfold mst_cert in Hcert. apply andb_true_iff in Hcert. destruct Hcert as [_ Hc].
    unfold cp_ok in Hc. rewrite forallb_forall in Hc. specialize (Hc u ltac:(apply in_seq; lia)).
    rewrite forallb_forall in Hc. specialize (Hc v ltac:(apply in_seq; lia)).
    apply orb_true_iff in Hc. destruct Hc as [Hc|Hc]; [apply Nat.eqb_eq in Hc; contradiction | now apply Nat.eqb_eq in Hc].
  Qed.

  Lemma heavy_count p' s : is_tree n root p' = true ->
      length (filter (heavy p' (s + eps)) (seq 0 n)) <= length (filter (heavy p s) (seq 0 n)).
  Proof.
    intros Hp'. pose proof cert_tree as Hp.
    set (R := filter (cutb w p s) (seq 0 n)).
    assert (HR : forall c, In c R -> c < n /\ T w n p s c = c).
    { intros c Hc. apply filter_In in Hc. destruct Hc as [Hc Hcut]. apply in_seq in Hc. split; [lia|]. apply (T_fix w n root p Hp s c); [lia | exact Hcut]. }
    pose proof (class_bound w n root (T w n p s) R (NoDup_filter _ (seq_NoDup n 0)) HR p' Hp') as Hb.
    assert (Hcount : length (filter (heavy p s) (seq 0 n)) + length R = n).
    { unfold R. pose proof (filter_partition (cutb w p s) (seq 0 n)) as H. rewrite seq_length in H.
      rewrite <- H at 3. rewrite Nat.add_comm. f_equal. f_equal. apply filter_ext. intros i. unfold heavy, cutb.
      destruct (par_of p i) as [j|]; [|reflexivity]. destruct (Z.leb_spec s (w i j)), (Z.ltb_spec (w i j) s); try reflexivity; lia. }
    assert (Hin : length (filter (heavy p' (s + eps)) (seq 0 n)) <= length (filter (inside root (T w n p s) p') (seq 0 n))).
    { apply filter_le. intros i Hi Hh. apply in_seq in Hi. unfold heavy in Hh. unfold inside.
      destruct (par_of p' i) as [j|] eqn:E; [|discriminate]. destruct (q_par_lt n root p' Hp' i j ltac:(lia) E) as [Hj Hne].
      apply Z.leb_le in Hh. apply andb_true_iff. split; [destruct (Nat.eqb_spec i root); [contradiction | reflexivity]|].
      apply Nat.eqb_eq. destruct (Nat.eq_dec i j) as [->|Hij]; [reflexivity|].
      destruct (q_span n root p Hp i ltac:(lia)) as [ki [_ Hai]]. destruct (q_span n root p Hp j Hj) as [kj [_ Haj]].
      rewrite <- (T_mono w n root p Hp s (w i j - eps) ltac:(lia) kj j Haj Hj).
      rewrite <- (T_mono w n root p Hp s (w i j - eps) ltac:(lia) ki i Hai ltac:(lia)).
      f_equal. symmetry. apply cert_cp; lia. }
    lia.
  Qed.

  (* every rooted spanning tree weighs at most the certified one plus (n-1) * eps *)
  Theorem mst_cert_sound : forall p', is_tree n root p' = true ->
      (weight w p' <= weight w p + Z.of_nat (n - 1) * eps)%Z.
  Proof.
    intros p' Hp'. pose proof cert_tree as Hp. unfold weight. rewrite !weight_from_lsum.
    rewrite (ews_edges p' n (q_len n root p' Hp')), (ews_edges p n (q_len n root p Hp)).
    assert (Hlen : length (flat_map (edge_of p') (seq 0 n)) = length (flat_map (edge_of p) (seq 0 n)))
      by (now rewrite !tree_edge_count).
    pose proof (dom_sum_eps _ _ eps Hlen) as H.
    assert (Hn1 : length (flat_map (edge_of p) (seq 0 n)) = n - 1).
    { rewrite (tree_edge_count p Hp). destruct (q_root n root p Hp) as [Hr _].
      pose proof (filter_partition (fun i => Nat.eqb i root) (seq 0 n)) as Hpart. rewrite seq_length in Hpart.
      assert (Hone : length (filter (fun i => Nat.eqb i root) (seq 0 n)) = 1) by (apply filter_eqb_one; lia).
      lia. }
    rewrite Hn1 in H. apply H. intros s. rewrite !cge_edges. apply inj_le. now apply heavy_count.
  Qed.
End Weights.
