(* Proofs/CoreFacts.v — the shared theory of DESIGN.md §4 for every commutative semiring:
   prefix stability, validity, locality, single-variable marginalisation, iteration over the
   missing variables, all-missing = one. *)
From Coq Require Import List Arith ZArith Ring Lia Bool.
From DV Require Import Model.Core.
Import ListNotations.

Section CoreFacts.
  Variable T : Type.
  Variables (t0 t1 : T) (tadd tmul : T -> T -> T).
  Hypothesis SRth : semi_ring_theory t0 t1 tadd tmul (@eq T).
  Add Ring Tring : SRth.
  Infix "+" := tadd. Infix "*" := tmul.
  Variable dom : nat -> list Z.
  Variable leaf : Type.
  Variable leaf_val : leaf -> row -> T.

  Notation sumT := (sumT T t0 tadd).
  Notation prodT := (prodT T t1 tmul).
  Notation dotT := (dotT T t0 tadd tmul).
  Notation node := (node T leaf).
  Notation table := (table T leaf).
  Notation node_val := (node_val T t0 t1 tadd tmul leaf leaf_val).
  Notation vals := (vals T t0 t1 tadd tmul leaf leaf_val).
  Notation val := (val T t0 t1 tadd tmul leaf leaf_val).
  Notation scope_of := (scope_of T leaf).
  Notation sum_compl := (sum_compl T t0 tadd dom).

  Lemma vals_snoc (t : table) n r : vals (t ++ [n]) r = vals t r ++ [node_val n (vals t r) r].
  Proof. unfold Core.vals. rewrite fold_left_app. reflexivity. Qed.

  Lemma vals_length (t : table) r : length (vals t r) = length t.
  Proof.
    induction t as [|n t IH] using rev_ind; [reflexivity|].
    rewrite vals_snoc, !app_length, IH. reflexivity.
  Qed.

  Lemma vals_prefix (t t' : table) r i :
    i < length t -> nth i (vals (t ++ t') r) t0 = nth i (vals t r) t0.
  Proof.
    induction t' as [|n t' IH] using rev_ind; intros Hi.
    - now rewrite app_nil_r.
    - rewrite app_assoc, vals_snoc, app_nth1; [auto|].
      rewrite vals_length, app_length. lia.
  Qed.

  Definition seteq (a b : list nat) := forall x, In x a <-> In x b.

  Definition leaf_local (l : leaf) (sc : list nat) :=
    forall r v c, ~ In v sc -> leaf_val l (upd r v c) = leaf_val l r.
  Definition leaf_marg (l : leaf) (sc : list nat) :=
    forall r v, In v sc -> r v = None ->
      leaf_val l r = sumT (map (fun x => leaf_val l (upd r v (Some x))) (dom v)).
  Definition leaf_one (l : leaf) (sc : list nat) :=
    forall r, (forall v, In v sc -> r v = None) -> leaf_val l r = t1.

  (* smooth + decomposable, children before parents *)
  Definition node_ok (t : table) (n : node) : Prop :=
    Forall (fun k => k < length t) (nkids n) /\
    match nkind n with
    | KLeaf l => leaf_local l (nscope n) /\ leaf_marg l (nscope n)
    | KSum ws => length ws = length (nkids n) /\
                 Forall (fun k => seteq (scope_of t k) (nscope n)) (nkids n)
    | KProd => (forall v, In v (nscope n) <-> exists k, In k (nkids n) /\ In v (scope_of t k)) /\
               (forall i j, i < j < length (nkids n) ->
                  forall v, In v (scope_of t (nth i (nkids n) 0)) ->
                            ~ In v (scope_of t (nth j (nkids n) 0)))
    end.

  Inductive valid : table -> Prop :=
  | valid_nil : valid []
  | valid_snoc t n : valid t -> node_ok t n -> valid (t ++ [n]).

  (* normalised parameters *)
  Definition node_norm (n : node) : Prop :=
    match nkind n with
    | KLeaf l => leaf_one l (nscope n)
    | KSum ws => sumT ws = t1
    | KProd => True
    end.
  Definition normalised (t : table) : Prop := Forall node_norm t.

  Lemma scope_of_prefix (t t' : table) k : k < length t -> scope_of (t ++ t') k = scope_of t k.
  Proof. intros. unfold Core.scope_of. now rewrite app_nth1. Qed.

  Lemma scope_of_last (t : table) n : scope_of (t ++ [n]) (length t) = nscope n.
  Proof. unfold Core.scope_of. rewrite app_nth2, Nat.sub_diag by lia. reflexivity. Qed.

  Lemma val_last (t : table) n r : val (t ++ [n]) (length t) r = node_val n (vals t r) r.
  Proof.
    unfold Core.val. rewrite vals_snoc, app_nth2, vals_length, Nat.sub_diag;
      [reflexivity | rewrite vals_length; lia].
  Qed.

  Lemma val_prefix (t t' : table) i r : i < length t -> val (t ++ t') i r = val t i r.
  Proof. apply vals_prefix. Qed.

  Lemma map_ext_Forall {A B} (f g : A -> B) l : Forall (fun x => f x = g x) l -> map f l = map g l.
  Proof. induction 1; cbn; congruence. Qed.

  (* ---------- locality ---------- *)
  Theorem val_local t : valid t -> forall i, i < length t -> forall r v c,
      ~ In v (scope_of t i) -> val t i (upd r v c) = val t i r.
  Proof.
    induction 1 as [|t n Hv IH Hok]; intros i Hi r v c Hnin; [cbn in Hi; lia|].
    rewrite app_length in Hi; cbn in Hi.
    destruct (Nat.eq_dec i (length t)) as [->|Hne].
    - rewrite scope_of_last in Hnin. rewrite !val_last.
      destruct Hok as [Hk Hok]. unfold Core.node_val. destruct (nkind n) as [l|ws|].
      + destruct Hok as [Hloc _]. now apply Hloc.
      + destruct Hok as [_ Hsc]. f_equal. apply map_ext_Forall.
        rewrite Forall_forall in *. intros k Hin. apply IH; [now apply Hk|].
        intro Hv'. apply Hnin. now apply (Hsc k Hin).
      + destruct Hok as [Hun _]. f_equal. apply map_ext_Forall.
        rewrite Forall_forall in *. intros k Hin. apply IH; [now apply Hk|].
        intro Hv'. apply Hnin. apply Hun. eauto.
    - assert (Hi' : i < length t) by lia.
      rewrite scope_of_prefix in Hnin by exact Hi'. rewrite !val_prefix by exact Hi'. now apply IH.
  Qed.

  (* ---------- algebra helpers ---------- *)
  Lemma sumT_add {A} (f g : A -> T) l :
    sumT (map (fun x => f x + g x) l) = sumT (map f l) + sumT (map g l).
  Proof. induction l as [|x l IH]; cbn; [ring | rewrite IH; ring]. Qed.
  Lemma sumT_scal {A} c (f : A -> T) l : sumT (map (fun x => c * f x) l) = c * sumT (map f l).
  Proof. induction l as [|x l IH]; cbn; [ring | rewrite IH; ring]. Qed.
  Lemma sumT_scal_r {A} c (f : A -> T) l : sumT (map (fun x => f x * c) l) = sumT (map f l) * c.
  Proof. induction l as [|x l IH]; cbn; [ring | rewrite IH; ring]. Qed.
  Lemma sumT_zero {A} (l : list A) : sumT (map (fun _ => t0) l) = t0.
  Proof. induction l; cbn; [reflexivity | rewrite IHl; ring]. Qed.
  Lemma sumT_app l1 l2 : sumT (l1 ++ l2) = sumT l1 + sumT l2.
  Proof. induction l1 as [|x l1 IH]; cbn; [ring | rewrite IH; ring]. Qed.
  Lemma prodT_app l1 l2 : prodT (l1 ++ l2) = prodT l1 * prodT l2.
  Proof. induction l1 as [|x l1 IH]; cbn; [ring | rewrite IH; ring]. Qed.

  Lemma dot_split ws (F : nat -> Z -> T) (G : nat -> T) ks l :
    Forall (fun k => G k = sumT (map (F k) l)) ks ->
    dotT ws (map G ks) = sumT (map (fun x => dotT ws (map (fun k => F k x) ks)) l).
  Proof.
    revert ws. induction ks as [|k ks IH]; intros ws Hall.
    - destruct ws; cbn; now rewrite sumT_zero.
    - inversion Hall as [|? ? Hk Hks]; subst. destruct ws as [|w ws]; cbn; [now rewrite sumT_zero|].
      rewrite (IH ws Hks), Hk, sumT_add, sumT_scal. reflexivity.
  Qed.

  Lemma prod_split (F : nat -> Z -> T) (G : nat -> T) ks l j :
    j < length ks ->
    G (nth j ks 0) = sumT (map (F (nth j ks 0)) l) ->
    (forall i, i < length ks -> i <> j -> forall x, In x l -> F (nth i ks 0) x = G (nth i ks 0)) ->
    prodT (map G ks) = sumT (map (fun x => prodT (map (fun k => F k x) ks)) l).
  Proof.
    revert j. induction ks as [|k ks IH]; intros j Hj Hsplit Hconst; [cbn in Hj; lia|].
    destruct j as [|j]; cbn [nth] in *.
    - cbn [map Core.prodT]. rewrite Hsplit, <- sumT_scal_r.
      f_equal. apply map_ext_in. intros x Hx. f_equal. f_equal.
      apply map_ext_Forall. rewrite Forall_forall. intros k' Hin.
      destruct (In_nth _ _ 0 Hin) as [i [Hi Hnth]].
      specialize (Hconst (S i) ltac:(cbn; lia) ltac:(lia) x Hx). cbn in Hconst. now rewrite Hnth in Hconst.
    - cbn [map Core.prodT]. rewrite (IH j); [| cbn in Hj; lia | exact Hsplit |].
      + rewrite <- sumT_scal. f_equal. apply map_ext_in. intros x Hx.
        specialize (Hconst 0 ltac:(cbn; lia) ltac:(lia) x Hx). cbn in Hconst. now rewrite Hconst.
      + intros i Hi Hne x Hx. apply (Hconst (S i)); [cbn; lia | lia | exact Hx].
  Qed.

  (* ---------- single-variable marginalisation ---------- *)
  Theorem val_marg1 t : valid t -> forall i, i < length t -> forall r v,
      In v (scope_of t i) -> r v = None ->
      val t i r = sumT (map (fun x => val t i (upd r v (Some x))) (dom v)).
  Proof.
    induction 1 as [|t n Hv IH Hok]; intros i Hi r v Hin Hnone; [cbn in Hi; lia|].
    rewrite app_length in Hi; cbn in Hi.
    destruct (Nat.eq_dec i (length t)) as [->|Hne].
    2:{ assert (Hi' : i < length t) by lia.
        rewrite scope_of_prefix in Hin by exact Hi'. rewrite val_prefix by exact Hi'.
        rewrite (IH i Hi' r v Hin Hnone). f_equal. apply map_ext. intros x. now rewrite val_prefix. }
    rewrite scope_of_last in Hin. rewrite val_last.
    erewrite map_ext; [| intros x; rewrite val_last; reflexivity].
    destruct Hok as [Hk Hok]. unfold Core.node_val. destruct (nkind n) as [l|ws|].
    - destruct Hok as [_ Hm]. now apply Hm.
    - destruct Hok as [_ Hsc].
      apply (dot_split ws (fun k x => nth k (vals t (upd r v (Some x))) t0) (fun k => nth k (vals t r) t0)).
      rewrite Forall_forall in *. intros k Hkin. apply (IH k (Hk k Hkin) r v); [|exact Hnone].
      now apply (Hsc k Hkin).
    - destruct Hok as [Hun Hdis]. apply Hun in Hin. destruct Hin as [k [Hkin Hvk]].
      destruct (In_nth _ _ 0 Hkin) as [j [Hj Hnth]]. subst k.
      apply (prod_split (fun k x => nth k (vals t (upd r v (Some x))) t0) (fun k => nth k (vals t r) t0) _ _ j Hj).
      + rewrite Forall_forall in Hk. apply (IH _ (Hk _ Hkin) r v Hvk Hnone).
      + intros i Hi' Hij x _. rewrite Forall_forall in Hk.
        apply (val_local t Hv _ (Hk _ (nth_In _ _ Hi')) r v (Some x)).
        destruct (Nat.lt_ge_cases i j) as [Hlt|Hge].
        * intro Hc. exact (Hdis i j (conj Hlt Hj) v Hc Hvk).
        * assert (j < i) by lia. exact (Hdis j i (conj H Hi') v Hvk).
  Qed.

  (* ---------- iteration: value = sum over all completions of a set of missing variables ---------- *)
  Lemma upd_other (r : row) v c u : u <> v -> upd r v c u = r u.
  Proof. intros H. unfold upd. destruct (Nat.eqb_spec u v); congruence. Qed.
  Lemma upd_same (r : row) v c : upd r v c v = c.
  Proof. unfold upd. now rewrite Nat.eqb_refl. Qed.

  Theorem iter_marg t : valid t -> forall i, i < length t -> forall vs, NoDup vs ->
      forall r, (forall v, In v vs -> In v (scope_of t i) /\ r v = None) ->
      val t i r = sum_compl vs (val t i) r.
  Proof.
    intros Hv i Hi vs Hnd. induction Hnd as [|v vs Hnin Hnd IH]; intros r Hall; [reflexivity|].
    cbn [Core.sum_compl]. destruct (Hall v (or_introl eq_refl)) as [Hin Hnone].
    rewrite (val_marg1 t Hv i Hi r v Hin Hnone). f_equal. apply map_ext. intros x.
    apply IH. intros u Hu. destruct (Hall u (or_intror Hu)) as [Hus Hun]. split; [exact Hus|].
    rewrite upd_other; [exact Hun | intro; subst; contradiction].
  Qed.

  (* ---------- all-missing rows evaluate to one ---------- *)
  Lemma dot_ones ws (xs : list T) : length ws = length xs -> Forall (fun x => x = t1) xs ->
    dotT ws xs = sumT ws.
  Proof.
    revert xs. induction ws as [|w ws IH]; intros [|x xs] Hl Hall; cbn in *; try lia; [reflexivity|].
    inversion Hall; subst. rewrite IH by (auto; lia). ring.
  Qed.
  Lemma prod_ones (xs : list T) : Forall (fun x => x = t1) xs -> prodT xs = t1.
  Proof. induction 1; cbn; [reflexivity|]. subst. rewrite IHForall. ring. Qed.

  Theorem val_all_missing t : valid t -> normalised t -> forall i, i < length t -> forall r,
      (forall v, In v (scope_of t i) -> r v = None) -> val t i r = t1.
  Proof.
    induction 1 as [|t n Hv IH Hok]; intros Hnorm i Hi r Hmiss; [cbn in Hi; lia|].
    apply Forall_app in Hnorm. destruct Hnorm as [Hnt Hnn]. inversion Hnn as [|? ? Hn _]; subst. specialize (IH Hnt). clear Hnn Hnt.
    rewrite app_length in Hi; cbn in Hi.
    destruct (Nat.eq_dec i (length t)) as [->|Hne].
    - rewrite scope_of_last in Hmiss. rewrite val_last.
      destruct Hok as [Hk Hok]. unfold Core.node_val. unfold node_norm in Hn.
      destruct (nkind n) as [l|ws|].
      + now apply Hn.
      + destruct Hok as [Hlen Hsc]. rewrite dot_ones; [exact Hn | now rewrite map_length |].
        rewrite Forall_map. rewrite Forall_forall in *. intros k Hin.
        apply (IH k (Hk k Hin) r). intros v Hvin. apply Hmiss. now apply (Hsc k Hin).
      + destruct Hok as [Hun _]. apply prod_ones.
        rewrite Forall_map. rewrite Forall_forall in *. intros k Hin.
        apply (IH k (Hk k Hin) r). intros v Hvin. apply Hmiss. apply Hun. eauto.
    - assert (Hi' : i < length t) by lia. rewrite val_prefix by exact Hi'.
      apply (IH i Hi' r). intros v Hvin. apply Hmiss. now rewrite scope_of_prefix.
  Qed.

  (* the distribution of a valid normalised circuit sums to one over the domain of its scope *)
  Theorem total_mass_one t : valid t -> normalised t -> forall i, i < length t ->
      NoDup (scope_of t i) ->
      sum_compl (scope_of t i) (val t i) (row_none) = t1.
  Proof.
    intros Hv Hn i Hi Hnd.
    rewrite <- (iter_marg t Hv i Hi (scope_of t i) Hnd row_none).
    - apply val_all_missing; auto.
    - intros v Hin. split; [exact Hin | reflexivity].
  Qed.
End CoreFacts.
