(* Proofs/SampleExamples.v — the Qc instance of the sampling theorems and an Example showing that their
   hypotheses are satisfiable: a mixture of two products over a Bernoulli leaf and a Chow-Liu chain,
   sampled with evidence on the child of the chain. *)
From Coq Require Import List Arith ZArith QArith Qcanon Field Bool.
From DV Require Import Model.Core Model.Clt Model.Leaves Model.Check Model.Mpe Model.Sample Model.QcInst Model.Run Model.SampleRun
  Proofs.CoreFacts Proofs.CltFacts Proofs.CheckFacts Proofs.QcLaws Proofs.SampleFacts Proofs.SampleClt.
Import ListNotations.
Local Open Scope nat_scope.

Lemma Qc_div_mul : forall a b : Qc, b <> 0%Qc -> (a / b * b)%Qc = a.
Proof. intros a b H. field. exact H. Qed.
Lemma Qc_eq_bool_neq (a b : Qc) : Qc_eq_bool a b = false -> a <> b.
Proof. intros H E. subst. unfold Qc_eq_bool in H. destruct (Qc_eq_dec b b); congruence. Qed.

Ltac nodup := repeat (apply NoDup_cons; [cbn; intuition (discriminate || congruence)|]); apply NoDup_nil.

Definition ex_chain : clt Qc :=
  Build_clt [1; 2] [None; Some 0]
    [ [[q 1 2; q 1 2]; [q 1 2; q 1 2]]; [[q 9 10; q 1 10]; [q 1 5; q 4 5]] ].
Definition ex_t : qtable :=
  [ Build_node (KLeaf (LTab 0 [(0%Z, q 1 4); (1%Z, q 3 4)])) [0] [];
    Build_node (KLeaf (LTab 0 [(0%Z, q 7 8); (1%Z, q 1 8)])) [0] [];
    Build_node (KLeaf (LClt ex_chain)) [1; 2] [];
    Build_node KProd [0; 1; 2] [0; 2];
    Build_node KProd [0; 1; 2] [1; 2];
    Build_node (KSum [q 45 64; q 19 64]) [0; 1; 2] [3; 4] ].
Definition ex_doms : list (nat * list Z) := [(0, [0%Z; 1%Z]); (1, [0%Z; 1%Z]); (2, [0%Z; 1%Z])].
Definition ex_r : row := mkrow [N_; N_; S_ 1%Z].      (* evidence on the child of the chain *)

Example ex_valid : valid Qc 0%Qc Qcplus (dom ex_doms) qleaf qleaf_val ex_t.
Proof.
  apply (valid_b_sound Qc 0%Qc 1%Qc Qcplus Qcmult Qc_srth Qc_eq_bool Qc_eq_bool_correct ex_doms ex_t).
  vm_compute. reflexivity.
Qed.

Example ex_builtin_ok : builtin_table_ok Qc 0%Qc 1%Qc Qcplus Qcmult ex_r ex_t.
Proof.
  unfold builtin_table_ok, ex_t.
  repeat (apply Forall_cons); try apply Forall_nil; cbn [nkind nscope builtin_ok]; try exact I.
  - split; [reflexivity | split; [nodup | apply Qc_eq_bool_correct; vm_compute; reflexivity]].
  - split; [reflexivity | split; [nodup | apply Qc_eq_bool_correct; vm_compute; reflexivity]].
  - split; [vm_compute; nodup | split].
    + intros v. vm_compute. tauto.
    + apply (nzb_sound Qc 0%Qc 1%Qc Qcplus Qcmult Qc_eq_bool Qc_eq_bool_neq). vm_compute. reflexivity.
Qed.

(* the sampler's law on the example is the exact conditional, for EVERY target row c *)
Example ex_exact : forall c,
  qmass (qroot_meas ex_t ex_r) ex_r [0; 1; 2] c = if compl_b ex_r [0; 1; 2] c then qroot ex_t c else 0%Qc.
Proof.
  intros c.
  exact (builtin_mass Qc 0%Qc 1%Qc Qcplus Qcmult Qc_srth Qcdiv Qc_div_mul (dom ex_doms) ex_r ex_t
           ex_valid ex_builtin_ok 5 ltac:(cbn; repeat constructor) c).
Qed.
