(* Proofs/SampleFacts.v — the sampler's measure (Model/Sample.v) IS the circuit's distribution:
   for every valid table, every row r and every row c, the mass of the outcomes that complete r to c
   is val(c) when c is a completion of r and zero otherwise; the total mass is val(r); the cells
   written are exactly the missing cells of the scope.  Every commutative semiring. *)
From Coq Require Import List Arith ZArith Ring Lia Bool.
From DV Require Import Model.Core Model.Clt Model.Leaves Model.Mpe Model.Sample
  Proofs.CoreFacts Proofs.CltFacts Proofs.MpeFacts.
Import ListNotations.

Section MeasFacts.
  Variable T : Type.
  Variables (t0 t1 : T) (tadd tmul : T -> T -> T).
  Hypothesis SRth : semi_ring_theory t0 t1 tadd tmul (@eq T).
  Add Ring Tring7 : SRth.
  Infix "+" := tadd. Infix "*" := tmul.
  Notation sumT := (sumT T t0 tadd).
  Notation prodT := (prodT T t1 tmul).
  Notation dotT := (dotT T t0 tadd tmul).
  Notation meas := (meas T).
  Notation scale := (scale T tmul).
  Notation cross := (cross T tmul).
  Notation cross_all := (cross_all T t1 tmul).
  Notation mix := (mix T tmul).
  Notation total := (total T t0 tadd).
  Notation mass_at := (mass_at T t0 tadd).

  (* ---------- filtered sums over a measure ---------- *)
  Definition msum (f : asg -> bool) (m : meas) : T :=
    sumT (map (fun e => if f (fst e) then snd e else t0) m).

  Lemma total_msum m : total m = msum (fun _ => true) m.
  Proof. reflexivity. Qed.
  Lemma mass_msum m r sc c : mass_at m r sc c = msum (fun a => agree_on sc (apply_assign a r) c) m.
  Proof. reflexivity. Qed.

  Lemma msum_app f m1 m2 : msum f (m1 ++ m2) = msum f m1 + msum f m2.
  Proof. unfold msum. rewrite map_app. apply (sumT_app T t0 t1 tadd tmul SRth). Qed.
  Lemma msum_scale f w m : msum f (scale w m) = w * msum f m.
  Proof.
    unfold msum, Sample.scale. induction m as [|e m IH]; cbn; [ring|].
    rewrite IH. destruct (f (fst e)); ring.
  Qed.
  Lemma msum_ext f g m : (forall a, In a (map fst m) -> f a = g a) -> msum f m = msum g m.
  Proof.
    unfold msum. intros H. f_equal. apply map_ext_in. intros e He.
    rewrite (H (fst e)); [reflexivity | now apply in_map].
  Qed.
  Lemma msum_mix f ws ms : msum f (mix ws ms) = dotT ws (map (msum f) ms).
  Proof.
    revert ms. induction ws as [|w ws IH]; intros [|m ms]; try reflexivity.
    cbn [Sample.mix map Core.dotT]. now rewrite msum_app, msum_scale, IH.
  Qed.

  Lemma msum_cross1 f f2 a1 w1 (b1 : bool) m2 :
    (forall a2, In a2 (map fst m2) -> f (a1 ++ a2) = b1 && f2 a2) ->
    msum f (map (fun e2 => (a1 ++ fst e2, w1 * snd e2)) m2) = (if b1 then w1 else t0) * msum f2 m2.
  Proof.
    unfold msum. induction m2 as [|[a2 w2] m2 IH]; intros H; cbn; [ring|].
    rewrite IH by (intros; apply H; now right).
    rewrite (H a2) by now left. destruct b1, (f2 a2); cbn; ring.
  Qed.
  Lemma msum_cross f f1 f2 m1 m2 :
    (forall a1 a2, In a1 (map fst m1) -> In a2 (map fst m2) -> f (a1 ++ a2) = f1 a1 && f2 a2) ->
    msum f (cross m1 m2) = msum f1 m1 * msum f2 m2.
  Proof.
    induction m1 as [|e1 m1 IH]; intros H.
    - unfold msum. cbn. ring.
    - change (cross (e1 :: m1) m2) with (map (fun e2 => (fst e1 ++ fst e2, snd e1 * snd e2)) m2 ++ cross m1 m2).
      rewrite msum_app, IH by (intros; apply H; [now right | assumption]).
      rewrite (msum_cross1 f f2 (fst e1) (snd e1) (f1 (fst e1))) by (intros; apply H; [now left | assumption]).
      change (msum f1 (e1 :: m1)) with ((if f1 (fst e1) then snd e1 else t0) + msum f1 m1). ring.
  Qed.

  Lemma total_app m1 m2 : total (m1 ++ m2) = total m1 + total m2.
  Proof. exact (msum_app (fun _ => true) m1 m2). Qed.
  Lemma total_scale w m : total (scale w m) = w * total m.
  Proof. exact (msum_scale (fun _ => true) w m). Qed.
  Lemma total_mix ws ms : total (mix ws ms) = dotT ws (map total ms).
  Proof. exact (msum_mix (fun _ => true) ws ms). Qed.
  Lemma total_cross m1 m2 : total (cross m1 m2) = total m1 * total m2.
  Proof. exact (msum_cross (fun _ => true) (fun _ => true) (fun _ => true) m1 m2 (fun _ _ _ _ => eq_refl)). Qed.
  Lemma total_cross_all ms : total (cross_all ms) = prodT (map total ms).
  Proof.
    induction ms as [|m ms IH]; cbn.
    - unfold Sample.total. cbn. ring.
    - change (total (cross m (cross_all ms)) = total m * prodT (map total ms)).
      now rewrite total_cross, IH.
  Qed.
  Lemma mass_scale w m r sc c : mass_at (scale w m) r sc c = w * mass_at m r sc c.
  Proof. exact (msum_scale (fun a => agree_on sc (apply_assign a r) c) w m). Qed.
  Lemma mass_mix ws ms r sc c : mass_at (mix ws ms) r sc c = dotT ws (map (fun m => mass_at m r sc c) ms).
  Proof. exact (msum_mix (fun a => agree_on sc (apply_assign a r) c) ws ms). Qed.

  (* ---------- which cells an outcome writes ---------- *)
  Definition keys_are (m : meas) (P : nat -> Prop) : Prop :=
    forall a, In a (map fst m) -> forall v, In v (map fst a) <-> P v.

  Lemma keys_are_ext m (P Q : nat -> Prop) : (forall v, P v <-> Q v) -> keys_are m P -> keys_are m Q.
  Proof. intros H K a Ha v. rewrite (K a Ha v). apply H. Qed.
  Lemma keys_are_scale w m P : keys_are m P -> keys_are (scale w m) P.
  Proof.
    intros K a Ha. apply K. unfold Sample.scale in Ha. rewrite map_map in Ha. exact Ha.
  Qed.
  Lemma keys_are_app m1 m2 P : keys_are m1 P -> keys_are m2 P -> keys_are (m1 ++ m2) P.
  Proof. intros K1 K2 a Ha. rewrite map_app, in_app_iff in Ha. destruct Ha; auto. Qed.
  Lemma keys_are_mix ws ms P : Forall (fun m => keys_are m P) ms -> keys_are (mix ws ms) P.
  Proof.
    revert ms. induction ws as [|w ws IH]; intros [|m ms] H; cbn; try (intros a []).
    inversion H; subst. apply keys_are_app; [now apply keys_are_scale | now apply IH].
  Qed.
  Lemma in_cross a m1 m2 : In a (map fst (cross m1 m2)) ->
    exists a1 a2, In a1 (map fst m1) /\ In a2 (map fst m2) /\ a = a1 ++ a2.
  Proof.
    unfold Sample.cross. rewrite in_map_iff. intros [e [<- He]]. apply in_flat_map in He.
    destruct He as [e1 [H1 He]]. apply in_map_iff in He. destruct He as [e2 [<- H2]].
    exists (fst e1), (fst e2). repeat split; now apply in_map.
  Qed.
  Lemma keys_are_cross m1 m2 (P1 P2 : nat -> Prop) :
    keys_are m1 P1 -> keys_are m2 P2 -> keys_are (cross m1 m2) (fun v => P1 v \/ P2 v).
  Proof.
    intros K1 K2 a Ha v. destruct (in_cross a m1 m2 Ha) as (a1 & a2 & H1 & H2 & ->).
    rewrite map_app, in_app_iff, (K1 a1 H1 v), (K2 a2 H2 v). reflexivity.
  Qed.
  Lemma keys_are_cross_all (mss : list (meas * (nat -> Prop))) :
    Forall (fun p => keys_are (fst p) (snd p)) mss ->
    keys_are (cross_all (map fst mss)) (fun v => exists p, In p mss /\ snd p v).
  Proof.
    induction 1 as [|p mss Hp _ IH]; cbn.
    - intros a [<-|[]] v. cbn. split; [tauto | intros [p [[] _]]].
    - change (keys_are (cross (fst p) (cross_all (map fst mss))) (fun v => exists p0, (p = p0 \/ In p0 mss) /\ snd p0 v)).
      eapply keys_are_ext; [| apply (keys_are_cross _ _ _ _ Hp IH)].
      intros v. cbn beta. split.
      + intros [H|[q [Hq Hv]]]; [exists p; auto | exists q; auto].
      + intros [q [[<-|Hq] Hv]]; [now left | right; eauto].
  Qed.

  (* ---------- agreement of completed rows ---------- *)
  Lemma forallb_seteq {A} (f : A -> bool) (a b : list A) :
    (forall x, In x a <-> In x b) -> forallb f a = forallb f b.
  Proof.
    intros H. apply eq_true_iff_eq. rewrite !forallb_forall. split; intros K x Hx; apply K, H, Hx.
  Qed.
  Lemma forallb_map' {A B} (f : B -> bool) (g : A -> B) l : forallb f (map g l) = forallb (fun x => f (g x)) l.
  Proof. induction l as [|x l IH]; cbn; [reflexivity | now rewrite IH]. Qed.
  Lemma agree_on_seteq a b r1 c : (forall x, In x a <-> In x b) -> agree_on a r1 c = agree_on b r1 c.
  Proof. apply forallb_seteq. Qed.
  Lemma compl_b_seteq a b r c : (forall x, In x a <-> In x b) -> compl_b r a c = compl_b r b c.
  Proof. apply forallb_seteq. Qed.
  Lemma agree_on_ext sc r1 r2 c : (forall v, In v sc -> r1 v = r2 v) -> agree_on sc r1 c = agree_on sc r2 c.
  Proof.
    intros H. unfold agree_on. induction sc as [|v sc IH]; cbn; [reflexivity|].
    rewrite (H v) by now left. f_equal. apply IH. intros; apply H; now right.
  Qed.
  Lemma mass_seteq m r a b c : (forall x, In x a <-> In x b) -> mass_at m r a c = mass_at m r b c.
  Proof. intros H. rewrite !mass_msum. apply msum_ext. intros; now apply agree_on_seteq. Qed.

  Definition keys_in (m : meas) (sc : list nat) : Prop :=
    forall a, In a (map fst m) -> forall v, In v (map fst a) -> In v sc.

  Lemma agree_app_split a1 a2 r sc1 sc2 c :
    (forall v, In v (map fst a1) -> In v sc1) -> (forall v, In v (map fst a2) -> In v sc2) ->
    (forall v, In v sc1 -> ~ In v sc2) ->
    agree_on (sc1 ++ sc2) (apply_assign (a1 ++ a2) r) c =
    agree_on sc1 (apply_assign a1 r) c && agree_on sc2 (apply_assign a2 r) c.
  Proof.
    intros K1 K2 D. unfold agree_on at 1. rewrite forallb_app. f_equal.
    - apply agree_on_ext. intros v Hv. rewrite apply_assign_app. apply apply_assign_notin.
      intro Hk. exact (D v Hv (K2 v Hk)).
    - apply agree_on_ext. intros v Hv. rewrite apply_assign_app. apply apply_assign_agree.
      apply apply_assign_notin. intro Hk. exact (D v (K1 v Hk) Hv).
  Qed.

  Lemma mass_cross m1 m2 r sc1 sc2 c :
    keys_in m1 sc1 -> keys_in m2 sc2 -> (forall v, In v sc1 -> ~ In v sc2) ->
    mass_at (cross m1 m2) r (sc1 ++ sc2) c = mass_at m1 r sc1 c * mass_at m2 r sc2 c.
  Proof.
    intros K1 K2 D. rewrite !mass_msum. apply msum_cross. intros a1 a2 H1 H2.
    apply agree_app_split; [exact (K1 a1 H1) | exact (K2 a2 H2) | exact D].
  Qed.

  Fixpoint pdisj (scs : list (list nat)) : Prop :=
    match scs with
    | [] => True
    | s :: tl => (forall v, In v s -> ~ In v (concat tl)) /\ pdisj tl
    end.

  Lemma keys_in_cross_all (mss : list (meas * list nat)) :
    Forall (fun p => keys_in (fst p) (snd p)) mss -> keys_in (cross_all (map fst mss)) (concat (map snd mss)).
  Proof.
    induction 1 as [|p mss Hp _ IH]; cbn.
    - intros a [<-|[]] v [].
    - intros a Ha v Hv. apply in_cross in Ha. destruct Ha as (a1 & a2 & H1 & H2 & ->).
      rewrite map_app, in_app_iff in Hv. apply in_or_app. destruct Hv as [Hv|Hv].
      + left. exact (Hp a1 H1 v Hv).
      + right. exact (IH a2 H2 v Hv).
  Qed.

  Lemma mass_cross_all (mss : list (meas * list nat)) r c :
    Forall (fun p => keys_in (fst p) (snd p)) mss -> pdisj (map snd mss) ->
    mass_at (cross_all (map fst mss)) r (concat (map snd mss)) c =
    prodT (map (fun p => mass_at (fst p) r (snd p) c) mss).
  Proof.
    induction 1 as [|p mss Hp Hall IH]; cbn; intros Hd.
    - unfold Sample.mass_at. cbn. ring.
    - destruct Hd as [Hd1 Hd2].
      change (mass_at (cross (fst p) (cross_all (map fst mss))) r (snd p ++ concat (map snd mss)) c =
              mass_at (fst p) r (snd p) c * prodT (map (fun p0 => mass_at (fst p0) r (snd p0) c) mss)).
      rewrite mass_cross; [now rewrite IH | exact Hp | now apply keys_in_cross_all | exact Hd1].
  Qed.

  Lemma dot_zero ws {A} (l : list A) : dotT ws (map (fun _ => t0) l) = t0.
  Proof. revert l. induction ws as [|w ws IH]; intros [|x l]; cbn; try reflexivity. rewrite IH. ring. Qed.

  Lemma prod_if {A} (b : A -> bool) (g : A -> T) (l : list A) :
    prodT (map (fun k => if b k then g k else t0) l) = if forallb b l then prodT (map g l) else t0.
  Proof.
    induction l as [|k l IH]; cbn; [reflexivity|]. rewrite IH.
    destruct (b k), (forallb b l); cbn; ring.
  Qed.

  Lemma compl_b_concat r (scs : list (list nat)) c :
    compl_b r (concat scs) c = forallb (fun s => compl_b r s c) scs.
  Proof.
    induction scs as [|s scs IH]; cbn; [reflexivity|].
    unfold compl_b at 1. rewrite forallb_app. fold (compl_b r s c). f_equal. exact IH.
  Qed.
End MeasFacts.

(* ================= circuits ================= *)
Section CircuitSample.
  Variable T : Type.
  Variables (t0 t1 : T) (tadd tmul : T -> T -> T).
  Hypothesis SRth : semi_ring_theory t0 t1 tadd tmul (@eq T).
  Add Ring Tring8 : SRth.
  Infix "+" := tadd. Infix "*" := tmul.
  Variable dom : nat -> list Z.
  Variable leaf : Type.
  Variable leaf_val : leaf -> row -> T.
  Variable leaf_meas : leaf -> row -> meas T.
  Notation sumT := (sumT T t0 tadd).
  Notation prodT := (prodT T t1 tmul).
  Notation dotT := (dotT T t0 tadd tmul).
  Notation table := (table T leaf).
  Notation node := (node T leaf).
  Notation vals := (vals T t0 t1 tadd tmul leaf leaf_val).
  Notation val := (val T t0 t1 tadd tmul leaf leaf_val).
  Notation node_val := (node_val T t0 t1 tadd tmul leaf leaf_val).
  Notation scope_of := (scope_of T leaf).
  Notation valid := (valid T t0 tadd dom leaf leaf_val).
  Notation smeas := (smeas T t1 tmul leaf leaf_meas).
  Notation meas_at := (meas_at T t1 tmul leaf leaf_meas).
  Notation node_meas := (node_meas T t1 tmul leaf leaf_meas).
  Notation total := (total T t0 tadd).
  Notation mass_at := (mass_at T t0 tadd).
  Notation keys_are := (keys_are T).
  Notation keys_in := (keys_in T).

  (* what a leaf's sampler must satisfy on the row r (proved below for the built-in leaves) *)
  Definition leaf_sample_ok (r : row) (l : leaf) (sc : list nat) : Prop :=
    keys_are (leaf_meas l r) (fun v => In v sc /\ r v = None) /\
    (forall c, mass_at (leaf_meas l r) r sc c = if compl_b r sc c then leaf_val l c else t0) /\
    total (leaf_meas l r) = leaf_val l r.
  Definition leaves_sample_ok (r : row) (t : table) : Prop :=
    Forall (fun n => match nkind n with KLeaf l => leaf_sample_ok r l (nscope n) | _ => True end) t.

  Lemma smeas_snoc (t : table) n r : smeas (t ++ [n]) r = smeas t r ++ [node_meas n (smeas t r) r].
  Proof. unfold Sample.smeas. rewrite fold_left_app. reflexivity. Qed.
  Lemma smeas_length (t : table) r : length (smeas t r) = length t.
  Proof.
    induction t as [|n t IH] using rev_ind; [reflexivity|].
    rewrite smeas_snoc, !app_length, IH. reflexivity.
  Qed.
  Lemma meas_prefix (t : table) n i r : i < length t -> meas_at (t ++ [n]) i r = meas_at t i r.
  Proof. intros H. unfold Sample.meas_at. rewrite smeas_snoc, app_nth1; [reflexivity | now rewrite smeas_length]. Qed.
  Lemma meas_last (t : table) n r : meas_at (t ++ [n]) (length t) r = node_meas n (smeas t r) r.
  Proof.
    unfold Sample.meas_at. rewrite smeas_snoc, app_nth2, smeas_length, Nat.sub_diag; [reflexivity|].
    rewrite smeas_length. lia.
  Qed.

  Lemma leaves_ok_snoc r (t : table) n : leaves_sample_ok r (t ++ [n]) ->
    leaves_sample_ok r t /\ match nkind n with KLeaf l => leaf_sample_ok r l (nscope n) | _ => True end.
  Proof. intros H. apply Forall_app in H. destruct H as [H1 H2]. inversion H2; subst. auto. Qed.

  (* ---------- the cells written are exactly the missing cells of the scope ---------- *)
  Theorem smeas_keys r t : valid t -> leaves_sample_ok r t -> forall i, i < length t ->
      keys_are (meas_at t i r) (fun v => In v (scope_of t i) /\ r v = None).
  Proof.
    induction 1 as [|t n Hv IH Hok]; intros Hl i Hi; [cbn in Hi; lia|].
    apply leaves_ok_snoc in Hl. destruct Hl as [Hlt Hln]. specialize (IH Hlt).
    rewrite app_length in Hi; cbn in Hi.
    destruct (Nat.eq_dec i (length t)) as [->|Hne].
    2:{ assert (Hi' : i < length t) by lia. rewrite meas_prefix by exact Hi'.
        eapply keys_are_ext; [| apply (IH i Hi')]. intros v. now rewrite scope_of_prefix. }
    rewrite meas_last.
    apply (keys_are_ext T _ (fun v => In v (nscope n) /\ r v = None)); [intros v; rewrite scope_of_last; reflexivity|].
    destruct Hok as [Hk Hok]. unfold Sample.node_meas. destruct (nkind n) as [l|ws|].
    - apply Hln.
    - destruct Hok as [_ Hsc]. apply keys_are_mix. rewrite Forall_map. rewrite Forall_forall in *.
      intros k Hin. eapply keys_are_ext; [| apply (IH k (Hk k Hin))].
      intros v. cbn beta. now rewrite (Hsc k Hin v).
    - destruct Hok as [Hun _].
      set (mss := map (fun k => (nth k (smeas t r) [], fun v => In v (scope_of t k) /\ r v = None)) (nkids n)).
      replace (map (fun k => nth k (smeas t r) []) (nkids n)) with (map fst mss)
        by (unfold mss; rewrite map_map; reflexivity).
      eapply keys_are_ext; [| apply (keys_are_cross_all T t1 tmul mss)].
      + intros v. split.
        * intros [p [Hp Hpv]]. unfold mss in Hp. apply in_map_iff in Hp. destruct Hp as [k [<- Hkin]].
          cbn in Hpv. split; [apply Hun; exists k; tauto | tauto].
        * intros [Hin Hnone]. apply Hun in Hin. destruct Hin as [k [Hkin Hvk]].
          eexists. split; [unfold mss; apply in_map_iff; exists k; split; [reflexivity | exact Hkin]|].
          cbn. auto.
      + unfold mss. rewrite Forall_map. rewrite Forall_forall in *. intros k Hkin. cbn.
        apply (IH k (Hk k Hkin)).
  Qed.

  Lemma keys_are_in m sc (P : nat -> Prop) : keys_are m P -> (forall v, P v -> In v sc) -> keys_in m sc.
  Proof. intros K H a Ha v Hv. apply H. now apply (K a Ha v). Qed.

  Lemma pdisj_of_pairwise (t : table) ks :
    (forall i j, i < j < length ks -> forall v, In v (scope_of t (nth i ks 0)) -> ~ In v (scope_of t (nth j ks 0))) ->
    pdisj (map (scope_of t) ks).
  Proof.
    induction ks as [|k ks IH]; intros H; cbn; [exact I|]. split.
    - intros v Hv Hc. apply in_concat in Hc. destruct Hc as [s [Hs Hvs]].
      apply in_map_iff in Hs. destruct Hs as [k' [<- Hk']].
      destruct (In_nth _ _ 0 Hk') as [j [Hj Hnth]].
      apply (H 0 (S j) ltac:(cbn; lia) v Hv). cbn. now rewrite Hnth.
    - apply IH. intros i j Hij v. apply (H (S i) (S j)). cbn. lia.
  Qed.

  (* ---------- total mass = the value on the evidence ---------- *)
  Theorem smeas_total r t : valid t -> leaves_sample_ok r t -> forall i, i < length t ->
      total (meas_at t i r) = val t i r.
  Proof.
    induction 1 as [|t n Hv IH Hok]; intros Hl i Hi; [cbn in Hi; lia|].
    apply leaves_ok_snoc in Hl. destruct Hl as [Hlt Hln]. specialize (IH Hlt).
    rewrite app_length in Hi; cbn in Hi.
    destruct (Nat.eq_dec i (length t)) as [->|Hne].
    2:{ assert (Hi' : i < length t) by lia.
        rewrite meas_prefix by exact Hi'. rewrite (val_prefix T t0 t1 tadd tmul leaf leaf_val) by exact Hi'.
        now apply IH. }
    rewrite meas_last, (val_last T t0 t1 tadd tmul leaf leaf_val).
    destruct Hok as [Hk Hok]. unfold Sample.node_meas, Core.node_val. destruct (nkind n) as [l|ws|].
    - apply Hln.
    - rewrite (total_mix T t0 t1 tadd tmul SRth), map_map. f_equal.
      apply map_ext_Forall. rewrite Forall_forall in *. intros k Hin. apply (IH k (Hk k Hin)).
    - rewrite (total_cross_all T t0 t1 tadd tmul SRth), map_map. f_equal.
      apply map_ext_Forall. rewrite Forall_forall in *. intros k Hin. apply (IH k (Hk k Hin)).
  Qed.

  (* ---------- the mass of the outcomes completing r to c is val(c) ---------- *)
  Theorem smeas_mass r t : valid t -> leaves_sample_ok r t -> forall i, i < length t -> forall c,
      mass_at (meas_at t i r) r (scope_of t i) c = if compl_b r (scope_of t i) c then val t i c else t0.
  Proof.
    induction 1 as [|t n Hv IH Hok]; intros Hl i Hi c; [cbn in Hi; lia|].
    pose proof (leaves_ok_snoc _ _ _ Hl) as [Hlt Hln]. specialize (IH Hlt).
    rewrite app_length in Hi; cbn in Hi.
    destruct (Nat.eq_dec i (length t)) as [->|Hne].
    2:{ assert (Hi' : i < length t) by lia.
        rewrite meas_prefix, scope_of_prefix by exact Hi'.
        rewrite (val_prefix T t0 t1 tadd tmul leaf leaf_val) by exact Hi'. now apply IH. }
    rewrite meas_last, scope_of_last, (val_last T t0 t1 tadd tmul leaf leaf_val).
    pose proof Hok as [Hk Hok']. unfold Sample.node_meas, Core.node_val. destruct (nkind n) as [l|ws|] eqn:E.
    - apply Hln.
    - destruct Hok' as [_ Hsc]. rewrite (mass_mix T t0 t1 tadd tmul SRth), map_map.
      rewrite Forall_forall in Hk, Hsc.
      assert (Hkid : forall k, In k (nkids n) ->
                mass_at (nth k (smeas t r) []) r (nscope n) c =
                if compl_b r (nscope n) c then nth k (vals t c) t0 else t0).
      { intros k Hin.
        rewrite <- (mass_seteq T t0 tadd _ r _ _ c (Hsc k Hin)).
        rewrite <- (compl_b_seteq _ _ r c (Hsc k Hin)). apply (IH k (Hk k Hin) c). }
      destruct (compl_b r (nscope n) c).
      + f_equal. apply map_ext_in. intros k Hin. now rewrite Hkid.
      + transitivity (dotT ws (map (fun _ : nat => t0) (nkids n))); [| apply (dot_zero T t0 t1 tadd tmul SRth)].
        f_equal. apply map_ext_in. intros k Hin. now rewrite Hkid.
    - destruct Hok' as [Hun Hdis]. rewrite Forall_forall in Hk.
      set (mss := map (fun k => (nth k (smeas t r) [], scope_of t k)) (nkids n)).
      assert (Hseq : forall x, In x (concat (map snd mss)) <-> In x (nscope n)).
      { intros x. unfold mss. rewrite map_map. cbn. rewrite (Hun x). split.
        - intros Hx. apply in_concat in Hx. destruct Hx as [s [Hs Hxs]]. apply in_map_iff in Hs.
          destruct Hs as [k [<- Hkin]]. eauto.
        - intros [k [Hkin Hxk]]. apply in_concat. exists (scope_of t k). split; [now apply in_map | exact Hxk]. }
      rewrite <- (mass_seteq T t0 tadd _ r _ _ c Hseq).
      rewrite <- (compl_b_seteq _ _ r c Hseq).
      replace (map (fun k => nth k (smeas t r) []) (nkids n)) with (map fst mss)
        by (unfold mss; rewrite map_map; reflexivity).
      rewrite (mass_cross_all T t0 t1 tadd tmul SRth).
      + unfold mss. rewrite !map_map. cbn [fst snd].
        erewrite map_ext_in; [| intros k Hin; apply (IH k (Hk k Hin) c)].
        rewrite (prod_if T t0 t1 tadd tmul SRth (fun k => compl_b r (scope_of t k) c) (fun k => val t k c)).
        rewrite compl_b_concat, forallb_map'. reflexivity.
      + unfold mss. rewrite Forall_map, Forall_forall. intros k Hin. cbn.
        apply (keys_are_in _ _ _ (smeas_keys r t Hv Hlt k (Hk k Hin))). tauto.
      + unfold mss. rewrite map_map. cbn. now apply pdisj_of_pairwise.
  Qed.

  (* the mass a sum node sends down its k-th branch is w_k * val_k(r): the categorical law of sum_sample *)
  Corollary branch_mass r t : valid t -> leaves_sample_ok r t -> forall k, k < length t -> forall w,
      total (scale T tmul w (meas_at t k r)) = w * val t k r.
  Proof. intros Hv Hl k Hk w. now rewrite (total_scale T t0 t1 tadd tmul SRth), smeas_total. Qed.

  (* ---------- consequences for the completed rows ---------- *)
  Theorem sample_fills_exactly r t : valid t -> leaves_sample_ok r t -> forall i, i < length t -> forall a,
      In a (map fst (meas_at t i r)) ->
      (forall v x, r v = Some x -> apply_assign a r v = Some x) /\
      (forall v, In v (scope_of t i) -> apply_assign a r v <> None) /\
      (forall v, ~ In v (scope_of t i) -> apply_assign a r v = r v).
  Proof.
    intros Hv Hl i Hi a Ha. pose proof (smeas_keys r t Hv Hl i Hi a Ha) as K. repeat split.
    - intros v x Hr. apply apply_assign_some; [exact Hr|]. intro Hin. apply K in Hin. destruct Hin. congruence.
    - intros v Hin. destruct (r v) eqn:E.
      + apply apply_assign_keeps. congruence.
      + apply apply_assign_in. apply K. auto.
    - intros v Hn. apply apply_assign_notin. intro Hin. apply K in Hin. tauto.
  Qed.
End CircuitSample.
