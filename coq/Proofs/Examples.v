(* Proofs/Examples.v — non-vacuity: concrete circuits that meet the hypotheses of the theorems. *)
From Coq Require Import List Arith ZArith QArith Qcanon Bool.
From DV Require Import Model.Core Model.Clt Model.Leaves Model.Check Model.QcInst Model.Run
  Proofs.CoreFacts Proofs.QcLaws Proofs.CheckFacts.
Import ListNotations.
Local Open Scope nat_scope.

(* a DAG over variables 1 (categorical {0,2,3}), 4 (binary), 6,7 (binary CLT 6 -> 7):
   the categorical leaf (node 0) is shared by two products *)
Definition ex_doms : list (nat * list Z) := [(1, [0;2;3]%Z); (4, [0;1]%Z); (6, [0;1]%Z); (7, [0;1]%Z)].
Definition ex_clt : clt Qc :=
  Build_clt [6;7] [None; Some 0] [[[q 1 4; q 3 4]; [q 1 4; q 3 4]]; [[q 1 2; q 1 2]; [q 1 8; q 7 8]]].
Definition ex_t : qtable :=
  [ Build_node (KLeaf (LTab 1 [(0, q 1 2); (2, q 1 4); (3, q 1 4)]%Z)) [1] [];
    Build_node (KLeaf (LTab 4 [(0, q 1 8); (1, q 7 8)]%Z)) [4] [];
    Build_node (KLeaf (LTab 4 [(0, q 3 4); (1, q 1 4)]%Z)) [4] [];
    Build_node (KLeaf (LClt ex_clt)) [6;7] [];
    Build_node KProd [1;4] [0;1];
    Build_node KProd [4;1] [2;0];
    Build_node (KSum [q 1 4; q 1 4; q 1 2]) [1;4] [4;5;4];
    Build_node KProd [1;4;6;7] [6;3] ].

Example ex_valid_b : qvalid_b ex_doms ex_t = true.
Proof. vm_compute. reflexivity. Qed.

Lemma Qc_eq_bool_sound a b : Qc_eq_bool a b = true -> a = b.
Proof. apply Qc_eq_bool_correct. Qed.

Example ex_valid :
  valid Qc 0%Qc Qcplus (dom ex_doms) qleaf qleaf_val ex_t /\
  normalised Qc 0%Qc 1%Qc Qcplus qleaf qleaf_val ex_t.
Proof. apply (valid_b_sound Qc 0%Qc 1%Qc Qcplus Qcmult Qc_srth Qc_eq_bool Qc_eq_bool_sound ex_doms), ex_valid_b. Qed.

(* marginal query: X1 = 2, X7 = 1, everything else missing: 1/4 * (1/4*1/2 + 3/4*7/8) *)
Example ex_marginal_value :
  qroot ex_t (mkrow [None; Some 2%Z; None; None; None; None; None; Some 1%Z]) = q 25 128.
Proof. vm_compute. reflexivity. Qed.
