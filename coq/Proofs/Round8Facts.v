(* Proofs/Round8Facts.v — the 8-decimal rounding of the JSON format (Model/JsonRun.v: rhe, round8):
   error bound, idempotence, monotonicity against grid points, effect on sums and on the constructor
   guards; witnesses of the recorded findings; a satisfiable instance of the round-trip theorem. *)
From Coq Require Import List Arith ZArith QArith Qabs Qcanon Bool Lia Lqa.
From DV Require Import Model.Json Model.JsonRun Proofs.JsonFacts.
Import ListNotations.

Local Open Scope Z_scope.

Lemma rhe_cases (n : Z) (d : positive) :
  let fl := n / Zpos d in let r := n mod Zpos d in
  n = Zpos d * fl + r /\ 0 <= r < Zpos d /\
  ((rhe (n # d) = fl /\ 2 * r <= Zpos d) \/ (rhe (n # d) = fl + 1 /\ Zpos d <= 2 * r)).
Proof.
  intros fl r. pose proof (Z.div_mod n (Zpos d) ltac:(lia)) as Hdm.
  pose proof (Z.mod_pos_bound n (Zpos d) ltac:(lia)) as Hb.
  split; [exact Hdm|]. split; [exact Hb|]. unfold rhe. simpl Qnum. simpl Qden. fold fl. fold r.
  destruct (2 * r <? Zpos d) eqn:E1.
  - apply Z.ltb_lt in E1. left. split; [reflexivity| lia].
  - apply Z.ltb_ge in E1. destruct (Zpos d <? 2 * r) eqn:E2.
    + right. split; [reflexivity| lia].
    + apply Z.ltb_ge in E2. destruct (Z.even fl); [left| right]; split; try reflexivity; lia.
Qed.

(* nearest integer: the error is at most one half *)
Lemma rhe_bound (x : Q) : (Qabs (inject_Z (rhe x) - x) <= 1 # 2)%Q.
Proof.
  destruct x as [n d]. destruct (rhe_cases n d) as [Hdm [Hb Hc]].
  apply Qabs_Qle_condition.
  destruct Hc as [[-> H]|[-> H]]; unfold Qle, Qminus, Qplus, Qopp, inject_Z; simpl; nia.
Qed.

Lemma rhe_int (x : Q) z : (x == inject_Z z)%Q -> rhe x = z.
Proof.
  destruct x as [n d]. unfold Qeq, inject_Z. simpl. intros H.
  destruct (rhe_cases n d) as [Hdm [Hb Hc]]. destruct Hc as [[-> Hr]|[-> Hr]]; nia.
Qed.

Lemma rhe_ge (x : Q) z : (inject_Z z <= x)%Q -> z <= rhe x.
Proof.
  destruct x as [n d]. unfold Qle, inject_Z. simpl. intros H.
  destruct (rhe_cases n d) as [Hdm [Hb Hc]]. destruct Hc as [[-> Hr]|[-> Hr]]; nia.
Qed.

Lemma rhe_le (x : Q) z : (x <= inject_Z z)%Q -> rhe x <= z.
Proof.
  destruct x as [n d]. unfold Qle, inject_Z. simpl. intros H.
  destruct (rhe_cases n d) as [Hdm [Hb Hc]]. destruct Hc as [[-> Hr]|[-> Hr]]; nia.
Qed.

Local Open Scope Q_scope.

Definition half_unit : Q := 5 # 1000000000.

Lemma make_e8 (z : Z) : z # e8 == inject_Z z * (1 # e8).
Proof. unfold Qeq, inject_Z, Qmult. simpl. lia. Qed.

Lemma round8Q_bound (y : Q) : Qabs (round8Q y - y) <= half_unit.
Proof.
  unfold round8Q. pose proof (rhe_bound (y * inject_Z (Zpos e8))) as H.
  apply Qabs_Qle_condition in H. apply Qabs_Qle_condition. rewrite make_e8.
  set (r := inject_Z (rhe (y * inject_Z (Zpos e8)))) in *.
  change (inject_Z (Zpos e8)) with (100000000 # 1) in H. unfold half_unit.
  change (1 # e8) with (1 # 100000000). lra.
Qed.

Lemma this_round8 (x : Qc) : this (round8 x) == round8Q (this x).
Proof. unfold round8, Q2Qc. cbn [this]. apply Qred_correct. Qed.

(* C13_round8_bound *)
Theorem round8_bound (x : Qc) : Qabs (this (round8 x) - this x) <= half_unit.
Proof. rewrite this_round8. apply round8Q_bound. Qed.

Lemma round8Q_grid (q : Q) z : q == z # e8 -> round8Q q = z # e8.
Proof.
  intros H. unfold round8Q. f_equal. apply rhe_int. rewrite H, make_e8.
  change (inject_Z (Zpos e8)) with (100000000 # 1). change (1 # e8) with (1 # 100000000). field.
Qed.

(* C13_round8_idem: a second save writes the same numbers *)
Theorem round8_idem (x : Qc) : round8 (round8 x) = round8 x.
Proof.
  unfold round8 at 1. rewrite (round8Q_grid (this (round8 x)) (rhe (this x * inject_Z (Zpos e8)))).
  - reflexivity.
  - rewrite this_round8. reflexivity.
Qed.

(* rounding never crosses a grid point: bounds that are multiples of 10^-8 survive *)
Theorem round8_ge (x : Qc) z : z # e8 <= this x -> z # e8 <= this (round8 x).
Proof.
  intros H. rewrite this_round8. unfold round8Q.
  assert (Hz : (z <= rhe (this x * inject_Z (Zpos e8)))%Z).
  { apply rhe_ge. rewrite make_e8 in H. change (inject_Z (Zpos e8)) with (100000000 # 1).
    change (1 # e8) with (1 # 100000000) in H. lra. }
  unfold Qle. simpl. nia.
Qed.

Theorem round8_le (x : Qc) z : this x <= z # e8 -> this (round8 x) <= z # e8.
Proof.
  intros H. rewrite this_round8. unfold round8Q.
  assert (Hz : (rhe (this x * inject_Z (Zpos e8)) <= z)%Z).
  { apply rhe_le. rewrite make_e8 in H. change (inject_Z (Zpos e8)) with (100000000 # 1).
    change (1 # e8) with (1 # 100000000) in H. lra. }
  unfold Qle. simpl. nia.
Qed.

(* ---------- sums ---------- *)
Lemma this_plus (a b : Qc) : this (a + b)%Qc == this a + this b.
Proof. unfold Qcplus, Q2Qc. cbn [this]. apply Qred_correct. Qed.

Lemma sum_round8_bound (ws : list Qc) :
  Qabs (this (qcsum (map round8 ws)) - this (qcsum ws)) <= inject_Z (Z.of_nat (length ws)) * half_unit.
Proof.
  induction ws as [|w tl IH].
  - vm_compute. discriminate.
  - cbn [map qcsum length]. rewrite !this_plus.
    pose proof (round8_bound w) as Hw. apply Qabs_Qle_condition in Hw. apply Qabs_Qle_condition in IH.
    apply Qabs_Qle_condition.
    rewrite Nat2Z.inj_succ. unfold Z.succ. rewrite inject_Z_plus.
    set (n := inject_Z (Z.of_nat (length tl))) in *.
    change (inject_Z 1) with (1 # 1). unfold half_unit in *. lra.
Qed.

(* C13_guards_pass, sums / Categorical / Isotonic: a vector whose exact sum is within delta of 1 passes
   np.isclose(sum, 1) after rounding as soon as n * 5e-9 + delta <= 1e-8 + 1e-5 *)
Theorem sum_ok_after_rounding (ws : list Qc) (delta : Q) :
  Qabs (this (qcsum ws) - 1) <= delta ->
  inject_Z (Z.of_nat (length ws)) * half_unit + delta <= close_tol ->
  sum_ok (map round8 ws) = true.
Proof.
  intros Hs Hn. unfold sum_ok, isclose1. apply Qle_bool_iff.
  pose proof (sum_round8_bound ws) as Hb.
  apply Qabs_Qle_condition in Hs. apply Qabs_Qle_condition in Hb. apply Qabs_Qle_condition.
  set (n := inject_Z (Z.of_nat (length ws))) in *. lra.
Qed.

Theorem normalised_sum_ok (ws : list Qc) :
  qcsum ws = 1%Qc -> (length ws <= 2000)%nat -> sum_ok (map round8 ws) = true.
Proof.
  intros Hs Hn. apply (sum_ok_after_rounding ws 0).
  - rewrite Hs. vm_compute. discriminate.
  - assert (H : inject_Z (Z.of_nat (length ws)) <= 2000 # 1) by (unfold Qle, inject_Z; simpl; lia).
    unfold half_unit, close_tol. set (n := inject_Z (Z.of_nat (length ws))) in *. lra.
Qed.

(* C13_guards_pass, Bernoulli and Gaussian: the guards are comparisons with grid points *)
Theorem bernoulli_guard_after_rounding (sc : list nat) (p : Qc) :
  leaf_ok CBernoulli sc [JNum p] = true -> leaf_ok CBernoulli sc [JNum (round8 p)] = true.
Proof.
  unfold leaf_ok, jnum, qle. rewrite !andb_true_iff, !Qle_bool_iff. intros [H0 H1].
  assert (E0 : this 0%Qc == 0 # e8) by (vm_compute; reflexivity).
  assert (E1 : this 1%Qc == 100000000 # e8) by (vm_compute; reflexivity).
  rewrite E0, E1 in *. split; [now apply round8_ge| now apply round8_le].
Qed.

Theorem gaussian_guard_after_rounding (sc : list nat) (m sd : Qc) :
  leaf_ok CGaussian sc [JNum m; JNum sd] = true ->
  leaf_ok CGaussian sc [JNum (round8 m); JNum (round8 sd)] = true.
Proof.
  unfold leaf_ok, jnum, qle. rewrite !Qle_bool_iff. intros H.
  assert (E : this sigma_min == 1000 # e8) by (vm_compute; reflexivity).
  rewrite E in *. now apply round8_ge.
Qed.

(* ---------- recorded findings and the repaired Gaussian bound ---------- *)
(* 7000 equal weights sum to one exactly, and fail the guard after rounding *)
Definition n7000 : nat := Z.to_nat 7000.
Theorem many_entries_refuted :
  qcsum (repeat (qq 1 7000) n7000) = 1%Qc /\ sum_ok (map round8 (repeat (qq 1 7000) n7000)) = false.
Proof. split; [apply Qc_is_canon|]; vm_compute; reflexivity. Qed.

Definition dup_circuit : list qsnode :=
  [Build_snode 0%nat (SSum [qq 1 2; qq 1 2]) [0%nat] [1%nat; 1%nat];
   Build_snode 1%nat (SLeaf CBernoulli [JNum (qq 1 4)]) [0%nat] []].
(* a parent that lists the same child twice: one edge survives (with the last index) and the loaded
   parent has a None child *)
Theorem multi_edge_refuted :
  gedges (qspn_to_graph dup_circuit) = [((1%nat, 0%nat), 1%nat)] /\
  exists ns, qgraph_to_spn (qspn_to_graph dup_circuit) = OK ns /\
             map (@lkids Qc) ns = [[None; Some 1%nat]; []].
Proof. split; [vm_compute; reflexivity|]. eexists. split; vm_compute; reflexivity. Qed.

(* the pinned Gaussian constructor required stddev > 1e-5 and so rejected what fit() produces *)
Definition gauss_ok_pinned (sd : Qc) : bool := negb (qle sd sigma_min).
Theorem gauss_min_sigma_pinned_refuted :
  round8 sigma_min = sigma_min /\ gauss_ok_pinned (round8 sigma_min) = false /\
  leaf_ok CGaussian [0%nat] [JNum 0%Qc; JNum (round8 sigma_min)] = true.
Proof. split; [apply Qc_is_canon|split]; vm_compute; reflexivity. Qed.

(* ---------- the hypotheses of the round-trip theorem are satisfiable ---------- *)
Definition ex_circuit : list qsnode :=
  [Build_snode 0%nat (SSum [qq 1 3; qq 2 3]) [0%nat; 1%nat] [1%nat; 2%nat];
   Build_snode 1%nat SProd [0%nat; 1%nat] [3%nat; 4%nat];
   Build_snode 2%nat SProd [0%nat; 1%nat] [3%nat; 5%nat];
   Build_snode 3%nat (SLeaf CBernoulli [JNum (qq 1 7)]) [0%nat] [];
   Build_snode 4%nat (SLeaf CGaussian [JNum (qq 1 3); JNum (qq 1 100000)]) [1%nat] [];
   Build_snode 5%nat (SLeaf CCategorical [JArr [JInt 0; JInt 1; JInt 2]; JArr [JNum (qq 1 3); JNum (qq 1 3); JNum (qq 1 3)]]) [1%nat] []].

Example ex_circuit_hypotheses :
  NoDup (map (@sid Qc) ex_circuit) /\ (forall n, In n ex_circuit -> NoDup (skids n)) /\
  (forall n c, In n ex_circuit -> In c (skids n) -> In c (map (@sid Qc) ex_circuit)) /\
  In 0%nat (map (@sid Qc) ex_circuit) /\
  (forall n, In n ex_circuit -> node_guard Qc round8 sum_ok leaf_ok n).
Proof.
  split; [|split; [|split; [|split]]].
  - simpl. repeat constructor; simpl; intuition discriminate.
  - intros n Hn. simpl in Hn. repeat (destruct Hn as [<-|Hn]; [simpl; repeat constructor; simpl; intuition discriminate|]).
    destruct Hn.
  - intros n c Hn Hc. simpl in Hn. repeat (destruct Hn as [<-|Hn]; [simpl in *; intuition|]). destruct Hn.
  - simpl. auto.
  - intros n Hn. simpl in Hn.
    repeat (destruct Hn as [<-|Hn]; [split; vm_compute; reflexivity|]). destruct Hn.
Qed.

Example ex_circuit_roundtrip : qgraph_to_spn (qspn_to_graph ex_circuit) = OK (map qexpected ex_circuit).
Proof.
  destruct ex_circuit_hypotheses as [H1 [H2 [H3 [H4 H5]]]].
  exact (roundtrip_structure Qc round8 sum_ok leaf_ok ex_circuit H1 H2 H3 H4 H5).
Qed.
