(* Proofs/MpePositiveQc.v — C06 positivity clause at the exact rationals, for the built-in leaves:
   a decidable side condition (non-negative parameters, each table leaf's mode has positive mass,
   CLT leaves with distinct variables inside the node scope) makes every node satisfy node_side. *)
From Coq Require Import List Arith ZArith QArith Qcanon Lia Lqa Bool.
From DV Require Import Model.Core Model.Clt Model.Leaves Model.Mpe Model.QcInst Model.Check Model.MpeRun
  Proofs.CoreFacts Proofs.CltFacts Proofs.MpeFacts Proofs.CheckFacts Proofs.MpePositive Proofs.CltPositive.
Import ListNotations.
Local Open Scope nat_scope.

Definition qpos (a : Qc) : Prop := (0 < a)%Qc.
Definition qnn (a : Qc) : Prop := (0 <= a)%Qc.
Definition qposb (a : Qc) : bool := negb (Qle_bool (this a) 0).
Definition qnnb (a : Qc) : bool := Qle_bool 0 (this a).

Lemma this_add a b : (this (a + b)%Qc == this a + this b)%Q.
Proof. change (this (a + b)%Qc) with (Qred (this a + this b)). apply Qred_correct. Qed.
Lemma this_mul a b : (this (a * b)%Qc == this a * this b)%Q.
Proof. change (this (a * b)%Qc) with (Qred (this a * this b)). apply Qred_correct. Qed.

Ltac qc := unfold qnn, qpos, Qcle, Qclt in *; change (this 0%Qc) with 0%Q in *; change (this 1%Qc) with 1%Q in *;
           rewrite ?this_add, ?this_mul in *.
Lemma qposb_ok a : qposb a = true -> qpos a.
Proof.
  unfold qposb. qc. intro H. apply negb_true_iff in H.
  destruct (Qlt_le_dec 0 (this a)) as [Hl|Hl]; [exact Hl|]. apply Qle_bool_iff in Hl. congruence.
Qed.
Lemma qnnb_ok a : qnnb a = true -> qnn a.
Proof. unfold qnnb, qnn, Qcle. intro H. apply Qle_bool_iff in H. exact H. Qed.

Lemma q_nn_add a b : qnn a -> qnn b -> qnn (a + b)%Qc.
Proof. qc. lra. Qed.
Lemma q_nn_mul a b : qnn a -> qnn b -> qnn (a * b)%Qc.
Proof. qc. intros. now apply Qmult_le_0_compat. Qed.
Lemma q_pos_add_inv a b : qnn a -> qnn b -> qpos (a + b)%Qc -> qpos a \/ qpos b.
Proof.
  qc. intros Ha Hb H.
  destruct (Qlt_le_dec 0 (this a)); [now left | right; lra].
Qed.
Lemma q_pos_add_l a b : qpos a -> qnn b -> qpos (a + b)%Qc.
Proof. qc. lra. Qed.
Lemma q_pos_add_r a b : qnn a -> qpos b -> qpos (a + b)%Qc.
Proof. qc. lra. Qed.
Lemma q_pos_mul a b : qpos a -> qpos b -> qpos (a * b)%Qc.
Proof. qc. intros. now apply Qmult_lt_0_compat. Qed.
Lemma q_pos_mul_inv a b : qnn a -> qnn b -> qpos (a * b)%Qc -> qpos a /\ qpos b.
Proof.
  qc. intros Ha Hb H.
  destruct (Qlt_le_dec 0 (this a)) as [Hl|Hl].
  - split; [exact Hl|]. destruct (Qlt_le_dec 0 (this b)) as [Hl'|Hl']; [exact Hl'|].
    assert (Hb0 : (this b == 0)%Q) by lra. rewrite Hb0 in H. lra.
  - assert (Ha0 : (this a == 0)%Q) by lra. rewrite Ha0 in H. lra.
Qed.
Lemma q_not_pos_0 : ~ qpos 0%Qc.
Proof. qc. lra. Qed.
Lemma q_pos_1 : qpos 1%Qc. Proof. qc. lra. Qed.
Lemma q_nn_0 : qnn 0%Qc. Proof. qc. lra. Qed.
Lemma q_nn_1 : qnn 1%Qc. Proof. qc. lra. Qed.
Lemma q_pos_nn a : qpos a -> qnn a.
Proof. qc. lra. Qed.

Lemma sel_first_l a b : sel_first a b = true -> qpos b -> qpos a.
Proof. unfold sel_first. qc. intros H. apply Qle_bool_iff in H. lra. Qed.
Lemma sel_first_r a b : sel_first a b = false -> qpos a -> qpos b.
Proof.
  unfold sel_first. qc. intros H Ha.
  destruct (Qlt_le_dec 0 (this b)) as [Hl|Hl]; [exact Hl|].
  assert (Hle : (this b <= this a)%Q) by lra. apply Qle_bool_iff in Hle. congruence.
Qed.
Lemma qmax_sel a b : qmax a b = if sel_first a b then a else b.
Proof. reflexivity. Qed.

(* ---- the decidable side condition ---- *)
Definition clt_nnb (c : clt Qc) : bool := forallb (forallb (forallb qnnb)) (cparams c).
Definition node_sideb (n : qnode) : bool :=
  match nkind n with
  | KLeaf (LTab v tab) =>
      existsb (Nat.eqb v) (nscope n) && forallb (fun xp => qnnb (snd xp)) tab &&
      qposb (lookup Qc 0%Qc tab (tab_mode Qc sel_first tab))
  | KLeaf (LClt c) =>
      let vs := vars Qc (clt_tree Qc 0%Qc c) in
      nodupb vs && forallb (fun v => existsb (Nat.eqb v) (nscope n)) vs && clt_nnb c
  | KSum ws => forallb qnnb ws && negb (match nkids n with [] => true | _ => false end)
  | KProd => true
  end.
Definition side_b (t : qtable) : bool := forallb node_sideb t.

Lemma existsb_In v l : existsb (Nat.eqb v) l = true -> In v l.
Proof. intro H. apply existsb_exists in H. destruct H as [x [Hx He]]. apply Nat.eqb_eq in He. now subst. Qed.

Lemma lookup_nn tab : forallb (fun xp : Z * Qc => qnnb (snd xp)) tab = true -> forall x, qnn (lookup Qc 0%Qc tab x).
Proof.
  induction tab as [|[k p] tab IH]; cbn; intros H x; [apply q_nn_0|].
  apply andb_true_iff in H. destruct H as [H1 H2]. destruct (Z.eqb k x); [now apply qnnb_ok | now apply IH].
Qed.

Lemma nth_Forall {A} (P : A -> Prop) l d i : Forall P l -> P d -> P (nth i l d).
Proof. intros Hl Hd. destruct (Nat.lt_ge_cases i (length l)); [rewrite Forall_forall in Hl; apply Hl, nth_In; lia | now rewrite nth_overflow]. Qed.

Lemma cpt_nn c : clt_nnb c = true -> forall i a b, qnn (cpt_fn Qc 0%Qc c i a b).
Proof.
  intros H i a b. unfold cpt_fn. destruct (in01 a && in01 b)%bool; [|apply q_nn_0].
  unfold clt_nnb in H. rewrite forallb_forall in H.
  apply nth_Forall; [|apply q_nn_0]. apply nth_Forall; [|constructor].
  apply (nth_Forall (fun l2 => Forall (fun l1 => Forall qnn l1) l2)); [|constructor].
  rewrite Forall_forall. intros l2 H2. specialize (H l2 H2). rewrite forallb_forall in H.
  rewrite Forall_forall. intros l1 H1. specialize (H l1 H1). rewrite forallb_forall in H.
  rewrite Forall_forall. intros x Hx. apply qnnb_ok. now apply H.
Qed.
Lemma build_nn c : clt_nnb c = true -> forall fuel i, ct_nonneg Qc qnn (build Qc 0%Qc fuel c i).
Proof.
  intros H. induction fuel as [|f IH]; intros i; cbn; constructor; try (now apply cpt_nn); [constructor|].
  rewrite Forall_map, Forall_forall. intros j _. apply IH.
Qed.

Lemma node_sideb_sound n : node_sideb n = true -> node_side Qc qpos qnn qleaf qleaf_val (qfill sel_first) n.
Proof.
  unfold node_sideb, node_side. destruct (nkind n) as [[v tab|c]|ws|]; intros H.
  - apply andb_true_iff in H. destruct H as [H Hm]. apply andb_true_iff in H. destruct H as [Hv Hnn].
    apply existsb_In in Hv. cbn.
    split; [intros r1 r2 Hr; now rewrite (Hr v Hv)|].
    split; [intros r; destruct (r v); [now apply lookup_nn | apply q_nn_1]|].
    split.
    + intros r Hp. destruct (r v) as [x|] eqn:E; cbn; [now rewrite E|].
      rewrite upd_same. now apply qposb_ok.
    + intros r u Hu. destruct (r v); cbn in Hu; [contradiction|]. destruct Hu as [<-|[]]. exact Hv.
  - cbn in H. apply andb_true_iff in H. destruct H as [H Hnn]. apply andb_true_iff in H. destruct H as [Hnd Hsub].
    apply (nodupb_sound) in Hnd. rewrite forallb_forall in Hsub.
    assert (Hin : forall v, In v (vars Qc (clt_tree Qc 0%Qc c)) -> In v (nscope n)) by (intros v Hv; apply existsb_In; now apply Hsub).
    assert (Hct : ct_nonneg Qc qnn (clt_tree Qc 0%Qc c)) by (apply build_nn; exact Hnn).
    cbn. unfold clt_val.
    split; [intros r1 r2 Hr; apply up_ext; intros v Hv; apply Hr; now apply Hin|].
    split; [intros r; apply (up_nonneg Qc 0%Qc 1%Qc Qcplus qmax Qcmult qpos qnn) with (sel := sel_first);
            first [exact q_nn_0 | exact q_nn_1 | exact q_pos_1 | exact q_not_pos_0 | exact q_nn_add | exact q_nn_mul | exact q_pos_add_inv
                  | exact q_pos_add_l | exact q_pos_add_r | exact q_pos_mul_inv | exact q_pos_mul | exact qmax_sel
                  | exact sel_first_l | exact sel_first_r | exact Hct]|].
    split.
    + intros r Hp.
      apply (clt_decode_pos Qc 0%Qc 1%Qc Qcplus qmax Qcmult qpos qnn q_nn_0 q_nn_1 q_pos_1 q_not_pos_0 q_nn_add q_nn_mul
               q_pos_add_inv q_pos_add_l q_pos_add_r q_pos_mul_inv q_pos_mul sel_first qmax_sel sel_first_l sel_first_r); assumption.
    + intros r v Hv. apply Hin. now apply (assign_vars Qc 0%Qc 1%Qc qmax Qcmult sel_first) in Hv.
  - apply andb_true_iff in H. destruct H as [Hw Hk]. split.
    + rewrite Forall_forall. rewrite forallb_forall in Hw. intros x Hx. apply qnnb_ok. now apply Hw.
    + destruct (nkids n); [discriminate | congruence].
  - exact I.
Qed.

Lemma side_b_sound t : side_b t = true -> Forall (node_side Qc qpos qnn qleaf qleaf_val (qfill sel_first)) t.
Proof. unfold side_b. rewrite forallb_forall, Forall_forall. intros H n Hn. apply node_sideb_sound. now apply H. Qed.

(* C06, positivity clause, on the exact instance: any valid circuit over the built-in leaves, any row *)
Theorem mpe_positive_qc (dom : nat -> list Z) (t : qtable) (r : row) :
    valid Qc 0%Qc Qcplus dom qleaf qleaf_val t -> side_b t = true -> t <> [] ->
    (0 < qroot t r)%Qc -> (0 < qroot t (qmpe sel_first t r))%Qc.
Proof.
  intros Hv Hs Hne Hp.
  exact (mpe_row_pos Qc 0%Qc 1%Qc Qcplus Qcmult qpos qnn q_nn_0 q_nn_1 q_pos_1 q_nn_add q_nn_mul q_pos_add_inv q_pos_add_l
           q_pos_add_r q_pos_mul_inv q_pos_mul q_not_pos_0 sel_first sel_first_l sel_first_r dom qleaf qleaf_val (qfill sel_first)
           t r Hv (side_b_sound t Hs) Hne Hp).
Qed.

(* non-vacuity: the example DAG of Proofs/Examples.v (shared leaf, CLT leaf) meets every hypothesis *)
From DV Require Import Proofs.Examples.
Example ex_side_b : side_b ex_t = true.
Proof. vm_compute. reflexivity. Qed.
Example ex_mpe_positive :
  let r := mkrow [None; Some 2%Z; None; None; None; None; None; Some 1%Z] in
  (0 < qroot ex_t r)%Qc /\ (0 < qroot ex_t (qmpe sel_first ex_t r))%Qc.
Proof.
  intro r. assert (H : (0 < qroot ex_t r)%Qc) by (vm_compute; reflexivity). split; [exact H|].
  apply (mpe_positive_qc (dom ex_doms)); [apply ex_valid | exact ex_side_b | discriminate | exact H].
Qed.
