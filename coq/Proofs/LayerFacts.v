(* Proofs/LayerFacts.v — the layering computed by topological_order_layered puts every node strictly
   after all its parents (and in exactly one layer, being a function of the node). *)
From Coq Require Import List Arith Bool Lia.
From DV Require Import Model.Core Model.Sched.
Import ListNotations.

Section LayerFacts.
  Variable T : Type.
  Variable leaf : Type.
  Notation table := (table T leaf).
  Notation dnode := (dummy_node T leaf).

  Definition ge_opt (a b : option nat) : Prop :=   (* a is at least b *)
    match b with None => True | Some y => exists x, a = Some x /\ y <= x end.
  Lemma ge_opt_refl a : ge_opt a a.
  Proof. destruct a; cbn; eauto. Qed.
  Lemma ge_opt_trans a b c : ge_opt a b -> ge_opt b c -> ge_opt a c.
  Proof.
    destruct c as [z|]; cbn; [|auto]. intros H1 [y [-> Hy]]. cbn in H1. destruct H1 as [x [-> Hx]]. exists x. split; [reflexivity | lia].
  Qed.

  Lemma nth_upd {A} (d : list A) k (x dflt : A) j : k < length d ->
    nth j (firstn k d ++ [x] ++ skipn (S k) d) dflt = if Nat.eqb j k then x else nth j d dflt.
  Proof.
    intros Hk. destruct (Nat.eqb_spec j k) as [->|Hne].
    - rewrite app_nth2; rewrite firstn_length; [|lia]. replace (k - Nat.min k (length d)) with 0 by lia. reflexivity.
    - destruct (Nat.lt_ge_cases j k).
      + rewrite app_nth1 by (rewrite firstn_length; lia). rewrite <- (firstn_skipn k d) at 2.
        rewrite app_nth1 by (rewrite firstn_length; lia). reflexivity.
      + rewrite app_nth2 by (rewrite firstn_length; lia). rewrite firstn_length.
        replace (j - Nat.min k (length d)) with (S (j - S k)) by lia. cbn [app nth].
        rewrite <- (firstn_skipn (S k) d) at 2. rewrite app_nth2 by (rewrite firstn_length; lia).
        rewrite firstn_length. f_equal. lia.
  Qed.
  Lemma upd_length {A} (d : list A) k (x : A) : k < length d -> length (firstn k d ++ [x] ++ skipn (S k) d) = length d.
  Proof. intros. rewrite !app_length, firstn_length, skipn_length. cbn. lia. Qed.

  (* bump: every listed kid ends at least at v, nothing decreases, other entries are untouched *)
  Lemma bump_spec ks : forall d v, Forall (fun k => k < length d) ks ->
      length (bump d ks v) = length d /\
      (forall j, ge_opt (nth j (bump d ks v) None) (nth j d None)) /\
      (forall j, ~ In j ks -> nth j (bump d ks v) None = nth j d None) /\
      (forall k, In k ks -> ge_opt (nth k (bump d ks v) None) (Some v)).
  Proof.
    induction ks as [|k ks IH]; intros d v Hk; cbn [bump].
    - repeat split; auto; [intros; apply ge_opt_refl | intros k []].
    - inversion Hk as [|? ? Hk1 Hk2]; subst.
      set (new := match nth k d None with Some x => Some (Nat.max x v) | None => Some v end).
      set (d1 := firstn k d ++ [new] ++ skipn (S k) d).
      assert (Hl1 : length d1 = length d) by (now apply upd_length).
      assert (Hk2' : Forall (fun k0 => k0 < length d1) ks) by (now rewrite Hl1).
      destruct (IH d1 v Hk2') as (Hlen & Hmono & Hother & Hks).
      assert (Hd1 : forall j, ge_opt (nth j d1 None) (nth j d None)).
      { intros j. unfold d1. rewrite nth_upd by exact Hk1. destruct (Nat.eqb_spec j k) as [->|]; [|apply ge_opt_refl].
        unfold new. destruct (nth k d None) as [x|]; cbn; [|exact I]. exists (Nat.max x v). split; [reflexivity | lia]. }
      assert (Hnew : ge_opt (nth k d1 None) (Some v)).
      { unfold d1. rewrite nth_upd by exact Hk1. rewrite Nat.eqb_refl. unfold new.
        destruct (nth k d None) as [x|]; cbn; eexists; split; try reflexivity; lia. }
      split; [lia|]. split; [|split].
      + intros j. eapply ge_opt_trans; [apply Hmono | apply Hd1].
      + intros j Hj. rewrite Hother by (intro; apply Hj; now right). unfold d1. rewrite nth_upd by exact Hk1.
        destruct (Nat.eqb_spec j k) as [->|]; [exfalso; apply Hj; now left | reflexivity].
      + intros k' [<-|Hin]; [|now apply Hks]. eapply ge_opt_trans; [apply Hmono | exact Hnew].
  Qed.

  Definition wft (t : table) : Prop := forall j, j < length t -> Forall (fun k => k < j) (nkids (nth j t dnode)).

  (* sweep from stage i: entries at index >= i are untouched, nothing decreases, and every processed
     node's children end strictly deeper than the node *)
  Lemma sweep_spec (t : table) : wft t -> forall i d, i <= length t -> length d = length t ->
      length (sweep T leaf t i d) = length t /\
      (forall j, ge_opt (nth j (sweep T leaf t i d) None) (nth j d None)) /\
      (forall j, i <= j -> nth j (sweep T leaf t i d) None = nth j d None) /\
      (forall j k x, j < i -> In k (nkids (nth j t dnode)) -> nth j (sweep T leaf t i d) None = Some x ->
                     ge_opt (nth k (sweep T leaf t i d) None) (Some (S x))).
  Proof.
    intros Hw. induction i as [|i IH]; intros d Hi Hd; cbn [sweep].
    - repeat split; auto; [intros; apply ge_opt_refl | intros; lia].
    - set (kids := nkids (nth i t dnode)).
      assert (Hkids : Forall (fun k => k < i) kids) by (apply Hw; lia).
      set (d' := match nth i d None with Some x => bump d kids (S x) | None => d end).
      assert (Hkd : Forall (fun k => k < length d) kids) by (eapply Forall_impl; [|exact Hkids]; cbn; intros; lia).
      assert (Hd' : length d' = length t /\ (forall j, ge_opt (nth j d' None) (nth j d None)) /\
                    (forall j, i <= j -> nth j d' None = nth j d None) /\
                    (forall k x, In k kids -> nth i d None = Some x -> ge_opt (nth k d' None) (Some (S x)))).
      { unfold d'. destruct (nth i d None) as [x|] eqn:E.
        - destruct (bump_spec kids d (S x) Hkd) as (H1 & H2 & H3 & H4). split; [lia|]. split; [exact H2|]. split.
          + intros j Hj. apply H3. intro Hin. rewrite Forall_forall in Hkids. specialize (Hkids j Hin). lia.
          + intros k x' Hk Hx. inversion Hx; subst. now apply H4.
        - split; [exact Hd|]. split; [intros; apply ge_opt_refl|]. split; [reflexivity | intros; discriminate]. }
      destruct Hd' as (Hl' & Hm' & Ho' & Hk').
      destruct (IH d' ltac:(lia) Hl') as (H1 & H2 & H3 & H4).
      split; [exact H1|]. split; [|split].
      + intros j. eapply ge_opt_trans; [apply H2 | apply Hm'].
      + intros j Hj. rewrite H3 by lia. apply Ho'. lia.
      + intros j k x Hj Hk Hx. destruct (Nat.eq_dec j i) as [->|Hne].
        * rewrite H3 in Hx by lia. rewrite Ho' in Hx by lia.
          eapply ge_opt_trans; [apply H2 | now apply (Hk' k x)].
        * apply (H4 j k x); [lia | exact Hk | exact Hx].
  Qed.

  (* C08_layering *)
  Theorem layering (t : table) : wft t -> forall j k x, j < length t -> In k (nkids (nth j t dnode)) ->
      nth j (layer_of T leaf t) None = Some x ->
      exists y, nth k (layer_of T leaf t) None = Some y /\ x < y.
  Proof.
    intros Hw j k x Hj Hk Hx. unfold layer_of in *.
    set (d0 := repeat None (length t - 1) ++ [Some 0]) in *.
    assert (Hd0 : length d0 = length t) by (unfold d0; rewrite app_length, repeat_length; cbn; lia).
    destruct (sweep_spec t Hw (length t) d0 (le_n _) Hd0) as (_ & _ & _ & H4).
    destruct (H4 j k x Hj Hk Hx) as [y [Hy Hle]]. exists y. split; [exact Hy | lia].
  Qed.

  (* the root is in layer 0 *)
  Theorem root_layer (t : table) : wft t -> 0 < length t -> nth (length t - 1) (layer_of T leaf t) None = Some 0.
  Proof.
    intros Hw Hl. unfold layer_of.
    set (d0 := repeat None (length t - 1) ++ [Some 0]).
    assert (Hd0 : length d0 = length t) by (unfold d0; rewrite app_length, repeat_length; cbn; lia).
    (* the root has no parent inside the table: it is never bumped; it is processed first *)
    destruct (length t) as [|n] eqn:En; [lia|]. cbn [sweep]. replace (S n - 1) with n by lia.
    assert (Hr : nth n d0 None = Some 0).
    { unfold d0. replace (S n - 1) with n by lia. rewrite app_nth2; rewrite repeat_length; [|lia]. now rewrite Nat.sub_diag. }
    rewrite Hr.
    assert (Hkids : Forall (fun k => k < n) (nkids (nth n t dnode))) by (apply Hw; lia).
    assert (Hkd : Forall (fun k => k < length d0) (nkids (nth n t dnode))).
    { eapply Forall_impl; [|exact Hkids]. intros a Ha. cbv beta in *. rewrite Hd0. lia. }
    destruct (bump_spec (nkids (nth n t dnode)) d0 1 Hkd) as (H1 & _ & H3 & _).
    assert (Hle : n <= length t) by lia.
    assert (Hlb : length (bump d0 (nkids (nth n t dnode)) 1) = length t) by lia.
    destruct (sweep_spec t Hw n (bump d0 (nkids (nth n t dnode)) 1) Hle Hlb) as (_ & _ & H3' & _).
    rewrite H3' by lia. rewrite H3; [exact Hr|]. intro Hin. rewrite Forall_forall in Hkids. specialize (Hkids n Hin). lia.
  Qed.
End LayerFacts.
