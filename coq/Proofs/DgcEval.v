(* Proofs/DgcEval.v — facts about the evaluation `eval` of Model/Dgc.v over any commutative semiring,
   for EVERY layer list: a fully missing input evaluates to one at every node (log-probability 0),
   a node that does not use a pixel does not depend on it, and a node that uses a pixel exactly once
   marginalises it exactly (sum over the pixel's values = value with the pixel missing). *)
From Coq Require Import List ZArith Bool Lia Ring.
From DV Require Import Model.Dgc Proofs.DgcFacts.
Import ListNotations.
Open Scope Z_scope.

Section DgcEval.
  Variable T : Type.
  Variables (t0 t1 : T) (tadd tmul : T -> T -> T).
  Hypothesis SRth : semi_ring_theory t0 t1 tadd tmul (@eq T).
  Add Ring TRing : SRth.
  Infix "+" := tadd. Infix "*" := tmul.
  Variable wt : nat -> Z -> Z -> Z -> Z -> T.
  Notation zsum := (zsum T t0 tadd).
  Notation eval := (Dgc.eval T t0 t1 tadd tmul wt) (only parsing).

  (* softmax weights of every sum node add up to one *)
  Fixpoint wnorm (ls : list layer) : Prop :=
    match ls with
    | [] => True
    | L :: rest =>
      match lk L with
      | KSumL => forall c h w, zsum (map (fun ci => wt (length rest) c ci h w) (zrange (l_inc L))) = t1
      | KProdL _ _ _ _ _ => True
      end /\ wnorm rest
    end.

  Lemma zsum_ext {A} (f f' : A -> T) l : (forall a, f a = f' a) -> zsum (map f l) = zsum (map f' l).
  Proof. intros H. induction l; simpl; [reflexivity|]. rewrite H, IHl. reflexivity. Qed.

  Lemma zsum_scal {A} k1 k2 (f : A -> T) l :
    zsum (map (fun a => k1 * f a * k2) l) = k1 * zsum (map f l) * k2.
  Proof. induction l; simpl; [ring|]. rewrite IHl. ring. Qed.

  Lemma zsum_add {A} (f f' : A -> T) l :
    zsum (map (fun a => f a + f' a) l) = zsum (map f l) + zsum (map f' l).
  Proof. induction l; simpl; [ring|]. rewrite IHl. ring. Qed.

  Lemma zsum_zero {A} (l : list A) : zsum (map (fun _ => t0) l) = t0.
  Proof. induction l; simpl; [reflexivity|]. rewrite IHl. ring. Qed.

  Lemma zsum_swap {A B} (F : A -> B -> T) la lb :
    zsum (map (fun a => zsum (map (fun b => F a b) lb)) la) =
    zsum (map (fun b => zsum (map (fun a => F a b) la)) lb).
  Proof.
    induction la as [|a la IH]; simpl.
    - rewrite zsum_zero. reflexivity.
    - rewrite IH, <- zsum_add. reflexivity.
  Qed.

  (* ---------- fully missing input ---------- *)
  Theorem eval_all_missing (lf : Z -> Z -> Z -> T) :
    (forall c h w, lf c h w = t1) ->
    forall ls, wnorm ls -> forall c h w, eval lf ls c h w = t1.
  Proof.
    intros Hlf ls; induction ls as [|L rest IH]; intros Hn c h w; cbn [Dgc.eval].
    - apply Hlf.
    - destruct Hn as [HL Hr]. specialize (IH Hr).
      destruct (lk L) as [pl pr s d dw|].
      + cbv zeta. repeat match goal with |- context [if ?b then _ else _] => destruct b end;
          rewrite ?IH; ring.
      + etransitivity; [|apply (HL c h w)]. apply zsum_ext. intros ci. rewrite IH. ring.
  Qed.

  Theorem root_all_missing (lf : Z -> Z -> Z -> T) (rw : Z -> Z -> T) ls C S k :
    (forall c h w, lf c h w = t1) -> wnorm ls ->
    zsum (map (rw k) (zrange (C * S * S))) = t1 ->
    eval_root T t0 t1 tadd tmul wt lf rw ls C S k = t1.
  Proof.
    intros Hlf Hn Hr. unfold eval_root. etransitivity; [|apply Hr]. apply zsum_ext. intros idx.
    destruct (unravel S idx) as [[c h] w]. rewrite eval_all_missing by assumption. ring.
  Qed.

  (* ---------- one pixel: locality and exact marginalisation ---------- *)
  Section Marg.
    Variable V : Type.
    Variable dom : list V.
    Variables px py : Z.
    Variable lfv : V -> Z -> Z -> Z -> T.      (* base-layer outputs when pixel (px,py) has value v *)
    Variable lfm : Z -> Z -> Z -> T.           (* ... when it is missing *)
    Hypothesis Hoff : forall v c h w, (h =? px) && (w =? py) = false -> lfv v c h w = lfm c h w.
    Hypothesis Hon : forall c, zsum (map (fun v => lfv v c px py) dom) = lfm c px py.

    Theorem eval_local : forall ls c h w, use2 ls h w px py = 0 ->
        forall v, eval (lfv v) ls c h w = eval lfm ls c h w.
    Proof.
      induction ls as [|L rest IH]; intros c h w Hu v; cbn [Dgc.eval use2] in *.
      - apply Hoff. rewrite (Z.eqb_sym h px), (Z.eqb_sym w py).
        destruct ((px =? h) && (py =? w)); [discriminate|reflexivity].
      - destruct (lk L) as [pl pr s d dw|]; cbv zeta in *.
        + pose proof (use2_nonneg rest (h * s - pl) (w * s - pl) px py).
          pose proof (use2_nonneg rest (h * s - pl) (w * s - pl + d) px py).
          pose proof (use2_nonneg rest (h * s - pl + d) (w * s - pl) px py).
          pose proof (use2_nonneg rest (h * s - pl + d) (w * s - pl + d) px py).
          rewrite !Z.mul_0_l, !Z.mul_1_l, !Z.add_0_r.
          destruct (inb (h * s - pl) (l_ins L)), (inb (h * s - pl + d) (l_ins L)),
                   (inb (w * s - pl) (l_ins L)), (inb (w * s - pl + d) (l_ins L)); cbn [andb] in *;
            rewrite ?IH by lia;
            reflexivity.
        + apply zsum_ext. intros ci. rewrite (IH ci h w Hu v). reflexivity.
    Qed.

    Theorem eval_marg1 : forall ls c h w, use2 ls h w px py = 1 ->
        zsum (map (fun v => eval (lfv v) ls c h w) dom) = eval lfm ls c h w.
    Proof.
      induction ls as [|L rest IH]; intros c h w Hu; cbn [Dgc.eval use2] in *.
      - destruct (Z.eqb_spec px h) as [E1|E1]; destruct (Z.eqb_spec py w) as [E2|E2]; cbn [andb] in Hu;
          try discriminate. subst h w. apply Hon.
      - destruct (lk L) as [pl pr s d dw|]; cbv zeta in *.
        + pose proof (use2_nonneg rest (h * s - pl) (w * s - pl) px py) as N00.
          pose proof (use2_nonneg rest (h * s - pl) (w * s - pl + d) px py) as N01.
          pose proof (use2_nonneg rest (h * s - pl + d) (w * s - pl) px py) as N10.
          pose proof (use2_nonneg rest (h * s - pl + d) (w * s - pl + d) px py) as N11.
          rewrite !Z.mul_0_l, !Z.mul_1_l, !Z.add_0_r.
          set (c00 := chan dw (l_inc L) c 0). set (c01 := chan dw (l_inc L) c (0 + 1)).
          set (c10 := chan dw (l_inc L) c 2). set (c11 := chan dw (l_inc L) c (2 + 1)).
          pose (G := fun cc hh ww => if inb hh (l_ins L) && inb ww (l_ins L)
                                     then Dgc.eval T t0 t1 tadd tmul wt lfm rest cc hh ww else t1).
          set (h0 := (h * s - pl)%Z) in *. set (w0 := (w * s - pl)%Z) in *.
          set (h1 := (h0 + d)%Z) in *. set (w1 := (w0 + d)%Z) in *.
          (* which factor carries the pixel *)
          assert (Hcase :
            (inb h0 (l_ins L) && inb w0 (l_ins L) = true /\ use2 rest h0 w0 px py = 1) \/
            (inb h0 (l_ins L) && inb w1 (l_ins L) = true /\ use2 rest h0 w1 px py = 1) \/
            (inb h1 (l_ins L) && inb w0 (l_ins L) = true /\ use2 rest h1 w0 px py = 1) \/
            (inb h1 (l_ins L) && inb w1 (l_ins L) = true /\ use2 rest h1 w1 px py = 1)).
          { destruct (inb h0 (l_ins L) && inb w0 (l_ins L)),
                     (inb h0 (l_ins L) && inb w1 (l_ins L)),
                     (inb h1 (l_ins L) && inb w0 (l_ins L)),
                     (inb h1 (l_ins L) && inb w1 (l_ins L)); lia. }
          (* every factor is either constant in v or marginalises *)
          assert (Hf : forall cc hh ww,
                     (use2 rest hh ww px py = 0 \/ inb hh (l_ins L) && inb ww (l_ins L) = false) ->
                     forall v, (if inb hh (l_ins L) && inb ww (l_ins L) then eval (lfv v) rest cc hh ww else t1) =
                               (if inb hh (l_ins L) && inb ww (l_ins L) then eval lfm rest cc hh ww else t1)).
          { intros cc hh ww [H0 | H0] v; [|rewrite H0; reflexivity].
            destruct (inb hh (l_ins L) && inb ww (l_ins L)); [|reflexivity]. apply eval_local; assumption. }
          assert (Hz : forall hh ww, inb hh (l_ins L) && inb ww (l_ins L) = true \/ inb hh (l_ins L) && inb ww (l_ins L) = false)
            by (intros hh ww; destruct (inb hh (l_ins L) && inb ww (l_ins L)); auto).
          destruct Hcase as [[R U] | [[R U] | [[R U] | [R U]]]]; rewrite R in *.
          * erewrite zsum_ext.
            2:{ intros v. rewrite (Hf c01 h0 w1), (Hf c10 h1 w0),
                          (Hf c11 h1 w1).
                - instantiate (1 := fun v => t1 * eval (lfv v) rest c00 h0 w0 * (G c01 h0 w1 * (G c10 h1 w0 * G c11 h1 w1))). unfold G. ring.
                - destruct (Hz h1 w1) as [E|E]; [left | right; exact E]; rewrite E in Hu; repeat match type of Hu with context [if ?cnd then _ else _] => destruct cnd end; lia.
                - destruct (Hz h1 w0) as [E|E]; [left | right; exact E]; rewrite E in Hu; repeat match type of Hu with context [if ?cnd then _ else _] => destruct cnd end; lia.
                - destruct (Hz h0 w1) as [E|E]; [left | right; exact E]; rewrite E in Hu; repeat match type of Hu with context [if ?cnd then _ else _] => destruct cnd end; lia. }
            rewrite zsum_scal, (IH c00 _ _ U). unfold G. ring.
          * erewrite zsum_ext.
            2:{ intros v. rewrite (Hf c00 h0 w0), (Hf c10 h1 w0),
                          (Hf c11 h1 w1).
                - instantiate (1 := fun v => G c00 h0 w0 * eval (lfv v) rest c01 h0 w1 * (G c10 h1 w0 * G c11 h1 w1)). unfold G. ring.
                - destruct (Hz h1 w1) as [E|E]; [left | right; exact E]; rewrite E in Hu; repeat match type of Hu with context [if ?cnd then _ else _] => destruct cnd end; lia.
                - destruct (Hz h1 w0) as [E|E]; [left | right; exact E]; rewrite E in Hu; repeat match type of Hu with context [if ?cnd then _ else _] => destruct cnd end; lia.
                - destruct (Hz h0 w0) as [E|E]; [left | right; exact E]; rewrite E in Hu; repeat match type of Hu with context [if ?cnd then _ else _] => destruct cnd end; lia. }
            rewrite zsum_scal, (IH c01 _ _ U). unfold G. ring.
          * erewrite zsum_ext.
            2:{ intros v. rewrite (Hf c00 h0 w0), (Hf c01 h0 w1),
                          (Hf c11 h1 w1).
                - instantiate (1 := fun v => (G c00 h0 w0 * G c01 h0 w1) * eval (lfv v) rest c10 h1 w0 * G c11 h1 w1). unfold G. ring.
                - destruct (Hz h1 w1) as [E|E]; [left | right; exact E]; rewrite E in Hu; repeat match type of Hu with context [if ?cnd then _ else _] => destruct cnd end; lia.
                - destruct (Hz h0 w1) as [E|E]; [left | right; exact E]; rewrite E in Hu; repeat match type of Hu with context [if ?cnd then _ else _] => destruct cnd end; lia.
                - destruct (Hz h0 w0) as [E|E]; [left | right; exact E]; rewrite E in Hu; repeat match type of Hu with context [if ?cnd then _ else _] => destruct cnd end; lia. }
            rewrite zsum_scal, (IH c10 _ _ U). unfold G. ring.
          * erewrite zsum_ext.
            2:{ intros v. rewrite (Hf c00 h0 w0), (Hf c01 h0 w1),
                          (Hf c10 h1 w0).
                - instantiate (1 := fun v => (G c00 h0 w0 * G c01 h0 w1 * G c10 h1 w0) * eval (lfv v) rest c11 h1 w1 * t1). unfold G. ring.
                - destruct (Hz h1 w0) as [E|E]; [left | right; exact E]; rewrite E in Hu; repeat match type of Hu with context [if ?cnd then _ else _] => destruct cnd end; lia.
                - destruct (Hz h0 w1) as [E|E]; [left | right; exact E]; rewrite E in Hu; repeat match type of Hu with context [if ?cnd then _ else _] => destruct cnd end; lia.
                - destruct (Hz h0 w0) as [E|E]; [left | right; exact E]; rewrite E in Hu; repeat match type of Hu with context [if ?cnd then _ else _] => destruct cnd end; lia. }
            rewrite zsum_scal, (IH c11 _ _ U). unfold G. ring.
        + rewrite (zsum_swap (fun v ci => wt (length rest) c ci h w * Dgc.eval T t0 t1 tadd tmul wt (lfv v) rest ci h w)).
          apply zsum_ext. intros ci.
          rewrite <- (IH ci h w Hu).
          transitivity (wt (length rest) c ci h w *
                        zsum (map (fun v => Dgc.eval T t0 t1 tadd tmul wt (lfv v) rest ci h w) dom) * t1); [|ring].
          rewrite <- zsum_scal. apply zsum_ext. intros v. ring.
    Qed.

    Lemma zsum_ext_in {A} (f f' : A -> T) l : (forall a, In a l -> f a = f' a) -> zsum (map f l) = zsum (map f' l).
    Proof.
      induction l as [|a l IHl]; intros H; simpl; [reflexivity|].
      rewrite (H a) by (left; reflexivity). rewrite IHl; [reflexivity|]. intros b Hb. apply H. right. exact Hb.
    Qed.

    Lemma zrange_in m a : In a (zrange m) -> (0 <= a < m)%Z.
    Proof.
      unfold zrange. rewrite in_map_iff. intros (i & <- & Hi). apply in_seq in Hi. lia.
    Qed.

    (* a class output marginalises the pixel exactly when every root child uses it exactly once *)
    Theorem root_marg1 (rw : Z -> Z -> T) ls C S k : (0 < S)%Z ->
        (forall h w, (0 <= h < S)%Z -> (0 <= w < S)%Z -> use2 ls h w px py = 1%Z) ->
        zsum (map (fun v => eval_root T t0 t1 tadd tmul wt (lfv v) rw ls C S k) dom) =
        eval_root T t0 t1 tadd tmul wt lfm rw ls C S k.
    Proof.
      intros HS Hu. unfold eval_root.
      rewrite (zsum_swap (fun v idx => match unravel S idx with
                                       | (c, h, w) => rw k idx * Dgc.eval T t0 t1 tadd tmul wt (lfv v) ls c h w end)).
      apply zsum_ext_in. intros idx Hin. unfold unravel.
      assert (U : use2 ls ((idx / S) mod S) (idx mod S) px py = 1%Z)
        by (apply Hu; apply Z.mod_pos_bound; lia).
      rewrite <- (eval_marg1 ls (idx / (S * S))%Z _ _ U).
      transitivity (rw k idx * zsum (map (fun v => Dgc.eval T t0 t1 tadd tmul wt (lfv v) ls (idx / (S * S))%Z
                                                            ((idx / S) mod S)%Z (idx mod S)%Z) dom) * t1); [|ring].
      rewrite <- zsum_scal. apply zsum_ext. intros v. ring.
    Qed.
  End Marg.
End DgcEval.
