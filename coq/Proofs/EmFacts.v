(* Proofs/EmFacts.v — facts about the EM model (Model/Em.v).
   Part 1 (any number type): an iteration changes parameters only, never structure.
   Part 2 (Qc, ordered field): every update formula maps valid parameters and ANY non-negative
   statistics, for ANY 0 < eta < 1, to valid parameters, and is the convex combination
   (1-eta)*old + eta*re-estimate. *)
From Coq Require Import List Arith ZArith QArith Qcanon Lia Lra Lqa Psatz Bool Field.
From DV Require Import Model.Core Model.Clt Model.Leaves Model.Em Proofs.CoreFacts.
Import ListNotations.

Section Structure.
  Variable T : Type.
  Variables (t0 t1 : T) (tadd tmul tsub tdiv : T -> T -> T).
  Variable tleb : T -> T -> bool.
  Variable tsqrt : T -> T.
  Variable tofz : Z -> T.
  Variables (eps32 alpha sdfloor : T).
  Variable xval : nat -> Z -> T.
  Variable gdens : T -> T -> nat -> Z -> T.
  Notation em_iter := (em_iter T t0 t1 tadd tmul tsub tdiv tleb tsqrt tofz eps32 alpha sdfloor xval gdens).
  Notation em_iters := (em_iters T t0 t1 tadd tmul tsub tdiv tleb tsqrt tofz eps32 alpha sdfloor xval gdens).
  Notation em_node := (em_node T t0 t1 tadd tmul tsub tdiv tleb tsqrt tofz eps32 alpha sdfloor xval).
  Notation shape_of := (shape_of T).

  Lemma em_node_shape eta ris i n : shape_of (em_node eta ris i n) = shape_of n.
  Proof.
    unfold Em.em_node, Em.shape_of. destruct n as [k sc ks]; cbn.
    destruct k as [l|ws|]; cbn; [|reflexivity|reflexivity].
    destruct l; reflexivity.
  Qed.

  Lemma map_combine_seq {A B} (f : nat * A -> B) (g : A -> B) (l : list A) s :
    (forall i a, f (i, a) = g a) -> map f (combine (seq s (length l)) l) = map g l.
  Proof. intros H. revert s. induction l as [|a l IH]; intros s; cbn; [reflexivity|]. now rewrite H, IH. Qed.

  Theorem em_iter_shape eta t b : map shape_of (em_iter eta t b) = map shape_of t.
  Proof.
    unfold Em.em_iter. rewrite map_map.
    apply (map_combine_seq (fun p => shape_of (em_node eta _ (fst p) (snd p))) shape_of t 0).
    intros i a. apply em_node_shape.
  Qed.

  Theorem em_iters_shape eta bs : forall t, map shape_of (em_iters eta t bs) = map shape_of t.
  Proof.
    induction bs as [|b bs IH]; intros t; cbn; [reflexivity|].
    unfold Em.em_iters in *. cbn. rewrite IH. apply em_iter_shape.
  Qed.

  Theorem em_iters_length eta bs t : length (em_iters eta t bs) = length t.
  Proof. rewrite <- (map_length shape_of), em_iters_shape. apply map_length. Qed.
End Structure.

(* ------------------------------------------------------------------ Part 2: Qc *)
Local Open Scope Qc_scope.
Lemma this_plus a b : (this (a + b) == this a + this b)%Q. Proof. exact (Qred_correct _). Qed.
Lemma this_mult a b : (this (a * b) == this a * this b)%Q. Proof. exact (Qred_correct _). Qed.
Lemma this_opp a : (this (- a) == - this a)%Q. Proof. exact (Qred_correct _). Qed.
Lemma this_inv a : (this (/ a) == / this a)%Q. Proof. exact (Qred_correct _). Qed.
Ltac q_of_qc :=
  unfold Qcle, Qclt, Qcminus, Qcdiv;
  repeat first [rewrite this_plus | rewrite this_mult | rewrite this_opp | rewrite this_inv];
  change (this 0) with 0%Q; change (this 1) with 1%Q.

Lemma mix_nonneg eta a b : 0 < eta -> eta < 1 -> 0 <= a -> 0 <= b -> 0 <= (1 - eta) * a + eta * b.
Proof. q_of_qc. intros. nra. Qed.
Lemma mix_pos eta a b : 0 < eta -> eta < 1 -> 0 < a -> 0 < b -> 0 < (1 - eta) * a + eta * b.
Proof. q_of_qc. intros. nra. Qed.
Lemma mix_pos_r eta a b : 0 < eta -> eta < 1 -> 0 <= a -> 0 < b -> 0 < (1 - eta) * a + eta * b.
Proof. q_of_qc. intros. nra. Qed.
Lemma mix_lt1_r eta a b : 0 < eta -> eta < 1 -> a <= 1 -> b < 1 -> (1 - eta) * a + eta * b < 1.
Proof. q_of_qc. intros. nra. Qed.
Lemma div_nonneg a b : 0 <= a -> 0 <= b -> 0 <= a / b.
Proof. q_of_qc. intros Ha Hb. apply Qmult_le_0_compat; [exact Ha|]. now apply Qinv_le_0_compat. Qed.
Lemma div_pos a b : 0 < a -> 0 < b -> 0 < a / b.
Proof. q_of_qc. intros Ha Hb. apply Qmult_lt_0_compat; [exact Ha|]. now apply Qinv_lt_0_compat. Qed.
Lemma div_lt1 a b : 0 < b -> a < b -> a / b < 1.
Proof. q_of_qc. intros Hb Hab. apply Qlt_shift_div_r; [exact Hb|]. lra. Qed.
Lemma plus_nonneg a b : 0 <= a -> 0 <= b -> 0 <= a + b.
Proof. q_of_qc. intros. lra. Qed.
Lemma mult_nonneg a b : 0 <= a -> 0 <= b -> 0 <= a * b.
Proof. q_of_qc. intros. nra. Qed.
Lemma pos_plus a b : 0 <= a -> 0 < b -> 0 < a + b.
Proof. q_of_qc. intros. lra. Qed.
Lemma lt_plus a b c d : a <= b -> c < d -> a + c < b + d.
Proof. q_of_qc. intros. lra. Qed.
Lemma pos_neq a : 0 < a -> a <> 0.
Proof. intros H E. rewrite E in H. exact (Qlt_irrefl _ H). Qed.

Notation qsum := (sumT Qc 0 Qcplus).
Notation qdot := (dotT Qc 0 Qcplus Qcmult).
Notation qmix := (mix Qc 1 Qcplus Qcmult Qcminus).
Definition nonneg (l : list Qc) : Prop := Forall (fun x => 0 <= x) l.

Lemma qmix_eq eta a b : qmix eta a b = (1 - eta) * a + eta * b.
Proof. reflexivity. Qed.

Lemma sum_nonneg l : nonneg l -> 0 <= qsum l.
Proof. induction 1; cbn; [apply Qcle_refl | now apply plus_nonneg]. Qed.
Lemma sum_pos l : Forall (fun x => 0 < x) l -> l <> [] -> 0 < qsum l.
Proof.
  induction 1 as [|x l Hx Hl IH]; intros Hne; [congruence|]. cbn.
  destruct l as [|y l].
  - cbn. now replace (x + 0) with x by ring.
  - rewrite Qcplus_comm. apply pos_plus; [|exact Hx]. apply Qclt_le_weak, IH. discriminate.
Qed.
Lemma sum_zipw_mix eta a b : length a = length b ->
  qsum (zipw (qmix eta) a b) = (1 - eta) * qsum a + eta * qsum b.
Proof.
  revert b. induction a as [|x a IH]; intros [|y b] Hl; cbn in *; try lia; [ring|].
  rewrite IH by lia. unfold mix. ring.
Qed.
Lemma zipw_mix_nonneg eta a b : 0 < eta -> eta < 1 -> nonneg a -> nonneg b -> nonneg (zipw (qmix eta) a b).
Proof.
  intros H0 H1 Ha. revert b. induction Ha as [|x a Hx Ha IH]; intros b Hb; [constructor|].
  destruct Hb as [|y b Hy Hb]; cbn; constructor; [now apply mix_nonneg | now apply IH].
Qed.
Lemma zipw_length {A B C} (f : A -> B -> C) a b : length a = length b -> length (zipw f a b) = length a.
Proof. revert b. induction a; intros [|y b] H; cbn in *; try lia. now rewrite IHa by lia. Qed.
Lemma sum_map_div u s : qsum (map (fun x => x / s) u) = qsum u / s.
Proof. induction u as [|x u IH]; cbn; [unfold Qcdiv; ring | rewrite IH; unfold Qcdiv; ring]. Qed.

(* ---- Sum.em_step *)
Section SumStep.
  Variables (eps eta : Qc).
  Hypothesis Heps : 0 < eps.
  Hypotheses (H0 : 0 < eta) (H1 : eta < 1).
  Notation reest := (sum_reest Qc 0 Qcplus Qcmult Qcdiv eps).
  Notation step := (sum_step Qc 0 1 Qcplus Qcmult Qcminus Qcdiv eps eta).

  Lemma unnorm_pos ws ss : nonneg ws -> nonneg ss ->
    Forall (fun x => 0 < x) (zipw (fun w s => w * s + eps) ws ss).
  Proof.
    intros Hw. revert ss. induction Hw as [|w ws Hw0 Hw IH]; intros ss Hs; [constructor|].
    destruct Hs as [|s ss Hs0 Hs]; cbn; constructor; [|now apply IH].
    apply pos_plus; [now apply mult_nonneg | exact Heps].
  Qed.

  Theorem sum_step_simplex ws ss :
    nonneg ws -> qsum ws = 1 -> nonneg ss -> length ss = length ws ->
    step ws ss = zipw (fun w e => (1 - eta) * w + eta * e) ws (reest ws ss) /\
    nonneg (step ws ss) /\ qsum (step ws ss) = 1 /\ length (step ws ss) = length ws.
  Proof.
    intros Hw Hs1 Hs Hl. split; [reflexivity|].
    pose proof (unnorm_pos ws ss Hw Hs) as Hu.
    set (u := zipw (fun w s => w * s + eps) ws ss) in *.
    assert (Hlu : length u = length ws) by (apply zipw_length; lia).
    assert (Hne : u <> []).
    { intro E. rewrite E in Hlu. destruct ws; [cbn in Hs1; discriminate | cbn in Hlu; lia]. }
    pose proof (sum_pos u Hu Hne) as Hpos.
    assert (Hre : nonneg (reest ws ss)).
    { unfold Em.sum_reest. fold u. apply Forall_map. eapply Forall_impl; [|exact Hu].
      intros x Hx. apply Qclt_le_weak. now apply div_pos. }
    assert (Hrs : qsum (reest ws ss) = 1).
    { unfold Em.sum_reest. fold u. rewrite sum_map_div. unfold Qcdiv. apply Qcmult_inv_r. now apply pos_neq. }
    assert (Hrl : length (reest ws ss) = length ws).
    { unfold Em.sum_reest. fold u. now rewrite map_length. }
    split; [|split].
    - now apply zipw_mix_nonneg.
    - unfold Em.sum_step. rewrite sum_zipw_mix by lia. rewrite Hs1, Hrs. ring.
    - unfold Em.sum_step. apply zipw_length. lia.
  Qed.
End SumStep.

(* ---- Bernoulli.em_step *)
Section BernStep.
  Variables (alpha eta : Qc) (tofz : Z -> Qc).
  Hypothesis Ha : 0 < alpha.
  Hypotheses (H0 : 0 < eta) (H1 : eta < 1).
  Hypotheses (Z0 : tofz 0%Z = 0) (Z1 : tofz 1%Z = 1).
  Notation reest := (bern_reest Qc 0 1 Qcplus Qcmult Qcdiv tofz alpha).

  Lemma dot01 st xs : nonneg st -> Forall (fun x => x = 0%Z \/ x = 1%Z) xs ->
    0 <= qdot st (map tofz xs) /\ qdot st (map tofz xs) <= qsum st.
  Proof.
    intros Hs. revert xs. induction Hs as [|s st Hs0 Hs IH]; intros xs Hx; cbn.
    - split; apply Qcle_refl.
    - destruct Hx as [|x xs Hx0 Hx]; cbn.
      + split; [apply Qcle_refl | apply plus_nonneg; [exact Hs0 | now apply sum_nonneg]].
      + destruct (IH xs Hx) as [I1 I2]. revert I1 I2 Hs0.
        destruct Hx0 as [-> | ->]; rewrite ?Z0, ?Z1; q_of_qc; intros; split; nra.
  Qed.

  Theorem bern_step_domain p st xs :
    0 <= p -> p <= 1 -> nonneg st -> Forall (fun x => x = 0%Z \/ x = 1%Z) xs ->
    let p' := qmix eta p (reest st xs) in
    p' = (1 - eta) * p + eta * ((qdot st (map tofz xs) + alpha) / (qsum st + (1 + 1) * alpha)) /\
    0 < p' /\ p' < 1.
  Proof.
    intros Hp0 Hp1 Hs Hx. cbn zeta. split; [reflexivity|].
    destruct (dot01 st xs Hs Hx) as [D0 D1].
    assert (Hden : 0 < qsum st + (1 + 1) * alpha).
    { revert D0 D1 Ha. q_of_qc. intros. nra. }
    assert (Hnum : 0 < qdot st (map tofz xs) + alpha) by (now apply pos_plus).
    assert (Hlt : qdot st (map tofz xs) + alpha < qsum st + (1 + 1) * alpha).
    { revert D0 D1 Ha. q_of_qc. intros. nra. }
    split.
    - apply mix_pos_r; auto. now apply div_pos.
    - apply mix_lt1_r; auto. now apply div_lt1.
  Qed.
End BernStep.

(* ---- Gaussian.em_step: the standard deviation stays positive for ANY sqrt *)
Section GaussStep.
  Variables (eps floor eta : Qc) (tsqrt : Qc -> Qc).
  Hypothesis Hf : 0 < floor.
  Hypotheses (H0 : 0 < eta) (H1 : eta < 1).
  Definition qleb' (a b : Qc) : bool := Qle_bool (this a) (this b).
  Notation reest := (gauss_reest Qc 0 Qcplus Qcmult Qcminus Qcdiv qleb' tsqrt eps floor).

  Lemma tmax_floor x : floor <= tmax Qc qleb' x floor.
  Proof.
    unfold tmax, qleb'. destruct (Qle_bool (this x) (this floor)) eqn:E.
    - apply Qcle_refl.
    - apply Qclt_le_weak. unfold Qclt. apply Qnot_le_lt. intro Hle.
      apply Qle_bool_iff in Hle. congruence.
  Qed.

  Theorem gauss_step_sigma_pos m sd st xs :
    0 < sd ->
    let e := reest st xs in
    let m' := qmix eta m (fst e) in let sd' := qmix eta sd (snd e) in
    m' = (1 - eta) * m + eta * fst e /\ sd' = (1 - eta) * sd + eta * snd e /\
    floor <= snd e /\ 0 < sd'.
  Proof.
    intros Hsd. cbn zeta. split; [reflexivity|]. split; [reflexivity|].
    assert (Hfl : floor <= snd (reest st xs)) by (unfold Em.gauss_reest; cbn [snd]; apply tmax_floor).
    split; [exact Hfl|].
    apply mix_pos; auto. eapply Qclt_le_trans; [exact Hf | exact Hfl].
  Qed.
End GaussStep.

(* ---- BinaryCLT.em_step: every row of every table sums to one *)
Section CltStep.
  Variables (alpha eta : Qc) (tofz : Z -> Qc).
  Definition row_norm (r : list Qc) : Prop := exists a b, r = [a; b] /\ a + b = 1.
  Definition compl_row (r : list Qc) : Prop := exists y, r = [1 - y; y].
  Notation mix_row := (mix_row Qc 0 1 Qcplus Qcmult Qcminus Qcdiv eta).
  Notation creest := (clt_reest Qc 0 1 Qcplus Qcmult Qcminus Qcdiv tofz alpha).
  Notation cstep := (clt_step Qc 0 1 Qcplus Qcmult Qcminus Qcdiv tofz alpha eta).

  Lemma mix_row_norm old new : row_norm old -> compl_row new ->
    row_norm (mix_row old new) /\
    mix_row old new = zipw (fun o e => (1 - eta) * o + eta * e) old new.
  Proof.
    intros [a [b [-> Hab]]] [y ->]. unfold Em.mix_row. cbn.
    assert (Hs : qmix eta a (1 - y) + (qmix eta b y + 0) = 1).
    { unfold mix. replace b with (1 - a) by (rewrite <- Hab; ring). ring. }
    rewrite Hs. assert (D1 : forall x : Qc, x / 1 = x) by (intros x; unfold Qcdiv; replace (/ 1) with 1 by (apply Qc_is_canon; reflexivity); ring). rewrite !D1. split; [|reflexivity].
    exists (qmix eta a (1 - y)), (qmix eta b y). split; [reflexivity|].
    etransitivity; [|exact Hs]. ring.
  Qed.

  Lemma reest_shape c st rows : Forall (fun tbl => length tbl = 2%nat /\ Forall compl_row tbl) (creest c st rows).
  Proof.
    unfold Em.clt_reest. apply Forall_map. apply Forall_forall. intros i _.
    destruct (nth i (cpar c) None).
    - split; [reflexivity|]. repeat constructor; eexists; reflexivity.
    - split; [reflexivity|]. repeat constructor; eexists; reflexivity.
  Qed.

  Lemma zipw_rows old new : Forall row_norm old -> Forall compl_row new ->
    Forall row_norm (zipw mix_row old new).
  Proof.
    intros Ho. revert new. induction Ho as [|o old Ho0 Ho IH]; intros new Hn; [constructor|].
    destruct Hn as [|e new He Hn]; cbn; constructor; [now apply mix_row_norm | now apply IH].
  Qed.

  Theorem clt_step_rows_normalised c st rows :
    Forall (Forall row_norm) (cparams c) ->
    Forall (Forall row_norm) (cparams (cstep c st rows)) /\
    cscope (cstep c st rows) = cscope c /\ cpar (cstep c st rows) = cpar c.
  Proof.
    intros Hc. split; [|split; reflexivity]. unfold Em.clt_step. cbn [cparams].
    pose proof (reest_shape c st rows) as Hr. revert Hr. generalize (creest c st rows) as R.
    induction Hc as [|tbl ts Ht Hts IH]; intros R HR; [constructor|].
    destruct HR as [|r R [_ Hr] HR]; cbn; constructor; [now apply zipw_rows | now apply IH].
  Qed.
End CltStep.

(* ------------------------------------------------------------------ n iterations *)
Section Iter.
  Variables (eps alpha floor eta : Qc) (tsqrt : Qc -> Qc) (tofz : Z -> Qc).
  Variable xval : nat -> Z -> Qc.
  Variable gdens : Qc -> Qc -> nat -> Z -> Qc.
  Hypotheses (Heps : 0 < eps) (Ha : 0 < alpha) (Hf : 0 < floor) (H0 : 0 < eta) (H1 : eta < 1).
  Hypotheses (Z0 : tofz 0%Z = 0) (Z1 : tofz 1%Z = 1).
  Variable bvars : list nat.     (* the variables carried by Bernoulli leaves *)
  Notation qem_iter := (em_iter Qc 0 1 Qcplus Qcmult Qcminus Qcdiv qleb' tsqrt tofz eps alpha floor xval gdens eta).
  Notation qem_iters := (em_iters Qc 0 1 Qcplus Qcmult Qcminus Qcdiv qleb' tsqrt tofz eps alpha floor xval gdens eta).
  Notation qem_node := (em_node Qc 0 1 Qcplus Qcmult Qcminus Qcdiv qleb' tsqrt tofz eps alpha floor xval eta).
  Notation mk := (mk_rinfo Qc 0 1 Qcplus Qcmult Qcminus Qcdiv gdens).

  (* parameter validity of one node (Categorical leaves and the sign of CLT entries: see notes) *)
  Definition node_inv (n : enode Qc) : Prop :=
    match nkind n with
    | KSum ws => nonneg ws /\ qsum ws = 1 /\ length ws = length (nkids n)
    | KProd => True
    | KLeaf (EBern v p) => In v bvars /\ 0 <= p /\ p <= 1
    | KLeaf (ECat _ _ _) => True
    | KLeaf (EGauss _ _ sd) => 0 < sd
    | KLeaf (EClt c) => Forall (Forall row_norm) (cparams c)
    end.
  Definition ri_ok (ri : rinfo Qc) : Prop :=
    nonneg (ri_vs Qc ri) /\ nonneg (ri_gs Qc ri) /\ 0 <= ri_root Qc ri /\
    forall v, In v bvars -> cellz (ri_row Qc ri) v = 0%Z \/ cellz (ri_row Qc ri) v = 1%Z.

  Lemma nth_nonneg l i : nonneg l -> 0 <= nth i l 0.
  Proof. intros H. revert i. induction H; intros [|i]; cbn; auto; apply Qcle_refl. Qed.

  Lemma em_node_inv ris i n : Forall ri_ok ris -> node_inv n -> node_inv (qem_node ris i n).
  Proof.
    intros Hr. unfold node_inv, Em.em_node. destruct n as [k sc ks]; cbn.
    destruct k as [l|ws|]; cbn; [| |auto].
    - destruct l as [v p|v cats ps|v m sd|c]; cbn; auto.
      + intros [Hv [Hp0 Hp1]]. split; [exact Hv|].
        assert (Hst : nonneg (map (leaf_stat Qc 0 Qcmult Qcdiv i) ris)).
        { apply Forall_map. eapply Forall_impl; [|exact Hr]. intros ri [Hvs [Hgs [Hrt _]]].
          unfold leaf_stat. apply div_nonneg; [apply mult_nonneg; now apply nth_nonneg | exact Hrt]. }
        assert (Hxs : Forall (fun x => x = 0%Z \/ x = 1%Z) (map (fun r => cellz r v) (map (ri_row Qc) ris))).
        { rewrite map_map. apply Forall_map. eapply Forall_impl; [|exact Hr]. intros ri [_ [_ [_ Hd]]]. now apply Hd. }
        destruct (bern_step_domain alpha eta tofz Ha H0 H1 Z0 Z1 p _ _ Hp0 Hp1 Hst Hxs) as [_ [B0 B1]].
        split; apply Qclt_le_weak; assumption.
      + intros Hsd.
        exact (proj2 (proj2 (proj2 (gauss_step_sigma_pos eps floor eta tsqrt Hf H0 H1 m sd _ _ Hsd)))).
      + intros Hc. exact (proj1 (clt_step_rows_normalised alpha eta tofz c _ _ Hc)).
    - intros [Hw [Hs Hl]].
      assert (Hss : nonneg (map (fun k => qsum (map (edge_stat Qc 0 Qcmult Qcdiv i k) ris)) ks)).
      { apply Forall_map. apply Forall_forall. intros k _. apply sum_nonneg. apply Forall_map.
        eapply Forall_impl; [|exact Hr]. intros ri [Hvs [Hgs [Hrt _]]].
        unfold edge_stat. apply div_nonneg; [apply mult_nonneg; now apply nth_nonneg | exact Hrt]. }
      destruct (sum_step_simplex eps eta Heps H0 H1 ws _ Hw Hs Hss) as [_ [S1 [S2 S3]]].
      { now rewrite map_length. }
      repeat split; [exact S1 | exact S2 | now rewrite S3].
  Qed.

  Lemma em_iter_inv t b : Forall ri_ok (map (mk t) b) -> Forall node_inv t -> Forall node_inv (qem_iter t b).
  Proof.
    intros Hr Ht. unfold Em.em_iter. apply Forall_map. apply Forall_forall. intros [i n] Hin.
    cbn. apply em_node_inv; [exact Hr|]. apply in_combine_r in Hin. rewrite Forall_forall in Ht. now apply Ht.
  Qed.

  (* the condition required of every iteration: the forward values, backward values and root value of
     the CURRENT state on the sampled batch are non-negative, Bernoulli cells are 0/1 *)
  Fixpoint steps_ok (t : etable Qc) (bs : list (list row)) : Prop :=
    match bs with
    | [] => True
    | b :: bs' => Forall ri_ok (map (mk t) b) /\ steps_ok (qem_iter t b) bs'
    end.

  Theorem em_iters_inv bs : forall t, Forall node_inv t -> steps_ok t bs -> Forall node_inv (qem_iters t bs).
  Proof.
    induction bs as [|b bs IH]; intros t Ht Hs; [exact Ht|].
    destruct Hs as [Hb Hs]. unfold Em.em_iters. cbn. apply IH; [now apply em_iter_inv | exact Hs].
  Qed.
End Iter.

(* the hypotheses are satisfiable: a two-component mixture, one batch of two rows *)
Example em_example :
  let t : etable Qc := [ {| nkind := KLeaf (EBern 0 (Q2Qc (1#4))); nscope := [0%nat]; nkids := [] |};
                          {| nkind := KLeaf (EBern 0 (Q2Qc (3#4))); nscope := [0%nat]; nkids := [] |};
                          {| nkind := KSum [Q2Qc (1#2); Q2Qc (1#2)]; nscope := [0%nat]; nkids := [0%nat; 1%nat] |} ] in
  let b : list row := [fun _ => Some 1%Z; fun _ => Some 0%Z] in
  let t' := em_iter Qc 0 1 Qcplus Qcmult Qcminus Qcdiv qleb' (fun x => x) (fun z => Q2Qc (inject_Z z))
              (Q2Qc (1#8388608)) (Q2Qc (1#1024)) (Q2Qc (1#100000)) (fun _ _ => 0) (fun _ _ _ _ => 0) (Q2Qc (1#2)) t b in
  map (fun n => map this (params_of Qc n)) t' = [[1027#4104]; [3077#4104]; [1#2; 1#2]]%Q.
Proof. vm_compute. reflexivity. Qed.

(* ------------------------------------------------------------------ responsibilities of a sum node *)
Lemma resp_sum ws vs g r : qdot ws (map (fun v => v * g / r) vs) = qdot ws vs * g / r.
Proof.
  revert vs. induction ws as [|w ws IH]; intros [|v vs]; cbn; try (unfold Qcdiv; ring).
  rewrite IH. unfold Qcdiv. ring.
Qed.
(* at the root (gradient one, root value = the node's own value <> 0) the responsibilities
   w_k * exp(ll_k - ll_root + 0) of the children sum to one *)
Theorem resp_root_one ws vs : qdot ws vs <> 0 ->
  qdot ws (map (fun v => v * 1 / qdot ws vs) vs) = 1.
Proof. intros H. rewrite resp_sum. field. exact H. Qed.
