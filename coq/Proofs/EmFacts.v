(* Proofs/EmFacts.v — facts about the EM model (Model/Em.v).
   Part 1 (any number type): an iteration changes parameters only, never structure.
   Part 2 (Qc, ordered field): every update formula maps valid parameters and ANY non-negative
   statistics, for ANY 0 < eta < 1, to valid parameters, and is the convex combination
   (1-eta)*old + eta*re-estimate. *)
From Coq Require Import List Arith ZArith QArith Qcanon Lia Lra Lqa Psatz Bool Field.
From DV Require Import Model.Core Model.Clt Model.Leaves Model.Em Proofs.CoreFacts.
Import ListNotations.

Section Structure.
  Variable T : Type.
  Variables (t0 t1 : T) (tadd tmul tsub tdiv : T -> T -> T).
  Variable tleb : T -> T -> bool.
  Variable tsqrt : T -> T.
  Variable tofz : Z -> T.
  Variables (eps32 alpha sdfloor : T).
  Variable xval : nat -> Z -> T.
  Variable gdens : T -> T -> nat -> Z -> T.
  Notation em_iter := (em_iter T t0 t1 tadd tmul tsub tdiv tleb tsqrt tofz eps32 alpha sdfloor xval gdens).
  Notation em_iters := (em_iters T t0 t1 tadd tmul tsub tdiv tleb tsqrt tofz eps32 alpha sdfloor xval gdens).
  Notation em_node := (em_node T t0 t1 tadd tmul tsub tdiv tleb tsqrt tofz eps32 alpha sdfloor xval).
  Notation shape_of := (shape_of T).

  Lemma em_node_shape eta ris i n : shape_of (em_node eta ris i n) = shape_of n.
  Proof.
    unfold Em.em_node, Em.shape_of. destruct n as [k sc ks]; cbn.
    destruct k as [l|ws|]; cbn; [|reflexivity|reflexivity].
    destruct l; reflexivity.
  Qed.

  Lemma map_combine_seq {A B} (f : nat * A -> B) (g : A -> B) (l : list A) s :
    (forall i a, f (i, a) = g a) -> map f (combine (seq s (length l)) l) = map g l.
  Proof. intros H. revert s. induction l as [|a l IH]; intros s; cbn; [reflexivity|]. now rewrite H, IH. Qed.

  Theorem em_iter_shape eta t b : map shape_of (em_iter eta t b) = map shape_of t.
  Proof.
    unfold Em.em_iter. rewrite map_map.
    apply (map_combine_seq (fun p => shape_of (em_node eta _ (fst p) (snd p))) shape_of t 0).
    intros i a. apply em_node_shape.
  Qed.

  Theorem em_iters_shape eta bs : forall t, map shape_of (em_iters eta t bs) = map shape_of t.
  Proof.
    induction bs as [|b bs IH]; intros t; cbn; [reflexivity|].
    unfold Em.em_iters in *. cbn. rewrite IH. apply em_iter_shape.
  Qed.

  Theorem em_iters_length eta bs t : length (em_iters eta t bs) = length t.
  Proof. rewrite <- (map_length shape_of), em_iters_shape. apply map_length. Qed.
End Structure.

(* ------------------------------------------------------------------ Part 2: Qc *)
Local Open Scope Qc_scope.
Lemma this_plus a b : (this (a + b) == this a + this b)%Q. Proof. exact (Qred_correct _). Qed.
Lemma this_mult a b : (this (a * b) == this a * this b)%Q. Proof. exact (Qred_correct _). Qed.
Lemma this_opp a : (this (- a) == - this a)%Q. Proof. exact (Qred_correct _). Qed.
Lemma this_inv a : (this (/ a) == / this a)%Q. Proof. exact (Qred_correct _). Qed.
Ltac q_of_qc :=
  unfold Qcle, Qclt, Qcminus, Qcdiv;
  repeat first [rewrite this_plus | rewrite this_mult | rewrite this_opp | rewrite this_inv];
  change (this 0) with 0%Q; change (this 1) with 1%Q.

Lemma mix_nonneg eta a b : 0 < eta -> eta < 1 -> 0 <= a -> 0 <= b -> 0 <= (1 - eta) * a + eta * b.
Proof. q_of_qc. intros. nra. Qed.
Lemma mix_pos eta a b : 0 < eta -> eta < 1 -> 0 < a -> 0 < b -> 0 < (1 - eta) * a + eta * b.
Proof. q_of_qc. intros. nra. Qed.
Lemma mix_pos_r eta a b : 0 < eta -> eta < 1 -> 0 <= a -> 0 < b -> 0 < (1 - eta) * a + eta * b.
Proof. q_of_qc. intros. nra. Qed.
Lemma mix_lt1_r eta a b : 0 < eta -> eta < 1 -> a <= 1 -> b < 1 -> (1 - eta) * a + eta * b < 1.
Proof. q_of_qc. intros. nra. Qed.
Lemma div_nonneg a b : 0 <= a -> 0 <= b -> 0 <= a / b.
Proof. q_of_qc. intros Ha Hb. apply Qmult_le_0_compat; [exact Ha|]. now apply Qinv_le_0_compat. Qed.
Lemma div_pos a b : 0 < a -> 0 < b -> 0 < a / b.
Proof. q_of_qc. intros Ha Hb. apply Qmult_lt_0_compat; [exact Ha|]. now apply Qinv_lt_0_compat. Qed.
Lemma div_lt1 a b : 0 < b -> a < b -> a / b < 1.
Proof. q_of_qc. intros Hb Hab. apply Qlt_shift_div_r; [exact Hb|]. lra. Qed.
Lemma plus_nonneg a b : 0 <= a -> 0 <= b -> 0 <= a + b.
Proof. q_of_qc. intros. lra. Qed.
Lemma mult_nonneg a b : 0 <= a -> 0 <= b -> 0 <= a * b.
Proof. q_of_qc. intros. nra. Qed.
Lemma pos_plus a b : 0 <= a -> 0 < b -> 0 < a + b.
Proof. q_of_qc. intros. lra. Qed.
Lemma lt_plus a b c d : a <= b -> c < d -> a + c < b + d.
Proof. q_of_qc. intros. lra. Qed.
Lemma pos_neq a : 0 < a -> a <> 0.
Proof. intros H E. rewrite E in H. exact (Qlt_irrefl _ H). Qed.

Notation qsum := (sumT Qc 0 Qcplus).
Notation qdot := (dotT Qc 0 Qcplus Qcmult).
Notation qmix := (mix Qc 1 Qcplus Qcmult Qcminus).
Definition nonneg (l : list Qc) : Prop := Forall (fun x => 0 <= x) l.

Lemma qmix_eq eta a b : qmix eta a b = (1 - eta) * a + eta * b.
Proof. reflexivity. Qed.

Lemma sum_nonneg l : nonneg l -> 0 <= qsum l.
Proof. induction 1; cbn; [apply Qcle_refl | now apply plus_nonneg]. Qed.
Lemma sum_pos l : Forall (fun x => 0 < x) l -> l <> [] -> 0 < qsum l.
Proof.
  induction 1 as [|x l Hx Hl IH]; intros Hne; [congruence|]. cbn.
  destruct l as [|y l].
  - cbn. now replace (x + 0) with x by ring.
  - rewrite Qcplus_comm. apply pos_plus; [|exact Hx]. apply Qclt_le_weak, IH. discriminate.
Qed.
Lemma sum_zipw_mix eta a b : length a = length b ->
  qsum (zipw (qmix eta) a b) = (1 - eta) * qsum a + eta * qsum b.
Proof.
  revert b. induction a as [|x a IH]; intros [|y b] Hl; cbn in *; try lia; [ring|].
  rewrite IH by lia. unfold mix. ring.
Qed.
Lemma zipw_mix_nonneg eta a b : 0 < eta -> eta < 1 -> nonneg a -> nonneg b -> nonneg (zipw (qmix eta) a b).
Proof.
  intros H0 H1 Ha. revert b. induction Ha as [|x a Hx Ha IH]; intros b Hb; [constructor|].
  destruct Hb as [|y b Hy Hb]; cbn; constructor; [now apply mix_nonneg | now apply IH].
Qed.
Lemma zipw_length {A B C} (f : A -> B -> C) a b : length a = length b -> length (zipw f a b) = length a.
Proof. revert b. induction a; intros [|y b] H; cbn in *; try lia. now rewrite IHa by lia. Qed.
Lemma sum_map_div u s : qsum (map (fun x => x / s) u) = qsum u / s.
Proof. induction u as [|x u IH]; cbn; [unfold Qcdiv; ring | rewrite IH; unfold Qcdiv; ring]. Qed.

(* ---- Sum.em_step *)
Section SumStep.
  Variables (eps eta : Qc).
  Hypothesis Heps : 0 < eps.
  Hypotheses (H0 : 0 < eta) (H1 : eta < 1).
  Notation reest := (sum_reest Qc 0 Qcplus Qcmult Qcdiv eps).
  Notation step := (sum_step Qc 0 1 Qcplus Qcmult Qcminus Qcdiv eps eta).

  Lemma unnorm_pos ws ss : nonneg ws -> nonneg ss ->
    Forall (fun x => 0 < x) (zipw (fun w s => w * s + eps) ws ss).
  Proof.
    intros Hw. revert ss. induction Hw as [|w ws Hw0 Hw IH]; intros ss Hs; [constructor|].
    destruct Hs as [|s ss Hs0 Hs]; cbn; constructor; [|now apply IH].
    apply pos_plus; [now apply mult_nonneg | exact Heps].
  Qed.

  Theorem sum_step_simplex ws ss :
    nonneg ws -> qsum ws = 1 -> nonneg ss -> length ss = length ws ->
    step ws ss = zipw (fun w e => (1 - eta) * w + eta * e) ws (reest ws ss) /\
    nonneg (step ws ss) /\ qsum (step ws ss) = 1 /\ length (step ws ss) = length ws.
  Proof.
    intros Hw Hs1 Hs Hl. split; [reflexivity|].
    pose proof (unnorm_pos ws ss Hw Hs) as Hu.
    set (u := zipw (fun w s => w * s + eps) ws ss) in *.
    assert (Hlu : length u = length ws) by (apply zipw_length; lia).
    assert (Hne : u <> []).
    { intro E. rewrite E in Hlu. destruct ws; [cbn in Hs1; discriminate | cbn in Hlu; lia]. }
    pose proof (sum_pos u Hu Hne) as Hpos.
    assert (Hre : nonneg (reest ws ss)).
    { unfold Em.sum_reest. fold u. apply Forall_map. eapply Forall_impl; [|exact Hu].
      intros x Hx. apply Qclt_le_weak. now apply div_pos. }
    assert (Hrs : qsum (reest ws ss) = 1).
    { unfold Em.sum_reest. fold u. rewrite sum_map_div. unfold Qcdiv. apply Qcmult_inv_r. now apply pos_neq. }
    assert (Hrl : length (reest ws ss) = length ws).
    { unfold Em.sum_reest. fold u. now rewrite map_length. }
    split; [|split].
    - now apply zipw_mix_nonneg.
    - unfold Em.sum_step. rewrite sum_zipw_mix by lia. rewrite Hs1, Hrs. ring.
    - unfold Em.sum_step. apply zipw_length. lia.
  Qed.
End SumStep.

(* ---- Bernoulli.em_step *)
Section BernStep.
  Variables (alpha eta : Qc) (tofz : Z -> Qc).
  Hypothesis Ha : 0 < alpha.
  Hypotheses (H0 : 0 < eta) (H1 : eta < 1).
  Hypotheses (Z0 : tofz 0%Z = 0) (Z1 : tofz 1%Z = 1).
  Notation reest := (bern_reest Qc 0 1 Qcplus Qcmult Qcdiv tofz alpha).

  Lemma dot01 st xs : nonneg st -> Forall (fun x => x = 0%Z \/ x = 1%Z) xs ->
    0 <= qdot st (map tofz xs) /\ qdot st (map tofz xs) <= qsum st.
  Proof.
    intros Hs. revert xs. induction Hs as [|s st Hs0 Hs IH]; intros xs Hx; cbn.
    - split; apply Qcle_refl.
    - destruct Hx as [|x xs Hx0 Hx]; cbn.
      + split; [apply Qcle_refl | apply plus_nonneg; [exact Hs0 | now apply sum_nonneg]].
      + destruct (IH xs Hx) as [I1 I2]. revert I1 I2 Hs0.
        destruct Hx0 as [-> | ->]; rewrite ?Z0, ?Z1; q_of_qc; intros; split; nra.
  Qed.

  Theorem bern_step_domain p st xs :
    0 <= p -> p <= 1 -> nonneg st -> Forall (fun x => x = 0%Z \/ x = 1%Z) xs ->
    let p' := qmix eta p (reest st xs) in
    p' = (1 - eta) * p + eta * ((qdot st (map tofz xs) + alpha) / (qsum st + (1 + 1) * alpha)) /\
    0 < p' /\ p' < 1.
  Proof.
    intros Hp0 Hp1 Hs Hx. cbn zeta. split; [reflexivity|].
    destruct (dot01 st xs Hs Hx) as [D0 D1].
    assert (Hden : 0 < qsum st + (1 + 1) * alpha).
    { revert D0 D1 Ha. q_of_qc. intros. nra. }
    assert (Hnum : 0 < qdot st (map tofz xs) + alpha) by (now apply pos_plus).
    assert (Hlt : qdot st (map tofz xs) + alpha < qsum st + (1 + 1) * alpha).
    { revert D0 D1 Ha. q_of_qc. intros. nra. }
    split.
    - apply mix_pos_r; auto. now apply div_pos.
    - apply mix_lt1_r; auto. now apply div_lt1.
  Qed.
End BernStep.

(* ---- Gaussian.em_step: the standard deviation stays positive for ANY sqrt *)
Section GaussStep.
  Variables (eps floor eta : Qc) (tsqrt : Qc -> Qc).
  Hypothesis Hf : 0 < floor.
  Hypotheses (H0 : 0 < eta) (H1 : eta < 1).
  Definition qleb' (a b : Qc) : bool := Qle_bool (this a) (this b).
  Notation reest := (gauss_reest Qc 0 Qcplus Qcmult Qcminus Qcdiv qleb' tsqrt eps floor).

  Lemma tmax_floor x : floor <= tmax Qc qleb' x floor.
  Proof.
    unfold tmax, qleb'. destruct (Qle_bool (this x) (this floor)) eqn:E.
    - apply Qcle_refl.
    - apply Qclt_le_weak. unfold Qclt. apply Qnot_le_lt. intro Hle.
      apply Qle_bool_iff in Hle. congruence.
  Qed.

  Theorem gauss_step_sigma_pos m sd st xs :
    0 < sd ->
    let e := reest st xs in
    let m' := qmix eta m (fst e) in let sd' := qmix eta sd (snd e) in
    m' = (1 - eta) * m + eta * fst e /\ sd' = (1 - eta) * sd + eta * snd e /\
    floor <= snd e /\ 0 < sd'.
  Proof.
    intros Hsd. cbn zeta. split; [reflexivity|]. split; [reflexivity|].
    assert (Hfl : floor <= snd (reest st xs)) by (unfold Em.gauss_reest; cbn [snd]; apply tmax_floor).
    split; [exact Hfl|].
    apply mix_pos; auto. eapply Qclt_le_trans; [exact Hf | exact Hfl].
  Qed.
End GaussStep.

Lemma div_le1 a b : 0 < b -> a <= b -> a / b <= 1.
Proof. q_of_qc. intros Hb Hab. apply Qle_shift_div_r; [exact Hb|]. lra. Qed.
Lemma div_mul a b : b <> 0 -> (a / b) * b = a.
Proof. intros. field. assumption. Qed.
Lemma sum_map_add {A} (f g : A -> Qc) l : qsum (map (fun x => f x + g x) l) = qsum (map f l) + qsum (map g l).
Proof. induction l as [|x l IH]; cbn; [ring | rewrite IH; ring]. Qed.
Lemma sum_map_zero {A} (l : list A) : qsum (map (fun _ => 0) l) = 0.
Proof. induction l; cbn; [reflexivity | rewrite IHl; ring]. Qed.

(* ---- Categorical.em_step *)
Section CatStep.
  Variables (alpha eta : Qc) (tofz : Z -> Qc).
  Hypothesis Ha : 0 < alpha.
  Hypotheses (H0 : 0 < eta) (H1 : eta < 1).
  Hypotheses (Z0 : tofz 0%Z = 0) (ZS : forall n, tofz (Z.of_nat (S n)) = 1 + tofz (Z.of_nat n)).
  Notation count := (cat_count Qc 0 Qcplus).
  Notation reest := (cat_reest Qc 0 Qcplus Qcmult Qcdiv tofz alpha).

  Lemma count_cons s st x xs d : count (s :: st) (x :: xs) d = (if Z.eqb x d then s else 0) + count st xs d.
  Proof. reflexivity. Qed.
  Lemma count_nil_l xs d : count [] xs d = 0.
  Proof. reflexivity. Qed.
  Lemma count_nil_r st d : count st [] d = 0.
  Proof. destruct st; reflexivity. Qed.

  Lemma count_nonneg st : nonneg st -> forall xs d, 0 <= count st xs d.
  Proof.
    induction 1 as [|s st Hs Hst IH]; intros xs d; [apply Qcle_refl|].
    destruct xs as [|x xs]; [rewrite count_nil_r; apply Qcle_refl|].
    rewrite count_cons. apply plus_nonneg; [|apply IH]. destruct (Z.eqb x d); [exact Hs | apply Qcle_refl].
  Qed.

  Lemma ind_sum_out s x cats : ~ In x cats -> qsum (map (fun d => if Z.eqb x d then s else 0) cats) = 0.
  Proof.
    induction cats as [|d cats IH]; intros H; cbn; [reflexivity|].
    destruct (Z.eqb_spec x d) as [->|]; [exfalso; apply H; now left|].
    rewrite IH by (intro; apply H; now right). ring.
  Qed.
  Lemma ind_sum_in s x cats : NoDup cats -> In x cats -> qsum (map (fun d => if Z.eqb x d then s else 0) cats) = s.
  Proof.
    induction 1 as [|d cats Hnin Hnd IH]; intros Hin; [destruct Hin|]. cbn.
    destruct (Z.eqb_spec x d) as [->|Hne].
    - rewrite ind_sum_out by exact Hnin. ring.
    - destruct Hin as [->|Hin]; [congruence|]. rewrite IH by exact Hin. ring.
  Qed.

  Lemma count_total cats : NoDup cats -> forall st xs, length xs = length st -> Forall (fun x => In x cats) xs ->
    qsum (map (count st xs) cats) = qsum st.
  Proof.
    intros Hnd. induction st as [|s st IH]; intros xs Hl Hx.
    - cbn. apply sum_map_zero.
    - destruct xs as [|x xs]; [cbn in Hl; lia|]. inversion Hx; subst.
      erewrite map_ext; [|intros d; apply count_cons].
      rewrite sum_map_add, ind_sum_in by assumption. rewrite IH by (cbn in Hl; auto; lia). reflexivity.
  Qed.

  Lemma tofz_nat_sum {A} (l : list A) : qsum (map (fun _ => alpha) l) = tofz (Z.of_nat (length l)) * alpha.
  Proof.
    induction l as [|d l IH]; [cbn; rewrite Z0; ring|].
    change (length (d :: l)) with (S (length l)). rewrite ZS. cbn [map Core.sumT]. rewrite IH. ring.
  Qed.
  Lemma tofz_nat_nonneg n : 0 <= tofz (Z.of_nat n).
  Proof.
    induction n as [|n IH]; [cbn; rewrite Z0; apply Qcle_refl|]. rewrite ZS. revert IH. q_of_qc. intros. lra.
  Qed.

  Theorem cat_step_simplex cats ps st xs :
    nonneg ps -> qsum ps = 1 -> length ps = length cats -> nonneg st -> length xs = length st ->
    NoDup cats -> Forall (fun x => In x cats) xs ->
    let ps' := zipw (qmix eta) ps (reest st xs cats) in
    ps' = zipw (fun p e => (1 - eta) * p + eta * e) ps (reest st xs cats) /\
    nonneg ps' /\ qsum ps' = 1 /\ length ps' = length ps.
  Proof.
    intros Hp Hs Hl Hst Hlx Hnd Hx. cbn zeta. split; [reflexivity|].
    set (den := qsum st + tofz (Z.of_nat (length cats)) * alpha).
    assert (Hne : cats <> []).
    { intro E. rewrite E in Hl. destruct ps; [cbn in Hs; discriminate | cbn in Hl; lia]. }
    assert (Hden : 0 < den).
    { unfold den. destruct cats as [|d cats']; [congruence|].
      change (length (d :: cats')) with (S (length cats')). rewrite ZS.
      pose proof (tofz_nat_nonneg (length cats')) as Hk. pose proof (sum_nonneg st Hst) as Ht.
      revert Hk Ht Ha. q_of_qc. intros. nra. }
    assert (Hre : reest st xs cats = map (fun x => x / den) (map (fun d => count st xs d + alpha) cats)).
    { unfold Em.cat_reest. rewrite map_map. reflexivity. }
    assert (Hrn : nonneg (reest st xs cats)).
    { rewrite Hre. apply Forall_map. apply Forall_map. apply Forall_forall. intros d _.
      apply div_nonneg; [|now apply Qclt_le_weak].
      apply plus_nonneg; [now apply count_nonneg | now apply Qclt_le_weak]. }
    assert (Hrs : qsum (reest st xs cats) = 1).
    { rewrite Hre, sum_map_div, sum_map_add, count_total, tofz_nat_sum by assumption.
      fold den. unfold Qcdiv. apply Qcmult_inv_r. now apply pos_neq. }
    assert (Hrl : length (reest st xs cats) = length cats) by (unfold Em.cat_reest; now rewrite map_length).
    split; [|split].
    - now apply zipw_mix_nonneg.
    - rewrite sum_zipw_mix by lia. rewrite Hs, Hrs. ring.
    - apply zipw_length. lia.
  Qed.
End CatStep.

(* ---- BinaryCLT.em_step: every CPT row stays a distribution on {0,1} *)
Lemma clt_entry_Q (tot Qq C al y : Q) : (0 < al -> 0 <= C -> C <= Qq -> Qq <= tot ->
  y * (tot + (1 + 1 + (1 + 1)) * al) == Qq + (1 + 1) * al ->
  0 < tot * y + (1 + 1 + (1 + 1)) * al /\ C + al <= tot * y + (1 + 1 + (1 + 1)) * al)%Q.
Proof.
  intros Hal HC HCQ HQt Hy.
  assert (0 < y)%Q by nra. assert (y <= 1)%Q by nra. split; nra.
Qed.

Lemma bin_sums (a b : row -> Qc) st : nonneg st -> forall rows,
  Forall (fun r => (a r = 0 \/ a r = 1) /\ (b r = 0 \/ b r = 1)) rows ->
  let A := qsum (zipw (fun s r => s * a r) st rows) in
  let B := qsum (zipw (fun s r => s * b r) st rows) in
  let AB := qsum (zipw (fun s r => s * a r * b r) st rows) in
  let S := qsum st in
  0 <= AB /\ AB <= A /\ AB <= B /\ A + B - AB <= S /\ A <= S /\ B <= S.
Proof.
  induction 1 as [|s st Hs Hst IH]; intros rows Hr; cbn zeta.
  - cbn. repeat split; q_of_qc; lra.
  - destruct Hr as [|r rows [Har Hbr] Hr].
    + cbn. pose proof (sum_nonneg st Hst) as Hn. revert Hn Hs. q_of_qc. intros. repeat split; lra.
    + specialize (IH rows Hr). cbn zeta in IH. cbn [zipw Core.sumT].
      destruct IH as [I1 [I2 [I3 [I4 [I5 I6]]]]]. revert I1 I2 I3 I4 I5 I6 Hs.
      destruct Har as [-> | ->]; destruct Hbr as [-> | ->]; q_of_qc; intros; repeat split; lra.
Qed.

Section CltStep.
  Variables (alpha eta : Qc) (tofz : Z -> Qc).
  Hypothesis Ha : 0 < alpha.
  Hypotheses (H0 : 0 < eta) (H1 : eta < 1).
  Hypotheses (Z0 : tofz 0%Z = 0) (Z1 : tofz 1%Z = 1).
  Definition row_norm (r : list Qc) : Prop := exists a b, r = [a; b] /\ a + b = 1 /\ 0 <= a /\ 0 <= b.
  Definition compl_row (r : list Qc) : Prop := exists y, r = [1 - y; y] /\ 0 <= y /\ y <= 1.
  Definition clt_wf (c : clt Qc) : Prop :=
    length (cscope c) = length (cpar c) /\
    Forall (fun o => match o with Some p => (p < length (cpar c))%nat | None => True end) (cpar c).
  Notation mix_row := (mix_row Qc 0 1 Qcplus Qcmult Qcminus Qcdiv eta).
  Notation creest := (clt_reest Qc 0 1 Qcplus Qcmult Qcminus Qcdiv tofz alpha).
  Notation cstep := (clt_step Qc 0 1 Qcplus Qcmult Qcminus Qcdiv tofz alpha eta).
  Notation q4 := (t4 Qc 1 Qcplus).
  Notation q2 := (t2 Qc 1 Qcplus).

  Lemma mix_row_norm old new : row_norm old -> compl_row new ->
    row_norm (mix_row old new) /\
    mix_row old new = zipw (fun o e => (1 - eta) * o + eta * e) old new.
  Proof.
    intros [a [b [-> [Hab [Ha0 Hb0]]]]] [y [-> [Hy0 Hy1]]]. unfold Em.mix_row. cbn.
    assert (Hs : qmix eta a (1 - y) + (qmix eta b y + 0) = 1).
    { unfold mix. replace b with (1 - a) by (rewrite <- Hab; ring). ring. }
    rewrite Hs. assert (D1 : forall x : Qc, x / 1 = x) by (intros x; unfold Qcdiv; replace (/ 1) with 1 by (apply Qc_is_canon; reflexivity); ring). rewrite !D1. split; [|reflexivity].
    exists (qmix eta a (1 - y)), (qmix eta b y). split; [reflexivity|]. split; [|split].
    - etransitivity; [|exact Hs]. ring.
    - apply mix_nonneg; auto. revert Hy1. q_of_qc. intros. lra.
    - apply mix_nonneg; auto.
  Qed.

  Lemma entry_ok tot Qq C y : 0 <= C -> C <= Qq -> Qq <= tot -> y * (tot + q4 * alpha) = Qq + q2 * alpha ->
    compl_row [1 - (C + alpha) / (tot * y + q4 * alpha); (C + alpha) / (tot * y + q4 * alpha)].
  Proof.
    intros HC HCQ HQt Hy. unfold t4, t2 in *.
    assert (HQ : (0 < this (tot * y + (1 + 1 + (1 + 1)) * alpha) /\
                 this (C + alpha) <= this (tot * y + (1 + 1 + (1 + 1)) * alpha))%Q).
    { assert (Hy' : (this (y * (tot + (1 + 1 + (1 + 1)) * alpha)) == this (Qq + (1 + 1) * alpha))%Q) by (now rewrite Hy).
      revert Ha HC HCQ HQt Hy'. q_of_qc. intros. now apply (clt_entry_Q (this tot) (this Qq)). }
    destruct HQ as [Hd Hn]. eexists. split; [reflexivity|]. split.
    - apply div_nonneg; [|now apply Qclt_le_weak]. apply plus_nonneg; [exact HC | now apply Qclt_le_weak].
    - apply div_le1; assumption.
  Qed.

  Section Reest.
    Variables (c : clt Qc) (st : list Qc) (rows : list row).
    Hypothesis Hst : nonneg st.
    Hypothesis Hwf : clt_wf c.
    Hypothesis Hbin : Forall (fun r => forall i, (i < length (cscope c))%nat -> cell Qc c r i = 0%Z \/ cell Qc c r i = 1%Z) rows.
    Definition x_ i r := tofz (cell Qc c r i).
    Definition tot_ := qsum st.
    Definition P_ i := qsum (zipw (fun s r => s * x_ i r) st rows).
    Notation x := x_. Notation tot := tot_. Notation P := P_.

    Lemma xbin i j : (i < length (cpar c))%nat -> (j < length (cpar c))%nat ->
      Forall (fun r => (x i r = 0 \/ x i r = 1) /\ (x j r = 0 \/ x j r = 1)) rows.
    Proof.
      intros Hi Hj. destruct Hwf as [Hl _]. eapply Forall_impl; [|exact Hbin]. intros r Hr. unfold x.
      split; [destruct (Hr i) as [-> | ->] | destruct (Hr j) as [-> | ->]]; rewrite ?Z0, ?Z1; auto; lia.
    Qed.

    Lemma pa_lt i : (i < length (cpar c))%nat -> (clt_pa Qc c i < length (cpar c))%nat.
    Proof.
      intros Hi. unfold clt_pa. destruct (nth i (cpar c) None) as [p|] eqn:E; [|lia].
      destruct Hwf as [_ Hf]. rewrite Forall_forall in Hf.
      assert (Hin : In (Some p) (cpar c)) by (rewrite <- E; now apply nth_In). exact (Hf _ Hin).
    Qed.

    Lemma prior_eq i : ((P i + q2 * alpha) / (tot + q4 * alpha)) * (tot + q4 * alpha) = P i + q2 * alpha.
    Proof.
      apply div_mul. apply pos_neq. pose proof (sum_nonneg st Hst) as Ht. fold tot in Ht.
      unfold t4, t2. revert Ht Ha. q_of_qc. intros. nra.
    Qed.

    Lemma reest_shape : Forall (fun tbl => length tbl = 2%nat /\ Forall compl_row tbl) (creest c st rows).
    Proof.
      unfold Em.clt_reest. apply Forall_map. apply Forall_forall. intros i Hi. apply in_seq in Hi.
      assert (Hil : (i < length (cpar c))%nat) by lia.
      pose proof (pa_lt i Hil) as Hpa.
      change (fun i0 r => tofz (cell Qc c r i0)) with x. change (qsum st) with tot.
      destruct (bin_sums (x i) (x (clt_pa Qc c i)) st Hst rows (xbin i _ Hil Hpa)) as [B1 [B2 [B3 [B4 [B5 B6]]]]].
      fold (P i) in *. fold (P (clt_pa Qc c i)) in *. fold tot in *.
      set (C1 := qsum (zipw (fun s r => s * x i r * x (clt_pa Qc c i) r) st rows)) in *.
      destruct (nth i (cpar c) None) as [p|].
      - split; [reflexivity|]. constructor; [|constructor; [|constructor]].
        + (* l = false: parent value 0 *)
          apply (entry_ok tot (tot - P (clt_pa Qc c i)) (P i - C1)).
          * revert B2. q_of_qc. intros. lra.
          * revert B4. q_of_qc. intros. lra.
          * destruct (bin_sums (x (clt_pa Qc c i)) (x (clt_pa Qc c i)) st Hst rows (xbin _ _ Hpa Hpa)) as [E1 [E2 _]].
            fold (P (clt_pa Qc c i)) in *. assert (0 <= P (clt_pa Qc c i)) by (eapply Qcle_trans; eassumption).
            revert H. q_of_qc. intros. lra.
          * pose proof (prior_eq (clt_pa Qc c i)) as Hp. clear - Hp.
            unfold P_, tot_, x_ in *. cbv beta zeta in *.
            match type of Hp with ?p * ?D = _ => set (pp := p) in *; set (DD := D) in * end.
            replace ((1 - pp) * DD) with (DD - pp * DD) by ring. rewrite Hp. unfold DD, t4, t2. ring.
        + (* l = true: parent value 1 *)
          apply (entry_ok tot (P (clt_pa Qc c i)) C1); try assumption. apply prior_eq.
      - split; [reflexivity|].
        assert (Hc : compl_row [1 - (P i + q2 * alpha) / (tot + q4 * alpha); (P i + q2 * alpha) / (tot + q4 * alpha)]).
        { eexists. split; [reflexivity|].
          assert (Hd : 0 < tot + q4 * alpha).
          { pose proof (sum_nonneg st Hst) as Ht. fold tot in Ht. unfold t4, t2. revert Ht Ha. q_of_qc. intros. nra. }
          destruct (bin_sums (x i) (x i) st Hst rows (xbin _ _ Hil Hil)) as [E1 [E2 _]]. fold (P i) in *.
          assert (HP0 : 0 <= P i) by (eapply Qcle_trans; eassumption).
          split.
          - apply div_nonneg; [|now apply Qclt_le_weak]. unfold t2. revert HP0 Ha. q_of_qc. intros. nra.
          - apply div_le1; [exact Hd|]. unfold t4, t2. revert B5 Ha. q_of_qc. intros. nra. }
        constructor; [exact Hc | constructor; [exact Hc | constructor]].
    Qed.
  End Reest.

  Lemma zipw_rows old new : Forall row_norm old -> Forall compl_row new ->
    Forall row_norm (zipw mix_row old new).
  Proof.
    intros Ho. revert new. induction Ho as [|o old Ho0 Ho IH]; intros new Hn; [constructor|].
    destruct Hn as [|e new He Hn]; cbn; constructor; [now apply mix_row_norm | now apply IH].
  Qed.

  Theorem clt_step_rows_normalised c st rows :
    nonneg st -> clt_wf c ->
    Forall (fun r => forall i, (i < length (cscope c))%nat -> cell Qc c r i = 0%Z \/ cell Qc c r i = 1%Z) rows ->
    Forall (Forall row_norm) (cparams c) ->
    Forall (Forall row_norm) (cparams (cstep c st rows)) /\
    cscope (cstep c st rows) = cscope c /\ cpar (cstep c st rows) = cpar c.
  Proof.
    intros Hst Hwf Hbin Hc. split; [|split; reflexivity]. unfold Em.clt_step. cbn [cparams].
    pose proof (reest_shape c st rows Hst Hwf Hbin) as Hr. revert Hr. generalize (creest c st rows) as R.
    induction Hc as [|tbl ts Ht Hts IH]; intros R HR; [constructor|].
    destruct HR as [|r R [_ Hr] HR]; cbn; constructor; [now apply zipw_rows | now apply IH].
  Qed.
End CltStep.

(* ------------------------------------------------------------------ n iterations *)
Section Iter.
  Variables (eps alpha floor eta : Qc) (tsqrt : Qc -> Qc) (tofz : Z -> Qc).
  Variable xval : nat -> Z -> Qc.
  Variable gdens : Qc -> Qc -> nat -> Z -> Qc.
  Hypotheses (Heps : 0 < eps) (Ha : 0 < alpha) (Hf : 0 < floor) (H0 : 0 < eta) (H1 : eta < 1).
  Hypotheses (Z0 : tofz 0%Z = 0) (Z1 : tofz 1%Z = 1)
             (ZS : forall n, tofz (Z.of_nat (S n)) = 1 + tofz (Z.of_nat n)).
  Hypothesis Hg : forall m sd v c, 0 <= gdens m sd v c.
  Notation qem_iter := (em_iter Qc 0 1 Qcplus Qcmult Qcminus Qcdiv qleb' tsqrt tofz eps alpha floor xval gdens eta).
  Notation qem_iters := (em_iters Qc 0 1 Qcplus Qcmult Qcminus Qcdiv qleb' tsqrt tofz eps alpha floor xval gdens eta).
  Notation qem_node := (em_node Qc 0 1 Qcplus Qcmult Qcminus Qcdiv qleb' tsqrt tofz eps alpha floor xval eta).
  Notation mk := (mk_rinfo Qc 0 1 Qcplus Qcmult Qcminus Qcdiv gdens).
  Notation qvals := (evals Qc 0 1 Qcplus Qcmult Qcminus gdens).
  Notation qlv := (eleaf_val Qc 0 1 Qcplus Qcmult Qcminus gdens).
  Notation qbwd := (bwd Qc 0 Qcplus Qcmult Qcdiv).
  Notation qprod := (prodT Qc 1 Qcmult).

  (* parameter validity *)
  Definition leaf_inv (l : eleaf Qc) : Prop :=
    match l with
    | EBern _ p => 0 <= p /\ p <= 1
    | ECat _ cats ps => nonneg ps /\ qsum ps = 1 /\ length ps = length cats /\ NoDup cats
    | EGauss _ _ sd => 0 < sd
    | EClt c => clt_wf c /\ Forall (Forall row_norm) (cparams c)
    end.
  Definition node_inv (n : enode Qc) : Prop :=
    match nkind n with
    | KSum ws => nonneg ws /\ qsum ws = 1 /\ length ws = length (nkids n)
    | KProd => True
    | KLeaf l => leaf_inv l
    end.
  (* a data row fits a node: Bernoulli / CLT cells are 0 or 1 (and present), Categorical cells are categories *)
  Definition leaf_row_ok (l : eleaf Qc) (r : row) : Prop :=
    match l with
    | EBern v _ => cellz r v = 0%Z \/ cellz r v = 1%Z
    | ECat v cats _ => In (cellz r v) cats
    | EGauss _ _ _ => True
    | EClt c => complete_on (cscope c) r = true /\
                forall i, (i < length (cscope c))%nat -> cell Qc c r i = 0%Z \/ cell Qc c r i = 1%Z
    end.
  Definition row_ok (n : enode Qc) (r : row) : Prop :=
    match nkind n with KLeaf l => leaf_row_ok l r | _ => True end.
  Definition ri_ok (ri : rinfo Qc) : Prop :=
    nonneg (ri_vs Qc ri) /\ nonneg (ri_gs Qc ri) /\ 0 <= ri_root Qc ri.

  Lemma nth_nonneg l i : nonneg l -> 0 <= nth i l 0.
  Proof. intros H. revert i. induction H; intros [|i]; cbn; auto; apply Qcle_refl. Qed.
  Lemma dot_nonneg ws : nonneg ws -> forall xs, nonneg xs -> 0 <= qdot ws xs.
  Proof.
    induction 1 as [|w ws Hw Hws IH]; intros xs Hx; [apply Qcle_refl|].
    destruct Hx as [|x xs Hx0 Hx]; cbn; [apply Qcle_refl|].
    apply plus_nonneg; [now apply mult_nonneg | now apply IH].
  Qed.
  Lemma prod_nonneg l : nonneg l -> 0 <= qprod l.
  Proof.
    induction 1; cbn; [|now apply mult_nonneg].
    q_of_qc. lra.
  Qed.
  Lemma map_nth_nonneg vs ks : nonneg vs -> nonneg (map (fun k => nth k vs 0) ks).
  Proof. intros H. apply Forall_map. apply Forall_forall. intros k _. now apply nth_nonneg. Qed.
  Lemma one_nonneg : 0 <= 1.
  Proof. q_of_qc. lra. Qed.

  Lemma lookup_nonneg cats : forall ps x, nonneg ps -> 0 <= lookup Qc 0 (combine cats ps) x.
  Proof.
    induction cats as [|c cats IH]; intros ps x Hp; [apply Qcle_refl|].
    destruct Hp as [|p ps Hp0 Hp]; cbn; [apply Qcle_refl|].
    destruct (Z.eqb c x); [exact Hp0 | now apply IH].
  Qed.
  Lemma row_nth_nonneg rw b : row_norm rw \/ rw = [] -> 0 <= nth b rw 0.
  Proof.
    intros [[a [c [-> [_ [Ha0 Hc0]]]]] | ->]; [|destruct b; apply Qcle_refl].
    destruct b as [|[|[|b]]]; cbn; auto; apply Qcle_refl.
  Qed.
  Lemma cpt_nonneg ps i a b : Forall (Forall row_norm) ps -> 0 <= nth b (nth a (nth i ps []) []) 0.
  Proof.
    intros H. apply row_nth_nonneg.
    assert (Ht : Forall row_norm (nth i ps [])).
    { destruct (Nat.lt_ge_cases i (length ps)) as [Hi|Hi].
      - rewrite Forall_forall in H. apply H. now apply nth_In.
      - rewrite nth_overflow by exact Hi. constructor. }
    destruct (Nat.lt_ge_cases a (length (nth i ps []))) as [Hi|Hi].
    - left. rewrite Forall_forall in Ht. apply Ht. now apply nth_In.
    - right. now apply nth_overflow.
  Qed.

  Lemma leaf_val_nonneg l r : leaf_inv l -> leaf_row_ok l r -> 0 <= qlv l r.
  Proof.
    destruct l as [v p|v cats ps|v m sd|c]; cbn.
    - intros [Hp0 Hp1] _. destruct (r v) as [x|]; [|apply one_nonneg].
      unfold bern_val. destruct (Z.eqb x 1); [exact Hp0|]. destruct (Z.eqb x 0); [|apply Qcle_refl].
      revert Hp1. q_of_qc. intros. lra.
    - intros [Hp _] _. destruct (r v) as [x|]; [|apply one_nonneg]. now apply lookup_nonneg.
    - intros _ _. destruct (r v) as [x|]; [|apply one_nonneg]. apply Hg.
    - intros [_ Hc] [Hcomp _]. unfold clt_lik. rewrite Hcomp. unfold clt_gather.
      apply prod_nonneg. apply Forall_map. apply Forall_forall. intros i _.
      unfold cpt_fn. match goal with |- context [if ?b then _ else _] => destruct b end; [|apply Qcle_refl].
      now apply cpt_nonneg.
  Qed.

  Lemma vals_nonneg t r : Forall node_inv t -> Forall (fun n => row_ok n r) t -> nonneg (qvals t r).
  Proof.
    unfold Em.evals. induction t as [|n t IH] using rev_ind; intros Hi Hr; [constructor|].
    apply Forall_app in Hi. destruct Hi as [Hi Hn]. apply Forall_app in Hr. destruct Hr as [Hr Hrn].
    inversion Hn as [|? ? Hn' _]; subst. inversion Hrn as [|? ? Hrn' _]; subst.
    rewrite (vals_snoc Qc 0 1 Qcplus Qcmult (eleaf Qc) qlv). apply Forall_app. split; [now apply IH|].
    constructor; [|constructor]. specialize (IH Hi Hr).
    unfold Core.node_val. unfold node_inv in Hn'. unfold row_ok in Hrn'.
    destruct (nkind n) as [l|ws|].
    - now apply leaf_val_nonneg.
    - destruct Hn' as [Hw _]. apply dot_nonneg; [exact Hw | now apply map_nth_nonneg].
    - apply prod_nonneg. now apply map_nth_nonneg.
  Qed.

  Lemma add_at_nonneg k x l : 0 <= x -> nonneg l -> nonneg (add_at Qc Qcplus k x l).
  Proof.
    intros Hx H. revert k. induction H as [|y l Hy Hl IH]; intros k.
    - destruct k; constructor.
    - destruct k as [|k]; cbn.
      + constructor; [now apply plus_nonneg | exact Hl].
      + constructor; [exact Hy | apply IH].
  Qed.
  Lemma push_nonneg g es : 0 <= g -> Forall (fun e : nat * Qc => 0 <= snd e) es ->
    forall acc, nonneg acc -> nonneg (push Qc Qcplus Qcmult g acc es).
  Proof.
    intros Hgp. induction 1 as [|e es He Hes IH]; intros acc Hacc; cbn; [exact Hacc|].
    unfold Em.push in IH. apply IH. apply add_at_nonneg; [now apply mult_nonneg | exact Hacc].
  Qed.
  Lemma edges_nonneg n vs vn : node_inv n -> nonneg vs -> 0 <= vn ->
    Forall (fun e : nat * Qc => 0 <= snd e) (edges Qc 0 Qcdiv n vs vn).
  Proof.
    intros Hn Hvs Hvn. unfold Em.edges. unfold node_inv in Hn. destruct (nkind n) as [l|ws|]; [constructor| |].
    - destruct Hn as [Hw _]. apply Forall_forall. intros [k w] Hin. apply in_combine_r in Hin.
      unfold nonneg in Hw. rewrite Forall_forall in Hw. cbn. now apply Hw.
    - apply Forall_map. apply Forall_forall. intros k _. cbn.
      apply div_nonneg; [exact Hvn | now apply nth_nonneg].
  Qed.
  Lemma bwd_nonneg rt vs : Forall node_inv rt -> nonneg vs -> forall acc, nonneg acc -> nonneg (qbwd rt vs acc).
  Proof.
    intros Hrt Hvs. induction Hrt as [|n rt Hn Hrt IH]; intros acc Hacc; [exact Hacc|].
    cbn [Em.bwd]. apply IH. apply push_nonneg; [now apply nth_nonneg | | exact Hacc].
    apply edges_nonneg; [exact Hn | exact Hvs | now apply nth_nonneg].
  Qed.

  Lemma ri_ok_mk t r : Forall node_inv t -> Forall (fun n => row_ok n r) t -> ri_ok (mk t r).
  Proof.
    intros Hi Hr. pose proof (vals_nonneg t r Hi Hr) as Hv. unfold ri_ok, Em.mk_rinfo. cbn.
    split; [exact Hv|]. split; [|now apply nth_nonneg].
    unfold Em.grads. apply bwd_nonneg; [now apply Forall_rev | exact Hv |].
    unfold Em.seed. apply Forall_app. split; [|constructor; [apply one_nonneg | constructor]].
    apply Forall_forall. intros x Hx. apply repeat_spec in Hx. subst. apply Qcle_refl.
  Qed.

  Lemma em_node_inv ris i n : Forall ri_ok ris -> Forall (fun ri => row_ok n (ri_row Qc ri)) ris ->
    node_inv n -> node_inv (qem_node ris i n).
  Proof.
    intros Hr Hd. unfold node_inv, row_ok, Em.em_node in *. destruct n as [k sc ks]; cbn in *.
    destruct k as [l|ws|]; cbn; [| |auto].
    - assert (Hst : nonneg (map (leaf_stat Qc 0 Qcmult Qcdiv i) ris)).
      { apply Forall_map. eapply Forall_impl; [|exact Hr]. intros ri [Hvs [Hgs Hrt]].
        unfold leaf_stat. apply div_nonneg; [apply mult_nonneg; now apply nth_nonneg | exact Hrt]. }
      destruct l as [v p|v cats ps|v m sd|c]; cbn in *.
      + intros [Hp0 Hp1].
        assert (Hxs : Forall (fun x => x = 0%Z \/ x = 1%Z) (map (fun r => cellz r v) (map (ri_row Qc) ris))).
        { rewrite map_map. apply Forall_map. exact Hd. }
        destruct (bern_step_domain alpha eta tofz Ha H0 H1 Z0 Z1 p _ _ Hp0 Hp1 Hst Hxs) as [_ [B0 B1]].
        split; apply Qclt_le_weak; assumption.
      + intros [Hp [Hs [Hl Hnd]]].
        assert (Hxs : Forall (fun x => In x cats) (map (fun r => cellz r v) (map (ri_row Qc) ris))).
        { rewrite map_map. apply Forall_map. exact Hd. }
        assert (Hlen : length (map (fun r => cellz r v) (map (ri_row Qc) ris)) =
                       length (map (leaf_stat Qc 0 Qcmult Qcdiv i) ris)) by (rewrite !map_length; reflexivity).
        destruct (cat_step_simplex alpha eta tofz Ha H0 H1 Z0 ZS cats ps
                    (map (leaf_stat Qc 0 Qcmult Qcdiv i) ris) (map (fun r => cellz r v) (map (ri_row Qc) ris))
                    Hp Hs Hl Hst Hlen Hnd Hxs) as [_ [C1 [C2 C3]]].
        repeat split; [exact C1 | exact C2 | now rewrite C3 | exact Hnd].
      + intros Hsd.
        exact (proj2 (proj2 (proj2 (gauss_step_sigma_pos eps floor eta tsqrt Hf H0 H1 m sd _ _ Hsd)))).
      + intros [Hwf Hc].
        assert (Hb : Forall (fun r => forall i0, (i0 < length (cscope c))%nat ->
                        cell Qc c r i0 = 0%Z \/ cell Qc c r i0 = 1%Z) (map (ri_row Qc) ris)).
        { apply Forall_map. eapply Forall_impl; [|exact Hd]. intros ri [_ Hb]. exact Hb. }
        split; [exact Hwf|].
        exact (proj1 (clt_step_rows_normalised alpha eta tofz Ha H0 H1 Z0 Z1 c _ _ Hst Hwf Hb Hc)).
    - intros [Hw [Hs Hl]].
      assert (Hss : nonneg (map (fun k => qsum (map (edge_stat Qc 0 Qcmult Qcdiv i k) ris)) ks)).
      { apply Forall_map. apply Forall_forall. intros k _. apply sum_nonneg. apply Forall_map.
        eapply Forall_impl; [|exact Hr]. intros ri [Hvs [Hgs Hrt]].
        unfold edge_stat. apply div_nonneg; [apply mult_nonneg; now apply nth_nonneg | exact Hrt]. }
      destruct (sum_step_simplex eps eta Heps H0 H1 ws _ Hw Hs Hss) as [_ [S1 [S2 S3]]].
      { now rewrite map_length. }
      repeat split; [exact S1 | exact S2 | now rewrite S3].
  Qed.

  Lemma em_node_row_ok ris i n r : row_ok n r -> row_ok (qem_node ris i n) r.
  Proof.
    unfold row_ok, Em.em_node. destruct n as [k sc ks]; cbn. destruct k as [l|ws|]; cbn; auto.
    destruct l; cbn; auto.
  Qed.

  Definition data_ok (t : etable Qc) (b : list row) : Prop := Forall (fun r => Forall (fun n => row_ok n r) t) b.

  Lemma em_iter_inv t b : data_ok t b -> Forall node_inv t -> Forall node_inv (qem_iter t b).
  Proof.
    intros Hd Ht. unfold Em.em_iter. apply Forall_map. apply Forall_forall. intros [i n] Hin. cbn.
    apply in_combine_r in Hin. apply em_node_inv.
    - apply Forall_map. eapply Forall_impl; [|exact Hd]. intros r Hr. now apply ri_ok_mk.
    - apply Forall_map. eapply Forall_impl; [|exact Hd]. intros r Hr. cbn.
      rewrite Forall_forall in Hr. now apply Hr.
    - rewrite Forall_forall in Ht. now apply Ht.
  Qed.
  Lemma em_iter_data_ok t b b' : data_ok t b' -> data_ok (qem_iter t b) b'.
  Proof.
    intros Hd. eapply Forall_impl; [|exact Hd]. intros r Hr. unfold Em.em_iter.
    apply Forall_map. apply Forall_forall. intros [i n] Hin. cbn. apply in_combine_r in Hin.
    apply em_node_row_ok. rewrite Forall_forall in Hr. now apply Hr.
  Qed.

  Theorem em_iters_inv bs : forall t, Forall node_inv t -> Forall (data_ok t) bs -> Forall node_inv (qem_iters t bs).
  Proof.
    induction bs as [|b bs IH]; intros t Ht Hd; [exact Ht|].
    inversion Hd as [|? ? Hb Hbs]; subst. unfold Em.em_iters. cbn. apply IH; [now apply em_iter_inv|].
    eapply Forall_impl; [|exact Hbs]. intros b'. apply em_iter_data_ok.
  Qed.
End Iter.

Example em_example :
  let t : etable Qc := [ {| nkind := KLeaf (EBern 0 (Q2Qc (1#4))); nscope := [0%nat]; nkids := [] |};
                          {| nkind := KLeaf (EBern 0 (Q2Qc (3#4))); nscope := [0%nat]; nkids := [] |};
                          {| nkind := KSum [Q2Qc (1#2); Q2Qc (1#2)]; nscope := [0%nat]; nkids := [0%nat; 1%nat] |} ] in
  let b : list row := [fun _ => Some 1%Z; fun _ => Some 0%Z] in
  let t' := em_iter Qc 0 1 Qcplus Qcmult Qcminus Qcdiv qleb' (fun x => x) (fun z => Q2Qc (inject_Z z))
              (Q2Qc (1#8388608)) (Q2Qc (1#1024)) (Q2Qc (1#100000)) (fun _ _ => 0) (fun _ _ _ _ => 0) (Q2Qc (1#2)) t b in
  map (fun n => map this (params_of Qc n)) t' = [[1027#4104]; [3077#4104]; [1#2; 1#2]]%Q.
Proof. vm_compute. reflexivity. Qed.

(* ------------------------------------------------------------------ responsibilities of a sum node *)
Lemma resp_sum ws vs g r : qdot ws (map (fun v => v * g / r) vs) = qdot ws vs * g / r.
Proof.
  revert vs. induction ws as [|w ws IH]; intros [|v vs]; cbn; try (unfold Qcdiv; ring).
  rewrite IH. unfold Qcdiv. ring.
Qed.
(* at the root (gradient one, root value = the node's own value <> 0) the responsibilities
   w_k * exp(ll_k - ll_root + 0) of the children sum to one *)
Theorem resp_root_one ws vs : qdot ws vs <> 0 ->
  qdot ws (map (fun v => v * 1 / qdot ws vs) vs) = 1.
Proof. intros H. rewrite resp_sum. field. exact H. Qed.

(* the division hypothesis of Proofs/EmGrad.v holds in Qc *)
Lemma Qc_div_cancel : forall a b : Qc, b <> 0 -> (a * b) / b = a.
Proof. intros. field. assumption. Qed.

(* the hypotheses of em_iters_inv are satisfiable: the table and batch of em_example *)
Example em_example_hyps :
  let t : etable Qc := [ {| nkind := KLeaf (EBern 0 (Q2Qc (1#4))); nscope := [0%nat]; nkids := [] |};
                          {| nkind := KLeaf (EBern 0 (Q2Qc (3#4))); nscope := [0%nat]; nkids := [] |};
                          {| nkind := KSum [Q2Qc (1#2); Q2Qc (1#2)]; nscope := [0%nat]; nkids := [0%nat; 1%nat] |} ] in
  let b : list row := [fun _ => Some 1%Z; fun _ => Some 0%Z] in
  Forall node_inv t /\ Forall (data_ok t) [b].
Proof.
  cbn zeta.
  assert (L : forall a b : Q, Qle_bool a b = true -> Q2Qc a <= Q2Qc b).
  { intros a b H. unfold Qcle. cbn. rewrite !Qred_correct. now apply Qle_bool_iff. }
  split.
  - constructor; [|constructor; [|constructor; [|constructor]]].
    + split; apply L; reflexivity.
    + split; apply L; reflexivity.
    + split; [|split; [|reflexivity]].
      * constructor; [apply L; reflexivity | constructor; [apply L; reflexivity | constructor]].
      * apply Qc_is_canon. reflexivity.
  - constructor; [|constructor]. constructor; [|constructor; [|constructor]].
    + constructor; [right; reflexivity | constructor; [right; reflexivity | constructor; [exact I | constructor]]].
    + constructor; [left; reflexivity | constructor; [left; reflexivity | constructor; [exact I | constructor]]].
Qed.
