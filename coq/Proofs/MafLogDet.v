(* Proofs/MafLogDet.v — C15 end to end for one MAF layer: masks built by build_masks from ANY degree lists whose input degrees
   are a permutation, any weights / biases / activations / scale activation: every matrix of partial derivatives of
   apply_backward at x has determinant exp(reported ildj). *)
From mathcomp Require Import all_ssreflect all_fingroup all_algebra.
From Coq Require Import Reals.
From Coquelicot Require Import Coquelicot.
From DV Require Import Model.Flow Proofs.FlowFacts Proofs.FlowReal Proofs.DetRank Proofs.FlowJacobian Proofs.FlowLogDet Proofs.MafCond.
Set Implicit Arguments. Unset Strict Implicit. Unset Printing Implicit Defensive.
Local Open Scope ring_scope.

Theorem maf_logdet (d0 : list nat) (rest : list (list nat)) (Ls : list (mlayer R)) (sact : nat -> R -> R) :
  List.map (@l_mask R) Ls = tile_last (build_masks (d0 :: rest)) ->
  (forall k, (k < length d0)%coq_nat -> List.In k d0) ->
  let n := length d0 in
  let cond := ar_cond R 0%R 1%R Rplus Rmult n Ls sact in
  forall (x : list R) (J : 'M[R]_n), length x = n ->
  (forall i j : 'I_n, is_derive (partial (ar_map n cond) x i j) (List.nth j x 0%R) (J i j)) ->
  \det J = exp (snd (Rar_bwd n cond x)).
Proof.
move=> Hmask Hperm n cond x J Hx HJ.
apply: (@ar_logdet n (fun i => List.nth i d0 0%N) cond _ _ x J Hx HJ).
- exact: (@maf_cond_autoregressive d0 rest Ls sact Hmask).
- exact: (@degrees_injective d0 Hperm).
Qed.
