(* Proofs/MafCond.v — C15: the conditioner that MAF actually builds (masked MLP with the masks of build_masks, tiled last
   mask, any weights / biases / activations / scale activation) is autoregressive in the sense the Jacobian theorems
   need, with deg = the input degree list; and the degree map of a permutation is injective.  Instantiated at the reals. *)
From Coq Require Import Reals List Arith Lia.
From DV Require Import Model.Flow Proofs.FlowFacts.
Import ListNotations.
Open Scope R_scope.

Notation "x @ i" := (nth i x 0) (at level 9, i at next level).

Theorem maf_cond_autoregressive : forall (d0 : list nat) (rest : list (list nat)) (Ls : list (mlayer R)) (sact : nat -> R -> R),
  map (l_mask R) Ls = tile_last (build_masks (d0 :: rest)) ->
  let n := length d0 in
  let cond := ar_cond R 0 1 Rplus Rmult n Ls sact in
  forall x x' i, length x = n -> length x' = n -> (i < n)%nat ->
  (forall j, (j < n)%nat -> (nth j d0 0 < nth i d0 0)%nat -> x@j = x'@j) ->
  (fst (cond x))@i = (fst (cond x'))@i /\ (snd (cond x))@i = (snd (cond x'))@i.
Proof.
  intros d0 rest Ls sact Hmask n cond x x' i Hx Hx' Hi Hag. unfold cond, ar_cond. simpl fst. simpl snd.
  rewrite !(vec_nth R 0) by auto.
  assert (Hrow : forall r, (r mod n = i)%nat ->
    (mlp R 0 1 Rplus Rmult Ls x)@r = (mlp R 0 1 Rplus Rmult Ls x')@r).
  { intros r Hr. apply (mlp_connectivity R 0 1 Rplus Rmult Rminus Ropp exp RTheory exp_plus) with (n := n); auto.
    intros j Hj. rewrite Hmask in Hj.
    apply masks_autoregressive_tiled in Hj as [_ Hj]. fold n in Hj. rewrite Hr in Hj.
    destruct (lt_dec j n); [now apply Hag|]. now rewrite !nth_overflow by lia. }
  split.
  - apply Hrow. now apply Nat.mod_small.
  - f_equal. apply Hrow. replace (n + i)%nat with (i + 1 * n)%nat by lia. rewrite Nat.mod_add by lia. now apply Nat.mod_small.
Qed.

Theorem degrees_injective : forall d0 : list nat, (forall k, (k < length d0)%nat -> In k d0) ->
  forall i j, (i < length d0)%nat -> (j < length d0)%nat -> nth i d0 0%nat = nth j d0 0%nat -> i = j.
Proof.
  intros d0 Hperm i j Hi Hj E. destruct (inv_ordering_spec d0 Hperm) as (_ & _ & Hdeg).
  destruct (Hdeg i Hi) as [_ Ei]. destruct (Hdeg j Hj) as [_ Ej]. rewrite <- Ei, <- Ej, E. reflexivity.
Qed.
