(* Proofs/HeapFacts.v — validation accepts exactly the smooth, decomposable, well-labelled node sets. *)
From Coq Require Import List Arith Bool Lia.
From DV Require Import Model.Clt Model.Check Model.Heap.
Import ListNotations.

Lemma memb_In' x l : memb x l = true <-> In x l.
Proof.
  unfold memb. rewrite existsb_exists. split.
  - intros [y [Hy He]]. apply Nat.eqb_eq in He. now subst.
  - intros H. exists x. split; [exact H | apply Nat.eqb_refl].
Qed.
Lemma seteqb_iff a b : seteqb a b = true <-> (forall x, In x a <-> In x b).
Proof.
  unfold seteqb, subsetb. rewrite andb_true_iff, !forallb_forall. split.
  - intros [H1 H2] x. split; intro H; apply memb_In'; auto.
  - intros H. split; intros x Hx; apply memb_In'; now apply H.
Qed.
Lemma nodupb_iff l : nodupb l = true <-> NoDup l.
Proof.
  induction l as [|x l IH]; cbn; [split; [constructor | reflexivity]|].
  rewrite andb_true_iff, negb_true_iff, IH. split.
  - intros [H1 H2]. constructor; [|exact H2]. intro Hin. apply memb_In' in Hin. unfold memb in Hin. congruence.
  - intros H. inversion H; subst. split; [|assumption].
    destruct (existsb (Nat.eqb x) l) eqn:E; [|reflexivity]. exfalso. apply H2. now apply memb_In'.
Qed.

(* NoDup of a concatenation = every part duplicate-free and parts pairwise disjoint *)
Lemma NoDup_app_iff {A} (a b : list A) :
  NoDup (a ++ b) <-> NoDup a /\ NoDup b /\ (forall x, In x a -> ~ In x b).
Proof.
  induction a as [|y a IH]; cbn.
  - split; [intros H; repeat split; [constructor | exact H | tauto] | tauto].
  - rewrite !NoDup_cons_iff, IH, in_app_iff. split.
    + intros [Hy (Ha & Hb & Hd)]. repeat split; try tauto.
      intros x [<-|Hx]; [tauto | now apply Hd].
    + intros [[Hy Ha] [Hb Hd]]. split; [intros [H|H]; [tauto | exact (Hd y (or_introl eq_refl) H)]|].
      repeat split; auto.
Qed.
Definition pairwise_disjoint (l : list (list nat)) : Prop :=
  forall i j, i < j < length l -> forall x, In x (nth i l []) -> ~ In x (nth j l []).
Lemma NoDup_concat_iff (l : list (list nat)) :
  NoDup (concat l) <-> Forall (@NoDup nat) l /\ pairwise_disjoint l.
Proof.
  induction l as [|a l IH]; cbn.
  - split; [intros _; split; [constructor | intros i j H; cbn in H; lia] | constructor].
  - rewrite NoDup_app_iff, IH. split.
    + intros (Ha & [Hl Hp] & Hd). split; [constructor; auto|].
      intros i j Hij x. destruct j as [|j]; [lia|]. destruct i as [|i]; cbn.
      * intros Hx Hj. apply (Hd x Hx). apply in_concat. exists (nth j l []). split; [apply nth_In; cbn in Hij; lia | exact Hj].
      * apply Hp. cbn in Hij. lia.
    + intros [Hall Hp]. inversion Hall; subst. repeat split; auto.
      * intros i j Hij. apply (Hp (S i) (S j)). cbn. lia.
      * intros x Hx Hc. apply in_concat in Hc. destruct Hc as [s [Hs Hxs]].
        destruct (In_nth _ _ [] Hs) as [j [Hj Hn]]. subst s.
        apply (Hp 0 (S j) ltac:(cbn; lia) x Hx Hxs).
Qed.

(* ---- declarative specifications ---- *)
Definition labeled_spec (nodes : list obj) : Prop :=
  exists ids, map oid nodes = map Some ids /\ NoDup ids /\ forall i, In i ids -> i < length nodes.
Definition smooth_spec (h : heap) (nodes : list obj) : Prop :=
  forall o, In o nodes -> forall nw, okind o = HSum nw ->
    okids o <> [] /\ nw = Some (length (okids o)) /\
    forall k, In k (okids o) -> (forall x, In x (oscope (hget h k)) <-> In x (oscope o)).
Definition decomp_spec (h : heap) (nodes : list obj) : Prop :=
  forall o, In o nodes -> okind o = HProd ->
    okids o <> [] /\ Forall (@NoDup nat) (kid_scopes h o) /\ pairwise_disjoint (kid_scopes h o) /\
    (forall x, In x (oscope o) <-> exists k, In k (okids o) /\ In x (oscope (hget h k))).

Lemma all_some_map (l : list (option nat)) : forallb is_some l = true -> l = map Some (map oget l).
Proof.
  induction l as [|[x|] l IH]; cbn; intros H; try discriminate; [reflexivity|]. f_equal. now apply IH.
Qed.
Lemma fold_min_le l d x : In x l -> fold_right Nat.min d l <= x.
Proof. induction l as [|y l IH]; cbn; [tauto|]. intros [->|H]; [lia | specialize (IH H); lia]. Qed.
Lemma fold_max_ge l x : In x l -> x <= fold_right Nat.max 0 l.
Proof. induction l as [|y l IH]; cbn; [tauto|]. intros [->|H]; [lia | specialize (IH H); lia]. Qed.
Lemma fold_max_in l : l <> [] -> In (fold_right Nat.max 0 l) l.
Proof.
  induction l as [|y l IH]; [congruence|]. intros _. cbn. destruct l as [|z l]; [cbn; left; lia|].
  specialize (IH ltac:(discriminate)). destruct (Nat.max_spec y (fold_right Nat.max 0 (z :: l))) as [[_ ->]|[_ ->]]; auto.
Qed.
Lemma fold_min_in l d : In d l -> In (fold_right Nat.min d l) l.
Proof.
  intros Hd. induction l as [|y l IH]; [contradiction|]. cbn.
  destruct (Nat.min_spec y (fold_right Nat.min d l)) as [[_ ->]|[Hle ->]]; [now left|].
  destruct Hd as [->|Hd]; [|right; now apply IH].
  (* d is the head: min over the tail with default d is d or an element of the tail *)
  clear IH. revert Hle. induction l as [|z l IH]; cbn; [intros; now left|].
  intros Hle. destruct (Nat.min_spec z (fold_right Nat.min d l)) as [[_ ->]|[Hz ->]]; [right; now left|].
  destruct (IH ltac:(cbn in Hle; lia)) as [H|H]; [now left | right; now right].
Qed.

Theorem labeled_iff nodes : nodes <> [] -> (labeled_b nodes = true <-> labeled_spec nodes).
Proof.
  intros Hne. unfold labeled_b, labeled_spec. rewrite !andb_true_iff, nodupb_iff, !Nat.eqb_eq. split.
  - intros [Hs [[Hnd Hmin] Hmax]]. exists (map oget (map oid nodes)). split; [now apply all_some_map|]. split; [exact Hnd|].
    intros i Hi. pose proof (fold_max_ge _ i Hi) as H. rewrite Hmax in H.
    rewrite !map_length in H. destruct nodes; [congruence | cbn in *; lia].
  - intros [ids [Hmap [Hnd Hr]]]. rewrite Hmap. rewrite map_map. cbn [oget]. rewrite map_id.
    assert (Hlen : length ids = length nodes) by (rewrite <- (map_length Some ids), <- Hmap, map_length; reflexivity).
    split; [rewrite forallb_forall; intros x Hx; apply in_map_iff in Hx; destruct Hx as [? [<- _]]; reflexivity|].
    assert (Hincl : incl (seq 0 (length nodes)) ids).
    { apply NoDup_length_incl; [exact Hnd | rewrite seq_length; lia |].
      intros i Hi. apply in_seq. specialize (Hr i Hi). lia. }
    assert (Hpos : 0 < length nodes) by (destruct nodes; [congruence | cbn; lia]).
    assert (H0 : In 0 ids) by (apply Hincl, in_seq; lia).
    assert (Hl : In (length nodes - 1) ids) by (apply Hincl, in_seq; lia).
    assert (Hhd : In (hd 0 ids) ids) by (destruct ids; [contradiction | now left]).
    repeat split; [exact Hnd | |].
    + pose proof (fold_min_le ids (hd 0 ids) 0 H0). lia.
    + pose proof (fold_max_ge ids _ Hl) as H1. assert (Hne' : ids <> []) by (intro; subst; contradiction).
      pose proof (Hr _ (fold_max_in ids Hne')). lia.
Qed.

Lemma length_zero_iff {A} (l : list A) : Nat.eqb (length l) 0 = false <-> l <> [].
Proof. destruct l; cbn; split; congruence. Qed.

Lemma opt_nat_eqb_eq a b : opt_nat_eqb a b = true <-> a = b.
Proof.
  destruct a, b; cbn; try (split; congruence). rewrite Nat.eqb_eq. split; congruence.
Qed.

Theorem smooth_iff h nodes : forallb (smooth_node h) nodes = true <-> smooth_spec h nodes.
Proof.
  rewrite forallb_forall. unfold smooth_spec. split.
  - intros H o Ho nw Hk. specialize (H o Ho). unfold smooth_node in H. rewrite Hk in H.
    rewrite !andb_true_iff, negb_true_iff, length_zero_iff, opt_nat_eqb_eq, forallb_forall in H.
    destruct H as [[H1 H2] H3]. split; [exact H1|]. split; [exact H2|].
    intros k Hkin. apply seteqb_iff, H3. unfold kid_scopes.
    now apply in_map with (f := fun k => oscope (hget h k)).
  - intros H o Ho. unfold smooth_node. destruct (okind o) as [nw| |] eqn:E; try reflexivity.
    destruct (H o Ho nw E) as (H1 & H2 & H3).
    rewrite !andb_true_iff, negb_true_iff, length_zero_iff, opt_nat_eqb_eq, forallb_forall. repeat split; auto.
    intros s Hs. unfold kid_scopes in Hs. apply in_map_iff in Hs. destruct Hs as [k [<- Hk]].
    apply seteqb_iff. now apply H3.
Qed.

Lemma in_concat_kids h o x :
  In x (concat (kid_scopes h o)) <-> exists k, In k (okids o) /\ In x (oscope (hget h k)).
Proof.
  rewrite in_concat. unfold kid_scopes. split.
  - intros [s [Hs Hx]]. apply in_map_iff in Hs. destruct Hs as [k [<- Hk]]. eauto.
  - intros [k [Hk Hx]]. exists (oscope (hget h k)). split; [|exact Hx].
    now apply in_map with (f := fun k => oscope (hget h k)).
Qed.

Theorem decomp_iff h nodes : forallb (decomp_node h) nodes = true <-> decomp_spec h nodes.
Proof.
  rewrite forallb_forall. unfold decomp_spec. split.
  - intros H o Ho Hk. specialize (H o Ho). unfold decomp_node in H. rewrite Hk in H.
    rewrite !andb_true_iff, negb_true_iff, length_zero_iff, nodupb_iff, seteqb_iff, NoDup_concat_iff in H.
    destruct H as [H1 [[H2 H3] H4]]. repeat split; auto.
    + intros Hx. apply in_concat_kids. now apply H4.
    + intros Hx. apply H4. now apply in_concat_kids.
  - intros H o Ho. unfold decomp_node. destruct (okind o) eqn:E; try reflexivity.
    destruct (H o Ho E) as (H1 & H2 & H3 & H4).
    rewrite !andb_true_iff, negb_true_iff, length_zero_iff, nodupb_iff, seteqb_iff, NoDup_concat_iff.
    repeat split; auto.
    + intros Hx. apply H4. now apply in_concat_kids.
    + intros Hx. apply in_concat_kids. now apply H4.
Qed.

(* the combined check, all three flags on (as every entry point passes them) *)
Theorem check_nodes_iff h nodes : nodes <> [] ->
  (check_nodes h nodes true true true = Accept <->
   labeled_spec nodes /\ smooth_spec h nodes /\ decomp_spec h nodes).
Proof.
  intros Hne. unfold check_nodes. cbn [andb].
  rewrite <- (labeled_iff nodes Hne), <- smooth_iff, <- decomp_iff.
  destruct (labeled_b nodes), (forallb (smooth_node h) nodes), (forallb (decomp_node h) nodes); cbn;
    split; try discriminate; try tauto; intros (A & B & C); discriminate.
Qed.

(* disabling the context flag accepts everything (check_spn=False) *)
Lemma check_disabled h root a b c : check_spn false h root a b c = Accept.
Proof. reflexivity. Qed.

(* the pinned check accepted an overlapping product: Product{0,1}[Product{0,1}[B0,B1], B1] *)
Definition pinned_heap : heap :=
  [ {| oid := Some 0; okind := HProd; oscope := [0;1]; okids := [1;3] |};
    {| oid := Some 1; okind := HProd; oscope := [0;1]; okids := [2;3] |};
    {| oid := Some 2; okind := HLeaf; oscope := [0]; okids := [] |};
    {| oid := Some 3; okind := HLeaf; oscope := [1]; okids := [] |} ].
Lemma decomp_pinned_refuted :
  forallb (decomp_node_pinned pinned_heap) (collect_nodes pinned_heap 0) = true /\
  forallb (decomp_node pinned_heap) (collect_nodes pinned_heap 0) = false.
Proof. vm_compute. split; reflexivity. Qed.
