(* Proofs/ChowLiuFacts.v — the fitted CPTs of Model/ChowLiu.v: rows sum to one, the renormalisation is
   the identity, entries are the smoothed empirical conditionals (any field; then every binary data
   matrix and alpha > 0 at Qc), and the fitted tree is a normalised distribution. *)
From Coq Require Import List Arith ZArith QArith Qcanon Bool Ring Field Lia.
From DV Require Import Model.Core Model.Clt Model.QcInst Model.ChowLiu Model.ChowLiuRun
  Proofs.CoreFacts Proofs.CltFacts Proofs.QcLaws Proofs.ChowLiuTree.
Import ListNotations.
Local Open Scope nat_scope.

(* ------------------------------------------------------------------ field identities *)
Section FitFacts.
  Variable T : Type.
  Variables (t0 t1 : T) (tadd tmul tsub : T -> T -> T) (topp : T -> T) (tdiv : T -> T -> T) (tinv : T -> T).
  Hypothesis Fth : field_theory t0 t1 tadd tmul tsub topp tdiv tinv (@eq T).
  Add Field Tfield : Fth.
  Variables (n alpha : T) (c1 : nat -> T) (c11 : nat -> nat -> T).
  Infix "+" := tadd. Infix "*" := tmul. Infix "-" := tsub. Infix "/" := tdiv.
  Notation two := (two T t1 tadd).
  Notation four := (four T t1 tadd).
  Notation den := (den T t1 tadd tmul n alpha).
  Notation prior := (prior T t1 tadd tmul tsub tdiv n alpha c1).
  Notation joint_cnt := (joint_cnt T tadd tsub n c1 c11).
  Notation joint := (joint T t0 t1 tadd tmul tsub tdiv n alpha c1 c11).
  Notation cpt_raw := (cpt_raw T t0 t1 tadd tmul tsub tdiv n alpha c1 c11).
  Notation cpt := (cpt T t0 t1 tadd tmul tsub tdiv n alpha c1 c11).

  (* smoothed marginal count of X_i = k :  N(X_i = k) + 2 alpha *)
  Definition marg (i : nat) (k : bool) : T :=
    if k then c1 i + two * alpha else n - c1 i + two * alpha.

  Hypothesis Hden : den <> t0.
  (* `field` re-normalises its side conditions: close them from a hypothesis up to `ring` *)
  Ltac nz H := match goal with |- ?a <> _ =>
    let E := fresh in intro E; apply H; transitivity a; [ring | exact E] end.

  Lemma prior_marg i k : prior i k = marg i k / den.
  Proof. unfold ChowLiu.prior, marg, ChowLiu.den, ChowLiu.four, ChowLiu.two in *. destruct k; field; nz Hden. Qed.

  Lemma prior_sum i : prior i false + prior i true = t1.
  Proof. unfold ChowLiu.prior. ring. Qed.

  (* sum over the child's value of a joint is the parent's prior (also on the corrected diagonal) *)
  Lemma joint_sum i j l : joint i j false l + joint i j true l = prior j l.
  Proof.
    unfold ChowLiu.joint. destruct (Nat.eqb_spec i j) as [->|Hne].
    - destruct l; cbn; ring.
    - rewrite prior_marg. unfold ChowLiu.joint_cnt, marg, ChowLiu.den, ChowLiu.four, ChowLiu.two in *.
      destruct l; field; nz Hden.
  Qed.

  Lemma div_nonzero a b : a <> t0 -> b <> t0 -> a / b <> t0.
  Proof. intros Ha Hb H. apply Ha. transitivity ((a / b) * b); [field; exact Hb | rewrite H; ring]. Qed.

  Lemma prior_nonzero i k : marg i k <> t0 -> prior i k <> t0.
  Proof. intro H. rewrite prior_marg. now apply div_nonzero. Qed.

  Definition par_ok (par : option nat) (l : bool) : Prop :=
    match par with Some p => marg p l <> t0 | None => True end.

  Lemma cpt_raw_sum par i l : par_ok par l -> cpt_raw par i l false + cpt_raw par i l true = t1.
  Proof.
    destruct par as [p|]; cbn; intro H.
    - transitivity ((joint i p false l + joint i p true l) * (t1 / prior p l)); [ring|].
      rewrite joint_sum. field. now apply prior_nonzero.
    - apply prior_sum.
  Qed.

  (* the re-normalisation of compute_clt_parameters is the identity in exact arithmetic *)
  Theorem cpt_eq_raw par i l k : par_ok par l -> cpt par i l k = cpt_raw par i l k.
  Proof.
    intro H. unfold ChowLiu.cpt. rewrite (cpt_raw_sum par i l H). field. apply (F_1_neq_0 Fth).
  Qed.

  Theorem cpt_rows_sum_one par i l : par_ok par l -> cpt par i l false + cpt par i l true = t1.
  Proof. intro H. rewrite !cpt_eq_raw by exact H. now apply cpt_raw_sum. Qed.

  (* P(X_i = k | X_p = l) = (N(X_i = k, X_p = l) + alpha) / (N(X_p = l) + 2 alpha) *)
  Theorem cpt_conditional p i l k : i <> p -> marg p l <> t0 ->
    cpt (Some p) i l k = (joint_cnt i p k l + alpha) / marg p l.
  Proof.
    intros Hne Hm. rewrite cpt_eq_raw by exact Hm. cbn. rewrite prior_marg.
    unfold ChowLiu.joint. destruct (Nat.eqb_spec i p) as [->|_]; [congruence|].
    field. split; [exact Hm | exact Hden].
  Qed.

  Theorem cpt_root i l k : cpt None i l k = marg i k / den.
  Proof. rewrite cpt_eq_raw by exact I. cbn. apply prior_marg. Qed.

  (* ---------- the fitted table, read back through Clt.cpt_fn ---------- *)
  Notation fit_from := (fit_from T t0 t1 tadd tmul tsub tdiv n alpha c1 c11).
  Notation fit_params := (fit_params T t0 t1 tadd tmul tsub tdiv n alpha c1 c11).
  Notation fit_clt := (fit_clt T t0 t1 tadd tmul tsub tdiv n alpha c1 c11).
  Notation cpt_table := (cpt_table T t0 t1 tadd tmul tsub tdiv n alpha c1 c11).

  Lemma fit_from_nth pars : forall s i, i < length pars ->
      nth i (fit_from s pars) [] = cpt_table (nth i pars None) (s + i)%nat.
  Proof.
    induction pars as [|p tl IH]; intros s i Hi; cbn in Hi; [lia|].
    destruct i as [|i]; cbn [ChowLiu.fit_from nth]; [now rewrite Nat.add_0_r|].
    rewrite IH by lia. f_equal. lia.
  Qed.

  Definition zb (z : Z) : bool := Z.eqb z 1.
  Lemma cpt_fn_fit scope pars i l k : i < length pars -> In l dom2 -> In k dom2 ->
      cpt_fn T t0 (fit_clt scope pars) i l k = cpt (nth i pars None) i (zb l) (zb k).
  Proof.
    intros Hi Hl Hk. unfold cpt_fn, ChowLiu.fit_clt, ChowLiu.fit_params. cbn [cparams].
    rewrite fit_from_nth by exact Hi. cbn [plus].
    cbn in Hl, Hk. destruct Hl as [<-|[<-|[]]], Hk as [<-|[<-|[]]]; reflexivity.
  Qed.

  Definition pars_ok (pars : list (option nat)) : Prop :=
    forall i l, i < length pars -> par_ok (nth i pars None) l.

  Lemma fit_rows scope pars : pars_ok pars -> forall i l, i < length pars -> In l dom2 ->
      cpt_fn T t0 (fit_clt scope pars) i l 0%Z + cpt_fn T t0 (fit_clt scope pars) i l 1%Z = t1.
  Proof.
    intros Hok i l Hi Hl. rewrite !cpt_fn_fit by (cbn; auto). apply cpt_rows_sum_one. now apply Hok.
  Qed.
End FitFacts.

(* ------------------------------------------------------------------ trees built from arrays *)
Section BuildFacts.
  Variable T : Type.
  Variables (t0 t1 : T) (tadd tmul : T -> T -> T).
  Hypothesis SRth : semi_ring_theory t0 t1 tadd tmul (@eq T).
  Infix "+" := tadd.
  Notation rows_norm := (rows_norm T t1 tadd).
  Notation up := (up T t0 t1 tadd tmul).

  Lemma rows_norm_intro v cpt kids :
    (forall pv, In pv dom2 -> cpt pv 0%Z + cpt pv 1%Z = t1) -> Forall rows_norm kids ->
    rows_norm (CT v cpt kids).
  Proof.
    intros H Hk. cbn. split; [exact H|]. induction Hk as [|k ks Hk _ IH]; [exact I | split; assumption].
  Qed.

  Lemma children_lt (c : clt T) i j : In j (children T c i) -> j < length (cpar c).
  Proof. unfold children. intro H. apply filter_In in H. destruct H as [H _]. apply in_seq in H. lia. Qed.

  Lemma build_rows_norm (c : clt T) :
    (forall i l, i < length (cpar c) -> In l dom2 -> cpt_fn T t0 c i l 0%Z + cpt_fn T t0 c i l 1%Z = t1) ->
    forall fuel i, i < length (cpar c) -> rows_norm (build T t0 fuel c i).
  Proof.
    intros H fuel. induction fuel as [|f IH]; intros i Hi; cbn [build]; apply rows_norm_intro; auto.
    rewrite Forall_map, Forall_forall. intros j Hj. apply IH. now apply (children_lt c i).
  Qed.

  (* sum over all completions, for message passing (the CLT analogue of CoreFacts.iter_marg) *)
  Lemma up_sum_compl t : NoDup (vars T t) -> forall vs, NoDup vs -> forall pv r,
      (forall v, In v vs -> In v (vars T t) /\ r v = None) ->
      up t pv r = sum_compl T t0 tadd (fun _ => dom2) vs (up t pv) r.
  Proof.
    intros Hnd vs Hvs pv. induction Hvs as [|v vs Hnin Hvs IH]; intros r Hall; [reflexivity|].
    cbn [sum_compl]. destruct (Hall v (or_introl eq_refl)) as [Hin Hnone].
    rewrite (up_marg1 T t0 t1 tadd tmul SRth t Hnd pv r v Hin Hnone). f_equal. apply map_ext. intros x.
    apply IH. intros u Hu. destruct (Hall u (or_intror Hu)) as [Hus Hun]. split; [exact Hus|].
    rewrite upd_other; [exact Hun | intro; subst; contradiction].
  Qed.

  Theorem clt_normalised (c : clt T) :
    (forall i l, i < length (cpar c) -> In l dom2 -> cpt_fn T t0 c i l 0%Z + cpt_fn T t0 c i l 1%Z = t1) ->
    croot T c < length (cpar c) ->
    (forall r, (forall v, In v (vars T (clt_tree T t0 c)) -> r v = None) -> clt_val T t0 t1 tadd tmul c r = t1) /\
    (NoDup (vars T (clt_tree T t0 c)) ->
     sum_compl T t0 tadd (fun _ => dom2) (vars T (clt_tree T t0 c)) (clt_val T t0 t1 tadd tmul c) row_none = t1).
  Proof.
    intros Hrows Hroot.
    assert (Hn : rows_norm (clt_tree T t0 c)) by (unfold clt_tree; now apply build_rows_norm).
    assert (Hone : forall r, (forall v, In v (vars T (clt_tree T t0 c)) -> r v = None) ->
                             clt_val T t0 t1 tadd tmul c r = t1).
    { intros r Hr. unfold clt_val. apply (up_all_missing T t0 t1 tadd tmul SRth); [exact Hn | cbn; auto | exact Hr]. }
    split; [exact Hone|]. intro Hnd.
    change (clt_val T t0 t1 tadd tmul c) with (up (clt_tree T t0 c) 0%Z).
    rewrite <- (up_sum_compl _ Hnd _ Hnd 0%Z row_none); [apply (Hone row_none); reflexivity|].
    intros v Hv. split; [exact Hv | reflexivity].
  Qed.
End BuildFacts.

(* ------------------------------------------------------------------ counting over data matrices *)
Section DataFacts.
  Definition bin_cells (d : dat) : Prop := Forall (fun r => forall i, cellz r i = 0%Z \/ cellz r i = 1%Z) d.

  Lemma binary_row_cells n r : binary_row n r = true -> forall i, cellz r i = 0%Z \/ cellz r i = 1%Z.
  Proof.
    unfold binary_row. rewrite andb_true_iff. intros [_ H] i. unfold cellz.
    rewrite forallb_forall in H. destruct (Nat.lt_ge_cases i (length r)) as [Hi|Hi].
    - specialize (H (nth i r 0%Z) (nth_In _ _ Hi)). apply orb_true_iff in H. destruct H as [H|H]; apply Z.eqb_eq in H; auto.
    - left. now apply nth_overflow.
  Qed.
  Lemma binary_data_cells n d : binary_data n d = true -> bin_cells d.
  Proof.
    unfold binary_data, bin_cells. rewrite forallb_forall, Forall_forall. intros H r Hr. apply (binary_row_cells n). auto.
  Qed.

  Ltac cells r i j :=
    match goal with H : forall i, cellz r i = 0%Z \/ cellz r i = 1%Z |- _ =>
      destruct (H i) as [-> | ->]; destruct (H j) as [-> | ->] end.

  Lemma dot11_cnt d i j : bin_cells d -> dot11 d i j = cnt2 d i true j true.
  Proof.
    induction 1 as [|r d Hr _ IH]; cbn [dot11 cnt2]; [reflexivity|]. rewrite IH.
    destruct (Hr i) as [Ei|Ei], (Hr j) as [Ej|Ej]; rewrite ?Ei, ?Ej; reflexivity.
  Qed.
  Lemma cnt2_diag d i k : bin_cells d -> cnt2 d i k i k = cnt1 d i k.
  Proof.
    induction 1 as [|r d Hr _ IH]; cbn [cnt1 cnt2]; [reflexivity|]. rewrite IH.
    destruct (Hr i) as [Ei|Ei]; rewrite ?Ei; destruct k; reflexivity.
  Qed.
  Lemma feat1_cnt d i : bin_cells d -> feat1 d i = cnt1 d i true.
  Proof. intro H. unfold feat1. rewrite dot11_cnt by exact H. now apply cnt2_diag. Qed.
  Lemma cnt1_total d i : bin_cells d -> (cnt1 d i false + cnt1 d i true = nrows d)%Z.
  Proof.
    unfold nrows. induction 1 as [|r d Hr _ IH]; [reflexivity|]. cbn [cnt1 length]. rewrite Nat2Z.inj_succ.
    destruct (Hr i) as [Ei|Ei]; rewrite ?Ei; cbn [b2z Z.eqb Pos.eqb andb]; lia.
  Qed.
  Lemma cnt2_marg d i j l : bin_cells d -> (cnt2 d i false j l + cnt2 d i true j l = cnt1 d j l)%Z.
  Proof.
    induction 1 as [|r d Hr _ IH]; [reflexivity|]. cbn [cnt1 cnt2].
    destruct (Hr i) as [Ei|Ei], (Hr j) as [Ej|Ej]; rewrite ?Ei, ?Ej; destruct l; cbn [b2z Z.eqb Pos.eqb andb]; lia.
  Qed.
  Lemma cnt2_marg_r d i k j : bin_cells d -> (cnt2 d i k j false + cnt2 d i k j true = cnt1 d i k)%Z.
  Proof.
    induction 1 as [|r d Hr _ IH]; [reflexivity|]. cbn [cnt1 cnt2].
    destruct (Hr i) as [Ei|Ei], (Hr j) as [Ej|Ej]; rewrite ?Ei, ?Ej; destruct k; cbn [b2z Z.eqb Pos.eqb andb]; lia.
  Qed.
  Lemma cnt1_nonneg d i k : (0 <= cnt1 d i k)%Z.
  Proof. induction d as [|r d IH]; cbn [cnt1]; [lia|]. destruct (Z.eqb _ _); cbn [b2z]; lia. Qed.
  Lemma cnt2_nonneg d i k j l : (0 <= cnt2 d i k j l)%Z.
  Proof. induction d as [|r d IH]; cbn [cnt2]; [lia|]. destruct (_ && _); cbn [b2z]; lia. Qed.

  (* the inclusion-exclusion formulas of estimate_priors_joints are the four cell counts *)
  Lemma joint_cnt_Z d i j k l : bin_cells d ->
    joint_cnt Z Z.add Z.sub (nrows d) (feat1 d) (dot11 d) i j k l = cnt2 d i k j l.
  Proof.
    intro H. unfold joint_cnt. rewrite !feat1_cnt, dot11_cnt by exact H.
    pose proof (cnt1_total d i H). pose proof (cnt1_total d j H).
    pose proof (cnt2_marg d i j true H). pose proof (cnt2_marg d i j false H).
    pose proof (cnt2_marg_r d i true j H). pose proof (cnt2_marg_r d i false j H).
    destruct k, l; lia.
  Qed.
End DataFacts.

(* ------------------------------------------------------------------ the Qc instance *)
Section QcFacts.
  Local Open Scope Qc_scope.

  Lemma zq_add a b : zq (a + b) = zq a + zq b.
  Proof. unfold zq. apply Qc_is_canon. cbn -[inject_Z Qred]. rewrite !Qred_correct. rewrite inject_Z_plus. reflexivity. Qed.
  Lemma zq_opp a : zq (- a) = - zq a.
  Proof. unfold zq. apply Qc_is_canon. cbn -[inject_Z Qred]. rewrite !Qred_correct. rewrite inject_Z_opp. reflexivity. Qed.
  Lemma zq_sub a b : zq (a - b) = zq a - zq b.
  Proof. unfold Z.sub, Qcminus. now rewrite zq_add, zq_opp. Qed.
  Lemma zq_nonneg a : (0 <= a)%Z -> 0 <= zq a.
  Proof.
    intro H. unfold Qcle, zq. cbn [this Q2Qc]. rewrite !Qred_correct. unfold Qle. cbn. lia.
  Qed.

  Lemma Qc_pos_sum a b : 0 <= a -> 0 < b -> a + b <> 0.
  Proof.
    intros Ha Hb E. assert (H : 0 < a + b).
    { apply Qclt_le_trans with (0 + b); [now rewrite Qcplus_0_l|]. apply Qcplus_le_compat; [exact Ha | apply Qcle_refl]. }
    rewrite E in H. exact (Qclt_not_eq _ _ H eq_refl).
  Qed.
  Lemma Qc_pos_add a b : 0 < a -> 0 < b -> 0 < a + b.
  Proof.
    intros Ha Hb. apply Qclt_le_trans with (0 + b); [now rewrite Qcplus_0_l|].
    apply Qcplus_le_compat; [now apply Qclt_le_weak | apply Qcle_refl].
  Qed.
  Lemma two_alpha_pos alpha : 0 < alpha -> 0 < two Qc 1 Qcplus * alpha.
  Proof. intro H. unfold two. replace ((1 + 1) * alpha) with (alpha + alpha) by ring. now apply Qc_pos_add. Qed.
  Lemma four_alpha_pos alpha : 0 < alpha -> 0 < four Qc 1 Qcplus * alpha.
  Proof.
    intro H. unfold four, two. replace ((1 + 1 + (1 + 1)) * alpha) with ((alpha + alpha) + (alpha + alpha)) by ring.
    apply Qc_pos_add; now apply Qc_pos_add.
  Qed.

  Variable d : dat.
  Variable alpha : Qc.
  Hypothesis Hbin : bin_cells d.
  Hypothesis Hpos : 0 < alpha.

  Notation qn := (zq (nrows d)).
  Notation qc1 := (fun i => zq (feat1 d i)).
  Notation qc11 := (fun i j => zq (dot11 d i j)).
  Notation qmarg := (marg Qc 1 Qcplus Qcmult Qcminus qn alpha qc1).

  Lemma qden_nonzero : den Qc 1 Qcplus Qcmult qn alpha <> 0.
  Proof. unfold den. apply Qc_pos_sum; [apply zq_nonneg; unfold nrows; lia | now apply four_alpha_pos]. Qed.

  Lemma qmarg_eq i k : qmarg i k = zq (cnt1 d i k) + two Qc 1 Qcplus * alpha.
  Proof.
    unfold marg. rewrite feat1_cnt by exact Hbin. destruct k; [reflexivity|].
    rewrite <- zq_sub. f_equal. f_equal. pose proof (cnt1_total d i Hbin). lia.
  Qed.
  Lemma qmarg_nonzero i k : qmarg i k <> 0.
  Proof. rewrite qmarg_eq. apply Qc_pos_sum; [apply zq_nonneg, cnt1_nonneg | now apply two_alpha_pos]. Qed.

  Lemma qpars_ok pars : pars_ok Qc 0 1 Qcplus Qcmult Qcminus qn alpha qc1 pars.
  Proof. intros i l _. unfold par_ok. destruct (nth i pars None); [apply qmarg_nonzero | exact I]. Qed.

  Lemma qjoint_cnt i j k l : joint_cnt Qc Qcplus Qcminus qn qc1 qc11 i j k l = zq (cnt2 d i k j l).
  Proof.
    rewrite <- (joint_cnt_Z d i j k l Hbin). unfold joint_cnt.
    destruct k, l; now rewrite ?zq_add, ?zq_sub.
  Qed.

  (* every CPT row of the fit sums to one: every binary data matrix, every alpha > 0, every
     predecessor (also a wrong one) *)
  Theorem qcpt_rows_sum_one par i l : qcpt d alpha par i l false + qcpt d alpha par i l true = 1.
  Proof.
    unfold qcpt. apply (cpt_rows_sum_one Qc 0 1 Qcplus Qcmult Qcminus Qcopp Qcdiv Qcinv Qcft).
    - apply qden_nonzero.
    - destruct par; [apply qmarg_nonzero | exact I].
  Qed.

  (* the entries are the smoothed empirical conditionals, with counts taken row by row *)
  Theorem qcpt_is_conditional p i l k : i <> p ->
    qcpt d alpha (Some p) i l k =
    (zq (cnt2 d i k p l) + alpha) / (zq (cnt1 d p l) + two Qc 1 Qcplus * alpha).
  Proof.
    intro Hne. unfold qcpt.
    rewrite (cpt_conditional Qc 0 1 Qcplus Qcmult Qcminus Qcopp Qcdiv Qcinv Qcft _ _ _ _ qden_nonzero p i l k Hne (qmarg_nonzero p l)).
    now rewrite qjoint_cnt, qmarg_eq.
  Qed.
  Theorem qcpt_root_is_prior i l k :
    qcpt d alpha None i l k =
    (zq (cnt1 d i k) + two Qc 1 Qcplus * alpha) / (zq (nrows d) + four Qc 1 Qcplus * alpha).
  Proof.
    unfold qcpt.
    rewrite (cpt_root Qc 0 1 Qcplus Qcmult Qcminus Qcopp Qcdiv Qcinv Qcft _ _ _ _ qden_nonzero i l k).
    now rewrite qmarg_eq.
  Qed.

  (* the fitted tree is a normalised distribution whatever the (binary) data *)
  Theorem qfit_normalised scope pars :
    (croot Qc (qfit_clt d alpha scope pars) < length pars)%nat ->
    (forall r, (forall v, In v (vars Qc (clt_tree Qc 0 (qfit_clt d alpha scope pars))) -> r v = None) ->
               qclt_val (qfit_clt d alpha scope pars) r = 1) /\
    (NoDup (vars Qc (clt_tree Qc 0 (qfit_clt d alpha scope pars))) ->
     sum_compl Qc 0 Qcplus (fun _ => dom2) (vars Qc (clt_tree Qc 0 (qfit_clt d alpha scope pars)))
               (qclt_val (qfit_clt d alpha scope pars)) row_none = 1).
  Proof.
    intro Hroot. apply (clt_normalised Qc 0 1 Qcplus Qcmult Qc_srth); [|exact Hroot].
    intros i l Hi Hl. cbn [cpar qfit_clt] in Hi.
    apply (fit_rows Qc 0 1 Qcplus Qcmult Qcminus Qcopp Qcdiv Qcinv Qcft qn alpha qc1 qc11 qden_nonzero scope pars (qpars_ok pars) i l Hi Hl).
  Qed.

  Lemma nodupb_NoDup l : nodupb l = true -> NoDup l.
  Proof.
    induction l as [|x l IH]; cbn; intro H; constructor; apply andb_true_iff in H; destruct H as [H1 H2]; [|auto].
    intro Hin. apply negb_true_iff in H1.
    assert (existsb (Nat.eqb x) l = true) by (apply existsb_exists; exists x; split; [exact Hin | apply Nat.eqb_refl]).
    congruence.
  Qed.

  (* the same with the two boolean certificates that are evaluated on every run *)
  Theorem qfit_normalised_cert scope pars n root :
    is_tree n root pars = true -> clt_shape_ok Qc 0 (qfit_clt d alpha scope pars) = true ->
    (forall r, (forall v, In v (vars Qc (clt_tree Qc 0 (qfit_clt d alpha scope pars))) -> r v = None) ->
               qclt_val (qfit_clt d alpha scope pars) r = 1) /\
    (sum_compl Qc 0 Qcplus (fun _ => dom2) (vars Qc (clt_tree Qc 0 (qfit_clt d alpha scope pars)))
               (qclt_val (qfit_clt d alpha scope pars)) row_none = 1).
  Proof.
    intros Ht Hs. destruct (is_tree_root _ _ _ Ht) as (Hr & _ & _ & Hf).
    destruct (is_tree_parts _ _ _ Ht) as (Hl & _).
    assert (Hroot : (croot Qc (qfit_clt d alpha scope pars) < length pars)%nat).
    { unfold croot. cbn [cpar qfit_clt]. rewrite Hf, Hl. exact Hr. }
    destruct (qfit_normalised scope pars Hroot) as [H1 H2]. split; [exact H1|]. apply H2.
    unfold clt_shape_ok in Hs. rewrite !andb_true_iff in Hs. destruct Hs as [[[[_ _] Hnd] _] _].
    now apply nodupb_NoDup.
  Qed.
End QcFacts.

(* the hypotheses are satisfiable: a 3-row, 2-column matrix *)
Example c11_example_data : bin_cells [[0; 1]; [1; 1]; [1; 0]]%Z /\ (0 < q 1 10)%Qc.
Proof. split; [apply (binary_data_cells 2); reflexivity | reflexivity]. Qed.
Example c11_example_cpt :
  qcpt [[0; 1]; [1; 1]; [1; 0]]%Z (q 1 10) (Some 0%nat) 1%nat true true = q 11 22.
Proof. apply Qc_is_canon. vm_compute. reflexivity. Qed.
