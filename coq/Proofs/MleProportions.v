(* Proofs/MleProportions.v — C05, last clause: "equivalently the weights are the maximum-likelihood mixture
   proportions for the clustering the learner itself chose".  For counts n_1..n_k >= 0 with total n > 0 the
   log-likelihood of the routing, sum_i n_i ln w_i, over strictly positive weight vectors summing to one, is
   maximal at w_i = n_i / n (Gibbs' inequality, from ln y <= y - 1).  Coq's ln is 0 at 0, which is the usual
   convention 0 ln 0 = 0 for empty clusters. *)
From Coq Require Import Reals Lra List.
Import ListNotations.
Open Scope R_scope.

Fixpoint rsum (l : list R) : R := match l with [] => 0 | x :: tl => x + rsum tl end.
(* log-likelihood of routing n_i rows to child i under mixture weights w_i *)
Fixpoint routing_ll (ns ws : list R) : R :=
  match ns, ws with
  | k :: ns', w :: ws' => k * ln w + routing_ll ns' ws'
  | _, _ => 0
  end.
Definition proportions (ns : list R) : list R := map (fun k => k / rsum ns) ns.

Lemma ln_le_sub1 y : 0 < y -> ln y <= y - 1.
Proof.
  intros Hy. pose proof (exp_ineq1_le (ln y)) as H. rewrite exp_ln in H by assumption. lra.
Qed.

(* one cluster: k ln w - k ln (k / n) <= n w - k *)
Lemma gibbs_term n k w : 0 < n -> 0 <= k -> 0 < w -> k * ln w - k * ln (k / n) <= n * w - k.
Proof.
  intros Hn Hk Hw. destruct (Req_dec k 0) as [->|Hk0].
  - rewrite !Rmult_0_l. pose proof (Rmult_lt_0_compat n w Hn Hw). lra.
  - assert (Hkp : 0 < k) by lra.
    assert (Hq : 0 < k / n) by (apply Rdiv_lt_0_compat; assumption).
    assert (E : ln w - ln (k / n) = ln (w * n / k)).
    { unfold Rdiv. assert (0 < / n) by (apply Rinv_0_lt_compat; assumption). assert (0 < / k) by (apply Rinv_0_lt_compat; assumption).
      rewrite (ln_mult k (/ n)), (ln_mult (w * n) (/ k)), (ln_mult w n), !ln_Rinv by (try apply Rmult_lt_0_compat; assumption). ring. }
    assert (Hy : 0 < w * n / k) by (apply Rdiv_lt_0_compat; [apply Rmult_lt_0_compat|]; assumption).
    pose proof (ln_le_sub1 _ Hy) as L.
    replace (k * ln w - k * ln (k / n)) with (k * (ln w - ln (k / n))) by ring. rewrite E.
    apply Rle_trans with (k * (w * n / k - 1)); [apply Rmult_le_compat_l; lra|].
    right. field. lra.
Qed.

Lemma gibbs_sum n : 0 < n -> forall ns ws, length ns = length ws ->
  Forall (fun k => 0 <= k) ns -> Forall (fun w => 0 < w) ws ->
  routing_ll ns ws - routing_ll ns (map (fun k => k / n) ns) <= n * rsum ws - rsum ns.
Proof.
  intros Hn. induction ns as [|k ns IH]; intros [|w ws] Hl Hns Hws; simpl in *; try discriminate; [lra|].
  inversion Hns; inversion Hws; subst. injection Hl as Hl.
  pose proof (IH ws Hl ltac:(assumption) ltac:(assumption)).
  pose proof (gibbs_term n k w Hn ltac:(assumption) ltac:(assumption)). lra.
Qed.

(* the training-row proportions maximise the routing log-likelihood over the open simplex *)
Theorem proportions_are_mle : forall ns ws, length ns = length ws ->
  Forall (fun k => 0 <= k) ns -> 0 < rsum ns ->
  Forall (fun w => 0 < w) ws -> rsum ws = 1 ->
  routing_ll ns ws <= routing_ll ns (proportions ns).
Proof.
  intros ns ws Hl Hns Hn Hws H1. unfold proportions.
  pose proof (gibbs_sum (rsum ns) Hn ns ws Hl Hns Hws) as G. rewrite H1 in G. lra.
Qed.

(* and they are a point of the simplex themselves *)
Theorem proportions_simplex : forall ns, Forall (fun k => 0 <= k) ns -> 0 < rsum ns ->
  rsum (proportions ns) = 1 /\ Forall (fun w => 0 <= w) (proportions ns).
Proof.
  intros ns Hns Hn. unfold proportions. split.
  - assert (E : forall l c, c <> 0 -> rsum (map (fun k => k / c) l) = rsum l / c).
    { induction l as [|a l IHl]; intros c Hc; simpl; [field; assumption|]. rewrite IHl by assumption. field. assumption. }
    rewrite E by lra. field. lra.
  - apply Forall_forall. intros w Hw. apply in_map_iff in Hw. destruct Hw as [k [<- Hk]].
    rewrite Forall_forall in Hns. apply Rle_mult_inv_pos; auto.
Qed.

(* non-vacuity: three clusters of 3, 1 and 0 rows against the uniform weights *)
Example mle_example : routing_ll [3; 1; 0] [1/3; 1/3; 1/3] <= routing_ll [3; 1; 0] (proportions [3; 1; 0]).
Proof.
  apply proportions_are_mle; simpl; try lra; repeat constructor; lra.
Qed.

(* in terms of the learner's row groups: counts are the group sizes, the total is the number of rows of the sum node *)
Definition group_counts (gs : list (list nat)) : list R := map (fun g => INR (length g)) gs.
Lemma group_counts_total gs : rsum (group_counts gs) = INR (length (concat gs)).
Proof.
  induction gs as [|g gs IH]; simpl; [reflexivity|]. rewrite app_length, plus_INR, IH. reflexivity.
Qed.
Theorem group_proportions_are_mle : forall (gs : list (list nat)) ws, length gs = length ws ->
  (0 < length (concat gs))%nat -> Forall (fun w => 0 < w) ws -> rsum ws = 1 ->
  routing_ll (group_counts gs) ws <= routing_ll (group_counts gs) (proportions (group_counts gs)).
Proof.
  intros gs ws Hl Hn Hws H1. apply proportions_are_mle; auto.
  - unfold group_counts. now rewrite map_length.
  - unfold group_counts. apply Forall_forall. intros k Hk. apply in_map_iff in Hk. destruct Hk as [g [<- _]]. apply pos_INR.
  - rewrite group_counts_total. now apply lt_0_INR.
Qed.
