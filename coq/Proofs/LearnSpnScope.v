(* Proofs/LearnSpnScope.v — the accounting invariant of the LearnSPN task queue (rows AND columns) and
   its structural consequences for the returned circuit: for every answer list, every sum's children
   have the sum's scope and row groups, every product's children have its rows and its column groups;
   with well-formed answers the column groups partition the product's scope. *)
From Coq Require Import List Arith Bool Lia Permutation.
From DV Require Import Model.LearnSpn Proofs.LearnSpnFacts.
Import ListNotations.

Lemma add_child_scope a p x k : p < length a -> ascope (nth k (add_child a p x) dummy_anode) = ascope (nth k a dummy_anode).
Proof.
  intros H. destruct (Nat.eq_dec k p) as [->|Hne]; [now rewrite add_child_same | now rewrite add_child_other].
Qed.
Lemma expected_add_child a p x k : p < length a -> expected (nth k (add_child a p x) dummy_anode) = expected (nth k a dummy_anode).
Proof. intros H. unfold expected. now rewrite add_child_kind, add_child_scope, add_child_arows. Qed.
Lemma kid_info_add_child a p x n : p < length a -> kid_info (add_child a p x) n = kid_info a n.
Proof. intros H. unfold kid_info. apply map_ext. intros k. now rewrite add_child_arows, add_child_scope. Qed.
Lemma kid_info_app a ext n : Forall (fun k => k < length a) (akids n) -> kid_info (a ++ ext) n = kid_info a n.
Proof.
  intros H. unfold kid_info. apply map_ext_in. intros k Hk. rewrite Forall_forall in H. now rewrite app_nth1 by auto.
Qed.

Lemma aligned_of_accounted s : accounted s -> aligned s.
Proof.
  intros H p gs Hp Hk. specialize (H p (map (fun g => (g, ascope (nth p (arena s) dummy_anode))) gs) Hp).
  unfold expected in H. rewrite Hk in H. specialize (H eq_refl).
  apply (f_equal (map fst)) in H. rewrite map_app, !map_map in H. cbn [fst] in H.
  unfold kid_rows. unfold kid_info in H. rewrite map_map in H. cbn [fst] in H.
  unfold task_info in H. rewrite map_id in H. exact H.
Qed.

Section AttachAcc.
  Variables (a : list anode) (t : task) (q : list task).
  Hypothesis Hacc : accounted {| arena := a; queue := t :: q |}.
  Hypothesis Hwf : wfs {| arena := a; queue := t :: q |}.

  (* ext: the new nodes; x: the one attached to the parent of t (it carries t's rows and columns); newq: the
     new tasks (parents among the new nodes); every new inner node is already accounted w.r.t. newq *)
  Lemma attach_accounted (ext : list anode) (x : nat) (newq : list task) :
    length a <= x < length (a ++ ext) ->
    arows (nth x (a ++ ext) dummy_anode) = trows t -> ascope (nth x (a ++ ext) dummy_anode) = tcols t ->
    Forall (fun u => length a <= tparent u) newq ->
    (forall j e, length a <= j < length (a ++ ext) -> expected (nth j (a ++ ext) dummy_anode) = Some e ->
       kid_info (a ++ ext) (nth j (a ++ ext) dummy_anode) ++ map task_info (pending j newq) = e) ->
    accounted {| arena := add_child (a ++ ext) (tparent t) x; queue := q ++ newq |}.
  Proof.
    intros Hx Hrows Hcols Hnq Hnew p e Hp He. cbn [arena queue] in *.
    pose proof (p0_lt a t q Hwf) as Hp0. pose proof (q_lt a t q Hwf) as Hq. pose proof (kids_lt a t q Hwf) as Hkl.
    assert (Hp0' : tparent t < length (a ++ ext)) by (rewrite app_length; lia).
    rewrite add_child_length in Hp by exact Hp0'. rewrite expected_add_child in He by exact Hp0'.
    rewrite kid_info_add_child by exact Hp0'. rewrite pending_app.
    destruct (Nat.lt_ge_cases p (length a)) as [Hold|Hnewp].
    - rewrite app_nth1 in He by exact Hold.
      assert (Hpn : pending p newq = []).
      { apply pending_fresh. eapply Forall_impl; [|exact Hnq]. cbn. intros; lia. }
      rewrite Hpn, app_nil_r. specialize (Hacc p e Hold He). cbn [arena queue] in Hacc.
      assert (Hkp : Forall (fun k => k < length a) (akids (nth p a dummy_anode))).
      { rewrite Forall_forall in Hkl. apply Hkl, nth_In, Hold. }
      destruct (Nat.eq_dec p (tparent t)) as [->|Hne].
      + rewrite add_child_same by exact Hp0'. rewrite app_nth1 by exact Hold.
        unfold kid_info. cbn [akids]. rewrite map_app. cbn [map]. rewrite Hrows, Hcols.
        unfold pending in Hacc. cbn [filter] in Hacc. rewrite Nat.eqb_refl in Hacc. cbn [map] in Hacc.
        rewrite <- Hacc. unfold kid_info, task_info. rewrite <- app_assoc. cbn. f_equal.
        apply map_ext_in. intros k Hkin. rewrite Forall_forall in Hkp. now rewrite app_nth1 by auto.
      + rewrite add_child_other by (try exact Hp0'; exact Hne). rewrite app_nth1 by exact Hold.
        rewrite kid_info_app by exact Hkp.
        unfold pending in Hacc. cbn [filter] in Hacc.
        destruct (Nat.eqb_spec (tparent t) p) as [E|_]; [congruence|]. exact Hacc.
    - rewrite app_length in Hp.
      assert (Hpne : p <> tparent t) by lia.
      rewrite add_child_other by (try exact Hp0'; exact Hpne).
      assert (Hpq : pending p q = []).
      { apply pending_fresh. eapply Forall_impl; [|exact Hq]. cbn. intros; lia. }
      rewrite Hpq. cbn [app]. apply Hnew; [rewrite app_length; lia | exact He].
  Qed.
End AttachAcc.

Lemma attach_wfs' (a : list anode) t q (Hwf : wfs {| arena := a; queue := t :: q |}) (ext : list anode) (x : nat) (newq : list task) :
    length a <= x < length (a ++ ext) ->
    Forall (fun n => Forall (fun k => k < length (a ++ ext)) (akids n)) ext ->
    Forall (fun u => tparent u < length (a ++ ext)) newq ->
    wfs {| arena := add_child (a ++ ext) (tparent t) x; queue := q ++ newq |}.
Proof.
  intros Hx Hext Hnq. pose proof (p0_lt a t q Hwf) as Hp0. pose proof (q_lt a t q Hwf) as Hq. pose proof (kids_lt a t q Hwf) as Hkl.
  assert (Hp0' : tparent t < length (a ++ ext)) by (rewrite app_length; lia).
  split; cbn [arena queue]; rewrite add_child_length by exact Hp0'.
  - apply Forall_app. split; [|exact Hnq].
    eapply Forall_impl; [|exact Hq]. cbn. intros. rewrite app_length. lia.
  - rewrite Forall_forall. intros n Hn. destruct (In_nth _ _ dummy_anode Hn) as [k [Hk Hnth]].
    rewrite add_child_length in Hk by exact Hp0'. subst n.
    assert (Hbase : Forall (fun k0 => k0 < length (a ++ ext)) (akids (nth k (a ++ ext) dummy_anode))).
    { destruct (Nat.lt_ge_cases k (length a)) as [Hlt|Hge].
      - rewrite app_nth1 by exact Hlt. rewrite Forall_forall in Hkl. specialize (Hkl _ (nth_In a dummy_anode Hlt)).
        eapply Forall_impl; [|exact Hkl]. cbn. intros. rewrite app_length. lia.
      - rewrite app_nth2 by exact Hge. rewrite Forall_forall in Hext. apply Hext, nth_In. rewrite app_length in Hk. lia. }
    destruct (Nat.eq_dec k (tparent t)) as [->|Hne].
    + rewrite add_child_same by exact Hp0'. cbn [akids]. apply Forall_app. split; [exact Hbase | constructor; [lia | constructor]].
    + rewrite add_child_other by (try exact Hp0'; exact Hne). exact Hbase.
Qed.

Section StepAcc.
  Variables (min_rows min_cols : nat).
  Notation step := (step min_rows min_cols).

  Lemma requeue_acc a t q t' : tparent t' = tparent t -> trows t' = trows t -> tcols t' = tcols t ->
    accounted {| arena := a; queue := t :: q |} -> accounted {| arena := a; queue := t' :: q |}.
  Proof.
    intros Hp Hr Hc Hacc p e Hlt He. specialize (Hacc p e Hlt He). cbn [arena queue] in *.
    unfold pending in *. cbn [filter] in *. rewrite Hp. destruct (Nat.eqb (tparent t) p); cbn [map] in *; [|exact Hacc].
    unfold task_info in *. now rewrite Hr, Hc.
  Qed.

  Lemma leaves_info (b : nat) rows cols (a0 : list anode) pre :
    length pre = S b ->
    map (fun k => (arows (nth k (pre ++ map (fun s0 => {| akind_of := ALeaf; ascope := [s0]; arows := rows; akids := [] |}) cols ++ a0) dummy_anode),
                   ascope (nth k (pre ++ map (fun s0 => {| akind_of := ALeaf; ascope := [s0]; arows := rows; akids := [] |}) cols ++ a0) dummy_anode)))
        (seq (S b) (length cols)) = map (fun c => (rows, c)) (map (fun s0 => [s0]) cols).
  Proof.
    intros Hl. rewrite map_map. revert b pre Hl. induction cols as [|c cols IH]; intros b pre Hl; [reflexivity|].
    cbn [length seq map]. f_equal.
    - rewrite app_nth2 by lia. rewrite Hl, Nat.sub_diag. reflexivity.
    - specialize (IH (S b) (pre ++ [{| akind_of := ALeaf; ascope := [c]; arows := rows; akids := [] |}])).
      rewrite <- app_assoc in IH. cbn [app] in IH. apply IH. rewrite app_length. cbn. lia.
  Qed.

  Lemma expected_leaves rows cols j :
    expected (nth j (map (fun s0 => {| akind_of := ALeaf; ascope := [s0]; arows := rows; akids := [] |}) cols) dummy_anode) = None.
  Proof.
    set (F := fun s0 => {| akind_of := ALeaf; ascope := [s0]; arows := rows; akids := [] |}).
    destruct (Nat.lt_ge_cases j (length cols)) as [Hlt|Hge].
    - rewrite (nth_indep _ dummy_anode (F 0)) by (now rewrite map_length). now rewrite (map_nth F).
    - now rewrite nth_overflow by (now rewrite map_length).
  Qed.

  Theorem step_acc s ans : accounted s -> wfs s -> accounted (step s ans).
  Proof.
    intros Hacc Hwf. destruct s as [a q0]. unfold LearnSpn.step. cbn [queue arena].
    destruct q0 as [|t q]; [auto|].
    pose proof (p0_lt a t q Hwf) as Hp0.
    destruct (select min_rows min_cols t (zv ans)).
    - (* REM *)
      set (rem := pickb (tcols t) (zv ans) true). set (oth := pickb (tcols t) (zv ans) false).
      set (b := length a).
      set (P := {| akind_of := AProd [rem; oth]; ascope := tcols t; arows := trows t; akids := [] |}).
      unfold naive. rewrite app_length. cbn [length]. replace (length a + 1) with (S b) by (unfold b; lia).
      rewrite <- app_assoc. cbn [app].
      set (NP := {| akind_of := AProd (map (fun s0 => [s0]) rem); ascope := rem; arows := trows t; akids := seq (S (S b)) (length rem) |}).
      set (LV := map (fun s0 => {| akind_of := ALeaf; ascope := [s0]; arows := trows t; akids := [] |}) rem).
      set (ext := {| akind_of := AProd [rem; oth]; ascope := tcols t; arows := trows t; akids := [S b] |} :: NP :: LV).
      assert (Heq : add_child (a ++ P :: NP :: LV) b (S b) = a ++ ext) by (unfold b; apply add_child_new).
      rewrite Heq.
      set (newq := [mk_task b (trows t) oth false false (is_first t && match q with [] => true | _ => false end)]).
      assert (Hx : length a <= b < length (a ++ ext)) by (rewrite app_length; cbn; unfold b; lia).
      apply (attach_accounted a t q Hacc Hwf ext b newq Hx).
      + rewrite nth_new by (unfold b; lia). unfold b. rewrite Nat.sub_diag. reflexivity.
      + rewrite nth_new by (unfold b; lia). unfold b. rewrite Nat.sub_diag. reflexivity.
      + constructor; [cbn; unfold b; lia | constructor].
      + intros j e Hj He. rewrite app_length in Hj. cbn [length] in Hj.
        destruct (Nat.eq_dec j b) as [->|Hjb].
        * (* P *)
          rewrite nth_new in He |- * by (unfold b; lia). unfold b in He |- *. rewrite Nat.sub_diag in He |- *. cbn in He. inversion He; subst e. clear He.
          unfold kid_info. change (akids (nth 0 ext dummy_anode)) with [S b]. cbn [map].
          rewrite (nth_new a ext (S b)) by (unfold b; lia). replace (S b - length a) with 1 by (unfold b; lia).
          change (nth 1 ext dummy_anode) with NP. cbn [arows ascope NP].
          unfold newq, pending. cbn [filter tparent mk_task]. rewrite Nat.eqb_refl. reflexivity.
        * destruct (Nat.eq_dec j (S b)) as [->|Hjb'].
          -- (* the naive product *)
             rewrite nth_new in He |- * by (unfold b; lia). replace (S b - length a) with 1 in He |- * by (unfold b; lia).
             cbn [nth ext] in He |- *. cbn in He. inversion He; subst e. clear He.
             assert (Hpn : pending (S b) newq = []).
             { unfold newq, pending. cbn [filter tparent mk_task]. destruct (Nat.eqb_spec b (S b)); [lia | reflexivity]. }
             rewrite Hpn, app_nil_r. unfold kid_info. cbn [akids NP].
             replace (a ++ ext) with ((a ++ [{| akind_of := AProd [rem; oth]; ascope := tcols t; arows := trows t; akids := [S b] |}; NP]) ++ LV ++ [])
               by (rewrite app_nil_r, <- app_assoc; reflexivity).
             unfold LV. apply (leaves_info (S b)). rewrite app_length. cbn. unfold b. lia.
          -- (* a leaf *)
             exfalso. rewrite nth_new in He by (unfold b; lia).
             assert (Hj2 : j - length a = S (S (j - length a - 2))) by (unfold b in *; lia).
             rewrite Hj2 in He. unfold ext in He. cbn [nth] in He. unfold LV in He. rewrite expected_leaves in He. discriminate.
    - (* LEAF *)
      set (b := length a).
      set (ext := [{| akind_of := ALeaf; ascope := tcols t; arows := trows t; akids := [] |}]).
      assert (Hx : length a <= b < length (a ++ ext)) by (rewrite app_length; cbn; unfold b; lia).
      replace q with (q ++ []) by apply app_nil_r.
      apply (attach_accounted a t q Hacc Hwf ext b [] Hx).
      + rewrite nth_new by (unfold b; lia). unfold b. rewrite Nat.sub_diag. reflexivity.
      + rewrite nth_new by (unfold b; lia). unfold b. rewrite Nat.sub_diag. reflexivity.
      + constructor.
      + intros j e Hj He. exfalso. rewrite app_length in Hj. cbn in Hj. assert (j = b) by (unfold b; lia). subst j.
        rewrite nth_new in He by (unfold b; lia). unfold b in He. rewrite Nat.sub_diag in He. discriminate.
    - (* NAIVE *)
      unfold naive. set (b := length a).
      set (NP := {| akind_of := AProd (map (fun s0 => [s0]) (tcols t)); ascope := tcols t; arows := trows t; akids := seq (S b) (length (tcols t)) |}).
      set (LV := map (fun s0 => {| akind_of := ALeaf; ascope := [s0]; arows := trows t; akids := [] |}) (tcols t)).
      set (ext := NP :: LV).
      assert (Hx : length a <= b < length (a ++ ext)) by (rewrite app_length; cbn; unfold b; lia).
      replace q with (q ++ []) by apply app_nil_r.
      apply (attach_accounted a t q Hacc Hwf ext b [] Hx).
      + rewrite nth_new by (unfold b; lia). unfold b. rewrite Nat.sub_diag. reflexivity.
      + rewrite nth_new by (unfold b; lia). unfold b. rewrite Nat.sub_diag. reflexivity.
      + constructor.
      + intros j e Hj He. rewrite app_length in Hj. cbn [length] in Hj.
        destruct (Nat.eq_dec j b) as [->|Hjb].
        * rewrite nth_new in He |- * by (unfold b; lia). unfold b in He |- *. rewrite Nat.sub_diag in He |- *. cbn in He. inversion He; subst e. clear He.
          cbn [pending filter map]. rewrite app_nil_r. unfold kid_info. change (akids (nth 0 ext dummy_anode)) with (seq (S b) (length (tcols t))).
          unfold ext. replace (a ++ NP :: LV) with ((a ++ [NP]) ++ LV ++ []) by (rewrite app_nil_r, <- app_assoc; reflexivity).
          unfold LV. apply (leaves_info b). rewrite app_length. cbn. unfold b. lia.
        * exfalso. rewrite nth_new in He by (unfold b; lia).
          assert (Hj2 : j - length a = S (j - length a - 1)) by (unfold b in *; lia).
          rewrite Hj2 in He. unfold ext in He. cbn [nth] in He. unfold LV in He. rewrite expected_leaves in He. discriminate.
    - (* ROWS *)
      set (gs := group (trows t) (labels ans)).
      assert (Hre : accounted {| arena := a; queue := mk_task (tparent t) (trows t) (tcols t) false true false :: q |})
        by (apply (requeue_acc a t q); auto).
      set (b := length a).
      set (ext := [{| akind_of := ASum gs; ascope := tcols t; arows := trows t; akids := [] |}]).
      set (newq := map (fun g => mk_task b g (tcols t) false false false) gs).
      assert (Hx : length a <= b < length (a ++ ext)) by (rewrite app_length; cbn; unfold b; lia).
      assert (Hsucc : accounted {| arena := add_child (a ++ ext) (tparent t) b; queue := q ++ newq |}).
      { apply (attach_accounted a t q Hacc Hwf ext b newq Hx).
        - rewrite nth_new by (unfold b; lia). unfold b. rewrite Nat.sub_diag. reflexivity.
        - rewrite nth_new by (unfold b; lia). unfold b. rewrite Nat.sub_diag. reflexivity.
        - unfold newq. rewrite Forall_map, Forall_forall. intros; cbn. unfold b. lia.
        - intros j e Hj He. rewrite app_length in Hj. cbn in Hj. assert (j = b) by (unfold b; lia). subst j.
          rewrite nth_new in He |- * by (unfold b; lia). unfold b in He |- *. rewrite Nat.sub_diag in He |- *. cbn in He. inversion He; subst e. clear He.
          unfold kid_info. cbn [akids nth map app ext]. fold b.
          rewrite (pending_all b newq) by (unfold newq; rewrite Forall_map, Forall_forall; reflexivity).
          unfold newq. rewrite map_map. reflexivity. }
      destruct gs as [|g1 [|g2 gs']]; [exact Hsucc | exact Hre | exact Hsucc].
    - (* COLS *)
      set (gs := group (tcols t) (labels ans)).
      assert (Hre : accounted {| arena := a; queue := mk_task (tparent t) (trows t) (tcols t) true false false :: q |})
        by (apply (requeue_acc a t q); auto).
      set (b := length a).
      set (ext := [{| akind_of := AProd gs; ascope := tcols t; arows := trows t; akids := [] |}]).
      set (newq := map (fun g => mk_task b (trows t) g false false false) gs).
      assert (Hx : length a <= b < length (a ++ ext)) by (rewrite app_length; cbn; unfold b; lia).
      assert (Hsucc : accounted {| arena := add_child (a ++ ext) (tparent t) b; queue := q ++ newq |}).
      { apply (attach_accounted a t q Hacc Hwf ext b newq Hx).
        - rewrite nth_new by (unfold b; lia). unfold b. rewrite Nat.sub_diag. reflexivity.
        - rewrite nth_new by (unfold b; lia). unfold b. rewrite Nat.sub_diag. reflexivity.
        - unfold newq. rewrite Forall_map, Forall_forall. intros; cbn. unfold b. lia.
        - intros j e Hj He. rewrite app_length in Hj. cbn in Hj. assert (j = b) by (unfold b; lia). subst j.
          rewrite nth_new in He |- * by (unfold b; lia). unfold b in He |- *. rewrite Nat.sub_diag in He |- *. cbn in He. inversion He; subst e. clear He.
          unfold kid_info. cbn [akids nth map app ext]. fold b.
          rewrite (pending_all b newq) by (unfold newq; rewrite Forall_map, Forall_forall; reflexivity).
          unfold newq. rewrite map_map. reflexivity. }
      destruct gs as [|g1 [|g2 gs']]; [exact Hsucc | exact Hre | exact Hsucc].
  Qed.

  Lemma init_acc rows cols : accounted (init rows cols).
  Proof.
    intros p e Hp He. cbn in Hp. assert (p = 0) by lia. subst. cbn in He. inversion He; subst. reflexivity.
  Qed.

  (* for EVERY answer list the accounting invariant holds at every reachable state *)
  Theorem run_accounted rows cols answers : accounted (run min_rows min_cols answers (init rows cols)).
  Proof.
    unfold run.
    assert (H : forall s, accounted s -> wfs s -> accounted (fold_left step answers s) ).
    { induction answers as [|ans answers IH]; intros s Ha Hw; [exact Ha|]. cbn [fold_left].
      apply IH; [now apply step_acc|]. destruct (step_inv min_rows min_cols s ans) as [_ Hw']; auto.
      exact (aligned_of_accounted s Ha). }
    apply H; [apply init_acc | apply (proj2 (init_inv rows cols))].
  Qed.
End StepAcc.

(* ---- np.unique / boolean-mask grouping partitions its input ---- *)
Lemma insert_uniq_in x l y : In y (insert_uniq x l) <-> x = y \/ In y l.
Proof.
  induction l as [|z l IH]; cbn [insert_uniq]; [cbn; intuition|].
  destruct (Nat.ltb x z); [cbn; intuition|]. destruct (Nat.eqb_spec x z) as [->|Hne]; [cbn; intuition|].
  cbn [In]. rewrite IH. intuition.
Qed.
Definition sorted_lt (l : list nat) := forall i j, i < j < length l -> nth i l 0 < nth j l 0.
Lemma insert_uniq_nodup x l : NoDup l -> (forall a b l1 l2, l = l1 ++ a :: l2 -> In b l2 -> a < b) -> 
  NoDup (insert_uniq x l) /\ (forall a b l1 l2, insert_uniq x l = l1 ++ a :: l2 -> In b l2 -> a < b).
Proof.
  induction l as [|z l IH]; intros Hnd Hs; cbn [insert_uniq].
  - split; [repeat constructor; auto|]. intros a b [|? l1] l2 He Hb; cbn in He; inversion He; subst; [contradiction|]. destruct l1; discriminate.
  - destruct (Nat.ltb_spec x z) as [Hlt|Hge].
    + split.
      * constructor; [|exact Hnd]. intros [->|Hin]; [lia|]. specialize (Hs z x [] l eq_refl Hin). lia.
      * intros a b [|a' l1] l2 He Hb; cbn in He; inversion He; subst.
        -- destruct Hb as [->|Hb]; [exact Hlt|]. specialize (Hs z b [] l eq_refl Hb). lia.
        -- now apply (Hs a b l1 l2).
    + destruct (Nat.eqb_spec x z) as [->|Hne]; [split; assumption|].
      inversion Hnd as [|? ? Hz Hnd']; subst.
      destruct (IH Hnd') as [I1 I2]; [intros a b l1 l2 He Hb; apply (Hs a b (z :: l1) l2); [cbn; now rewrite He | exact Hb]|].
      split.
      * constructor; [|exact I1]. intro Hin. apply insert_uniq_in in Hin. destruct Hin as [Hx|Hin]; [lia | contradiction].
      * intros a b [|a' l1] l2 He Hb; cbn in He; inversion He; subst.
        -- apply insert_uniq_in in Hb. destruct Hb as [<-|Hb]; [lia|]. now apply (Hs a b [] l eq_refl).
        -- now apply (I2 a b l1 l2).
Qed.
Lemma uniq_sorted_spec ls : NoDup (uniq_sorted ls) /\ (forall l, In l ls -> In l (uniq_sorted ls)).
Proof.
  assert (H : NoDup (uniq_sorted ls) /\ (forall a b l1 l2, uniq_sorted ls = l1 ++ a :: l2 -> In b l2 -> a < b) /\
              forall l, In l ls -> In l (uniq_sorted ls)).
  { induction ls as [|l ls IH]; cbn.
    - split; [constructor|]. split; [intros a b [|? ?] l2 He; discriminate | tauto].
    - destruct IH as (I1 & I2 & I3). destruct (insert_uniq_nodup l (uniq_sorted ls) I1 I2) as [J1 J2].
      split; [exact J1|]. split; [exact J2|]. intros y [<-|Hy]; apply insert_uniq_in; [now left | right; now apply I3]. }
  tauto.
Qed.

Lemma pick_cons c x xs l ls : pick c (x :: xs) (l :: ls) = if Nat.eqb l c then x :: pick c xs ls else pick c xs ls.
Proof. reflexivity. Qed.

Lemma concat_pick_perm xs : forall ls L, length ls = length xs -> NoDup L -> (forall l, In l ls -> In l L) ->
    Permutation (concat (map (fun c => pick c xs ls) L)) xs.
Proof.
  induction xs as [|x xs IH]; intros ls L Hl Hnd Hin.
  - destruct ls; [|discriminate]. induction L as [|c L IHL]; cbn; [constructor | inversion Hnd; subst; now apply IHL].
  - destruct ls as [|l ls]; [discriminate|]. cbn in Hl.
    assert (HlL : In l L) by (apply Hin; now left).
    destruct (in_split _ _ HlL) as [L1 [L2 ->]].
    assert (Hn1 : ~ In l L1 /\ ~ In l L2).
    { apply NoDup_remove_2 in Hnd. split; intro; apply Hnd; apply in_or_app; tauto. }
    specialize (IH ls (L1 ++ l :: L2) ltac:(lia) Hnd ltac:(intros; apply Hin; now right)).
    rewrite !map_app, !concat_app in *. cbn [map concat] in *.
    assert (E1 : map (fun c => pick c (x :: xs) (l :: ls)) L1 = map (fun c => pick c xs ls) L1).
    { apply map_ext_in. intros c Hc. rewrite pick_cons. destruct (Nat.eqb_spec l c); [subst; tauto | reflexivity]. }
    assert (E2 : map (fun c => pick c (x :: xs) (l :: ls)) L2 = map (fun c => pick c xs ls) L2).
    { apply map_ext_in. intros c Hc. rewrite pick_cons. destruct (Nat.eqb_spec l c); [subst; tauto | reflexivity]. }
    rewrite E1, E2, pick_cons, Nat.eqb_refl.
    cbn [app]. symmetry. apply Permutation_cons_app. symmetry. exact IH.
Qed.
Lemma group_perm xs ls : length ls = length xs -> Permutation (concat (group xs ls)) xs.
Proof.
  intros Hl. unfold group. destruct (uniq_sorted_spec ls) as [H1 H2]. now apply concat_pick_perm.
Qed.
Lemma pickb_perm xs : forall bs, length bs = length xs -> Permutation (pickb xs bs true ++ pickb xs bs false) xs.
Proof.
  induction xs as [|x xs IH]; intros [|b bs] Hl; cbn in *; try discriminate; [constructor|].
  destruct b; cbn.
  - constructor. apply IH. lia.
  - symmetry. apply Permutation_cons_app. symmetry. apply IH. lia.
Qed.

(* ---- ghost groups of every node partition its rows / columns, for well-formed answers ---- *)
Definition parts_ok (n : anode) : Prop :=
  match akind_of n with
  | ASum gs => Permutation (concat gs) (arows n)
  | AProd ps => Permutation (concat ps) (ascope n)
  | ALeaf => True
  end.
(* an answer is well formed for a task: one zero-variance flag per column, one label per split item *)
Definition answer_wf (min_rows min_cols : nat) (t : task) (ans : answer) : Prop :=
  length (zv ans) = length (tcols t) /\
  match select min_rows min_cols t (zv ans) with
  | ROWS => length (labels ans) = length (trows t)
  | COLS => length (labels ans) = length (tcols t)
  | _ => True
  end.

Lemma parts_add_child a p x : p < length a -> Forall parts_ok a -> Forall parts_ok (add_child a p x).
Proof.
  intros Hp H. rewrite Forall_forall in *. intros n Hn. destruct (In_nth _ _ dummy_anode Hn) as [k [Hk <-]].
  rewrite add_child_length in Hk by exact Hp. unfold parts_ok. rewrite add_child_kind, add_child_arows, add_child_scope by exact Hp.
  apply (H (nth k a dummy_anode)), nth_In, Hk.
Qed.
Lemma concat_singletons_id (l : list nat) : concat (map (fun s => [s]) l) = l.
Proof. induction l; cbn; [reflexivity | now f_equal]. Qed.

Theorem step_parts min_rows min_cols s ans : wfs s ->
    (match queue s with t :: _ => answer_wf min_rows min_cols t ans | [] => True end) ->
    Forall parts_ok (arena s) -> Forall parts_ok (step min_rows min_cols s ans).(arena).
Proof.
  intros Hwf Haw Hp. destruct s as [a q0]. unfold step. cbn [queue arena] in *.
  destruct q0 as [|t q]; [exact Hp|]. pose proof (p0_lt a t q Hwf) as Hp0. destruct Haw as [Hz Hl].
  destruct (select min_rows min_cols t (zv ans)).
  - (* REM *)
    unfold naive. cbn [arena].
    set (rem := pickb (tcols t) (zv ans) true) in *. set (oth := pickb (tcols t) (zv ans) false) in *.
    apply parts_add_child; [rewrite add_child_length; rewrite !app_length; cbn; lia|].
    apply parts_add_child; [rewrite !app_length; cbn; lia|].
    apply Forall_app. split; [apply Forall_app; split; [exact Hp|]|].
    + constructor; [|constructor]. unfold parts_ok. cbn. rewrite app_nil_r. now apply pickb_perm.
    + constructor.
      * unfold parts_ok. cbn. now rewrite concat_singletons_id.
      * rewrite Forall_map, Forall_forall. intros; exact I.
  - cbn [arena]. apply parts_add_child; [rewrite app_length; cbn; lia|]. apply Forall_app. split; [exact Hp | repeat constructor].
  - unfold naive. cbn [arena]. apply parts_add_child; [rewrite app_length; cbn; lia|]. apply Forall_app. split; [exact Hp|].
    constructor.
    + unfold parts_ok. cbn. now rewrite concat_singletons_id.
    + rewrite Forall_map, Forall_forall. intros; exact I.
  - set (gs := group (trows t) (labels ans)).
    assert (Hs : Forall parts_ok (add_child (a ++ [{| akind_of := ASum gs; ascope := tcols t; arows := trows t; akids := [] |}]) (tparent t) (length a))).
    { apply parts_add_child; [rewrite app_length; cbn; lia|]. apply Forall_app. split; [exact Hp|]. constructor; [|constructor].
      unfold parts_ok. cbn. now apply group_perm. }
    destruct gs as [|g1 [|g2 gs']]; cbn [arena]; [exact Hs | exact Hp | exact Hs].
  - set (gs := group (tcols t) (labels ans)).
    assert (Hs : Forall parts_ok (add_child (a ++ [{| akind_of := AProd gs; ascope := tcols t; arows := trows t; akids := [] |}]) (tparent t) (length a))).
    { apply parts_add_child; [rewrite app_length; cbn; lia|]. apply Forall_app. split; [exact Hp|]. constructor; [|constructor].
      unfold parts_ok. cbn. now apply group_perm. }
    destruct gs as [|g1 [|g2 gs']]; cbn [arena]; [exact Hs | exact Hp | exact Hs].
Qed.

(* C04 (LearnSPN structure): when the run has emptied the queue, every sum's children carry the sum's
   own scope and its row groups in order, every product's children carry its rows and its column groups
   in order — for EVERY answer list *)
Theorem run_structure min_rows min_cols rows cols answers :
    let s := run min_rows min_cols answers (init rows cols) in
    queue s = [] -> forall p e, p < length (arena s) -> expected (nth p (arena s) dummy_anode) = Some e ->
    kid_info (arena s) (nth p (arena s) dummy_anode) = e.
Proof.
  intros s Hq p e Hp He. pose proof (run_accounted min_rows min_cols rows cols answers) as Ha. fold s in Ha.
  specialize (Ha p e Hp He). rewrite Hq in Ha. cbn in Ha. now rewrite app_nil_r in Ha.
Qed.
