(* Proofs/MomentFacts.v — the moment table computes exact raw moments:
   moment_at t k j = sum over all assignments a of the root scope of  val(a) * a_j^k. *)
From Coq Require Import List Arith ZArith Ring Lia Bool.
From DV Require Import Model.Core Model.Clt Model.Leaves Model.Moments Proofs.CoreFacts Proofs.LeafFacts.
Import ListNotations.

Section MomentFacts.
  Variable T : Type.
  Variables (t0 t1 : T) (tadd tmul : T -> T -> T).
  Hypothesis SRth : semi_ring_theory t0 t1 tadd tmul (@eq T).
  Add Ring Tring4 : SRth.
  Variable ofZ : Z -> T.
  Variable dom : nat -> list Z.
  Infix "+" := tadd. Infix "*" := tmul.
  Notation sumT := (sumT T t0 tadd).
  Notation prodT := (prodT T t1 tmul).
  Notation dotT := (dotT T t0 tadd tmul).
  Notation leaf := (leaf T).
  Notation lookup := (lookup T t0).
  Notation pw := (pw T t1 tmul).
  Notation tab_moment := (tab_moment T t0 t1 tadd tmul ofZ).
  Notation lval := (leaf_val T t0 t1 tadd tmul).
  Notation table := (table T leaf).
  Notation scope_of := (scope_of T leaf).

  Variables (k j : nat).

  (* the leaf of variable j weighted by x^k; at a missing cell it is the k-th raw moment *)
  Definition wleaf_val (l : leaf) (r : row) : T :=
    match l with
    | LTab v tab =>
        match r v with
        | None => if Nat.eqb v j then tab_moment k tab else t1
        | Some x => lookup tab x * (if Nat.eqb v j then pw (ofZ x) k else t1)
        end
    | LClt _ => t0
    end.

  Notation val := (val T t0 t1 tadd tmul leaf lval).
  Notation valw := (Core.val T t0 t1 tadd tmul leaf wleaf_val).
  Notation vals := (vals T t0 t1 tadd tmul leaf lval).
  Notation valsw := (Core.vals T t0 t1 tadd tmul leaf wleaf_val).

  (* discrete leaves with a duplicate-free table over the variable's domain *)
  Definition dleaf_ok (n : node T leaf) : Prop :=
    match nkind n with
    | KLeaf (LTab v tab) => nscope n = [v] /\ dom v = map fst tab /\ NoDup (map fst tab) /\
                            sumT (map snd tab) = t1
    | KLeaf (LClt _) => False
    | _ => True
    end.

  Lemma lookup_notin tab x : ~ In x (map fst tab) -> lookup tab x = t0.
  Proof.
    induction tab as [|[y p] tab IH]; cbn; intros Hn; [reflexivity|].
    destruct (Z.eqb_spec y x); [subst; tauto | apply IH; tauto].
  Qed.

  Lemma sum_lookup_keys (f : Z -> T) tab : NoDup (map fst tab) ->
    sumT (map (fun x => lookup tab x * f x) (map fst tab)) = sumT (map (fun xp => snd xp * f (fst xp)) tab).
  Proof.
    induction tab as [|[y p] tab IH]; cbn; intros Hnd; [reflexivity|].
    apply NoDup_cons_iff in Hnd. destruct Hnd as [Hy Hnd]. rewrite Z.eqb_refl. f_equal.
    rewrite <- (IH Hnd). f_equal. apply map_ext_in. intros x Hx.
    destruct (Z.eqb_spec y x); [subst; contradiction | reflexivity].
  Qed.

  Lemma tab_moment_sum tab : tab_moment k tab = sumT (map (fun xp => snd xp * pw (ofZ (fst xp)) k) tab).
  Proof. induction tab as [|[y p] tab IH]; cbn; [reflexivity | now rewrite IH]. Qed.

  Lemma sum_snd tab : sumT (map snd tab) = sumT (map (fun xp : Z * T => snd xp * t1) tab).
  Proof. induction tab as [|[y p] tab IH]; cbn; [reflexivity | rewrite IH; ring]. Qed.

  Notation leaf_local_w := (leaf_local T leaf wleaf_val).
  Notation leaf_marg_w := (leaf_marg T t0 tadd dom leaf wleaf_val).
  Notation valid := (valid T t0 tadd dom leaf lval).
  Notation validw := (CoreFacts.valid T t0 tadd dom leaf wleaf_val).

  Lemma wleaf_obligations n l : nkind n = KLeaf l -> dleaf_ok n ->
    leaf_local_w l (nscope n) /\ leaf_marg_w l (nscope n).
  Proof.
    intros Hk Hd. unfold dleaf_ok in Hd. rewrite Hk in Hd. destruct l as [v tab|c]; [|contradiction].
    destruct Hd as (Hs & Hdom & Hnd & Hsum). rewrite Hs. split.
    - intros r u c Hn. cbn. rewrite upd_other; [reflexivity | intro; subst; cbn in Hn; tauto].
    - intros r u Hin Hnone. destruct Hin as [<-|[]]. cbn. rewrite Hnone.
      erewrite map_ext; [| intros x; rewrite upd_same; reflexivity].
      rewrite Hdom. destruct (Nat.eqb v j).
      + rewrite (sum_lookup_keys (fun x => pw (ofZ x) k) tab Hnd). apply tab_moment_sum.
      + rewrite (sum_lookup_keys (fun _ => t1) tab Hnd), <- sum_snd. now symmetry.
  Qed.

  (* validity transfers to the weighted leaves *)
  Lemma valid_w t : valid t -> Forall dleaf_ok t -> validw t.
  Proof.
    induction 1 as [|t n Hv IH Hok]; intros Hall; [constructor|].
    apply Forall_app in Hall. destruct Hall as [Ht Hn]. inversion Hn as [|? ? Hdn _]; subst.
    constructor; [now apply IH|]. destruct Hok as [Hk Hok]. split; [exact Hk|].
    destruct (nkind n) as [l| |] eqn:E; [|exact Hok|exact Hok].
    now apply wleaf_obligations.
  Qed.

  Lemma prod_factor (F G : nat -> T) c ks jj :
    jj < length ks -> G (nth jj ks 0) = F (nth jj ks 0) * c ->
    (forall i, i < length ks -> i <> jj -> G (nth i ks 0) = F (nth i ks 0)) ->
    prodT (map G ks) = prodT (map F ks) * c.
  Proof.
    revert jj. induction ks as [|a ks IH]; intros jj Hj Hs Hc; [cbn in Hj; lia|].
    destruct jj as [|jj]; cbn [nth map Core.prodT] in *.
    - rewrite Hs. replace (map G ks) with (map F ks); [ring|].
      apply map_ext_Forall. rewrite Forall_forall. intros x Hin.
      destruct (In_nth _ _ 0 Hin) as [i [Hi Hnth]].
      specialize (Hc (S i) ltac:(cbn; lia) ltac:(lia)). cbn in Hc. now rewrite Hnth in Hc.
    - rewrite (IH jj); [| cbn in Hj; lia | exact Hs | intros i Hi Hne; apply (Hc (S i)); [cbn; lia | lia]].
      specialize (Hc 0 ltac:(cbn; lia) ltac:(lia)). cbn in Hc. rewrite Hc. ring.
  Qed.

  Lemma dot_factor ws (F G : nat -> T) c ks :
    Forall (fun x => G x = F x * c) ks -> dotT ws (map G ks) = dotT ws (map F ks) * c.
  Proof.
    revert ws. induction ks as [|a ks IH]; intros ws Hall; destruct ws as [|w ws]; cbn; try ring.
    inversion Hall; subst. rewrite IH by assumption. rewrite H1. ring.
  Qed.

  (* with x observed at variable j, the weighted circuit is the circuit times x^k exactly where j is in scope *)
  Theorem valw_factor t : valid t -> Forall dleaf_ok t -> forall i, i < length t -> forall r x,
      r j = Some x ->
      (In j (scope_of t i) -> valw t i r = val t i r * pw (ofZ x) k) /\
      (~ In j (scope_of t i) -> valw t i r = val t i r).
  Proof.
    induction 1 as [|t n Hv IH Hok]; intros Hall i Hi r x Hx; [cbn in Hi; lia|].
    apply Forall_app in Hall. destruct Hall as [Ht Hn]. inversion Hn as [|? ? Hdn _]; subst.
    specialize (IH Ht). rewrite app_length in Hi; cbn in Hi.
    destruct (Nat.eq_dec i (length t)) as [->|Hne].
    2:{ assert (Hi' : i < length t) by lia.
        rewrite !scope_of_prefix by exact Hi'.
        rewrite (val_prefix T t0 t1 tadd tmul leaf wleaf_val), (val_prefix T t0 t1 tadd tmul leaf lval) by exact Hi'.
        now apply IH. }
    rewrite scope_of_last, !val_last. destruct Hok as [Hk Hok].
    unfold dleaf_ok in Hdn. unfold Core.node_val.
    destruct (nkind n) as [l|ws|].
    - destruct l as [v tab|c]; [|contradiction]. destruct Hdn as (Hs & _). rewrite Hs. cbn.
      destruct (Nat.eqb_spec v j) as [->|Hvj].
      + rewrite Hx. split; [reflexivity | intros H; exfalso; apply H; now left].
      + split; [intros [H|[]]; congruence|]. intros _. destruct (r v); ring.
    - destruct Hok as [_ Hsc]. rewrite Forall_forall in Hk, Hsc. split; intros Hj.
      + apply dot_factor. rewrite Forall_forall. intros c Hc.
        apply (proj1 (IH c (Hk c Hc) r x Hx)). now apply (Hsc c Hc).
      + f_equal. apply map_ext_Forall. rewrite Forall_forall. intros c Hc.
        apply (proj2 (IH c (Hk c Hc) r x Hx)). intro H. apply Hj. now apply (Hsc c Hc).
    - destruct Hok as [Hun Hdis]. rewrite Forall_forall in Hk. split; intros Hj.
      + apply Hun in Hj. destruct Hj as [c [Hc Hjc]].
        destruct (In_nth _ _ 0 Hc) as [jj [Hjj Hnth]]. subst c.
        apply (prod_factor (fun c => nth c (vals t r) t0) (fun c => nth c (valsw t r) t0) _ _ jj Hjj).
        * apply (proj1 (IH _ (Hk _ Hc) r x Hx)). exact Hjc.
        * intros i Hi' Hij. apply (proj2 (IH _ (Hk _ (nth_In _ _ Hi')) r x Hx)).
          destruct (Nat.lt_ge_cases i jj) as [Hlt|Hge].
          -- intro Hc'. exact (Hdis i jj (conj Hlt Hjj) j Hc' Hjc).
          -- assert (jj < i) by lia. exact (Hdis jj i (conj H Hi') j Hjc).
      + f_equal. apply map_ext_Forall. rewrite Forall_forall. intros c Hc.
        apply (proj2 (IH c (Hk c Hc) r x Hx)). intro H. apply Hj. apply Hun. eauto.
  Qed.

  (* rows reached by sum_compl have every listed variable observed *)
  Lemma sum_compl_ext vs (f g : row -> T) : forall r,
      (forall r', (forall v, In v vs -> r' v <> None) -> (forall v, ~ In v vs -> r' v = r v) -> f r' = g r') ->
      sum_compl T t0 tadd dom vs f r = sum_compl T t0 tadd dom vs g r.
  Proof.
    induction vs as [|v vs IH]; intros r Hfg; cbn.
    - apply Hfg; [intros v [] | reflexivity].
    - f_equal. apply map_ext. intros x. apply IH. intros r' Hsome Hsame.
      destruct (in_dec Nat.eq_dec v vs) as [Hin|Hnin].
      + apply Hfg.
        * intros u [<-|Hu]; auto.
        * intros u Hu. rewrite Hsame by (intro; apply Hu; now right).
          apply upd_other. intro; subst; apply Hu; now left.
      + apply Hfg.
        * intros u [<-|Hu]; [|auto]. rewrite (Hsame v Hnin), upd_same. discriminate.
        * intros u Hu. rewrite Hsame by (intro; apply Hu; now right).
          apply upd_other. intro; subst; apply Hu; now left.
  Qed.

  Definition cellpow (r : row) : T := match r j with Some x => pw (ofZ x) k | None => t1 end.

  (* the evaluation on the ones-matrix with moment leaves is the weighted circuit on the all-missing row *)
  Notation mleaf := (mleaf T).
  Notation mval := (mleaf_val T t1 j).
  Notation to_mtable := (to_mtable T t0 t1 tadd tmul ofZ k).

  Lemma vals_mtable (t : table) : (forall n, In n t -> match nkind n with KLeaf (LClt _) => False | _ => True end) ->
    Core.vals T t0 t1 tadd tmul mleaf mval (to_mtable t) row_none = valsw t row_none.
  Proof.
    unfold Core.vals, Moments.to_mtable. intros Hall.
    enough (H : forall acc : list T,
      fold_left (fun vs n => vs ++ [Core.node_val T t0 t1 tadd tmul mleaf mval n vs row_none])
        (map (fun n : node T leaf => Build_node (to_mkind T t0 t1 tadd tmul ofZ k (nkind n)) (nscope n) (nkids n)) t) acc =
      fold_left (fun vs n => vs ++ [Core.node_val T t0 t1 tadd tmul leaf wleaf_val n vs row_none]) t acc)
      by (apply H).
    induction t as [|n t IH]; intros acc; [reflexivity|]. cbn [map fold_left].
    rewrite IH by (intros m Hm; apply Hall; now right). f_equal. f_equal. f_equal.
    specialize (Hall n (or_introl eq_refl)).
    unfold Core.node_val. cbn [nkind nkids]. destruct (nkind n) as [l|ws|]; cbn; try reflexivity.
    destruct l as [v tab|c]; [|contradiction]. unfold mleaf_val. cbn. reflexivity.
  Qed.

  Theorem moment_exact (t : table) : valid t -> Forall dleaf_ok t -> 0 < length t ->
      let root := length t - 1 in
      NoDup (scope_of t root) -> In j (scope_of t root) ->
      moment_at T t0 t1 tadd tmul ofZ t k j =
      sum_compl T t0 tadd dom (scope_of t root) (fun a => val t root a * cellpow a) row_none.
  Proof.
    intros Hv Hd Hlen root Hnd Hj.
    unfold moment_at, Core.root_val, Core.val. rewrite vals_mtable.
    2:{ intros n Hn. rewrite Forall_forall in Hd. specialize (Hd n Hn). unfold dleaf_ok in Hd.
        destruct (nkind n) as [[?|?]| |]; auto. }
    unfold Moments.to_mtable. rewrite map_length. fold root.
    change (nth root (valsw t row_none) t0) with (valw t root row_none).
    assert (Hr : root < length t) by (unfold root; lia).
    rewrite (iter_marg T t0 t1 tadd tmul SRth dom leaf wleaf_val t (valid_w t Hv Hd) root Hr _ Hnd row_none).
    2:{ intros v Hin. split; [exact Hin | reflexivity]. }
    apply sum_compl_ext. intros r' Hsome _. unfold cellpow.
    destruct (r' j) as [x|] eqn:E; [| exfalso; now apply (Hsome j Hj)].
    apply (proj1 (valw_factor t Hv Hd root Hr r' x E)). exact Hj.
  Qed.
End MomentFacts.
