(* Proofs/CheckFacts.v — soundness of the certificate checker:
   valid_b t = true -> valid t /\ normalised t  (for every commutative semiring with a sound eqb). *)
From Coq Require Import List Arith ZArith Ring Lia Bool.
From DV Require Import Model.Core Model.Clt Model.Leaves Model.Check
  Proofs.CoreFacts Proofs.CltFacts Proofs.LeafFacts.
Import ListNotations.

Section CheckFacts.
  Variable T : Type.
  Variables (t0 t1 : T) (tadd tmul : T -> T -> T).
  Hypothesis SRth : semi_ring_theory t0 t1 tadd tmul (@eq T).
  Add Ring Tring5 : SRth.
  Variable teqb : T -> T -> bool.
  Hypothesis teqb_sound : forall a b, teqb a b = true -> a = b.
  Variable doms : list (nat * list Z).
  Notation dom := (dom doms).
  Notation leaf := (leaf T).
  Notation lval := (leaf_val T t0 t1 tadd tmul).
  Notation valid := (valid T t0 tadd dom leaf lval).
  Notation normalised := (normalised T t0 t1 tadd leaf lval).
  Notation node_ok := (node_ok T t0 tadd dom leaf lval).
  Notation node_norm := (node_norm T t0 t1 tadd leaf lval).
  Notation node_okb := (node_okb T t0 t1 tadd teqb doms []).
  Notation scope_of := (scope_of T leaf).

  Lemma memb_In x l : memb x l = true <-> In x l.
  Proof.
    unfold memb. rewrite existsb_exists. split.
    - intros [y [Hy He]]. apply Nat.eqb_eq in He. now subst.
    - intros H. exists x. split; [exact H | apply Nat.eqb_refl].
  Qed.
  Lemma subsetb_sound a b : subsetb a b = true -> forall x, In x a -> In x b.
  Proof. unfold subsetb. rewrite forallb_forall. intros H x Hx. now apply memb_In, H. Qed.
  Lemma seteqb_sound a b : seteqb a b = true -> seteq a b.
  Proof.
    unfold seteqb. rewrite andb_true_iff. intros [H1 H2] x. split; now apply subsetb_sound.
  Qed.
  Lemma disjb_sound a b : disjb a b = true -> forall x, In x a -> ~ In x b.
  Proof.
    unfold disjb. rewrite forallb_forall. intros H x Hx Hb. specialize (H x Hx).
    apply memb_In in Hb. rewrite Hb in H. discriminate.
  Qed.
  Lemma pairwise_disjb_sound l : pairwise_disjb l = true ->
    forall i j, i < j < length l -> forall x, In x (nth i l []) -> ~ In x (nth j l []).
  Proof.
    induction l as [|a l IH]; cbn; intros H i j Hij x; [lia|].
    apply andb_true_iff in H. destruct H as [Ha Hl]. destruct j as [|j]; [lia|].
    destruct i as [|i]; cbn.
    - rewrite forallb_forall in Ha. apply disjb_sound, Ha, nth_In. lia.
    - apply IH; [exact Hl | lia].
  Qed.
  Lemma natlist_eqb_sound a b : natlist_eqb a b = true -> a = b.
  Proof.
    revert b. induction a as [|x a IH]; destruct b as [|y b]; cbn; try discriminate; auto.
    rewrite andb_true_iff. intros [H1 H2]. apply Nat.eqb_eq in H1. f_equal; auto.
  Qed.
  Lemma zlist_eqb_sound a b : zlist_eqb a b = true -> a = b.
  Proof.
    revert b. induction a as [|x a IH]; destruct b as [|y b]; cbn; try discriminate; auto.
    rewrite andb_true_iff. intros [H1 H2]. apply Z.eqb_eq in H1. f_equal; auto.
  Qed.
  Lemma nodupb_sound l : nodupb l = true -> NoDup l.
  Proof.
    induction l as [|x l IH]; cbn; intros H; constructor; apply andb_true_iff in H; destruct H as [H1 H2].
    - intro Hin. apply memb_In in Hin. unfold memb in Hin. rewrite Hin in H1. discriminate.
    - auto.
  Qed.
  Lemma rows_normb_sound t : rows_normb T t1 tadd teqb t = true -> rows_norm T t1 tadd t.
  Proof.
    induction t as [v cpt kids IH] using (ctree_ind' T). cbn. rewrite !andb_true_iff.
    intros [[H0 H1] Hk]. split.
    - intros pv [<-|[<-|[]]]; now apply teqb_sound.
    - induction kids as [|k ks IHk]; [exact I|]. apply andb_true_iff in Hk. destruct Hk as [Hk1 Hk2].
      inversion IH; subst. split; [auto | apply IHk; assumption].
  Qed.

  Lemma map_nth_scope (t : table T leaf) ks j : j < length ks ->
    nth j (map (scope_of t) ks) [] = scope_of t (nth j ks 0).
  Proof. intros H. rewrite (nth_indep _ [] (scope_of t 0)) by (now rewrite map_length). apply map_nth. Qed.

  Lemma node_okb_sound (t : table T leaf) n : node_okb t n = true -> node_ok t n /\ node_norm n.
  Proof.
    unfold Check.node_okb, CoreFacts.node_ok, CoreFacts.node_norm. rewrite andb_true_iff. intros [Hk Hb].
    assert (Hkids : Forall (fun k => k < length t) (nkids n)).
    { rewrite Forall_forall. rewrite forallb_forall in Hk. intros k Hin. now apply Nat.ltb_lt, Hk. }
    destruct (nkind n) as [l|ws|].
    - destruct l as [v tab|c]; cbn in Hb.
      + apply andb_true_iff in Hb. destruct Hb as [Hs Hsum]. apply natlist_eqb_sound in Hs.
        apply teqb_sound in Hsum. rewrite Hs. repeat split; [exact Hkids | | |].
        * apply ltab_local. now left.
        * now apply ltab_marg.
        * apply ltab_one.
      + rewrite !andb_true_iff in Hb. destruct Hb as [[[[Hnd Hs1] Hs2] Hd] Hr].
        apply nodupb_sound in Hnd. pose proof (subsetb_sound _ _ Hs1) as H1. pose proof (subsetb_sound _ _ Hs2) as H2.
        repeat split; [exact Hkids | | |].
        * now apply lclt_local.
        * apply lclt_marg; auto. intros v Hv. rewrite forallb_forall in Hd. now apply zlist_eqb_sound, Hd.
        * apply lclt_one; auto. now apply rows_normb_sound.
    - rewrite !andb_true_iff in Hb. destruct Hb as [[Hl Hsc] Hsum].
      repeat split; [exact Hkids | now apply Nat.eqb_eq | | now apply teqb_sound].
      rewrite Forall_forall. rewrite forallb_forall in Hsc. intros k Hin. now apply seteqb_sound, Hsc.
    - rewrite andb_true_iff in Hb. destruct Hb as [Hun Hdis]. apply seteqb_sound in Hun.
      repeat split; [exact Hkids | | | ].
      + intros Hv. apply Hun in Hv. apply in_concat in Hv. destruct Hv as [s [Hs Hvs]].
        apply in_map_iff in Hs. destruct Hs as [k [<- Hk']]. eauto.
      + intros [k [Hk' Hvk]]. apply Hun. apply in_concat. exists (scope_of t k). split; [|exact Hvk].
        now apply in_map.
      + intros i j Hij v Hi Hj.
        pose proof (pairwise_disjb_sound _ Hdis i j) as Hp. rewrite map_length in Hp.
        specialize (Hp Hij v). rewrite !map_nth_scope in Hp by lia. now apply Hp.
  Qed.

  Lemma valid_aux_sound rest : forall pre, valid pre -> normalised pre ->
      valid_aux T t0 t1 tadd teqb doms [] pre rest = true -> valid (pre ++ rest) /\ normalised (pre ++ rest).
  Proof.
    induction rest as [|n rest IH]; intros pre Hv Hn H; cbn in H.
    - rewrite app_nil_r. auto.
    - apply andb_true_iff in H. destruct H as [Hok Hrest]. apply node_okb_sound in Hok.
      destruct Hok as [Hok Hnn].
      replace (pre ++ n :: rest) with ((pre ++ [n]) ++ rest) by (rewrite <- app_assoc; reflexivity).
      apply IH; [now constructor | | exact Hrest].
      apply Forall_app. split; [exact Hn | constructor; auto].
  Qed.

  Theorem valid_b_sound t : valid_b T t0 t1 tadd teqb doms [] t = true -> valid t /\ normalised t.
  Proof. intros H. apply (valid_aux_sound t []); [constructor | constructor | exact H]. Qed.
End CheckFacts.
