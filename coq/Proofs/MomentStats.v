(* Proofs/MomentStats.v — variance / skewness / kurtosis of the TRANSLATED source
   (Gen/MomentsSrc.v, regenerated from /repo on every run) equal their textbook definitions in
   terms of central moments, over every field. *)
From Coq Require Import List Arith ZArith Ring Field Lia.
From DV Require Import Gen.MomentsSrc.
Import ListNotations.

Section MomentStats.
  Variable T : Type.
  Variables (t0 t1 : T) (tadd tmul tsub : T -> T -> T) (topp : T -> T) (tdiv : T -> T -> T) (tinv : T -> T).
  Hypothesis Fth : field_theory t0 t1 tadd tmul tsub topp tdiv tinv (@eq T).
  Add Field Tfield : Fth.
  Infix "+" := tadd. Infix "*" := tmul. Infix "-" := tsub. Infix "/" := tdiv.

  Fixpoint tnum (n : nat) : T := match n with O => t0 | S n' => t1 + tnum n' end.
  Variable pow15 : T -> T.          (* x |-> x^(3/2); only its argument matters here *)
  Variable mom : nat -> T.          (* mom k = E[X^k] of one variable, mom 0 = 1 *)

  (* expectation of a finite weighted family: E f = sum_i p_i f(x_i) *)
  Fixpoint E (ps : list (T * T)) (f : T -> T) : T :=
    match ps with [] => t0 | (p, x) :: tl => p * f x + E tl f end.

  (* central moments expanded by linearity of E (binomial theorem), with E[1] = 1 *)
  Definition cm2 : T := mom 2 - tnum 2 * mom 1 * mom 1 + mom 1 * mom 1.
  Definition cm3 : T := mom 3 - tnum 3 * mom 1 * mom 2 + tnum 3 * (mom 1 * mom 1) * mom 1 - mom 1 * mom 1 * mom 1.
  Definition cm4 : T := mom 4 - tnum 4 * mom 1 * mom 3 + tnum 6 * (mom 1 * mom 1) * mom 2
                        - tnum 4 * (mom 1 * mom 1 * mom 1) * mom 1 + mom 1 * mom 1 * mom 1 * mom 1.

  (* the expansions really are E[(X - mu)^n] for every finite distribution *)
  Lemma central2 ps mu : E ps (fun _ => t1) = t1 ->
    E ps (fun x => (x - mu) * (x - mu)) =
    E ps (fun x => x * x) - tnum 2 * mu * E ps (fun x => x) + mu * mu.
  Proof.
    intros H1. rewrite <- (Fth.(F_R).(Rmul_1_l) (mu * mu)) at 1. rewrite <- H1. clear H1.
    induction ps as [|[p x] ps IH]; cbn in *; [ring|].
    transitivity (p * ((x - mu) * (x - mu)) +
      (E ps (fun x0 => x0 * x0) - (t1 + (t1 + t0)) * mu * E ps (fun x0 => x0) + E ps (fun _ => t1) * (mu * mu)));
      [now rewrite IH | ring].
  Qed.
  Lemma central3 ps mu : E ps (fun _ => t1) = t1 ->
    E ps (fun x => (x - mu) * (x - mu) * (x - mu)) =
    E ps (fun x => x * x * x) - tnum 3 * mu * E ps (fun x => x * x) + tnum 3 * (mu * mu) * E ps (fun x => x) - mu * mu * mu.
  Proof.
    intros H1. rewrite <- (Fth.(F_R).(Rmul_1_l) (mu * mu * mu)) at 1. rewrite <- H1. clear H1.
    induction ps as [|[p x] ps IH]; cbn in *; [ring|].
    rewrite IH. ring.
  Qed.
  Lemma central4 ps mu : E ps (fun _ => t1) = t1 ->
    E ps (fun x => (x - mu) * (x - mu) * (x - mu) * (x - mu)) =
    E ps (fun x => x * x * x * x) - tnum 4 * mu * E ps (fun x => x * x * x)
      + tnum 6 * (mu * mu) * E ps (fun x => x * x) - tnum 4 * (mu * mu * mu) * E ps (fun x => x) + mu * mu * mu * mu.
  Proof.
    intros H1. rewrite <- (Fth.(F_R).(Rmul_1_l) (mu * mu * mu * mu)) at 1. rewrite <- H1. clear H1.
    induction ps as [|[p x] ps IH]; cbn in *; [ring|].
    rewrite IH. ring.
  Qed.

  Notation expectation_src := (expectation_src T mom).
  Notation variance_src := (variance_src T tmul tsub mom).
  Notation skewness_src := (skewness_src T tmul tsub tdiv tnum pow15 mom).
  Notation kurtosis_src := (kurtosis_src T tadd tmul tsub tdiv topp tnum mom).

  Theorem expectation_ok : expectation_src = mom 1.
  Proof. reflexivity. Qed.

  Theorem variance_ok : variance_src = cm2.
  Proof. unfold MomentsSrc.variance_src, cm2. cbn [tnum]. ring. Qed.

  (* skewness = mu_3 / mu_2^(3/2) *)
  Theorem skewness_ok : skewness_src = cm3 / pow15 cm2.
  Proof.
    unfold MomentsSrc.skewness_src, cm3, cm2. cbv zeta. cbn [tnum].
    f_equal; [ring | f_equal; ring].
  Qed.

  (* excess kurtosis = mu_4 / mu_2^2 - 3 *)
  Theorem kurtosis_ok : cm2 <> t0 -> kurtosis_src = cm4 / (cm2 * cm2) - tnum 3.
  Proof.
    unfold MomentsSrc.kurtosis_src, cm4, cm2. cbv zeta. cbn [tnum]. intros H.
    field. intro H'. apply H. etransitivity; [|exact H']. ring.
  Qed.
End MomentStats.
