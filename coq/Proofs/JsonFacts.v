(* Proofs/JsonFacts.v — the node-link round trip of Model/Json.v: for every circuit with distinct ids
   in which no parent lists a child twice, loading what was saved gives the same ids, kinds, scopes
   and child order with rounded parameters, whenever the constructor guards accept the rounded
   parameters.  Generic in the number type and the rounding function; no bound on sizes. *)
From Coq Require Import List Arith ZArith Bool Lia FinFun.
From DV Require Import Model.Json.
Import ListNotations.

(* ---------- insertion-ordered dictionary ---------- *)
Section UpsertFacts.
  Variables (K V : Type) (keqb : K -> K -> bool).
  Hypothesis keqb_spec : forall a b, keqb a b = true <-> a = b.

  Lemma upsert_fresh (l : list (K * V)) k v : ~ In k (map fst l) -> upsert keqb l k v = l ++ [(k, v)].
  Proof.
    induction l as [|[k' v'] tl IH]; simpl; intros Hn; [reflexivity|].
    destruct (keqb k' k) eqn:E.
    - apply keqb_spec in E. exfalso. apply Hn. left. exact E.
    - f_equal. apply IH. intros H. apply Hn. right. exact H.
  Qed.

  (* inserting pairwise distinct fresh keys appends them in order: nothing is merged *)
  Lemma upsert_all_nodup (l : list (K * V)) : forall acc,
      NoDup (map fst l) -> (forall k, In k (map fst l) -> ~ In k (map fst acc)) ->
      upsert_all keqb l acc = acc ++ l.
  Proof.
    unfold upsert_all. induction l as [|[k v] tl IH]; simpl; intros acc Hnd Hfresh.
    - now rewrite app_nil_r.
    - inversion Hnd as [|? ? Hnotin Hnd']; subst.
      rewrite upsert_fresh by (apply Hfresh; now left).
      rewrite IH; [now rewrite <- app_assoc| exact Hnd' |].
      intros k' Hin. rewrite map_app, in_app_iff. simpl. intros [H|[H|[]]].
      + apply (Hfresh k'); [now right| exact H].
      + subst. contradiction.
  Qed.
End UpsertFacts.

Lemma pair_eqb_spec (a b : nat * nat) : pair_eqb a b = true <-> a = b.
Proof.
  destruct a as [a1 a2], b as [b1 b2]. unfold pair_eqb. simpl.
  rewrite andb_true_iff, !Nat.eqb_eq. split; [intros [-> ->]; reflexivity | intros H; inversion H; auto].
Qed.

Lemma nodup_app_intro {A} (l1 l2 : list A) :
  NoDup l1 -> NoDup l2 -> (forall x, In x l1 -> ~ In x l2) -> NoDup (l1 ++ l2).
Proof.
  induction l1 as [|a tl IH]; simpl; intros H1 H2 Hd; [exact H2|].
  inversion H1; subst. constructor.
  - rewrite in_app_iff. intros [H|H]; [contradiction| apply (Hd a); [now left| exact H]].
  - apply IH; auto; intros x Hx; apply Hd; now right.
Qed.

Section JsonFacts.
  Variable T : Type.
  Variable rnd : T -> T.
  Variable sum_ok : list T -> bool.
  Variable leaf_ok : lclass -> list nat -> list (jval T) -> bool.

  Notation snode := (snode T).
  Notation lnode := (lnode T).
  Notation expected := (expected T rnd).
  Notation node_edges := (@node_edges T).
  Notation place := (@place T).

  (* ---------- the edges written by save ---------- *)
  Lemma edges_from_keys p : forall kids i, map fst (edges_from p i kids) = map (fun c => (c, p)) kids.
  Proof. induction kids as [|c tl IH]; simpl; intros i; [reflexivity| now rewrite IH]. Qed.

  Lemma edges_from_parent p : forall kids i, Forall (fun e : gedge => snd (fst e) = p) (edges_from p i kids).
  Proof. induction kids as [|c tl IH]; simpl; intros i; constructor; auto. Qed.

  Lemma edge_keys_nodup (t : list snode) :
    NoDup (map sid t) -> (forall n, In n t -> NoDup (skids n)) ->
    NoDup (map fst (flat_map node_edges t)).
  Proof.
    induction t as [|n tl IH]; simpl; intros Hid Hk; [constructor|].
    inversion Hid as [|? ? Hnotin Hid']; subst.
    rewrite map_app. apply nodup_app_intro.
    - unfold Json.node_edges. rewrite edges_from_keys.
      apply FinFun.Injective_map_NoDup; [intros a b H; now inversion H| apply Hk; now left].
    - apply IH; auto.
    - intros [c p]. unfold Json.node_edges at 1. rewrite edges_from_keys, in_map_iff.
      intros [c' [Heq _]]. inversion Heq; subst. intros Hin. apply Hnotin.
      rewrite in_map_iff in Hin. destruct Hin as [e [He Hin]]. rewrite in_flat_map in Hin.
      destruct Hin as [m [Hm Hem]]. unfold Json.node_edges in Hem.
      pose proof (edges_from_parent (sid m) (skids m) 0) as Hall. rewrite Forall_forall in Hall.
      specialize (Hall e Hem). rewrite He in Hall. simpl in Hall. rewrite Hall. now apply in_map.
  Qed.

  (* ---------- placing children by index ---------- *)
  Lemma set_kid_snoc (pre : list nat) c : set_kid (map Some pre) (length pre) c = map Some (pre ++ [c]).
  Proof.
    unfold set_kid. rewrite map_length. replace (S (length pre) - length pre) with 1 by lia. simpl repeat.
    rewrite firstn_app, map_length, Nat.sub_diag. simpl firstn at 2. rewrite app_nil_r.
    rewrite firstn_all2 by (rewrite map_length; lia).
    rewrite skipn_all2 by (rewrite app_length, map_length; simpl; lia).
    now rewrite map_app.
  Qed.

  Definition kid_step (l : list (option nat)) (e : gedge) : list (option nat) := set_kid l (snd e) (fst (fst e)).

  Lemma kids_fold p : forall ks pre,
      fold_left kid_step (edges_from p (length pre) ks) (map Some pre) = map Some (pre ++ ks).
  Proof.
    induction ks as [|c tl IH]; simpl; intros pre; [now rewrite app_nil_r|].
    unfold kid_step at 2. simpl. rewrite set_kid_snoc.
    replace (S (length pre)) with (length (pre ++ [c])) by (rewrite app_length; simpl; lia).
    rewrite IH, <- app_assoc. reflexivity.
  Qed.

  Definition with_kids (n : lnode) (ks : list (option nat)) : lnode :=
    {| lid := lid n; lkd := lkd n; lscope := lscope n; lkids := ks |}.

  Lemma place_other (ns : list lnode) (e : gedge) :
    (forall n, In n ns -> lid n <> snd (fst e)) -> place ns e = ns.
  Proof.
    induction ns as [|n tl IH]; simpl; intros H; [reflexivity|].
    destruct (Nat.eqb (lid n) (snd (fst e))) eqn:E.
    - apply Nat.eqb_eq in E. exfalso. apply (H n); auto.
    - f_equal. apply IH. intros m Hm. apply H. now right.
  Qed.

  Lemma place_one (A B : list lnode) (x : lnode) p : forall (es : list gedge),
      Forall (fun e => snd (fst e) = p) es -> lid x = p ->
      (forall n, In n A -> lid n <> p) -> (forall n, In n B -> lid n <> p) ->
      fold_left place es (A ++ x :: B) = A ++ with_kids x (fold_left kid_step es (lkids x)) :: B.
  Proof.
    intros es. revert x. induction es as [|e tl IH]; simpl; intros x Hall Hx HA HB.
    - destruct x; reflexivity.
    - inversion Hall as [|? ? He Hall']; subst.
      unfold Json.place at 2. rewrite map_app. simpl map.
      fold (place A e). fold (place B e).
      rewrite (place_other A e) by (rewrite He; exact HA).
      rewrite (place_other B e) by (rewrite He; exact HB).
      rewrite He, Nat.eqb_refl.
      change {| lid := lid x; lkd := lkd x; lscope := lscope x; lkids := set_kid (lkids x) (snd e) (fst (fst e)) |}
        with (with_kids x (kid_step (lkids x) e)).
      rewrite IH; auto.
  Qed.

  Definition empty_l (n : snode) : lnode :=
    {| lid := sid n; lkd := round_kind T rnd (skd n); lscope := sscope n; lkids := [] |}.

  Lemma place_all : forall (todo done : list snode),
      NoDup (map sid (done ++ todo)) ->
      fold_left place (flat_map node_edges todo) (map expected done ++ map empty_l todo)
      = map expected (done ++ todo).
  Proof.
    induction todo as [|n rest IH]; intros done Hnd; simpl.
    - now rewrite !app_nil_r.
    - rewrite fold_left_app.
      assert (Hsplit : NoDup (map sid done ++ sid n :: map sid rest)) by (rewrite map_app in Hnd; exact Hnd).
      rewrite (place_one (map expected done) (map empty_l rest) (empty_l n) (sid n)).
      + simpl lkids. unfold Json.node_edges.
        pose proof (kids_fold (sid n) (skids n) []) as Hk. simpl in Hk. rewrite Hk.
        change (with_kids (empty_l n) (map Some (skids n))) with (expected n).
        replace (map expected done ++ expected n :: map empty_l rest)
          with (map expected (done ++ [n]) ++ map empty_l rest) by (rewrite map_app, <- app_assoc; reflexivity).
        rewrite IH; [now rewrite <- app_assoc| now rewrite <- app_assoc].
      + apply edges_from_parent.
      + reflexivity.
      + intros m Hm. rewrite in_map_iff in Hm. destruct Hm as [m' [<- Hm']]. simpl.
        apply NoDup_remove_2 in Hsplit. intros Heq. apply Hsplit. rewrite in_app_iff. left.
        rewrite <- Heq. now apply in_map.
      + intros m Hm. rewrite in_map_iff in Hm. destruct Hm as [m' [<- Hm']]. simpl.
        apply NoDup_remove_2 in Hsplit. intros Heq. apply Hsplit. rewrite in_app_iff. right.
        rewrite <- Heq. now apply in_map.
  Qed.

  (* ---------- constructors ---------- *)
  Definition node_guard (n : snode) : Prop :=
    match round_kind T rnd (skd n) with
    | SSum ws => sum_ok ws = true
    | SProd => True
    | SLeaf c ps => leaf_ok c (sscope n) ps = true
    end /\ scope_ok (sscope n) = true.

  Lemma construct_all_ok (t : list snode) :
    (forall n, In n t -> node_guard n) ->
    construct_all T sum_ok leaf_ok (map (node_attr T rnd) t) = OK (map empty_l t).
  Proof.
    induction t as [|n tl IH]; simpl; intros H; [reflexivity|].
    destruct (H n (or_introl eq_refl)) as [Hk Hs].
    unfold construct at 1. unfold node_attr at 1 2 3. simpl fst. simpl snd.
    replace (negb match round_kind T rnd (skd n) with
                  | SSum ws => sum_ok ws | SProd => true | SLeaf c ps => leaf_ok c (sscope n) ps end) with false
      by (destruct (round_kind T rnd (skd n)); simpl in *; try rewrite Hk; reflexivity).
    rewrite Hs. simpl. rewrite IH by (intros m Hm; apply H; now right). reflexivity.
  Qed.

  Lemma has_id_in ids i : has_id ids i = true <-> In i ids.
  Proof.
    unfold has_id. rewrite existsb_exists. split.
    - intros [x [Hx E]]. apply Nat.eqb_eq in E. now subst.
    - intros H. exists i. split; [exact H| apply Nat.eqb_refl].
  Qed.

  (* ---------- the round trip ---------- *)
  Theorem roundtrip_structure (t : list snode) :
    NoDup (map sid t) ->                                   (* ids are distinct *)
    (forall n, In n t -> NoDup (skids n)) ->               (* no parent lists a child twice *)
    (forall n c, In n t -> In c (skids n) -> In c (map sid t)) ->   (* children belong to the circuit *)
    In 0 (map sid t) ->                                    (* the root carries id 0 *)
    (forall n, In n t -> node_guard n) ->                  (* guards accept the ROUNDED parameters *)
    graph_to_spn T sum_ok leaf_ok (spn_to_graph T rnd t) = OK (map expected t).
  Proof.
    intros Hid Hkids Hclosed Hroot Hguard.
    assert (Hfst : map fst (map (node_attr T rnd) t) = map sid t) by (rewrite map_map; reflexivity).
    unfold graph_to_spn, spn_to_graph. simpl gnodes. simpl gedges.
    rewrite (upsert_all_nodup nat _ Nat.eqb Nat.eqb_eq) by (rewrite ?Hfst; auto).
    rewrite (upsert_all_nodup (nat * nat) _ pair_eqb pair_eqb_spec) by (auto using edge_keys_nodup).
    simpl app. rewrite construct_all_ok by exact Hguard. rewrite Hfst.
    replace (forallb _ (flat_map node_edges t)) with true.
    - simpl negb. cbv iota.
      replace (has_id (map sid t) 0) with true by (symmetry; now apply has_id_in).
      simpl negb. cbv iota.
      pose proof (place_all t [] Hid) as H. simpl in H. now rewrite H.
    - symmetry. apply forallb_forall. intros e He. rewrite in_flat_map in He. destruct He as [n [Hn He]].
      unfold Json.node_edges in He.
      assert (Hp : snd (fst e) = sid n).
      { pose proof (edges_from_parent (sid n) (skids n) 0) as Hall. rewrite Forall_forall in Hall. now apply Hall. }
      assert (Hc : In (fst (fst e)) (skids n)).
      { assert (Hin : In (fst e) (map fst (edges_from (sid n) 0 (skids n)))) by now apply in_map.
        rewrite edges_from_keys, in_map_iff in Hin. destruct Hin as [c [Hc Hin]]. rewrite <- Hc. exact Hin. }
      rewrite andb_true_iff, !has_id_in. split.
      + eapply Hclosed; eauto.
      + rewrite Hp. now apply in_map.
  Qed.

  (* what `expected` means, field by field *)
  Lemma expected_fields (n : snode) :
    lid (expected n) = sid n /\ lscope (expected n) = sscope n /\ lkids (expected n) = map Some (skids n) /\
    lkd (expected n) = match skd n with
                       | SSum ws => SSum (map rnd ws)
                       | SProd => SProd
                       | SLeaf c ps => SLeaf c (map (round_val T rnd) ps)
                       end.
  Proof. repeat split; destruct (skd n); reflexivity. Qed.


  (* ---------- stand-alone Chow-Liu trees ---------- *)
  Variable clt_ok : list nat -> list (option nat) -> list (jval T) -> bool.

  Lemma cedges_none_below : forall tree k i, i < k -> pred_of (cedges_from k tree) i = None.
  Proof.
    induction tree as [|[p|] tl IH]; simpl; intros k i H; [reflexivity| |apply IH; lia].
    destruct (Nat.eqb k i) eqn:E; [apply Nat.eqb_eq in E; lia| apply IH; lia].
  Qed.

  Lemma pred_of_cedges : forall tree k i, k <= i -> pred_of (cedges_from k tree) i = nth (i - k) tree None.
  Proof.
    induction tree as [|x tl IH]; simpl; intros k i H.
    - destruct (i - k); reflexivity.
    - destruct (Nat.eq_dec i k) as [->|Hne].
      + rewrite Nat.sub_diag. destruct x; simpl; [now rewrite Nat.eqb_refl| apply cedges_none_below; lia].
      + replace (i - k) with (S (i - S k)) by lia. destruct x; simpl.
        * replace (Nat.eqb k i) with false by (symmetry; apply Nat.eqb_neq; lia). apply IH; lia.
        * apply IH; lia.
  Qed.

  Lemma map_nth_seq {A} (l : list A) d : forall k, map (fun i => nth (i - k) l d) (seq k (length l)) = l.
  Proof.
    induction l as [|a tl IH]; simpl; intros k; [reflexivity|]. rewrite Nat.sub_diag. f_equal.
    rewrite <- (IH (S k)) at 2. apply map_ext_in. intros i Hi. apply in_seq in Hi.
    replace (i - k) with (S (i - S k)) by lia. reflexivity.
  Qed.

  Lemma cedges_length : forall tree k, length (cedges_from k tree) + count_none tree = length tree.
  Proof. induction tree as [|[p|] tl IH]; simpl; intros k; auto; rewrite <- (IH (S k)); lia. Qed.

  Lemma cnodes_ids : forall sc (ps : list (jval T)) k, length sc = length ps ->
      map fst (cnodes_from T rnd k sc ps) = seq k (length sc).
  Proof.
    induction sc as [|s tl IH]; intros [|p ps] k H; simpl in *; try discriminate; auto.
    f_equal. apply IH. lia.
  Qed.

  Lemma cnodes_lookup : forall sc (ps : list (jval T)) k i, length sc = length ps -> k <= i -> i < k + length sc ->
      lookup_key Nat.eqb (cnodes_from T rnd k sc ps) i
      = Some (nth (i - k) sc 0, round_val T rnd (nth (i - k) ps JNull)).
  Proof.
    induction sc as [|s tl IH]; intros [|p ps] k i H Hk Hi; simpl in *; try discriminate; try lia.
    destruct (Nat.eq_dec i k) as [->|Hne].
    - now rewrite Nat.eqb_refl, Nat.sub_diag.
    - replace (Nat.eqb k i) with false by (symmetry; apply Nat.eqb_neq; lia).
      replace (i - k) with (S (i - S k)) by lia. apply IH; lia.
  Qed.

  Lemma jnodupb_seq : forall n k, jnodupb (seq k n) = true.
  Proof.
    induction n as [|n IH]; simpl; intros k; auto. rewrite IH, andb_true_r. apply negb_true_iff.
    apply not_true_is_false. rewrite existsb_exists. intros [x [Hx E]]. apply in_seq in Hx.
    apply Nat.eqb_eq in E. lia.
  Qed.

  Theorem clt_roundtrip (c : cltj T) :
    length (cj_scope c) = length (cj_tree c) -> length (cj_params c) = length (cj_tree c) ->
    count_none (cj_tree c) = 1 ->                                    (* one root *)
    forallb (reaches_root (cj_tree c) (length (cj_tree c))) (seq 0 (length (cj_tree c))) = true ->  (* a tree *)
    clt_ok (cj_scope c) (cj_tree c) (map (round_val T rnd) (cj_params c)) = true ->  (* guards on ROUNDED CPTs *)
    graph_to_clt T clt_ok (clt_to_graph T rnd c) = OK (cexpected T rnd c).
  Proof.
    destruct c as [sc tree ps]. simpl. intros Hsc Hps Hroot Hreach Hok.
    assert (Hsp : length sc = length ps) by lia.
    unfold graph_to_clt, clt_to_graph. simpl cnodes. simpl cedges.
    assert (Hids : map fst (cnodes_from T rnd 0 sc ps) = seq 0 (length sc)) by (apply cnodes_ids; exact Hsp).
    assert (Hn : length (cnodes_from T rnd 0 sc ps) = length tree).
    { rewrite <- (map_length fst), Hids, seq_length. exact Hsc. }
    rewrite Hn, Hids, Hsc.
    replace (forallb (fun i => has_id (seq 0 (length tree)) i) (seq 0 (length tree))) with true
      by (symmetry; apply forallb_forall; intros i Hi; now apply has_id_in).
    rewrite jnodupb_seq. simpl negb. cbv iota.
    assert (Htree : map (pred_of (cedges_from 0 tree)) (seq 0 (length tree)) = tree).
    { rewrite <- (map_nth_seq tree None 0) at 3. apply map_ext_in. intros i Hi. apply pred_of_cedges. lia. }
    rewrite Htree.
    assert (Harb : arb_ok tree (length (cedges_from 0 tree)) = true).
    { unfold arb_ok. pose proof (cedges_length tree 0) as Hl. rewrite Hroot in *.
      rewrite Hreach, andb_true_r. rewrite andb_true_iff, !Nat.eqb_eq. split; [reflexivity| lia]. }
    rewrite Harb. simpl negb. cbv iota.
    assert (Hscope : map (fun i => match lookup_key Nat.eqb (cnodes_from T rnd 0 sc ps) i with
                                   | Some a => fst a | None => 0 end) (seq 0 (length tree)) = sc).
    { transitivity (map (fun i => nth (i - 0) sc 0) (seq 0 (length sc))).
      - rewrite Hsc. apply map_ext_in. intros i Hi. apply in_seq in Hi.
        rewrite cnodes_lookup by lia. reflexivity.
      - now rewrite map_nth_seq. }
    assert (Hparams : map (fun i => match lookup_key Nat.eqb (cnodes_from T rnd 0 sc ps) i with
                                    | Some a => snd a | None => JNull end) (seq 0 (length tree))
                      = map (round_val T rnd) ps).
    { transitivity (map (round_val T rnd) (map (fun i => nth (i - 0) ps JNull) (seq 0 (length ps)))).
      - rewrite map_map, Hps. apply map_ext_in. intros i Hi.
        apply in_seq in Hi. rewrite cnodes_lookup by lia. reflexivity.
      - now rewrite map_nth_seq. }
    rewrite Hscope, Hparams, Hok. reflexivity.
  Qed.
End JsonFacts.
