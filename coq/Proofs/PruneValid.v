(* Proofs/PruneValid.v — C09: the table rebuilt by prune is again a VALID circuit (children first, every sum
   smooth, every product decomposable, leaves unchanged) and every old node is mapped to a node with the same
   scope; in particular the root scope is preserved. *)
From Coq Require Import List Arith ZArith Lia Bool.
From DV Require Import Model.Core Model.Prune Proofs.CoreFacts Proofs.PruneFacts.
Import ListNotations.

Section PruneValid.
  Variable T : Type.
  Variables (t0 t1 : T) (tadd tmul : T -> T -> T).
  Variable dom : nat -> list Z.
  Variable leaf : Type.
  Variable leaf_val : leaf -> row -> T.
  Notation node := (node T leaf).
  Notation table := (table T leaf).
  Notation dnode := (dummy_node T leaf).
  Notation scope_of := (scope_of T leaf).
  Notation valid := (valid T t0 tadd dom leaf leaf_val).
  Notation node_ok := (node_ok T t0 tadd dom leaf leaf_val).
  Notation prune_step := (prune_step T tadd tmul leaf).
  Notation prune_state := (prune_state T tadd tmul leaf).
  Notation expand_sum := (expand_sum T tmul leaf).
  Notation expand_prod := (expand_prod T leaf).
  Notation merge_all := (merge_all T tadd).

  Definition sdisj (t : table) (a b : nat) : Prop := forall v, In v (scope_of t a) -> ~ In v (scope_of t b).

  (* node_ok read at an index of a valid table *)
  Definition ok_at (t : table) (j : nat) : Prop :=
    let n := nth j t dnode in
    Forall (fun k => k < j) (nkids n) /\
    match nkind n with
    | KLeaf l => leaf_local T leaf leaf_val l (nscope n) /\ leaf_marg T t0 tadd dom leaf leaf_val l (nscope n)
    | KSum ws => length ws = length (nkids n) /\ Forall (fun k => seteq (scope_of t k) (nscope n)) (nkids n)
    | KProd => (forall v, In v (nscope n) <-> exists k, In k (nkids n) /\ In v (scope_of t k)) /\
               (forall i j', i < j' < length (nkids n) -> sdisj t (nth i (nkids n) 0) (nth j' (nkids n) 0))
    end.

  Lemma Forall_lt_nth (ks : list nat) b i : Forall (fun k => k < b) ks -> i < length ks -> nth i ks 0 < b.
  Proof. intros H Hi. rewrite Forall_forall in H. apply H, nth_In, Hi. Qed.

  Lemma valid_ok_at t : valid t -> forall j, j < length t -> ok_at t j.
  Proof.
    induction 1 as [|t n Hv IH Hok]; intros j Hj; [cbn in Hj; lia|].
    rewrite app_length in Hj. cbn in Hj. unfold ok_at.
    destruct (Nat.eq_dec j (length t)) as [->|Hne].
    - rewrite app_nth2, Nat.sub_diag by lia. cbn [nth]. destruct Hok as [Hk Hok]. split; [exact Hk|].
      pose proof Hk as Hk'. rewrite Forall_forall in Hk'.
      destruct (nkind n) as [l|ws|]; [exact Hok| |].
      + destruct Hok as [Hl Hs]. split; [exact Hl|]. rewrite Forall_forall in *. intros k Hin.
        rewrite (scope_of_prefix T leaf) by (now apply Hk'). now apply Hs.
      + destruct Hok as [Hu Hd]. split.
        * intros v. rewrite Hu. split; intros [k [Hin Hv']]; exists k; (split; [exact Hin|]);
            [rewrite (scope_of_prefix T leaf) by (now apply Hk') | rewrite (scope_of_prefix T leaf) in Hv' by (now apply Hk')]; exact Hv'.
        * intros i j' Hij v. rewrite !(scope_of_prefix T leaf) by (apply (Forall_lt_nth _ _ _ Hk); lia). now apply Hd.
    - assert (Hj' : j < length t) by lia. specialize (IH j Hj'). unfold ok_at in IH. rewrite app_nth1 by exact Hj'.
      destruct IH as [Hk IH]. split; [exact Hk|]. pose proof Hk as Hk'. rewrite Forall_forall in Hk'.
      destruct (nkind (nth j t dnode)) as [l|ws|]; [exact IH| |].
      + destruct IH as [Hl Hs]. split; [exact Hl|]. rewrite Forall_forall in *. intros k Hin.
        rewrite (scope_of_prefix T leaf) by (specialize (Hk' k Hin); lia). now apply Hs.
      + destruct IH as [Hu Hd]. split.
        * intros v. rewrite Hu. split; intros [k [Hin Hv']]; exists k; (split; [exact Hin|]);
            [rewrite (scope_of_prefix T leaf) by (specialize (Hk' k Hin); lia) | rewrite (scope_of_prefix T leaf) in Hv' by (specialize (Hk' k Hin); lia)]; exact Hv'.
        * intros i j2 Hij v. rewrite !(scope_of_prefix T leaf) by (pose proof (Forall_lt_nth _ _ i Hk ltac:(lia)); pose proof (Forall_lt_nth _ _ j2 Hk ltac:(lia)); lia). now apply Hd.
  Qed.

  (* positional pairwise relation <-> ForallOrdPairs *)
  Lemma pos_to_ord (R : nat -> nat -> Prop) ks : (forall i j, i < j < length ks -> R (nth i ks 0) (nth j ks 0)) -> ForallOrdPairs R ks.
  Proof.
    induction ks as [|k ks IH]; intros H; constructor.
    - rewrite Forall_forall. intros k' Hk'. destruct (In_nth _ _ 0 Hk') as [q [Hq <-]]. apply (H 0 (S q)). cbn. lia.
    - apply IH. intros i j Hij. apply (H (S i) (S j)). cbn. lia.
  Qed.
  Lemma ord_to_pos (R : nat -> nat -> Prop) ks : ForallOrdPairs R ks -> forall i j, i < j < length ks -> R (nth i ks 0) (nth j ks 0).
  Proof.
    induction 1 as [|k ks Hk Hks IH]; intros i j Hij; [cbn in Hij; lia|].
    destruct j as [|j]; [lia|]. destruct i as [|i].
    - cbn [nth]. rewrite Forall_forall in Hk. apply Hk, nth_In. cbn in Hij. lia.
    - cbn [nth]. apply IH. cbn in Hij. lia.
  Qed.
  Lemma ord_map (R R' : nat -> nat -> Prop) (f : nat -> nat) ks :
    (forall a b, In a ks -> In b ks -> R a b -> R' (f a) (f b)) -> ForallOrdPairs R ks -> ForallOrdPairs R' (map f ks).
  Proof.
    intros Hf H. revert Hf. induction H as [|k ks Hk Hks IH]; intros Hf; cbn; constructor.
    - rewrite Forall_map, Forall_forall in *. intros b Hb. apply Hf; [now left | now right | now apply Hk].
    - apply IH. intros a b Ha Hb. apply Hf; now right.
  Qed.
  Lemma ord_app (R : nat -> nat -> Prop) l1 l2 : ForallOrdPairs R l1 -> ForallOrdPairs R l2 ->
    (forall a b, In a l1 -> In b l2 -> R a b) -> ForallOrdPairs R (l1 ++ l2).
  Proof.
    induction 1 as [|k l1 Hk Hl1 IH]; intros H2 Hx; [exact H2|]. cbn. constructor.
    - rewrite Forall_forall in *. intros b Hb. apply in_app_or in Hb. destruct Hb as [Hb|Hb]; [now apply Hk | apply Hx; [now left | exact Hb]].
    - apply IH; [exact H2|]. intros a b Ha Hb. apply Hx; [now right | exact Hb].
  Qed.
  Lemma ord_flat_map (R : nat -> nat -> Prop) (f : nat -> list nat) ks :
    ForallOrdPairs R ks -> (forall k, In k ks -> ForallOrdPairs R (f k)) ->
    (forall a b a' b', In a ks -> In b ks -> R a b -> In a' (f a) -> In b' (f b) -> R a' b') ->
    ForallOrdPairs R (flat_map f ks).
  Proof.
    induction 1 as [|k ks Hk Hks IH]; intros Hin Hsub; cbn; [constructor|].
    apply ord_app.
    - apply Hin. now left.
    - apply IH; [intros; apply Hin; now right | intros a b a' b' Ha Hb; apply Hsub; now right].
    - intros a' b' Ha' Hb'. apply in_flat_map in Hb'. destruct Hb' as [b [Hb Hb']].
      rewrite Forall_forall in Hk. apply (Hsub k b); [now left | now right | now apply Hk | exact Ha' | exact Hb'].
  Qed.

  Record VInv (t : table) (st : pstate T leaf) : Prop := {
    v_valid : valid (fst st);
    v_len : length (snd st) = length t;
    v_range : forall i, i < length t -> nth i (snd st) 0 < length (fst st);
    v_scope : forall i, i < length t -> seteq (scope_of (fst st) (nth i (snd st) 0)) (scope_of t i) }.

  Lemma vinv_init : VInv [] ([], []).
  Proof. constructor; cbn; [constructor | reflexivity | intros; lia | intros; lia]. Qed.

  (* extending the map by an existing node of the right scope *)
  Lemma vinv_alias t new m n k : VInv t (new, m) -> k < length new -> seteq (scope_of new k) (nscope n) ->
      VInv (t ++ [n]) (new, m ++ [k]).
  Proof.
    intros [Hv Hl Hr Hs] Hk Hsc. cbn [fst snd] in *. constructor; cbn [fst snd].
    - exact Hv.
    - rewrite !app_length, Hl. reflexivity.
    - intros i Hi. rewrite app_length in Hi. cbn in Hi. destruct (Nat.eq_dec i (length t)) as [->|Hne].
      + rewrite <- Hl, app_nth2, Nat.sub_diag by lia. exact Hk.
      + rewrite app_nth1 by lia. apply Hr. lia.
    - intros i Hi. rewrite app_length in Hi. cbn in Hi. destruct (Nat.eq_dec i (length t)) as [->|Hne].
      + rewrite <- Hl at 1. rewrite app_nth2, Nat.sub_diag by lia. cbn [nth]. rewrite (scope_of_last T leaf). exact Hsc.
      + rewrite app_nth1 by lia. rewrite (scope_of_prefix T leaf) by lia. apply Hs. lia.
  Qed.

  (* appending a fresh node that is ok over the rebuilt table and carries the old node's scope *)
  Lemma vinv_fresh t new m n x : VInv t (new, m) -> node_ok new x -> nscope x = nscope n ->
      VInv (t ++ [n]) (new ++ [x], m ++ [length new]).
  Proof.
    intros [Hv Hl Hr Hs] Hok Hsc. cbn [fst snd] in *. constructor; cbn [fst snd].
    - now constructor.
    - rewrite !app_length, Hl. reflexivity.
    - intros i Hi. rewrite !app_length in *. cbn in *. destruct (Nat.eq_dec i (length t)) as [->|Hne].
      + rewrite <- Hl, app_nth2, Nat.sub_diag by lia. cbn. lia.
      + rewrite app_nth1 by lia. specialize (Hr i ltac:(lia)). lia.
    - intros i Hi. rewrite app_length in Hi. cbn in Hi. destruct (Nat.eq_dec i (length t)) as [->|Hne].
      + rewrite <- Hl at 1. rewrite app_nth2, Nat.sub_diag by lia. cbn [nth]. rewrite !(scope_of_last T leaf), Hsc. intro; reflexivity.
      + rewrite app_nth1 by lia. rewrite !(scope_of_prefix T leaf) by (try lia; apply Hr; lia). apply Hs. lia.
  Qed.

  Section Step.
    Variables (t new : table) (m : list nat) (n : node).
    Hypothesis Hinv : VInv t (new, m).
    Hypothesis Hok : node_ok t n.
    Let ks := map (fun k => nth k m 0) (nkids n).

    Lemma kid_lt c : In c (nkids n) -> c < length t.
    Proof. destruct Hok as [Hk _]. rewrite Forall_forall in Hk. apply Hk. Qed.
    Lemma kid_new c : In c (nkids n) -> nth c m 0 < length new.
    Proof. intros Hc. apply (v_range _ _ Hinv c (kid_lt c Hc)). Qed.
    Lemma kid_scope c : In c (nkids n) -> seteq (scope_of new (nth c m 0)) (scope_of t c).
    Proof. intros Hc. apply (v_scope _ _ Hinv c (kid_lt c Hc)). Qed.
    Lemma ks_in k : In k ks -> exists c, In c (nkids n) /\ k = nth c m 0.
    Proof. unfold ks. rewrite in_map_iff. intros [c [<- Hc]]. eauto. Qed.
    Lemma ks_of c : In c (nkids n) -> In (nth c m 0) ks.
    Proof. intros Hc. unfold ks. apply (in_map (fun k => nth k m 0)). exact Hc. Qed.
    Lemma new_valid : valid new. Proof. exact (v_valid _ _ Hinv). Qed.

    (* ---- sums ---- *)
    Lemma sum_keys ws : nkind n = KSum ws -> forall k w, In (k, w) (merge_all (expand_sum new ws ks)) ->
        k < length new /\ seteq (scope_of new k) (nscope n).
    Proof.
      intros E k1 w1 Hin. destruct Hok as [_ Hok']. rewrite E in Hok'. destruct Hok' as [_ Hsm]. rewrite Forall_forall in Hsm.
      apply (merge_all_keys T tadd) in Hin. destruct Hin as [w' Hin]. unfold Prune.expand_sum in Hin.
      apply in_flat_map in Hin. destruct Hin as [[w k] [Hwk Hin]].
      apply in_combine_r in Hwk. destruct (ks_in k Hwk) as [c [Hc ->]].
      assert (Hkn := kid_new c Hc). assert (Hks := kid_scope c Hc). assert (Hcs := Hsm c Hc).
      destruct (nkind (nth (nth c m 0) new dnode)) as [l|ws'|] eqn:Ek.
      - destruct Hin as [Heq|[]]. inversion Heq; subst. split; [exact Hkn|]. intro v. rewrite (Hks v). apply Hcs.
      - apply in_combine_l in Hin. pose proof (valid_ok_at new new_valid _ Hkn) as Hat. unfold ok_at in Hat. rewrite Ek in Hat.
        destruct Hat as [Hlt [_ Hsc]]. rewrite Forall_forall in Hlt, Hsc. split; [specialize (Hlt k1 Hin); lia|].
        intro v. rewrite (Hsc k1 Hin v). change (In v (scope_of new (nth c m 0)) <-> In v (nscope n)). rewrite (Hks v). apply Hcs.
      - destruct Hin as [Heq|[]]. inversion Heq; subst. split; [exact Hkn|]. intro v. rewrite (Hks v). apply Hcs.
    Qed.

    Lemma sum_general ws : nkind n = KSum ws ->
        VInv (t ++ [n]) (let acc := merge_all (expand_sum new ws ks) in
                         match acc with
                         | [(k, _)] => (new, m ++ [k])
                         | _ => (new ++ [Build_node (KSum (map snd acc)) (nscope n) (map fst acc)], m ++ [length new])
                         end).
    Proof.
      intros E. pose proof (sum_keys ws E) as Hkeys.
      assert (Hfresh : forall acc, (forall k w, In (k, w) acc -> k < length new /\ seteq (scope_of new k) (nscope n)) ->
                 VInv (t ++ [n]) (new ++ [Build_node (KSum (map snd acc)) (nscope n) (map fst acc)], m ++ [length new])).
      { intros acc Hacc. apply vinv_fresh; [exact Hinv| |reflexivity]. split; cbn [nkids nkind nscope].
        - rewrite Forall_forall. intros k Hk. apply in_map_iff in Hk. destruct Hk as [[k' w] [<- Hin]]. apply (Hacc k' w Hin).
        - split; [now rewrite !map_length|]. rewrite Forall_forall. intros k Hk. apply in_map_iff in Hk.
          destruct Hk as [[k' w] [<- Hin]]. apply (Hacc k' w Hin). }
      cbv zeta. destruct (merge_all (expand_sum new ws ks)) as [|[k w] [|p acc']] eqn:Eacc.
      - apply Hfresh. intros k w [].
      - destruct (Hkeys k w ltac:(now left)) as [H1 H2]. now apply vinv_alias.
      - apply Hfresh. exact Hkeys.
    Qed.

    (* ---- products ---- *)
    Lemma prod_general : nkind n = KProd ->
        VInv (t ++ [n]) (new ++ [Build_node KProd (nscope n) (expand_prod new ks)], m ++ [length new]).
    Proof.
      intros E. destruct Hok as [_ Hok']. rewrite E in Hok'. destruct Hok' as [Hun Hdj].
      set (f := fun k => match nkind (nth k new dnode) with KProd => nkids (nth k new dnode) | _ => [k] end).
      assert (Hf : expand_prod new ks = flat_map f ks) by reflexivity.
      (* every expanded child lies in the table, below a mapped child, inside its scope *)
      assert (Hsub : forall k k', In k ks -> In k' (f k) -> k' < length new /\ forall v, In v (scope_of new k') -> In v (scope_of new k)).
      { intros k k' Hk Hk'. destruct (ks_in k Hk) as [c [Hc ->]]. assert (Hkn := kid_new c Hc). unfold f in Hk'.
        destruct (nkind (nth (nth c m 0) new dnode)) eqn:Ek.
        - destruct Hk' as [<-|[]]. split; [exact Hkn | auto].
        - destruct Hk' as [<-|[]]. split; [exact Hkn | auto].
        - pose proof (valid_ok_at new new_valid _ Hkn) as Hat. unfold ok_at in Hat. rewrite Ek in Hat. destruct Hat as [Hlt [Hu _]].
          rewrite Forall_forall in Hlt. split; [specialize (Hlt k' Hk'); lia|]. intros v Hv. apply Hu. eauto. }
      assert (Hcover : forall k v, In k ks -> In v (scope_of new k) -> exists k', In k' (f k) /\ In v (scope_of new k')).
      { intros k v Hk Hv. destruct (ks_in k Hk) as [c [Hc ->]]. assert (Hkn := kid_new c Hc). unfold f.
        destruct (nkind (nth (nth c m 0) new dnode)) eqn:Ek; try (eexists; split; [now left | exact Hv]).
        pose proof (valid_ok_at new new_valid _ Hkn) as Hat. unfold ok_at in Hat. rewrite Ek in Hat. destruct Hat as [_ [Hu _]].
        apply Hu in Hv. exact Hv. }
      apply vinv_fresh; [exact Hinv| |reflexivity]. split; cbn [nkids nkind nscope].
      - rewrite Hf, Forall_forall. intros k' Hk'. apply in_flat_map in Hk'. destruct Hk' as [k [Hk Hk']]. apply (Hsub k k' Hk Hk').
      - split.
        + intros v. rewrite Hun. rewrite Hf. split.
          * intros [c [Hc Hv]]. apply (kid_scope c Hc) in Hv.
            destruct (Hcover (nth c m 0) v (ks_of c Hc) Hv) as [k' [Hk' Hv']].
            exists k'. split; [|exact Hv']. apply in_flat_map. exists (nth c m 0). split; [exact (ks_of c Hc) | exact Hk'].
          * intros [k' [Hk' Hv]]. apply in_flat_map in Hk'. destruct Hk' as [k [Hk Hk']]. destruct (ks_in k Hk) as [c [Hc ->]].
            exists c. split; [exact Hc|]. apply (kid_scope c Hc). now apply (proj2 (Hsub _ k' Hk Hk')).
        + rewrite Hf. apply (ord_to_pos (sdisj new)).
          apply ord_flat_map.
          * unfold ks. apply (ord_map (sdisj t) (sdisj new)); [|apply pos_to_ord; exact Hdj].
            intros a b Ha Hb Hab v Hv Hv'. apply (kid_scope a Ha) in Hv. apply (kid_scope b Hb) in Hv'. exact (Hab v Hv Hv').
          * intros k Hk. destruct (ks_in k Hk) as [c [Hc ->]]. assert (Hkn := kid_new c Hc). unfold f.
            destruct (nkind (nth (nth c m 0) new dnode)) eqn:Ek; try (constructor; [constructor | constructor]).
            pose proof (valid_ok_at new new_valid _ Hkn) as Hat. unfold ok_at in Hat. rewrite Ek in Hat. destruct Hat as [_ [_ Hd]].
            apply pos_to_ord. exact Hd.
          * intros a b a' b' Ha Hb Hab Ha' Hb' v Hv Hv'. apply (proj2 (Hsub a a' Ha Ha')) in Hv. apply (proj2 (Hsub b b' Hb Hb')) in Hv'.
            exact (Hab v Hv Hv').
    Qed.

    Lemma ks_cases : ks = [] \/ (exists k, ks = [k]) \/ (exists k k2 l, ks = k :: k2 :: l).
    Proof. destruct ks as [|k [|k2 l]]; eauto 6. Qed.

    Theorem prune_step_valid : VInv (t ++ [n]) (prune_step (new, m) n).
    Proof.
      unfold Prune.prune_step. fold ks. destruct (nkind n) as [l|ws|] eqn:E.
      - apply vinv_fresh; [exact Hinv| |reflexivity]. split; cbn [nkids nkind nscope]; [constructor|].
        destruct Hok as [_ Hok']. rewrite E in Hok'. exact Hok'.
      - pose proof (sum_general ws E) as SG.
        destruct ks_cases as [Hc0|[[k Hc0]|[k [k2 [l0 Hc0]]]]]; rewrite Hc0 in SG |- *; try exact SG.
        assert (Hk : In k ks) by (rewrite Hc0; now left). destruct (ks_in k Hk) as [c [Hc ->]].
        apply vinv_alias; [exact Hinv | now apply kid_new|].
        destruct Hok as [_ Hok']. rewrite E in Hok'. destruct Hok' as [_ Hsm]. rewrite Forall_forall in Hsm.
        intro v. rewrite (kid_scope c Hc v). apply (Hsm c Hc).
      - pose proof (prod_general E) as PG.
        destruct ks_cases as [Hc0|[[k Hc0]|[k [k2 [l0 Hc0]]]]]; rewrite Hc0 in PG |- *; try exact PG.
        assert (Hk : In k ks) by (rewrite Hc0; now left). destruct (ks_in k Hk) as [c [Hc Hkc]].
        assert (Hone : nkids n = [c]).
        { unfold ks in Hc0. destruct (nkids n) as [|c1 [|c2 cs]]; cbn in Hc0; try discriminate. destruct Hc as [->|[]]. reflexivity. }
        subst k. apply vinv_alias; [exact Hinv | now apply kid_new|].
        destruct Hok as [_ Hok']. rewrite E in Hok'. destruct Hok' as [Hun _].
        intro v. rewrite (kid_scope c Hc v), Hun, Hone. split; [intros Hv; exists c; split; [now left | exact Hv] | intros [c' [[<-|[]] Hv]]; exact Hv].
    Qed.
  End Step.

  Theorem prune_valid t : valid t -> VInv t (prune_state t).
  Proof.
    unfold Prune.prune_state. induction 1 as [|t n Hv IH Hok]; [exact vinv_init|].
    rewrite fold_left_app. cbn [fold_left].
    destruct (fold_left prune_step t ([], [])) as [new m] eqn:Est. now apply prune_step_valid.
  Qed.

  (* C09: the pruned circuit is valid and its root has the scope of the original root *)
  Corollary prune_valid_root t : valid t -> t <> [] ->
      valid (fst (prune_state t)) /\ prune_root T tadd tmul leaf t < length (fst (prune_state t)) /\
      seteq (scope_of (fst (prune_state t)) (prune_root T tadd tmul leaf t)) (scope_of t (length t - 1)).
  Proof.
    intros Hv Hne. destruct (prune_valid t Hv) as [H1 H2 H3 H4].
    assert (Hl : length t - 1 < length t) by (destruct t; [congruence | cbn; lia]).
    split; [exact H1|]. split; [apply H3; exact Hl | apply H4; exact Hl].
  Qed.
End PruneValid.
