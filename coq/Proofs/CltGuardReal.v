(* Proofs/CltGuardReal.v — C13: the loader's BinaryCLT guard np.allclose(exp(params).sum(axis=2), 1)
   still passes after the log-parameters were perturbed by at most d <= 1e-6 each (8-decimal rounding
   is 5e-9, single-precision storage of a log-probability of magnitude < 16 is below 1e-6): for a table row
   p_1..p_k > 0 summing to one, stored as ln p_j + delta_j with |delta_j| <= d,
   1 - d <= sum_j exp(ln p_j + delta_j) <= 1 / (1 - d), hence |sum - 1| <= atol + rtol = 1.001e-5. *)
From Coq Require Import Reals Lra List.
Import ListNotations.
Open Scope R_scope.

Fixpoint rsum (l : list R) : R := match l with [] => 0 | x :: tl => x + rsum tl end.
(* the row as the loader sees it: exp of the saved log-parameters *)
Fixpoint saved_row (ps ds : list R) : list R :=
  match ps, ds with p :: ps', e :: ds' => exp (ln p + e) :: saved_row ps' ds' | _, _ => [] end.

Lemma exp_lower x : 1 + x <= exp x. Proof. apply exp_ineq1_le. Qed.
Lemma exp_upper d x : 0 <= d < 1 -> x <= d -> exp x <= / (1 - d).
Proof.
  intros Hd Hx. apply Rle_trans with (exp d).
  - destruct (Rle_lt_or_eq_dec _ _ Hx) as [H| ->]; [left; now apply exp_increasing|right; reflexivity].
  - pose proof (exp_lower (- d)) as L. rewrite exp_Ropp in L.
    assert (0 < exp d) by apply exp_pos. assert (0 < 1 - d) by lra.
    apply Rmult_le_reg_r with (1 - d); [assumption|]. rewrite Rinv_l by lra.
    apply Rmult_le_reg_l with (/ exp d); [now apply Rinv_0_lt_compat|].
    rewrite <- Rmult_assoc, Rinv_l by lra. lra.
Qed.

Lemma saved_row_bounds d : 0 <= d < 1 -> forall ps ds, length ps = length ds ->
  Forall (fun p => 0 < p) ps -> Forall (fun e => Rabs e <= d) ds ->
  (1 - d) * rsum ps <= rsum (saved_row ps ds) <= / (1 - d) * rsum ps.
Proof.
  intros Hd. induction ps as [|p ps IH]; intros [|e ds] Hl Hp He; simpl in *; try discriminate; [lra|].
  inversion Hp; inversion He; subst. injection Hl as Hl.
  destruct (IH ds Hl ltac:(assumption) ltac:(assumption)) as [L U].
  cbv beta in *. rewrite exp_plus, exp_ln by assumption.
  assert (E1 : - d <= e) by (match goal with H : Rabs e <= d |- _ => pose proof (Rle_abs (- e)); rewrite Rabs_Ropp in *; lra end).
  assert (E2 : e <= d) by (match goal with H : Rabs e <= d |- _ => pose proof (Rle_abs e); lra end).
  pose proof (exp_lower e). pose proof (exp_upper d e Hd E2).
  assert (0 < / (1 - d)) by (apply Rinv_0_lt_compat; lra).
  split.
  - apply Rle_trans with (p * (1 - d) + (1 - d) * rsum ps); [lra|].
    apply Rplus_le_compat; [apply Rmult_le_compat_l; lra|assumption].
  - apply Rle_trans with (p * / (1 - d) + / (1 - d) * rsum ps); [|lra].
    apply Rplus_le_compat; [apply Rmult_le_compat_l; lra|assumption].
Qed.

(* np.allclose(x, 1) with the default rtol = 1e-5, atol = 1e-8: |x - 1| <= atol + rtol * |1| *)
Definition allclose1 (x : R) : Prop := Rabs (x - 1) <= 1 / 100000000 + 1 / 100000 * 1.

Theorem clt_guard_after_rounding : forall d ps ds, 0 <= d <= 1 / 1000000 -> length ps = length ds ->
  Forall (fun p => 0 < p) ps -> rsum ps = 1 -> Forall (fun e => Rabs e <= d) ds ->
  allclose1 (rsum (saved_row ps ds)).
Proof.
  intros d ps ds Hd Hl Hp H1 He.
  destruct (saved_row_bounds d ltac:(lra) ps ds Hl Hp He) as [L U]. rewrite H1, Rmult_1_r in L, U.
  assert (B : / (1 - d) <= 1 + 2 * d).
  { apply Rmult_le_reg_r with (1 - d); [lra|]. rewrite Rinv_l by lra. nra. }
  unfold allclose1. apply Rabs_le. lra.
Qed.

(* non-vacuity: the row (1/4, 3/4) saved with errors +5e-9 and -5e-9 *)
Example clt_guard_example : allclose1 (rsum (saved_row [1/4; 3/4] [5/1000000000; - (5/1000000000)])).
Proof.
  apply (clt_guard_after_rounding (5/1000000000)).
  - lra.
  - reflexivity.
  - constructor; [lra|constructor; [lra|constructor]].
  - simpl; lra.
  - constructor; [apply Rabs_le; lra|constructor; [apply Rabs_le; lra|constructor]].
Qed.
