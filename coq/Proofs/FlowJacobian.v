(* Proofs/FlowJacobian.v — C15: the entries of the Jacobian of the autoregressive and coupling
   layers (model of Model/Flow.v instantiated at the reals, conditioners ARBITRARY functions that
   respect the layer's dependency structure — no differentiability of the conditioner is needed):
   entries above the (ranked) diagonal are 0, diagonal entries are exp(-s_i), and the product of
   the diagonal is exp(reported inverse-log-det-Jacobian).  Together with Proofs/DetRank.v
   (det of a rank-triangular matrix = product of its diagonal) this is the "log-det is exact" step. *)
From Coq Require Import Reals Lra List Arith Lia.
From Coquelicot Require Import Coquelicot.
From DV Require Import Model.Flow Proofs.FlowFacts Proofs.FlowReal.
Import ListNotations.
Open Scope R_scope.

Notation "x @ i" := (nth i x 0) (at level 9, i at next level).
Definition Rar_bwd := ar_bwd R 0 Rplus Rmult Rminus Ropp exp.
Definition Rcoupling_bwd := coupling_bwd R 0 Rplus Rmult Rminus Ropp exp.
Definition Rupd := upd R.

(* the partial function h |-> coordinate i of f(x with coordinate j replaced by h) *)
Definition partial (f : list R -> list R) (x : list R) (i j : nat) (h : R) : R := (f (Rupd x j h))@i.

Lemma Rupd_same x j : (j < length x)%nat -> Rupd x j x@j = x.
Proof.
  revert j; induction x as [|a x IH]; intros [|j] H; simpl in *; try lia; [reflexivity|].
  f_equal. apply IH. lia.
Qed.

Lemma Rvnth n (f : nat -> R) i : (i < n)%nat -> (vec R n f)@i = f i.
Proof. apply vec_nth. Qed.

Lemma prod_exp n (s : nat -> R) :
  fold_right Rmult 1 (vec R n (fun i => exp (- s i))) = exp (- vsum R 0 Rplus (vec R n s)).
Proof.
  unfold vec, vsum. induction (seq 0 n) as [|k l IH]; simpl.
  - now rewrite Ropp_0, exp_0.
  - rewrite IH, <- exp_plus. f_equal. lra.
Qed.

Section AR.
  Variable n : nat.
  Variable deg : nat -> nat.
  Variable cond : condT R.
  (* the conditioner is autoregressive: its outputs for coordinate i depend only on inputs of lower degree *)
  Hypothesis Hcond : forall x x' i, length x = n -> length x' = n -> (i < n)%nat ->
    (forall j, (j < n)%nat -> (deg j < deg i)%nat -> x@j = x'@j) ->
    (fst (cond x))@i = (fst (cond x'))@i /\ (snd (cond x))@i = (snd (cond x'))@i.

  Definition ar_map (x : list R) : list R := fst (Rar_bwd n cond x).

  Lemma ar_coord x i : length x = n -> (i < n)%nat ->
    (ar_map x)@i = (x@i - (fst (cond x))@i) * exp (- (snd (cond x))@i).
  Proof.
    intros Hx Hi. unfold ar_map, Rar_bwd, ar_bwd. destruct (cond x) as [t s]. simpl. now rewrite Rvnth.
  Qed.

  (* entries whose column has a larger degree than the row: the coordinate does not depend on x_j *)
  Theorem ar_jacobian_upper x i j : length x = n -> (i < n)%nat -> (j < n)%nat -> (deg i < deg j)%nat ->
    is_derive (partial ar_map x i j) x@j 0.
  Proof.
    intros Hx Hi Hj Hd.
    apply (is_derive_ext (fun _ => (ar_map x)@i)); [|apply @is_derive_const].
    intro h. unfold partial.
    assert (L : length (Rupd x j h) = n) by (unfold Rupd; now rewrite upd_length).
    assert (A : forall k, (k < n)%nat -> (deg k <= deg i)%nat -> x@k = (Rupd x j h)@k).
    { intros k Hk Hdk. unfold Rupd. rewrite upd_nth_neq; [reflexivity|intros ->; lia]. }
    rewrite !ar_coord by auto.
    destruct (Hcond x (Rupd x j h) i Hx L Hi) as [-> ->]; [intros; apply A; auto; lia|].
    now rewrite (A i Hi ltac:(lia)).
  Qed.

  (* diagonal entries: exp(-s_i), whatever the conditioner is *)
  Theorem ar_jacobian_diag x i : length x = n -> (i < n)%nat ->
    is_derive (partial ar_map x i i) x@i (exp (- (snd (cond x))@i)).
  Proof.
    intros Hx Hi.
    apply (is_derive_ext (fun h => (h - (fst (cond x))@i) * exp (- (snd (cond x))@i))); [|apply affine_bwd_derive].
    intro h. unfold partial.
    assert (L : length (Rupd x i h) = n) by (unfold Rupd; now rewrite upd_length).
    rewrite ar_coord by auto.
    destruct (Hcond x (Rupd x i h) i Hx L Hi) as [<- <-].
    { intros k Hk Hdk. unfold Rupd. rewrite upd_nth_neq; [reflexivity|intros ->; lia]. }
    unfold Rupd. rewrite upd_nth_eq by lia. reflexivity.
  Qed.

  (* the product of the diagonal is exp(reported inverse log-det-Jacobian) *)
  Theorem ar_diag_product x :
    fold_right Rmult 1 (vec R n (fun i => exp (- (snd (cond x))@i))) = exp (snd (Rar_bwd n cond x)).
  Proof.
    unfold Rar_bwd, ar_bwd. destruct (cond x) as [t s]. simpl. apply (prod_exp n (fun i => s@i)).
  Qed.
End AR.

Section Coupling.
  Variable n : nat.
  Variable mask : nat -> bool.                (* true = passed through (and fed to the conditioner) *)
  Variable cond : condT R.
  Let maskv : list R := vec R n (fun i => if mask i then 1 else 0).
  Let imaskv : list R := vec R n (fun i => if mask i then 0 else 1).

  Definition cp_map (x : list R) : list R := fst (Rcoupling_bwd true n maskv imaskv cond x).

  Lemma cp_in_indep x j h : length x = n -> (j < n)%nat -> mask j = false ->
    coupling_in R 0 Rmult n maskv (Rupd x j h) = coupling_in R 0 Rmult n maskv x.
  Proof.
    intros Hx Hj Hm. unfold coupling_in, vec. apply map_ext_in. intros k Hk. apply in_seq in Hk.
    destruct (Nat.eq_dec k j) as [->|Hne].
    - unfold maskv. rewrite Rvnth by lia. rewrite Hm. lra.
    - unfold Rupd. rewrite upd_nth_neq by auto. reflexivity.
  Qed.

  Lemma cp_coord x i : (i < n)%nat ->
    (cp_map x)@i = (x@i - imaskv@i * (fst (cond (coupling_in R 0 Rmult n maskv x)))@i) *
                   exp (- (imaskv@i * (snd (cond (coupling_in R 0 Rmult n maskv x)))@i)).
  Proof.
    intros Hi. unfold cp_map, Rcoupling_bwd, coupling_bwd.
    destruct (cond (coupling_in R 0 Rmult n maskv x)) as [t s]. simpl. now rewrite Rvnth.
  Qed.

  (* off-diagonal entries vanish unless the row is transformed and the column is passed through *)
  Theorem cp_jacobian_zero x i j : length x = n -> (i < n)%nat -> (j < n)%nat -> i <> j ->
    (mask i = true \/ mask j = false) -> is_derive (partial cp_map x i j) x@j 0.
  Proof.
    intros Hx Hi Hj Hij Hm.
    apply (is_derive_ext (fun _ => (cp_map x)@i)); [|apply @is_derive_const].
    intro h. unfold partial. rewrite !cp_coord by auto.
    unfold Rupd at 1. rewrite upd_nth_neq by auto.
    destruct (mask j) eqn:Mj.
    - destruct Hm as [Mi|]; [|discriminate]. unfold imaskv. rewrite !Rvnth by auto. rewrite Mi. f_equal; [|f_equal]; lra.
    - now rewrite cp_in_indep.
  Qed.

  Theorem cp_jacobian_diag x i : length x = n -> (i < n)%nat ->
    is_derive (partial cp_map x i i) x@i
              (exp (- (imaskv@i * (snd (cond (coupling_in R 0 Rmult n maskv x)))@i))).
  Proof.
    intros Hx Hi. destruct (mask i) eqn:Mi.
    - (* passed through: u_i = x_i *)
      apply (is_derive_ext (fun h => h)).
      + intro h. unfold partial. rewrite cp_coord by auto. unfold Rupd at 1. rewrite upd_nth_eq by lia.
        unfold imaskv. rewrite !Rvnth by auto. rewrite Mi. rewrite !Rmult_0_l, Ropp_0, exp_0. lra.
      + unfold imaskv. rewrite Rvnth by auto. rewrite Mi, Rmult_0_l, Ropp_0, exp_0. apply @is_derive_id.
    - apply (is_derive_ext (fun h => (h - imaskv@i * (fst (cond (coupling_in R 0 Rmult n maskv x)))@i) *
                                     exp (- (imaskv@i * (snd (cond (coupling_in R 0 Rmult n maskv x)))@i)))); [|apply affine_bwd_derive].
      intro h. unfold partial. rewrite cp_coord by auto. rewrite cp_in_indep by auto.
      unfold Rupd. rewrite upd_nth_eq by lia. reflexivity.
  Qed.

  Theorem cp_diag_product x :
    fold_right Rmult 1 (vec R n (fun i => exp (- (imaskv@i * (snd (cond (coupling_in R 0 Rmult n maskv x)))@i)))) =
    exp (snd (Rcoupling_bwd true n maskv imaskv cond x)).
  Proof.
    unfold Rcoupling_bwd, coupling_bwd. destruct (cond (coupling_in R 0 Rmult n maskv x)) as [t s]. simpl.
    apply (prod_exp n (fun i => imaskv@i * s@i)).
  Qed.
End Coupling.

(* ---- batch normalisation in evaluation mode: an element-wise map, so the Jacobian is diagonal ---- *)
Definition Rbn_bwd := bn_bwd R 0 1 Rplus Rmult Rminus Rdiv exp ln sqrt.

Lemma prod_exp_gen n (s : nat -> R) :
  fold_right Rmult 1 (vec R n (fun i => exp (s i))) = exp (vsum R 0 Rplus (vec R n s)).
Proof.
  unfold vec, vsum. induction (seq 0 n) as [|k l IH]; simpl.
  - now rewrite exp_0.
  - rewrite IH, <- exp_plus. reflexivity.
Qed.

Section BN.
  Variable n : nat.
  Variables (eps : R) (w b rvar rmean : list R).
  Hypothesis Hvar : forall i, (i < n)%nat -> 0 < rvar@i + eps.

  Definition bn_map (x : list R) : list R := fst (Rbn_bwd n eps w b rvar rmean x).

  Lemma bn_coord x i : (i < n)%nat ->
    (bn_map x)@i = (x@i - rmean@i) / sqrt (rvar@i + eps) * exp w@i + b@i.
  Proof. intros Hi. unfold bn_map, Rbn_bwd, bn_bwd. simpl. now rewrite Rvnth. Qed.

  Theorem bn_jacobian_offdiag x i j : length x = n -> (i < n)%nat -> (j < n)%nat -> i <> j ->
    is_derive (partial bn_map x i j) x@j 0.
  Proof.
    intros Hx Hi Hj Hij.
    apply (is_derive_ext (fun _ => (bn_map x)@i)); [|apply @is_derive_const].
    intro h. unfold partial. rewrite !bn_coord by auto. unfold Rupd. rewrite upd_nth_neq by auto. reflexivity.
  Qed.

  Theorem bn_jacobian_diag x i : length x = n -> (i < n)%nat ->
    is_derive (partial bn_map x i i) x@i (exp (w@i - 1 / (1 + 1) * ln (rvar@i + eps))).
  Proof.
    intros Hx Hi.
    apply (is_derive_ext (fun h => (h - rmean@i) / sqrt (rvar@i + eps) * exp w@i + b@i)); [|apply bn_bwd_derive; auto].
    intro h. unfold partial. rewrite bn_coord by auto. unfold Rupd. rewrite upd_nth_eq by lia. reflexivity.
  Qed.

  Theorem bn_diag_product x :
    fold_right Rmult 1 (vec R n (fun i => exp (w@i - 1 / (1 + 1) * ln (rvar@i + eps)))) = exp (snd (Rbn_bwd n eps w b rvar rmean x)).
  Proof. unfold Rbn_bwd, bn_bwd. simpl. apply (prod_exp_gen n (fun i => w@i - 1 / (1 + 1) * ln (rvar@i + eps))). Qed.
End BN.

(* ---- logit preprocessing: element-wise, alpha in (0, 1/2), data in [0, 1] ---- *)
Definition Rlogit_bwd := logit_bwd R 0 1 Rplus Rmult Rminus Ropp ln.
Definition Rlogit_ldjc := logit_ldjc R 0 1 Rplus Rmult Rminus Ropp ln.

Lemma ildj_sum_list a (xs : nat -> R) l :
  vsum R 0 Rplus (map (fun i => Rlogit_ildj1 a (xs i)) l) =
  - (vsum R 0 Rplus (map (fun i => Rlogit_v1 a (xs i)) l) + - (ofnat R 0 1 Rplus (length l) * ln (1 - (1 + 1) * a))).
Proof.
  unfold vsum. induction l as [|k l IH]; simpl.
  - lra.
  - rewrite IH. unfold Rlogit_ildj1, logit_ildj1, Rlogit_v1, two. lra.
Qed.

Section Logit.
  Variable n : nat.
  Variable a : R.
  Hypothesis Ha : 0 < a < 1 / 2.

  Definition logit_map (x : list R) : list R := fst (Rlogit_bwd n a (Rlogit_ldjc n a) x).

  Lemma logit_coord x i : (i < n)%nat -> (logit_map x)@i = Rlogit_bwd1 a x@i.
  Proof. intros Hi. unfold logit_map, Rlogit_bwd, logit_bwd. simpl. now rewrite Rvnth. Qed.

  Theorem logit_jacobian_offdiag x i j : length x = n -> (i < n)%nat -> (j < n)%nat -> i <> j ->
    is_derive (partial logit_map x i j) x@j 0.
  Proof.
    intros Hx Hi Hj Hij.
    apply (is_derive_ext (fun _ => (logit_map x)@i)); [|apply @is_derive_const].
    intro h. unfold partial. rewrite !logit_coord by auto. unfold Rupd. rewrite upd_nth_neq by auto. reflexivity.
  Qed.

  Theorem logit_jacobian_diag x i : length x = n -> (i < n)%nat -> 0 <= x@i <= 1 ->
    is_derive (partial logit_map x i i) x@i (exp (Rlogit_ildj1 a x@i)).
  Proof.
    intros Hx Hi Hr.
    apply (is_derive_ext (fun h => Rlogit_bwd1 a h)); [|now apply logit_bwd_derive].
    intro h. unfold partial. rewrite logit_coord by auto. unfold Rupd. rewrite upd_nth_eq by lia. reflexivity.
  Qed.

  Theorem logit_diag_product x :
    fold_right Rmult 1 (vec R n (fun i => exp (Rlogit_ildj1 a x@i))) = exp (snd (Rlogit_bwd n a (Rlogit_ldjc n a) x)).
  Proof.
    rewrite (prod_exp_gen n (fun i => Rlogit_ildj1 a x@i)). f_equal.
    unfold vec. rewrite (ildj_sum_list a (fun i => x@i)). rewrite seq_length.
    unfold Rlogit_bwd, logit_bwd, Rlogit_ldjc, logit_ldjc, vec, two. simpl. unfold Rlogit_v1. lra.
  Qed.
End Logit.

(* ---- additive coupling (affine = false): u_i = x_i - imask_i * t_i(mask * x), reported log-det 0 ---- *)
Section CouplingAdd.
  Variable n : nat.
  Variable mask : nat -> bool.
  Variable cond : condT R.
  Let maskv : list R := vec R n (fun i => if mask i then 1 else 0).
  Let imaskv : list R := vec R n (fun i => if mask i then 0 else 1).

  Definition cpa_map (x : list R) : list R := fst (Rcoupling_bwd false n maskv imaskv cond x).

  Lemma cpa_coord x i : (i < n)%nat ->
    (cpa_map x)@i = x@i - imaskv@i * (fst (cond (coupling_in R 0 Rmult n maskv x)))@i.
  Proof.
    intros Hi. unfold cpa_map, Rcoupling_bwd, coupling_bwd.
    destruct (cond (coupling_in R 0 Rmult n maskv x)) as [t s]. simpl. now rewrite Rvnth.
  Qed.

  Theorem cpa_jacobian_zero x i j : length x = n -> (i < n)%nat -> (j < n)%nat -> i <> j ->
    (mask i = true \/ mask j = false) -> is_derive (partial cpa_map x i j) x@j 0.
  Proof.
    intros Hx Hi Hj Hij Hm.
    apply (is_derive_ext (fun _ => (cpa_map x)@i)); [|apply @is_derive_const].
    intro h. unfold partial. rewrite !cpa_coord by auto.
    unfold Rupd at 1. rewrite upd_nth_neq by auto.
    destruct (mask j) eqn:Mj.
    - destruct Hm as [Mi|]; [|discriminate]. unfold imaskv. rewrite !Rvnth by auto. rewrite Mi. lra.
    - unfold maskv. now rewrite (cp_in_indep n mask x j h Hx Hj Mj).
  Qed.

  Theorem cpa_jacobian_diag x i : length x = n -> (i < n)%nat -> is_derive (partial cpa_map x i i) x@i 1.
  Proof.
    intros Hx Hi. destruct (mask i) eqn:Mi.
    - apply (is_derive_ext (fun h => h)); [|apply @is_derive_id].
      intro h. unfold partial. rewrite cpa_coord by auto. unfold Rupd at 1. rewrite upd_nth_eq by lia.
      unfold imaskv. rewrite !Rvnth by auto. rewrite Mi. lra.
    - apply (is_derive_ext (fun h => h - imaskv@i * (fst (cond (coupling_in R 0 Rmult n maskv x)))@i)).
      + intro h. unfold partial. rewrite cpa_coord by auto. unfold maskv. rewrite (cp_in_indep n mask x i h Hx Hi Mi).
        unfold Rupd. rewrite upd_nth_eq by lia. reflexivity.
      + auto_derive; [exact I|lra].
  Qed.

  Lemma cpa_ldj x : snd (Rcoupling_bwd false n maskv imaskv cond x) = 0.
  Proof. unfold Rcoupling_bwd, coupling_bwd. destruct (cond (coupling_in R 0 Rmult n maskv x)). reflexivity. Qed.
End CouplingAdd.
