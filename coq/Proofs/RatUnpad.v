(* Proofs/RatUnpad.v — C16: un-padding / re-ordering of the selected leaf samples for ANY valid
   argsort, completion keeps evidence, top-down group indices. *)
From Coq Require Import List Arith ZArith Lia Bool Permutation Sorted.
From DV Require Import Model.Rat Proofs.RatRegion.
Import ListNotations.
Local Opaque Nat.div Nat.modulo.

(* ---------- generic list facts ---------- *)
Lemma filter_map_comm {A B} (f : B -> bool) (g : A -> B) l :
  filter f (map g l) = map g (filter (fun a => f (g a)) l).
Proof. induction l as [|a l IH]; cbn; [reflexivity|]. destruct (f (g a)); cbn; now rewrite IH. Qed.

Lemma perm_filter {A} (f : A -> bool) l l' : Permutation l l' -> Permutation (filter f l) (filter f l').
Proof.
  induction 1; cbn; try reflexivity.
  - destruct (f x); auto.
  - destruct (f x), (f y); auto. apply perm_swap.
  - etransitivity; eauto.
Qed.

Lemma filter_all {A} (f : A -> bool) l : Forall (fun a => f a = true) l -> filter f l = l.
Proof. induction 1; cbn; [reflexivity|]. now rewrite H, IHForall. Qed.

Lemma sorted_filter_map {A} (f : A -> nat) (g : A -> bool) l :
  StronglySorted le (map f l) -> StronglySorted le (map f (filter g l)).
Proof.
  induction l as [|a l IH]; cbn; intros H; [constructor|].
  inversion H as [|? ? Hs Hall]; subst. destruct (g a); cbn; [|now apply IH].
  constructor; [now apply IH|].
  rewrite Forall_forall in *. intros y Hy. apply Hall.
  rewrite in_map_iff in *. destruct Hy as [z [Hz Hin]]. exists z. split; [exact Hz|].
  apply filter_In in Hin. tauto.
Qed.

Lemma sorted_perm_eq l1 : forall l2, StronglySorted le l1 -> StronglySorted le l2 ->
  Permutation l1 l2 -> l1 = l2.
Proof.
  induction l1 as [|a l1 IH]; intros l2 H1 H2 Hp.
  - apply Permutation_nil in Hp. now subst.
  - destruct l2 as [|b l2]; [symmetry in Hp; apply Permutation_nil in Hp; discriminate|].
    inversion H1 as [|? ? Hs1 Ha]; subst. inversion H2 as [|? ? Hs2 Hb]; subst.
    rewrite Forall_forall in Ha, Hb.
    assert (a = b).
    { assert (Hina : In a (b :: l2)) by (eapply Permutation_in; [exact Hp | now left]).
      assert (Hinb : In b (a :: l1)) by (eapply Permutation_in; [symmetry; exact Hp | now left]).
      destruct Hina as [->|Hina]; [reflexivity|]. destruct Hinb as [->|Hinb]; [reflexivity|].
      specialize (Ha _ Hinb). specialize (Hb _ Hina). lia. }
    subst b. f_equal. apply IH; auto. now apply Permutation_cons_inv in Hp.
Qed.

Lemma seq_sorted a n : StronglySorted le (seq a n).
Proof.
  revert a. induction n as [|n IH]; intros a; cbn; constructor; [apply IH|].
  rewrite Forall_forall. intros x Hx. apply in_seq in Hx. lia.
Qed.

Lemma nth_map_lt {A B} (f : A -> B) l : forall v da db, v < length l -> nth v (map f l) db = f (nth v l da).
Proof.
  induction l as [|a l IH]; intros [|v] da db Hv; cbn in *; try lia; [reflexivity|]. apply IH. lia.
Qed.

(* ---------- keep_unflagged ---------- *)
Lemma keep_gather {A} (d : A) x pm inv :
  keep_unflagged (gather d x inv) (gather false pm inv) =
  map (fun i => nth i x d) (filter (fun i => negb (nth i pm false)) inv).
Proof.
  unfold gather. induction inv as [|i inv IH]; [reflexivity|].
  cbn [map filter keep_unflagged]. destruct (nth i pm false); cbn [negb map]; [exact IH | now rewrite IH].
Qed.

Lemma keep_index (m : list nat) : forall pm, length pm = length m ->
  map (fun i => nth i m 0) (filter (fun i => negb (nth i pm false)) (seq 0 (length m))) =
  keep_unflagged m pm.
Proof.
  induction m as [|a m IH]; intros [|b pm] Hl; cbn in Hl; try discriminate; [reflexivity|].
  cbn [length seq]. rewrite <- seq_shift. cbn [filter nth].
  rewrite filter_map_comm.
  assert (E : map (fun i => nth i (a :: m) 0) (map S (filter (fun i => negb (nth (S i) (b :: pm) false)) (seq 0 (length m))))
              = keep_unflagged m pm).
  { rewrite map_map. cbn [nth]. apply IH. lia. }
  destruct b; cbn [negb map keep_unflagged nth] in *.
  - exact E.
  - now rewrite E.
Qed.

Lemma keep_app {A} (a b : list A) fa fb : length fa = length a ->
  keep_unflagged (a ++ b) (fa ++ fb) = keep_unflagged a fa ++ keep_unflagged b fb.
Proof.
  revert fa. induction a as [|x a IH]; intros [|f fa] Hl; cbn in *; try discriminate; [reflexivity|].
  destruct f; cbn; rewrite IH by lia; reflexivity.
Qed.
Lemma keep_false {A} (a : list A) : keep_unflagged a (repeat false (length a)) = a.
Proof. induction a; cbn; congruence. Qed.
Lemma keep_true {A} (x : A) k : keep_unflagged (repeat x k) (repeat true k) = [].
Proof. induction k; cbn; auto. Qed.

Lemma keep_mask D regs :
  keep_unflagged (concat (mask_of D regs)) (concat (padm_of D regs)) = concat regs /\
  length (concat (padm_of D regs)) = length (concat (mask_of D regs)).
Proof.
  unfold mask_of, padm_of. induction regs as [|r regs [IH1 IH2]]; [split; reflexivity|].
  cbn [map concat].
  assert (Hl : length (padm_row D r) = length (mask_row D r))
    by (unfold padm_row, mask_row; rewrite !app_length, !repeat_length; reflexivity).
  split.
  - rewrite keep_app by exact Hl. rewrite IH1. f_equal.
    unfold padm_row, mask_row. rewrite keep_app by apply repeat_length.
    now rewrite keep_false, keep_true, app_nil_r.
  - rewrite !app_length. congruence.
Qed.

(* ---------- the un-padding theorem ---------- *)
Section Unpad.
  Context {A : Type} (dflt : A).

  Theorem unpad_spec (m : list nat) (pm : list bool) (inv : list nat) (n pad : nat) (x : list A) :
    length pm = length m ->
    Permutation (keep_unflagged m pm) (seq 0 n) ->
    Permutation inv (seq 0 (length m)) ->
    StronglySorted le (gather 0 m inv) ->
    (pad = 0 -> Forall (fun b => b = false) pm) ->
    let K := filter (fun i => negb (nth i pm false)) inv in
    unpad dflt pad x inv (gather false pm inv) = map (fun i => nth i x dflt) K /\
    map (fun i => nth i m 0) K = seq 0 n /\
    Forall (fun i => i < length m /\ nth i pm false = false) K.
  Proof.
    intros Hl Hreal Hperm Hsort Hpad K. repeat split.
    - unfold unpad. destruct (Nat.eqb_spec pad 0) as [E|E]; [|apply keep_gather].
      unfold K. rewrite filter_all; [reflexivity|].
      specialize (Hpad E). rewrite Forall_forall in *. intros i _.
      destruct (Nat.lt_ge_cases i (length pm)) as [Hi|Hi].
      + rewrite (Hpad (nth i pm false)); [reflexivity | now apply nth_In].
      + now rewrite nth_overflow.
    - apply sorted_perm_eq.
      + unfold K. now apply sorted_filter_map.
      + apply seq_sorted.
      + rewrite <- Hreal, <- (keep_index m pm Hl). apply Permutation_map. unfold K. now apply perm_filter.
    - rewrite Forall_forall. intros i Hi. unfold K in Hi. apply filter_In in Hi. destruct Hi as [Hin Hf].
      split.
      + apply (Permutation_in _ Hperm) in Hin. apply in_seq in Hin. lia.
      + now destruct (nth i pm false).
  Qed.

  (* the result has the input width and cell v is the sample of the real (non-dummy) position that
     holds variable v *)
  Corollary unpad_cells (m : list nat) (pm : list bool) (inv : list nat) (n pad : nat) (x : list A) :
    length pm = length m ->
    Permutation (keep_unflagged m pm) (seq 0 n) ->
    Permutation inv (seq 0 (length m)) ->
    StronglySorted le (gather 0 m inv) ->
    (pad = 0 -> Forall (fun b => b = false) pm) ->
    let out := unpad dflt pad x inv (gather false pm inv) in
    length out = n /\
    forall v, v < n -> exists p, p < length m /\ nth p m 0 = v /\ nth p pm false = false /\
                                 nth v out dflt = nth p x dflt.
  Proof.
    intros Hl Hreal Hperm Hsort Hpad out.
    destruct (unpad_spec m pm inv n pad x Hl Hreal Hperm Hsort Hpad) as [E [Hm HK]].
    set (K := filter (fun i => negb (nth i pm false)) inv) in *.
    assert (HlenK : length K = n) by (rewrite <- (map_length (fun i => nth i m 0)), Hm; apply seq_length).
    split; [unfold out; rewrite E, map_length; exact HlenK|].
    intros v Hv. exists (nth v K 0).
    rewrite Forall_forall in HK. destruct (HK (nth v K 0)) as [H1 H2]; [apply nth_In; lia|].
    repeat split; try assumption.
    - assert (Hn : nth v (map (fun i => nth i m 0) K) 0 = v) by (rewrite Hm, seq_nth; lia).
      rewrite (nth_map_lt _ K v 0 0) in Hn by lia. exact Hn.
    - unfold out. rewrite E. apply (nth_map_lt (fun i => nth i x dflt) K v 0 dflt). lia.
  Qed.
End Unpad.

Lemma list_sum_zero l : list_sum l = 0 -> Forall (fun x => x = 0) l.
Proof.
  induction l as [|a l IH]; intros H; [constructor|].
  change (a + list_sum l = 0) in H. constructor; [lia | apply IH; lia].
Qed.

(* end to end for one repetition of a RAT-SPN built from admissible oracle permutations *)
Theorem unpad_rat {A} (dflt : A) n perms : adm [items n] perms -> 2 ^ length perms <= n ->
  let d := length perms in
  let D := dim_of n d in
  let regs := leaves_of [items n] perms in
  let m := concat (mask_of D regs) in
  let pm := concat (padm_of D regs) in
  forall inv, Permutation inv (seq 0 (length m)) -> StronglySorted le (gather 0 m inv) ->
  forall x : list A,
  let out := unpad dflt (pad_of n d) x inv (gather false pm inv) in
  length out = n /\
  forall v, v < n -> exists p, p < length m /\ nth p m 0 = v /\ nth p pm false = false /\
                               nth v out dflt = nth p x dflt.
Proof.
  intros Ha Hn d D regs m pm inv Hperm Hsort x.
  destruct (regions_leaves n perms Ha Hn) as [Hpart [Hlen [Hsz Hdum]]].
  destruct (keep_mask D regs) as [Hk Hl].
  apply unpad_cells; try assumption.
  - unfold m, pm. rewrite Hk. exact Hpart.
  - intros Hp0. fold d in Hdum. rewrite Hp0 in Hdum. apply list_sum_zero in Hdum.
    unfold pm, padm_of. rewrite Forall_forall. intros b Hb. apply in_concat in Hb.
    destruct Hb as [row [Hrow Hb]]. apply in_map_iff in Hrow. destruct Hrow as [r [<- Hr]].
    rewrite Forall_forall in Hdum.
    assert (E : D - length r = 0) by (apply Hdum; apply in_map_iff; exists r; auto).
    unfold padm_row in Hb. fold D in E. rewrite E in Hb. cbn in Hb. rewrite app_nil_r in Hb.
    now apply repeat_spec in Hb.
Qed.

(* ---------- the runtime check of the argsort oracle is sound ---------- *)
Lemma sorted_b_sound l : sorted_b l = true -> StronglySorted le l.
Proof.
  intros H. apply Sorted_StronglySorted; [intros a b c; lia|].
  induction l as [|a l IH]; [constructor|].
  destruct l as [|b l]; [repeat constructor|].
  change (((a <=? b) && sorted_b (b :: l)) = true) in H. apply andb_prop in H. destruct H as [H1 H2].
  constructor; [apply IH; exact H2 | constructor; now apply Nat.leb_le].
Qed.

Lemma combine_eqb_eq (a b : list nat) : length a = length b ->
  forallb (fun p => Nat.eqb (fst p) (snd p)) (combine a b) = true -> a = b.
Proof.
  revert b. induction a as [|x a IH]; intros [|y b] Hl H; cbn in *; try discriminate; [reflexivity|].
  apply andb_prop in H. destruct H as [H1 H2]. apply Nat.eqb_eq in H1. subst. f_equal. apply IH; auto.
Qed.

Theorem is_argsort_sound m inv : is_argsort_b m inv = true ->
  Permutation inv (seq 0 (length m)) /\ StronglySorted le (gather 0 m inv).
Proof.
  unfold is_argsort_b. intros H. apply andb_prop in H. destruct H as [H H3].
  apply andb_prop in H. destruct H as [H1 H2]. apply Nat.eqb_eq in H1.
  split; [|now apply sorted_b_sound].
  unfold is_perm_b in H2. apply combine_eqb_eq in H2; [|now rewrite isort_length, seq_length].
  rewrite <- H1, <- H2. symmetry. apply isort_perm.
Qed.

(* ---------- completion: torch.where(isnan(x), samples, x) ---------- *)
Lemma fill_spec x : forall s, length s = length x ->
  length (fill x s) = length x /\
  forall v, v < length x ->
    nth v (fill x s) None <> None /\
    (nth v x None <> None -> nth v (fill x s) None = nth v x None) /\
    (nth v x None = None -> nth v (fill x s) None = Some (nth v s 0%Z)).
Proof.
  induction x as [|c x IH]; intros [|z s] Hl; cbn in Hl; try discriminate.
  - split; [reflexivity|]. cbn. intros; lia.
  - destruct (IH s ltac:(lia)) as [IH1 IH2]. split; [cbn; now rewrite IH1|].
    intros [|v] Hv; cbn [fill nth].
    + destruct c; repeat split; congruence.
    + apply IH2. cbn in Hv. lia.
Qed.

(* ---------- top-down group indices ---------- *)
Lemma groups_down_seq k : forall a, groups_down (seq a k) = seq (2 * a) (2 * k).
Proof.
  induction k as [|k IH]; intros a; [reflexivity|].
  cbn [seq groups_down flat_map]. change (flat_map (fun g => [2 * g; 2 * g + 1]) (seq (S a) k)) with (groups_down (seq (S a) k)).
  rewrite IH. replace (2 * S k) with (S (S (2 * k))) by lia. cbn [seq app].
  f_equal; f_equal; [lia|]. f_equal; lia.
Qed.

Theorem iter_groups d g : Nat.iter d groups_down [g] = seq (g * 2 ^ d) (2 ^ d).
Proof.
  induction d as [|d IH]; [cbn; f_equal; lia|].
  cbn [Nat.iter nat_rect]. change (nat_rect _ [g] (fun _ => groups_down) d) with (Nat.iter d groups_down [g]).
  rewrite IH, groups_down_seq. f_equal; cbn [Nat.pow]; lia.
Qed.

Section Down.
  Variable T : Type.
  Variables (t0 t1 : T) (tadd tmul : T -> T -> T) (tleb tnear : T -> T -> bool).
  Notation prod_down := (prod_down).
  Notation sum_down := (sum_down T t0 tmul tleb tnear).
  Notation inner_down := (inner_down T t0 tadd tmul tleb tnear).

  Lemma prod_down_groups K s : map fst (prod_down K s) = groups_down (map fst s).
  Proof.
    unfold Rat.prod_down, groups_down. induction s as [|[g o] s IH]; [reflexivity|].
    cbn [flat_map map fst snd app]. rewrite IH. reflexivity.
  Qed.

  Lemma map_fst_combine {B C} (f : B -> C) (s : list B) :
    map (fun gs => fst gs) (combine s (map f s)) = s.
  Proof. induction s; cbn; congruence. Qed.

  Lemma sum_down_groups W x s : map fst (fst (sum_down W x s)) = map fst s.
  Proof.
    unfold Rat.sum_down. cbn [fst]. rewrite map_map. cbn [fst].
    rewrite <- (map_map (fun gs => fst gs) fst). now rewrite map_fst_combine.
  Qed.

  (* the selected leaf regions are exactly the 2^depth regions of ONE repetition, in order *)
  Theorem inner_down_groups Ws : forall x wy, exists g,
    map fst (fst (inner_down Ws x wy)) = seq (g * 2 ^ S (length Ws)) (2 ^ S (length Ws)).
  Proof.
    induction Ws as [|W Ws IH]; intros x wy.
    - cbn [Rat.inner_down fst length]. unfold Rat.root_down. cbn [fst].
      eexists. rewrite prod_down_groups. cbn [map fst].
      change [?g] with (Nat.iter 0 groups_down [g]).
      rewrite <- (iter_groups 1). reflexivity.
    - cbn [Rat.inner_down fst length].
      destruct (IH (sum_layer T t0 tadd tmul W (pair_up T tmul x)) wy) as [g Hg].
      exists g. rewrite prod_down_groups, sum_down_groups, Hg, groups_down_seq.
      f_equal; cbn [Nat.pow]; lia.
  Qed.
End Down.
