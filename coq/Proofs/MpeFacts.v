(* Proofs/MpeFacts.v — MPE: Chow-Liu decoding attains the max-product value (every selective
   commutative semiring); the circuit descent preserves observed cells and fills every missing one. *)
From Coq Require Import List Arith ZArith Ring Lia Bool.
From DV Require Import Model.Core Model.Clt Model.Leaves Model.Mpe Proofs.CoreFacts Proofs.CltFacts.
Import ListNotations.

Section AssignFacts.
  Lemma apply_assign_app l1 l2 r : apply_assign (l1 ++ l2) r = apply_assign l2 (apply_assign l1 r).
  Proof. unfold apply_assign. apply fold_left_app. Qed.
  Lemma apply_assign_notin l : forall r v, ~ In v (map fst l) -> apply_assign l r v = r v.
  Proof.
    induction l as [|[u x] l IH]; intros r v Hn; [reflexivity|]. cbn in *.
    change (apply_assign l (upd r u (Some x)) v = r v). rewrite IH by tauto.
    apply upd_other. intro; subst; tauto.
  Qed.
  Lemma apply_assign_agree l : forall r1 r2 v, r1 v = r2 v -> apply_assign l r1 v = apply_assign l r2 v.
  Proof.
    induction l as [|[u x] l IH]; intros r1 r2 v H; [exact H|]. cbn.
    change (apply_assign l (upd r1 u (Some x)) v = apply_assign l (upd r2 u (Some x)) v).
    apply IH. unfold upd. destruct (Nat.eqb v u); [reflexivity | exact H].
  Qed.
  Lemma apply_assign_some l : forall r v x, r v = Some x -> ~ In v (map fst l) -> apply_assign l r v = Some x.
  Proof. intros. now rewrite apply_assign_notin. Qed.
  Lemma apply_assign_in l : forall r v, In v (map fst l) -> apply_assign l r v <> None.
  Proof.
    induction l as [|[u x] l IH]; intros r v Hin; [contradiction|]. cbn in Hin.
    change (apply_assign l (upd r u (Some x)) v <> None).
    destruct (in_dec Nat.eq_dec v (map fst l)) as [Hl|Hl]; [now apply IH|].
    destruct Hin as [->|Hin]; [|contradiction].
    rewrite apply_assign_notin by exact Hl. rewrite upd_same. discriminate.
  Qed.
  Lemma apply_assign_keeps l : forall r v, r v <> None -> apply_assign l r v <> None.
  Proof.
    induction l as [|[u x] l IH]; intros r v H; [exact H|].
    change (apply_assign l (upd r u (Some x)) v <> None). apply IH.
    unfold upd. destruct (Nat.eqb v u); [discriminate | exact H].
  Qed.
End AssignFacts.

Section CltMpe.
  Variable T : Type.
  Variables (t0 t1 : T) (tadd tmul : T -> T -> T).
  Hypothesis SRth : semi_ring_theory t0 t1 tadd tmul (@eq T).
  Add Ring Tring6 : SRth.
  Variable sel : T -> T -> bool.
  (* selective addition: max for max-product *)
  Hypothesis tadd_sel : forall a b, tadd a b = if sel a b then a else b.
  Infix "+" := tadd. Infix "*" := tmul.
  Notation prodT := (prodT T t1 tmul).
  Notation up := (up T t0 t1 tadd tmul).
  Notation vars := (vars T).
  Notation assign := (assign T t0 t1 tadd tmul sel).

  Lemma up_ext t : forall pv r1 r2, (forall v, In v (vars t) -> r1 v = r2 v) -> up t pv r1 = up t pv r2.
  Proof.
    induction t as [u cpt kids IH] using (ctree_ind' T). intros pv r1 r2 H. cbn.
    rewrite (H u) by (cbn; auto).
    assert (Hk : forall x, map (fun k => up k x r1) kids = map (fun k => up k x r2) kids).
    { intro x. apply map_ext_Forall. rewrite Forall_forall in *. intros k Hin. apply IH; [exact Hin|].
      intros v Hv. apply H. cbn. right. apply in_flat_map. eauto. }
    destruct (r2 u); cbn; now rewrite !Hk.
  Qed.

  Lemma assign_vars t : forall pv r v, In v (map fst (assign t pv r)) -> In v (vars t) /\ r v = None.
  Proof.
    induction t as [u cpt kids IH] using (ctree_ind' T). intros pv r v Hin. cbn in Hin.
    rewrite map_app, in_app_iff in Hin. destruct Hin as [Hin|Hin].
    - destruct (r u) eqn:E; cbn in Hin; [contradiction|]. destruct Hin as [<-|[]]. split; [cbn; auto | exact E].
    - rewrite flat_map_concat_map, concat_map, map_map, in_concat in Hin. destruct Hin as [l [Hl Hv]].
      apply in_map_iff in Hl. destruct Hl as [k [<- Hk]]. rewrite Forall_forall in IH.
      destruct (IH k Hk _ _ _ Hv) as [H1 H2]. split; [|exact H2]. cbn. right. apply in_flat_map. eauto.
  Qed.

  Lemma assign_covers t : forall pv r v, In v (vars t) -> r v = None -> In v (map fst (assign t pv r)).
  Proof.
    induction t as [u cpt kids IH] using (ctree_ind' T). intros pv r v Hin Hn. cbn.
    rewrite map_app, in_app_iff. cbn in Hin. destruct Hin as [<-|Hin].
    - left. rewrite Hn. cbn. auto.
    - right. apply in_flat_map in Hin. destruct Hin as [k [Hk Hv]].
      rewrite flat_map_concat_map, concat_map, map_map, in_concat.
      eexists. split; [apply in_map_iff; exists k; split; [reflexivity | exact Hk]|].
      rewrite Forall_forall in IH. now apply IH.
  Qed.

  (* inside the combined assignment, each kid sees only its own assignments *)
  Lemma kid_isolated u (own : list (nat * Z)) kids x r :
      NoDup (flat_map vars kids) -> ~ In u (flat_map vars kids) ->
      (forall w, In w (map fst own) -> w = u) ->
      forall k, In k kids -> forall v, In v (vars k) ->
      apply_assign (own ++ flat_map (fun k0 => assign k0 x r) kids) r v = apply_assign (assign k x r) r v.
  Proof.
    intros Hnd Hu Hown k Hk v Hv.
    destruct (in_split _ _ Hk) as [ks1 [ks2 Heq]]. subst kids.
    rewrite flat_map_app. cbn [flat_map]. rewrite !apply_assign_app.
    assert (Hdisj : forall k', In k' (ks1 ++ ks2) -> ~ In v (vars k')).
    { intros k' Hk' Hv'. rewrite flat_map_app in Hnd. cbn in Hnd. apply in_app_or in Hk'. destruct Hk' as [H|H].
      - apply (nodup_app_disj _ _ Hnd v); [apply in_flat_map; eauto | apply in_or_app; now left].
      - apply nodup_app_r in Hnd. apply (nodup_app_disj _ _ Hnd v); [exact Hv | apply in_flat_map; eauto]. }
    assert (Hnot : forall ks, (forall k', In k' ks -> In k' (ks1 ++ ks2)) ->
               ~ In v (map fst (flat_map (fun k0 => assign k0 x r) ks))).
    { intros ks Hsub Hin. rewrite flat_map_concat_map, concat_map, map_map, in_concat in Hin.
      destruct Hin as [l [Hl Hv']]. apply in_map_iff in Hl. destruct Hl as [k' [<- Hk']].
      apply assign_vars in Hv'. apply (Hdisj k' (Hsub k' Hk')). tauto. }
    rewrite apply_assign_notin by (apply Hnot; intros; apply in_or_app; now right).
    apply apply_assign_agree.
    rewrite apply_assign_notin by (apply Hnot; intros; apply in_or_app; now left).
    apply apply_assign_notin. intro Hin. apply Hown in Hin. subst v.
    apply Hu. apply in_flat_map. exists k. split; [apply in_or_app; right; now left | exact Hv].
  Qed.

  Definition chosen (cpt : Z -> Z -> T) (kids : list (ctree T)) (pv : Z) (r : row) (u : nat) : Z :=
    match r u with
    | Some x => x
    | None => if sel (cpt pv 0%Z * prodT (map (fun k => up k 0%Z r) kids))
                     (cpt pv 1%Z * prodT (map (fun k => up k 1%Z r) kids)) then 0%Z else 1%Z
    end.
  Lemma assign_eq u cpt kids pv r :
    assign (CT u cpt kids) pv r =
    (match r u with None => [(u, chosen cpt kids pv r u)] | Some _ => [] end) ++
    flat_map (fun k => assign k (chosen cpt kids pv r u) r) kids.
  Proof. reflexivity. Qed.

  (* decoding attains the max-product value: the completed row's joint equals `up` on the evidence *)
  Theorem clt_mpe_exact t : NoDup (vars t) -> forall pv r,
      up t pv (apply_assign (assign t pv r) r) = up t pv r.
  Proof.
    induction t as [u cpt kids IH] using (ctree_ind' T). intros Hnd pv r.
    cbn in Hnd. apply NoDup_cons_iff in Hnd. destruct Hnd as [Hu Hnd].
    rewrite assign_eq.
    assert (Hx : chosen cpt kids pv r u = chosen cpt kids pv r u) by reflexivity.
    revert Hx. generalize (chosen cpt kids pv r u) at 1 3 4 as x. intros x Hx.
    set (own := match r u with None => [(u, x)] | Some _ => [] end).
    set (r' := apply_assign (own ++ flat_map (fun k => assign k x r) kids) r).
    assert (Hownu : forall w, In w (map fst own) -> w = u).
    { unfold own. destruct (r u); cbn; [tauto | intros w [<-|[]]; reflexivity]. }
    assert (Hr'u : r' u = Some x).
    { unfold r'. rewrite apply_assign_app. rewrite apply_assign_notin.
      - unfold own. destruct (r u) eqn:E; cbn; [| apply upd_same].
        rewrite E. f_equal. unfold chosen in Hx. now rewrite E in Hx.
      - intro Hin. rewrite flat_map_concat_map, concat_map, map_map, in_concat in Hin.
        destruct Hin as [l [Hl Hv]]. apply in_map_iff in Hl. destruct Hl as [k [<- Hk]].
        apply assign_vars in Hv. apply Hu. apply in_flat_map. exists k. tauto. }
    assert (Hkid : forall k, In k kids -> up k x r' = up k x r).
    { intros k Hk. rewrite Forall_forall in IH.
      destruct (in_split _ _ Hk) as [ks1 [ks2 Heq]].
      assert (Hndk : NoDup (vars k)).
      { rewrite Heq, flat_map_app in Hnd. cbn in Hnd. apply nodup_app_r in Hnd. now apply nodup_app_l in Hnd. }
      rewrite <- (IH k Hk Hndk x r). apply up_ext. intros v Hv. unfold r'.
      now apply (kid_isolated u own kids x r Hnd Hu Hownu k Hk v Hv). }
    change (up (CT u cpt kids) pv r' = up (CT u cpt kids) pv r).
    cbn [Clt.up]. rewrite Hr'u.
    replace (map (fun k => up k x r') kids) with (map (fun k => up k x r) kids)
      by (apply map_ext_in; intros k Hk; symmetry; now apply Hkid).
    unfold chosen in Hx. destruct (r u) as [y|]; [now subst|].
    cbn [map dom2 Core.sumT].
    set (a := cpt pv 0%Z * prodT (map (fun k => up k 0%Z r) kids)) in *.
    set (b := cpt pv 1%Z * prodT (map (fun k => up k 1%Z r) kids)) in *.
    assert (H0 : b + t0 = b) by ring. rewrite H0, tadd_sel.
    destruct (sel a b); subst x; reflexivity.
  Qed.

  (* on a row that is complete on the tree, `up` does not depend on the addition at all *)
  Lemma up_complete_indep (tadd' : T -> T -> T) (t0' : T) t : forall pv r,
      (forall v, In v (vars t) -> r v <> None) ->
      up t pv r = Clt.up T t0' t1 tadd' tmul t pv r.
  Proof.
    induction t as [u cpt kids IH] using (ctree_ind' T). intros pv r H. cbn.
    destruct (r u) eqn:E; [| exfalso; apply (H u); cbn; auto].
    f_equal. f_equal. apply map_ext_Forall. rewrite Forall_forall in *. intros k Hk. apply IH; [exact Hk|].
    intros v Hv. apply H. cbn. right. apply in_flat_map. eauto.
  Qed.
End CltMpe.

Section CircuitMpe.
  Variable T : Type.
  Variables (t0 t1 : T) (tadd tmul : T -> T -> T).
  Variable sel : T -> T -> bool.
  Variable dom : nat -> list Z.
  Variable leaf : Type.
  Variable leaf_val : leaf -> row -> T.
  Variable leaf_fill : leaf -> row -> list (nat * Z).
  Notation table := (table T leaf).
  Notation vals := (vals T t0 t1 tadd tmul leaf leaf_val).
  Notation picks := (picks T t0 t1 tadd tmul sel leaf leaf_val).
  Notation node_picks := (node_picks T t0 tmul sel leaf).
  Notation scope_of := (scope_of T leaf).
  Notation valid := (valid T t0 tadd dom leaf leaf_val).
  Notation mpe_row := (mpe_row T t0 t1 tadd tmul sel leaf leaf_val leaf_fill).
  Notation leaf_of := (leaf_of T leaf).

  Definition vp (t : table) (r : row) : list T * list (list nat) :=
    fold_left (fun (acc : list T * list (list nat)) n =>
                 let '(vs, ps) := acc in
                 (vs ++ [node_val T t0 t1 tadd tmul leaf leaf_val n vs r],
                  ps ++ [node_picks (length ps) n vs ps])) t ([], []).
  Lemma vp_snoc t n r : vp (t ++ [n]) r =
      (fst (vp t r) ++ [node_val T t0 t1 tadd tmul leaf leaf_val n (fst (vp t r)) r],
       snd (vp t r) ++ [node_picks (length (snd (vp t r))) n (fst (vp t r)) (snd (vp t r))]).
  Proof. unfold vp. rewrite fold_left_app. cbn. now destruct (fold_left _ t ([], [])). Qed.
  Lemma vp_fst t r : fst (vp t r) = vals t r.
  Proof.
    induction t as [|n t IH] using rev_ind; [reflexivity|].
    rewrite vp_snoc. cbn [fst]. rewrite IH. unfold Core.vals. now rewrite fold_left_app.
  Qed.
  Lemma picks_length t r : length (picks t r) = length t.
  Proof.
    change (length (snd (vp t r)) = length t).
    induction t as [|n t IH] using rev_ind; [reflexivity|].
    rewrite vp_snoc. cbn [snd]. rewrite !app_length, IH. reflexivity.
  Qed.
  Lemma picks_snoc t n r : picks (t ++ [n]) r = picks t r ++ [node_picks (length t) n (vals t r) (picks t r)].
  Proof.
    change (snd (vp (t ++ [n]) r) = snd (vp t r) ++ [node_picks (length t) n (vals t r) (snd (vp t r))]).
    rewrite vp_snoc. cbn [snd]. rewrite vp_fst. f_equal. f_equal. f_equal. apply (picks_length t r).
  Qed.

  Lemma argmax_from_lt l : forall best bi i, bi < i -> argmax_from T sel best bi i l < i + length l.
  Proof.
    induction l as [|x l IH]; intros best bi i H; cbn; [lia|].
    destruct (sel best x); [specialize (IH best bi (S i) ltac:(lia)) | specialize (IH x i (S i) ltac:(lia))]; lia.
  Qed.
  Lemma argmax_lt l : l <> [] -> argmax T sel l < length l.
  Proof. destruct l as [|x l]; [congruence|]. intros _. cbn. pose proof (argmax_from_lt l x 0 1 ltac:(lia)). lia. Qed.
  Lemma wvals_length ws vs : length ws = length vs -> length (wvals T tmul ws vs) = length vs.
  Proof. revert vs. induction ws; destruct vs; cbn; intros; try lia. f_equal. apply IHws. lia. Qed.

  Definition sums_nonempty (t : table) : Prop :=
    Forall (fun n => match nkind n with KSum _ => nkids n <> [] | _ => True end) t.
  Definition is_leaf_at (t : table) (i : nat) : Prop := exists l, leaf_of t i = Some l.

  (* the picked leaves cover the scope of every node (route_partition, covering half) *)
  Theorem picks_cover t r : valid t -> sums_nonempty t -> forall i, i < length t ->
      forall v, In v (scope_of t i) ->
      exists l, In l (nth i (picks t r) []) /\ l < length t /\ is_leaf_at t l /\ In v (scope_of t l).
  Proof.
    induction 1 as [|t n Hv IH Hok]; intros Hne i Hi v Hin; [cbn in Hi; lia|].
    apply Forall_app in Hne. destruct Hne as [Hnet Hnen]. inversion Hnen as [|? ? Hn1 _]; subst.
    specialize (IH Hnet). rewrite app_length in Hi. cbn in Hi. rewrite picks_snoc.
    assert (Hlift : forall j l, j < length t ->
              In l (nth j (picks t r) []) /\ l < length t /\ is_leaf_at t l /\ In v (scope_of t l) ->
              l < length (t ++ [n]) /\ is_leaf_at (t ++ [n]) l /\ In v (scope_of (t ++ [n]) l)).
    { intros j l Hj (H1 & H2 & H3 & H4). rewrite app_length. cbn. split; [lia|]. split.
      - unfold is_leaf_at, Mpe.leaf_of in *. now rewrite app_nth1.
      - now rewrite scope_of_prefix. }
    destruct (Nat.eq_dec i (length t)) as [->|Hne'].
    - rewrite scope_of_last in Hin. rewrite app_nth2; rewrite picks_length; [|lia]. rewrite Nat.sub_diag. cbn [nth].
      destruct Hok as [Hk Hok]. unfold Mpe.node_picks. destruct (nkind n) as [l|ws|] eqn:E.
      + exists (length t). split; [now left|]. rewrite app_length. cbn. split; [lia|]. split.
        * exists l. unfold Mpe.leaf_of. rewrite app_nth2, Nat.sub_diag by lia. cbn. now rewrite E.
        * now rewrite scope_of_last.
      + destruct Hok as [Hlen Hsc]. rewrite Forall_forall in Hk, Hsc.
        set (b := branch T t0 tmul sel leaf n ws (vals t r)).
        assert (Hb : b < length (nkids n)).
        { unfold b, branch. pose proof (argmax_lt (wvals T tmul ws (map (fun k => nth k (vals t r) t0) (nkids n)))) as Ha.
          rewrite wvals_length in Ha by (now rewrite map_length).
          rewrite map_length in Ha. apply Ha. intro Hnil.
          apply (f_equal (@length T)) in Hnil. rewrite wvals_length in Hnil by (now rewrite map_length).
          rewrite map_length in Hnil. cbn in Hnil. destruct (nkids n); [now apply Hn1 | discriminate]. }
        pose proof (nth_In (nkids n) 0 Hb) as Hkin.
        destruct (IH _ (Hk _ Hkin) v) as [l Hl]; [now apply (Hsc _ Hkin)|].
        exists l. split; [tauto|]. apply (Hlift _ l (Hk _ Hkin)). exact Hl.
      + destruct Hok as [Hun _]. apply Hun in Hin. destruct Hin as [k [Hkin Hvk]].
        rewrite Forall_forall in Hk. destruct (IH _ (Hk _ Hkin) v Hvk) as [l Hl].
        exists l. split.
        * apply in_concat. exists (nth k (picks t r) []). split; [now apply in_map with (f := fun k => nth k (picks t r) []) | tauto].
        * apply (Hlift _ l (Hk _ Hkin)). exact Hl.
    - assert (Hi' : i < length t) by lia. rewrite scope_of_prefix in Hin by exact Hi'.
      rewrite app_nth1 by (rewrite picks_length; exact Hi').
      destruct (IH i Hi' v Hin) as [l Hl]. exists l. split; [tauto|]. now apply (Hlift i l Hi').
  Qed.

  (* leaf completion contracts *)
  Definition fill_missing_only := forall l r v, In v (map fst (leaf_fill l r)) -> r v = None.
  Definition fill_covers (t : table) := forall i l, leaf_of t i = Some l ->
      forall r v, In v (scope_of t i) -> r v = None -> In v (map fst (leaf_fill l r)).

  Lemma fold_fill_observed (t : table) r ls : fill_missing_only -> forall acc v x, r v = Some x -> acc v = Some x ->
      fold_left (fun acc i => match leaf_of t i with
                              | Some l => apply_assign (leaf_fill l r) acc
                              | None => acc end) ls acc v = Some x.
  Proof.
    intros Hm. induction ls as [|i ls IH]; intros acc v x Hr Ha; [exact Ha|]. cbn. apply IH; [exact Hr|].
    destruct (leaf_of t i) as [l|]; [|exact Ha]. apply apply_assign_some; [exact Ha|].
    intro Hin. apply Hm in Hin. congruence.
  Qed.

  Theorem mpe_preserves_observed t r : fill_missing_only -> forall v x, r v = Some x -> mpe_row t r v = Some x.
  Proof. intros Hm v x Hr. unfold Mpe.mpe_row. now apply fold_fill_observed. Qed.

  Lemma fold_fill_keeps (t : table) r ls : forall acc v, acc v <> None ->
      fold_left (fun acc i => match leaf_of t i with
                              | Some l => apply_assign (leaf_fill l r) acc
                              | None => acc end) ls acc v <> None.
  Proof.
    induction ls as [|i ls IH]; intros acc v H; [exact H|]. cbn. apply IH.
    destruct (leaf_of t i); [now apply apply_assign_keeps | exact H].
  Qed.

  Lemma fold_fill_in (t : table) r ls : forall acc v l lf, In l ls -> leaf_of t l = Some lf ->
      In v (map fst (leaf_fill lf r)) ->
      fold_left (fun acc i => match leaf_of t i with
                              | Some l => apply_assign (leaf_fill l r) acc
                              | None => acc end) ls acc v <> None.
  Proof.
    induction ls as [|i ls IH]; intros acc v l lf Hl Hlf Hin; [contradiction|]. cbn.
    destruct Hl as [->|Hl]; [| now apply (IH _ v l lf)].
    apply fold_fill_keeps. rewrite Hlf. now apply apply_assign_in.
  Qed.

  Theorem mpe_fills_missing t r : valid t -> sums_nonempty t -> fill_covers t -> 0 < length t ->
      forall v, In v (scope_of t (length t - 1)) -> mpe_row t r v <> None.
  Proof.
    intros Hv Hne Hc Hlen v Hin. destruct (r v) as [x|] eqn:E.
    { unfold Mpe.mpe_row. apply fold_fill_keeps. congruence. }
    destruct (picks_cover t r Hv Hne (length t - 1) ltac:(lia) v Hin) as [l (Hl & _ & [lf Hlf] & Hvl)].
    unfold Mpe.mpe_row. apply (fold_fill_in t r _ r v l lf Hl Hlf). now apply (Hc l lf Hlf r v).
  Qed.
End CircuitMpe.

(* the built-in leaves meet the completion contracts *)
Section LeafMpeFacts.
  Variable T : Type.
  Variables (t0 t1 : T) (tadd tmul : T -> T -> T).
  Variable sel : T -> T -> bool.
  Variable mode_of : nat -> list (Z * T) -> Z.
  Notation lfill := (leaf_fill T t0 t1 tadd tmul sel mode_of).

  Lemma lfill_missing_only : fill_missing_only (leaf T) lfill.
  Proof.
    intros l r v Hin. destruct l as [u tab|c]; cbn in Hin.
    - destruct (r u) eqn:E; cbn in Hin; [contradiction|]. destruct Hin as [<-|[]]. exact E.
    - now apply assign_vars in Hin.
  Qed.

  Lemma lfill_covers (t : table T (leaf T)) :
    (forall i l, leaf_of T (leaf T) t i = Some l ->
       match l with
       | LTab v _ => scope_of T (leaf T) t i = [v]
       | LClt c => forall v, In v (scope_of T (leaf T) t i) -> In v (vars T (clt_tree T t0 c))
       end) ->
    fill_covers T (leaf T) lfill t.
  Proof.
    intros H i l Hl r v Hin Hn. specialize (H i l Hl). destruct l as [u tab|c]; cbn.
    - rewrite H in Hin. destruct Hin as [<-|[]]. rewrite Hn. cbn. auto.
    - apply assign_covers; auto.
  Qed.
End LeafMpeFacts.
