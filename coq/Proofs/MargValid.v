(* Proofs/MargValid.v — C10: the marginalised circuit is a VALID circuit whose root scope is exactly the kept
   part of the original root scope (hence exactly the kept set when the guard accepted it), including the
   sub-circuits spliced in for partly marginalised Chow-Liu leaves. *)
From Coq Require Import List Arith ZArith Ring Lia Bool.
From DV Require Import Model.Core Model.Clt Model.Leaves Model.Check Model.Prune Model.ToPc Model.Marg
  Proofs.CoreFacts Proofs.CltFacts Proofs.PruneFacts Proofs.PruneValid Proofs.ToPcFacts Proofs.ToPcValid Proofs.MargFacts Proofs.MargClt.
Import ListNotations.

Section MargValid.
  Variable T : Type.
  Variables (t0 t1 : T) (tadd tmul : T -> T -> T).
  Hypothesis SRth : semi_ring_theory t0 t1 tadd tmul (@eq T).
  Variable dom : nat -> list Z.
  Notation leaf := (leaf T).
  Notation lval := (leaf_val T t0 t1 tadd tmul).
  Notation node := (node T leaf).
  Notation table := (table T leaf).
  Notation dnode := (dummy_node T leaf).
  Notation scope_of := (scope_of T leaf).
  Notation valid := (valid T t0 tadd dom leaf lval).
  Notation node_ok := (node_ok T t0 tadd dom leaf lval).
  Notation normalised := (normalised T t0 t1 tadd leaf lval).
  Notation mstate := (mstate T).
  Notation marg_step := (marg_step T t0 t1 tadd tmul).
  Notation marg_clt := (marg_clt T t0 t1 tadd tmul).
  Notation shift := (shift T).
  Variable K : list nat.
  Variable rowok : row -> Prop.
  Notation MInv := (MInv T t0 t1 tadd tmul K rowok).
  Notation disj := (disj K).

  Definition clt_handler_valid (c : clt T) : Prop :=
    forall sub r, marg_clt K c = Some (sub, r) ->
      valid sub /\ r < length sub /\ forall v, In v (scope_of sub r) <-> In v (cscope c) /\ In v K.

  Record MV (t : table) (st : mstate) : Prop := {
    mv_valid : valid (fst st);
    mv_scope : forall i j, i < length t -> nth i (snd st) None = Some j ->
               forall v, In v (scope_of (fst st) j) <-> In v (scope_of t i) /\ In v K }.

  Lemma mv_init : MV [] ([], []).
  Proof. constructor; cbn; [constructor | intros; lia]. Qed.

  (* ---- splicing a valid table behind another ---- *)
  Lemma shift_length off (sub : table) : length (shift off sub) = length sub.
  Proof. unfold Marg.shift. apply map_length. Qed.
  Lemma shift_app off (a b : table) : shift off (a ++ b) = shift off a ++ shift off b.
  Proof. unfold Marg.shift. apply map_app. Qed.
  Lemma scope_splice (new sub : table) j : j < length sub -> scope_of (new ++ shift (length new) sub) (length new + j) = scope_of sub j.
  Proof.
    intros Hj. unfold Core.scope_of. rewrite app_nth2 by lia. replace (length new + j - length new) with j by lia.
    unfold Marg.shift.
    rewrite (nth_indep _ dnode ((fun n => Build_node (nkind n) (nscope n) (map (Nat.add (length new)) (nkids n))) dnode)) by (rewrite map_length; exact Hj).
    rewrite (map_nth (fun n => Build_node (nkind n) (nscope n) (map (Nat.add (length new)) (nkids n)))). reflexivity.
  Qed.
  Lemma valid_splice (new sub : table) : valid new -> valid sub -> valid (new ++ shift (length new) sub).
  Proof.
    intros Hn Hs. induction Hs as [|sub x Hs IH Hok]; [unfold Marg.shift; cbn; now rewrite app_nil_r|].
    rewrite shift_app, app_assoc. cbn [Marg.shift map]. constructor; [exact IH|].
    destruct Hok as [Hk Hok]. pose proof Hk as Hk'. rewrite Forall_forall in Hk'.
    assert (Hsc : forall k, In k (nkids x) -> scope_of (new ++ shift (length new) sub) (length new + k) = scope_of sub k)
      by (intros k Hin; apply scope_splice; now apply Hk').
    split; cbn [nkids nkind nscope].
    - rewrite Forall_map, Forall_forall. intros k Hin. rewrite app_length, shift_length. specialize (Hk' k Hin). lia.
    - destruct (nkind x) as [l|ws|]; [exact Hok| |].
      + destruct Hok as [Hl Hsm]. split; [now rewrite map_length|]. rewrite Forall_map, Forall_forall. rewrite Forall_forall in Hsm.
        intros k Hin. rewrite Hsc by exact Hin. now apply Hsm.
      + destruct Hok as [Hu Hd]. split.
        * intros v. rewrite Hu. split.
          -- intros [k [Hin Hv]]. exists (length new + k). split; [now apply in_map | rewrite Hsc by exact Hin; exact Hv].
          -- intros [k' [Hin Hv]]. apply in_map_iff in Hin. destruct Hin as [k [<- Hin]]. exists k. split; [exact Hin|]. now rewrite Hsc in Hv.
        * rewrite map_length. intros i j Hij v.
          rewrite !(nth_indep (map (Nat.add (length new)) (nkids x)) 0 (length new + 0)) by (rewrite map_length; lia).
          rewrite !(map_nth (Nat.add (length new))). rewrite !Hsc by (apply nth_In; lia). now apply Hd.
  Qed.

  Lemma valid_firstn (t : table) k : valid t -> valid (firstn k t).
  Proof.
    induction 1 as [|t n Hv IH Hok]; [destruct k; constructor|].
    rewrite firstn_app. destruct (Nat.le_gt_cases k (length t)) as [Hle|Hgt].
    - replace (k - length t) with 0 by lia. cbn. now rewrite app_nil_r.
    - rewrite firstn_all2 by lia. destruct (k - length t) as [|d] eqn:E; [lia|]. cbn [firstn]. rewrite firstn_nil. now constructor.
  Qed.

  Lemma fop_somes (R R' : nat -> nat -> Prop) (mm : nat -> option nat) ks :
    ForallOrdPairs R ks ->
    (forall a b a' b', In a ks -> In b ks -> R a b -> mm a = Some a' -> mm b = Some b' -> R' a' b') ->
    ForallOrdPairs R' (somes (map mm ks)).
  Proof.
    intros H. induction H as [|k ks Hk Hks IH]; intros Hf; cbn; [constructor|].
    assert (IH' : ForallOrdPairs R' (somes (map mm ks))) by (apply IH; intros a b a' b' Ha Hb; apply Hf; now right).
    destruct (mm k) as [k'|] eqn:E; [|exact IH']. cbn. constructor; [|exact IH'].
    rewrite Forall_forall in *. intros b' Hb'. apply somes_In in Hb'. apply in_map_iff in Hb'. destruct Hb' as [b [Eb Hb]].
    apply (Hf k b k' b'); [now left | now right | now apply Hk | exact E | exact Eb].
  Qed.

  Section Step.
    Variables (t : table) (n : node) (new : table) (m : list (option nat)).
    Hypothesis Hvalid : valid (t ++ [n]).
    Hypothesis Hscoped : leaf_scoped T n.
    Hypothesis Hclt : forall c, nkind n = KLeaf (LClt c) -> clt_handler_valid c.
    Hypothesis HI : MInv t (new, m).
    Hypothesis HV : MV t (new, m).
    Let mm := fun k => nth k m None.
    Let ks := somes (map mm (nkids n)).

    Lemma Hvt : valid t /\ node_ok t n.
    Proof.
      inversion Hvalid as [Hnil | t' n' Hv Hok Heq]; [destruct t; discriminate|].
      apply app_inj_tail in Heq. destruct Heq; subst. auto.
    Qed.
    Lemma Hlen : length m = length t. Proof. exact (mi_len _ _ _ _ _ _ _ _ _ HI). Qed.
    Lemma Hrng i j : nth i m None = Some j -> j < length new. Proof. exact (mi_rng _ _ _ _ _ _ _ _ _ HI i j). Qed.
    Lemma kid_lt k : In k (nkids n) -> k < length t.
    Proof. destruct Hvt as [_ [Hk _]]. rewrite Forall_forall in Hk. apply Hk. Qed.
    Lemma kid_none k : In k (nkids n) -> (mm k = None <-> disj (scope_of t k)).
    Proof. intros Hk. exact (mi_none _ _ _ _ _ _ _ _ _ HI k (kid_lt k Hk)). Qed.
    Lemma kid_some k j : In k (nkids n) -> mm k = Some j ->
        j < length new /\ forall v, In v (scope_of new j) <-> In v (scope_of t k) /\ In v K.
    Proof. intros Hk E. split; [exact (Hrng k j E) | exact (mv_scope _ _ HV k j (kid_lt k Hk) E)]. Qed.
    Lemma ks_in j : In j ks <-> exists k, In k (nkids n) /\ mm k = Some j.
    Proof. unfold ks. rewrite somes_In, in_map_iff. split; intros [k H]; exists k; tauto. Qed.
    Lemma ks_lt : Forall (fun j => j < length new) ks.
    Proof. rewrite Forall_forall. intros j Hj. apply ks_in in Hj. destruct Hj as [k [Hk E]]. exact (Hrng k j E). Qed.

    (* ---- closing lemmas ---- *)
    Lemma old_entry X ext e i j : i < length (t ++ [n]) -> nth i (m ++ [e]) None = Some j -> i <> length t ->
        X = new ++ ext -> valid X ->
        forall v, In v (scope_of X j) <-> In v (scope_of (t ++ [n]) i) /\ In v K.
    Proof.
      intros Hi Hij Hne -> _ v. rewrite app_length in Hi. cbn in Hi. rewrite app_nth1 in Hij by (rewrite Hlen; lia).
      rewrite (scope_of_prefix T leaf new ext j) by exact (Hrng i j Hij).
      rewrite (scope_of_prefix T leaf t [n] i) by lia. apply (mv_scope _ _ HV i j); [lia | exact Hij].
    Qed.
    Lemma close_none : MV (t ++ [n]) (new, m ++ [None]).
    Proof.
      constructor; cbn [fst snd]; [exact (mv_valid _ _ HV)|]. intros i j Hi Hij.
      destruct (Nat.eq_dec i (length t)) as [->|Hne].
      - rewrite <- Hlen, app_nth2, Nat.sub_diag in Hij by lia. discriminate.
      - apply (old_entry new [] None i j Hi Hij Hne); [now rewrite app_nil_r | exact (mv_valid _ _ HV)].
    Qed.
    Lemma close_app ext j : valid (new ++ ext) ->
        (forall v, In v (scope_of (new ++ ext) j) <-> In v (nscope n) /\ In v K) ->
        MV (t ++ [n]) (new ++ ext, m ++ [Some j]).
    Proof.
      intros Hv Hs. constructor; cbn [fst snd]; [exact Hv|]. intros i j' Hi Hij.
      destruct (Nat.eq_dec i (length t)) as [->|Hne].
      - rewrite <- Hlen, app_nth2, Nat.sub_diag in Hij by lia. cbn in Hij. inversion Hij; subst j'.
        rewrite (scope_of_last T leaf). exact Hs.
      - apply (old_entry (new ++ ext) ext (Some j) i j' Hi Hij Hne eq_refl Hv).
    Qed.
    Lemma close_alias k : k < length new -> (forall v, In v (scope_of new k) <-> In v (nscope n) /\ In v K) ->
        MV (t ++ [n]) (new, m ++ [Some k]).
    Proof.
      intros Hk Hs. pose proof (close_app [] k) as H. rewrite app_nil_r in H. apply H; [exact (mv_valid _ _ HV) | exact Hs].
    Qed.

    Theorem marg_step_mv : MV (t ++ [n]) (marg_step K (new, m) n).
    Proof.
      destruct Hvt as [Hv0 [Hkids Hok]]. pose proof (mv_valid _ _ HV) as Hvn. cbn [fst] in Hvn.
      unfold Marg.marg_step. unfold leaf_scoped in Hscoped. destruct (nkind n) as [l|ws|] eqn:Ek.
      - destruct l as [v tab|c].
        + destruct (memb v K) eqn:Em; [|exact close_none]. apply (memb_iff) in Em.
          apply close_app.
          * constructor; [exact Hvn|]. split; cbn [nkids nkind nscope]; [constructor | exact Hok].
          * intros u. rewrite (scope_of_last T leaf). cbn [nscope]. rewrite Hscoped. cbn [In].
            split; [intros [<-|[]]; split; [now left | exact Em] | tauto].
        + destruct (existsb (fun v => memb v K) (cscope c)) eqn:Ex; [|exact close_none].
          destruct (marg_clt K c) as [[sub r]|] eqn:Em; [|exact close_none].
          destruct (Hclt c eq_refl sub r Em) as (Hvs & Hr & Hsc).
          apply close_app; [now apply valid_splice|].
          intros u. rewrite scope_splice by exact Hr. rewrite Hsc, (Hscoped u). tauto.
      - (* sum *)
        destruct Hok as [Hlw Hsm]. rewrite Forall_forall in Hsm.
        unfold Marg.marg_inner. fold mm. fold ks. rewrite ?Ek.
        assert (Hsc : forall j, In j ks -> forall v, In v (scope_of new j) <-> In v (nscope n) /\ In v K).
        { intros j Hj v. apply ks_in in Hj. destruct Hj as [k [Hk E]]. destruct (kid_some k j Hk E) as [_ Hs].
          rewrite Hs. rewrite (Hsm k Hk v). tauto. }
        pose proof ks_lt as Hlt.
        destruct ks as [|k1 [|k2 ks']] eqn:Eks; [exact close_none| |].
        + inversion Hlt; subst. apply close_alias; [assumption | apply Hsc; now left].
        + (* every kid is kept, because one is *)
          assert (Hall : forall k, In k (nkids n) -> mm k <> None).
          { intros k Hk E. apply (kid_none k Hk) in E.
            assert (Hin : In k1 ks) by (rewrite Eks; now left). apply ks_in in Hin. destruct Hin as [k' [Hk' E']].
            assert (Hd' : disj (scope_of t k')) by (intros v Hv; apply E; apply (Hsm k Hk v); apply (Hsm k' Hk' v); exact Hv).
            apply (kid_none k' Hk') in Hd'. congruence. }
          assert (Hlk : length ks = length (nkids n)).
          { unfold ks. rewrite <- (map_length Some), (somes_all_some mm (nkids n)), map_length; [reflexivity | exact Hall]. }
          apply close_app.
          * constructor; [exact Hvn|]. split; cbn [nkids nkind nscope]; [exact Hlt|].
            split; [rewrite <- Eks; congruence|]. rewrite Forall_forall. intros j Hj v.
            change (In v (scope_of new j) <-> In v (scope_of new k1)). rewrite (Hsc j Hj v), (Hsc k1 ltac:(now left) v). tauto.
          * intros v. rewrite (scope_of_last T leaf). cbn [nscope hd]. apply (Hsc k1). now left.
      - (* product *)
        destruct Hok as [Hun Hdj].
        unfold Marg.marg_inner. fold mm. fold ks. rewrite ?Ek.
        assert (Hps : forall v, (exists j, In j ks /\ In v (scope_of new j)) <-> In v (nscope n) /\ In v K).
        { intros v. split.
          - intros [j [Hj Hv]]. apply ks_in in Hj. destruct Hj as [k [Hk E]]. destruct (kid_some k j Hk E) as [_ Hs].
            apply Hs in Hv. split; [apply Hun; exists k; tauto | tauto].
          - intros [Hv HK]. apply Hun in Hv. destruct Hv as [k [Hk Hv]].
            destruct (mm k) as [j|] eqn:E.
            + exists j. split; [apply ks_in; eauto|]. destruct (kid_some k j Hk E) as [_ Hs]. apply Hs. tauto.
            + exfalso. apply (kid_none k Hk) in E. exact (E v Hv HK). }
        pose proof ks_lt as Hlt.
        destruct ks as [|k1 [|k2 ks']] eqn:Eks; [exact close_none| |].
        + inversion Hlt; subst. apply close_alias; [assumption|]. intros v. rewrite <- Hps. split.
          * intros Hv. exists k1. split; [now left | exact Hv].
          * intros [j [[<-|[]] Hv]]. exact Hv.
        + assert (Hcat : forall v, In v (concat (map (fun k => nscope (nth k new dnode)) (k1 :: k2 :: ks'))) <->
                                   exists j, In j (k1 :: k2 :: ks') /\ In v (scope_of new j)).
          { intros v. rewrite in_concat. split.
            - intros [l [Hl Hv]]. apply in_map_iff in Hl. destruct Hl as [j [<- Hj]]. exists j. split; [exact Hj | exact Hv].
            - intros [j [Hj Hv]]. exists (nscope (nth j new dnode)). split; [apply in_map_iff; exists j; split; [reflexivity | exact Hj] | exact Hv]. }
          apply close_app.
          * constructor; [exact Hvn|]. split; cbn [nkids nkind nscope]; [exact Hlt|]. split; [exact Hcat|].
            rewrite <- Eks. apply (ord_to_pos (fun a b => forall v, In v (scope_of new a) -> ~ In v (scope_of new b))).
            unfold ks. apply (fop_somes (fun a b => forall v, In v (scope_of t a) -> ~ In v (scope_of t b))).
            -- apply pos_to_ord. exact Hdj.
            -- intros a b a' b' Ha Hb Hab Ea Eb v Hva Hvb.
               apply (proj2 (kid_some a a' Ha Ea)) in Hva. apply (proj2 (kid_some b b' Hb Eb)) in Hvb.
               exact (Hab v (proj1 Hva) (proj1 Hvb)).
          * intros v. rewrite (scope_of_last T leaf). cbn [nscope]. rewrite Hcat. apply Hps.
    Qed.
  End Step.

  Notation node_pre := (node_pre T t0 t1 tadd tmul K rowok).
  Definition node_pre_v (n : node) : Prop := forall c, nkind n = KLeaf (LClt c) -> clt_handler_valid c.

  Theorem marg_mv t : valid t -> normalised t -> Forall node_pre t -> Forall node_pre_v t ->
      MV t (marg_state T t0 t1 tadd tmul K t).
  Proof.
    unfold marg_state. induction t as [|n t IH] using rev_ind; intros Hv Hn Hp Hpv; [apply mv_init|].
    rewrite fold_left_app. cbn [fold_left].
    apply Forall_app in Hp. destruct Hp as [Hp1 Hp2]. inversion Hp2 as [|? ? [Hs [Hc Hne]] _]; subst.
    apply Forall_app in Hpv. destruct Hpv as [Hpv1 Hpv2]. inversion Hpv2 as [|? ? Hcv _]; subst.
    assert (Hvt : valid t) by (now apply (valid_app_l T t0 t1 tadd tmul dom) in Hv).
    assert (Hnt : normalised t) by (unfold CoreFacts.normalised in *; apply Forall_app in Hn; tauto).
    pose proof (marg_inv T t0 t1 tadd tmul SRth dom K rowok t Hvt Hnt Hp1) as HI.
    specialize (IH Hvt Hnt Hp1 Hpv1). unfold marg_state in HI.
    destruct (fold_left (marg_step K) t ([], [])) as [new m] eqn:Est.
    now apply marg_step_mv.
  Qed.

  (* C10: validity and exact scope of the result *)
  Theorem marginalize_valid t : valid t -> normalised t -> Forall node_pre t -> Forall node_pre_v t -> 0 < length t ->
      forall res root, marginalize T t0 t1 tadd tmul K t = Some (res, root) ->
      valid res /\ root < length res /\
      forall v, In v (scope_of res root) <-> In v (scope_of t (length t - 1)) /\ In v K.
  Proof.
    intros Hv Hn Hp Hpv Hlen res root Hm. unfold marginalize in Hm.
    destruct (marg_guard K _); [|discriminate]. unfold marg_raw in Hm.
    pose proof (marg_inv T t0 t1 tadd tmul SRth dom K rowok t Hv Hn Hp) as [Hl Hrng _ _ _ _].
    pose proof (marg_mv t Hv Hn Hp Hpv) as [Hvm Hsm].
    destruct (nth (length t - 1) (snd (marg_state T t0 t1 tadd tmul K t)) None) as [j|] eqn:Ej; [|discriminate].
    inversion Hm; subst. clear Hm.
    set (mt := fst (marg_state T t0 t1 tadd tmul K t)) in *.
    specialize (Hrng _ _ Ej). specialize (Hsm (length t - 1) j ltac:(lia) Ej).
    assert (Hvf : valid (firstn (S j) mt)) by (now apply valid_firstn).
    assert (Hjl : j < length (firstn (S j) mt)) by (rewrite firstn_length; lia).
    destruct (prune_valid T t0 tadd tmul dom leaf lval (firstn (S j) mt) Hvf) as [P1 P2 P3 P4]. cbn [fst snd] in *.
    split; [exact P1|]. split; [now apply P3|]. intros v. rewrite (P4 j Hjl v).
    replace (scope_of (firstn (S j) mt) j) with (scope_of mt j); [apply Hsm|].
    rewrite <- (firstn_skipn (S j) mt) at 1. apply (scope_of_prefix T leaf). exact Hjl.
  Qed.

  (* when the guard accepted the kept set, the result is a circuit over exactly the kept variables *)
  Corollary marginalize_scope_is_keep t : valid t -> normalised t -> Forall node_pre t -> Forall node_pre_v t -> 0 < length t ->
      forall res root, marginalize T t0 t1 tadd tmul K t = Some (res, root) ->
      forall v, In v (scope_of res root) <-> In v K.
  Proof.
    intros Hv Hn Hp Hpv Hlen res root Hm v.
    destruct (marginalize_valid t Hv Hn Hp Hpv Hlen res root Hm) as (_ & _ & Hs). rewrite Hs.
    unfold marginalize in Hm. destruct (marg_guard K (nscope (nth (length t - 1) t dnode))) eqn:Eg; [|discriminate].
    unfold marg_guard in Eg. destruct K as [|k0 K'] eqn:EK; [discriminate|].
    destruct (nodupb (k0 :: K') && subsetb (k0 :: K') (nscope (nth (length t - 1) t dnode))) eqn:Eb; [|discriminate].
    apply andb_true_iff in Eb. destruct Eb as [_ Hsub].
    split; [tauto|]. intros Hk. split; [|exact Hk].
    unfold subsetb in Hsub. rewrite forallb_forall in Hsub. specialize (Hsub v Hk). now apply (memb_iff).
  Qed.

  (* the Chow-Liu leaf handler returns a valid sub-circuit over the kept part of the leaf's scope *)
  Theorem clt_handler_valid_discharged (c : clt T) : clt_wf T t0 t1 tadd dom c -> clt_handler_valid c.
  Proof.
    intros (Hok & Hroot & Hsc) sub r0 Hm. unfold Marg.marg_clt, to_pc in Hm.
    set (tr := clt_tree T t0 c) in *.
    pose proof (topc_valid T t0 t1 tadd tmul SRth dom tr Hok [] (valid_nil _ _ _ _ _ _) (Forall_nil _)) as Hspec.
    pose proof (topc_root_last T t0 t1 tr []) as Hlast.
    set (NP := fun n0 : node => (forall c', nkind n0 <> KLeaf (LClt c')) /\
                                leaf_scoped T n0 /\ match nkind n0 with KSum _ => nkids n0 <> [] | _ => True end).
    assert (N0 : forall v, NP (ind0 T t0 t1 v)) by (intros v; unfold NP, ind0, leaf_scoped; cbn; split; [discriminate | split; [reflexivity | exact I]]).
    assert (N1 : forall v, NP (ind1 T t0 t1 v)) by (intros v; unfold NP, ind1, leaf_scoped; cbn; split; [discriminate | split; [reflexivity | exact I]]).
    assert (N2 : forall sc k ks, NP (Build_node KProd sc (k :: ks))) by (intros; unfold NP, leaf_scoped; cbn; split; [discriminate | split; exact I]).
    assert (N3 : forall w0 w1 sc a b, NP (Build_node (KSum [w0; w1]) sc [a; b])) by (intros; unfold NP, leaf_scoped; cbn; split; [discriminate | split; [exact I | discriminate]]).
    pose proof (topc_nodes T t0 t1 NP N0 N1 N2 N3 tr [] (Forall_nil _)) as Hnodes. unfold NP in Hnodes.
    destruct (topc T t0 t1 tr []) as [pc [n p]] eqn:Etp. cbn [fst snd] in *.
    destruct Hspec as (_ & Hv & Hn & _ & Hp & Hsceq & Hnd & Hscope).
    assert (Hnoclt : Forall (fun n0 => forall c', nkind n0 <> KLeaf (LClt c')) pc)
      by (eapply Forall_impl; [|exact Hnodes]; cbn; tauto).
    assert (Hpre : Forall node_pre pc).
    { eapply Forall_impl; [|exact Hnodes]. intros n0 (H1 & H2 & H3). split; [exact H2|]. split; [|exact H3].
      intros c' Hc'. exfalso. now apply (H1 c'). }
    assert (Hprev : Forall node_pre_v pc).
    { eapply Forall_impl; [|exact Hnoclt]. intros n0 H1 c' Hc'. exfalso. now apply (H1 c'). }
    unfold marg_simple in Hm. rewrite (fold_simple_eq T t0 t1 tadd tmul) in Hm by exact Hnoclt.
    pose proof (marg_inv T t0 t1 tadd tmul SRth dom K rowok pc Hv Hn Hpre) as [Hl Hrng _ _ _ _].
    pose proof (marg_mv pc Hv Hn Hpre Hprev) as [Hvm Hsm].
    fold (marg_state T t0 t1 tadd tmul K pc) in *.
    assert (Hplen : 0 < length pc) by lia.
    rewrite Hlast in *. cbn [fst snd] in Hm.
    destruct (nth (length pc - 1) (snd (marg_state T t0 t1 tadd tmul K pc)) None) as [r|] eqn:Er; [|discriminate].
    inversion Hm; subst. clear Hm.
    set (mt := fst (marg_state T t0 t1 tadd tmul K pc)) in *.
    specialize (Hrng _ _ Er). specialize (Hsm (length pc - 1) r ltac:(lia) Er).
    assert (Hvf : valid (firstn (S r) mt)) by (now apply valid_firstn).
    assert (Hrl : r < length (firstn (S r) mt)) by (rewrite firstn_length; lia).
    destruct (prune_valid T t0 tadd tmul dom leaf lval (firstn (S r) mt) Hvf) as [P1 P2 P3 P4]. cbn [fst snd] in *.
    split; [exact P1|]. split; [now apply P3|]. intros v. rewrite (P4 r Hrl v).
    replace (scope_of (firstn (S r) mt) r) with (scope_of mt r)
      by (rewrite <- (firstn_skipn (S r) mt) at 1; apply (scope_of_prefix T leaf); exact Hrl).
    rewrite (Hsm v), Hsceq, (Hscope v), (Hsc v). tauto.
  Qed.
End MargValid.
