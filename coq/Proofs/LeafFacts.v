(* Proofs/LeafFacts.v — the built-in leaves meet the three leaf obligations of CoreFacts. *)
From Coq Require Import List Arith ZArith Ring Lia Bool.
From DV Require Import Model.Core Model.Clt Model.Leaves Proofs.CoreFacts Proofs.CltFacts.
Import ListNotations.

Section LeafFacts.
  Variable T : Type.
  Variables (t0 t1 : T) (tadd tmul : T -> T -> T).
  Hypothesis SRth : semi_ring_theory t0 t1 tadd tmul (@eq T).
  Add Ring Tring3 : SRth.
  Variable dom : nat -> list Z.
  Notation sumT := (sumT T t0 tadd).
  Notation leaf := (leaf T).
  Notation leaf_val := (leaf_val T t0 t1 tadd tmul).
  Notation lookup := (lookup T t0).
  Notation leaf_local := (leaf_local T leaf leaf_val).
  Notation leaf_marg := (leaf_marg T t0 tadd dom leaf leaf_val).
  Notation leaf_one := (leaf_one T t1 leaf leaf_val).

  Lemma ltab_local v tab sc : In v sc -> leaf_local (LTab v tab) sc.
  Proof.
    intros Hin r u c Hn. cbn. rewrite upd_other; [reflexivity | intro; subst; contradiction].
  Qed.

  Lemma ltab_marg v tab : sumT (map (lookup tab) (dom v)) = t1 -> leaf_marg (LTab v tab) [v].
  Proof.
    intros Hs r u Hin Hnone. destruct Hin as [<-|[]]. cbn. rewrite Hnone, <- Hs.
    f_equal. apply map_ext. intros x. now rewrite upd_same.
  Qed.

  Lemma ltab_one v tab : leaf_one (LTab v tab) [v].
  Proof. intros r Hm. cbn. now rewrite (Hm v (or_introl eq_refl)). Qed.

  Notation clt_tree := (clt_tree T t0).
  Notation vars := (vars T).

  Lemma lclt_local c sc : (forall v, In v (vars (clt_tree c)) -> In v sc) -> leaf_local (LClt c) sc.
  Proof.
    intros Hsub r v x Hn. cbn. unfold clt_val. apply up_local.
    intro Hv. apply Hn. now apply Hsub.
  Qed.

  Lemma lclt_marg c sc :
    NoDup (vars (clt_tree c)) -> (forall v, In v sc -> In v (vars (clt_tree c))) ->
    (forall v, In v sc -> dom v = dom2) -> leaf_marg (LClt c) sc.
  Proof.
    intros Hnd Hsub Hdom r v Hin Hnone. cbn. unfold clt_val. rewrite (Hdom v Hin).
    apply (up_marg1 T t0 t1 tadd tmul SRth); auto.
  Qed.

  Lemma lclt_one c sc :
    rows_norm T t1 tadd (clt_tree c) -> (forall v, In v (vars (clt_tree c)) -> In v sc) ->
    leaf_one (LClt c) sc.
  Proof.
    intros Hn Hsub r Hm. cbn. unfold clt_val. apply (up_all_missing T t0 t1 tadd tmul SRth); auto.
    cbn; auto.
  Qed.
End LeafFacts.
