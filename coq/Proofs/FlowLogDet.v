(* Proofs/FlowLogDet.v — C15, the determinant step closed: for the autoregressive and the coupling
   layer (model at the reals, arbitrary conditioners with the layer's dependency structure), EVERY
   matrix of partial derivatives of apply_backward at x has determinant exp(reported ildj).
   The reals are registered as a mathcomp commutative ring from the standard library only
   (decidable equality Req_EM_T; a choice operator from ClassicalEpsilon). *)
From mathcomp Require Import all_ssreflect all_fingroup all_algebra.
From Coq Require Import Reals ClassicalEpsilon FunctionalExtensionality.
From Coquelicot Require Import Coquelicot.
From DV Require Import Model.Flow Proofs.FlowFacts Proofs.FlowReal.
From DV Require Import Proofs.DetRank Proofs.FlowJacobian.
Set Implicit Arguments. Unset Strict Implicit. Unset Printing Implicit Defensive.
Import GRing.Theory.

(* ---- R as eqType / choiceType / zmodType / ringType / comRingType ---- *)
Definition eqr (a b : R) : bool := if Req_EM_T a b then true else false.
Lemma eqrP : Equality.axiom eqr.
Proof. by move=> a b; rewrite /eqr; case: Req_EM_T => H; constructor. Qed.
Canonical R_eqMixin := EqMixin eqrP.
Canonical R_eqType := Eval hnf in EqType R R_eqMixin.

Definition pickR (P : pred R) (n : nat) : option R :=
  match excluded_middle_informative (exists x, P x) with
  | left ex => Some (proj1_sig (constructive_indefinite_description _ ex))
  | right _ => None
  end.
Fact pickR_some P n x : pickR P n = Some x -> P x.
Proof. by rewrite /pickR; case: excluded_middle_informative => // ex [<-]; case: constructive_indefinite_description. Qed.
Fact pickR_ex (P : pred R) : (exists x, P x) -> exists n, pickR P n.
Proof. by move=> ex; exists 0%N; rewrite /pickR; case: excluded_middle_informative. Qed.
Fact pickR_ext (P Q : pred R) : P =1 Q -> pickR P =1 pickR Q.
Proof. by move=> /functional_extensionality ->. Qed.
Definition R_choiceMixin : choiceMixin R := Choice.Mixin pickR_some pickR_ex pickR_ext.
Canonical R_choiceType := Eval hnf in ChoiceType R R_choiceMixin.

Fact RplusA : associative Rplus. Proof. by move=> a b c; rewrite Rplus_assoc. Qed.
Definition R_zmodMixin := ZmodMixin RplusA Rplus_comm Rplus_0_l Rplus_opp_l.
Canonical R_zmodType := Eval hnf in ZmodType R R_zmodMixin.
Fact RmultA : associative Rmult. Proof. by move=> a b c; rewrite Rmult_assoc. Qed.
Fact R1_neq_0 : R1 != R0 :> R. Proof. by apply/eqP/R1_neq_R0. Qed.
Definition R_ringMixin := RingMixin RmultA Rmult_1_l Rmult_1_r Rmult_plus_distr_r Rmult_plus_distr_l R1_neq_0.
Canonical R_ringType := Eval hnf in RingType R R_ringMixin.
Canonical R_comRingType := Eval hnf in ComRingType R Rmult_comm.

Local Open Scope ring_scope.

(* products over ordinals vs the list products of FlowJacobian *)
Lemma iota_seq a n : seq.iota a n = List.seq a n.
Proof. by elim: n a => //= n IH a; rewrite IH. Qed.

Lemma prod_ord_fold n (F : nat -> R) :
  \prod_(i < n) F i = List.fold_right Rmult 1%R (vec R n F).
Proof.
rewrite -(big_mkord xpredT F) /index_iota subn0 unlock /= /vec -iota_seq.
by elim: (seq.iota 0%N n) => //= k l ->.
Qed.

Lemma derive_unique2 (f : R -> R) (x a b : R) : is_derive f x a -> is_derive f x b -> a = b.
Proof. by move=> /is_derive_unique <- /is_derive_unique <-. Qed.

Section ARdet.
Variables (n : nat) (deg : nat -> nat) (cond : condT R).
Hypothesis Hcond : forall x x' i, length x = n -> length x' = n -> (i < n)%coq_nat ->
  (forall j, (j < n)%coq_nat -> (deg j < deg i)%coq_nat -> List.nth j x 0%R = List.nth j x' 0%R) ->
  List.nth i (fst (cond x)) 0%R = List.nth i (fst (cond x')) 0%R /\
  List.nth i (snd (cond x)) 0%R = List.nth i (snd (cond x')) 0%R.
Hypothesis Hinj : forall i j, (i < n)%coq_nat -> (j < n)%coq_nat -> deg i = deg j -> i = j.

(* every Jacobian (matrix of partial derivatives) of apply_backward at x has determinant exp(ildj) *)
Theorem ar_logdet (x : list R) (J : 'M[R]_n) : length x = n ->
  (forall i j : 'I_n, is_derive (partial (ar_map n cond) x i j) (List.nth j x 0%R) (J i j)) ->
  \det J = exp (snd (Rar_bwd n cond x)).
Proof.
move=> Hx HJ.
have lt i : (nat_of_ord (i : 'I_n) < n)%coq_nat by apply/ltP.
rewrite (@det_autoregressive _ _ J (fun i => deg i)).
- rewrite -(ar_diag_product n cond x) -(prod_ord_fold n (fun i => exp (- List.nth i (snd (cond x)) 0%R))).
  apply: eq_bigr => i _; apply: (derive_unique2 (HJ i i)). exact: (@ar_jacobian_diag n deg cond Hcond x i Hx (lt i)).
- by move=> i j e; apply: val_inj; apply: (Hinj (lt i) (lt j) e).
- move=> i j /ltP d; apply: (derive_unique2 (HJ i j)); exact: (@ar_jacobian_upper n deg cond Hcond x i j Hx (lt i) (lt j) d).
Qed.
End ARdet.

Section CPdet.
Variables (n : nat) (mask : nat -> bool) (cond : condT R).
Let maskv : list R := vec R n (fun i => if mask i then 1%R else 0%R).
Let imaskv : list R := vec R n (fun i => if mask i then 0%R else 1%R).

Theorem coupling_logdet (x : list R) (J : 'M[R]_n) : length x = n ->
  (forall i j : 'I_n, is_derive (partial (cp_map n mask cond) x i j) (List.nth j x 0%R) (J i j)) ->
  \det J = exp (snd (Rcoupling_bwd true n maskv imaskv cond x)).
Proof.
move=> Hx HJ.
have lt i : (nat_of_ord (i : 'I_n) < n)%coq_nat by apply/ltP.
rewrite (@det_coupling _ _ J (fun i => mask i)).
- rewrite -(cp_diag_product n mask cond x) -prod_ord_fold.
  apply: eq_bigr => i _; apply: (derive_unique2 (HJ i i)); exact: (@cp_jacobian_diag n mask cond x i Hx (lt i)).
- move=> i j ij m; apply: (derive_unique2 (HJ i j)); apply: (@cp_jacobian_zero n mask cond x i j Hx (lt i) (lt j)).
  + by move=> e; move: ij; rewrite (val_inj e) eqxx.
  + by case/orP: m => [->|/negbTE ->]; [left|right].
Qed.
End CPdet.

Section BNdet.
Variables (n : nat) (eps : R) (w b rvar rmean : list R).
Hypothesis Hvar : forall i, (i < n)%coq_nat -> (0 < List.nth i rvar 0 + eps)%R.

(* batch normalisation (evaluation mode): every Jacobian of apply_backward at x has determinant exp(ildj) *)
Theorem bn_logdet (x : list R) (J : 'M[R]_n) : length x = n ->
  (forall i j : 'I_n, is_derive (partial (bn_map n eps w b rvar rmean) x i j) (List.nth j x 0%R) (J i j)) ->
  \det J = exp (snd (Rbn_bwd n eps w b rvar rmean x)).
Proof.
move=> Hx HJ.
have lt i : (nat_of_ord (i : 'I_n) < n)%coq_nat by apply/ltP.
rewrite (@det_elementwise _ _ J).
- rewrite -(bn_diag_product n eps w b rvar rmean x) -prod_ord_fold.
  apply: eq_bigr => i _; apply: (derive_unique2 (HJ i i)).
  exact: (@bn_jacobian_diag n eps w b rvar rmean Hvar x i Hx (lt i)).
- move=> i j ij; apply: (derive_unique2 (HJ i j)).
  apply: (@bn_jacobian_offdiag n eps w b rvar rmean x i j Hx (lt i) (lt j)).
  by move=> e; move: ij; rewrite (val_inj e) eqxx.
Qed.
End BNdet.

Section LogitDet.
Variables (n : nat) (a : R).
Hypothesis Ha : (0 < a < 1 / 2)%R.

(* logit preprocessing on data in the unit cube: every Jacobian of apply_backward at x has determinant exp(ildj) *)
Theorem logit_logdet (x : list R) (J : 'M[R]_n) : length x = n ->
  (forall i, (i < n)%coq_nat -> (0 <= List.nth i x 0 <= 1)%R) ->
  (forall i j : 'I_n, is_derive (partial (logit_map n a) x i j) (List.nth j x 0%R) (J i j)) ->
  \det J = exp (snd (Rlogit_bwd n a (Rlogit_ldjc n a) x)).
Proof.
move=> Hx Hr HJ.
have lt i : (nat_of_ord (i : 'I_n) < n)%coq_nat by apply/ltP.
rewrite (@det_elementwise _ _ J).
- rewrite -(logit_diag_product n a x) -prod_ord_fold.
  apply: eq_bigr => i _; apply: (derive_unique2 (HJ i i)).
  exact: (@logit_jacobian_diag n a Ha x i Hx (lt i) (Hr i (lt i))).
- move=> i j ij; apply: (derive_unique2 (HJ i j)).
  apply: (@logit_jacobian_offdiag n a x i j Hx (lt i) (lt j)).
  by move=> e; move: ij; rewrite (val_inj e) eqxx.
Qed.
End LogitDet.

Section CPAdet.
Variables (n : nat) (mask : nat -> bool) (cond : condT R).
Let maskv : list R := vec R n (fun i => if mask i then 1%R else 0%R).
Let imaskv : list R := vec R n (fun i => if mask i then 0%R else 1%R).

(* additive coupling: the Jacobian is unit-triangular, the reported log-det is 0 *)
Theorem coupling_additive_logdet (x : list R) (J : 'M[R]_n) : length x = n ->
  (forall i j : 'I_n, is_derive (partial (cpa_map n mask cond) x i j) (List.nth j x 0%R) (J i j)) ->
  \det J = exp (snd (Rcoupling_bwd false n maskv imaskv cond x)).
Proof.
move=> Hx HJ.
have lt i : (nat_of_ord (i : 'I_n) < n)%coq_nat by apply/ltP.
rewrite (cpa_ldj n mask cond x) exp_0 (@det_coupling _ _ J (fun i => mask i)).
- rewrite big1 // => i _; apply: (derive_unique2 (HJ i i)); exact: (@cpa_jacobian_diag n mask cond x i Hx (lt i)).
- move=> i j ij m; apply: (derive_unique2 (HJ i j)); apply: (@cpa_jacobian_zero n mask cond x i j Hx (lt i) (lt j)).
  + by move=> e; move: ij; rewrite (val_inj e) eqxx.
  + by case/orP: m => [->|/negbTE ->]; [left|right].
Qed.
End CPAdet.
