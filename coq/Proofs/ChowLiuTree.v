(* Proofs/ChowLiuTree.v — rooted spanning trees as predecessor vectors: what `is_tree` guarantees,
   completeness of the enumeration `all_parent_vectors`, soundness of `brute_max` and of the
   optimality certificate `opt_cert`, for every number of variables. *)
From Coq Require Import List Arith ZArith Bool Lia.
From DV Require Import Model.Core Model.Clt Model.ChowLiu.
Import ListNotations.
Local Open Scope nat_scope.

Section TreeFacts.
  Variable w : nat -> nat -> Z.
  Notation weight := (weight w).
  Notation max_over := (max_over w).
  Notation brute_max := (brute_max w).
  Notation opt_cert := (opt_cert w).

  Lemma is_tree_parts n root p : is_tree n root p = true ->
    length p = n /\ root < n /\ (forall i, i < n -> entry_ok n root p i = true) /\
    (forall i, i < n -> reaches p root n i = true).
  Proof.
    unfold is_tree. rewrite !andb_true_iff, !forallb_forall. intros [[[Hl Hr] He] Hc].
    apply Nat.eqb_eq in Hl. apply Nat.ltb_lt in Hr.
    repeat split; auto; intros i Hi; [apply He | apply Hc]; apply in_seq; lia.
  Qed.

  (* ---------- the root ---------- *)
  Lemma find_root_spec : forall l s k, k < length l -> nth k l None = None ->
      (forall j, j < k -> nth j l None <> None) -> find_root l s = s + k.
  Proof.
    induction l as [|a l IH]; intros s k Hk Hn Hb; cbn in Hk; [lia|]. destruct k as [|k].
    - cbn in Hn. subst. cbn. lia.
    - cbn [find_root]. destruct a as [x|].
      + rewrite (IH (S s) k); [lia | lia | exact Hn |]. intros j Hj. apply (Hb (S j)). lia.
      + exfalso. apply (Hb 0); [lia | reflexivity].
  Qed.

  Theorem is_tree_root n root p : is_tree n root p = true ->
    root < n /\ par_of p root = None /\
    (forall i, i < n -> i <> root -> exists j, par_of p i = Some j /\ j < n) /\
    find_root p 0 = root.
  Proof.
    intro H. destruct (is_tree_parts _ _ _ H) as (Hl & Hr & He & _).
    assert (Hroot : par_of p root = None).
    { specialize (He root Hr). unfold entry_ok in He. destruct (par_of p root); [|reflexivity].
      rewrite Nat.eqb_refl in He. discriminate. }
    assert (Hoth : forall i, i < n -> i <> root -> exists j, par_of p i = Some j /\ j < n).
    { intros i Hi Hne. specialize (He i Hi). unfold entry_ok in He. destruct (par_of p i) as [j|].
      - exists j. split; [reflexivity|]. apply andb_true_iff in He. destruct He as [_ He]. now apply Nat.ltb_lt in He.
      - apply Nat.eqb_eq in He. contradiction. }
    repeat split; auto.
    rewrite (find_root_spec p 0 root); [reflexivity | lia | exact Hroot |].
    intros j Hj Hn. destruct (Hoth j ltac:(lia) ltac:(lia)) as [x [E _]]. unfold par_of in E. congruence.
  Qed.

  (* ---------- every variable is connected to the root ---------- *)
  Fixpoint anc (p : list (option nat)) (k i : nat) : option nat :=
    match k with
    | O => Some i
    | S k' => match par_of p i with Some j => anc p k' j | None => None end
    end.
  Lemma reaches_anc p root : forall fuel i, reaches p root fuel i = true ->
      exists k, k <= fuel /\ anc p k i = Some root.
  Proof.
    induction fuel as [|f IH]; intros i; cbn [reaches]; destruct (Nat.eqb_spec i root) as [->|Hne]; intro H.
    - exists 0. split; [lia | reflexivity].
    - discriminate.
    - exists 0. split; [lia | reflexivity].
    - destruct (par_of p i) as [j|] eqn:E; [|discriminate]. destruct (IH _ H) as [k [Hk Ha]].
      exists (S k). split; [lia|]. cbn. now rewrite E.
  Qed.
  Theorem is_tree_spanning n root p : is_tree n root p = true ->
    forall i, i < n -> exists k, k <= n /\ anc p k i = Some root.
  Proof. intros H i Hi. destruct (is_tree_parts _ _ _ H) as (_ & _ & _ & Hc). apply reaches_anc. now apply Hc. Qed.

  (* ---------- the enumeration contains every rooted spanning tree ---------- *)
  Definition shape_ok (n root i : nat) (l : list (option nat)) : Prop :=
    forall k, k < length l ->
      match nth k l None with None => i + k = root | Some j => i + k <> root /\ j < n end.

  Lemma all_vecs_in n root : forall len i l, length l = len -> shape_ok n root i l ->
      In l (all_vecs n root i len).
  Proof.
    induction len as [|len IH]; intros i l Hl Hs.
    - destruct l; [left; reflexivity | discriminate].
    - destruct l as [|x tl]; [discriminate|]. cbn in Hl. injection Hl as Hl.
      assert (Htl : In tl (all_vecs n root (S i) len)).
      { apply IH; [exact Hl|]. intros k Hk. pose proof (Hs (S k)) as Hs'. cbn in Hs'.
        replace (S i + k) with (i + S k) by lia. apply Hs'. lia. }
      pose proof (Hs 0) as H0. cbn in H0. rewrite Nat.add_0_r in H0. specialize (H0 ltac:(lia)).
      cbn [all_vecs]. destruct x as [j|].
      + destruct H0 as [Hne Hj]. destruct (Nat.eqb_spec i root); [contradiction|].
        apply in_flat_map. exists j. split; [apply in_seq; lia | now apply in_map].
      + subst. rewrite Nat.eqb_refl. now apply in_map.
  Qed.

  Lemma is_tree_in_vecs n root p : is_tree n root p = true -> In p (all_parent_vectors n root).
  Proof.
    intro H. destruct (is_tree_parts _ _ _ H) as (Hl & Hr & He & _).
    apply all_vecs_in; [exact Hl|]. intros k Hk. rewrite Hl in Hk. specialize (He k Hk).
    unfold entry_ok, par_of in He. cbn. destruct (nth k p None) as [j|].
    - apply andb_true_iff in He. destruct He as [H1 H2]. apply Nat.ltb_lt in H2.
      apply negb_true_iff in H1. apply Nat.eqb_neq in H1. auto.
    - now apply Nat.eqb_eq in He.
  Qed.

  (* ---------- brute force ---------- *)
  Lemma max_over_sound n root l p : In p l -> is_tree n root p = true ->
      exists m, max_over n root l = Some m /\ (weight p <= m)%Z.
  Proof.
    induction l as [|a l IH]; intros Hin Ht; [contradiction|]. cbn [ChowLiu.max_over]. destruct Hin as [->|Hin].
    - rewrite Ht. destruct (max_over n root l); cbn; eexists; (split; [reflexivity|lia]).
    - destruct (IH Hin Ht) as [m [E Hm]]. rewrite E.
      destruct (is_tree n root a); [cbn; eexists; split; [reflexivity|lia] | eauto].
  Qed.

  Lemma max_over_attained n root l m : max_over n root l = Some m ->
      exists p, In p l /\ is_tree n root p = true /\ weight p = m.
  Proof.
    revert m. induction l as [|a l IH]; intros m; cbn [ChowLiu.max_over]; [discriminate|].
    destruct (is_tree n root a) eqn:E.
    - destruct (max_over n root l) as [m'|] eqn:E2; cbn; intros [= <-].
      + destruct (Z.max_spec (weight a) m') as [[_ ->]|[_ ->]].
        * destruct (IH m' eq_refl) as [p [Hin [Ht Hw]]]. exists p. auto with datatypes.
        * exists a. auto with datatypes.
      + exists a. auto with datatypes.
    - intro H. destruct (IH m H) as [p [Hin [Ht Hw]]]. exists p. auto with datatypes.
  Qed.

  (* no rooted spanning tree, of any size, weighs more than brute_max *)
  Theorem brute_sound n root p : is_tree n root p = true ->
      exists m, brute_max n root = Some m /\ (weight p <= m)%Z.
  Proof. intro H. apply max_over_sound; [now apply is_tree_in_vecs | exact H]. Qed.

  Theorem brute_attained n root m : brute_max n root = Some m ->
      exists p, is_tree n root p = true /\ weight p = m.
  Proof. intro H. destruct (max_over_attained _ _ _ _ H) as [p [_ Hp]]. eauto. Qed.

  (* the per-run certificate: an accepted predecessor vector is a spanning tree rooted at root whose
     weight is within slack of EVERY spanning tree's weight *)
  Theorem opt_cert_sound n root p slack : opt_cert n root p slack = true ->
      is_tree n root p = true /\
      forall p', is_tree n root p' = true -> (weight p' <= weight p + slack)%Z.
  Proof.
    unfold ChowLiu.opt_cert. rewrite andb_true_iff. intros [Ht Hc]. split; [exact Ht|]. intros p' Hp'.
    destruct (brute_sound n root p' Hp') as [m [E Hm]]. fold (brute_max n root) in Hc. rewrite E in Hc.
    apply Z.leb_le in Hc. lia.
  Qed.

  (* ---------- a spanning tree always exists (the star), so brute_max is defined ---------- *)
  Definition star (n root : nat) : list (option nat) :=
    map (fun i => if Nat.eqb i root then None else Some root) (seq 0 n).
  Lemma nth_map_seq {A} (f : nat -> A) d : forall n s i, i < n -> nth i (map f (seq s n)) d = f (s + i).
  Proof.
    induction n as [|n IH]; intros s i Hi; [lia|]. destruct i as [|i]; cbn; [now rewrite Nat.add_0_r|].
    rewrite IH by lia. f_equal. lia.
  Qed.
  Lemma star_is_tree n root : root < n -> is_tree n root (star n root) = true.
  Proof.
    intro Hr. unfold is_tree.
    assert (Hnth : forall i, i < n -> par_of (star n root) i = if Nat.eqb i root then None else Some root).
    { intros i Hi. unfold par_of, star. now rewrite nth_map_seq by exact Hi. }
    rewrite !andb_true_iff, !forallb_forall. repeat split.
    - unfold star. rewrite map_length, seq_length. apply Nat.eqb_refl.
    - now apply Nat.ltb_lt.
    - intros i Hi. apply in_seq in Hi. unfold entry_ok. rewrite Hnth by lia.
      destruct (Nat.eqb i root); [reflexivity|]. cbn. now apply Nat.ltb_lt.
    - intros i Hi. apply in_seq in Hi. destruct n as [|f]; [lia|]. cbn [reaches].
      destruct (Nat.eqb_spec i root) as [|Hne]; [reflexivity|]. rewrite Hnth by lia.
      destruct (Nat.eqb_spec i root); [contradiction|]. destruct f; cbn [reaches]; now rewrite Nat.eqb_refl.
  Qed.

  Theorem brute_max_is_max n root : root < n ->
      exists m, brute_max n root = Some m /\
                (forall p, is_tree n root p = true -> (weight p <= m)%Z) /\
                (exists p, is_tree n root p = true /\ weight p = m).
  Proof.
    intro Hr. destruct (brute_sound n root _ (star_is_tree n root Hr)) as [m [E _]].
    exists m. split; [exact E|]. split.
    - intros p Hp. destruct (brute_sound n root p Hp) as [m' [E' Hm]]. congruence.
    - now apply brute_attained.
  Qed.
End TreeFacts.

(* the hypotheses are satisfiable and the certificate discriminates: on three variables with
   w(1,0) = 5, w(2,0) = 1, w(2,1) = 4 the chain 0 <- 1 <- 2 is accepted and the star is rejected *)
Example c11_example_cert :
  let w := fun i j => nth j (nth i [[0; 5; 1]; [5; 0; 4]; [1; 4; 0]]%Z []) 0%Z in
  opt_cert w 3 0 [None; Some 0; Some 1] 0 = true /\ opt_cert w 3 0 [None; Some 0; Some 0] 0 = false /\
  brute_max w 3 0 = Some 9%Z.
Proof. vm_compute. auto. Qed.
