(* Proofs/FlowFacts.v — C15: combinatorics of masks / orderings / index maps and the algebraic
   inverse and log-determinant identities of the flow layers, for every size and every conditioner. *)
From Coq Require Import List Arith Bool ZArith Lia ZifyNat Ring Field.
From DV Require Import Model.Flow.
Import ListNotations.

(* ------------------------------------------------------------------ *)
(* generic list helpers                                                *)
(* ------------------------------------------------------------------ *)
Lemma nth_map_in {A B} (f : A -> B) l r d d' : r < length l -> nth r (map f l) d = f (nth r l d').
Proof. intros. rewrite nth_indep with (d' := f d') by (now rewrite map_length). apply map_nth. Qed.

Lemma last_indep {A} (b : A) l d d' : last (b :: l) d = last (b :: l) d'.
Proof. revert b; induction l as [|c l IH]; intros; [reflexivity|]. change (last (c :: l) d = last (c :: l) d'). apply IH. Qed.
Lemma last_cons {A} (a : A) l d : last (a :: l) d = last l a.
Proof. destruct l as [|b l]; [reflexivity|]. change (last (b :: l) d = last (b :: l) a). apply last_indep. Qed.

Section VecFacts.
  Variable T : Type.
  Variable t0 : T.
  Notation "x @ i" := (nth i x t0) (at level 9, i at next level).

  Lemma vec_length n (f : nat -> T) : length (vec T n f) = n.
  Proof. unfold vec. now rewrite map_length, seq_length. Qed.
  Lemma vec_nth n (f : nat -> T) i : i < n -> (vec T n f)@i = f i.
  Proof. intros. unfold vec. rewrite nth_map_in with (d' := 0) by (now rewrite seq_length).
    now rewrite seq_nth. Qed.
  Lemma vec_nth_out n (f : nat -> T) i : n <= i -> (vec T n f)@i = t0.
  Proof. intros. apply nth_overflow. now rewrite vec_length. Qed.
  Lemma vec_ext n (f g : nat -> T) : (forall i, i < n -> f i = g i) -> vec T n f = vec T n g.
  Proof. intros H. apply map_ext_in. intros a Ha. apply in_seq in Ha. apply H. lia. Qed.
  Lemma vec_id x n : length x = n -> vec T n (fun i => x@i) = x.
  Proof. intros. apply nth_ext with (d := t0) (d' := t0). now rewrite vec_length.
    intros i Hi. rewrite vec_length in Hi. now rewrite vec_nth. Qed.
  Lemma list_eq_vec x n f : length x = n -> (forall i, i < n -> x@i = f i) -> x = vec T n f.
  Proof. intros. apply nth_ext with (d := t0) (d' := t0). now rewrite vec_length.
    intros i Hi. rewrite vec_nth by lia. apply H0. lia. Qed.

  Lemma upd_length l i (v : T) : length (upd T l i v) = length l.
  Proof. revert i; induction l; intros [|i]; simpl; auto. Qed.
  Lemma upd_nth_eq l i (v : T) : i < length l -> (upd T l i v)@i = v.
  Proof. revert i; induction l; intros [|i] H; simpl in *; try lia; auto. apply IHl. lia. Qed.
  Lemma upd_nth_neq l i j (v : T) : i <> j -> (upd T l i v)@j = l@j.
  Proof. revert i j; induction l; intros [|i] [|j] H; simpl; auto; try lia. Qed.

  Lemma lo_hi_app m x : length x = m + m -> lo T t0 m x ++ hi T t0 m x = x.
  Proof. intros. apply nth_ext with (d := t0) (d' := t0).
    - unfold lo, hi. now rewrite app_length, !vec_length.
    - intros i Hi. unfold lo, hi in *. rewrite app_length, !vec_length in Hi.
      destruct (lt_dec i m).
      + rewrite app_nth1 by (now rewrite vec_length). now rewrite vec_nth.
      + rewrite app_nth2 by (rewrite vec_length; lia). rewrite vec_length, vec_nth by lia. f_equal. lia.
  Qed.
  Lemma lo_app m a b : length a = m -> lo T t0 m (a ++ b) = a.
  Proof. intros. unfold lo. symmetry. apply list_eq_vec; auto. intros. now rewrite app_nth1 by lia. Qed.
  Lemma hi_app m a b : length a = m -> length b = m -> hi T t0 m (a ++ b) = b.
  Proof. intros. unfold hi. symmetry. apply list_eq_vec; auto. intros.
    rewrite app_nth2 by lia. f_equal. lia. Qed.
End VecFacts.

(* ------------------------------------------------------------------ *)
(* (a) masks and connectivity                                           *)
(* ------------------------------------------------------------------ *)
Lemma mget_out_row M r c : length M <= r -> mget M r c = false.
Proof. intros. unfold mget. rewrite (nth_overflow M) by lia. now destruct c. Qed.

Lemma bmul_length A B nin nc : length (bmul A B nin nc) = length A.
Proof. unfold bmul. now rewrite map_length. Qed.

Lemma mget_bmul A B nin nc r c :
  mget (bmul A B nin nc) r c =
  (r <? length A) && (c <? nc) && existsb (fun h => mget A r h && mget B h c) (seq 0 nin).
Proof.
  destruct (Nat.ltb_spec r (length A)); [|now rewrite mget_out_row by (rewrite bmul_length; lia)].
  unfold mget at 1, bmul. rewrite nth_map_in with (d' := []) by lia.
  destruct (Nat.ltb_spec c nc).
  - rewrite nth_map_in with (d' := 0) by (now rewrite seq_length). rewrite seq_nth by lia. reflexivity.
  - rewrite nth_overflow by (rewrite map_length, seq_length; lia). reflexivity.
Qed.

Lemma mget_ident n r c : mget (ident n) r c = (r <? n) && (c <? n) && (r =? c).
Proof.
  destruct (Nat.ltb_spec r n); [|now rewrite mget_out_row by (unfold ident; rewrite map_length, seq_length; lia)].
  unfold mget, ident. rewrite nth_map_in with (d' := 0) by (now rewrite seq_length). rewrite seq_nth by lia.
  destruct (Nat.ltb_spec c n).
  - rewrite nth_map_in with (d' := 0) by (now rewrite seq_length). now rewrite seq_nth by lia.
  - rewrite nth_overflow by (rewrite map_length, seq_length; lia). reflexivity.
Qed.

Lemma mget_mask_le d1 d2 r c :
  mget (mask_le d1 d2) r c = (r <? length d2) && (c <? length d1) && (nth c d1 0 <=? nth r d2 0).
Proof.
  destruct (Nat.ltb_spec r (length d2)); [|now rewrite mget_out_row by (unfold mask_le; rewrite map_length; lia)].
  unfold mget, mask_le. rewrite nth_map_in with (d' := 0) by lia.
  destruct (Nat.ltb_spec c (length d1)).
  - now rewrite nth_map_in with (d' := 0) by lia.
  - rewrite nth_overflow by (rewrite map_length; lia). reflexivity.
Qed.
Lemma mget_mask_lt d1 d2 r c :
  mget (mask_lt d1 d2) r c = (r <? length d2) && (c <? length d1) && (nth c d1 0 <? nth r d2 0).
Proof.
  destruct (Nat.ltb_spec r (length d2)); [|now rewrite mget_out_row by (unfold mask_lt; rewrite map_length; lia)].
  unfold mget, mask_lt. rewrite nth_map_in with (d' := 0) by lia.
  destruct (Nat.ltb_spec c (length d1)).
  - now rewrite nth_map_in with (d' := 0) by lia.
  - rewrite nth_overflow by (rewrite map_length; lia). reflexivity.
Qed.

Lemma conn_from_app P Ms M nc :
  conn_from P (Ms ++ [M]) nc = bmul M (conn_from P Ms nc) (length (conn_from P Ms nc)) nc.
Proof. revert P; induction Ms as [|M1 Ms IH]; intros; simpl; [reflexivity|]. apply IH. Qed.

Lemma conn_hidden d0 nc : forall rest d P,
  (forall h j, mget P h j = true -> nth j d0 0 <= nth h d 0) ->
  forall r j, mget (conn_from P (hidden_masks d rest) nc) r j = true -> nth j d0 0 <= nth r (last rest d) 0.
Proof.
  induction rest as [|d2 tl IH]; intros d P HP r j H; [simpl in *; now apply HP|].
  rewrite last_cons. simpl hidden_masks in H. simpl conn_from in H. eapply IH; [|exact H].
  intros h j' Hb. rewrite mget_bmul in Hb. apply andb_prop in Hb as [_ Hb].
  apply existsb_exists in Hb as [h' [_ Hb]]. apply andb_prop in Hb as [H1 H2].
  rewrite mget_mask_le in H1. apply andb_prop in H1 as [_ H1]. apply Nat.leb_le in H1.
  specialize (HP _ _ H2). lia.
Qed.

(* composed connectivity of the masks built from ANY degree lists (sequential, reversed, random;
   any depth and width) is strictly autoregressive with respect to the input degrees *)
Theorem masks_autoregressive : forall (d0 : list nat) (rest : list (list nat)) r j,
  mget (conn (length d0) (build_masks (d0 :: rest))) r j = true -> nth j d0 0 < nth r d0 0.
Proof.
  intros d0 rest r j H. unfold conn, build_masks in H. rewrite conn_from_app, mget_bmul in H.
  apply andb_prop in H as [_ H]. apply existsb_exists in H as [h [_ H]]. apply andb_prop in H as [H1 H2].
  rewrite mget_mask_lt in H1. apply andb_prop in H1 as [_ H1]. apply Nat.ltb_lt in H1.
  apply conn_hidden with (d0 := d0) in H2; [lia|].
  intros h' j' Hi. rewrite mget_ident in Hi. apply andb_prop in Hi as [_ Hi]. apply Nat.eqb_eq in Hi. subst. lia.
Qed.

Lemma tile_last_app Ms M : tile_last (Ms ++ [M]) = Ms ++ [tile2 M].
Proof. induction Ms as [|M1 Ms IH]; [reflexivity|]. simpl app.
  change (tile_last (M1 :: Ms ++ [M])) with
    (match Ms ++ [M] with [] => [tile2 M1] | _ :: _ => M1 :: tile_last (Ms ++ [M]) end).
  destruct (Ms ++ [M]) eqn:E; [destruct Ms; discriminate|]. now rewrite IH. Qed.

Lemma bmul_tile A B nin nc : bmul (tile2 A) B nin nc = tile2 (bmul A B nin nc).
Proof. unfold tile2, bmul. apply map_app. Qed.

Lemma conn_length_build d0 rest :
  length (conn (length d0) (build_masks (d0 :: rest))) = length d0.
Proof. unfold conn, build_masks. rewrite conn_from_app, bmul_length. unfold mask_lt. now rewrite map_length. Qed.

(* the same for the network actually built: last mask tiled twice (rows i and n+i produce t_i, s_i) *)
Theorem masks_autoregressive_tiled : forall (d0 : list nat) (rest : list (list nat)) r j,
  mget (conn (length d0) (tile_last (build_masks (d0 :: rest)))) r j = true ->
  r < 2 * length d0 /\ nth j d0 0 < nth (r mod length d0) d0 0.
Proof.
  intros d0 rest r j H.
  assert (E : conn (length d0) (tile_last (build_masks (d0 :: rest))) =
              tile2 (conn (length d0) (build_masks (d0 :: rest)))).
  { unfold conn, build_masks. rewrite tile_last_app, !conn_from_app. apply bmul_tile. }
  rewrite E in H. pose proof (conn_length_build d0 rest) as HL. unfold tile2, mget in H.
  set (C := conn (length d0) (build_masks (d0 :: rest))) in *.
  destruct (lt_dec r (length d0)).
  - rewrite app_nth1 in H by lia. split; [lia|]. rewrite Nat.mod_small by lia. now apply masks_autoregressive with (rest := rest).
  - destruct (lt_dec r (2 * length d0)).
    + rewrite app_nth2 in H by lia. rewrite HL in H. split; [lia|].
      replace (r mod length d0) with (r - length d0).
      * now apply masks_autoregressive with (rest := rest).
      * replace r with ((r - length d0) + 1 * length d0) at 2 by lia.
        rewrite Nat.mod_add by lia. now rewrite Nat.mod_small by lia.
    + rewrite (nth_overflow (C ++ C)) in H by (rewrite app_length; lia). now destruct j.
Qed.

(* soundness of the per-run certificate *)
Lemma autoreg_ok_sound n ord C : autoreg_ok n ord C = true ->
  forall r j, mget C r j = true -> j < n -> nth j ord 0 < nth (r mod n) ord 0.
Proof.
  unfold autoreg_ok. intros H r j Hm Hj.
  destruct (lt_dec r (length C)); [|now rewrite mget_out_row in Hm by lia].
  rewrite forallb_forall in H. specialize (H r). rewrite in_seq in H. specialize (H ltac:(lia)).
  rewrite forallb_forall in H. specialize (H j). rewrite in_seq in H. specialize (H ltac:(lia)).
  rewrite Hm in H. simpl in H. now apply Nat.ltb_lt.
Qed.

(* complementary coupling masks *)
Lemma alt_mask_compl D r : alt_mask D (negb r) = map negb (alt_mask D r).
Proof. unfold alt_mask. rewrite map_map. apply map_ext. intros. now destruct r, (a mod 2 =? 1). Qed.
Lemma checker_mask_compl H W r : checker_mask H W (negb r) = map negb (checker_mask H W r).
Proof. unfold checker_mask. rewrite !flat_map_concat_map, concat_map, map_map. f_equal. apply map_ext. intros h.
  rewrite map_map. apply map_ext. intros. now destruct r, ((h + a) mod 2 =? 1). Qed.
Lemma alt_mask_length D r : length (alt_mask D r) = D.
Proof. unfold alt_mask. now rewrite map_length, seq_length. Qed.

(* ------------------------------------------------------------------ *)
(* orderings                                                            *)
(* ------------------------------------------------------------------ *)
Lemma index_of_spec k l : In k l -> index_of k l < length l /\ nth (index_of k l) l 0 = k.
Proof. induction l as [|x l IH]; intros H; [destruct H|]. simpl. destruct (Nat.eqb_spec x k); [split; [lia|auto]|].
  destruct H as [H|H]; [contradiction|]. destruct (IH H). split; [lia|auto]. Qed.
Lemma index_of_first k l i : i < length l -> nth i l 0 = k -> (forall i', i' < i -> nth i' l 0 <> k) -> index_of k l = i.
Proof. revert i; induction l as [|x l IH]; intros i Hi Hk Hf; simpl in *; [lia|].
  destruct i.
  - subst. now rewrite Nat.eqb_refl.
  - destruct (Nat.eqb_spec x k). { exfalso. apply (Hf 0); [lia|auto]. }
    f_equal. apply IH; [lia|auto|]. intros i' Hi'. apply (Hf (S i')). lia. Qed.

(* a list of length n containing every k < n is a bijection of 0..n-1 *)
Lemma is_perm_b_sound ord : is_perm_b ord = true -> forall k, k < length ord -> In k ord.
Proof. unfold is_perm_b. intros H k Hk. rewrite forallb_forall in H. specialize (H k). rewrite in_seq in H.
  specialize (H ltac:(lia)). apply existsb_exists in H as [x [Hx E]]. apply Nat.eqb_eq in E. now subst. Qed.

Lemma perm_nodup ord : (forall k, k < length ord -> In k ord) -> NoDup ord /\ forall x, In x ord -> x < length ord.
Proof.
  intros H. assert (Hinc : incl (seq 0 (length ord)) ord) by (intros k Hk; apply in_seq in Hk; apply H; lia).
  assert (ND : NoDup ord).
  { apply NoDup_incl_NoDup with (l := seq 0 (length ord)) (l' := ord) in Hinc.
    - exact Hinc. - apply seq_NoDup. - now rewrite seq_length. }
  split; [exact ND|]. intros x Hx.
  assert (Hinc2 : incl ord (seq 0 (length ord))).
  { apply NoDup_length_incl; [apply seq_NoDup|now rewrite seq_length|exact Hinc]. }
  apply Hinc2 in Hx. apply in_seq in Hx. lia.
Qed.

(* the order in which apply_forward visits the coordinates: k-th visited coordinate has degree k,
   and every coordinate i is visited at step ord[i] *)
Lemma inv_ordering_spec ord : (forall k, k < length ord -> In k ord) ->
  length (inv_ordering ord) = length ord /\
  (forall k, k < length ord -> nth k (inv_ordering ord) 0 < length ord /\ nth (nth k (inv_ordering ord) 0) ord 0 = k) /\
  (forall i, i < length ord -> nth i ord 0 < length ord /\ nth (nth i ord 0) (inv_ordering ord) 0 = i).
Proof.
  intros H. destruct (perm_nodup ord H) as [ND Hlt]. unfold inv_ordering.
  split; [now rewrite map_length, seq_length|]. split.
  - intros k Hk. rewrite nth_map_in with (d' := 0) by (now rewrite seq_length). rewrite seq_nth by lia. simpl.
    apply index_of_spec. now apply H.
  - intros i Hi. assert (Hi' : nth i ord 0 < length ord) by (apply Hlt, nth_In; lia). split; [exact Hi'|].
    rewrite nth_map_in with (d' := 0) by (now rewrite seq_length). rewrite seq_nth by lia. simpl.
    apply index_of_first; auto. intros i' Hi'' E.
    rewrite NoDup_nth with (d := 0) in ND. specialize (ND i' i ltac:(lia) ltac:(lia) E). lia.
Qed.

(* ------------------------------------------------------------------ *)
(* index maps: squeeze / unsqueeze / permutation convolution            *)
(* ------------------------------------------------------------------ *)
Ltac Zify.zify_post_hook ::= Z.to_euclidean_division_equations.

(* positions of a [C,H,W] tensor *)
Definition in3 (C H W : nat) (p : idx3) : Prop := let '(c, h, w) := p in c < C /\ h < H /\ w < W.

Theorem squeeze_then_unsqueeze : forall C H W p, in3 C (2 * H) (2 * W) p ->
  in3 (4 * C) H W (unsq_src p) /\ sq_src (unsq_src p) = p.
Proof. intros C H W [[c h] w] (Hc & Hh & Hw). unfold unsq_src, sq_src, in3.
  split; [lia|]. f_equal; [f_equal|]; lia. Qed.

Theorem unsqueeze_then_squeeze : forall C H W o, in3 (4 * C) H W o ->
  in3 C (2 * H) (2 * W) (sq_src o) /\ unsq_src (sq_src o) = o.
Proof. intros C H W [[c h] w] (Hc & Hh & Hw). unfold unsq_src, sq_src, in3.
  split; [lia|]. f_equal; [f_equal|]; lia. Qed.

Lemma mod2_cases h : h mod 2 = 0 \/ h mod 2 = 1.
Proof. lia. Qed.

Theorem perm_src_dst : forall C H W k i oh ow, k < 4 -> i < C -> oh < H -> ow < W ->
  in3 C (2 * H) (2 * W) (perm_src (k, i, oh, ow)) /\ perm_dst (perm_src (k, i, oh, ow)) = (k, i, oh, ow).
Proof. intros C H W k i oh ow Hk Hi Hh Hw. unfold perm_src, perm_dst, in3.
  destruct k as [|[|[|[|k]]]]; try lia; simpl off_h; simpl off_w; (split; [lia|]).
  all: repeat match goal with |- context [(2 * ?x + ?a) mod 2] => replace ((2 * x + a) mod 2) with a by lia end.
  all: simpl off_code; repeat f_equal; lia. Qed.

Theorem perm_dst_src : forall C H W p, in3 C (2 * H) (2 * W) p ->
  (let '(k, i, oh, ow) := perm_dst p in k < 4 /\ i < C /\ oh < H /\ ow < W) /\ perm_src (perm_dst p) = p.
Proof. intros C H W [[c h] w] (Hc & Hh & Hw). unfold perm_dst, perm_src.
  destruct (mod2_cases h) as [Eh|Eh], (mod2_cases w) as [Ew|Ew]; rewrite Eh, Ew; simpl off_code; simpl off_h; simpl off_w;
  (split; [lia|]); (f_equal; [f_equal|]; lia). Qed.

(* flattening of the structured output channel (k, i) -> k*C + i used by permconv_list *)
Lemma chan_flat_div C k i : i < C -> (k * C + i) / C = k /\ (k * C + i) mod C = i.
Proof. intros. split.
  - rewrite Nat.add_comm, Nat.div_add by lia. rewrite Nat.div_small by lia. lia.
  - rewrite Nat.add_comm, Nat.mod_add by lia. now apply Nat.mod_small. Qed.

(* ------------------------------------------------------------------ *)
(* (b) algebra of the layers: any commutative ring with an exponential  *)
(* ------------------------------------------------------------------ *)
Section AlgFacts.
  Variable T : Type.
  Variables (t0 t1 : T) (tadd tmul tsub : T -> T -> T) (topp : T -> T).
  Variable texp : T -> T.
  Hypothesis Rth : ring_theory t0 t1 tadd tmul tsub topp (@eq T).
  Add Ring TRing : Rth.
  Hypothesis exp_add : forall a b, texp (tadd a b) = tmul (texp a) (texp b).
  Hypothesis exp_0 : texp t0 = t1.
  Notation "a + b" := (tadd a b). Notation "a * b" := (tmul a b). Notation "a - b" := (tsub a b).
  Notation "- a" := (topp a).
  Notation "x @ i" := (nth i x t0) (at level 9, i at next level).
  Notation vec := (vec T).
  Notation vsum := (vsum T t0 tadd).
  Notation cbwd := (coupling_bwd T t0 tadd tmul tsub topp texp).
  Notation cfwd := (coupling_fwd T t0 tadd tmul texp).
  Notation cin := (coupling_in T t0 tmul).
  Notation chbwd := (chan_bwd T t0 tadd tmul tsub topp texp).
  Notation chfwd := (chan_fwd T t0 tadd tmul texp).
  Notation arbwd := (ar_bwd T t0 tadd tmul tsub topp texp).
  Notation arfwd := (ar_fwd T t0 tadd tmul texp).
  Notation arloop := (ar_loop T t0 tadd tmul texp).
  Notation vnth := (vec_nth T t0).

  Lemma exp_neg_l a : texp (- a) * texp a = t1.
  Proof. rewrite <- exp_add. replace (- a + a) with t0 by ring. apply exp_0. Qed.
  Lemma exp_neg_r a : texp a * texp (- a) = t1.
  Proof. rewrite <- exp_add. replace (a + - a) with t0 by ring. apply exp_0. Qed.
  Lemma exp_cancel_l a x t : (x - t) * texp (- a) * texp a + t = x.
  Proof. transitivity ((x - t) * (texp (- a) * texp a) + t); [ring|]. rewrite exp_neg_l. ring. Qed.
  Lemma exp_cancel_r a u t : (u * texp a + t - t) * texp (- a) = u.
  Proof. transitivity (u * (texp a * texp (- a))); [ring|]. rewrite exp_neg_r. ring. Qed.

  Lemma vsum_map_opp (f : nat -> T) l : vsum (map (fun i => - f i) l) = - vsum (map f l).
  Proof. induction l; simpl; [ring|]. rewrite IHl. ring. Qed.

  (* ---------------- coupling layers, masked form ---------------- *)
  Definition compl_masks (n : nat) (mask imask : list T) : Prop :=
    forall i, i < n -> (mask@i = t1 /\ imask@i = t0) \/ (mask@i = t0 /\ imask@i = t1).

  Lemma coupling_in_bwd affine n mask imask cond x : compl_masks n mask imask ->
    cin n mask (fst (cbwd affine n mask imask cond x)) = cin n mask x.
  Proof.
    intros Hm. unfold coupling_bwd. destruct (cond (cin n mask x)) as [t s].
    destruct affine; simpl fst; unfold coupling_in; apply vec_ext; intros i Hi; rewrite vnth by auto;
      destruct (Hm i Hi) as [[-> ->]|[-> ->]]; try ring.
    replace (- (t0 * s@i)) with t0 by ring. rewrite exp_0. ring.
  Qed.
  Lemma coupling_in_fwd affine n mask imask cond u : compl_masks n mask imask ->
    cin n mask (fst (cfwd affine n mask imask cond u)) = cin n mask u.
  Proof.
    intros Hm. unfold coupling_fwd. destruct (cond (cin n mask u)) as [t s].
    destruct affine; simpl fst; unfold coupling_in; apply vec_ext; intros i Hi; rewrite vnth by auto;
      destruct (Hm i Hi) as [[-> ->]|[-> ->]]; try ring.
    replace (t0 * s@i) with t0 by ring. rewrite exp_0. ring.
  Qed.

  (* forward o backward = id, and the two reported log-determinants are opposite; the conditioner
     is an ARBITRARY function *)
  Theorem coupling_fwd_bwd : forall affine n mask imask (cond : condT T) x,
    compl_masks n mask imask -> length x = n ->
    cfwd affine n mask imask cond (fst (cbwd affine n mask imask cond x)) =
    (x, - snd (cbwd affine n mask imask cond x)).
  Proof.
    intros affine n mask imask cond x Hm Hx. unfold coupling_fwd. rewrite coupling_in_bwd by auto.
    unfold coupling_bwd. destruct (cond (cin n mask x)) as [t s].
    destruct affine; simpl fst; simpl snd; f_equal; try ring;
      symmetry; apply (list_eq_vec T t0); auto; intros i Hi; rewrite vnth by auto.
    - symmetry. apply exp_cancel_l.
    - ring.
  Qed.
  Theorem coupling_bwd_fwd : forall affine n mask imask (cond : condT T) u,
    compl_masks n mask imask -> length u = n ->
    cbwd affine n mask imask cond (fst (cfwd affine n mask imask cond u)) =
    (u, - snd (cfwd affine n mask imask cond u)).
  Proof.
    intros affine n mask imask cond u Hm Hu. unfold coupling_bwd. rewrite coupling_in_fwd by auto.
    unfold coupling_fwd. destruct (cond (cin n mask u)) as [t s].
    destruct affine; simpl fst; simpl snd; f_equal; try ring;
      symmetry; apply (list_eq_vec T t0); auto; intros i Hi; rewrite vnth by auto.
    - symmetry. apply exp_cancel_r.
    - ring.
  Qed.

  (* the masks built by the model are complementary 0/1 vectors *)
  Lemma bool_masks_compl n (m : list bool) : length m = n ->
    compl_masks n (map (b2t T t0 t1) m) (map (b2t T t0 t1) (map negb m)).
  Proof.
    intros Hl i Hi. rewrite !nth_map_in with (d' := false) by (rewrite ?map_length; lia).
    destruct (nth i m false); simpl; auto.
  Qed.

  (* ---------------- channel-wise coupling ---------------- *)
  Theorem chan_fwd_bwd : forall affine reverse m (cond : condT T) x, length x = (m + m)%nat ->
    chfwd affine reverse m cond (fst (chbwd affine reverse m cond x)) = (x, - snd (chbwd affine reverse m cond x)).
  Proof.
    intros affine reverse m cond x Hx. unfold chan_bwd, chan_fwd, chan_in.
    destruct reverse.
    - destruct (cond (lo T t0 m x)) as [t s] eqn:E. simpl fst.
      assert (L1 : length (lo T t0 m x) = m) by apply vec_length.
      destruct affine; simpl snd.
      + rewrite lo_app by auto. rewrite E. rewrite hi_app by (auto; apply vec_length). f_equal; [|ring].
        rewrite <- (lo_hi_app T t0 m x Hx) at 2. f_equal. symmetry. apply (list_eq_vec T t0); [apply vec_length|]. intros i Hi.
        rewrite vnth by auto. symmetry. apply exp_cancel_l.
      + rewrite lo_app by auto. rewrite E. rewrite hi_app by (auto; apply vec_length). f_equal; [|ring].
        rewrite <- (lo_hi_app T t0 m x Hx) at 2. f_equal. symmetry. apply (list_eq_vec T t0); [apply vec_length|]. intros i Hi.
        rewrite vnth by auto. ring.
    - destruct (cond (hi T t0 m x)) as [t s] eqn:E. simpl fst.
      assert (L1 : length (hi T t0 m x) = m) by apply vec_length.
      destruct affine; simpl snd.
      + rewrite hi_app by (auto; apply vec_length). rewrite E. rewrite lo_app by apply vec_length. f_equal; [|ring].
        rewrite <- (lo_hi_app T t0 m x Hx) at 2. f_equal. symmetry. apply (list_eq_vec T t0); [apply vec_length|]. intros i Hi.
        rewrite vnth by auto. symmetry. apply exp_cancel_l.
      + rewrite hi_app by (auto; apply vec_length). rewrite E. rewrite lo_app by apply vec_length. f_equal; [|ring].
        rewrite <- (lo_hi_app T t0 m x Hx) at 2. f_equal. symmetry. apply (list_eq_vec T t0); [apply vec_length|]. intros i Hi.
        rewrite vnth by auto. ring.
  Qed.

  Theorem chan_bwd_fwd : forall affine reverse m (cond : condT T) x, length x = (m + m)%nat ->
    chbwd affine reverse m cond (fst (chfwd affine reverse m cond x)) = (x, - snd (chfwd affine reverse m cond x)).
  Proof.
    intros affine reverse m cond x Hx. unfold chan_fwd, chan_bwd, chan_in.
    destruct reverse.
    - destruct (cond (lo T t0 m x)) as [t s] eqn:E. simpl fst.
      assert (L1 : length (lo T t0 m x) = m) by apply vec_length.
      destruct affine; simpl snd.
      + rewrite lo_app by auto. rewrite E. rewrite hi_app by (auto; apply vec_length). f_equal; try ring.
        rewrite <- (lo_hi_app T t0 m x Hx) at 2. f_equal. symmetry. apply (list_eq_vec T t0); [apply vec_length|]. intros i Hi.
        rewrite vnth by auto. symmetry. apply exp_cancel_r.
      + rewrite lo_app by auto. rewrite E. rewrite hi_app by (auto; apply vec_length). f_equal; try ring.
        rewrite <- (lo_hi_app T t0 m x Hx) at 2. f_equal. symmetry. apply (list_eq_vec T t0); [apply vec_length|]. intros i Hi.
        rewrite vnth by auto. ring.
    - destruct (cond (hi T t0 m x)) as [t s] eqn:E. simpl fst.
      assert (L1 : length (hi T t0 m x) = m) by apply vec_length.
      destruct affine; simpl snd.
      + rewrite hi_app by (auto; apply vec_length). rewrite E. rewrite lo_app by apply vec_length. f_equal; try ring.
        rewrite <- (lo_hi_app T t0 m x Hx) at 2. f_equal. symmetry. apply (list_eq_vec T t0); [apply vec_length|]. intros i Hi.
        rewrite vnth by auto. symmetry. apply exp_cancel_r.
      + rewrite hi_app by (auto; apply vec_length). rewrite E. rewrite lo_app by apply vec_length. f_equal; try ring.
        rewrite <- (lo_hi_app T t0 m x Hx) at 2. f_equal. symmetry. apply (list_eq_vec T t0); [apply vec_length|]. intros i Hi.
        rewrite vnth by auto. ring.
  Qed.


  (* ---------------- autoregressive layer ---------------- *)
  Section AR.
    Variable n : nat.
    Variable deg : nat -> nat.
    Variable order : list nat.
    Variable cond : condT T.
    Hypothesis Hlen : length order = n.
    Hypothesis Hord : forall k, k < n -> nth k order 0 < n /\ deg (nth k order 0) = k.
    Hypothesis Hdeg : forall i, i < n -> deg i < n /\ nth (deg i) order 0 = i.
    (* the conditioner is autoregressive: outputs at i depend on inputs of smaller degree only *)
    Hypothesis Hcond : forall x x' i, length x = n -> length x' = n -> i < n ->
      (forall j, j < n -> deg j < deg i -> x@j = x'@j) ->
      (fst (cond x))@i = (fst (cond x'))@i /\ (snd (cond x))@i = (snd (cond x'))@i.

    Lemma ar_loop_inv (x : list T) : length x = n ->
      forall tl k xk ldk, (k + length tl)%nat = n -> (forall m, m < length tl -> nth m tl 0 = nth (k + m)%nat order 0) ->
      length xk = n -> length ldk = n ->
      (forall i, i < n -> deg i < k -> xk@i = x@i /\ ldk@i = (snd (cond x))@i) ->
      (forall i, i < n -> k <= deg i -> ldk@i = t0) ->
      let u := fst (arbwd n cond x) in
      let r := arloop (fun _ => cond) u k tl (xk, ldk) in
      length (fst r) = n /\ length (snd r) = n /\
      forall i, i < n -> (fst r)@i = x@i /\ (snd r)@i = (snd (cond x))@i.
    Proof.
      intros Hx. induction tl as [|i tl IH]; intros k xk ldk Hk Htl Lx Ll Hdone Htodo u r.
      - subst r. simpl in *. repeat split; auto; apply Hdone; auto; destruct (Hdeg i H); lia.
      - subst r. simpl arloop. simpl in Hk.
        pose proof (Htl 0 ltac:(simpl; lia)) as Ei; simpl in Ei; rewrite Nat.add_0_r in Ei.
        destruct (Hord k ltac:(lia)) as [Hi Hdi]. rewrite <- Ei in Hi, Hdi.
        destruct (cond xk) as [tk sk] eqn:Ek.
        assert (Hc : tk@i = (fst (cond x))@i /\ sk@i = (snd (cond x))@i).
        { pose proof (Hcond xk x i Lx Hx Hi) as Hc. rewrite Ek in Hc. apply Hc.
          intros j Hj Hdj. apply Hdone; auto. lia. }
        destruct Hc as [Ht Hs].
        assert (Eu : u@i * texp sk@i + tk@i = x@i).
        { subst u. unfold ar_bwd. destruct (cond x) as [t s]. simpl fst in *. simpl snd in *.
          rewrite vnth by auto. rewrite Ht, Hs. apply exp_cancel_l. }
        rewrite Eu. apply IH.
        + lia.
        + intros m Hm. pose proof (Htl (S m) ltac:(simpl; lia)) as E'; simpl in E'; rewrite E'; f_equal; lia.
        + now rewrite upd_length.
        + now rewrite upd_length.
        + intros j Hj Hdj. destruct (Nat.eq_dec j i) as [->|Hne].
          * rewrite !upd_nth_eq by lia. auto.
          * rewrite !upd_nth_neq by auto. apply Hdone; auto.
            destruct (Nat.eq_dec (deg j) k) as [E|]; [|lia]. exfalso. apply Hne.
            destruct (Hdeg j Hj) as [_ <-]. rewrite E. auto.
        + intros j Hj Hdj. rewrite upd_nth_neq by (intros ->; lia). apply Htodo; auto. lia.
    Qed.

    (* apply_forward (the D-step loop in degree order) inverts apply_backward *)
    Theorem ar_fwd_bwd : forall x, length x = n ->
      arfwd n cond order (fst (arbwd n cond x)) = (x, - snd (arbwd n cond x)).
    Proof.
      intros x Hx. unfold ar_fwd, ar_fwd_k.
      pose proof (ar_loop_inv x Hx order 0 (vec n (fun _ => t0)) (vec n (fun _ => t0))) as H.
      specialize (H ltac:(lia) ltac:(intros; reflexivity) ltac:(apply vec_length) ltac:(apply vec_length)).
      specialize (H ltac:(intros; lia) ltac:(intros; now apply vnth)).
      cbv zeta in H.
      destruct (arloop (fun _ => cond) (fst (arbwd n cond x)) 0 order (vec n (fun _ => t0), vec n (fun _ => t0))) as [xf ldf].
      simpl fst in H. simpl snd in H. destruct H as (L1 & L2 & H).
      f_equal.
      - apply nth_ext with (d := t0) (d' := t0); [lia|]. intros i Hi. apply H. lia.
      - unfold ar_bwd. destruct (cond x) as [t s]. simpl snd in *.
        replace ldf with (vec n (fun i => s@i)); [ring|]. symmetry. apply (list_eq_vec T t0); auto. intros. now apply H.
    Qed.

    (* functional triangularity: coordinate i of apply_backward depends only on inputs of degree <= deg i *)
    Theorem ar_bwd_triangular : forall x x' i, length x = n -> length x' = n -> i < n ->
      (forall j, j < n -> deg j <= deg i -> x@j = x'@j) ->
      (fst (arbwd n cond x))@i = (fst (arbwd n cond x'))@i.
    Proof.
      clear Hlen Hord Hdeg. intros x x' i Hx Hx' Hi Hag. pose proof (Hcond x x' i Hx Hx' Hi) as Hc.
      unfold ar_bwd. destruct (cond x) as [t s], (cond x') as [t' s']. simpl fst in *. simpl snd in *.
      rewrite !vnth by auto. destruct Hc as [-> ->]; [intros; apply Hag; auto; lia|].
      now rewrite (Hag i Hi ltac:(lia)).
    Qed.

    (* the converse: apply_backward inverts the loop *)
    Lemma ar_loop_inv2 (u : list T) :
      forall tl k xk ldk, (k + length tl)%nat = n -> (forall m, m < length tl -> nth m tl 0 = nth (k + m)%nat order 0) ->
      length xk = n -> length ldk = n ->
      let r := arloop (fun _ => cond) u k tl (xk, ldk) in
      length (fst r) = n /\ length (snd r) = n /\
      (forall j, j < n -> deg j < k -> (fst r)@j = xk@j /\ (snd r)@j = ldk@j) /\
      (forall j, j < n -> k <= deg j ->
         (fst r)@j = u@j * texp (snd (cond (fst r)))@j + (fst (cond (fst r)))@j /\
         (snd r)@j = (snd (cond (fst r)))@j).
    Proof.
      induction tl as [|i tl IH]; intros k xk ldk Hk Htl Lx Ll r.
      - subst r. simpl in *. split; [auto|]. split; [auto|]. split; intros j Hj Hd; [auto|destruct (Hdeg j Hj); lia].
      - subst r. simpl arloop. simpl in Hk.
        pose proof (Htl 0 ltac:(simpl; lia)) as Ei; simpl in Ei; rewrite Nat.add_0_r in Ei.
        destruct (Hord k ltac:(lia)) as [Hi Hdi]. rewrite <- Ei in Hi, Hdi.
        destruct (cond xk) as [tk sk] eqn:Ek.
        specialize (IH (S k) (upd T xk i (u@i * texp sk@i + tk@i)) (upd T ldk i sk@i)).
        specialize (IH ltac:(lia)).
        assert (Htl' : forall m, m < length tl -> nth m tl 0 = nth (S k + m)%nat order 0).
        { intros m Hm. pose proof (Htl (S m) ltac:(simpl; lia)) as E'; simpl in E'; rewrite E'; f_equal; lia. }
        specialize (IH Htl' ltac:(now rewrite upd_length) ltac:(now rewrite upd_length)).
        cbv zeta in IH.
        destruct (arloop (fun _ => cond) u (S k) tl (upd T xk i (u@i * texp sk@i + tk@i), upd T ldk i sk@i)) as [xf ldf].
        simpl fst in *. simpl snd in *. destruct IH as (L1 & L2 & Hold & Hnew).
        assert (Hkeep : forall j, j < n -> deg j < k -> xf@j = xk@j /\ ldf@j = ldk@j).
        { intros j Hj Hd. destruct (Hold j Hj ltac:(lia)) as [-> ->].
          rewrite !upd_nth_neq by (intros ->; lia). auto. }
        split; [auto|]. split; [auto|]. split; [exact Hkeep|].
        intros j Hj Hd. destruct (Nat.eq_dec (deg j) k) as [E|]; [|apply Hnew; auto; lia].
        assert (j = i) as -> by (destruct (Hdeg j Hj) as [_ <-]; rewrite E; auto).
        destruct (Hold i Hi ltac:(lia)) as [Ex El]. rewrite Ex, El. rewrite !upd_nth_eq by lia.
        pose proof (Hcond xk xf i Lx L1 Hi) as Hc. rewrite Ek in Hc. simpl in Hc.
        destruct Hc as [Ht Hs]. { intros j' Hj' Hd'. symmetry. apply Hkeep; auto. lia. }
        rewrite Ht, Hs. auto.
    Qed.

    Theorem ar_bwd_fwd : forall u, length u = n ->
      arbwd n cond (fst (arfwd n cond order u)) = (u, - snd (arfwd n cond order u)).
    Proof.
      intros u Hu. unfold ar_fwd, ar_fwd_k.
      pose proof (ar_loop_inv2 u order 0 (vec n (fun _ => t0)) (vec n (fun _ => t0))) as H.
      specialize (H ltac:(lia) ltac:(intros; reflexivity) ltac:(apply vec_length) ltac:(apply vec_length)).
      cbv zeta in H.
      destruct (arloop (fun _ => cond) u 0 order (vec n (fun _ => t0), vec n (fun _ => t0))) as [xf ldf].
      simpl fst in *. simpl snd in *. destruct H as (L1 & L2 & _ & H).
      unfold ar_bwd. destruct (cond xf) as [t s]. simpl fst in *. simpl snd in *. f_equal.
      - symmetry. apply (list_eq_vec T t0); auto. intros i Hi. destruct (H i Hi ltac:(lia)) as [-> _].
        symmetry. apply exp_cancel_r.
      - replace ldf with (vec n (fun i => s@i)); [ring|]. symmetry. apply (list_eq_vec T t0); auto. intros i Hi. destruct (H i Hi ltac:(lia)) as [_ E]; exact E.
    Qed.
  End AR.

  (* ---------------- the masked conditioner really is autoregressive ---------------- *)
  Notation mlinT := (mlin T t0 t1 tadd tmul).
  Notation mlpT := (mlp T t0 t1 tadd tmul).

  Lemma mlp_depends (x x' : list T) nc : (forall j, nc <= j -> x@j = x'@j) ->
    forall Ls P hx hx',
    length hx = length P -> length hx' = length P ->
    (forall r, (forall j, mget P r j = true -> x@j = x'@j) -> hx@r = hx'@r) ->
    forall i, (forall j, mget (conn_from P (map (l_mask T) Ls) nc) i j = true -> x@j = x'@j) ->
    (mlpT Ls hx)@i = (mlpT Ls hx')@i.
  Proof.
    intros Hout. induction Ls as [|L Ls IH]; intros P hx hx' L1 L2 HP i Hi; simpl in *; [now apply HP|].
    apply IH with (P := bmul (l_mask T L) P (length P) nc); auto.
    - unfold mlin. now rewrite vec_length, bmul_length.
    - unfold mlin. now rewrite vec_length, bmul_length.
    - intros r Hr. unfold mlin.
      destruct (lt_dec r (length (l_mask T L))); [|now rewrite !vec_nth_out by lia].
      rewrite !vnth by auto. f_equal. f_equal. f_equal. apply vec_ext. intros h Hh.
      destruct (mget (l_mask T L) r h) eqn:Em; [|simpl; ring].
      f_equal. destruct (lt_dec h (length P)); [|now rewrite !nth_overflow by lia].
      apply HP. intros j Hj. destruct (lt_dec j nc); [|apply Hout; lia].
      apply Hr. rewrite mget_bmul. apply andb_true_intro. split.
      + apply andb_true_intro. split; [now apply Nat.ltb_lt|now apply Nat.ltb_lt].
      + apply existsb_exists. exists h. split; [apply in_seq; lia|]. now rewrite Em, Hj.
  Qed.

  (* output i of a masked MLP depends only on the inputs connected to it in the mask product *)
  Theorem mlp_connectivity : forall n Ls (x x' : list T) i, length x = n -> length x' = n ->
    (forall j, mget (conn n (map (l_mask T) Ls)) i j = true -> x@j = x'@j) ->
    (mlpT Ls x)@i = (mlpT Ls x')@i.
  Proof.
    intros n Ls x x' i Hx Hx' H.
    assert (Hout : forall j, n <= j -> x@j = x'@j) by (intros; now rewrite !nth_overflow by lia).
    apply (mlp_depends x x' n Hout Ls (ident n)); auto.
    - unfold ident. now rewrite map_length, seq_length.
    - unfold ident. now rewrite map_length, seq_length.
    - intros r Hr. destruct (lt_dec r n); [|now rewrite !nth_overflow by lia].
      apply Hr. rewrite mget_ident, Nat.eqb_refl. destruct (Nat.ltb_spec r n); [reflexivity|lia].
  Qed.

  (* ---------------- end to end: one MAF layer, masks built from ANY degree lists -------------- *)
  Theorem maf_layer_inverse : forall (d0 : list nat) (rest : list (list nat)) (Ls : list (mlayer T)) sact,
    map (l_mask T) Ls = tile_last (build_masks (d0 :: rest)) ->
    (forall k, k < length d0 -> In k d0) ->
    let n := length d0 in
    let cond := ar_cond T t0 t1 tadd tmul n Ls sact in
    (forall x, length x = n ->
       arfwd n cond (inv_ordering d0) (fst (arbwd n cond x)) = (x, - snd (arbwd n cond x))) /\
    (forall u, length u = n ->
       arbwd n cond (fst (arfwd n cond (inv_ordering d0) u)) = (u, - snd (arfwd n cond (inv_ordering d0) u))).
  Proof.
    intros d0 rest Ls sact Hmask Hperm n cond.
    destruct (inv_ordering_spec d0 Hperm) as (Hlen & Hord & Hdeg).
    assert (Hcond : forall x x' i, length x = n -> length x' = n -> i < n ->
      (forall j, j < n -> nth j d0 0 < nth i d0 0 -> x@j = x'@j) ->
      (fst (cond x))@i = (fst (cond x'))@i /\ (snd (cond x))@i = (snd (cond x'))@i).
    { intros x x' i Hx Hx' Hi Hag. unfold cond, ar_cond. simpl fst. simpl snd. rewrite !vnth by auto.
      assert (Hrow : forall r, r mod n = i ->
        (mlpT Ls x)@r = (mlpT Ls x')@r).
      { intros r Hr. apply mlp_connectivity with (n := n); auto. intros j Hj. rewrite Hmask in Hj.
        apply masks_autoregressive_tiled in Hj as [_ Hj]. fold n in Hj. rewrite Hr in Hj.
        destruct (lt_dec j n); [now apply Hag|]. now rewrite !nth_overflow by lia. }
      split.
      - apply Hrow. now apply Nat.mod_small.
      - f_equal. apply Hrow. replace (n + i)%nat with (i + 1 * n)%nat by lia. rewrite Nat.mod_add by lia. now apply Nat.mod_small. }
    split; intros v Hv.
    - apply ar_fwd_bwd with (deg := fun i => nth i d0 0); auto.
    - apply ar_bwd_fwd with (deg := fun i => nth i d0 0); auto.
  Qed.

  (* ---------------- composition (models/base.py) ---------------- *)
  Section Compose.
    Variable X : Type.
    Variable D : X -> Prop.
    Definition bij_ok (b : bij T X) : Prop := forall x, D x ->
      D (fst (b_bwd T X b x)) /\ b_fwd T X b (fst (b_bwd T X b x)) = (x, - snd (b_bwd T X b x)).
    Theorem flow_fwd_bwd : forall bs, Forall bij_ok bs -> forall x, D x ->
      D (fst (flow_bwd T t0 tadd bs x)) /\
      flow_fwd T t0 tadd bs (fst (flow_bwd T t0 tadd bs x)) = (x, - snd (flow_bwd T t0 tadd bs x)).
    Proof.
      induction 1 as [|b bs Hb Hbs IH]; intros x Hx; simpl.
      - split; auto. f_equal. ring.
      - destruct (Hb x Hx) as [Dy Eb]. destruct (b_bwd T X b x) as [y l1]. simpl fst in *. simpl snd in *.
        destruct (IH y Dy) as [Du Ef]. destruct (flow_bwd T t0 tadd bs y) as [u l2]. simpl fst in *. simpl snd in *.
        split; auto. rewrite Ef, Eb. f_equal. ring.
    Qed.
  End Compose.

  (* ---------------- multi-scale wiring (RealNVP2d) ---------------- *)
  Section MSFacts.
    Variable X : Type.
    Variable split : X -> X * X.
    Variable cat : X * X -> X.
    Hypothesis split_cat : forall p, split (cat p) = p.
    Hypothesis cat_split : forall x, cat (split x) = x.
    Definition bij_ok' (b : bij T X) : Prop := forall x,
      b_fwd T X b (fst (b_bwd T X b x)) = (x, - snd (b_bwd T X b x)).
    Definition level_ok (lv : level T X) : Prop :=
      let '(b, down, up) := lv in bij_ok' b /\ (forall y, up (down y) = y) /\ (forall y, down (up y) = y).
    Theorem ms_fwd_bwd : forall lvs last, Forall level_ok lvs -> bij_ok' last -> forall x,
      ms_fwd T tadd X split cat lvs last (fst (ms_bwd T tadd X split cat lvs last x)) =
      (x, - snd (ms_bwd T tadd X split cat lvs last x)).
    Proof.
      intros lvs last H Hlast. induction H as [|[[b down] up] lvs (Hb & Hud & Hdu) Hl IH]; intros x; simpl; [apply Hlast|].
      specialize (Hb x). destruct (b_bwd T X b x) as [y l1]. simpl fst in *. simpl snd in *.
      destruct (split (down y)) as [a z] eqn:Es.
      specialize (IH a). destruct (ms_bwd T tadd X split cat lvs last a) as [r l2]. simpl fst in *. simpl snd in *.
      rewrite Hdu, split_cat, IH. rewrite <- Es, cat_split, Hud, Hb. f_equal. ring.
    Qed.
  End MSFacts.
End AlgFacts.

(* ------------------------------------------------------------------ *)
(* BatchNorm (evaluation mode): needs a field                           *)
(* ------------------------------------------------------------------ *)
Section BNFacts.
  Variable T : Type.
  Variables (t0 t1 : T) (tadd tmul tsub : T -> T -> T) (topp : T -> T) (tdiv : T -> T -> T) (tinv : T -> T).
  Variables (texp tln tsqrt : T -> T).
  Hypothesis Fth : field_theory t0 t1 tadd tmul tsub topp tdiv tinv (@eq T).
  Add Field TField : Fth.
  Hypothesis exp_add : forall a b, texp (tadd a b) = tmul (texp a) (texp b).
  Hypothesis exp_0 : texp t0 = t1.
  Notation "a + b" := (tadd a b). Notation "a * b" := (tmul a b). Notation "a - b" := (tsub a b).
  Notation "- a" := (topp a). Notation "a / b" := (tdiv a b).
  Notation "x @ i" := (nth i x t0) (at level 9, i at next level).
  Notation bnb := (bn_bwd T t0 t1 tadd tmul tsub tdiv texp tln tsqrt).
  Notation bnf := (bn_fwd T t0 t1 tadd tmul tsub topp tdiv texp tln tsqrt).

  Lemma vsum_ext_opp n (f g : nat -> T) : (forall i, i < n -> g i = - f i) ->
    vsum T t0 tadd (vec T n g) = - vsum T t0 tadd (vec T n f).
  Proof. intros H. unfold vec. assert (H' : forall i, In i (seq 0 n) -> g i = - f i) by (intros i Hi; apply in_seq in Hi; apply H; lia).
    clear H. induction (seq 0 n) as [|a l IH]; simpl; [ring|]. rewrite H' by (now left). rewrite IH by (intros; apply H'; now right). ring. Qed.

  Theorem bn_fwd_bwd : forall n eps w b rvar rmean x, length x = n ->
    (forall i, i < n -> tsqrt (rvar@i + eps) <> t0) ->
    bnf n eps w b rvar rmean (fst (bnb n eps w b rvar rmean x)) = (x, - snd (bnb n eps w b rvar rmean x)).
  Proof.
    intros n eps w b rvar rmean x Hx Hsd. unfold bn_fwd, bn_bwd. simpl fst. simpl snd. f_equal.
    - symmetry. apply (list_eq_vec T t0); auto. intros i Hi. rewrite (vec_nth T t0) by auto.
      assert (HE : texp w@i * texp (- w@i) = t1).
      { rewrite <- exp_add. replace (w@i + - w@i) with t0 by ring. apply exp_0. }
      set (E1 := texp w@i) in *. set (E2 := texp (- w@i)) in *. set (sd := tsqrt (rvar@i + eps)) in *.
      transitivity ((x@i - rmean@i) * (E1 * E2) + rmean@i); [rewrite HE; ring|]. field. now apply Hsd.
    - apply vsum_ext_opp. intros. ring.
  Qed.
  Theorem bn_bwd_fwd : forall n eps w b rvar rmean u, length u = n ->
    (forall i, i < n -> tsqrt (rvar@i + eps) <> t0) ->
    bnb n eps w b rvar rmean (fst (bnf n eps w b rvar rmean u)) = (u, - snd (bnf n eps w b rvar rmean u)).
  Proof.
    intros n eps w b rvar rmean u Hu Hsd. unfold bn_fwd, bn_bwd. simpl fst. simpl snd. f_equal.
    - symmetry. apply (list_eq_vec T t0); auto. intros i Hi. rewrite (vec_nth T t0) by auto.
      assert (HE : texp (- w@i) * texp w@i = t1).
      { rewrite <- exp_add. replace (- w@i + w@i) with t0 by ring. apply exp_0. }
      set (E1 := texp w@i) in *. set (E2 := texp (- w@i)) in *. set (sd := tsqrt (rvar@i + eps)) in *.
      transitivity ((u@i - b@i) * (E2 * E1) + b@i); [rewrite HE; ring|]. field. now apply Hsd.
    - apply vsum_ext_opp. intros. ring.
  Qed.
End BNFacts.
