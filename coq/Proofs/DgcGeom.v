(* Proofs/DgcGeom.v — the geometry of the network DgcSpn.__init__ builds, for EVERY side D >= 1 and
   every number of pooling layers n with 0 <= n <= ceil(log2 D) and 2^n | D (any channel counts, any
   depthwise flags): sizes, closed-form scopes at every level, every pixel used exactly once by every
   induced sub-circuit, decomposability of every product node.  Induction over the layer loop. *)
From Coq Require Import List ZArith Bool Lia.
From DV Require Import Model.Dgc Proofs.DgcFacts.
Import ListNotations.
Open Scope Z_scope.

Ltac bsolve :=
  repeat (match goal with
          | |- context [?a <=? ?b] => destruct (Z.leb_spec a b)
          | |- context [?a <? ?b] => destruct (Z.ltb_spec a b)
          | |- context [?a =? ?b] => destruct (Z.eqb_spec a b)
          end; cbn [andb]; try lia); try lia.

Lemma log2_up_ge D : 1 <= D -> D <= 2 ^ Z.log2_up D.
Proof.
  intros H. destruct (Z.eq_dec D 1) as [-> | Hne]; [cbn; lia|].
  assert (1 < D) by lia. pose proof (Z.log2_up_spec D H0). lia.
Qed.

Lemma div_range P M x : 0 < P -> 0 <= x < M * P -> 0 <= x / P < M.
Proof.
  intros HP [H0 H1]. split; [apply Z.div_pos; lia|].
  apply Z.div_lt_upper_bound; [lia|]. rewrite Z.mul_comm. exact H1.
Qed.

Lemma pos_factor M P D : 0 < P -> 1 <= D -> M * P = D -> 1 <= M.
Proof. intros. nia. Qed.

Section Geom.
  Variable g : cfg.
  Local Notation D := (cf_side g).
  Local Notation n := (cf_pool g).
  Local Notation dep := (depth_of (cf_side g)).
  Hypothesis HD : 1 <= D.
  Hypothesis Hn : 0 <= n <= dep.
  Hypothesis Hdiv : (2 ^ n | D).
  Hypothesis Hbatch : 0 < cf_batch g.
  Hypothesis Hsumc : 0 < cf_sumc g.

  Ltac fld := idtac.

  (* block size after min(k,n) poolings; dilation reached after k-n dilated layers *)
  Definition PP (k : Z) : Z := 2 ^ Z.min k (cf_pool g).
  Definition EE (k : Z) : Z := 2 ^ Z.max (k - cf_pool g) 0.

  (* closed form of the one-axis scope of position h: the blocks h-E+1 .. h of size P *)
  Definition ind (P E h x : Z) : Z := if (h - E + 1 <=? x / P) && (x / P <=? h) then 1 else 0.
  Definition closed (ls : list layer) (side P E : Z) : Prop :=
    forall h x, 0 <= h < side -> 0 <= x < D -> use1 ls h x = ind P E h x.

  Definition Inv (k : Z) (s : st) : Prop :=
    s_i s = k /\ 0 < s_c s /\ 0 < s_side s /\ (s_side s - EE k + 1) * PP k = D /\
    closed (s_ls s) (s_side s) (PP k) (EE k).

  Lemma dep_nonneg : 0 <= dep.
  Proof. apply Z.log2_up_nonneg. Qed.

  Lemma PP_pos k : 0 <= k -> 0 < PP k.
  Proof. intros. unfold PP. apply Z.pow_pos_nonneg; lia. Qed.
  Lemma EE_pos k : 0 < EE k.
  Proof. unfold EE. apply Z.pow_pos_nonneg; lia. Qed.

  Lemma inv0 : Inv 0 (st0 g).
  Proof.
    unfold Inv, st0; cbn [s_i s_c s_side s_ls].
    assert (P0 : PP 0 = 1) by (unfold PP; fld; rewrite Z.min_l by lia; reflexivity).
    assert (E0 : EE 0 = 1) by (unfold EE; fld; rewrite Z.max_r by lia; reflexivity).
    rewrite P0, E0. fld. repeat split; try lia.
    intros h x Hh Hx. cbn [use1]. unfold ind. rewrite Z.div_1_r. bsolve.
  Qed.

  Lemma mk_sum_use1 c side oc ls h x : use1 (mk_sum c side oc :: ls) h x = use1 ls h x.
  Proof. reflexivity. Qed.

  (* ---- a pooling layer (k < n): blocks double ---- *)
  Lemma step_pool k s : 0 <= k < n -> Inv k s -> Inv (k + 1) (step g s).
  Proof.
    intros Hk (Hi & Hc & Hside & Hsz & Hcl).
    assert (Ek : EE k = 1) by (unfold EE; fld; rewrite Z.max_r by lia; reflexivity).
    assert (Ek1 : EE (k + 1) = 1) by (unfold EE; fld; rewrite Z.max_r by lia; reflexivity).
    assert (Pk : PP k = 2 ^ k) by (unfold PP; fld; rewrite Z.min_l by lia; reflexivity).
    assert (Pk1 : PP (k + 1) = PP k * 2).
    { rewrite Pk. unfold PP; fld. rewrite Z.min_l by lia. rewrite Z.pow_add_r by lia. reflexivity. }
    assert (HP : 0 < PP k) by (apply PP_pos; lia).
    rewrite Ek in *.
    (* the current side is even *)
    assert (Hev : exists t, s_side s = 2 * t).
    { destruct Hdiv as [z Hz].
      assert (H2 : 2 ^ n = 2 ^ k * (2 * 2 ^ (n - k - 1))).
      { replace n with (k + (1 + (n - k - 1))) at 1 by lia.
        rewrite Z.pow_add_r by lia. rewrite Z.pow_add_r by lia. reflexivity. }
      exists (z * 2 ^ (n - k - 1)).
      apply (Z.mul_reg_r _ _ (PP k)); [lia|].
      replace (s_side s * PP k) with D by lia. rewrite Hz, H2, Pk. ring. }
    destruct Hev as [t Ht].
    unfold step. fld. rewrite Hi.
    destruct (Z.eqb_spec k dep) as [Hkd|_]; [lia|].
    unfold mk_prod, prod_geom. destruct (Z.ltb_spec k n) as [_|]; [|lia].
    unfold Inv; cbn [s_i s_c s_side s_ls l_outs l_outc].
    assert (Hout : out_side 0 0 2 1 (s_side s) = t).
    { unfold out_side. rewrite Ht. replace (0 + 0 + 2 * t - (1 + 1) + 1 + (2 - 1)) with (t * 2) by lia.
      apply Z.div_mul. lia. }
    rewrite Hout, Ek1, Pk1. repeat split; try lia.
    intros h x Hh Hx. rewrite mk_sum_use1. cbn [use1 lk l_ins]. cbv zeta.
      assert (I0 : inb (h * 2 - 0) (s_side s) = true) by (unfold inb; bsolve).
      assert (I1 : inb (h * 2 - 0 + 1) (s_side s) = true) by (unfold inb; bsolve).
      rewrite I0, I1. rewrite !Hcl by lia. unfold ind.
      rewrite <- (Z.div_div x (PP k) 2) by lia.
      generalize (x / PP k). intros q.
      pose proof (Z.div_mod q 2 ltac:(lia)). pose proof (Z.mod_pos_bound q 2 ltac:(lia)).
      generalize dependent (q / 2). intros r Hr. bsolve.
  Qed.

  (* ---- a dilated layer with full padding (n <= k < depth): the window doubles ---- *)
  Lemma step_dil k s : n <= k < dep -> Inv k s -> Inv (k + 1) (step g s).
  Proof.
    intros Hk (Hi & Hc & Hside & Hsz & Hcl).
    assert (Ek : EE k = 2 ^ (k - n)) by (unfold EE; fld; rewrite Z.max_l by lia; reflexivity).
    assert (Ek1 : EE (k + 1) = EE k * 2).
    { rewrite Ek. unfold EE; fld. rewrite Z.max_l by lia.
      replace (k + 1 - n) with (k - n + 1) by lia. rewrite Z.pow_add_r by lia. reflexivity. }
    assert (Pk1 : PP (k + 1) = PP k) by (unfold PP; fld; rewrite !Z.min_r by lia; reflexivity).
    assert (HP : 0 < PP k) by (apply PP_pos; lia).
    pose proof (EE_pos k) as HE.
    assert (HM : 1 <= s_side s - EE k + 1) by (apply (pos_factor _ (PP k) (cf_side g)); auto).
    unfold step. fld. rewrite Hi.
    destruct (Z.eqb_spec k dep) as [Hkd|_]; [lia|].
    unfold mk_prod, prod_geom. destruct (Z.ltb_spec k n) as [|_]; [lia|].
    destruct (Z.eqb_spec k dep) as [Hkd|_]; [lia|].
    rewrite <- Ek.
    unfold Inv; cbn [s_i s_c s_side s_ls l_outs l_outc].
    assert (Hout : out_side (EE k) (EE k) 1 (EE k) (s_side s) = s_side s + EE k).
    { unfold out_side. rewrite Z.div_1_r. lia. }
    rewrite Hout, Ek1, Pk1. repeat split; try lia.
    intros h x Hh Hx. rewrite mk_sum_use1. cbn [use1 lk l_ins]. cbv zeta.
      assert (Hq : 0 <= x / PP k < s_side s - EE k + 1) by (apply div_range; lia).
      unfold ind.
      destruct (inb (h * 1 - EE k) (s_side s)) eqn:I0; destruct (inb (h * 1 - EE k + EE k) (s_side s)) eqn:I1;
        unfold inb in I0, I1;
        rewrite ?Hcl by lia; unfold ind;
        revert I0 I1 Hq; generalize (x / PP k); intros q I0 I1 Hq; bsolve.
  Qed.

  (* ---- the last layer ('final' padding, k = depth): every position covers the whole axis ---- *)
  Definition Final (s : st) : Prop :=
    s_i s = dep + 1 /\ 0 < s_c s /\ s_side s = 2 ^ (dep - n) /\
    forall h x, 0 <= h < s_side s -> 0 <= x < D -> use1 (s_ls s) h x = 1.

  Lemma step_final s : Inv dep s -> Final (step g s).
  Proof.
    intros (Hi & Hc & Hside & Hsz & Hcl).
    pose proof dep_nonneg as Hd0.
    assert (Ek : EE dep = 2 ^ (dep - n)) by (unfold EE; fld; rewrite Z.max_l by lia; reflexivity).
    assert (Pk : PP dep = 2 ^ n) by (unfold PP; fld; rewrite Z.min_r by lia; reflexivity).
    assert (HP : 0 < PP dep) by (apply PP_pos; lia).
    pose proof (EE_pos dep) as HE.
    assert (HM : 1 <= s_side s - EE dep + 1) by (apply (pos_factor _ (PP dep) (cf_side g)); auto).
    assert (HME : s_side s - EE dep + 1 <= EE dep).
    { pose proof (log2_up_ge D HD) as Hle. fld.
      replace dep with (n + (dep - n)) in Hle at 1 by lia. rewrite Z.pow_add_r in Hle by lia.
      rewrite <- Pk, <- Ek in Hle.
      generalize dependent (EE dep). generalize dependent (PP dep). intros. nia. }
    unfold step. fld. rewrite Hi.
    destruct (Z.eqb_spec dep dep) as [_|]; [|lia].
    unfold mk_prod, prod_geom. destruct (Z.ltb_spec dep n) as [|_]; [lia|].
    destruct (Z.eqb_spec dep dep) as [_|]; [|lia].
    rewrite <- Ek.
    unfold Final; cbn [s_i s_c s_side s_ls l_outs l_outc].
    assert (Hout : out_side 0 (EE dep * 2 - s_side s) 1 (EE dep) (s_side s) = EE dep).
    { unfold out_side. rewrite Z.div_1_r. lia. }
    rewrite Hout. repeat split; try lia.
    - destruct (dw_flag (cf_dw g) dep); [lia|]. apply Z.pow_pos_nonneg; lia.
    - intros h x Hh Hx. cbn [use1 lk l_ins]. cbv zeta.
      assert (Hq : 0 <= x / PP dep < s_side s - EE dep + 1) by (apply div_range; lia).
      destruct (inb (h * 1 - 0) (s_side s)) eqn:I0; destruct (inb (h * 1 - 0 + EE dep) (s_side s)) eqn:I1;
        unfold inb in I0, I1;
        rewrite ?Hcl by lia; unfold ind;
        revert I0 I1 Hq; generalize (x / PP dep); intros q I0 I1 Hq; bsolve.
  Qed.

  Lemma state_succ k : state_at g (S k) = step g (state_at g k).
  Proof. reflexivity. Qed.

  Theorem inv_at : forall k : nat, Z.of_nat k <= dep -> Inv (Z.of_nat k) (state_at g k).
  Proof.
    induction k as [|k IH]; intros Hk.
    - exact inv0.
    - rewrite state_succ, Nat2Z.inj_succ. unfold Z.succ.
      rewrite Nat2Z.inj_succ in Hk.
      destruct (Z_lt_le_dec (Z.of_nat k) n).
      + apply step_pool; [lia|]. apply IH. lia.
      + apply step_dil; [lia|]. apply IH. lia.
  Qed.

  Lemma build_eq : build g = step g (state_at g (Z.to_nat dep)).
  Proof.
    unfold build, nsteps. fld. pose proof dep_nonneg.
    rewrite Z2Nat.inj_add by lia. rewrite Nat.add_comm. reflexivity.
  Qed.

  Theorem final_build : Final (build g).
  Proof.
    rewrite build_eq. apply step_final. pose proof dep_nonneg.
    replace dep with (Z.of_nat (Z.to_nat dep)) at 1 by (apply Z2Nat.id; lia).
    apply inv_at. rewrite Z2Nat.id; lia.
  Qed.

  (* ---------- consequences ---------- *)
  Lemma ind_01 P E h x : ind P E h x = 0 \/ ind P E h x = 1.
  Proof. unfold ind. destruct (_ && _); auto. Qed.

  (* every pixel is used exactly once by every induced sub-circuit of every root child *)
  Theorem each_pixel_once : forall ch c h w x y,
      0 <= h < s_side (build g) -> 0 <= w < s_side (build g) -> 0 <= x < D -> 0 <= y < D ->
      count_px x y (leaves ch (s_ls (build g)) c h w) = 1.
  Proof.
    intros ch c h w x y Hh Hw Hx Hy. destruct final_build as (_ & _ & _ & Hu).
    rewrite leaves_count, use2_factor, (Hu h x), (Hu w y); auto.
  Qed.

  (* closed-form scope at every level, both axes *)
  Theorem scope_interval : forall (k : nat) h w x y, Z.of_nat k <= dep ->
      let s := state_at g k in
      0 <= h < s_side s -> 0 <= w < s_side s -> 0 <= x < D -> 0 <= y < D ->
      use2 (s_ls s) h w x y = ind (PP (Z.of_nat k)) (EE (Z.of_nat k)) h x * ind (PP (Z.of_nat k)) (EE (Z.of_nat k)) w y.
  Proof.
    intros k h w x y Hk s Hh Hw Hx Hy. destruct (inv_at k Hk) as (_ & _ & _ & _ & Hcl).
    rewrite use2_factor. fold s in Hcl. rewrite (Hcl h x), (Hcl w y); auto.
  Qed.

  Lemma usage_le1 : forall (k : nat) h w x y, Z.of_nat k <= dep + 1 ->
      let s := state_at g k in
      0 <= h < s_side s -> 0 <= w < s_side s -> 0 <= x < D -> 0 <= y < D ->
      use2 (s_ls s) h w x y <= 1.
  Proof.
    intros k h w x y Hk s Hh Hw Hx Hy.
    destruct (Z_le_gt_dec (Z.of_nat k) dep) as [Hle|Hgt].
    - unfold s. rewrite scope_interval by auto.
      destruct (ind_01 (PP (Z.of_nat k)) (EE (Z.of_nat k)) h x) as [-> | ->],
               (ind_01 (PP (Z.of_nat k)) (EE (Z.of_nat k)) w y) as [-> | ->]; lia.
    - assert (k = nsteps g) as Hk'.
      { unfold nsteps. fld. apply Nat2Z.inj. pose proof dep_nonneg. rewrite Z2Nat.id by lia. lia. }
      unfold s in *. rewrite Hk' in *. change (state_at g (nsteps g)) with (build g) in *.
      destruct final_build as (_ & _ & _ & Hu).
      rewrite use2_factor, (Hu h x), (Hu w y); auto. lia.
  Qed.

  (* the product layer appended at iteration k and the layers below it *)
  Definition prod_at (k : nat) : layer :=
    let s := state_at g k in
    mk_prod dep n (s_i s) (s_c s) (s_side s) (dw_flag (cf_dw g) (s_i s)).

  Lemma step_shape s :
    let P := mk_prod dep n (s_i s) (s_c s) (s_side s) (dw_flag (cf_dw g) (s_i s)) in
    s_side (step g s) = l_outs P /\
    (s_ls (step g s) = P :: s_ls s \/ exists S, lk S = KSumL /\ s_ls (step g s) = S :: P :: s_ls s).
  Proof.
    unfold step. fld. destruct (s_i s =? dep); cbn [s_side s_ls]; split; auto.
    right. eexists; split; [|reflexivity]. reflexivity.
  Qed.

  (* every product node of the network is decomposable *)
  Theorem decomposable : forall (k : nat) h w, Z.of_nat k <= dep ->
      0 <= h < l_outs (prod_at k) -> 0 <= w < l_outs (prod_at k) ->
      decomposable_at (prod_at k) (s_ls (state_at g k)) h w (fun x y => 0 <= x < D /\ 0 <= y < D).
  Proof.
    intros k h w Hk Hh Hw. apply usage_le1_decomposable. intros x y [Hx Hy].
    pose proof (usage_le1 (S k) h w x y) as Hu. cbv zeta in Hu.
    rewrite state_succ in Hu.
    destruct (step_shape (state_at g k)) as [Hs Hl]. change (mk_prod dep n (s_i (state_at g k)) (s_c (state_at g k)) (s_side (state_at g k)) (dw_flag (cf_dw g) (s_i (state_at g k)))) with (prod_at k) in Hs, Hl.
    rewrite Hs in Hu. rewrite Nat2Z.inj_succ in Hu.
    specialize (Hu ltac:(lia) Hh Hw Hx Hy).
    destruct Hl as [Hl | (S & HS & Hl)]; rewrite Hl in Hu; [exact Hu|].
    cbn [use2] in Hu. rewrite HS in Hu. exact Hu.
  Qed.

  (* sizes *)
  Theorem sizes : forall k : nat, Z.of_nat k <= dep ->
      let s := state_at g k in
      0 < s_c s /\ 0 < s_side s /\ (s_side s - EE (Z.of_nat k) + 1) * PP (Z.of_nat k) = D.
  Proof. intros k Hk. destruct (inv_at k Hk) as (_ & ? & ? & ? & _). auto. Qed.

  Theorem final_side : s_side (build g) = 2 ^ (dep - n) /\ 0 < s_c (build g).
  Proof. destruct final_build as (_ & ? & ? & _). auto. Qed.
End Geom.
