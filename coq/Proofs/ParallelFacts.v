(* Proofs/ParallelFacts.v — the bottom-up tasks of one layer of a circuit table commute: by the layering
   theorem no node of a layer is a child of another node of the same layer, so every schedule of the
   layer ends in the same memory as the sequential order. *)
From Coq Require Import List Arith Bool Lia.
From DV Require Import Model.Core Model.Sched Proofs.SchedFacts Proofs.LayerFacts.
Import ListNotations.

Section ParallelFacts.
  Variable T : Type.
  Variable leaf : Type.
  Variable V : Type.
  Notation table := (table T leaf).
  Notation dnode := (dummy_node T leaf).
  (* the node function applied to the children's rows (leaf_func / node_func of eval_bottom_up) *)
  Variable nf : node T leaf -> list V -> V.

  Definition row_val (t : table) (n : nat) (m : mem nat V) : V :=
    nf (nth n t dnode) (map m (nkids (nth n t dnode))).
  Definition fw_act (t : table) (n : nat) : act nat V :=
    set_at nat Nat.eqb V n (row_val t n).

  Lemma row_val_reads t n : reads nat V (row_val t n) (nkids (nth n t dnode)).
  Proof. intros m m' H. unfold row_val. f_equal. apply map_ext_in. exact H. Qed.

  Lemma layer_nodup t l : NoDup (layer T leaf t l).
  Proof. unfold layer. apply NoDup_filter, seq_NoDup. Qed.
  Lemma layer_in t l n : In n (layer T leaf t l) -> n < length t /\ nth n (layer_of T leaf t) None = Some l.
  Proof.
    unfold layer. rewrite filter_In, in_seq. intros [H1 H2]. split; [lia|].
    destruct (nth n (layer_of T leaf t) None) as [x|]; [|discriminate]. apply Nat.eqb_eq in H2. now subst.
  Qed.

  Lemma nat_eqb_spec a b : reflect (a = b) (Nat.eqb a b).
  Proof. apply Nat.eqb_spec. Qed.

  (* C08_bottom_up: the forward tasks of any layer pairwise commute *)
  Theorem bottom_up_layer_commute (t : table) : wft T leaf t -> forall l,
      pairwise_commute nat V (map (fw_act t) (layer T leaf t l)) /\
      Forall (respects nat V) (map (fw_act t) (layer T leaf t l)).
  Proof.
    intros Hw l.
    apply (layer_sets_commute nat Nat.eqb nat_eqb_spec V (layer T leaf t l) (fun n => n) (row_val t)
             (fun n => nkids (nth n t dnode))).
    - rewrite map_id. apply layer_nodup.
    - intros n _. apply row_val_reads.
    - intros n n' Hn Hn' Hin. destruct (layer_in t l n Hn) as [_ Hdn]. destruct (layer_in t l n' Hn') as [Hlt Hdn'].
      destruct (layering T leaf t Hw n' n l Hlt Hin Hdn') as [y [Hy Hlt']]. rewrite Hdn in Hy. inversion Hy. lia.
  Qed.

  Lemma concat_singletons {A B} (f : A -> B) ns : concat (map (fun n => [f n]) ns) = map f ns.
  Proof. induction ns as [|n ns IH]; [reflexivity|]. cbn. now rewrite IH. Qed.

  (* hence every interleaving of a layer's tasks (one atomic row write each) equals the sequential order *)
  Theorem bottom_up_layer_schedule (t : table) : wft T leaf t -> forall l s m,
      interleave nat V (map (fun n => [fw_act t n]) (layer T leaf t l)) s ->
      mem_eq nat V (exec nat V s m) (exec nat V (map (fw_act t) (layer T leaf t l)) m).
  Proof.
    intros Hw l s m Hi. destruct (bottom_up_layer_commute t Hw l) as [H1 H2].
    rewrite <- (concat_singletons (fw_act t)) in H1, H2 |- *.
    now apply (interleave_sequential nat V).
  Qed.
End ParallelFacts.
