(* Proofs/LogFacts.v — log-likelihood and likelihood agree: every map ex : L -> T that turns the
   log-domain node functions into the linear ones turns lvals into vals, node by node. *)
From Coq Require Import List Arith ZArith Lia Bool.
From DV Require Import Model.Core Model.LogDomain.
Import ListNotations.

Section LogFacts.
  Variables T L : Type.
  Variables (t0 t1 : T) (tadd tmul : T -> T -> T).
  Variable l0 : L.
  Variable lprod : list L -> L.
  Variable lse : list T -> list L -> L.
  Variable leaf : Type.
  Variable leaf_ll : leaf -> row -> L.
  Variable leaf_val : leaf -> row -> T.
  Variable ex : L -> T.

  Notation vals := (vals T t0 t1 tadd tmul leaf leaf_val).
  Notation lvals := (lvals T L l0 lprod lse leaf leaf_ll).
  Notation dotT := (dotT T t0 tadd tmul).
  Notation prodT := (prodT T t1 tmul).

  Definition hom_node (r : row) (n : node T leaf) : Prop :=
    match nkind n with
    | KLeaf l => ex (leaf_ll l r) = leaf_val l r
    | KSum ws => forall xs, ex (lse ws xs) = dotT ws (map ex xs)
    | KProd => forall xs, ex (lprod xs) = prodT (map ex xs)
    end.

  Lemma lvals_snoc (t : table T leaf) n r :
    lvals (t ++ [n]) r = lvals t r ++ [lnode_val T L l0 lprod lse leaf leaf_ll n (lvals t r) r].
  Proof. unfold LogDomain.lvals. rewrite fold_left_app. reflexivity. Qed.
  Lemma vals_snoc' (t : table T leaf) n r :
    vals (t ++ [n]) r = vals t r ++ [node_val T t0 t1 tadd tmul leaf leaf_val n (vals t r) r].
  Proof. unfold Core.vals. rewrite fold_left_app. reflexivity. Qed.

  Theorem log_hom (t : table T leaf) r : ex l0 = t0 -> Forall (hom_node r) t ->
      map ex (lvals t r) = vals t r.
  Proof.
    intros H0. induction t as [|n t IH] using rev_ind; intros Hall; [reflexivity|].
    apply Forall_app in Hall. destruct Hall as [Ht Hn]. inversion Hn as [|? ? Hh _]; subst.
    specialize (IH Ht). rewrite lvals_snoc, vals_snoc', map_app, IH. f_equal. cbn [map]. f_equal.
    assert (Hnth : forall k, ex (nth k (lvals t r) l0) = nth k (vals t r) t0).
    { intros k. rewrite <- IH, <- H0. apply eq_sym, map_nth. }
    unfold lnode_val, node_val, hom_node in *.
    destruct (nkind n) as [l|ws|].
    - exact Hh.
    - rewrite Hh, map_map. f_equal. apply map_ext. intros k. apply Hnth.
    - rewrite Hh, map_map. f_equal. apply map_ext. intros k. apply Hnth.
  Qed.
End LogFacts.
