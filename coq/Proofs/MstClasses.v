(* Proofs/MstClasses.v — climbing in a rooted spanning tree (`top`), and the counting lemma: a rooted spanning tree has
   at most n - k edges inside the classes of a partition with k classes. *)
From Coq Require Import List Arith ZArith Bool Lia.
From DV Require Import Model.ChowLiu Proofs.ChowLiuTree Model.MstCert.
From DV Require Import Proofs.MstLayer.
Import ListNotations.
Local Open Scope nat_scope.

(* ---------- small list facts ---------- *)
Lemma filter_partition {A} (f : A -> bool) l : length (filter f l) + length (filter (fun x => negb (f x)) l) = length l.
Proof. induction l as [|x l IH]; cbn; [reflexivity|]. destruct (f x); cbn; lia. Qed.
Lemma filter_le {A} (f g : A -> bool) l : (forall x, In x l -> f x = true -> g x = true) -> length (filter f l) <= length (filter g l).
Proof.
  induction l as [|x l IH]; intros H; cbn; [lia|].
  assert (IH' := IH (fun y Hy => H y (or_intror Hy))).
  destruct (f x) eqn:E; [rewrite (H x (or_introl eq_refl) E); cbn; lia | destruct (g x); cbn; lia].
Qed.
Lemma NoDup_map_inj {A B} (f : A -> B) l : (forall x y, In x l -> In y l -> f x = f y -> x = y) -> NoDup l -> NoDup (map f l).
Proof.
  intros Hf H. induction H as [|x l Hx Hl IH]; cbn; constructor.
  - intro Hin. apply in_map_iff in Hin. destruct Hin as [y [Hy Hyl]]. apply Hx.
    rewrite (Hf x y); [exact Hyl | now left | now right | now symmetry].
  - apply IH. intros a b Ha Hb. apply Hf; now right.
Qed.
Lemma NoDup_app_intro {A} (l1 l2 : list A) : NoDup l1 -> NoDup l2 -> (forall x, In x l1 -> ~ In x l2) -> NoDup (l1 ++ l2).
Proof.
  induction 1 as [|x l1 Hx Hl IH]; intros H2 Hd; [exact H2|]. cbn. constructor.
  - intro Hin. apply in_app_or in Hin. destruct Hin as [Hin|Hin]; [contradiction | apply (Hd x); [now left | exact Hin]].
  - apply IH; [exact H2 | intros y Hy; apply Hd; now right].
Qed.

Section Tree.
  Variable w : nat -> nat -> Z.
  Variables (n root : nat).

  (* facts about one rooted spanning tree *)
  Section One.
    Variable q : list (option nat).
    Hypothesis Hq : is_tree n root q = true.
    Lemma q_root : root < n /\ par_of q root = None. Proof. destruct (is_tree_root n root q Hq) as (H1 & H2 & _). auto. Qed.
    Lemma q_other i : i < n -> i <> root -> exists j, par_of q i = Some j /\ j < n.
    Proof. destruct (is_tree_root n root q Hq) as (_ & _ & H & _). apply H. Qed.
    Lemma q_span i : i < n -> exists k, k <= n /\ anc q k i = Some root. Proof. apply (is_tree_spanning n root q Hq). Qed.
    Lemma q_par_lt i j : i < n -> par_of q i = Some j -> j < n /\ i <> root.
    Proof.
      intros Hi E. destruct (Nat.eq_dec i root) as [->|Hne]; [destruct q_root as [_ H]; congruence|].
      destruct (q_other i Hi Hne) as [j' [E' Hj']]. rewrite E in E'. inversion E'; subst. auto.
    Qed.
    Lemma q_len : length q = n. Proof. destruct (is_tree_parts n root q Hq) as (H & _). exact H. Qed.
  End One.

  (* ---------- climbing in the certified tree ---------- *)
  Variable p : list (option nat).
  Hypothesis Hp : is_tree n root p = true.
  Notation top := (top w p).
  Definition T (tau : Z) (i : nat) : nat := top tau n i.
  Definition cutb (tau : Z) (c : nat) : bool :=
    match par_of p c with Some j => Z.ltb (w c j) tau | None => true end.

  Lemma top_stable tau : forall k i, anc p k i = Some root -> forall f, k <= f -> top tau f i = top tau k i.
  Proof.
    induction k as [|k IH]; intros i Ha f Hf.
    - cbn in Ha. inversion Ha; subst i. destruct (q_root p Hp) as [_ Hr]. destruct f; cbn; [reflexivity | now rewrite Hr].
    - cbn in Ha. destruct (par_of p i) as [j|] eqn:E; [|discriminate]. destruct f as [|f]; [lia|]. cbn. rewrite E.
      destruct (Z.leb tau (w i j)); [apply IH; [exact Ha | lia] | reflexivity].
  Qed.

  Lemma T_eq tau i : i < n -> T tau i = match par_of p i with
                                        | Some j => if Z.leb tau (w i j) then T tau j else i
                                        | None => i end.
  Proof.
    intros Hi. unfold T. destruct (q_span p Hp i Hi) as [k [Hk Ha]]. destruct (q_root p Hp) as [Hrn Hr].
    replace (top tau n i) with (top tau (S (n - 1)) i) by (f_equal; lia).
    cbn [MstCert.top]. destruct (par_of p i) as [j|] eqn:E; [|reflexivity].
    destruct (Z.leb tau (w i j)); [|reflexivity].
    destruct k as [|k]; [cbn in Ha; inversion Ha; subst; congruence|]. cbn in Ha. rewrite E in Ha.
    rewrite (top_stable tau k j Ha (n - 1)) by lia. rewrite (top_stable tau k j Ha n) by lia. reflexivity.
  Qed.

  Lemma T_cut tau : forall k i, anc p k i = Some root -> i < n -> T tau i < n /\ cutb tau (T tau i) = true.
  Proof.
    induction k as [|k IH]; intros i Ha Hi; rewrite (T_eq tau i Hi).
    - cbn in Ha. inversion Ha; subst i. destruct (q_root p Hp) as [_ Hr]. rewrite Hr. split; [exact Hi|]. unfold cutb. now rewrite Hr.
    - cbn in Ha. destruct (par_of p i) as [j|] eqn:E; [|discriminate]. destruct (q_par_lt p Hp i j Hi E) as [Hj _].
      destruct (Z.leb_spec tau (w i j)) as [Hle|Hlt]; [apply IH; assumption|].
      split; [exact Hi|]. unfold cutb. rewrite E. now apply Z.ltb_lt.
  Qed.
  Lemma T_fix tau c : c < n -> cutb tau c = true -> T tau c = c.
  Proof.
    intros Hc Hcut. rewrite (T_eq tau c Hc). unfold cutb in Hcut. destruct (par_of p c) as [j|]; [|reflexivity].
    apply Z.ltb_lt in Hcut. destruct (Z.leb_spec tau (w c j)); [lia | reflexivity].
  Qed.
  Lemma T_mono s s' : (s <= s')%Z -> forall k i, anc p k i = Some root -> i < n -> T s (T s' i) = T s i.
  Proof.
    intros Hs. induction k as [|k IH]; intros i Ha Hi.
    - cbn in Ha. inversion Ha; subst i. destruct (q_root p Hp) as [_ Hr]. rewrite (T_eq s' root Hi), Hr. reflexivity.
    - cbn in Ha. destruct (par_of p i) as [j|] eqn:E; [|discriminate]. destruct (q_par_lt p Hp i j Hi E) as [Hj _].
      rewrite (T_eq s' i Hi), E. destruct (Z.leb_spec s' (w i j)) as [Hle|Hlt]; [|reflexivity].
      rewrite (IH j Ha Hj). rewrite (T_eq s i Hi), E. destruct (Z.leb_spec s (w i j)); [reflexivity | lia].
  Qed.

  (* ---------- a spanning tree has at most n - k edges inside a partition with k classes ---------- *)
  Section Classes.
    Variable cls : nat -> nat.
    Variable R : list nat.
    Hypothesis R_nodup : NoDup R.
    Hypothesis R_ok : forall c, In c R -> c < n /\ cls c = c.
    Variable p' : list (option nat).
    Hypothesis Hp' : is_tree n root p' = true.

    Definition inside (i : nat) : bool :=
      negb (Nat.eqb i root) && match par_of p' i with Some j => Nat.eqb (cls j) (cls i) | None => false end.
    Fixpoint exitw (fuel i : nat) : nat :=
      match fuel with
      | O => i
      | S f => if Nat.eqb i root then i else
               match par_of p' i with
               | Some j => if Nat.eqb (cls j) (cls i) then exitw f j else i
               | None => i
               end
      end.
    Lemma exit_spec : forall k c, anc p' k c = Some root -> c < n -> forall f, k <= f ->
        exitw f c < n /\ cls (exitw f c) = cls c /\ inside (exitw f c) = false.
    Proof.
      induction k as [|k IH]; intros c Ha Hc f Hf.
      - cbn in Ha. inversion Ha; subst c. assert (E : exitw f root = root) by (destruct f; cbn; [reflexivity | now rewrite Nat.eqb_refl]).
        rewrite E. split; [exact Hc|]. split; [reflexivity|]. unfold inside. now rewrite Nat.eqb_refl.
      - cbn in Ha. destruct (par_of p' c) as [j|] eqn:E; [|discriminate]. destruct (q_par_lt p' Hp' c j Hc E) as [Hj Hne].
        destruct f as [|f]; [lia|]. cbn [exitw]. destruct (Nat.eqb_spec c root) as [->|_]; [congruence|]. rewrite E.
        destruct (Nat.eqb_spec (cls j) (cls c)) as [Heq|Hneq].
        + destruct (IH j Ha Hj f ltac:(lia)) as (H1 & H2 & H3). split; [exact H1|]. split; [congruence | exact H3].
        + split; [exact Hc|]. split; [reflexivity|]. unfold inside. rewrite E.
          destruct (Nat.eqb_spec (cls j) (cls c)); [contradiction | apply andb_false_r].
    Qed.

    Lemma class_bound : length (filter inside (seq 0 n)) + length R <= n.
    Proof.
      set (ex := exitw n).
      assert (Hex : forall c, In c R -> ex c < n /\ cls (ex c) = c /\ inside (ex c) = false).
      { intros c Hc. destruct (R_ok c Hc) as [Hcn Hcc]. destruct (q_span p' Hp' c Hcn) as [k [Hk Ha]].
        destruct (exit_spec k c Ha Hcn n Hk) as (H1 & H2 & H3). unfold ex. rewrite Hcc in H2. auto. }
      assert (Hnd : NoDup (filter inside (seq 0 n) ++ map ex R)).
      { apply NoDup_app_intro.
        - apply NoDup_filter, seq_NoDup.
        - apply NoDup_map_inj; [|exact R_nodup]. intros x y Hx Hy E.
          destruct (Hex x Hx) as (_ & Hcx & _). destruct (Hex y Hy) as (_ & Hcy & _). congruence.
        - intros x Hx Hx'. apply filter_In in Hx. destruct Hx as [_ Hin]. apply in_map_iff in Hx'. destruct Hx' as [c [<- Hc]].
          destruct (Hex c Hc) as (_ & _ & Hout). congruence. }
      assert (Hincl : incl (filter inside (seq 0 n) ++ map ex R) (seq 0 n)).
      { intros x Hx. apply in_app_or in Hx. destruct Hx as [Hx|Hx].
        - apply filter_In in Hx. tauto.
        - apply in_map_iff in Hx. destruct Hx as [c [<- Hc]]. apply in_seq. destruct (Hex c Hc) as (H & _). lia. }
      pose proof (NoDup_incl_length Hnd Hincl) as H. rewrite app_length, map_length, seq_length in H. exact H.
    Qed.
  End Classes.
End Tree.
