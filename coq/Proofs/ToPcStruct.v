(* Proofs/ToPcStruct.v — C12: the circuit built from a Chow-Liu tree is DETERMINISTIC (every sum has two
   children and, on every row that observes the sum's variable, one of them evaluates to zero) and
   STRUCTURED-DECOMPOSABLE (the scopes of its product nodes are pairwise nested or disjoint: they are the
   variable sets of the subtrees of one rooted tree). *)
From Coq Require Import List Arith ZArith Ring Lia Bool.
From DV Require Import Model.Core Model.Clt Model.Leaves Model.ToPc Proofs.CoreFacts Proofs.CltFacts Proofs.PruneFacts Proofs.ToPcFacts.
Import ListNotations.

Section ToPcStruct.
  Variable T : Type.
  Variables (t0 t1 : T) (tadd tmul : T -> T -> T).
  Hypothesis SRth : semi_ring_theory t0 t1 tadd tmul (@eq T).
  Add Ring Tring12 : SRth.
  Infix "*" := tmul.
  Notation leaf := (leaf T).
  Notation lval := (leaf_val T t0 t1 tadd tmul).
  Notation table := (table T leaf).
  Notation dnode := (dummy_node T leaf).
  Notation prodT := (prodT T t1 tmul).
  Notation val := (val T t0 t1 tadd tmul leaf lval).
  Notation vars := (vars T).
  Notation wf := (wf T leaf).
  Notation topc := (topc T t0 t1).
  Notation go_with := (go_with T).
  Notation spec := (spec T t0 t1 tadd tmul).

  Definition lam (a b : list nat) : Prop := incl a b \/ incl b a \/ (forall u, In u a -> ~ In u b).
  Definition is_prod (t : table) (j : nat) : Prop := nkind (nth j t dnode) = KProd.

  (* one of the two children of a sum is switched off by the value of the sum's variable *)
  Definition det_pair (t : table) (v a b : nat) : Prop :=
    (forall r, r v = Some 1%Z -> val t a r = t0) /\ (forall r, r v = Some 0%Z -> val t b r = t0).
  Definition node_shape (t : table) (j : nat) (V : list nat) : Prop :=
    (forall u, In u (nscope (nth j t dnode)) -> In u V) /\
    match nkind (nth j t dnode) with
    | KSum _ => exists v a b, In v (nscope (nth j t dnode)) /\ nkids (nth j t dnode) = [a; b] /\ a < j /\ b < j /\ det_pair t v a b
    | _ => True
    end.

  Lemma val_app' (acc ext : table) i r : i < length acc -> val (acc ++ ext) i r = val acc i r.
  Proof. apply (val_prefix T t0 t1 tadd tmul leaf lval). Qed.

  Lemma shape_stable (t ext : table) j V : j < length t -> node_shape t j V -> node_shape (t ++ ext) j V.
  Proof.
    intros Hj [Hs Hk]. unfold node_shape. rewrite app_nth1 by exact Hj. split; [exact Hs|].
    destruct (nkind (nth j t dnode)); auto.
    destruct Hk as (v & a & b & Hv & Hkids & Ha & Hb & [H1 H0]). exists v, a, b. repeat split; auto.
    - intros r Hr. rewrite val_app' by lia. now apply H1.
    - intros r Hr. rewrite val_app' by lia. now apply H0.
  Qed.
  Lemma shape_weaken (t : table) j V V' : (forall u, In u V -> In u V') -> node_shape t j V -> node_shape t j V'.
  Proof. intros H [Hs Hk]. split; auto. Qed.

  Definition spec3 (k : ctree T) : Prop := forall acc, wf acc ->
    let '(res, (n, p)) := topc k acc in
    (forall u, In u (nscope (nth n res dnode)) <-> In u (vars k)) /\
    (forall j, length acc <= j < length res -> node_shape res j (vars k)) /\
    (forall j1 j2, length acc <= j1 < length res -> length acc <= j2 < length res ->
                   is_prod res j1 -> is_prod res j2 -> lam (nscope (nth j1 res dnode)) (nscope (nth j2 res dnode))).

  Lemma go_spec3 ks : Forall spec ks -> Forall spec3 ks -> NoDup (flat_map vars ks) ->
      forall acc negs poss sc, wf acc ->
      Forall (fun i => i < length acc) negs -> Forall (fun i => i < length acc) poss ->
      let '(res, (negs', poss', sc')) := go_with topc ks acc negs poss sc in
      (forall u, In u (concat sc') <-> In u (concat sc) \/ In u (flat_map vars ks)) /\
      (forall j, length acc <= j < length res -> node_shape res j (flat_map vars ks)) /\
      (forall j1 j2, length acc <= j1 < length res -> length acc <= j2 < length res ->
                     is_prod res j1 -> is_prod res j2 -> lam (nscope (nth j1 res dnode)) (nscope (nth j2 res dnode))).
  Proof.
    induction 1 as [|k ks Hk Hks IH]; intros H3 Hnd acc negs poss sc Hwf Hn Hp; cbn [ToPc.go_with].
    - split; [intros u; cbn; tauto|]. split; intros; lia.
    - inversion H3 as [|? ? Hk3 Hks3]; subst. cbn in Hnd.
      pose proof (Hk acc Hwf) as Hk1. specialize (Hk3 acc Hwf).
      destruct (topc k acc) as [a1 [n p]] eqn:Ek.
      destruct Hk1 as ([ext1 He1] & Hwf1 & Hn1 & Hp1 & _). destruct Hk3 as (Hsc1 & Hsh1 & Hlam1).
      assert (Hlen : length acc <= length a1) by (rewrite He1, app_length; lia).
      assert (Hn' : Forall (fun i => i < length a1) (n :: negs)).
      { constructor; [exact Hn1|]. eapply Forall_impl; [|exact Hn]. cbn. intros; lia. }
      assert (Hp' : Forall (fun i => i < length a1) (p :: poss)).
      { constructor; [exact Hp1|]. eapply Forall_impl; [|exact Hp]. cbn. intros; lia. }
      pose proof (go_spec T t0 t1 tadd tmul SRth ks Hks a1 (n :: negs) (p :: poss) (nscope (nth n a1 dnode) :: sc) Hwf1 Hn' Hp') as Hg.
      specialize (IH Hks3 (nodup_app_r _ _ Hnd) a1 (n :: negs) (p :: poss) (nscope (nth n a1 dnode) :: sc) Hwf1 Hn' Hp').
      destruct (go_with topc ks a1 (n :: negs) (p :: poss) (nscope (nth n a1 dnode) :: sc)) as [res [[negs' poss'] sc']].
      destruct Hg as ([ext2 He2] & _). destruct IH as (Hsc2 & Hsh2 & Hlam2).
      assert (Hlen2 : length a1 <= length res) by (rewrite He2, app_length; lia).
      assert (Hnth : forall j, j < length a1 -> nth j res dnode = nth j a1 dnode) by (intros j Hj; rewrite He2; now apply app_nth1).
      split; [|split].
      + intros u. rewrite Hsc2. cbn [concat flat_map]. rewrite !in_app_iff, Hsc1. tauto.
      + intros j Hj. destruct (Nat.lt_ge_cases j (length a1)) as [Hlt|Hge].
        * apply (shape_weaken _ _ (vars k)); [intros u Hu; cbn; apply in_or_app; now left|].
          rewrite He2. apply shape_stable; [exact Hlt|]. apply Hsh1. lia.
        * apply (shape_weaken _ _ (flat_map vars ks)); [intros u Hu; cbn; apply in_or_app; now right|]. apply Hsh2. lia.
      + intros j1 j2 Hj1 Hj2 Hp1' Hp2'.
        assert (Hin1 : forall j, length acc <= j < length a1 -> forall u, In u (nscope (nth j res dnode)) -> In u (vars k)).
        { intros j Hj u Hu. rewrite Hnth in Hu by lia. now apply (proj1 (Hsh1 j Hj)). }
        assert (Hin2 : forall j, length a1 <= j < length res -> forall u, In u (nscope (nth j res dnode)) -> In u (flat_map vars ks)).
        { intros j Hj u Hu. now apply (proj1 (Hsh2 j Hj)). }
        destruct (Nat.lt_ge_cases j1 (length a1)) as [L1|G1]; destruct (Nat.lt_ge_cases j2 (length a1)) as [L2|G2].
        * unfold is_prod in *. rewrite !Hnth in * by lia. apply Hlam1; auto; lia.
        * right; right. intros u Hu1 Hu2. apply (nodup_app_disj _ _ Hnd u); [apply (Hin1 j1); [lia|exact Hu1] | apply (Hin2 j2); [lia|exact Hu2]].
        * right; right. intros u Hu1 Hu2. apply (nodup_app_disj _ _ Hnd u); [apply (Hin1 j2); [lia|exact Hu2] | apply (Hin2 j1); [lia|exact Hu1]].
        * apply Hlam2; auto; lia.
  Qed.

  Lemma nth_new (l ext : table) j : nth (length l + j) (l ++ ext) dnode = nth j ext dnode.
  Proof. rewrite app_nth2 by lia. f_equal. lia. Qed.

  Theorem topc_struct t : NoDup (vars t) -> spec3 t.
  Proof.
    induction t as [v cpt kids IH] using (ctree_ind' T). intros Hnd acc Hwf.
    pose proof (topc_spec T t0 t1 tadd tmul SRth (CT v cpt kids) Hnd acc Hwf) as Hspec.
    cbn in Hnd. apply NoDup_cons_iff in Hnd. destruct Hnd as [Hv Hnd].
    assert (Hndk : forall k, In k kids -> NoDup (vars k)).
    { intros k Hk. destruct (in_split _ _ Hk) as [l1 [l2 ->]]. rewrite flat_map_app in Hnd. cbn in Hnd.
      apply nodup_app_r in Hnd. now apply nodup_app_l in Hnd. }
    assert (Hspecs : Forall spec kids).
    { rewrite Forall_forall. intros k Hk. apply (topc_spec T t0 t1 tadd tmul SRth). now apply Hndk. }
    assert (Hspecs3 : Forall spec3 kids).
    { rewrite Forall_forall in *. intros k Hk. apply IH; [exact Hk | now apply Hndk]. }
    rewrite (topc_eq T t0 t1) in *.
    pose proof (go_spec T t0 t1 tadd tmul SRth kids Hspecs acc [] [] [] Hwf (Forall_nil _) (Forall_nil _)) as Hgo.
    pose proof (go_spec3 kids Hspecs Hspecs3 Hnd acc [] [] [] Hwf (Forall_nil _) (Forall_nil _)) as Hgo3.
    destruct (go_with topc kids acc [] [] []) as [acc1 [[negs poss] scs]].
    destruct Hgo as ([ext1 He1] & Hwf1 & Hn1 & Hp1 & _). destruct Hgo3 as (Hsc & Hsh & Hlam).
    assert (Hla : length acc <= length acc1) by (rewrite He1, app_length; lia).
    set (i0 := length acc1) in *.
    unfold ToPc.emit in *. fold i0 in Hspec |- *.
    destruct kids as [|k0 kids'] eqn:Ekids.
    - (* leaf of the tree *)
      set (ext := [ind0 T t0 t1 v; ind1 T t0 t1 v;
                   Build_node (KSum [cpt 0%Z 0%Z; cpt 0%Z 1%Z]) [v] [i0; S i0];
                   Build_node (KSum [cpt 1%Z 0%Z; cpt 1%Z 1%Z]) [v] [i0; S i0]]) in *.
      set (res := acc1 ++ ext) in *.
      destruct Hspec as (_ & Hres & _).
      assert (Hlen : length res = i0 + 4) by (unfold res; rewrite app_length; reflexivity).
      assert (Hnew : forall j, nth (i0 + j) res dnode = nth j ext dnode) by (intro j; unfold res, i0; apply nth_new).
      assert (H0 : forall r, val res i0 r = lval (LTab v [(0%Z, t1); (1%Z, t0)]) r).
      { intro r. rewrite (val_unfold T t0 t1 tadd tmul leaf lval res Hres i0 ltac:(lia) r).
        replace i0 with (i0 + 0) at 1 by lia. rewrite Hnew. reflexivity. }
      assert (H1 : forall r, val res (S i0) r = lval (LTab v [(0%Z, t0); (1%Z, t1)]) r).
      { intro r. rewrite (val_unfold T t0 t1 tadd tmul leaf lval res Hres (S i0) ltac:(lia) r).
        replace (S i0) with (i0 + 1) at 1 by lia. rewrite Hnew. reflexivity. }
      assert (Hdet : det_pair res v i0 (S i0)).
      { split; intros r Hr; [rewrite H0 | rewrite H1]; rewrite ?(ind0_val T t0 t1 tadd tmul), ?(ind1_val T t0 t1 tadd tmul), Hr; reflexivity. }
      split; [|split].
      + intros u. replace (i0 + 2) with (i0 + 2) by lia. rewrite Hnew. cbn. tauto.
      + intros j Hj. destruct (Nat.lt_ge_cases j i0) as [Hlt|Hge].
        * apply (shape_weaken _ _ (flat_map vars [])); [intros u []|]. unfold res. apply shape_stable; [exact Hlt|]. apply Hsh. lia.
        * replace j with (i0 + (j - i0)) by lia. unfold node_shape. rewrite Hnew.
          destruct (j - i0) as [|[|[|[|?]]]] eqn:E; try lia; cbn; (split; [intros u [<-|[]]; now left|]); auto;
            exists v, i0, (S i0); repeat split; try (now left); try lia; apply Hdet.
      + intros j1 j2 Hj1 Hj2 Hp1' Hp2'.
        assert (Hold : forall j, length acc <= j < length res -> is_prod res j -> j < i0).
        { intros j Hj Hpj. destruct (Nat.lt_ge_cases j i0) as [|Hge]; [assumption|]. exfalso. unfold is_prod in Hpj.
          replace j with (i0 + (j - i0)) in Hpj by lia. rewrite Hnew in Hpj.
          destruct (j - i0) as [|[|[|[|?]]]] eqn:E; try lia; cbn in Hpj; discriminate. }
        pose proof (Hold j1 Hj1 Hp1') as L1. pose proof (Hold j2 Hj2 Hp2') as L2.
        unfold is_prod, res in *. rewrite !app_nth1 in * by exact L1 || exact L2. apply Hlam; auto; lia.
    - (* inner node *)
      set (psc := v :: concat scs) in *.
      set (ext := [ind0 T t0 t1 v; ind1 T t0 t1 v;
                   Build_node KProd psc (i0 :: negs); Build_node KProd psc (S i0 :: poss);
                   Build_node (KSum [cpt 0%Z 0%Z; cpt 0%Z 1%Z]) psc [i0 + 2; i0 + 3];
                   Build_node (KSum [cpt 1%Z 0%Z; cpt 1%Z 1%Z]) psc [i0 + 2; i0 + 3]]) in *.
      set (res := acc1 ++ ext) in *.
      destruct Hspec as (_ & Hres & _).
      assert (Hlen : length res = i0 + 6) by (unfold res; rewrite app_length; reflexivity).
      assert (Hnew : forall j, nth (i0 + j) res dnode = nth j ext dnode) by (intro j; unfold res, i0; apply nth_new).
      assert (Hpsc : forall u, In u psc <-> In u (vars (CT v cpt (k0 :: kids')))).
      { intros u. unfold psc. cbn [In Clt.vars]. rewrite Hsc. cbn [concat In]. tauto. }
      assert (H0 : forall r, val res i0 r = lval (LTab v [(0%Z, t1); (1%Z, t0)]) r).
      { intro r. rewrite (val_unfold T t0 t1 tadd tmul leaf lval res Hres i0 ltac:(lia) r).
        replace i0 with (i0 + 0) at 1 by lia. rewrite Hnew. reflexivity. }
      assert (H1 : forall r, val res (S i0) r = lval (LTab v [(0%Z, t0); (1%Z, t1)]) r).
      { intro r. rewrite (val_unfold T t0 t1 tadd tmul leaf lval res Hres (S i0) ltac:(lia) r).
        replace (S i0) with (i0 + 1) at 1 by lia. rewrite Hnew. reflexivity. }
      assert (Hpn : forall r, val res (i0 + 2) r = val res i0 r * prodT (map (fun i => val res i r) negs)).
      { intro r. rewrite (val_unfold T t0 t1 tadd tmul leaf lval res Hres (i0 + 2) ltac:(lia) r). rewrite Hnew. reflexivity. }
      assert (Hpp : forall r, val res (i0 + 3) r = val res (S i0) r * prodT (map (fun i => val res i r) poss)).
      { intro r. rewrite (val_unfold T t0 t1 tadd tmul leaf lval res Hres (i0 + 3) ltac:(lia) r). rewrite Hnew. reflexivity. }
      assert (Hdet : det_pair res v (i0 + 2) (i0 + 3)).
      { split; intros r Hr; [rewrite Hpn, H0 | rewrite Hpp, H1];
          rewrite ?(ind0_val T t0 t1 tadd tmul), ?(ind1_val T t0 t1 tadd tmul), Hr; cbn; ring. }
      split; [|split].
      + intros u. rewrite Hnew. cbn [nth ext nscope]. apply Hpsc.
      + intros j Hj. destruct (Nat.lt_ge_cases j i0) as [Hlt|Hge].
        * apply (shape_weaken _ _ (flat_map vars (k0 :: kids'))); [intros u Hu; cbn [Clt.vars]; now right|].
          unfold res. apply shape_stable; [exact Hlt|]. apply Hsh. lia.
        * replace j with (i0 + (j - i0)) by lia. unfold node_shape. rewrite Hnew.
          destruct (j - i0) as [|[|[|[|[|[|?]]]]]] eqn:E; try lia; cbn [nth ext nscope nkind nkids ind0 ind1].
          -- split; [intros u [<-|[]]; cbn; now left | exact I].
          -- split; [intros u [<-|[]]; cbn; now left | exact I].
          -- split; [intros u Hu; now apply Hpsc | exact I].
          -- split; [intros u Hu; now apply Hpsc | exact I].
          -- split; [intros u Hu; now apply Hpsc|]. exists v, (i0 + 2), (i0 + 3). repeat split; try (now left); try lia; apply Hdet.
          -- split; [intros u Hu; now apply Hpsc|]. exists v, (i0 + 2), (i0 + 3). repeat split; try (now left); try lia; apply Hdet.
      + intros j1 j2 Hj1 Hj2 Hp1' Hp2'.
        assert (Hcase : forall j, length acc <= j < length res -> is_prod res j ->
                   (j < i0 /\ incl (nscope (nth j res dnode)) psc) \/ nscope (nth j res dnode) = psc).
        { intros j Hj Hpj. destruct (Nat.lt_ge_cases j i0) as [Hlt|Hge].
          - left. split; [exact Hlt|]. intros u Hu. unfold res in Hu. rewrite app_nth1 in Hu by exact Hlt.
            apply Hpsc. cbn [Clt.vars]. right. apply (proj1 (Hsh j ltac:(lia))). exact Hu.
          - right. unfold is_prod in Hpj. replace j with (i0 + (j - i0)) in * by lia. rewrite Hnew in *.
            destruct (j - i0) as [|[|[|[|[|[|?]]]]]] eqn:E; try lia; cbn in Hpj |- *; try discriminate; reflexivity. }
        destruct (Hcase j1 Hj1 Hp1') as [[L1 I1]|E1]; destruct (Hcase j2 Hj2 Hp2') as [[L2 I2]|E2].
        * unfold is_prod, res in *. rewrite !app_nth1 in * by exact L1 || exact L2. apply Hlam; auto; lia.
        * left. now rewrite E2.
        * right; left. now rewrite E1.
        * left. rewrite E1, E2. apply incl_refl.
  Qed.

  (* ---- the two clauses of C12, for a whole tree ---- *)
  Theorem to_pc_deterministic (t : ctree T) : NoDup (vars t) ->
      let '(res, _) := topc t [] in
      forall j ws, j < length res -> nkind (nth j res dnode) = KSum ws ->
        exists v a b, In v (nscope (nth j res dnode)) /\ nkids (nth j res dnode) = [a; b] /\
          forall r, (r v = Some 0%Z \/ r v = Some 1%Z) -> val res a r = t0 \/ val res b r = t0.
  Proof.
    intros Hnd. pose proof (topc_struct t Hnd [] ltac:(intros j Hj; cbn in Hj; lia)) as H.
    destruct (topc t []) as [res [n p]]. destruct H as (_ & Hsh & _).
    intros j ws Hj Hk. destruct (Hsh j ltac:(cbn; lia)) as [_ Hs]. rewrite Hk in Hs.
    destruct Hs as (v & a & b & Hv & Hkids & _ & _ & [D1 D0]). exists v, a, b. repeat split; auto.
    intros r [Hr|Hr]; [right; now apply D0 | left; now apply D1].
  Qed.

  Theorem to_pc_structured (t : ctree T) : NoDup (vars t) ->
      let '(res, _) := topc t [] in
      forall j1 j2, j1 < length res -> j2 < length res -> is_prod res j1 -> is_prod res j2 ->
        lam (nscope (nth j1 res dnode)) (nscope (nth j2 res dnode)).
  Proof.
    intros Hnd. pose proof (topc_struct t Hnd [] ltac:(intros j Hj; cbn in Hj; lia)) as H.
    destruct (topc t []) as [res [n p]]. destruct H as (_ & _ & Hl).
    intros j1 j2 H1 H2. apply Hl; cbn; lia.
  Qed.
End ToPcStruct.
