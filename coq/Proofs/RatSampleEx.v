(* Proofs/RatSampleEx.v — the leaf-table hypothesis of C16_sample_measure is satisfiable (the example
   architecture of Proofs/RatLiftEx.v: keys duplicate-free, masses sum to one). *)
From Coq Require Import List Arith ZArith QArith Qcanon Lia.
From DV Require Import Model.Core Model.Leaves Model.QcInst Model.Rat Model.Sample Model.RatSample
  Proofs.RatLiftEx Proofs.RatSampleFacts.
Import ListNotations.
Local Open Scope nat_scope.

Lemma ex_stabs_ok : stabs_ok Qc 0%Qc 1%Qc Qcplus (dim_of 3 1) ex_tabs.
Proof.
  repeat constructor; try qc_solve; cbn; intros H; repeat (destruct H as [H|H]; try discriminate H); exact H.
Qed.
