(* Proofs/GateFacts.v — every well-bracketed history of context blocks, whether its blocks are left normally
   or by exceptions, leaves the flags exactly as it found them; in particular, outside every block the
   validation gate is enabled (the flags are the ones the program started with). *)
From Coq Require Import List Arith Bool Lia.
From DV Require Import Model.Gate.
Import ListNotations.

Inductive balanced : list op -> Prop :=
| b_nil : balanced []
| b_query l : balanced l -> balanced (OQuery :: l)
| b_with k body e rest : balanced body -> balanced rest -> balanced (OWith k :: body ++ OExit e :: rest)
| b_deco k body e rest : balanced body -> balanced rest -> balanced (ODeco k :: body ++ OExit e :: rest).

Lemma grun_app s l1 l2 :
  grun s (l1 ++ l2) = let (s1, o1) := grun s l1 in let (s2, o2) := grun s1 l2 in (s2, o1 ++ o2).
Proof.
  revert s. induction l1 as [|o l1 IH]; intros s; cbn [app grun].
  - destruct (grun s l2). reflexivity.
  - destruct (gstep s o) as [s1 o1]. rewrite IH. destruct (grun s1 l1) as [s2 o2]. destruct (grun s2 l2) as [s3 o3].
    now rewrite app_assoc.
Qed.

Lemma exit_push s c e : gstep {| cur := c; saved := cur s :: saved s; top := top s |} (OExit e) = (s, []).
Proof. destruct s; reflexivity. Qed.

(* a balanced history restores the whole state; every query inside it runs at depth >= the starting depth,
   and the queries at exactly the starting depth see the starting flags *)
Lemma block_run c body e rest : 
    (forall s, fst (grun s body) = s /\
       forall d f, In (d, f) (snd (grun s body)) -> length (saved s) <= d /\ (d = length (saved s) -> f = cur s)) ->
    (forall s, fst (grun s rest) = s /\
       forall d f, In (d, f) (snd (grun s rest)) -> length (saved s) <= d /\ (d = length (saved s) -> f = cur s)) ->
    forall s, let s1 := {| cur := c s; saved := cur s :: saved s; top := top s |} in
    fst (grun s1 (body ++ OExit e :: rest)) = s /\
    forall d f, In (d, f) (snd (grun s1 (body ++ OExit e :: rest))) -> length (saved s) <= d /\ (d = length (saved s) -> f = cur s).
Proof.
  intros IHb IHr s s1. rewrite grun_app.
  destruct (IHb s1) as [E1 H1]. destruct (grun s1 body) as [s2 o2]. cbn [fst snd] in E1, H1. subst s2.
  cbn [grun]. unfold s1. rewrite exit_push. fold s1.
  destruct (IHr s) as [E2 H2]. destruct (grun s rest) as [s3 o3]. cbn [fst snd] in E2, H2 |- *. subst s3. split; [reflexivity|].
  intros d f Hin. cbn [app] in Hin. apply in_app_or in Hin. destruct Hin as [Hin|Hin].
  - destruct (H1 d f Hin) as [Hd _]. unfold s1 in Hd. cbn in Hd. split; [lia | intro; lia].
  - now apply H2.
Qed.

Lemma balanced_run l : balanced l -> forall s,
    fst (grun s l) = s /\
    forall d f, In (d, f) (snd (grun s l)) -> length (saved s) <= d /\ (d = length (saved s) -> f = cur s).
Proof.
  induction 1 as [|l Hl IH|k body e rest Hb IHb Hr IHr|k body e rest Hb IHb Hr IHr]; intros s.
  - cbn. split; [reflexivity | intros d f []].
  - cbn [grun gstep]. destruct (IH s) as [E H]. destruct (grun s l) as [s2 o2]. cbn in *. subst s2. split; [reflexivity|].
    intros d f [Heq|Hin]; [inversion Heq; subst; split; [lia | reflexivity] | now apply H].
  - cbn [grun gstep].
    pose proof (block_run (fun s => override (cur s) k) body e rest IHb IHr s) as H. cbn zeta in H.
    destruct (grun _ (body ++ OExit e :: rest)) as [s2 o2]. exact H.
  - cbn [grun gstep].
    pose proof (block_run (fun s => override (top s) k) body e rest IHb IHr s) as H. cbn zeta in H.
    destruct (grun _ (body ++ OExit e :: rest)) as [s2 o2]. exact H.
Qed.

Theorem gate_restored l f0 : balanced l -> fst (grun (ginit f0) l) = ginit f0.
Proof. intros H. apply (balanced_run l H). Qed.

Theorem gate_enabled_outside_blocks l : balanced l ->
    forall f, In (0, f) (snd (grun (ginit default_flags) l)) -> f_spn f = true /\ f_dtype f = true.
Proof.
  intros H f Hin. destruct (balanced_run l H (ginit default_flags)) as [_ Hq].
  destruct (Hq 0 f Hin) as [_ Hf]. rewrite (Hf eq_refl). split; reflexivity.
Qed.

(* whatever happened before (any number of completed histories, each possibly ending in exceptions), the next
   history starts from the default flags *)
Theorem gate_histories ls : Forall balanced ls -> fst (grun (ginit default_flags) (concat ls)) = ginit default_flags.
Proof.
  induction 1 as [|l ls Hl Hls IH]; [reflexivity|]. cbn [concat]. rewrite grun_app.
  pose proof (gate_restored l default_flags Hl) as E. destruct (grun (ginit default_flags) l) as [s1 o1]. cbn in E. subst s1.
  destruct (grun (ginit default_flags) (concat ls)) as [s2 o2]. exact IH.
Qed.

(* non-vacuity *)
Example gate_example :
  let l := [OWith {| k_dtype := None; k_spn := Some false |}; OQuery;
            ODeco {| k_dtype := Some false; k_spn := None |}; OQuery; OExit true; OExit true; OQuery] in
  balanced l /\ run_gate l = [2; 1; 3].
Proof.
  split; [|reflexivity].
  apply (b_with _ [OQuery; ODeco {| k_dtype := Some false; k_spn := None |}; OQuery; OExit true] true [OQuery]).
  - apply b_query. apply (b_deco _ [OQuery] true []); repeat constructor.
  - repeat constructor.
Qed.
