(* Proofs/BfsFacts.v — node.bfs (the traversal behind collect_nodes / check_spn) visits exactly the
   objects reachable from the root, each once, on every closed object graph (cycles and sharing
   allowed); the fuel S (length h) always suffices. *)
From Coq Require Import List Arith Bool Lia.
From DV Require Import Model.Clt Model.Check Model.Heap Proofs.HeapFacts.
Import ListNotations.

Section BfsFacts.
  Variable h : heap.
  Definition closed : Prop := forall x, x < length h -> Forall (fun c => c < length h) (okids (hget h x)).
  Inductive reach (r : nat) : nat -> Prop :=
  | reach_refl : reach r r
  | reach_step x c : reach r x -> In c (okids (hget h x)) -> reach r c.

  Definition freshf (seen : list nat) (ks : list nat) : list nat :=
    fold_left (fun acc c => if memb c (seen ++ acc) then acc else acc ++ [c]) ks [].

  Lemma fresh_gen seen ks : forall acc, NoDup acc -> (forall x, In x acc -> ~ In x seen) ->
      let out := fold_left (fun acc c => if memb c (seen ++ acc) then acc else acc ++ [c]) ks acc in
      NoDup out /\ (forall x, In x out -> ~ In x seen) /\
      (forall x, In x out <-> In x acc \/ (In x ks /\ ~ In x seen)).
  Proof.
    induction ks as [|k ks IH]; intros acc Hnd Hdis; cbn [fold_left].
    - repeat split; auto; cbn; tauto.
    - destruct (memb k (seen ++ acc)) eqn:E.
      + apply memb_In' in E. destruct (IH acc Hnd Hdis) as (H1 & H2 & H3). repeat split; auto.
        * intros Hx. apply H3 in Hx. destruct Hx as [Hx|[Hx Hn]]; [now left | right; split; [now right | exact Hn]].
        * intros [Hx|[[<-|Hx] Hn]]; apply H3; [now left | | right; tauto].
          apply in_app_or in E. destruct E as [E|E]; [contradiction | now left].
      + assert (Hk : ~ In k (seen ++ acc)) by (intro Hc; apply memb_In' in Hc; congruence).
        assert (Hnd' : NoDup (acc ++ [k])).
        { apply NoDup_app_iff. repeat split; auto; [repeat constructor; auto|].
          intros x Hx [<-|[]]. apply Hk. apply in_or_app. now right. }
        assert (Hdis' : forall x, In x (acc ++ [k]) -> ~ In x seen).
        { intros x Hx. apply in_app_or in Hx. destruct Hx as [Hx|[<-|[]]]; [now apply Hdis|]. intro Hc. apply Hk. apply in_or_app. now left. }
        destruct (IH (acc ++ [k]) Hnd' Hdis') as (H1 & H2 & H3). repeat split; auto.
        * intros Hx. apply H3 in Hx. destruct Hx as [Hx|[Hx Hn]].
          -- apply in_app_or in Hx. destruct Hx as [Hx|[<-|[]]]; [now left|]. right. split; [now left|]. intro Hc. apply Hk. apply in_or_app. now left.
          -- right. split; [now right | exact Hn].
        * intros [Hx|[[<-|Hx] Hn]]; apply H3.
          -- left. apply in_or_app. now left.
          -- left. apply in_or_app. right. now left.
          -- right. tauto.
  Qed.
  Lemma fresh_spec seen ks :
      NoDup (freshf seen ks) /\ (forall x, In x (freshf seen ks) -> ~ In x seen) /\
      (forall x, In x (freshf seen ks) <-> In x ks /\ ~ In x seen).
  Proof.
    destruct (fresh_gen seen ks [] (NoDup_nil _) ltac:(intros x [])) as (H1 & H2 & H3).
    split; [exact H1|]. split; [exact H2|]. intros x. split; intros Hx.
    - apply H3 in Hx. destruct Hx as [[]|Hx]. exact Hx.
    - apply H3. now right.
  Qed.

  (* the main invariant: V = already emitted, queue = pending, seen = V ++ queue (as a set, no duplicates) *)
  Lemma bfs_aux_spec (root : nat) : closed -> forall fuel queue seen V,
      NoDup (V ++ queue) -> (forall x, In x seen <-> In x (V ++ queue)) ->
      (forall v c, In v V -> In c (okids (hget h v)) -> In c seen) ->
      (forall x, In x seen -> x < length h /\ reach root x) ->
      length h < length V + fuel ->
      let out := bfs_aux fuel h queue seen in
      NoDup (V ++ out) /\
      (forall x, In x seen -> In x (V ++ out)) /\
      (forall v c, In v (V ++ out) -> In c (okids (hget h v)) -> In c (V ++ out)) /\
      (forall x, In x (V ++ out) -> reach root x).
  Proof.
    intros Hcl. induction fuel as [|fuel IH]; intros queue seen V Hnd Hseen Hkids Hok Hfuel.
    - (* impossible: more emitted nodes than objects *)
      exfalso. assert (Hle : length V <= length h).
      { rewrite <- (seq_length (length h) 0). apply (NoDup_incl_length (l := V) (l' := seq 0 (length h))); [now apply NoDup_app_iff in Hnd|].
        intros x Hx. apply in_seq. assert (In x seen) by (apply Hseen, in_or_app; now left). destruct (Hok x H). lia. }
      lia.
    - cbn [bfs_aux]. destruct queue as [|x q].
      + cbn. rewrite app_nil_r in *. repeat split; auto.
        * intros y Hy. now apply Hseen.
        * intros v c Hv Hc. apply Hseen. now apply (Hkids v c).
        * intros y Hy. apply Hok. now apply Hseen.
      + fold (freshf seen (okids (hget h x))). set (fr := freshf seen (okids (hget h x))).
        destruct (fresh_spec seen (okids (hget h x))) as (F1 & F2 & F3). fold fr in F1, F2, F3.
        assert (Hx : In x seen) by (apply Hseen, in_or_app; right; now left).
        assert (Hxl : x < length h) by (now apply Hok).
        specialize (IH (q ++ fr) (seen ++ fr) (V ++ [x])).
        assert (Heq : (V ++ [x]) ++ q ++ fr = (V ++ x :: q) ++ fr).
        { rewrite <- !app_assoc. reflexivity. }
        assert (Hnd' : NoDup ((V ++ [x]) ++ q ++ fr)).
        { rewrite Heq. apply NoDup_app_iff. split; [exact Hnd|]. split; [exact F1|].
          intros y Hy Hf. apply (F2 y Hf). now apply Hseen. }
        assert (Hseen' : forall y, In y (seen ++ fr) <-> In y ((V ++ [x]) ++ q ++ fr)).
        { intros y. rewrite Heq, !in_app_iff, Hseen, in_app_iff. tauto. }
        assert (Hkids' : forall v c, In v (V ++ [x]) -> In c (okids (hget h v)) -> In c (seen ++ fr)).
        { intros v c Hv Hc. apply in_app_or in Hv. destruct Hv as [Hv|[<-|[]]].
          - apply in_or_app. left. now apply (Hkids v c).
          - destruct (in_dec Nat.eq_dec c seen) as [Hs|Hs]; apply in_or_app; [now left | right; apply F3; auto]. }
        assert (Hok' : forall y, In y (seen ++ fr) -> y < length h /\ reach root y).
        { intros y Hy. apply in_app_or in Hy. destruct Hy as [Hy|Hy]; [now apply Hok|].
          apply F3 in Hy. destruct Hy as [Hy _]. split.
          - specialize (Hcl x Hxl). rewrite Forall_forall in Hcl. now apply Hcl.
          - apply (reach_step root x y); [now apply Hok | exact Hy]. }
        assert (Hfuel' : length h < length (V ++ [x]) + fuel) by (rewrite app_length; cbn; lia).
        destruct (IH Hnd' Hseen' Hkids' Hok' Hfuel') as (R1 & R2 & R3 & R4).
        rewrite <- !app_assoc in R1, R2, R3, R4. cbn [app] in R1, R2, R3, R4.
        repeat split; auto. intros y Hy. apply R2. apply in_or_app. now left.
  Qed.

  (* C03_bfs_complete *)
  Theorem bfs_complete root : closed -> root < length h ->
      NoDup (bfs h root) /\ forall x, In x (bfs h root) <-> reach root x.
  Proof.
    intros Hcl Hr. unfold bfs.
    destruct (bfs_aux_spec root Hcl (S (length h)) [root] [root] []) as (R1 & R2 & R3 & R4); cbn.
    - repeat constructor; auto.
    - tauto.
    - intros v c [].
    - intros x [<-|[]]. split; [exact Hr | constructor].
    - lia.
    - cbn in *. split; [exact R1|]. intros x. split; [apply R4|].
      induction 1 as [|y c Hy IH Hc]; [apply R2; now left | now apply (R3 y c)].
  Qed.
End BfsFacts.
