(* Proofs/MpePositive.v — C06, positivity clause: if the evidence has positive probability then so has
   the completed row returned by the circuit descent.  Stated over an ordered commutative semiring
   given by two predicates (pos, nonneg) and the facts used; instantiated at Qc below. *)
From Coq Require Import List Arith ZArith Ring Lia Bool.
From DV Require Import Model.Core Model.Clt Model.Leaves Model.Mpe Proofs.CoreFacts Proofs.MpeFacts.
Import ListNotations.

Section MpePositive.
  Variable T : Type.
  Variables (t0 t1 : T) (tadd tmul : T -> T -> T).
  Hypothesis SRth : semi_ring_theory t0 t1 tadd tmul (@eq T).
  Add Ring Tring11 : SRth.
  Infix "+" := tadd. Infix "*" := tmul.
  Variables (pos nonneg : T -> Prop).
  Hypothesis pos_nonneg : forall a, pos a -> nonneg a.
  Hypothesis nonneg_0 : nonneg t0.
  Hypothesis nonneg_1 : nonneg t1.
  Hypothesis pos_1 : pos t1.
  Hypothesis nonneg_add : forall a b, nonneg a -> nonneg b -> nonneg (a + b).
  Hypothesis nonneg_mul : forall a b, nonneg a -> nonneg b -> nonneg (a * b).
  Hypothesis pos_add_inv : forall a b, nonneg a -> nonneg b -> pos (a + b) -> pos a \/ pos b.
  Hypothesis pos_add_l : forall a b, pos a -> nonneg b -> pos (a + b).
  Hypothesis pos_add_r : forall a b, nonneg a -> pos b -> pos (a + b).
  Hypothesis pos_mul_inv : forall a b, nonneg a -> nonneg b -> pos (a * b) -> pos a /\ pos b.
  Hypothesis pos_mul : forall a b, pos a -> pos b -> pos (a * b).
  Hypothesis not_pos_0 : ~ pos t0.
  Variable sel : T -> T -> bool.
  (* the comparison used by argmax never prefers a non-positive value to a positive one *)
  Hypothesis sel_pos_l : forall a b, sel a b = true -> pos b -> pos a.
  Hypothesis sel_pos_r : forall a b, sel a b = false -> pos a -> pos b.

  Variable dom : nat -> list Z.
  Variable leaf : Type.
  Variable leaf_val : leaf -> row -> T.
  Variable leaf_fill : leaf -> row -> list (nat * Z).
  Notation table := (table T leaf).
  Notation dnode := (dummy_node T leaf).
  Notation sumT := (sumT T t0 tadd).
  Notation prodT := (prodT T t1 tmul).
  Notation dotT := (dotT T t0 tadd tmul).
  Notation vals := (vals T t0 t1 tadd tmul leaf leaf_val).
  Notation val := (val T t0 t1 tadd tmul leaf leaf_val).
  Notation picks := (picks T t0 t1 tadd tmul sel leaf leaf_val).
  Notation scope_of := (scope_of T leaf).
  Notation valid := (valid T t0 tadd dom leaf leaf_val).
  Notation leaf_of := (leaf_of T leaf).
  Notation mpe_row := (mpe_row T t0 t1 tadd tmul sel leaf leaf_val leaf_fill).

  (* ---- arithmetic on lists ---- *)
  Lemma nonneg_prod l : Forall nonneg l -> nonneg (prodT l).
  Proof. induction 1; cbn; auto. Qed.
  Lemma pos_prod l : Forall pos l -> pos (prodT l).
  Proof. induction 1; cbn; auto. Qed.
  Lemma pos_prod_inv l : Forall nonneg l -> pos (prodT l) -> Forall pos l.
  Proof.
    induction 1 as [|x l Hx Hl IH]; cbn; intros H; [constructor|].
    destruct (pos_mul_inv x (prodT l) Hx (nonneg_prod l Hl) H). constructor; auto.
  Qed.
  Lemma nonneg_dot ws xs : Forall nonneg ws -> Forall nonneg xs -> nonneg (dotT ws xs).
  Proof.
    intros Hw. revert xs. induction Hw as [|w ws Hw0 Hw IH]; intros xs Hx; cbn; [auto|].
    destruct xs as [|x xs]; [auto|]. inversion Hx; subst. auto.
  Qed.
  Lemma wvals_nonneg ws xs : Forall nonneg ws -> Forall nonneg xs -> Forall nonneg (wvals T tmul ws xs).
  Proof.
    intros Hw. revert xs. induction Hw as [|w ws Hw0 Hw IH]; intros xs Hx; cbn; [constructor|].
    destruct xs as [|x xs]; [constructor|]. inversion Hx; subst. constructor; auto.
  Qed.
  Lemma dot_sum_wvals ws xs : dotT ws xs = sumT (wvals T tmul ws xs).
  Proof. revert xs. induction ws as [|w ws IH]; intros [|x xs]; cbn; try reflexivity. now rewrite IH. Qed.
  Lemma pos_sum_exists l : Forall nonneg l -> pos (sumT l) -> exists x, In x l /\ pos x.
  Proof.
    induction 1 as [|x l Hx Hl IH]; cbn; intros H; [now apply not_pos_0 in H|].
    assert (Hs : nonneg (sumT l)) by (clear -Hl nonneg_0 nonneg_add; induction Hl; cbn; auto).
    destruct (pos_add_inv x (sumT l) Hx Hs H) as [Hp|Hp]; [exists x; auto|].
    destruct (IH Hp) as [y [Hy Hpy]]. exists y. auto.
  Qed.
  Lemma pos_sum_in l x : Forall nonneg l -> In x l -> pos x -> pos (sumT l).
  Proof.
    induction 1 as [|y l Hy Hl IH]; cbn; intros Hin Hp; [contradiction|].
    assert (Hs : nonneg (sumT l)) by (clear -Hl nonneg_0 nonneg_add; induction Hl; cbn; auto).
    destruct Hin as [->|Hin]; [now apply pos_add_l | apply pos_add_r; auto].
  Qed.
  (* the first maximum is positive as soon as some element is *)
  Lemma argmax_from_pos l : forall best bi i, (pos best \/ exists x, In x l /\ pos x) ->
      pos (nth (argmax_from T sel best bi i l - i) (best :: l) t0) \/
      True.
  Proof. intros. now right. Qed.
  Lemma argmax_from_spec l : forall best bi i d, bi < i ->
      let r := argmax_from T sel best bi i l in
      (r = bi /\ (forall x, In x l -> pos x -> pos best)) \/
      (i <= r < i + length l /\ (pos best -> pos (nth (r - i) l d)) /\ (forall x, In x l -> pos x -> pos (nth (r - i) l d))).
  Proof.
    induction l as [|x l IH]; intros best bi i d Hbi; cbn.
    - left. split; [reflexivity | intros ? []].
    - destruct (sel best x) eqn:E.
      + destruct (IH best bi (S i) d ltac:(lia)) as [[Hr Hp]|[Hr [Hp1 Hp2]]].
        * left. split; [exact Hr|]. intros y [Heq|Hy] Hy'; [subst y; now apply (sel_pos_l best x) | now apply (Hp y)].
        * right. split; [lia|]. replace (argmax_from T sel best bi (S i) l - i) with (S (argmax_from T sel best bi (S i) l - S i)) by lia.
          cbn [nth]. split; [exact Hp1|]. intros y [Heq|Hy] Hy'; [subst y; apply Hp1; now apply (sel_pos_l best x) | now apply (Hp2 y)].
      + destruct (IH x i (S i) d ltac:(lia)) as [[Hr Hp]|[Hr [Hp1 Hp2]]].
        * right. rewrite Hr. split; [lia|]. rewrite Nat.sub_diag. cbn [nth]. split; [now apply (sel_pos_r best x)|].
          intros y [Heq|Hy] Hy'; [subst y; exact Hy' | now apply (Hp y)].
        * right. split; [lia|]. replace (argmax_from T sel x i (S i) l - i) with (S (argmax_from T sel x i (S i) l - S i)) by lia.
          cbn [nth]. split; [intros Hb; apply Hp1; now apply (sel_pos_r best x)|].
          intros y [Heq|Hy] Hy'; [subst y; now apply Hp1 | now apply (Hp2 y)].
  Qed.
  Lemma argmax_pos l d : (exists x, In x l /\ pos x) -> pos (nth (argmax T sel l) l d).
  Proof.
    destruct l as [|x l]; intros [y [Hy Hp]]; [contradiction|]. cbn [argmax].
    destruct (argmax_from_spec l x 0 1 d ltac:(lia)) as [[Hr Hq]|[Hr [Hq1 Hq2]]].
    - rewrite Hr. cbn. destruct Hy as [Heq|Hy]; [subst y; exact Hp | now apply (Hq y)].
    - destruct (argmax_from T sel x 0 1 l) as [|r] eqn:Er; [lia|]. cbn [nth].
      replace (S r - 1) with r in * by lia. destruct Hy as [Heq|Hy]; [subst y; now apply Hq1 | now apply (Hq2 y)].
  Qed.

  (* ---- node-local side conditions ---- *)
  Definition node_side (n : node T leaf) : Prop :=
    match nkind n with
    | KLeaf l =>
        (forall r1 r2, (forall v, In v (nscope n) -> r1 v = r2 v) -> leaf_val l r1 = leaf_val l r2) /\
        (forall r, nonneg (leaf_val l r)) /\
        (forall r, pos (leaf_val l r) -> pos (leaf_val l (apply_assign (leaf_fill l r) r))) /\
        (forall r v, In v (map fst (leaf_fill l r)) -> In v (nscope n))
    | KSum ws => Forall nonneg ws /\ nkids n <> []
    | KProd => True
    end.

  Lemma vals_snoc' (t : table) n r : vals (t ++ [n]) r = vals t r ++ [node_val T t0 t1 tadd tmul leaf leaf_val n (vals t r) r].
  Proof. unfold Core.vals. rewrite fold_left_app. reflexivity. Qed.

  (* a node's value depends only on the cells of its scope *)
  Theorem val_ext t : valid t -> Forall node_side t -> forall i, i < length t -> forall r1 r2,
      (forall v, In v (scope_of t i) -> r1 v = r2 v) -> val t i r1 = val t i r2.
  Proof.
    induction 1 as [|t n Hv IH Hok]; intros Hs i Hi r1 r2 Hr; [cbn in Hi; lia|].
    apply Forall_app in Hs. destruct Hs as [Hst Hsn]. inversion Hsn as [|? ? Hn _]; subst. specialize (IH Hst).
    rewrite app_length in Hi; cbn in Hi.
    destruct (Nat.eq_dec i (length t)) as [->|Hne].
    - rewrite (scope_of_last T leaf) in Hr. rewrite !(val_last T t0 t1 tadd tmul leaf leaf_val).
      destruct Hok as [Hk Hok]. unfold Core.node_val. unfold node_side in Hn. rewrite Forall_forall in Hk.
      destruct (nkind n) as [l|ws|].
      + destruct Hn as [He _]. now apply He.
      + destruct Hok as [_ Hsc]. rewrite Forall_forall in Hsc. f_equal. apply map_ext_Forall. rewrite Forall_forall.
        intros k Hin. apply (IH k (Hk k Hin)). intros v Hv'. apply Hr. now apply (Hsc k Hin).
      + destruct Hok as [Hun _]. f_equal. apply map_ext_Forall. rewrite Forall_forall.
        intros k Hin. apply (IH k (Hk k Hin)). intros v Hv'. apply Hr. apply Hun. eauto.
    - assert (Hi' : i < length t) by lia. rewrite (scope_of_prefix T leaf) in Hr by exact Hi'.
      rewrite !(val_prefix T t0 t1 tadd tmul leaf leaf_val) by exact Hi'. now apply IH.
  Qed.

  Theorem val_nonneg t : valid t -> Forall node_side t -> forall i, i < length t -> forall r, nonneg (val t i r).
  Proof.
    induction 1 as [|t n Hv IH Hok]; intros Hs i Hi r; [cbn in Hi; lia|].
    apply Forall_app in Hs. destruct Hs as [Hst Hsn]. inversion Hsn as [|? ? Hn _]; subst. specialize (IH Hst).
    rewrite app_length in Hi; cbn in Hi.
    destruct (Nat.eq_dec i (length t)) as [->|Hne].
    - rewrite (val_last T t0 t1 tadd tmul leaf leaf_val). destruct Hok as [Hk _]. rewrite Forall_forall in Hk.
      unfold Core.node_val. unfold node_side in Hn. destruct (nkind n) as [l|ws|].
      + destruct Hn as (_ & H2 & _). apply H2.
      + destruct Hn as [Hw _]. apply nonneg_dot; [exact Hw|]. rewrite Forall_map, Forall_forall. intros k Hin. now apply (IH k (Hk k Hin)).
      + apply nonneg_prod. rewrite Forall_map, Forall_forall. intros k Hin. now apply (IH k (Hk k Hin)).
    - rewrite (val_prefix T t0 t1 tadd tmul leaf leaf_val) by lia. apply IH. lia.
  Qed.

  (* ---- completion from a node ---- *)
  Definition fillL (t : table) (r : row) (ls : list nat) (acc : row) : row :=
    fold_left (fun acc i => match leaf_of t i with Some l => apply_assign (leaf_fill l r) acc | None => acc end) ls acc.
  Definition comp (t : table) (r : row) (i : nat) : row := fillL t r (nth i (picks t r) []) r.

  Lemma fillL_app t r l1 l2 acc : fillL t r (l1 ++ l2) acc = fillL t r l2 (fillL t r l1 acc).
  Proof. unfold fillL. apply fold_left_app. Qed.
  Lemma fillL_cons t r i ls acc : fillL t r (i :: ls) acc =
      fillL t r ls (match leaf_of t i with Some l => apply_assign (leaf_fill l r) acc | None => acc end).
  Proof. reflexivity. Qed.
  Lemma fillL_agree t r ls : forall a1 a2 v, a1 v = a2 v -> fillL t r ls a1 v = fillL t r ls a2 v.
  Proof.
    induction ls as [|i ls IH]; intros a1 a2 v H; [exact H|]. rewrite !fillL_cons. apply IH.
    destruct (leaf_of t i); [now apply apply_assign_agree | exact H].
  Qed.
  Lemma fillL_notin t r ls : forall acc v,
      (forall i l, In i ls -> leaf_of t i = Some l -> ~ In v (map fst (leaf_fill l r))) -> fillL t r ls acc v = acc v.
  Proof.
    induction ls as [|i ls IH]; intros acc v H; [reflexivity|]. rewrite fillL_cons. rewrite IH by (intros j l Hj; apply H; now right).
    destruct (leaf_of t i) as [l|] eqn:E; [|reflexivity]. apply apply_assign_notin. apply (H i l); [now left | exact E].
  Qed.
  Lemma mpe_row_comp t r : mpe_row t r = comp t r (length t - 1).
  Proof. reflexivity. Qed.

  Lemma leaf_of_prefix (t t' : table) i : i < length t -> leaf_of (t ++ t') i = leaf_of t i.
  Proof. intros H. unfold Mpe.leaf_of. now rewrite app_nth1. Qed.

  (* picked leaves lie inside the table and inside the node's scope *)
  Theorem picks_scope t r : valid t -> Forall node_side t -> forall i, i < length t ->
      forall l, In l (nth i (picks t r) []) -> l < length t /\ forall v, In v (scope_of t l) -> In v (scope_of t i).
  Proof.
    induction 1 as [|t n Hv IH Hok]; intros Hs i Hi l Hl; [cbn in Hi; lia|].
    apply Forall_app in Hs. destruct Hs as [Hst Hsn]. inversion Hsn as [|? ? Hn _]; subst. specialize (IH Hst).
    rewrite app_length in Hi |- *. cbn in Hi |- *.
    rewrite (picks_snoc T t0 t1 tadd tmul sel leaf leaf_val) in Hl.
    assert (Hlift : forall j l0, j < length t -> (l0 < length t /\ forall v, In v (scope_of t l0) -> In v (scope_of t j)) ->
              l0 < length t + 1 /\ forall v, In v (scope_of (t ++ [n]) l0) -> In v (scope_of t j)).
    { intros j l0 Hj [H1 H2]. split; [lia|]. intros v Hv'. rewrite (scope_of_prefix T leaf) in Hv' by exact H1. now apply H2. }
    destruct (Nat.eq_dec i (length t)) as [->|Hne].
    - rewrite app_nth2 in Hl; rewrite (picks_length T t0 t1 tadd tmul sel leaf leaf_val) in *; [|lia]. rewrite Nat.sub_diag in Hl. cbn [nth] in Hl.
      rewrite (scope_of_last T leaf). destruct Hok as [Hk Hok]. rewrite Forall_forall in Hk.
      unfold Mpe.node_picks in Hl. unfold node_side in Hn. destruct (nkind n) as [lf|ws|] eqn:E.
      + destruct Hl as [<-|[]]. split; [lia|]. intros v Hv'. now rewrite (scope_of_last T leaf) in Hv'.
      + destruct Hok as [Hlen Hsc]. destruct Hn as [_ Hne']. rewrite Forall_forall in Hsc.
        set (b := branch T t0 tmul sel leaf n ws (vals t r)) in *.
        assert (Hb : b < length (nkids n)).
        { unfold b, branch.
          pose proof (argmax_lt T sel (wvals T tmul ws (map (fun k => nth k (vals t r) t0) (nkids n)))) as Ha.
          rewrite (wvals_length T tmul) in Ha by (now rewrite map_length). rewrite map_length in Ha. apply Ha.
          intro Hnil. apply (f_equal (@length T)) in Hnil. rewrite (wvals_length T tmul) in Hnil by (now rewrite map_length).
          rewrite map_length in Hnil. destruct (nkids n); [congruence | cbn in Hnil; lia]. }
        pose proof (nth_In (nkids n) 0 Hb) as Hkin.
        destruct (Hlift _ l (Hk _ Hkin) (IH _ (Hk _ Hkin) l Hl)) as [H1 H2]. split; [exact H1|].
        intros v Hv'. apply (Hsc _ Hkin). now apply H2.
      + destruct Hok as [Hun _]. apply in_concat in Hl. destruct Hl as [s [Hs' Hl]]. apply in_map_iff in Hs'. destruct Hs' as [k [<- Hkin]].
        destruct (Hlift _ l (Hk _ Hkin) (IH _ (Hk _ Hkin) l Hl)) as [H1 H2]. split; [exact H1|].
        intros v Hv'. apply Hun. exists k. split; [exact Hkin | now apply H2].
    - assert (Hi' : i < length t) by lia. rewrite app_nth1 in Hl by (rewrite (picks_length T t0 t1 tadd tmul sel leaf leaf_val); exact Hi').
      destruct (Hlift i l Hi' (IH i Hi' l Hl)) as [H1 H2]. split; [lia|].
      intros v Hv'. specialize (H2 v Hv'). clear Hv'. rewrite (scope_of_prefix T leaf) by exact Hi'. exact H2.
  Qed.

  Lemma fillL_ext (t t' : table) r ls : (forall i, In i ls -> leaf_of t i = leaf_of t' i) ->
      forall acc, fillL t r ls acc = fillL t' r ls acc.
  Proof.
    induction ls as [|i ls IH]; intros H acc; [reflexivity|]. rewrite !fillL_cons.
    rewrite (H i) by now left. apply IH. intros j Hj. apply H. now right.
  Qed.

  Lemma comp_prefix t n r : valid t -> Forall node_side t -> forall i, i < length t -> comp (t ++ [n]) r i = comp t r i.
  Proof.
    intros Hv Hs i Hi. unfold comp. rewrite (picks_snoc T t0 t1 tadd tmul sel leaf leaf_val).
    rewrite app_nth1 by (rewrite (picks_length T t0 t1 tadd tmul sel leaf leaf_val); exact Hi).
    apply fillL_ext. intros l Hl. apply leaf_of_prefix. now destruct (picks_scope t r Hv Hs i Hi l Hl).
  Qed.

  Lemma wvals_nth ws : forall xs b, b < length ws -> b < length xs ->
      nth b (wvals T tmul ws xs) t0 = nth b ws t0 * nth b xs t0.
  Proof.
    induction ws as [|w ws IH]; intros [|x xs] b H1 H2; cbn in *; try lia.
    destruct b; [reflexivity|]. apply IH; lia.
  Qed.

  (* leaves picked below a node only assign variables of that node's scope *)
  Lemma picks_touch t r : valid t -> Forall node_side t -> forall i, i < length t ->
      forall j l v, In j (nth i (picks t r) []) -> leaf_of t j = Some l -> In v (map fst (leaf_fill l r)) -> In v (scope_of t i).
  Proof.
    intros Hv Hs i Hi j l v Hj Hl Hin. destruct (picks_scope t r Hv Hs i Hi j Hj) as [Hjl Hsc]. apply Hsc.
    rewrite Forall_forall in Hs. specialize (Hs (nth j t dnode) (nth_In _ _ Hjl)).
    unfold Mpe.leaf_of in Hl. unfold node_side in Hs. unfold Core.scope_of.
    destruct (nkind (nth j t dnode)) as [l'| |]; try discriminate. inversion Hl; subst l'.
    destruct Hs as (_ & _ & _ & H4). now apply (H4 r v).
  Qed.

  Definition sdisj (t : table) (a b : nat) : Prop := forall v, In v (scope_of t a) -> ~ In v (scope_of t b).
  Lemma pos_to_ord t ks : (forall i j, i < j < length ks -> sdisj t (nth i ks 0) (nth j ks 0)) -> ForallOrdPairs (sdisj t) ks.
  Proof.
    induction ks as [|k ks IH]; intros H; constructor.
    - rewrite Forall_forall. intros k' Hk'. destruct (In_nth _ _ 0 Hk') as [q [Hq <-]].
      apply (H 0 (S q)). cbn. lia.
    - apply IH. intros i j Hij. apply (H (S i) (S j)). cbn. lia.
  Qed.

  Lemma prod_comp t r : valid t -> Forall node_side t -> forall ks, Forall (fun k => k < length t) ks ->
      ForallOrdPairs (sdisj t) ks -> forall acc k v, In k ks -> In v (scope_of t k) ->
      fillL t r (concat (map (fun k => nth k (picks t r) []) ks)) acc v = fillL t r (nth k (picks t r) []) acc v.
  Proof.
    intros Hv Hs. induction ks as [|k0 ks IH]; intros Hlt Hd acc k v Hin Hvk; [destruct Hin|].
    inversion Hlt as [|? ? Hk0 Hlt']; subst. inversion Hd as [|? ? Hhd Hd']; subst. rewrite Forall_forall in Hhd.
    cbn [map concat]. rewrite fillL_app.
    destruct Hin as [->|Hin].
    - apply fillL_notin. intros j l Hj Hl Hf. apply in_concat in Hj. destruct Hj as [sg [Hsg Hj]].
      apply in_map_iff in Hsg. destruct Hsg as [k' [<- Hk']]. rewrite Forall_forall in Hlt'.
      pose proof (picks_touch t r Hv Hs k' (Hlt' k' Hk') j l v Hj Hl Hf) as Hv'.
      exact (Hhd k' Hk' v Hvk Hv').
    - rewrite (IH Hlt' Hd' _ k v Hin Hvk). apply fillL_agree. apply fillL_notin. intros j l Hj Hl Hf.
      pose proof (picks_touch t r Hv Hs k0 Hk0 j l v Hj Hl Hf) as Hv'. exact (Hhd k Hin v Hv' Hvk).
  Qed.

  (* C06, positivity: the completion computed from any node keeps that node's value positive *)
  Theorem comp_pos t r : valid t -> Forall node_side t -> forall i, i < length t ->
      pos (val t i r) -> pos (val t i (comp t r i)).
  Proof.
    induction 1 as [|t n Hv IH Hok]; intros Hs i Hi Hp; [cbn in Hi; lia|].
    pose proof Hs as Hs'. apply Forall_app in Hs. destruct Hs as [Hst Hsn]. inversion Hsn as [|? ? Hn _]; subst. specialize (IH Hst).
    rewrite app_length in Hi; cbn in Hi.
    destruct (Nat.eq_dec i (length t)) as [->|Hne].
    2:{ assert (Hi' : i < length t) by lia. rewrite comp_prefix by assumption.
        rewrite (val_prefix T t0 t1 tadd tmul leaf leaf_val) in * by exact Hi'. now apply IH. }
    rewrite (val_last T t0 t1 tadd tmul leaf leaf_val) in *.
    unfold comp. rewrite (picks_snoc T t0 t1 tadd tmul sel leaf leaf_val).
    rewrite app_nth2; rewrite (picks_length T t0 t1 tadd tmul sel leaf leaf_val); [|lia]. rewrite Nat.sub_diag. cbn [nth].
    destruct Hok as [Hk Hok]. pose proof Hk as Hk'. rewrite Forall_forall in Hk.
    unfold Core.node_val in *. unfold Mpe.node_picks. unfold node_side in Hn.
    destruct (nkind n) as [lf|ws|] eqn:E.
    - (* leaf *)
      rewrite fillL_cons. unfold Mpe.leaf_of. rewrite app_nth2, Nat.sub_diag by lia. cbn [nth]. rewrite E.
      cbn [fillL fold_left]. destruct Hn as (_ & _ & H3 & _). now apply H3.
    - (* sum: the selected branch carries a positive term *)
      destruct Hok as [Hlen Hsc]. destruct Hn as [Hw Hne']. rewrite Forall_forall in Hsc.
      set (xs := map (fun k => nth k (vals t r) t0) (nkids n)) in *.
      set (b := branch T t0 tmul sel leaf n ws (vals t r)).
      assert (Hxs : Forall nonneg xs).
      { unfold xs. rewrite Forall_map, Forall_forall. intros k Hin. apply (val_nonneg t Hv Hst k (Hk k Hin) r). }
      assert (Hlx : length xs = length (nkids n)) by (unfold xs; now rewrite map_length).
      assert (Hwl : length (wvals T tmul ws xs) = length (nkids n)) by (rewrite (wvals_length T tmul); lia).
      rewrite dot_sum_wvals in Hp.
      pose proof (pos_sum_exists _ (wvals_nonneg ws xs Hw Hxs) Hp) as Hex.
      pose proof (argmax_pos (wvals T tmul ws xs) t0 Hex) as Hb. fold xs in b. change (argmax T sel (wvals T tmul ws xs)) with b in Hb.
      assert (Hbl : b < length (nkids n)).
      { unfold b, branch. fold xs. rewrite <- Hwl. apply (argmax_lt T sel). intro Hnil. rewrite Hnil in Hwl. cbn in Hwl.
        destruct (nkids n); [congruence | cbn in Hwl; lia]. }
      rewrite wvals_nth in Hb by lia.
      assert (Hwb : nonneg (nth b ws t0)) by (rewrite Forall_forall in Hw; apply Hw, nth_In; lia).
      assert (Hxb : nonneg (nth b xs t0)) by (rewrite Forall_forall in Hxs; apply Hxs, nth_In; lia).
      destruct (pos_mul_inv _ _ Hwb Hxb Hb) as [Hpw Hpx].
      set (kb := nth b (nkids n) 0) in *.
      assert (Hkin : In kb (nkids n)) by (apply nth_In; exact Hbl).
      assert (Hkb : kb < length t) by (apply Hk; exact Hkin).
      assert (Hxk : nth b xs t0 = val t kb r).
      { unfold kb. rewrite (nth_indep xs t0 ((fun k => nth k (vals t r) t0) 0)) by lia. exact (map_nth (fun k => nth k (vals t r) t0) (nkids n) 0 b). }
      rewrite Hxk in Hpx. specialize (IH kb Hkb Hpx).
      assert (Hcomp : fillL (t ++ [n]) r (nth kb (picks t r) []) r = comp t r kb).
      { unfold comp. apply fillL_ext. intros l Hl. apply leaf_of_prefix. now destruct (picks_scope t r Hv Hst kb Hkb l Hl). }
      rewrite Hcomp. set (r' := comp t r kb) in *.
      set (xs' := map (fun k => nth k (vals t r') t0) (nkids n)).
      assert (Hxs' : Forall nonneg xs').
      { unfold xs'. rewrite Forall_map, Forall_forall. intros k Hin. apply (val_nonneg t Hv Hst k (Hk k Hin) r'). }
      assert (Hlx' : length xs' = length (nkids n)) by (unfold xs'; now rewrite map_length).
      rewrite dot_sum_wvals. apply (pos_sum_in _ (nth b (wvals T tmul ws xs') t0)).
      + now apply wvals_nonneg.
      + apply nth_In. rewrite (wvals_length T tmul); lia.
      + rewrite wvals_nth by lia. apply pos_mul; [exact Hpw|].
        rewrite (nth_indep xs' t0 ((fun k => nth k (vals t r') t0) 0)) by lia. unfold xs'. rewrite (map_nth (fun k => nth k (vals t r') t0) (nkids n) 0 b). exact IH.
    - (* product: every factor is positive, and the factors' completions do not interfere *)
      destruct Hok as [Hun Hdj].
      assert (Hall : Forall nonneg (map (fun k => nth k (vals t r) t0) (nkids n))).
      { rewrite Forall_map, Forall_forall. intros k Hin. apply (val_nonneg t Hv Hst k (Hk k Hin) r). }
      pose proof (pos_prod_inv _ Hall Hp) as Hpk. rewrite Forall_map, Forall_forall in Hpk.
      apply pos_prod. rewrite Forall_map, Forall_forall. intros k Hin.
      assert (Hkl : k < length t) by (apply Hk; exact Hin).
      set (ls := concat (map (fun k0 => nth k0 (picks t r) []) (nkids n))).
      assert (Hext : fillL (t ++ [n]) r ls r = fillL t r ls r).
      { apply fillL_ext. intros l Hl. apply leaf_of_prefix. unfold ls in Hl. apply in_concat in Hl. destruct Hl as [sg [Hsg Hl]].
        apply in_map_iff in Hsg. destruct Hsg as [k' [<- Hk'in]]. now destruct (picks_scope t r Hv Hst k' (Hk k' Hk'in) l Hl). }
      rewrite Hext.
      change (pos (val t k (fillL t r ls r))).
      rewrite (val_ext t Hv Hst k Hkl (fillL t r ls r) (comp t r k)).
      + apply IH; [exact Hkl | now apply Hpk].
      + intros v Hvk. unfold comp, ls. apply (prod_comp t r Hv Hst (nkids n) Hk' (pos_to_ord t (nkids n) Hdj) r k v Hin Hvk).
  Qed.

  Corollary mpe_row_pos t r : valid t -> Forall node_side t -> t <> [] ->
      pos (val t (length t - 1) r) -> pos (val t (length t - 1) (mpe_row t r)).
  Proof.
    intros Hv Hs Hne. rewrite mpe_row_comp. apply comp_pos; try assumption. destruct t; [congruence | cbn; lia].
  Qed.
End MpePositive.
