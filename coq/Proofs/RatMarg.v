(* Proofs/RatMarg.v — C16 (partial): the two per-node steps of the tensorised evaluation preserve
   locality and single-variable marginalisation, for every commutative semiring:
   one entry of ProductLayer's outer product over disjoint scopes, one output node of
   SumLayer / RootLayer (a weighted sum of nodes with a common scope), and a univariate leaf factor. *)
From Coq Require Import List Arith ZArith Ring Lia Bool.
From DV Require Import Model.Core Model.Leaves Model.Rat Proofs.CoreFacts.
Import ListNotations.

Section RatMarg.
  Variable T : Type.
  Variables (t0 t1 : T) (tadd tmul : T -> T -> T).
  Hypothesis SRth : semi_ring_theory t0 t1 tadd tmul (@eq T).
  Add Ring Tring2 : SRth.
  Infix "+" := tadd. Infix "*" := tmul.
  Variable dom : nat -> list Z.
  Notation sumT := (sumT T t0 tadd).
  Notation dotT := (dotT T t0 tadd tmul).

  (* a value function with scope sc: insensitive to cells outside sc, and a missing cell of sc is
     summed out *)
  Definition good (sc : list nat) (f : row -> T) : Prop :=
    (forall r v c, ~ In v sc -> f (upd r v c) = f r) /\
    (forall r v, In v sc -> r v = None -> f r = sumT (map (fun x => f (upd r v (Some x))) (dom v))).

  Lemma good_mul sa sb f g : good sa f -> good sb g -> (forall v, In v sa -> ~ In v sb) ->
    good (sa ++ sb) (fun r => f r * g r).
  Proof.
    intros [Lf Mf] [Lg Mg] Hdis. split.
    - intros r v c Hn. rewrite Lf, Lg; [reflexivity| |]; intro; apply Hn; apply in_or_app; auto.
    - intros r v Hin Hnone. apply in_app_or in Hin. destruct Hin as [Hin|Hin].
      + rewrite (Mf r v Hin Hnone), <- (sumT_scal_r T t0 t1 tadd tmul SRth).
        f_equal. apply map_ext. intros x. now rewrite (Lg r v (Some x) (Hdis v Hin)).
      + assert (Hna : ~ In v sa) by (intro Ha; exact (Hdis v Ha Hin)).
        rewrite (Mg r v Hin Hnone), <- (sumT_scal T t0 t1 tadd tmul SRth).
        f_equal. apply map_ext. intros x. now rewrite (Lf r v (Some x) Hna).
  Qed.

  Lemma good_dot sc (w : list T) : forall fs, Forall (good sc) fs ->
    good sc (fun r => dotT w (map (fun f => f r) fs)).
  Proof.
    induction w as [|a w IH]; intros fs Hall.
    - split; [reflexivity|]. intros r v _ _. cbn. now rewrite (sumT_zero T t0 t1 tadd tmul SRth).
    - destruct Hall as [|f fs [Lf Mf] Hall].
      + split; [reflexivity|]. intros r v _ _. cbn. now rewrite (sumT_zero T t0 t1 tadd tmul SRth).
      + destruct (IH fs Hall) as [Lr Mr]. split.
        * intros r v c Hn. cbn [map Core.dotT]. now rewrite Lf, (Lr r v c Hn).
        * intros r v Hin Hnone. cbn [map Core.dotT].
          rewrite (Mf r v Hin Hnone), (Mr r v Hin Hnone).
          rewrite <- (sumT_scal T t0 t1 tadd tmul SRth), <- (sumT_add T t0 t1 tadd tmul SRth). reflexivity.
  Qed.

  (* a univariate leaf factor cell tab (r v) whose table is normalised over the domain of v *)
  Lemma good_cell v (tab : list (Z * T)) :
    sumT (map (lookup T t0 tab) (dom v)) = t1 ->
    good [v] (fun r => cell T t0 t1 tab (r v)).
  Proof.
    intros Hn. split.
    - intros r u c Hu. unfold upd. destruct (Nat.eqb_spec v u); [|reflexivity]. subst. elim Hu. now left.
    - intros r u [<-|[]] Hnone. rewrite Hnone. cbn [cell]. rewrite <- Hn. f_equal. apply map_ext.
      intros x. unfold upd. now rewrite Nat.eqb_refl.
  Qed.

  Lemma good_one : good [] (fun _ => t1).
  Proof. split; [reflexivity|]. intros r v []. Qed.

  Lemma good_seteq sc sc' f : (forall v, In v sc <-> In v sc') -> good sc f -> good sc' f.
  Proof.
    intros He [L M]. split.
    - intros r v c Hn. apply L. intro. apply Hn. now apply He.
    - intros r v Hin. apply M. now apply He.
  Qed.

  (* all-missing input, normalised weights: a sum node over all-one inputs is one *)
  Lemma dot_all_one (w : list T) (xs : list T) : length w = length xs -> Forall (fun x => x = t1) xs ->
    sumT w = t1 -> dotT w xs = t1.
  Proof. intros Hl Hall Hs. rewrite (dot_ones T t0 t1 tadd tmul SRth w xs Hl Hall). exact Hs. Qed.
End RatMarg.
