(* Proofs/CltGather.v — the array representation of a Chow-Liu tree (Model/Clt.v) refines the
   tree recursion: on every row that is complete on the scope, the vectorised full-evidence gather
   of BinaryCLT.log_likelihood (clt_gather: prod_i params[i, x[tree[i]], x[i]], the root reading
   the LAST column through tree[root] = -1) equals leaves-to-root message passing (clt_val = `up`
   on the tree rebuilt from the predecessor vector); hence clt_lik = clt_val on EVERY row.
   For every commutative semiring; no condition on the cell values (a value outside {0,1} makes
   both sides zero). *)
From Coq Require Import List Arith ZArith Ring Lia Bool Permutation.
From DV Require Import Model.Core Model.Clt Proofs.CoreFacts Proofs.CltFacts Proofs.CheckFacts.
Import ListNotations.

Section CltGather.
  Variable T : Type.
  Variables (t0 t1 : T) (tadd tmul : T -> T -> T).
  Hypothesis SRth : semi_ring_theory t0 t1 tadd tmul (@eq T).
  Add Ring TringG : SRth.
  Infix "*" := tmul.
  Notation prodT := (prodT T t1 tmul).
  Notation clt := (clt T).
  Notation up := (up T t0 t1 tadd tmul).
  Notation vars := (vars T).
  Notation build := (build T t0).
  Notation children := (children T).
  Notation cpt_fn := (cpt_fn T t0).
  Notation cell := (cell T).
  Notation croot := (croot T).
  Notation clt_tree := (clt_tree T t0).
  Notation clt_val := (clt_val T t0 t1 tadd tmul).
  Notation clt_gather := (clt_gather T t0 t1 tmul).
  Notation clt_lik := (clt_lik T t0 t1 tadd tmul).

  (* the positions visited by `build`, in the order of `vars` *)
  Fixpoint idxs (fuel : nat) (c : clt) (i : nat) : list nat :=
    match fuel with
    | O => [i]
    | S f => i :: flat_map (idxs f c) (children c i)
    end.

  (* well-formed array representation:
     scope and predecessor vector have the same positive length; the tree rebuilt from the
     predecessor vector at croot visits as many positions as there are and no variable twice
     (with the duplicate-free scope: every position exactly once); the root has no predecessor;
     the two CPT rows of the root coincide (params[root, 0, :] = params[root, 1, :]) *)
  Definition clt_gwf (c : clt) : Prop :=
    length (cscope c) = length (cpar c) /\ 0 < length (cpar c) /\
    NoDup (vars (clt_tree c)) /\ length (vars (clt_tree c)) = length (cpar c) /\
    nth (croot c) (cpar c) None = None /\
    (forall y, cpt_fn c (croot c) 1%Z y = cpt_fn c (croot c) 0%Z y).

  Lemma idxs_head f c i : idxs f c i = i :: tl (idxs f c i).
  Proof. destruct f; reflexivity. Qed.

  Lemma vars_build f c : forall i, vars (build f c i) = map (fun j => nth j (cscope c) 0) (idxs f c i).
  Proof.
    induction f as [|f IH]; intros i; cbn; [reflexivity|]. f_equal.
    induction (children c i) as [|k ks IHk]; cbn; [reflexivity|]. now rewrite map_app, IH, IHk.
  Qed.

  Lemma children_par c i k : In k (children c i) -> nth k (cpar c) None = Some i /\ k < length (cpar c).
  Proof.
    unfold Clt.children. rewrite filter_In, in_seq. intros [Hk He]. split; [|lia].
    unfold opt_eqb in He. destruct (nth k (cpar c) None) as [j|]; [|discriminate].
    apply Nat.eqb_eq in He. now subst.
  Qed.

  Lemma idxs_lt f c : forall i, i < length (cpar c) -> forall j, In j (idxs f c i) -> j < length (cpar c).
  Proof.
    induction f as [|f IH]; intros i Hi j; cbn.
    - intros [<-|[]]. exact Hi.
    - intros [<-|Hj]; [exact Hi|]. apply in_flat_map in Hj. destruct Hj as [k [Hk Hj]].
      apply (IH k); [apply (children_par c i k Hk) | exact Hj].
  Qed.

  Lemma find_root_bound l : forall i, find_root l i = 0 \/ (i <= find_root l i < i + length l).
  Proof.
    induction l as [|a l IH]; intros i; cbn; [now left|]. destruct a as [p|].
    - destruct (IH (S i)) as [H|H]; [now left | right; lia].
    - right. lia.
  Qed.
  Lemma croot_lt c : 0 < length (cpar c) -> croot c < length (cpar c).
  Proof. intros H. unfold Clt.croot. destruct (find_root_bound (cpar c) 0) as [E|E]; lia. Qed.

  (* ---------- products ---------- *)
  Lemma prodT_flat_map {A} (g : nat -> T) (h : A -> list nat) ks :
    prodT (map g (flat_map h ks)) = prodT (map (fun k => prodT (map g (h k))) ks).
  Proof.
    induction ks as [|k ks IH]; cbn; [reflexivity|].
    now rewrite map_app, (prodT_app T t0 t1 tadd tmul SRth), IH.
  Qed.
  Lemma prodT_perm l l' : Permutation l l' -> prodT l = prodT l'.
  Proof. induction 1; cbn; [reflexivity | now rewrite IHPermutation | ring | congruence]. Qed.
  Lemma prodT_zero l : In t0 l -> prodT l = t0.
  Proof. induction l as [|a l IH]; cbn; [tauto|]. intros [->|H]; [ring | rewrite (IH H); ring]. Qed.

  Lemma up_CT_some v cpt kids pv r x : r v = Some x ->
    up (CT v cpt kids) pv r = cpt pv x * prodT (map (fun k => up k x r) kids).
  Proof. intros H. cbn. now rewrite H. Qed.

  (* ---------- message passing on a complete row, position by position ---------- *)
  Section Row.
    Variable c : clt.
    Variable r : row.
    Let n := length (cpar c).
    Hypothesis Hc : forall j, j < n -> exists x, r (nth j (cscope c) 0) = Some x.

    (* the factor contributed by position j in the gather *)
    Definition gterm (j : nat) : T :=
      let pv := match nth j (cpar c) None with
                | Some p => cell c r p
                | None => cell c r (length (cpar c) - 1)
                end in
      cpt_fn c j pv (cell c r j).

    Lemma gather_gterm : clt_gather c r = prodT (map gterm (seq 0 (length (cpar c)))).
    Proof. reflexivity. Qed.

    Lemma up_build f : forall k pv, k < n ->
        up (build f c k) pv r = cpt_fn c k pv (cell c r k) * prodT (map gterm (tl (idxs f c k))).
    Proof.
      induction f as [|f IH]; intros k pv Hk; destruct (Hc k Hk) as [x Hx].
      - cbn [Clt.build]. rewrite (up_CT_some _ _ _ _ _ x Hx). unfold Clt.cell. rewrite Hx. reflexivity.
      - cbn [Clt.build]. rewrite (up_CT_some _ _ _ _ _ x Hx). cbn [idxs tl].
        assert (Ex : cell c r k = x) by (unfold Clt.cell; now rewrite Hx). rewrite Ex. f_equal.
        rewrite map_map, prodT_flat_map. f_equal. apply map_ext_in. intros k' Hk'.
        destruct (children_par c k k' Hk') as [Hp Hlt]. rewrite (IH k' x Hlt).
        rewrite (idxs_head f c k') at 2. cbn [map Core.prodT]. f_equal.
        unfold gterm. now rewrite Hp, Ex.
    Qed.
  End Row.

  Lemma complete_cells (c : clt) r : length (cscope c) = length (cpar c) -> complete_on (cscope c) r = true ->
    forall j, j < length (cpar c) -> exists x, r (nth j (cscope c) 0) = Some x.
  Proof.
    intros Hl Hc j Hj. unfold complete_on in Hc. rewrite forallb_forall in Hc.
    specialize (Hc (nth j (cscope c) 0) ltac:(apply nth_In; lia)).
    destruct (r (nth j (cscope c) 0)) as [x|]; [eauto | discriminate].
  Qed.

  Lemma cpt_fn_out_r c i l k : in01 k = false -> cpt_fn c i l k = t0.
  Proof. intros H. unfold Clt.cpt_fn. now rewrite H, andb_false_r. Qed.
  Lemma cpt_fn_out_l c i l k : in01 l = false -> cpt_fn c i l k = t0.
  Proof. intros H. unfold Clt.cpt_fn. now rewrite H. Qed.
  Lemma in01_cases z : in01 z = true -> z = 0%Z \/ z = 1%Z.
  Proof. unfold in01. rewrite andb_true_iff, !Z.leb_le. lia. Qed.

  (* ---------- the refinement theorem ---------- *)
  Theorem clt_gather_val c : clt_gwf c -> forall r, complete_on (cscope c) r = true ->
      clt_gather c r = clt_val c r.
  Proof.
    intros (Hlen & Hpos & Hnd & Hlv & Hroot & Hrows) r Hcomp.
    pose proof (complete_cells c r Hlen Hcomp) as Hc.
    set (n := length (cpar c)) in *. set (rt := croot c) in *.
    assert (Hrt : rt < n) by (apply croot_lt; exact Hpos).
    unfold Clt.clt_tree in Hnd, Hlv. fold n rt in Hnd, Hlv. rewrite vars_build in Hnd, Hlv.
    rewrite map_length in Hlv. apply NoDup_map_inv in Hnd.
    assert (Hperm : Permutation (idxs n c rt) (seq 0 n)).
    { apply NoDup_Permutation_bis; [exact Hnd | rewrite seq_length; lia |].
      intros j Hj. apply in_seq. pose proof (idxs_lt n c rt Hrt j Hj). fold n in H. lia. }
    rewrite gather_gterm. fold n.
    rewrite <- (prodT_perm _ _ (Permutation_map (gterm c r) Hperm)).
    unfold Clt.clt_val, Clt.clt_tree. fold n rt. rewrite (up_build c r Hc n rt 0%Z Hrt).
    rewrite (idxs_head n c rt) at 1. cbn [map Core.prodT].
    set (P := prodT (map (gterm c r) (tl (idxs n c rt)))).
    unfold gterm at 1. fold rt in Hroot. rewrite Hroot. fold n.
    set (z := cell c r (n - 1)). set (y := cell c r rt).
    destruct (in01 z) eqn:Ez.
    - destruct (in01_cases z Ez) as [->| ->]; [reflexivity | now rewrite Hrows].
    - (* the last column holds a value outside {0,1}: both sides vanish *)
      destruct (Nat.eq_dec (n - 1) rt) as [E|E].
      + assert (y = z) by (unfold y, z; now rewrite E). subst y. rewrite H.
        now rewrite (cpt_fn_out_l c rt z z Ez), (cpt_fn_out_r c rt 0%Z z Ez).
      + assert (Hin : In (n - 1) (tl (idxs n c rt))).
        { assert (Hi : In (n - 1) (idxs n c rt)).
          { apply (Permutation_in _ (Permutation_sym Hperm)). apply in_seq. lia. }
          rewrite (idxs_head n c rt) in Hi. destruct Hi as [Hi|Hi]; [congruence | exact Hi]. }
        assert (HP : P = t0).
        { apply prodT_zero. apply in_map_iff. exists (n - 1). split; [|exact Hin].
          unfold gterm. apply cpt_fn_out_r. exact Ez. }
        rewrite HP. ring.
  Qed.

  (* what the code computes (gather on complete rows, messages otherwise) is message passing, on every row *)
  Theorem clt_lik_val c : clt_gwf c -> forall r, clt_lik c r = clt_val c r.
  Proof.
    intros Hwf r. unfold Clt.clt_lik. destruct (complete_on (cscope c) r) eqn:E; [|reflexivity].
    now apply clt_gather_val.
  Qed.

  (* ---------- boolean checker ---------- *)
  Variable teqb : T -> T -> bool.
  Hypothesis teqb_sound : forall a b, teqb a b = true -> a = b.

  Definition root_rows_eqb (c : clt) : bool :=
    match nth (croot c) (cpar c) None with None => true | Some _ => false end &&
    teqb (cpt_fn c (croot c) 1%Z 0%Z) (cpt_fn c (croot c) 0%Z 0%Z) &&
    teqb (cpt_fn c (croot c) 1%Z 1%Z) (cpt_fn c (croot c) 0%Z 1%Z).
  Definition clt_gwfb (c : clt) : bool := clt_shape_ok T t0 c && root_rows_eqb c.

  Lemma root_rows_eqb_sound c : root_rows_eqb c = true ->
    nth (croot c) (cpar c) None = None /\ (forall y, cpt_fn c (croot c) 1%Z y = cpt_fn c (croot c) 0%Z y).
  Proof.
    unfold root_rows_eqb. rewrite !andb_true_iff. intros [[H1 H2] H3]. split.
    - destruct (nth (croot c) (cpar c) None); [discriminate | reflexivity].
    - intros y. destruct (in01 y) eqn:Ey.
      + destruct (in01_cases y Ey) as [->| ->]; now apply teqb_sound.
      + now rewrite !cpt_fn_out_r.
  Qed.

  Theorem clt_gwfb_sound c : clt_gwfb c = true -> clt_gwf c.
  Proof.
    unfold clt_gwfb, clt_shape_ok. rewrite !andb_true_iff. intros [[[[[H1 H2] H3] H4] H5] H6].
    apply Nat.eqb_eq in H1, H2. apply nodupb_sound in H3. apply Nat.ltb_lt in H5.
    destruct (root_rows_eqb_sound c H6) as [Hr Hrows]. repeat split; auto.
  Qed.
End CltGather.

(* ---------- non-vacuity ---------- *)
From Coq Require Import QArith Qcanon.
From DV Require Import Model.QcInst Proofs.QcLaws Proofs.Examples.
Local Open Scope nat_scope.

(* 6 -> 7 (Proofs/Examples.v) and a 4-variable tree over a permuted scope whose root is position 2 *)
Definition ex_clt4 : clt Qc :=
  Build_clt [5;2;9;3] [Some 2; Some 0; None; Some 2]
    [[[q 1 4; q 3 4]; [q 5 8; q 3 8]]; [[q 1 2; q 1 2]; [q 1 8; q 7 8]];
     [[q 1 16; q 15 16]; [q 1 16; q 15 16]]; [[q 3 4; q 1 4]; [q 1 4; q 3 4]]].
Example ex_clt_gwfb : clt_gwfb Qc 0%Qc Qc_eq_bool ex_clt = true /\ clt_gwfb Qc 0%Qc Qc_eq_bool ex_clt4 = true.
Proof. vm_compute. split; reflexivity. Qed.
Example ex_clt4_lik_is_message_passing : forall r,
  clt_lik Qc 0%Qc 1%Qc Qcplus Qcmult ex_clt4 r = clt_val Qc 0%Qc 1%Qc Qcplus Qcmult ex_clt4 r.
Proof.
  apply (clt_lik_val Qc 0%Qc 1%Qc Qcplus Qcmult Qc_srth).
  apply (clt_gwfb_sound Qc 0%Qc Qc_eq_bool Qc_eq_bool_sound). apply ex_clt_gwfb.
Qed.
(* X5=1, X2=0, X9=1, X3=1 (row indexed by variable id): 15/16 * 3/8 * 1/8 * 3/4 *)
Example ex_clt4_value :
  clt_gather Qc 0%Qc 1%Qc Qcmult ex_clt4 (mkrow [None; None; Some 0; Some 1; None; Some 1; None; None; None; Some 1]%Z)
  = q 135 4096.
Proof. vm_compute. reflexivity. Qed.
Print Assumptions clt_gather_val.
Print Assumptions clt_lik_val.
Print Assumptions clt_gwfb_sound.
