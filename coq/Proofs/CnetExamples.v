(* Proofs/CnetExamples.v — non-vacuity of the C18 theorems: a concrete cutset network that meets
   the hypotheses, and instances of the learner skeleton. *)
From Coq Require Import List Arith ZArith QArith Qcanon Bool.
From DV Require Import Model.Core Model.Clt Model.Check Model.QcInst Model.Cnet Model.CnetRun
  Proofs.CoreFacts Proofs.QcLaws Proofs.CnetFacts.
Import ListNotations.
Local Open Scope nat_scope.

(* scope [3;1;4] (non-contiguous, permuted); cut on 1, then a CLT 3 -> 4 on the left and a second
   cut on 4 on the right *)
Definition ex_clt34 : clt Qc :=
  Build_clt [3;4] [None; Some 0] [[[q 1 4; q 3 4]; [q 1 4; q 3 4]]; [[q 1 2; q 1 2]; [q 1 8; q 7 8]]].
Definition ex_clt3 (a b : positive) (n : Z) : clt Qc :=
  Build_clt [3] [None] [[[q n b; q (Zpos b - n) b]; [q n b; q (Zpos b - n) b]]].
Definition ex_cnet : qornode :=
  OCut [3;1;4] 1 (q 1 4) (q 3 4)
    (OLeaf [3;4] ex_clt34)
    (OCut [3;4] 4 (q 5 8) (q 3 8) (OLeaf [3] (ex_clt3 1 16 3)) (OLeaf [3] (ex_clt3 1 16 11))).

Example ex_cnet_wfb : qwf_cnetb ex_cnet = true.
Proof. vm_compute. reflexivity. Qed.
Example ex_cnet_normb : qnorm_cnetb ex_cnet = true.
Proof. vm_compute. reflexivity. Qed.

Lemma Qc_eq_bool_sound' a b : Qc_eq_bool a b = true -> a = b.
Proof. apply Qc_eq_bool_correct. Qed.

Example ex_cnet_wf : wf_cnet Qc 0%Qc ex_cnet /\ norm_cnet Qc 0%Qc 1%Qc Qcplus ex_cnet.
Proof.
  split.
  - apply wf_cnetb_sound, ex_cnet_wfb.
  - apply (norm_cnetb_sound Qc 0%Qc 1%Qc Qcplus Qc_eq_bool Qc_eq_bool_sound'), ex_cnet_normb.
Qed.

(* row (X3,X1,X4) = (1,1,0): w1 * w0' * P(X3=1) = 3/4 * 5/8 * 13/16 *)
Example ex_cnet_value : qcnet_pos ex_cnet [1;1;0]%Z = q 195 512.
Proof. vm_compute. reflexivity. Qed.
Example ex_cnet_value_sem : qcnet_val ex_cnet (row_of [3;1;4] [1;1;0]%Z) = q 195 512.
Proof. vm_compute. reflexivity. Qed.
(* X1 missing: marginal *)
Example ex_cnet_marginal : qcnet_val ex_cnet (mkrow [None; None; None; Some 1%Z; Some 0%Z]) =
  (q 1 4 * (q 3 4 * q 1 8) + q 3 4 * (q 5 8 * q 13 16))%Qc.
Proof. vm_compute. reflexivity. Qed.

Example ex_cnet_mass_one :
  sum_compl Qc 0%Qc Qcplus (fun _ => dom2) [3;1;4] (qcnet_val ex_cnet) row_none = 1%Qc.
Proof.
  destruct ex_cnet_wf as [Hwf Hn].
  exact (cnet_normalised Qc 0%Qc 1%Qc Qcplus Qcmult Qc_srth ex_cnet Hwf Hn).
Qed.

(* the learner skeleton on a 4 x 3 data set: an oracle that cuts the middle column once *)
Definition ex_X : matrix := [[0;1;1]; [1;0;1]; [1;1;0]; [0;0;0]]%Z.
Definition ex_choose (sc ris cis : list nat) : option nat := if Nat.eqb (length sc) 3 then Some 1 else None.
Definition ex_fitclt (sc ris cis : list nat) : clt Qc :=
  Build_clt sc (None :: map (fun _ => Some 0) (tl sc))
    (map (fun _ => [[q 1 2; q 1 2]; [q 1 2; q 1 2]]) sc).
Definition ex_weight0 (lris ris : list nat) : Qc :=
  (Q2Qc (inject_Z (Z.of_nat (length lris)) + (1#100)) / Q2Qc (inject_Z (Z.of_nat (length ris)) + (2#100)))%Qc.
Definition ex_grown : qornode :=
  grow Qc 1%Qc ex_choose ex_weight0 Qcminus ex_fitclt ex_X 3 [0;1;2] [0;1;2;3] [0;1;2].
Example ex_grown_shape : qwf_cnetb ex_grown = true /\ get_or_id Qc ex_grown = Some 1 /\
                         osc Qc ex_grown = [0;1;2] /\ fit_self Qc ex_grown = Some ex_grown.
Proof. vm_compute. repeat split; reflexivity. Qed.
(* weights (2 + 1/100) / (4 + 2/100) and its complement *)
Example ex_grown_weights :
  match get_weights Qc ex_grown with
  | Some (a, b) => Qc_eq_bool a (q 1 2) && Qc_eq_bool b (q 1 2)
  | None => false
  end = true.
Proof. vm_compute. reflexivity. Qed.
