(* Proofs/MargClt.v — the Chow-Liu leaf handler of marginalize (to_pc, marginalise, prune) preserves
   the leaf's value on rows whose cells outside the kept set are missing: discharges the premise
   `clt_handler_ok` of Proofs/MargFacts.v for every well-formed Chow-Liu leaf. *)
From Coq Require Import List Arith ZArith Ring Lia Bool.
From DV Require Import Model.Core Model.Clt Model.Leaves Model.Check Model.Prune Model.ToPc Model.Marg
  Proofs.CoreFacts Proofs.CltFacts Proofs.PruneFacts Proofs.ToPcFacts Proofs.ToPcValid Proofs.MargFacts.
Import ListNotations.

Section MargClt.
  Variable T : Type.
  Variables (t0 t1 : T) (tadd tmul : T -> T -> T).
  Hypothesis SRth : semi_ring_theory t0 t1 tadd tmul (@eq T).
  Variable dom : nat -> list Z.
  Notation leaf := (leaf T).
  Notation lval := (leaf_val T t0 t1 tadd tmul).
  Notation table := (table T leaf).
  Notation dnode := (dummy_node T leaf).
  Notation val := (val T t0 t1 tadd tmul leaf lval).
  Notation scope_of := (scope_of T leaf).
  Notation vars := (vars T).
  Notation topc := (topc T t0 t1).
  Notation go_with := (go_with T).
  Notation up := (up T t0 t1 tadd tmul).

  (* node-local facts about everything to_pc appends *)
  Section Nodes.
    Variable P : node T leaf -> Prop.
    Hypothesis P0 : forall v, P (ind0 T t0 t1 v).
    Hypothesis P1 : forall v, P (ind1 T t0 t1 v).
    Hypothesis Pp : forall sc k ks, P (Build_node KProd sc (k :: ks)).
    Hypothesis Ps : forall w0 w1 sc a b, P (Build_node (KSum [w0; w1]) sc [a; b]).

    Lemma go_nodes ks : Forall (fun k => forall acc, Forall P acc -> Forall P (fst (topc k acc))) ks ->
      forall acc negs poss sc, Forall P acc -> Forall P (fst (go_with topc ks acc negs poss sc)).
    Proof.
      induction 1 as [|k ks Hk Hks IH]; intros acc negs poss sc Ha; cbn [ToPc.go_with]; [exact Ha|].
      specialize (Hk acc Ha). destruct (topc k acc) as [a1 [n p]]. cbn [fst] in Hk. now apply IH.
    Qed.
    Lemma topc_nodes t : forall acc, Forall P acc -> Forall P (fst (topc t acc)).
    Proof.
      induction t as [v cpt kids IH] using (ctree_ind' T). intros acc Ha. rewrite (topc_eq2 T t0 t1).
      pose proof (go_nodes kids IH acc [] [] [] Ha) as Hg.
      destruct (go_with topc kids acc [] [] []) as [acc1 [[negs poss] scs]]. cbn [fst] in Hg.
      unfold ToPc.emit. destruct kids; cbn [fst]; apply Forall_app; (split; [exact Hg|]); repeat constructor; auto.
    Qed.
  End Nodes.

  Lemma topc_root_last t acc : snd (snd (topc t acc)) = length (fst (topc t acc)) - 1.
  Proof.
    destruct t as [v cpt kids]. rewrite (topc_eq2 T t0 t1).
    destruct (go_with topc kids acc [] [] []) as [acc1 [[negs poss] scs]]. unfold ToPc.emit.
    destruct kids; cbn [fst snd]; rewrite app_length; cbn [length]; lia.
  Qed.

  (* the pass over a table without Chow-Liu leaves is the general pass *)
  Lemma step_simple_eq K st (n : node T leaf) : (forall c, nkind n <> KLeaf (LClt c)) ->
    marg_step_simple T K st n = marg_step T t0 t1 tadd tmul K st n.
  Proof.
    intros H. unfold marg_step_simple, marg_step. destruct st as [new m]. destruct (nkind n) as [[v tab|c]| |]; try reflexivity.
    exfalso. now apply (H c).
  Qed.
  Lemma fold_simple_eq K (t : table) : Forall (fun n => forall c, nkind n <> KLeaf (LClt c)) t ->
    forall st, fold_left (marg_step_simple T K) t st = fold_left (marg_step T t0 t1 tadd tmul K) t st.
  Proof. induction 1 as [|n t Hn Ht IH]; intros st; [reflexivity|]. cbn. rewrite step_simple_eq by exact Hn. apply IH. Qed.

  Lemma up_root_rows v cpt kids r : (forall x, cpt 1%Z x = cpt 0%Z x) -> up (CT v cpt kids) 1%Z r = up (CT v cpt kids) 0%Z r.
  Proof. intros H. cbn. destruct (r v); cbn; now rewrite !H. Qed.

  (* well-formed Chow-Liu leaf: tree with distinct binary variables, normalised rows, root rows equal,
     variables = scope *)
  Definition clt_wf (c : clt T) : Prop :=
    tree_ok T t1 tadd dom (clt_tree T t0 c) /\
    (match clt_tree T t0 c with CT _ cpt _ => forall x, cpt 1%Z x = cpt 0%Z x end) /\
    (forall v, In v (cscope c) <-> In v (vars (clt_tree T t0 c))).

  Variable K : list nat.
  Variable rowok : row -> Prop.

  Theorem clt_handler_discharged (c : clt T) : clt_wf c ->
      (forall r, rowok r -> binary_on (vars (clt_tree T t0 c)) r) ->
      clt_handler_ok T t0 t1 tadd tmul K rowok c.
  Proof.
    intros (Hok & Hroot & Hsc) Hbin Hex. unfold marg_clt, to_pc.
    set (tr := clt_tree T t0 c) in *.
    pose proof (topc_valid T t0 t1 tadd tmul SRth dom tr Hok [] (valid_nil _ _ _ _ _ _) (Forall_nil _)) as Hspec.
    pose proof (topc_spec T t0 t1 tadd tmul SRth tr (proj1 Hok) [] ltac:(intros j Hj; cbn in Hj; lia)) as Hvals.
    pose proof (topc_root_last tr []) as Hlast.
    set (NP := fun n0 : node T leaf => (forall c', nkind n0 <> KLeaf (LClt c')) /\
                                     leaf_scoped T n0 /\ match nkind n0 with KSum _ => nkids n0 <> [] | _ => True end).
    assert (N0 : forall v, NP (ind0 T t0 t1 v)) by (intros v; unfold NP, ind0, leaf_scoped; cbn; split; [discriminate | split; [reflexivity | exact I]]).
    assert (N1 : forall v, NP (ind1 T t0 t1 v)) by (intros v; unfold NP, ind1, leaf_scoped; cbn; split; [discriminate | split; [reflexivity | exact I]]).
    assert (N2 : forall sc k ks, NP (Build_node KProd sc (k :: ks))) by (intros; unfold NP, leaf_scoped; cbn; split; [discriminate | split; exact I]).
    assert (N3 : forall w0 w1 sc a b, NP (Build_node (KSum [w0; w1]) sc [a; b])) by (intros; unfold NP, leaf_scoped; cbn; split; [discriminate | split; [exact I | discriminate]]).
    pose proof (topc_nodes NP N0 N1 N2 N3 tr [] (Forall_nil _)) as Hnodes. unfold NP in Hnodes.
    destruct (topc tr []) as [pc [n p]] eqn:Etp. cbn [fst snd] in *.
    destruct Hspec as (_ & Hv & Hn & _ & Hp & Hsceq & Hnd & Hscope).
    destruct Hvals as (_ & Hwf & _ & _ & Hval).
    assert (Hnoclt : Forall (fun n0 => forall c', nkind n0 <> KLeaf (LClt c')) pc)
      by (eapply Forall_impl; [|exact Hnodes]; cbn; tauto).
    assert (Hpre : Forall (node_pre T t0 t1 tadd tmul K rowok) pc).
    { eapply Forall_impl; [|exact Hnodes]. intros n0 (H1 & H2 & H3). split; [exact H2|]. split; [|exact H3].
      intros c' Hc'. exfalso. now apply (H1 c'). }
    unfold marg_simple. rewrite fold_simple_eq by exact Hnoclt.
    pose proof (marg_inv T t0 t1 tadd tmul SRth dom K rowok pc Hv Hn Hpre) as [Hl Hrng Hwfm Hnormm Hnone Hvalm].
    fold (marg_state T t0 t1 tadd tmul K pc) in *.
    assert (Hplen : 0 < length pc) by lia.
    rewrite Hlast in *.
    destruct (nth (length pc - 1) (snd (marg_state T t0 t1 tadd tmul K pc)) None) as [r|] eqn:Er.
    - set (mt := fst (marg_state T t0 t1 tadd tmul K pc)) in *.
      specialize (Hrng _ _ Er).
      assert (Hwf1 : wf T leaf (firstn (S r) mt)) by (now apply wf_firstn).
      assert (Hn1 : Forall (sum_norm T t0 t1 tadd leaf) (firstn (S r) mt)) by (now apply forall_firstn).
      pose proof (prune_inv T t0 t1 tadd tmul SRth leaf lval (firstn (S r) mt) Hwf1 Hn1) as [Pl Pr Pw Pn Pv].
      assert (Hrl : r < length (firstn (S r) mt)) by (rewrite firstn_length; lia).
      eexists. eexists. split; [reflexivity|]. split; [exact Pw|]. split; [exact Pn|]. split; [now apply Pr|].
      intros row Hrow. rewrite (Pv r Hrl row). rewrite (val_firstn T t0 t1 tadd tmul) by lia.
      rewrite (Hvalm (length pc - 1) r ltac:(lia) Er row Hrow).
      destruct (Hval row (Hbin row (proj2 Hrow))) as [_ Hp1]. rewrite Hp1.
      cbn. unfold clt_val. fold tr. destruct tr as [v cpt kids]. now apply up_root_rows.
    - exfalso. apply (Hnone (length pc - 1)) in Er; [|lia]. rewrite Hsceq in Er.
      apply existsb_exists in Hex. destruct Hex as [v [Hv1 Hv2]]. apply memb_iff in Hv2.
      apply (Er v); [apply Hscope, Hsc, Hv1 | exact Hv2].
  Qed.
End MargClt.
