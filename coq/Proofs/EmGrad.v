(* Proofs/EmGrad.v — the backward pass of Model/Em.v (eval_backward) computes, for every node of a
   valid (smooth, decomposable, children-first) table, the slope of the root value as an AFFINE
   function of that node's value.  No calculus: `vals_ov t i x r` evaluates the table with the value
   of node i overridden by x, and
       root_with t i x r = root_with t i 0 r + nth i (grads t (vals t r)) * x      (grad_affine).
   Part A (adjoint identity, any table whose kids point backwards, any commutative semiring, ANY edge
   factors): reverse accumulation `bwd` from a seed vector a returns  sum_m a_m * F(m,j)  where F(.,j)
   is the forward accumulation `fwd` along the same edge factors (for DAGs: sum over all parents).
   Part B (valid tables): every node value is affine in the overridden value with slope F(.,i); a
   product has at most one child below which node i lies (decomposability + a variable in i's scope),
   and there  v_prod / v_child  is the product of the siblings (values non-zero, a / b cancels). *)
From Coq Require Import List Arith ZArith Ring Lia Bool.
From DV Require Import Model.Core Model.Clt Model.Leaves Model.Em Proofs.CoreFacts.
Import ListNotations.

Section Grad.
  Variable T : Type.
  Variables (t0 t1 : T) (tadd tmul tdiv : T -> T -> T).
  Hypothesis SRth : semi_ring_theory t0 t1 tadd tmul (@eq T).
  Add Ring TringG : SRth.
  Infix "+" := tadd. Infix "*" := tmul. Infix "/" := tdiv.
  Variable dom : nat -> list Z.
  Variable lv : eleaf T -> row -> T.
  Notation sumT := (sumT T t0 tadd).
  Notation prodT := (prodT T t1 tmul).
  Notation dotT := (dotT T t0 tadd tmul).
  Notation enode := (enode T).
  Notation etable := (etable T).
  Notation node_val := (node_val T t0 t1 tadd tmul (eleaf T) lv).
  Notation vals := (vals T t0 t1 tadd tmul (eleaf T) lv).
  Notation valid := (valid T t0 tadd dom (eleaf T) lv).
  Notation node_ok := (node_ok T t0 tadd dom (eleaf T) lv).
  Notation scope_of := (scope_of T (eleaf T)).
  Notation edges := (edges T t0 tdiv).
  Notation add_at := (add_at T tadd).
  Notation push := (push T tadd tmul).
  Notation bwd := (bwd T t0 tadd tmul tdiv).
  Notation seed := (seed T t0 t1).
  Notation grads := (grads T t0 t1 tadd tmul tdiv).

  (* ------------------------------------------------------------------ Part A: adjoint identity *)
  Lemma add_at_length k x l : length (add_at k x l) = length l.
  Proof. revert k. induction l as [|y l IH]; intros [|k]; cbn; auto. Qed.

  Lemma nth_add_at_other j k x l : j <> k -> nth j (add_at k x l) t0 = nth j l t0.
  Proof.
    revert j k. induction l as [|y l IH]; intros j k H; destruct k, j; cbn; auto; try lia.
  Qed.

  Lemma dot_nil_r (a : list T) : dotT a [] = t0.
  Proof. destruct a; reflexivity. Qed.

  Lemma dot_add_at k c a F : k < length a -> dotT (add_at k c a) F = dotT a F + c * nth k F t0.
  Proof.
    revert k F. induction a as [|y a IH]; intros k F Hk; cbn in Hk; [lia|].
    destruct k as [|k]; destruct F as [|f F]; cbn; try ring.
    rewrite IH by lia. ring.
  Qed.

  Definition eterm (F : list T) (e : nat * T) : T := snd e * nth (fst e) F t0.

  Lemma push_length g a es : length (push g a es) = length a.
  Proof.
    revert a. induction es as [|e es IH]; intros a; cbn; [reflexivity|].
    unfold Em.push in IH. rewrite IH. apply add_at_length.
  Qed.

  Lemma push_dot g es : forall a F, Forall (fun e => fst e < length a) es ->
    dotT (push g a es) F = dotT a F + g * sumT (map (eterm F) es).
  Proof.
    induction es as [|e es IH]; intros a F H; cbn; [ring|].
    inversion H as [|? ? He Hes]; subst. unfold Em.push in IH.
    rewrite IH by (rewrite add_at_length; exact Hes).
    rewrite dot_add_at by exact He. unfold eterm. ring.
  Qed.

  Lemma push_high g es N : Forall (fun e => fst e < N) es -> forall a j, N <= j ->
    nth j (push g a es) t0 = nth j a t0.
  Proof.
    induction es as [|e es IH]; intros H a j Hj; cbn; [reflexivity|].
    inversion H as [|? ? He Hes]; subst. unfold Em.push in IH.
    rewrite IH by assumption. apply nth_add_at_other. lia.
  Qed.

  (* forward accumulation along the same edge factors: F(m, j), one list per j *)
  Definition fstep (j : nat) (vs F : list T) (n : enode) : T :=
    if Nat.eqb (length F) j then t1
    else sumT (map (eterm F) (edges n vs (nth (length F) vs t0))).
  Definition fwd (t : etable) (vs : list T) (j : nat) : list T :=
    fold_left (fun F n => F ++ [fstep j vs F n]) t [].

  Lemma fwd_snoc t n vs j : fwd (t ++ [n]) vs j = fwd t vs j ++ [fstep j vs (fwd t vs j) n].
  Proof. unfold fwd. now rewrite fold_left_app. Qed.
  Lemma fwd_length t vs j : length (fwd t vs j) = length t.
  Proof.
    induction t as [|n t IH] using rev_ind; [reflexivity|].
    rewrite fwd_snoc, !app_length, IH. reflexivity.
  Qed.

  Inductive kwf : etable -> Prop :=
  | kwf_nil : kwf []
  | kwf_snoc t n : kwf t -> Forall (fun k => k < length t) (nkids n) -> kwf (t ++ [n]).

  Lemma valid_kwf t : valid t -> kwf t.
  Proof. induction 1 as [|t n Hv IH Hok]; constructor; [exact IH | exact (proj1 Hok)]. Qed.

  Lemma edges_fst n vs vn N : Forall (fun k => k < N) (nkids n) -> Forall (fun e => fst e < N) (edges n vs vn).
  Proof.
    intros H. unfold Em.edges. destruct (nkind n) as [l|ws|]; [constructor| |].
    - apply Forall_forall. intros [k w] Hin. apply in_combine_l in Hin.
      rewrite Forall_forall in H. cbn. now apply H.
    - apply Forall_map. eapply Forall_impl; [|exact H]. cbn. auto.
  Qed.

  Lemma sum_zero {A} (f : A -> T) l : (forall e, In e l -> f e = t0) -> sumT (map f l) = t0.
  Proof.
    induction l as [|e l IH]; intros H; cbn; [reflexivity|].
    rewrite (H e (or_introl eq_refl)), IH by (intros; apply H; now right). ring.
  Qed.

  Lemma fwd_zero t vs j : kwf t -> length t <= j -> forall m, nth m (fwd t vs j) t0 = t0.
  Proof.
    induction 1 as [|t n Hk IH Hkids]; intros Hj m; [destruct m; reflexivity|].
    rewrite app_length in Hj; cbn in Hj. rewrite fwd_snoc.
    destruct (Nat.lt_ge_cases m (length t)) as [Hm|Hm].
    - rewrite app_nth1 by (now rewrite fwd_length). apply IH. lia.
    - rewrite app_nth2 by (rewrite fwd_length; exact Hm). rewrite fwd_length.
      destruct (m - length t) as [|[|q]] eqn:E; cbn; try reflexivity.
      unfold fstep. rewrite fwd_length.
      destruct (Nat.eqb_spec (length t) j); [lia|].
      apply sum_zero. intros e _. unfold eterm. rewrite IH by lia. ring.
  Qed.

  Lemma dot_zero a F : (forall m, nth m F t0 = t0) -> dotT a F = t0.
  Proof.
    revert F. induction a as [|x a IH]; intros F H; [reflexivity|].
    destruct F as [|f F]; [reflexivity|]. cbn.
    rewrite (IH F) by (intros m; exact (H (S m))). specialize (H 0). cbn in H. rewrite H. ring.
  Qed.

  Lemma dot_snoc a : forall F y, length F < length a ->
    dotT a (F ++ [y]) = dotT a F + nth (length F) a t0 * y.
  Proof.
    induction a as [|x a IH]; intros F y H; cbn in H; [lia|].
    destruct F as [|f F]; cbn.
    - rewrite dot_nil_r. ring.
    - rewrite IH by (cbn in H; lia). ring.
  Qed.

  Lemma bwd_cons n rt vs acc :
    bwd (n :: rt) vs acc = bwd rt vs (push (nth (length rt) acc t0) acc (edges n vs (nth (length rt) vs t0))).
  Proof. reflexivity. Qed.

  Lemma bwd_spec t vs : kwf t -> forall a, length t <= length a ->
    (forall j, length t <= j -> nth j (bwd (rev t) vs a) t0 = nth j a t0) /\
    (forall j, j < length t -> nth j (bwd (rev t) vs a) t0 = dotT a (fwd t vs j)).
  Proof.
    induction 1 as [|t n Hk IH Hkids]; intros a Hl.
    - split; [reflexivity | cbn; intros; lia].
    - rewrite app_length in Hl; cbn in Hl.
      rewrite rev_app_distr. cbn [rev app]. rewrite bwd_cons, rev_length.
      set (es := edges n vs (nth (length t) vs t0)).
      assert (Hes : Forall (fun e => fst e < length t) es) by (now apply edges_fst).
      set (a' := push (nth (length t) a t0) a es).
      assert (Hl' : length t <= length a') by (unfold a'; rewrite push_length; lia).
      destruct (IH a' Hl') as [IH1 IH2]. split.
      + intros j Hj. rewrite app_length in Hj; cbn in Hj.
        rewrite IH1 by lia. unfold a'. apply (push_high _ _ (length t) Hes). lia.
      + intros j Hj. rewrite app_length in Hj; cbn in Hj. rewrite fwd_snoc.
        rewrite dot_snoc by (rewrite fwd_length; lia). rewrite fwd_length.
        destruct (Nat.eq_dec j (length t)) as [->|Hne].
        * rewrite IH1 by lia. unfold a'. rewrite (push_high _ _ (length t) Hes) by lia.
          rewrite dot_zero by (apply fwd_zero; [exact Hk | lia]).
          unfold fstep. rewrite fwd_length, Nat.eqb_refl. ring.
        * rewrite IH2 by lia. unfold a'.
          rewrite push_dot by (eapply Forall_impl; [|exact Hes]; cbn; intros; lia).
          unfold fstep. rewrite fwd_length.
          destruct (Nat.eqb_spec (length t) j); [lia|]. fold es. ring.
  Qed.

  Lemma dot_seed k : forall F, dotT (repeat t0 k ++ [t1]) F = nth k F t0.
  Proof.
    induction k as [|k IH]; intros [|f F]; cbn; try reflexivity; try ring.
    rewrite IH. ring.
  Qed.

  (* the gradient of node j = the forward-accumulated factor from j up to the root *)
  Theorem grads_fwd t vs j : kwf t -> j < length t ->
    nth j (grads t vs) t0 = nth (length t - 1) (fwd t vs j) t0.
  Proof.
    intros Hk Hj. unfold Em.grads.
    assert (Hl : length t <= length (seed (length t))).
    { unfold Em.seed. rewrite app_length, repeat_length. cbn. lia. }
    destruct (bwd_spec t vs Hk _ Hl) as [_ H2]. rewrite H2 by exact Hj.
    unfold Em.seed. apply dot_seed.
  Qed.

  (* ------------------------------------------------------------------ Part B: affinity *)
  Definition ov_step (i : nat) (x : T) (r : row) (vs : list T) (n : enode) : T :=
    if Nat.eqb (length vs) i then x else node_val n vs r.
  (* evaluation with the value of node i replaced by x *)
  Definition vals_ov (t : etable) (i : nat) (x : T) (r : row) : list T :=
    fold_left (fun vs n => vs ++ [ov_step i x r vs n]) t [].
  Definition root_with (t : etable) (i : nat) (x : T) (r : row) : T :=
    nth (length t - 1) (vals_ov t i x r) t0.
  Definition ekids (n : enode) : list nat := match nkind n with KLeaf _ => [] | _ => nkids n end.
  (* deps: node i lies below (or is) node j *)
  Definition dstep (i : nat) (ds : list bool) (n : enode) : bool :=
    Nat.eqb (length ds) i || existsb (fun k => nth k ds false) (ekids n).
  Definition deps (t : etable) (i : nat) : list bool := fold_left (fun ds n => ds ++ [dstep i ds n]) t [].

  Lemma ov_snoc t n i x r : vals_ov (t ++ [n]) i x r = vals_ov t i x r ++ [ov_step i x r (vals_ov t i x r) n].
  Proof. unfold vals_ov. now rewrite fold_left_app. Qed.
  Lemma ov_length t i x r : length (vals_ov t i x r) = length t.
  Proof.
    induction t as [|n t IH] using rev_ind; [reflexivity|].
    rewrite ov_snoc, !app_length, IH. reflexivity.
  Qed.
  Lemma deps_snoc t n i : deps (t ++ [n]) i = deps t i ++ [dstep i (deps t i) n].
  Proof. unfold deps. now rewrite fold_left_app. Qed.
  Lemma deps_length t i : length (deps t i) = length t.
  Proof.
    induction t as [|n t IH] using rev_ind; [reflexivity|].
    rewrite deps_snoc, !app_length, IH. reflexivity.
  Qed.

  Lemma sum_combine_dot (f : nat -> T) ks : forall ws,
    sumT (map (fun e : nat * T => snd e * f (fst e)) (combine ks ws)) = dotT ws (map f ks).
  Proof.
    induction ks as [|k ks IH]; intros [|w ws]; cbn; try reflexivity.
    now rewrite IH.
  Qed.
  Lemma dot_affine (a b c : nat -> T) x ks : forall ws,
    (forall k, In k ks -> a k = b k + c k * x) ->
    dotT ws (map a ks) = dotT ws (map b ks) + dotT ws (map c ks) * x.
  Proof.
    induction ks as [|k ks IH]; intros [|w ws] H; cbn; try ring.
    rewrite (H k (or_introl eq_refl)), (IH ws) by (intros; apply H; now right). ring.
  Qed.
  Lemma dot_map_zero (c : nat -> T) ks : forall ws, (forall k, In k ks -> c k = t0) -> dotT ws (map c ks) = t0.
  Proof.
    induction ks as [|k ks IH]; intros [|w ws] H; cbn; try reflexivity.
    rewrite (H k (or_introl eq_refl)), (IH ws) by (intros; apply H; now right). ring.
  Qed.
  Lemma existsb_split {A} (p : A -> bool) l : existsb p l = true ->
    exists l1 k l2, l = l1 ++ k :: l2 /\ p k = true /\ forall y, In y l1 -> p y = false.
  Proof.
    induction l as [|y l IH]; cbn; [discriminate|]. intros H. destruct (p y) eqn:E.
    - exists [], y, l. repeat split; auto. intros ? [].
    - cbn in H. destruct (IH H) as [l1 [k [l2 [-> [Hk Hl1]]]]].
      exists (y :: l1), k, l2. repeat split; auto. intros z [<-|Hz]; auto.
  Qed.
  Lemma existsb_false {A} (p : A -> bool) l : existsb p l = false -> forall y, In y l -> p y = false.
  Proof.
    intros H y Hy. destruct (p y) eqn:E; [|reflexivity].
    assert (existsb p l = true) by (apply existsb_exists; eauto). congruence.
  Qed.
  Lemma prodT_app l1 l2 : prodT (l1 ++ l2) = prodT l1 * prodT l2.
  Proof. induction l1 as [|x l1 IH]; cbn; [ring | rewrite IH; ring]. Qed.
  Lemma sumT_app l1 l2 : sumT (l1 ++ l2) = sumT l1 + sumT l2.
  Proof. induction l1 as [|x l1 IH]; cbn; [ring | rewrite IH; ring]. Qed.

  Hypothesis div_cancel : forall a b, b <> t0 -> (a * b) / b = a.

  Section Fixed.
    Variables (i : nat) (r : row) (v0 : nat) (VS : list T).
    Notation O := (fun (t : etable) x k => nth k (vals_ov t i x r) t0).
    Notation V := (fun k => nth k VS t0).
    Notation F := (fun (t : etable) k => nth k (fwd t VS i) t0).
    Notation D := (fun (t : etable) k => nth k (deps t i) false).

    Definition agree (t : etable) : Prop := forall j, j < length t -> V j = nth j (vals t r) t0.

    Definition inv (t : etable) (j : nat) : Prop :=
      (D t j = false -> (forall x, O t x j = V j) /\ F t j = t0) /\
      (D t j = true -> In v0 (scope_of t j)) /\
      (forall x, O t x j = O t t0 j + F t j * x).

    Lemma affine_all t : valid t -> agree t -> (i < length t -> In v0 (scope_of t i)) ->
      (forall j, j < length t -> V j <> t0) -> forall j, j < length t -> inv t j.
    Proof.
      induction 1 as [|t n Hv IH Hok]; intros Hag Hsc Hnz j Hj; [cbn in Hj; lia|].
      rewrite app_length in Hj; cbn in Hj.
      assert (Hag' : agree t).
      { intros k Hk. rewrite (Hag k) by (rewrite app_length; cbn; lia).
        apply (vals_prefix T t0 t1 tadd tmul (eleaf T) lv t [n] r k Hk). }
      assert (Hsc' : i < length t -> In v0 (scope_of t i)).
      { intros Hi. rewrite <- (scope_of_prefix T (eleaf T) t [n] i Hi). apply Hsc. rewrite app_length; cbn; lia. }
      assert (Hnz' : forall k, k < length t -> V k <> t0).
      { intros k Hk. apply Hnz. rewrite app_length; cbn; lia. }
      specialize (IH Hag' Hsc' Hnz').
      destruct (Nat.eq_dec j (length t)) as [->|Hne].
      2:{ assert (Hj' : j < length t) by lia. specialize (IH j Hj').
          unfold inv in *. rewrite deps_snoc, fwd_snoc.
          rewrite (app_nth1 (deps t i)) by (now rewrite deps_length).
          rewrite (app_nth1 (fwd t VS i)) by (now rewrite fwd_length).
          rewrite (scope_of_prefix T (eleaf T) t [n] j Hj').
          destruct IH as [I1 [I2 I3]]. split; [|split].
          - intros Hd. destruct (I1 Hd) as [A B]. split; [|exact B].
            intros x. rewrite ov_snoc, app_nth1 by (now rewrite ov_length). apply A.
          - exact I2.
          - intros x. rewrite !ov_snoc, !app_nth1 by (now rewrite ov_length). apply I3. }
      (* the new node *)
      assert (HO : forall x, O (t ++ [n]) x (length t) =
                             if Nat.eqb (length t) i then x else node_val n (vals_ov t i x r) r).
      { intros x. rewrite ov_snoc, app_nth2 by (rewrite ov_length; lia).
        rewrite ov_length, Nat.sub_diag. cbn [nth]. unfold ov_step. now rewrite ov_length. }
      assert (HD : D (t ++ [n]) (length t) = dstep i (deps t i) n).
      { rewrite deps_snoc, app_nth2 by (rewrite deps_length; lia).
        now rewrite deps_length, Nat.sub_diag. }
      assert (HF : F (t ++ [n]) (length t) = fstep i VS (fwd t VS i) n).
      { rewrite fwd_snoc, app_nth2 by (rewrite fwd_length; lia).
        now rewrite fwd_length, Nat.sub_diag. }
      assert (HV : V (length t) = node_val n (vals t r) r).
      { rewrite (Hag (length t)) by (rewrite app_length; cbn; lia).
        apply (val_last T t0 t1 tadd tmul (eleaf T) lv t n r). }
      unfold inv. rewrite HD, HF, (scope_of_last T (eleaf T) t n).
      cbv beta. setoid_rewrite HO. clear HO HD HF.
      unfold dstep, fstep. rewrite deps_length, fwd_length.
      destruct (Nat.eqb_spec (length t) i) as [Hi|Hi].
      { (* the overridden node itself *)
        cbn [orb]. split; [discriminate|]. split.
        - intros _. rewrite <- (scope_of_last T (eleaf T) t n). rewrite Hi. apply Hsc.
          rewrite app_length; cbn; lia.
        - intros x. ring. }
      cbn [orb].
      destruct Hok as [Hkids Hok].
      rewrite Forall_forall in Hkids.
      assert (Hvk : forall k, In k (nkids n) -> V k = nth k (vals t r) t0).
      { intros k Hk. apply Hag'. now apply Hkids. }
      unfold Em.edges, ekids. rewrite HV. unfold Core.node_val.
      destruct (nkind n) as [l|ws|].
      - (* leaf *)
        cbn. split; [intros _; split; [reflexivity|reflexivity]|]. split; [discriminate|].
        intros x. ring.
      - (* sum *)
        destruct Hok as [Hlen Hseteq]. rewrite Forall_forall in Hseteq.
        replace (map (eterm (fwd t VS i)) (combine (nkids n) ws))
          with (map (fun e : nat * T => snd e * (fun k => nth k (fwd t VS i) t0) (fst e)) (combine (nkids n) ws))
          by reflexivity.
        rewrite (sum_combine_dot (fun k => nth k (fwd t VS i) t0) (nkids n) ws).
        split; [|split].
        + intros Hd. pose proof (existsb_false _ _ Hd) as Hall. split.
          * intros x. f_equal. apply map_ext_in. intros k Hk.
            destruct (IH k (Hkids k Hk)) as [I1 _]. destruct (I1 (Hall k Hk)) as [A _].
            rewrite (A x). now apply Hvk.
          * apply dot_map_zero. intros k Hk.
            destruct (IH k (Hkids k Hk)) as [I1 _]. exact (proj2 (I1 (Hall k Hk))).
        + intros Hd. apply existsb_exists in Hd. destruct Hd as [k [Hk Hdk]].
          destruct (IH k (Hkids k Hk)) as [_ [I2 _]]. apply (Hseteq k Hk). now apply I2.
        + intros x. apply dot_affine. intros k Hk. destruct (IH k (Hkids k Hk)) as [_ [_ I3]]. apply I3.
      - (* product *)
        destruct Hok as [Hun Hdis].
        match goal with |- context [sumT ?l] => set (SS := sumT l) end.
        assert (HSS : SS = sumT (map (fun k => prodT (map (fun k0 => nth k0 (vals t r) t0) (nkids n)) / nth k VS t0 *
                                              nth k (fwd t VS i) t0) (nkids n))).
        { unfold SS. rewrite map_map. reflexivity. }
        rewrite HSS. clear HSS SS.
        assert (P1 : existsb (fun k => nth k (deps t i) false) (nkids n) = false ->
                     (forall x, prodT (map (fun k => nth k (vals_ov t i x r) t0) (nkids n)) =
                                prodT (map (fun k => nth k (vals t r) t0) (nkids n))) /\
                     sumT (map (fun k => prodT (map (fun k0 => nth k0 (vals t r) t0) (nkids n)) / nth k VS t0 *
                                        nth k (fwd t VS i) t0) (nkids n)) = t0).
        { intros Hd. pose proof (existsb_false _ _ Hd) as Hall. split.
          - intros x. f_equal. apply map_ext_in. intros k Hk.
            destruct (IH k (Hkids k Hk)) as [I1 _]. destruct (I1 (Hall k Hk)) as [A _].
            rewrite (A x). now apply Hvk.
          - apply sum_zero. intros k Hk.
            destruct (IH k (Hkids k Hk)) as [I1 _]. rewrite (proj2 (I1 (Hall k Hk))). ring. }
        split; [exact P1|]. split.
        + intros Hd. apply existsb_exists in Hd. destruct Hd as [k [Hk Hdk]].
          destruct (IH k (Hkids k Hk)) as [_ [I2 _]]. apply Hun. exists k. split; [exact Hk | now apply I2].
        + intros x.
          destruct (existsb (fun k => nth k (deps t i) false) (nkids n)) eqn:Hd.
          2:{ destruct (P1 eq_refl) as [A B]. rewrite (A x), (A t0), B. ring. }
          destruct (existsb_split _ _ Hd) as [l1 [k [l2 [Hks [Hdk Hl1]]]]].
          assert (Hl2 : forall y, In y l2 -> nth y (deps t i) false = false).
          { intros y Hy. destruct (nth y (deps t i) false) eqn:E; [|reflexivity]. exfalso.
            destruct (In_nth _ _ 0 Hy) as [q [Hq Hnth]].
            assert (Hky : In k (nkids n)) by (rewrite Hks; apply in_or_app; right; now left).
            assert (Hyy : In y (nkids n)) by (rewrite Hks; apply in_or_app; right; now right).
            destruct (IH k (Hkids k Hky)) as [_ [Ik _]]. destruct (IH y (Hkids y Hyy)) as [_ [Iy _]].
            assert (Hb : length l1 < Nat.add (length l1) (S q) < length (nkids n)) by (rewrite Hks, app_length; cbn; lia).
            apply (Hdis _ _ Hb v0).
            - rewrite Hks, app_nth2, Nat.sub_diag by lia. cbn. now apply Ik.
            - rewrite Hks, app_nth2 by lia. replace (Nat.add (length l1) (S q) - length l1) with (S q) by lia.
              cbn. rewrite Hnth. now apply Iy. }
          assert (Hin : forall y, In y l1 \/ In y l2 -> In y (nkids n)).
          { intros y [Hy|Hy]; rewrite Hks; apply in_or_app; [now left | right; now right]. }
          assert (Hkin : In k (nkids n)) by (rewrite Hks; apply in_or_app; right; now left).
          assert (Hside : forall l, (forall y, In y l -> In y (nkids n) /\ nth y (deps t i) false = false) ->
                    (forall x', map (fun k0 => nth k0 (vals_ov t i x' r) t0) l = map (fun k0 => nth k0 VS t0) l) /\
                    (forall c, sumT (map (fun k0 => c / nth k0 VS t0 * nth k0 (fwd t VS i) t0) l) = t0)).
          { intros l Hl. split.
            - intros x'. apply map_ext_in. intros y Hy. destruct (Hl y Hy) as [Hyk Hyd].
              destruct (IH y (Hkids y Hyk)) as [I1 _]. exact (proj1 (I1 Hyd) x').
            - intros c. apply sum_zero. intros y Hy. destruct (Hl y Hy) as [Hyk Hyd].
              destruct (IH y (Hkids y Hyk)) as [I1 _]. rewrite (proj2 (I1 Hyd)). ring. }
          destruct (Hside l1 (fun y Hy => conj (Hin y (or_introl Hy)) (Hl1 y Hy))) as [A1 B1].
          destruct (Hside l2 (fun y Hy => conj (Hin y (or_intror Hy)) (Hl2 y Hy))) as [A2 B2].
          destruct (IH k (Hkids k Hkin)) as [_ [_ I3]].
          assert (HVP : prodT (map (fun k0 => nth k0 (vals t r) t0) (nkids n)) =
                        (prodT (map (fun k0 => nth k0 VS t0) l1) * prodT (map (fun k0 => nth k0 VS t0) l2)) * nth k VS t0).
          { erewrite map_ext_in; [|intros y Hy; symmetry; apply (Hvk y Hy)].
            rewrite Hks, map_app, prodT_app. cbn. ring. }
          rewrite HVP. rewrite Hks, !map_app, !prodT_app, sumT_app. cbn [map Core.prodT Core.sumT].
          rewrite B1, B2, (A1 x), (A2 x), (A1 t0), (A2 t0), (I3 x).
          rewrite div_cancel by (apply Hnz'; now apply Hkids). ring.
    Qed.
  End Fixed.

  (* ------------------------------------------------------------------ the theorem *)
  Theorem grad_affine t r i v0 : valid t -> i < length t -> In v0 (scope_of t i) ->
    (forall j, j < length t -> nth j (vals t r) t0 <> t0) ->
    forall x, root_with t i x r = root_with t i t0 r + nth i (grads t (vals t r)) t0 * x.
  Proof.
    intros Hv Hi Hsc Hnz x. unfold root_with.
    assert (Hlast : length t - 1 < length t) by lia.
    destruct (affine_all i r v0 (vals t r) t Hv (fun j _ => eq_refl) (fun _ => Hsc) Hnz _ Hlast) as [_ [_ H3]].
    rewrite (H3 x). rewrite grads_fwd by (auto using valid_kwf). reflexivity.
  Qed.

  (* overriding node i with its own value changes nothing *)
  Lemma vals_ov_self t r i VS : (forall j, j < length t -> nth j VS t0 = nth j (vals t r) t0) ->
    vals_ov t i (nth i VS t0) r = vals t r.
  Proof.
    induction t as [|n t IH] using rev_ind; intros H; [reflexivity|].
    rewrite ov_snoc, (vals_snoc T t0 t1 tadd tmul (eleaf T) lv).
    assert (H' : forall j, j < length t -> nth j VS t0 = nth j (vals t r) t0).
    { intros j Hj. rewrite H by (rewrite app_length; cbn; lia).
      apply (vals_prefix T t0 t1 tadd tmul (eleaf T) lv t [n] r j Hj). }
    rewrite (IH H'). f_equal. f_equal. unfold ov_step.
    rewrite (vals_length T t0 t1 tadd tmul (eleaf T) lv).
    destruct (Nat.eqb_spec (length t) i) as [<-|]; [|reflexivity].
    rewrite H by (rewrite app_length; cbn; lia).
    apply (val_last T t0 t1 tadd tmul (eleaf T) lv t n r).
  Qed.
  Theorem root_with_self t r i :
    root_with t i (nth i (vals t r) t0) r = nth (length t - 1) (vals t r) t0.
  Proof. unfold root_with. now rewrite (vals_ov_self t r i (vals t r)) by auto. Qed.
End Grad.
