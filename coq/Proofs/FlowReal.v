(* Proofs/FlowReal.v — C15 over the reals: the generic layer formulas of Model/Flow.v instantiated
   with exp / ln / sqrt; the reported per-coordinate log-derivatives are the logarithms of the true
   derivatives (Coquelicot is_derive); logit forward/backward are mutual inverses; and the
   hypotheses of the generic algebraic theorems are satisfiable (R is an instance). *)
From Coq Require Import Reals Lra List Arith Lia.
From Coquelicot Require Import Coquelicot.
From DV Require Import Model.Flow Proofs.FlowFacts.
Import ListNotations.
Open Scope R_scope.

Definition Rlogit_x' := logit_x' R 1 Rplus Rmult Rminus.
Definition Rlogit_bwd1 := logit_bwd1 R 1 Rplus Rmult Rminus ln.
Definition Rlogit_v1 := logit_v1 R 1 Rplus Rmult Rminus ln.
Definition Rlogit_ildj1 := logit_ildj1 R 1 Rplus Rmult Rminus Ropp ln.
Definition Rsigmoid := sigmoid R 1 Rplus Ropp Rdiv exp.
Definition Rlogit_fwd1 := logit_fwd1 R 1 Rplus Rmult Rminus Ropp Rdiv exp.
Definition Rlogit_w1 := logit_w1 R 1 Rplus Rminus Ropp Rdiv exp ln.
Definition Rlogit_ldj1 := logit_ldj1 R 1 Rplus Rmult Rminus Ropp Rdiv exp ln.

Lemma x'_range a x : 0 < a < 1/2 -> 0 <= x <= 1 -> 0 < Rlogit_x' a x < 1.
Proof. intros Ha Hx. unfold Rlogit_x', logit_x', two.
  assert (H1 : 0 <= (1 - (1 + 1) * a) * x) by (apply Rmult_le_pos; lra).
  assert (H2 : (1 - (1 + 1) * a) * x <= (1 - (1 + 1) * a) * 1) by (apply Rmult_le_compat_l; lra).
  lra. Qed.

(* LogitLayer.apply_backward, one coordinate: the derivative is exp(reported ildj) *)
Theorem logit_bwd_derive a x : 0 < a < 1/2 -> 0 <= x <= 1 ->
  is_derive (Rlogit_bwd1 a) x (exp (Rlogit_ildj1 a x)).
Proof.
  intros Ha Hx. pose proof (x'_range a x Ha Hx) as Hx'.
  unfold Rlogit_bwd1, logit_bwd1, Rlogit_ildj1, logit_ildj1, logit_v1, Rlogit_x', logit_x', two in *.
  set (x' := a + (1 - (1 + 1) * a) * x) in *.
  auto_derive.
  - fold x'. repeat split; lra.
  - fold x'. rewrite exp_Ropp, !exp_plus, exp_Ropp, !exp_ln by lra. field. lra.
Qed.

Lemma sigmoid_range u : 0 < Rsigmoid u < 1.
Proof. unfold Rsigmoid, sigmoid. pose proof (exp_pos (- u)). split.
  - apply Rdiv_lt_0_compat; lra.
  - apply Rmult_lt_reg_r with (1 + exp (- u)); [lra|]. field_simplify; lra. Qed.

(* LogitLayer.apply_forward, one coordinate *)
Theorem logit_fwd_derive a u : 0 < a < 1/2 ->
  is_derive (Rlogit_fwd1 a) u (exp (Rlogit_ldj1 a u)).
Proof.
  intros Ha. pose proof (sigmoid_range u) as Hs. pose proof (exp_pos (- u)) as He.
  unfold Rlogit_fwd1, logit_fwd1, Rlogit_ldj1, logit_ldj1, logit_w1, two. fold Rsigmoid.
  rewrite !exp_plus, exp_Ropp, !exp_ln by lra.
  unfold Rsigmoid, sigmoid in *.
  auto_derive.
  - repeat split; lra.
  - field. lra.
Qed.

(* forward o backward = id per coordinate, and ldj(forward) = - ildj(backward) along the round trip *)
Lemma sigmoid_logit x' : 0 < x' < 1 -> Rsigmoid (ln x' - ln (1 - x')) = x'.
Proof. intros H. unfold Rsigmoid, sigmoid.
  replace (- (ln x' - ln (1 - x'))) with (ln (1 - x') + - ln x') by lra.
  rewrite exp_plus, exp_Ropp, !exp_ln by lra. field. lra. Qed.

Theorem logit_fwd_bwd1 a x : 0 < a < 1/2 -> 0 <= x <= 1 ->
  Rlogit_fwd1 a (Rlogit_bwd1 a x) = x /\ Rlogit_ldj1 a (Rlogit_bwd1 a x) = - Rlogit_ildj1 a x.
Proof.
  intros Ha Hx. pose proof (x'_range a x Ha Hx) as Hx'.
  unfold Rlogit_fwd1, logit_fwd1, Rlogit_ldj1, logit_ldj1, logit_w1, Rlogit_ildj1, logit_ildj1, logit_v1,
    Rlogit_bwd1, logit_bwd1. fold Rsigmoid. fold Rlogit_x'.
  rewrite sigmoid_logit by auto. split.
  - unfold Rlogit_x', logit_x', two. field. lra.
  - lra.
Qed.

Theorem logit_bwd_fwd1 a u : 0 < a < 1/2 ->
  Rlogit_bwd1 a (Rlogit_fwd1 a u) = u /\ Rlogit_ildj1 a (Rlogit_fwd1 a u) = - Rlogit_ldj1 a u.
Proof.
  intros Ha. pose proof (sigmoid_range u) as Hs. pose proof (exp_pos (- u)) as He.
  unfold Rlogit_fwd1, logit_fwd1, Rlogit_ldj1, logit_ldj1, logit_w1, Rlogit_ildj1, logit_ildj1, logit_v1,
    Rlogit_bwd1, logit_bwd1, logit_x', two. fold Rsigmoid.
  replace (a + (1 - (1 + 1) * a) * ((Rsigmoid u - a) / (1 - (1 + 1) * a))) with (Rsigmoid u) by (field; lra).
  split; [|lra].
  unfold Rsigmoid, sigmoid in *.
  replace (1 - 1 / (1 + exp (- u))) with (exp (- u) / (1 + exp (- u))) by (field; lra).
  unfold Rdiv. rewrite !ln_mult, ln_Rinv, ln_1, ln_exp; try lra; try (apply Rinv_0_lt_compat; lra).
Qed.

(* affine coupling / autoregressive coordinate with (t, s) fixed (they do not depend on the
   coordinate being transformed: masks theorems) *)
Theorem affine_bwd_derive t s x : is_derive (fun x => (x - t) * exp (- s)) x (exp (- s)).
Proof. auto_derive; [exact I|]. ring. Qed.
Theorem affine_fwd_derive t s u : is_derive (fun u => u * exp s + t) u (exp s).
Proof. auto_derive; [exact I|]. ring. Qed.

(* BatchNorm in evaluation mode, one coordinate; v = running_var + eps *)
Theorem bn_bwd_derive w b m v x : 0 < v ->
  is_derive (fun x => (x - m) / sqrt v * exp w + b) x (exp (w - 1 / (1 + 1) * ln v)).
Proof.
  intros Hv. assert (Hs : 0 < sqrt v) by now apply sqrt_lt_R0.
  auto_derive; [exact I|].
  unfold Rminus. rewrite exp_plus, exp_Ropp.
  replace (1 / (1 + 1) * ln v) with (/ 2 * ln v) by (unfold Rdiv; lra).
  change (exp (/ 2 * ln v)) with (Rpower v (/ 2)). rewrite Rpower_sqrt by auto. field. lra.
Qed.
Theorem bn_fwd_derive w b m v u : 0 < v ->
  is_derive (fun u => (u - b) * exp (- w) * sqrt v + m) u (exp (- w + 1 / (1 + 1) * ln v)).
Proof.
  intros Hv. auto_derive; [exact I|].
  rewrite exp_plus.
  replace (1 / (1 + 1) * ln v) with (/ 2 * ln v) by (unfold Rdiv; lra).
  change (exp (/ 2 * ln v)) with (Rpower v (/ 2)). rewrite Rpower_sqrt by auto. ring.
Qed.

(* ---------- the generic theorems are not vacuous: R with exp is an instance ---------- *)
Lemma R_exp_add : forall a b, exp (a + b) = exp a * exp b. Proof. exact exp_plus. Qed.

Example coupling_fwd_bwd_R : forall affine n mask imask (cond : condT R) x,
  compl_masks R 0 1 n mask imask -> length x = n ->
  coupling_fwd R 0 Rplus Rmult exp affine n mask imask cond
     (fst (coupling_bwd R 0 Rplus Rmult Rminus Ropp exp affine n mask imask cond x)) =
  (x, - snd (coupling_bwd R 0 Rplus Rmult Rminus Ropp exp affine n mask imask cond x)).
Proof. exact (coupling_fwd_bwd R 0 1 Rplus Rmult Rminus Ropp exp RTheory R_exp_add exp_0). Qed.

Example bn_fwd_bwd_R : forall n eps w b rvar rmean x, length x = n ->
  (forall i, (i < n)%nat -> 0 < nth i rvar 0 + eps) ->
  bn_fwd R 0 1 Rplus Rmult Rminus Ropp Rdiv exp ln sqrt n eps w b rvar rmean
    (fst (bn_bwd R 0 1 Rplus Rmult Rminus Rdiv exp ln sqrt n eps w b rvar rmean x)) =
  (x, - snd (bn_bwd R 0 1 Rplus Rmult Rminus Rdiv exp ln sqrt n eps w b rvar rmean x)).
Proof.
  intros. apply (bn_fwd_bwd R 0 1 Rplus Rmult Rminus Ropp Rdiv Rinv exp ln sqrt Rfield R_exp_add exp_0); auto.
  intros i Hi E. specialize (H0 i Hi). apply sqrt_lt_R0 in H0. lra.
Qed.

(* a concrete MAF layer on R^3 with reversed ordering: masks from the model, arbitrary weights *)
Example maf_layer_inverse_R : forall (Ls : list (mlayer R)) sact,
  map (l_mask R) Ls = tile_last (build_masks (degrees_seq 3 1 4 true)) ->
  forall x, length x = 3%nat ->
  let cond := ar_cond R 0 1 Rplus Rmult 3 Ls sact in
  ar_fwd R 0 Rplus Rmult exp 3 cond (inv_ordering [2; 1; 0]%nat)
    (fst (ar_bwd R 0 Rplus Rmult Rminus Ropp exp 3 cond x)) =
  (x, - snd (ar_bwd R 0 Rplus Rmult Rminus Ropp exp 3 cond x)).
Proof.
  intros Ls sact Hm x Hx.
  apply (maf_layer_inverse R 0 1 Rplus Rmult Rminus Ropp exp RTheory R_exp_add exp_0 [2; 1; 0]%nat
           [[0; 1; 0; 1]%nat] Ls sact Hm); auto.
  simpl. intros k Hk. destruct k as [|[|[|k]]]; auto; lia.
Qed.
