(* Properties/C17.v — placeholder while the proofs are being installed *)
From Coq Require Import List ZArith.
From DV Require Import Model.Dgc.
Theorem C17_mpe_keeps_observed : forall (A : Type) (v est : A), mpe_cell (Some v) est = v.
Proof. reflexivity. Qed.
Print Assumptions C17_mpe_keeps_observed.
