(* Properties/C17.v — DGC-SPNs are smooth, decomposable and normalised for every configuration.
   Model: Model/Dgc.v (constructor loop of deeprob/spn/models/dgcspn.py, layer arithmetic and the indexed
   product / mixtures of deeprob/spn/layers/dgcspn.py).  `admissible g` = side >= 1, 0 <= n_pooling <=
   ceil(log2 side), 2^n_pooling | side, positive base/sum channel counts; every theorem quantifies over ALL
   such configurations (any side, any depthwise flags, any channel counts, any weights). *)
From Coq Require Import List ZArith Bool Ring.
From DV Require Import Model.Dgc Model.DgcAsg Proofs.DgcFacts Proofs.DgcGeom Proofs.DgcEval Proofs.DgcMain Proofs.DgcNorm.
Import ListNotations.
Open Scope Z_scope.

(* what DgcSpn.__init__ accepts, with the divisibility premise, is admissible *)
Theorem C17_accepted_admissible : forall g,
    accepted g = true -> 1 <= cf_side g -> (2 ^ cf_pool g | cf_side g) -> admissible g.
Proof. exact accepted_admissible. Qed.

(* sizes after k iterations of the layer loop: positive, and (side - E + 1) * P = D with P = 2^min(k,n)
   the pooled block size and E = 2^max(k-n,0) the dilation reached; the last layer has 2^(depth-n)
   positions per axis *)
Theorem C17_sizes : forall g, admissible g ->
    (forall k : nat, Z.of_nat k <= depth_of (cf_side g) ->
       0 < s_c (state_at g k) /\ 0 < s_side (state_at g k) /\
       (s_side (state_at g k) - EE g (Z.of_nat k) + 1) * PP g (Z.of_nat k) = cf_side g) /\
    s_side (build g) = 2 ^ (depth_of (cf_side g) - cf_pool g) /\ 0 < s_c (build g).
Proof. exact adm_sizes. Qed.

(* closed-form scope at every level: position (h,w) after k iterations covers exactly the pixels whose
   block indices (x / P, y / P) lie in [h-E+1, h] x [w-E+1, w] *)
Theorem C17_scope_interval : forall g, admissible g ->
    forall (k : nat) h w x y, Z.of_nat k <= depth_of (cf_side g) ->
      0 <= h < s_side (state_at g k) -> 0 <= w < s_side (state_at g k) ->
      0 <= x < cf_side g -> 0 <= y < cf_side g ->
      use2 (s_ls (state_at g k)) h w x y =
      ind (PP g (Z.of_nat k)) (EE g (Z.of_nat k)) h x * ind (PP g (Z.of_nat k)) (EE g (Z.of_nat k)) w y.
Proof. exact adm_scope_interval. Qed.

(* every induced sub-circuit (any choice `ch` of one child per sum node, any root child (c,h,w)) uses
   every pixel exactly once *)
Theorem C17_each_pixel_once : forall g, admissible g ->
    forall (ch : nat -> Z -> Z -> Z -> Z) c h w x y,
      0 <= h < s_side (build g) -> 0 <= w < s_side (build g) ->
      0 <= x < cf_side g -> 0 <= y < cf_side g ->
      count_px x y (leaves ch (s_ls (build g)) c h w) = 1.
Proof. exact adm_each_pixel_once. Qed.

(* smoothness: for EVERY layer list the pixels below a node do not depend on its channel nor on the
   choices made at sum nodes, so all children of a sum node (the channels of its position) have one scope;
   with C17_each_pixel_once every root child has the full scope *)
Theorem C17_smooth : forall ch ch' ls c c' h w x y,
    count_px x y (leaves ch ls c h w) = count_px x y (leaves ch' ls c' h w).
Proof. exact scope_channel_free. Qed.

(* decomposability: at every product layer (iteration k) and every output position the (up to) four
   factors have pairwise disjoint scopes *)
Theorem C17_decomposable : forall g, admissible g ->
    forall (k : nat) h w, Z.of_nat k <= depth_of (cf_side g) ->
      0 <= h < l_outs (prod_at g k) -> 0 <= w < l_outs (prod_at g k) ->
      decomposable_at (prod_at g k) (s_ls (state_at g k)) h w
                      (fun x y => 0 <= x < cf_side g /\ 0 <= y < cf_side g).
Proof. exact adm_decomposable. Qed.

Section C17_eval.
  Variable T : Type.
  Variables (t0 t1 : T) (tadd tmul : T -> T -> T).
  Hypothesis SRth : semi_ring_theory t0 t1 tadd tmul (@eq T).

  (* a fully missing input has probability one (log-probability zero) at every class output — for every
     architecture (this needs normalised weights only) *)
  Theorem C17_all_missing_zero : forall g wt rw lf k,
      (forall c h w, lf c h w = t1) -> wnorm T t0 t1 tadd wt (s_ls (build g)) -> root_norm g T t0 t1 tadd rw k ->
      eval_root T t0 t1 tadd tmul wt lf rw (s_ls (build g)) (s_c (build g)) (s_side (build g)) k = t1.
  Proof. exact (sec_all_missing T t0 t1 tadd tmul SRth). Qed.

  (* each class output marginalises every pixel exactly: the sum over the values of pixel (px,py) of the
     output equals the output with that pixel missing (leaf families with a finite value list `dom`).
     Iterated over all pixels in C17_normalised. *)
  Theorem C17_class_marginal : forall g, admissible g ->
      forall wt rw (V : Type) (dom : list V) px py lfv lfm k,
        0 <= px < cf_side g -> 0 <= py < cf_side g ->
        (forall v c h w, (h =? px) && (w =? py) = false -> lfv v c h w = lfm c h w) ->
        (forall c, zsum T t0 tadd (map (fun v => lfv v c px py) dom) = lfm c px py) ->
        zsum T t0 tadd (map (fun v : V => eval_root T t0 t1 tadd tmul wt (lfv v) rw (s_ls (build g))
                                                   (s_c (build g)) (s_side (build g)) k) dom) =
        eval_root T t0 t1 tadd tmul wt lfm rw (s_ls (build g)) (s_c (build g)) (s_side (build g)) k.
  Proof. exact (sec_class_marginal T t0 t1 tadd tmul SRth). Qed.

  (* normalised density: for every admissible configuration, normalised sum/root weights and leaf tables
     `leaf c h w` over a finite value list `dom` whose values add up to the value used for a missing cell
     (= one), class output k summed over ALL assignments of all D x D pixels is one.
     (`sum_compl` nests one sum over `dom` per pixel of `pixels D`, Model/DgcAsg.v; `out` is `eval_root` on the
     base-layer outputs `lf_of leaf a` induced by the assignment.)  Real Gaussian leaves need integrals
     instead of finite sums: that step is not formalised (docs/notes_C17.md). *)
  Theorem C17_normalised : forall g, admissible g ->
      forall wt rw (V : Type) (dom : list V) (leaf : Z -> Z -> Z -> option V -> T) k,
        (forall c h w, zsum T t0 tadd (map (fun v => leaf c h w (Some v)) dom) = leaf c h w None) ->
        (forall c h w, leaf c h w None = t1) ->
        wnorm T t0 t1 tadd wt (s_ls (build g)) -> root_norm g T t0 t1 tadd rw k ->
        sum_compl V T t0 tadd dom (pixels (cf_side g))
                  (out g T t0 t1 tadd tmul wt rw V leaf k) (asg_none V) = t1.
  Proof. exact (fun g Hadm wt rw V dom leaf k Hl Hn => total_mass_one g Hadm T t0 t1 tadd tmul SRth wt rw V dom leaf Hl Hn k). Qed.

  (* the marginal of any duplicate-free set of missing pixels is the sum over their completions *)
  Theorem C17_marginal_completions : forall g, admissible g ->
      forall wt rw (V : Type) (dom : list V) (leaf : Z -> Z -> Z -> option V -> T) k,
        (forall c h w, zsum T t0 tadd (map (fun v => leaf c h w (Some v)) dom) = leaf c h w None) ->
        forall ps, NoDup ps ->
          (forall p, In p ps -> 0 <= fst p < cf_side g /\ 0 <= snd p < cf_side g) ->
          forall a, (forall p, In p ps -> a (fst p) (snd p) = None) ->
            sum_compl V T t0 tadd dom ps (out g T t0 t1 tadd tmul wt rw V leaf k) a =
            out g T t0 t1 tadd tmul wt rw V leaf k a.
  Proof. exact (fun g Hadm wt rw V dom leaf k Hl => iter_marg_pixels g Hadm T t0 t1 tadd tmul SRth wt rw V dom leaf Hl k). Qed.
End C17_eval.

(* mpe returns torch.where(isnan(x), estimate, x): an observed cell is returned unchanged (definitional on
   the model; the implementation is tied bitwise by the harness) *)
Theorem C17_mpe_keeps_observed : forall (A : Type) (v est : A), mpe_cell (Some v) est = v.
Proof. reflexivity. Qed.

(* why the property carries the divisibility premise: side 6 with two pooling layers is accepted by the
   constructor, and pixel (5,5) is in the scope of no root child *)
Theorem C17_indivisible_refuted :
  accepted g_indiv = true /\
  forall h w, In h (zrange (s_side (build g_indiv))) -> In w (zrange (s_side (build g_indiv))) ->
              use2 (s_ls (build g_indiv)) h w 5 5 = 0.
Proof. exact indivisible_refuted. Qed.

Print Assumptions C17_accepted_admissible.
Print Assumptions C17_sizes.
Print Assumptions C17_scope_interval.
Print Assumptions C17_each_pixel_once.
Print Assumptions C17_smooth.
Print Assumptions C17_decomposable.
Print Assumptions C17_all_missing_zero.
Print Assumptions C17_class_marginal.
Print Assumptions C17_normalised.
Print Assumptions C17_marginal_completions.
Print Assumptions C17_mpe_keeps_observed.
Print Assumptions C17_indivisible_refuted.
