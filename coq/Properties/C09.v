(* Properties/C09.v — pruning preserves the distribution, yields a normal form, and is idempotent. *)
From Coq Require Import List Arith ZArith Ring Bool QArith Qcanon.
From DV Require Import Model.Core Model.Leaves Model.QcInst Model.Prune Model.PruneRun
  Proofs.CoreFacts Proofs.PruneFacts Proofs.PruneNF Proofs.PruneValid Proofs.PruneExamples.
Import ListNotations.
Local Open Scope nat_scope.

Section C09.
  Variable T : Type.
  Variables (t0 t1 : T) (tadd tmul : T -> T -> T).
  Hypothesis SRth : semi_ring_theory t0 t1 tadd tmul (@eq T).
  Variable leaf : Type.
  Variable leaf_val : leaf -> row -> T.
  Let pst := prune_state T tadd tmul leaf.

  (* for every children-first table with normalised sums (any sharing, chains of single-child
     nodes, nested same-kind nodes, coinciding merged children), every old node i and EVERY row
     (complete or with missing cells): the image of i in the pruned table has the same value *)
  Theorem C09_preserves : forall t : table T leaf,
      wf T leaf t -> Forall (sum_norm T t0 t1 tadd leaf) t -> forall i, i < length t -> forall r,
      val T t0 t1 tadd tmul leaf leaf_val (fst (pst t)) (nth i (snd (pst t)) 0) r =
      val T t0 t1 tadd tmul leaf leaf_val t i r.
  Proof. exact (prune_preserves T t0 t1 tadd tmul SRth leaf leaf_val). Qed.

  (* the pruned table is again children-first with normalised sums, and the node map is total *)
  Theorem C09_output_wellformed : forall t : table T leaf,
      wf T leaf t -> Forall (sum_norm T t0 t1 tadd leaf) t ->
      wf T leaf (fst (pst t)) /\ Forall (sum_norm T t0 t1 tadd leaf) (fst (pst t)) /\
      length (snd (pst t)) = length t /\ forall i, i < length t -> nth i (snd (pst t)) 0 < length (fst (pst t)).
  Proof.
    intros t Hw Hn. destruct (prune_inv T t0 t1 tadd tmul SRth leaf leaf_val t Hw Hn) as [H1 H2 H3 H4 _].
    repeat split; assumption.
  Qed.

  (* normal form: EVERY node of the rebuilt table (hence every reachable one) has no single child, a
     sum has pairwise distinct children none of which is a sum, a product has no product child —
     for every children-first table whose leaves have no children, sums one weight per child and
     products at least one child (what check_spn guarantees) *)
  Theorem C09_normal_form : forall t : table T leaf,
      wf T leaf t -> Forall (shaped T leaf) t -> Forall (prod_nonempty T leaf) t ->
      NF T leaf (fst (pst t)) /\ wf T leaf (fst (pst t)).
  Proof.
    intros t Hw Hs Hp. destruct (prune_nf T tadd tmul leaf t Hw Hs Hp) as [_ _ H3 H4 _]. split; assumption.
  Qed.

  (* pruning a normal form changes nothing: the rebuild returns the same table and the identity map *)
  Theorem C09_nf_fixpoint : forall t : table T leaf, wf T leaf t ->
      (forall j, j < length t -> nfP T leaf t (nth j t (dummy_node T leaf))) ->
      pst t = (t, seq 0 (length t)).
  Proof. exact (prune_nf_fixpoint T t0 tadd tmul leaf). Qed.

  (* hence pruning again changes nothing *)
  Theorem C09_idempotent : forall t : table T leaf,
      wf T leaf t -> Forall (shaped T leaf) t -> Forall (prod_nonempty T leaf) t ->
      pst (fst (pst t)) = (fst (pst t), seq 0 (length (fst (pst t)))).
  Proof. exact (prune_idempotent T t0 tadd tmul leaf). Qed.

  (* the pruned table is a VALID circuit (children first, sums smooth, products decomposable, leaves as
     they were) whenever the input is, every old node is mapped to a node with the same scope, and the root
     keeps its scope — for every valid DAG *)
  Variable dom : nat -> list Z.
  Theorem C09_output_valid : forall t : table T leaf, valid T t0 tadd dom leaf leaf_val t ->
      valid T t0 tadd dom leaf leaf_val (fst (pst t)) /\
      length (snd (pst t)) = length t /\
      (forall i, i < length t -> nth i (snd (pst t)) 0 < length (fst (pst t)) /\
                 seteq (scope_of T leaf (fst (pst t)) (nth i (snd (pst t)) 0)) (scope_of T leaf t i)).
  Proof.
    intros t Hv. destruct (prune_valid T t0 tadd tmul dom leaf leaf_val t Hv) as [H1 H2 H3 H4].
    split; [exact H1|]. split; [exact H2|]. intros i Hi. split; [now apply H3 | now apply H4].
  Qed.
End C09.

(* the pinned defect (a sum left with one distinct child was kept) and the repaired behaviour on the same input *)
Theorem C09_pinned_nf_refuted :
  nf_b Qc qleaf (fst (qprune_pinned pr_t)) (snd (qprune_pinned pr_t)) = false /\ nreach (qprune_pinned pr_t) = 4.
Proof. exact prune_pinned_nf_refuted. Qed.
Theorem C09_nf_example :
  nf_b Qc qleaf (fst (qprune pr_t)) (snd (qprune pr_t)) = true /\
  nreach (qprune pr_t) = 3 /\ nreach (reprune (qprune pr_t)) = 3.
Proof. exact pr_fixed_nf. Qed.

Print Assumptions C09_preserves.
Print Assumptions C09_output_wellformed.
Print Assumptions C09_pinned_nf_refuted.
Print Assumptions C09_nf_example.
Print Assumptions C09_normal_form.
Print Assumptions C09_nf_fixpoint.
Print Assumptions C09_idempotent.
Print Assumptions C09_output_valid.
