(* Properties/C20.v — scikit-learn facade agrees with the circuit it wraps.
   Model: Model/Facade.v (NumPy shape rules, predict_log_proba in the linear domain, predict = MPE on
   the appended label column, pass-throughs).  All statements hold for every table, batch size,
   number of classes and row; numbers: any commutative semiring with a division law. *)
From Coq Require Import List Arith ZArith QArith Qcanon Ring Bool.
From DV Require Import Model.Core Model.Clt Model.Leaves Model.Mpe Model.MpeRun Model.QcInst
  Model.Facade Model.FacadeRun
  Proofs.CoreFacts Proofs.MpeFacts Proofs.FacadeFacts Proofs.FacadeExamples Pinned.FacadePinned.
Import ListNotations.
Local Open Scope nat_scope.

Section C20.
  Variable T : Type.
  Variables (t0 t1 : T) (tadd tmul : T -> T -> T) (tinv : T -> T).
  Hypothesis SRth : semi_ring_theory t0 t1 tadd tmul (@eq T).
  Hypothesis tinv_r : forall x, x <> t0 -> tmul x (tinv x) = t1.
  Variable sel : T -> T -> bool.
  Variable dom : nat -> list Z.
  Variable leaf : Type.
  Variable leaf_val : leaf -> row -> T.
  Variable leaf_fill : leaf -> row -> list (nat * Z).
  Let predict_proba := predict_proba T t0 t1 tadd tmul tinv leaf leaf_val.
  Let predict := predict T t0 t1 tadd tmul sel leaf leaf_val leaf_fill.
  Let joint := joint T t0 t1 tadd tmul leaf leaf_val.
  Let evidence := evidence T t0 t1 tadd tmul leaf leaf_val.
  Let val := val T t0 t1 tadd tmul leaf leaf_val.

  (* one row per sample, one column per class — for EVERY batch size (also = the class count) *)
  Theorem C20_shape : forall (t : table T leaf) nf X, clf T leaf t ->
      exists a, predict_proba t nf X = Some a /\ nr a = length X /\ nc a = length (class_ids T leaf t).
  Proof. exact (proba_shape T t0 t1 tadd tmul tinv leaf leaf_val). Qed.

  (* entry (i, c) = prior_c * value of class sub-circuit c on sample i (label missing), divided by
     the sum of these products over the classes *)
  Theorem C20_is_posterior : forall (t : table T leaf) nf X a, clf T leaf t -> predict_proba t nf X = Some a ->
      forall i c, i < length X -> c < length (class_ids T leaf t) ->
        at2 a i c = tmul (joint t c (drow nf (nth i X row_none)))
                         (tinv (evidence t (drow nf (nth i X row_none)))).
  Proof. exact (proba_entry T t0 t1 tadd tmul tinv leaf leaf_val). Qed.

  (* the normaliser is the value of the whole wrapped circuit on the sample with the label missing *)
  Theorem C20_normaliser_is_circuit_value : forall (t : table T leaf) n d, clf T leaf (t ++ [n]) ->
      Forall (fun k => k < length t) (nkids n) ->
      evidence (t ++ [n]) d = root_val T t0 t1 tadd tmul leaf leaf_val (t ++ [n]) d.
  Proof. exact (evidence_is_root_val T t0 t1 tadd tmul leaf leaf_val). Qed.

  Theorem C20_rows_sum_one : forall (t : table T leaf) nf X a, clf T leaf t -> predict_proba t nf X = Some a ->
      forall i, i < length X -> evidence t (drow nf (nth i X row_none)) <> t0 ->
        row_sum T t0 tadd a i = t1.
  Proof. exact (proba_rows_sum_one T t0 t1 tadd tmul tinv SRth tinv_r leaf leaf_val). Qed.

  (* class prediction = class of the largest entry of the row (first maximum, as np.argmax), given
     that every class branch completes the label with its own class and that dividing by the
     evidence keeps comparisons (ordered field, positive evidence: C20_predict_is_argmax_Qc) *)
  Theorem C20_predict_is_argmax : forall (t : table T leaf) n nf X a (cls : nat -> Z),
      clf T leaf (t ++ [n]) -> nkids n <> [] -> Forall (fun k => k < length t) (nkids n) ->
      predict_proba (t ++ [n]) nf X = Some a ->
      forall i, i < length X ->
        let d := drow nf (nth i X row_none) in
        (forall c, c < length (nkids n) ->
           mpe_at T t0 t1 tadd tmul sel leaf leaf_val leaf_fill (t ++ [n]) (nth c (nkids n) 0) d nf = Some (cls c)) ->
        (forall x y, sel (tmul x (tinv (evidence (t ++ [n]) d))) (tmul y (tinv (evidence (t ++ [n]) d))) = sel x y) ->
        nth i (predict (t ++ [n]) nf X) None = Some (cls (argmax T sel (nth i (to_lists T a) []))).
  Proof. exact (predict_is_argmax T t0 t1 tadd tmul tinv sel leaf leaf_val leaf_fill). Qed.

  (* a missing feature (or the missing label) is summed out of every class score *)
  Theorem C20_missing_marginalised : forall (t : table T leaf) c d v,
      valid T t0 tadd dom leaf leaf_val t -> nth c (class_ids T leaf t) 0 < length t ->
      In v (scope_of T leaf t (nth c (class_ids T leaf t) 0)) -> d v = None ->
      joint t c d = sumT T t0 tadd (map (fun x => joint t c (upd d v (Some x))) (dom v)).
  Proof. exact (joint_marg1 T t0 t1 tadd tmul SRth dom leaf leaf_val). Qed.

  Theorem C20_missing_marginalised_all : forall (t : table T leaf) c d vs,
      valid T t0 tadd dom leaf leaf_val t -> nth c (class_ids T leaf t) 0 < length t -> NoDup vs ->
      (forall v, In v vs -> In v (scope_of T leaf t (nth c (class_ids T leaf t) 0)) /\ d v = None) ->
      joint t c d = tmul (nth c (root_ws T leaf t) t0)
                         (sum_compl T t0 tadd dom vs (val t (nth c (class_ids T leaf t) 0)) d).
  Proof. exact (joint_marg T t0 t1 tadd tmul SRth dom leaf leaf_val). Qed.

  (* one prediction per sample; the MPE call behind predict leaves the given features untouched *)
  Theorem C20_predict_rows : forall (t : table T leaf) nf X, length (predict t nf X) = length X.
  Proof. exact (predict_length T t0 t1 tadd tmul sel leaf leaf_val leaf_fill). Qed.

  Theorem C20_predict_keeps_features : forall (t : table T leaf) nf X i v x,
      fill_missing_only leaf leaf_fill -> i < length X -> v <> nf -> nth i X row_none v = Some x ->
      mpe_row T t0 t1 tadd tmul sel leaf leaf_val leaf_fill t (drow nf (nth i X row_none)) v = Some x.
  Proof. exact (predict_keeps_features T t0 t1 tadd tmul sel leaf leaf_val leaf_fill). Qed.

  (* the pinned variant broadcasts only for a square batch (or a single class / sample) ... *)
  Theorem C20_pinned_needs_square : forall (t : table T leaf) nf X a, clf T leaf t ->
      predict_proba_pinned T t0 t1 tadd tmul tinv leaf leaf_val t nf X = Some a ->
      length (class_ids T leaf t) = length X \/ length (class_ids T leaf t) = 1 \/ length X = 1.
  Proof. exact (pinned_needs_square T t0 t1 tadd tmul tinv leaf leaf_val). Qed.

  (* ... and then row = class, column = sample: prior j is paired with sample j, normalised over samples *)
  Theorem C20_pinned_square_entry : forall (t : table T leaf) nf X a, clf T leaf t ->
      length X = length (class_ids T leaf t) ->
      predict_proba_pinned T t0 t1 tadd tmul tinv leaf leaf_val t nf X = Some a ->
      nr a = length X /\ nc a = length X /\
      forall i j, i < length X -> j < length X ->
        at2 a i j = tmul (tmul (nth j (root_ws T leaf t) t0)
                               (val t (nth i (class_ids T leaf t) 0) (drow nf (nth j X row_none))))
                         (tinv (sumT T t0 tadd
                            (map (fun j' => tmul (nth j' (root_ws T leaf t) t0)
                                                 (val t (nth i (class_ids T leaf t) 0) (drow nf (nth j' X row_none))))
                                 (seq 0 (length X))))).
  Proof. exact (pinned_square_entry T t0 t1 tadd tmul tinv leaf leaf_val). Qed.
End C20.

(* the inputs handed to the core sampler have the requested number of rows, all-missing features,
   and (conditional sampling of the classifier) the given labels *)
Theorem C20_sample_inputs_rows : forall n,
    length (sample_inputs n) = n /\ forall r v, In r (sample_inputs n) -> r v = None.
Proof. exact sample_inputs_rows. Qed.
Theorem C20_sample_inputs_labels : forall nf ys, length (sample_inputs_y nf ys) = length ys /\
    forall i, i < length ys -> nth i (sample_inputs_y nf ys) row_none nf = Some (nth i ys 0%Z).
Proof. exact sample_inputs_y_rows. Qed.

(* exact rationals, the code's argmax (first maximum): positivity of the evidence is all that is needed *)
Theorem C20_predict_is_argmax_Qc : forall (t : qtable) n nf X a (cls : nat -> Z),
    clf Qc qleaf (t ++ [n]) -> nkids n <> [] -> Forall (fun k => k < length t) (nkids n) ->
    qproba (t ++ [n]) nf X = Some a ->
    forall i, i < length X ->
      let d := drow nf (nth i X row_none) in
      (forall c, c < length (nkids n) -> qmpe_at sel_first (t ++ [n]) (nth c (nkids n) 0) d nf = Some (cls c)) ->
      (0 < qroot (t ++ [n]) d)%Qc ->
      nth i (qpredict sel_first (t ++ [n]) nf X) None = Some (cls (argmax Qc sel_first (nth i (qlists a) []))).
Proof. exact predict_is_argmax_Qc. Qed.

Theorem C20_broadcast_pinned_refuted :
  qproba_pinned fx_t 2 pin_X7 = None /\ shape (qproba fx_t 2 pin_X7) = Some (7, 3) /\
  option_map (fun a => map this (nth 0 (qlists a) [])) (qproba_pinned fx_t 2 fx_X3) = Some [3 # 8; 1 # 8; 1 # 2]%Q /\
  option_map (fun a => map this (nth 0 (qlists a) [])) (qproba fx_t 2 fx_X3) = Some [8 # 11; 1 # 33; 8 # 33]%Q /\
  shape (qproba_pinned fx_t 2 [mkrow [S_ 1; S_ 0]%Z]) = Some (3, 3) /\
  shape (qproba fx_t 2 [mkrow [S_ 1; S_ 0]%Z]) = Some (1, 3).
Proof. exact broadcast_pinned_refuted. Qed.

Print Assumptions C20_shape.
Print Assumptions C20_is_posterior.
Print Assumptions C20_normaliser_is_circuit_value.
Print Assumptions C20_rows_sum_one.
Print Assumptions C20_predict_is_argmax.
Print Assumptions C20_missing_marginalised.
Print Assumptions C20_missing_marginalised_all.
Print Assumptions C20_predict_rows.
Print Assumptions C20_predict_keeps_features.
Print Assumptions C20_pinned_needs_square.
Print Assumptions C20_pinned_square_entry.
Print Assumptions C20_sample_inputs_rows.
Print Assumptions C20_sample_inputs_labels.
Print Assumptions C20_predict_is_argmax_Qc.
Print Assumptions C20_broadcast_pinned_refuted.
