(* Properties/C03.v — validation accepts exactly the smooth, decomposable, well-labelled circuits. *)
From Coq Require Import List Arith Bool ZArith Ring.
From DV Require Import Model.Core Model.Heap Proofs.CoreFacts Proofs.HeapFacts Proofs.HeapTable Proofs.BfsFacts.
Import ListNotations.

(* accept <-> ids are unique and exactly {0..n-1}; every sum has as many weights as children, at
   least one child and children with exactly its scope; every product has at least one child and
   children with duplicate-free, pairwise disjoint scopes whose union is its scope *)
Theorem C03_iff : forall (h : heap) (nodes : list obj), nodes <> [] ->
    (check_nodes h nodes true true true = Accept <->
     labeled_spec nodes /\ smooth_spec h nodes /\ decomp_spec h nodes).
Proof. exact check_nodes_iff. Qed.

Theorem C03_labeled_iff : forall nodes, nodes <> [] -> (labeled_b nodes = true <-> labeled_spec nodes).
Proof. exact labeled_iff. Qed.
Theorem C03_smooth_iff : forall h nodes, forallb (smooth_node h) nodes = true <-> smooth_spec h nodes.
Proof. exact smooth_iff. Qed.
Theorem C03_decomp_iff : forall h nodes, forallb (decomp_node h) nodes = true <-> decomp_spec h nodes.
Proof. exact decomp_iff. Qed.

(* the traversal behind collect_nodes visits exactly the objects reachable from the root, each once,
   on every closed object graph (cycles, sharing): validation looks at the whole reachable circuit *)
Theorem C03_bfs_complete : forall (h : heap) root, closed h -> root < length h ->
    NoDup (bfs h root) /\ forall x, In x (bfs h root) <-> reach h root x.
Proof. exact bfs_complete. Qed.

Theorem C03_context_flag_off : forall h root a b c, check_spn false h root a b c = Accept.
Proof. exact check_disabled. Qed.

Section C03_sound.
  Variable T : Type.
  Variables (t0 t1 : T) (tadd tmul : T -> T -> T).
  Hypothesis SRth : semi_ring_theory t0 t1 tadd tmul (@eq T).
  Variable dom : nat -> list Z.
  Variable leaf : Type.
  Variable leaf_val : leaf -> row -> T.
  (* an acyclic circuit accepted by the code's smooth/decomposable checks, with normalised weights
     and leaves, sums to one over its domain *)
  Theorem C03_sound_normalised : forall t : table T leaf,
      children_first T leaf 0 t ->
      forallb (smooth_node (heap_of T leaf t)) (heap_of T leaf t) = true ->
      forallb (decomp_node (heap_of T leaf t)) (heap_of T leaf t) = true ->
      Forall (leaf_obl T t0 tadd dom leaf leaf_val) t -> normalised T t0 t1 tadd leaf leaf_val t ->
      forall i, i < length t -> NoDup (scope_of T leaf t i) ->
      sum_compl T t0 tadd dom (scope_of T leaf t i) (val T t0 t1 tadd tmul leaf leaf_val t i) row_none = t1.
  Proof. exact (accepted_normalised_mass_one T t0 t1 tadd tmul SRth dom leaf leaf_val). Qed.
End C03_sound.

(* the pinned (pre-fix) decomposability test accepted an overlapping product *)
Theorem C03_pinned_refuted :
  forallb (decomp_node_pinned pinned_heap) (collect_nodes pinned_heap 0) = true /\
  forallb (decomp_node pinned_heap) (collect_nodes pinned_heap 0) = false.
Proof. exact decomp_pinned_refuted. Qed.

Print Assumptions C03_iff.
Print Assumptions C03_labeled_iff.
Print Assumptions C03_smooth_iff.
Print Assumptions C03_decomp_iff.
Print Assumptions C03_bfs_complete.
Print Assumptions C03_context_flag_off.
Print Assumptions C03_sound_normalised.
Print Assumptions C03_pinned_refuted.
