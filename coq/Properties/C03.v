(* Properties/C03.v — validation accepts exactly the smooth, decomposable, well-labelled circuits. *)
From Coq Require Import List Arith Bool ZArith Ring.
From DV Require Import Model.Core Model.Heap Proofs.CoreFacts Proofs.HeapFacts Proofs.HeapTable Proofs.BfsFacts Model.Gate Proofs.GateFacts.
Import ListNotations.

(* accept <-> ids are unique and exactly {0..n-1}; every sum has as many weights as children, at
   least one child and children with exactly its scope; every product has at least one child and
   children with duplicate-free, pairwise disjoint scopes whose union is its scope *)
Theorem C03_iff : forall (h : heap) (nodes : list obj), nodes <> [] ->
    (check_nodes h nodes true true true = Accept <->
     labeled_spec nodes /\ smooth_spec h nodes /\ decomp_spec h nodes).
Proof. exact check_nodes_iff. Qed.

Theorem C03_labeled_iff : forall nodes, nodes <> [] -> (labeled_b nodes = true <-> labeled_spec nodes).
Proof. exact labeled_iff. Qed.
Theorem C03_smooth_iff : forall h nodes, forallb (smooth_node h) nodes = true <-> smooth_spec h nodes.
Proof. exact smooth_iff. Qed.
Theorem C03_decomp_iff : forall h nodes, forallb (decomp_node h) nodes = true <-> decomp_spec h nodes.
Proof. exact decomp_iff. Qed.

(* the traversal behind collect_nodes visits exactly the objects reachable from the root, each once,
   on every closed object graph (cycles, sharing): validation looks at the whole reachable circuit *)
Theorem C03_bfs_complete : forall (h : heap) root, closed h -> root < length h ->
    NoDup (bfs h root) /\ forall x, In x (bfs h root) <-> reach h root x.
Proof. exact bfs_complete. Qed.

Theorem C03_context_flag_off : forall h root a b c, check_spn false h root a b c = Accept.
Proof. exact check_disabled. Qed.

(* the flag that disables the gate (deeprob/context.py) is restored by EVERY well-bracketed history of context
   blocks — `with` blocks and decorated calls, nested arbitrarily, each left normally or by an exception: the
   state after the history is the state before it, and every query made outside all blocks sees the gate
   enabled; hence after any number of completed (possibly failed) operations the next circuit is validated *)
Theorem C03_gate_restored : forall l f0, balanced l -> fst (grun (ginit f0) l) = ginit f0.
Proof. exact gate_restored. Qed.
Theorem C03_gate_enabled_outside_blocks : forall l, balanced l ->
    forall f, In (0, f) (snd (grun (ginit default_flags) l)) -> f_spn f = true /\ f_dtype f = true.
Proof. exact gate_enabled_outside_blocks. Qed.
Theorem C03_gate_histories : forall ls, Forall balanced ls ->
    fst (grun (ginit default_flags) (concat ls)) = ginit default_flags.
Proof. exact gate_histories. Qed.

Section C03_sound.
  Variable T : Type.
  Variables (t0 t1 : T) (tadd tmul : T -> T -> T).
  Hypothesis SRth : semi_ring_theory t0 t1 tadd tmul (@eq T).
  Variable dom : nat -> list Z.
  Variable leaf : Type.
  Variable leaf_val : leaf -> row -> T.
  (* an acyclic circuit accepted by the code's smooth/decomposable checks, with normalised weights
     and leaves, sums to one over its domain *)
  Theorem C03_sound_normalised : forall t : table T leaf,
      children_first T leaf 0 t ->
      forallb (smooth_node (heap_of T leaf t)) (heap_of T leaf t) = true ->
      forallb (decomp_node (heap_of T leaf t)) (heap_of T leaf t) = true ->
      Forall (leaf_obl T t0 tadd dom leaf leaf_val) t -> normalised T t0 t1 tadd leaf leaf_val t ->
      forall i, i < length t -> NoDup (scope_of T leaf t i) ->
      sum_compl T t0 tadd dom (scope_of T leaf t i) (val T t0 t1 tadd tmul leaf leaf_val t i) row_none = t1.
  Proof. exact (accepted_normalised_mass_one T t0 t1 tadd tmul SRth dom leaf leaf_val). Qed.
End C03_sound.

(* the pinned (pre-fix) decomposability test accepted an overlapping product *)
Theorem C03_pinned_refuted :
  forallb (decomp_node_pinned pinned_heap) (collect_nodes pinned_heap 0) = true /\
  forallb (decomp_node pinned_heap) (collect_nodes pinned_heap 0) = false.
Proof. exact decomp_pinned_refuted. Qed.

Print Assumptions C03_iff.
Print Assumptions C03_labeled_iff.
Print Assumptions C03_smooth_iff.
Print Assumptions C03_decomp_iff.
Print Assumptions C03_bfs_complete.
Print Assumptions C03_context_flag_off.
Print Assumptions C03_sound_normalised.
Print Assumptions C03_pinned_refuted.
Print Assumptions C03_gate_restored.
Print Assumptions C03_gate_enabled_outside_blocks.
Print Assumptions C03_gate_histories.
