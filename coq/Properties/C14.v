(* Properties/C14.v — EM keeps the model valid and applies the expected-statistics update.
   Model: Model/Em.v (linear domain).  All statements are for lists / tables / iteration counts of
   ANY size.  Order-dependent statements are over the ordered field Qc; the structural statement is for
   any number type.  NOT proved (see docs/notes_C14.md): that the backward pass `grads` is the derivative
   of the root value w.r.t. every node value (C14_grad_affine of DESIGN.md) — only the sum-to-one identity
   C14_resp_partial is; Categorical simplex preservation; the sign of re-estimated CLT entries; the
   non-negativity of the forward / backward values is a hypothesis of C14_iter_valid_partial. *)
From Coq Require Import List Arith ZArith QArith Qcanon Bool.
From DV Require Import Model.Core Model.Clt Model.Leaves Model.Em Proofs.EmFacts.
Import ListNotations.
Local Open Scope Qc_scope.

(* Sum.em_step: weights on the simplex + ANY non-negative statistics + ANY 0 < eta < 1 (+ eps > 0)
   -> the result IS (1-eta)*old + eta*re-estimate, is on the simplex and has the same length. *)
Theorem C14_sum_simplex : forall eps eta : Qc, 0 < eps -> 0 < eta -> eta < 1 ->
  forall ws ss, nonneg ws -> sumT Qc 0 Qcplus ws = 1 -> nonneg ss -> length ss = length ws ->
  let ws' := sum_step Qc 0 1 Qcplus Qcmult Qcminus Qcdiv eps eta ws ss in
  ws' = zipw (fun w e => (1 - eta) * w + eta * e) ws (sum_reest Qc 0 Qcplus Qcmult Qcdiv eps ws ss) /\
  nonneg ws' /\ sumT Qc 0 Qcplus ws' = 1 /\ length ws' = length ws.
Proof. exact sum_step_simplex. Qed.

(* Bernoulli.em_step: p in [0,1], non-negative statistics, binary data -> the new p IS the convex
   combination with the smoothed weighted frequency and lies strictly inside (0,1). *)
Theorem C14_bern_domain : forall (alpha eta : Qc) (tofz : Z -> Qc), 0 < alpha -> 0 < eta -> eta < 1 ->
  tofz 0%Z = 0 -> tofz 1%Z = 1 ->
  forall p st xs, 0 <= p -> p <= 1 -> nonneg st -> Forall (fun x => x = 0%Z \/ x = 1%Z) xs ->
  let p' := mix Qc 1 Qcplus Qcmult Qcminus eta p (bern_reest Qc 0 1 Qcplus Qcmult Qcdiv tofz alpha st xs) in
  p' = (1 - eta) * p + eta * ((dotT Qc 0 Qcplus Qcmult st (map tofz xs) + alpha) / (sumT Qc 0 Qcplus st + (1 + 1) * alpha)) /\
  0 < p' /\ p' < 1.
Proof. exact bern_step_domain. Qed.

(* Gaussian.em_step: for ANY square-root function, any statistics and data, the new mean and stddev
   ARE the convex combinations and the stddev stays positive (re-estimate >= floor > 0). *)
Theorem C14_gauss_sigma_pos : forall (eps floor eta : Qc) (tsqrt : Qc -> Qc), 0 < floor -> 0 < eta -> eta < 1 ->
  forall m sd st xs, 0 < sd ->
  let e := gauss_reest Qc 0 Qcplus Qcmult Qcminus Qcdiv qleb' tsqrt eps floor st xs in
  let m' := mix Qc 1 Qcplus Qcmult Qcminus eta m (fst e) in
  let sd' := mix Qc 1 Qcplus Qcmult Qcminus eta sd (snd e) in
  m' = (1 - eta) * m + eta * fst e /\ sd' = (1 - eta) * sd + eta * snd e /\ floor <= snd e /\ 0 < sd'.
Proof. exact gauss_step_sigma_pos. Qed.

(* BinaryCLT.em_step: if every row of every CPT sums to one, so does every row afterwards (for any
   statistics, data, alpha, eta); scope and tree are untouched.  PARTIAL: entries >= 0 is not proved. *)
Theorem C14_clt_rows_normalised_partial : forall (alpha eta : Qc) (tofz : Z -> Qc) c st rows,
  Forall (Forall row_norm) (cparams c) ->
  let c' := clt_step Qc 0 1 Qcplus Qcmult Qcminus Qcdiv tofz alpha eta c st rows in
  Forall (Forall row_norm) (cparams c') /\ cscope c' = cscope c /\ cpar c' = cpar c.
Proof. exact clt_step_rows_normalised. Qed.

(* Structure: for ANY number type and operations, any sequence of batches (any number of iterations),
   every node keeps its kind, variable(s), categories, tree, scope and children. *)
Theorem C14_structure_fixed : forall (T : Type) (t0 t1 : T) (tadd tmul tsub tdiv : T -> T -> T)
  (tleb : T -> T -> bool) (tsqrt : T -> T) (tofz : Z -> T) (eps32 alpha sdfloor : T)
  (xval : nat -> Z -> T) (gdens : T -> T -> nat -> Z -> T) (eta : T) (bs : list (list row)) (t : etable T),
  let t' := em_iters T t0 t1 tadd tmul tsub tdiv tleb tsqrt tofz eps32 alpha sdfloor xval gdens eta t bs in
  map (shape_of T) t' = map (shape_of T) t /\ length t' = length t.
Proof.
  intros. split; [apply em_iters_shape | apply em_iters_length].
Qed.

(* n iterations (induction on the list of batches): sum weights stay on the simplex, Bernoulli
   parameters in [0,1], Gaussian stddevs positive, CLT rows normalised.  PARTIAL: `steps_ok` asks that in
   every iteration the forward values, backward values and root value on the batch are >= 0 (they are
   for valid parameters; not proved) and that Bernoulli cells are 0/1; Categorical leaves are not covered. *)
Theorem C14_iter_valid_partial : forall (eps alpha floor eta : Qc) (tsqrt : Qc -> Qc) (tofz : Z -> Qc)
  (xval : nat -> Z -> Qc) (gdens : Qc -> Qc -> nat -> Z -> Qc),
  0 < eps -> 0 < alpha -> 0 < floor -> 0 < eta -> eta < 1 -> tofz 0%Z = 0 -> tofz 1%Z = 1 ->
  forall (bvars : list nat) (bs : list (list row)) (t : etable Qc),
  Forall (node_inv bvars) t -> steps_ok eps alpha floor eta tsqrt tofz xval gdens bvars t bs ->
  Forall (node_inv bvars)
    (em_iters Qc 0 1 Qcplus Qcmult Qcminus Qcdiv qleb' tsqrt tofz eps alpha floor xval gdens eta t bs).
Proof.
  intros eps alpha floor eta tsqrt tofz xval gdens He Ha Hf H0 H1 Z0 Z1 bvars bs t.
  exact (em_iters_inv eps alpha floor eta tsqrt tofz xval gdens He Ha Hf H0 H1 Z0 Z1 bvars bs t).
Qed.

(* Responsibilities of a sum node: sum_k w_k * (v_k * g / r) = (sum_k w_k v_k) * g / r, and at the
   root (g = 1, r = own value <> 0) they sum to one.  PARTIAL: `grads` = derivative is not proved. *)
Theorem C14_resp_partial : forall ws vs g r : _,
  dotT Qc 0 Qcplus Qcmult ws (map (fun v => v * g / r) vs) = dotT Qc 0 Qcplus Qcmult ws vs * g / r /\
  (dotT Qc 0 Qcplus Qcmult ws vs <> 0 ->
   dotT Qc 0 Qcplus Qcmult ws (map (fun v => v * 1 / dotT Qc 0 Qcplus Qcmult ws vs) vs) = 1).
Proof. intros. split; [apply resp_sum | apply resp_root_one]. Qed.

Print Assumptions C14_sum_simplex.
Print Assumptions C14_bern_domain.
Print Assumptions C14_gauss_sigma_pos.
Print Assumptions C14_clt_rows_normalised_partial.
Print Assumptions C14_structure_fixed.
Print Assumptions C14_iter_valid_partial.
Print Assumptions C14_resp_partial.
