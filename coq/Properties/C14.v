(* Properties/C14.v — EM keeps the model valid and applies the expected-statistics update.
   Model: Model/Em.v (linear domain).  All statements are for lists / tables / iteration counts of
   ANY size.  Order-dependent statements are over the ordered field Qc; the structural statement and
   the gradient statement are for any number type (commutative semiring + cancelling division).
   Scope of the statements: complete data whose cells fit the leaves (`data_ok`), and — for the
   gradient — rows on which every node value is non-zero (the code divides by child values). *)
From Coq Require Import List Arith ZArith QArith Qcanon Bool Ring.
From DV Require Import Model.Core Model.Clt Model.Leaves Model.Em Proofs.CoreFacts Proofs.EmFacts Proofs.EmGrad Proofs.EmWeight.
Import ListNotations.
Local Open Scope Qc_scope.

(* Sum.em_step: weights on the simplex + ANY non-negative statistics + ANY 0 < eta < 1 (+ eps > 0)
   -> the result IS (1-eta)*old + eta*re-estimate, is on the simplex and has the same length. *)
Theorem C14_sum_simplex : forall eps eta : Qc, 0 < eps -> 0 < eta -> eta < 1 ->
  forall ws ss, nonneg ws -> sumT Qc 0 Qcplus ws = 1 -> nonneg ss -> length ss = length ws ->
  let ws' := sum_step Qc 0 1 Qcplus Qcmult Qcminus Qcdiv eps eta ws ss in
  ws' = zipw (fun w e => (1 - eta) * w + eta * e) ws (sum_reest Qc 0 Qcplus Qcmult Qcdiv eps ws ss) /\
  nonneg ws' /\ sumT Qc 0 Qcplus ws' = 1 /\ length ws' = length ws.
Proof. exact sum_step_simplex. Qed.

(* Bernoulli.em_step: p in [0,1], non-negative statistics, binary data -> the new p IS the convex
   combination with the smoothed weighted frequency and lies strictly inside (0,1). *)
Theorem C14_bern_domain : forall (alpha eta : Qc) (tofz : Z -> Qc), 0 < alpha -> 0 < eta -> eta < 1 ->
  tofz 0%Z = 0 -> tofz 1%Z = 1 ->
  forall p st xs, 0 <= p -> p <= 1 -> nonneg st -> Forall (fun x => x = 0%Z \/ x = 1%Z) xs ->
  let p' := mix Qc 1 Qcplus Qcmult Qcminus eta p (bern_reest Qc 0 1 Qcplus Qcmult Qcdiv tofz alpha st xs) in
  p' = (1 - eta) * p + eta * ((dotT Qc 0 Qcplus Qcmult st (map tofz xs) + alpha) / (sumT Qc 0 Qcplus st + (1 + 1) * alpha)) /\
  0 < p' /\ p' < 1.
Proof. exact bern_step_domain. Qed.

(* Categorical.em_step: probabilities on the simplex (one per category, categories duplicate-free),
   non-negative statistics (one per data cell), every data cell a category -> the new vector IS the
   convex combination with the smoothed weighted frequencies and is on the simplex. *)
Theorem C14_cat_simplex : forall (alpha eta : Qc) (tofz : Z -> Qc), 0 < alpha -> 0 < eta -> eta < 1 ->
  tofz 0%Z = 0 -> (forall n, tofz (Z.of_nat (S n)) = 1 + tofz (Z.of_nat n)) ->
  forall cats ps st xs, nonneg ps -> sumT Qc 0 Qcplus ps = 1 -> length ps = length cats ->
  nonneg st -> length xs = length st -> NoDup cats -> Forall (fun x => In x cats) xs ->
  let e := cat_reest Qc 0 Qcplus Qcmult Qcdiv tofz alpha st xs cats in
  let ps' := zipw (mix Qc 1 Qcplus Qcmult Qcminus eta) ps e in
  ps' = zipw (fun p e => (1 - eta) * p + eta * e) ps e /\
  nonneg ps' /\ sumT Qc 0 Qcplus ps' = 1 /\ length ps' = length ps.
Proof. exact cat_step_simplex. Qed.

(* Gaussian.em_step: for ANY square-root function, any statistics and data, the new mean and stddev
   ARE the convex combinations and the stddev stays positive (re-estimate >= floor > 0). *)
Theorem C14_gauss_sigma_pos : forall (eps floor eta : Qc) (tsqrt : Qc -> Qc), 0 < floor -> 0 < eta -> eta < 1 ->
  forall m sd st xs, 0 < sd ->
  let e := gauss_reest Qc 0 Qcplus Qcmult Qcminus Qcdiv qleb' tsqrt eps floor st xs in
  let m' := mix Qc 1 Qcplus Qcmult Qcminus eta m (fst e) in
  let sd' := mix Qc 1 Qcplus Qcmult Qcminus eta sd (snd e) in
  m' = (1 - eta) * m + eta * fst e /\ sd' = (1 - eta) * sd + eta * snd e /\ floor <= snd e /\ 0 < sd'.
Proof. exact gauss_step_sigma_pos. Qed.

(* BinaryCLT.em_step: every CPT row [a; b] with a + b = 1, a >= 0, b >= 0 (row_norm) stays such a row,
   for any non-negative statistics and binary data, any well-formed predecessor vector (clt_wf: one
   entry per variable, parents inside the tree); scope and tree are untouched. *)
Theorem C14_clt_rows_normalised : forall (alpha eta : Qc) (tofz : Z -> Qc), 0 < alpha -> 0 < eta -> eta < 1 ->
  tofz 0%Z = 0 -> tofz 1%Z = 1 ->
  forall c st rows, nonneg st -> clt_wf c ->
  Forall (fun r => forall i, (i < length (cscope c))%nat -> cell Qc c r i = 0%Z \/ cell Qc c r i = 1%Z) rows ->
  Forall (Forall row_norm) (cparams c) ->
  let c' := clt_step Qc 0 1 Qcplus Qcmult Qcminus Qcdiv tofz alpha eta c st rows in
  Forall (Forall row_norm) (cparams c') /\ cscope c' = cscope c /\ cpar c' = cpar c.
Proof. exact clt_step_rows_normalised. Qed.

(* Structure: for ANY number type and operations, any sequence of batches (any number of iterations),
   every node keeps its kind, variable(s), categories, tree, scope and children. *)
Theorem C14_structure_fixed : forall (T : Type) (t0 t1 : T) (tadd tmul tsub tdiv : T -> T -> T)
  (tleb : T -> T -> bool) (tsqrt : T -> T) (tofz : Z -> T) (eps32 alpha sdfloor : T)
  (xval : nat -> Z -> T) (gdens : T -> T -> nat -> Z -> T) (eta : T) (bs : list (list row)) (t : etable T),
  let t' := em_iters T t0 t1 tadd tmul tsub tdiv tleb tsqrt tofz eps32 alpha sdfloor xval gdens eta t bs in
  map (shape_of T) t' = map (shape_of T) t /\ length t' = length t.
Proof.
  intros. split; [apply em_iters_shape | apply em_iters_length].
Qed.

(* n iterations (induction on the list of batches, any n, any batches): sum weights stay on the simplex
   (one per child), Bernoulli parameters in [0,1], Categorical probabilities on the simplex, Gaussian
   stddevs positive, every CLT row a distribution — provided only that the constants are positive, the
   Gaussian density oracle is non-negative and every data row fits the leaves (complete binary cells for
   Bernoulli / CLT variables, a category for Categorical ones).  The non-negativity of the forward values,
   the backward values and hence of all statistics is PROVED from the parameter invariant. *)
Theorem C14_iter_valid : forall (eps alpha floor eta : Qc) (tsqrt : Qc -> Qc) (tofz : Z -> Qc)
  (xval : nat -> Z -> Qc) (gdens : Qc -> Qc -> nat -> Z -> Qc),
  0 < eps -> 0 < alpha -> 0 < floor -> 0 < eta -> eta < 1 ->
  tofz 0%Z = 0 -> tofz 1%Z = 1 -> (forall n, tofz (Z.of_nat (S n)) = 1 + tofz (Z.of_nat n)) ->
  (forall m sd v c, 0 <= gdens m sd v c) ->
  forall (bs : list (list row)) (t : etable Qc),
  Forall node_inv t -> Forall (data_ok t) bs ->
  Forall node_inv
    (em_iters Qc 0 1 Qcplus Qcmult Qcminus Qcdiv qleb' tsqrt tofz eps alpha floor xval gdens eta t bs).
Proof.
  intros eps alpha floor eta tsqrt tofz xval gdens He Ha Hf H0 H1 Z0 Z1 ZS Hg bs t.
  exact (em_iters_inv eps alpha floor eta tsqrt tofz xval gdens He Ha Hf H0 H1 Z0 Z1 ZS Hg bs t).
Qed.

(* The backward pass computes the derivative of the root value w.r.t. every node value — stated without
   calculus: `root_with t i x r` is the root value when the value of node i is replaced by x.  On every
   valid (smooth, decomposable, children-first) table — DAGs included: gradients of shared nodes are summed
   over all parents — for every node i whose scope is non-empty and every row on which all node values are
   non-zero, the root is AFFINE in x with slope g_i = nth i (grads ...), and putting the node's own value
   back gives the root value.  Hence the statistics used by em_iter,
       leaf_stat i = v_i * g_i / root,   edge_stat i k = v_k * g_i / root   (times w_k in Sum.em_step),
   are (value x derivative of the root) / root, i.e. the posterior responsibilities.
   Number type: any commutative semiring with a division that cancels a non-zero right factor. *)
Theorem C14_grad_affine : forall (T : Type) (t0 t1 : T) (tadd tmul tsub tdiv : T -> T -> T),
  semi_ring_theory t0 t1 tadd tmul (@eq T) ->
  (forall a b, b <> t0 -> tdiv (tmul a b) b = a) ->
  forall (dom : nat -> list Z) (gdens : T -> T -> nat -> Z -> T) (t : etable T) (r : row) (i v0 : nat),
  let lv := eleaf_val T t0 t1 tadd tmul tsub gdens in
  let vs := evals T t0 t1 tadd tmul tsub gdens t r in
  let g := nth i (grads T t0 t1 tadd tmul tdiv t vs) t0 in
  let ri := mk_rinfo T t0 t1 tadd tmul tsub tdiv gdens t r in
  valid T t0 tadd dom (eleaf T) lv t -> (i < length t)%nat -> In v0 (scope_of T (eleaf T) t i) ->
  (forall j, (j < length t)%nat -> nth j vs t0 <> t0) ->
  (forall x, root_with T t0 t1 tadd tmul lv t i x r = tadd (root_with T t0 t1 tadd tmul lv t i t0 r) (tmul g x)) /\
  root_with T t0 t1 tadd tmul lv t i (nth i vs t0) r = ri_root T ri /\
  leaf_stat T t0 tmul tdiv i ri = tdiv (tmul (nth i vs t0) g) (ri_root T ri) /\
  (forall k, edge_stat T t0 tmul tdiv i k ri = tdiv (tmul (nth k vs t0) g) (ri_root T ri)).
Proof.
  intros T t0 t1 tadd tmul tsub tdiv SR Hdiv dom gdens t r i v0 lv vs g ri Hv Hi Hsc Hnz.
  split; [|split; [|split]].
  - intros x. exact (grad_affine T t0 t1 tadd tmul tdiv SR dom lv Hdiv t r i v0 Hv Hi Hsc Hnz x).
  - exact (root_with_self T t0 t1 tadd tmul lv t r i).
  - reflexivity.
  - intros k. reflexivity.
Qed.

(* The same statistic in its classical form.  For every valid table (DAGs included), sum node i with weights ws
   and child position k: the root value, as a function of the weight w_{i,k} alone, is AFFINE with slope
   v_k * g_i; hence  w_{i,k} * edge_stat i k = w_{i,k} * (d root / d w_{i,k}) / root, the expected count of the
   latent choice "sum i selects child k" given the row (Darwiche's differential form of the posterior). *)
Theorem C14_weight_derivative : forall (T : Type) (t0 t1 : T) (tadd tmul tsub tdiv : T -> T -> T),
  semi_ring_theory t0 t1 tadd tmul (@eq T) ->
  (forall a b, b <> t0 -> tdiv (tmul a b) b = a) ->
  forall (dom : nat -> list Z) (gdens : T -> T -> nat -> Z -> T) (t : etable T) (r : row) (i : nat) (ws : list T) (v0 k : nat),
  let lv := eleaf_val T t0 t1 tadd tmul tsub gdens in
  let vs := evals T t0 t1 tadd tmul tsub gdens t r in
  valid T t0 tadd dom (eleaf T) lv t -> (i < length t)%nat ->
  nkind (nth i t (dummy_node T (eleaf T))) = KSum ws -> In v0 (scope_of T (eleaf T) t i) ->
  (forall j, (j < length t)%nat -> nth j vs t0 <> t0) ->
  (k < length ws)%nat -> (k < length (nkids (nth i t (dummy_node T (eleaf T)))))%nat ->
  let root_at := fun y => nth (length t - 1) (vals T t0 t1 tadd tmul (eleaf T) lv (set_ws T t i (upd_w T k y ws)) r) t0 in
  let vk := nth (nth k (nkids (nth i t (dummy_node T (eleaf T)))) 0%nat) vs t0 in
  let gi := nth i (grads T t0 t1 tadd tmul tdiv t vs) t0 in
  forall y, root_at y = tadd (root_at t0) (tmul (tmul vk gi) y).
Proof.
  intros T t0 t1 tadd tmul tsub tdiv SR Hdiv dom gdens t r i ws v0 k lv vs Hv Hi Hk Hsc Hnz Hkw Hkk.
  exact (weight_affine T t0 t1 tadd tmul tdiv SR Hdiv dom lv t r i ws v0 k Hv Hi Hk Hsc Hnz Hkw Hkk).
Qed.

(* Responsibilities of a sum node: sum_k w_k * (v_k * g / r) = (sum_k w_k v_k) * g / r, and at the
   root (g = 1, r = own value <> 0) they sum to one. *)
Theorem C14_resp_sum_one : forall ws vs g r : _,
  dotT Qc 0 Qcplus Qcmult ws (map (fun v => v * g / r) vs) = dotT Qc 0 Qcplus Qcmult ws vs * g / r /\
  (dotT Qc 0 Qcplus Qcmult ws vs <> 0 ->
   dotT Qc 0 Qcplus Qcmult ws (map (fun v => v * 1 / dotT Qc 0 Qcplus Qcmult ws vs) vs) = 1).
Proof. intros. split; [apply resp_sum | apply resp_root_one]. Qed.

Print Assumptions C14_sum_simplex.
Print Assumptions C14_bern_domain.
Print Assumptions C14_cat_simplex.
Print Assumptions C14_gauss_sigma_pos.
Print Assumptions C14_clt_rows_normalised.
Print Assumptions C14_structure_fixed.
Print Assumptions C14_iter_valid.
Print Assumptions C14_grad_affine.
Print Assumptions C14_resp_sum_one.
Print Assumptions C14_weight_derivative.
