(* Properties/C06.v — MPE completes only missing entries; exact on Chow-Liu trees. *)
From Coq Require Import List Arith ZArith Ring Bool.
From DV Require Import Model.Core Model.Clt Model.Leaves Model.Mpe
  Proofs.CoreFacts Proofs.CltFacts Proofs.MpeFacts.
Import ListNotations.

Section C06_circuit.
  Variable T : Type.
  Variables (t0 t1 : T) (tadd tmul : T -> T -> T).
  Variable sel : T -> T -> bool.
  Variable dom : nat -> list Z.
  Variable leaf : Type.
  Variable leaf_val : leaf -> row -> T.
  Variable leaf_fill : leaf -> row -> list (nat * Z).
  Let mpe_row := mpe_row T t0 t1 tadd tmul sel leaf leaf_val leaf_fill.

  (* observed entries are never changed (any table, any branch rule, any row) *)
  Theorem C06_preserves_observed : forall (t : table T leaf) r,
      fill_missing_only leaf leaf_fill -> forall v x, r v = Some x -> mpe_row t r v = Some x.
  Proof. exact (mpe_preserves_observed T t0 t1 tadd tmul sel leaf leaf_val leaf_fill). Qed.

  (* every missing entry of the root scope is filled, for every valid DAG and every row:
     the leaves reached by the descent cover the scope (route_partition, covering half) *)
  Theorem C06_fills_every_missing : forall (t : table T leaf) r,
      valid T t0 tadd dom leaf leaf_val t -> sums_nonempty T leaf t ->
      fill_covers T leaf leaf_fill t -> 0 < length t ->
      forall v, In v (scope_of T leaf t (length t - 1)) -> mpe_row t r v <> None.
  Proof. exact (mpe_fills_missing T t0 t1 tadd tmul sel dom leaf leaf_val leaf_fill). Qed.

  Theorem C06_descent_covers : forall (t : table T leaf) r,
      valid T t0 tadd dom leaf leaf_val t -> sums_nonempty T leaf t -> forall i, i < length t ->
      forall v, In v (scope_of T leaf t i) ->
      exists l, In l (nth i (picks T t0 t1 tadd tmul sel leaf leaf_val t r) []) /\ l < length t /\
                is_leaf_at T leaf t l /\ In v (scope_of T leaf t l).
  Proof. exact (picks_cover T t0 t1 tadd tmul sel dom leaf leaf_val). Qed.
End C06_circuit.

Section C06_clt.
  Variable T : Type.
  Variables (t0 t1 : T) (tadd tmul : T -> T -> T).
  Hypothesis SRth : semi_ring_theory t0 t1 tadd tmul (@eq T).
  Variable sel : T -> T -> bool.
  Hypothesis tadd_sel : forall a b, tadd a b = if sel a b then a else b.   (* tadd = max *)

  (* Chow-Liu trees: the decoded completion attains the max-product value of the evidence, which by
     C02_clt_marginal (instantiated with tadd = max) is the maximum over all completions *)
  Theorem C06_clt_exact : forall t : ctree T, NoDup (vars T t) -> forall pv r,
      up T t0 t1 tadd tmul t pv (apply_assign (assign T t0 t1 tadd tmul sel t pv r) r) = up T t0 t1 tadd tmul t pv r.
  Proof. exact (clt_mpe_exact T t0 t1 tadd tmul SRth sel tadd_sel). Qed.

  (* on the completed row the value is the ordinary joint probability (no addition is used) *)
  Theorem C06_clt_joint_indep : forall (tadd' : T -> T -> T) (t0' : T) (t : ctree T) pv r,
      (forall v, In v (vars T t) -> r v <> None) ->
      up T t0 t1 tadd tmul t pv r = up T t0' t1 tadd' tmul t pv r.
  Proof. exact (up_complete_indep T t0 t1 tadd tmul). Qed.

  Theorem C06_clt_assigns_only_missing : forall (t : ctree T) pv r v,
      In v (map fst (assign T t0 t1 tadd tmul sel t pv r)) -> In v (vars T t) /\ r v = None.
  Proof. exact (assign_vars T t0 t1 tadd tmul sel). Qed.
  Theorem C06_clt_assigns_all_missing : forall (t : ctree T) pv r v,
      In v (vars T t) -> r v = None -> In v (map fst (assign T t0 t1 tadd tmul sel t pv r)).
  Proof. exact (assign_covers T t0 t1 tadd tmul sel). Qed.
End C06_clt.

Print Assumptions C06_preserves_observed.
Print Assumptions C06_fills_every_missing.
Print Assumptions C06_descent_covers.
Print Assumptions C06_clt_exact.
Print Assumptions C06_clt_joint_indep.
Print Assumptions C06_clt_assigns_only_missing.
Print Assumptions C06_clt_assigns_all_missing.
