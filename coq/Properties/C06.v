(* Properties/C06.v — MPE completes only missing entries; exact on Chow-Liu trees. *)
From Coq Require Import List Arith ZArith QArith Qcanon Ring Bool.
From DV Require Import Model.Core Model.Clt Model.Leaves Model.Mpe
  Proofs.CoreFacts Proofs.CltFacts Proofs.MpeFacts Proofs.MaxTimes
  Model.QcInst Model.MpeRun Proofs.MpePositive Proofs.CltPositive Proofs.MpePositiveQc.
Import ListNotations.
Local Open Scope nat_scope.

Section C06_circuit.
  Variable T : Type.
  Variables (t0 t1 : T) (tadd tmul : T -> T -> T).
  Variable sel : T -> T -> bool.
  Variable dom : nat -> list Z.
  Variable leaf : Type.
  Variable leaf_val : leaf -> row -> T.
  Variable leaf_fill : leaf -> row -> list (nat * Z).
  Let mpe_row := mpe_row T t0 t1 tadd tmul sel leaf leaf_val leaf_fill.

  (* observed entries are never changed (any table, any branch rule, any row) *)
  Theorem C06_preserves_observed : forall (t : table T leaf) r,
      fill_missing_only leaf leaf_fill -> forall v x, r v = Some x -> mpe_row t r v = Some x.
  Proof. exact (mpe_preserves_observed T t0 t1 tadd tmul sel leaf leaf_val leaf_fill). Qed.

  (* every missing entry of the root scope is filled, for every valid DAG and every row:
     the leaves reached by the descent cover the scope (route_partition, covering half) *)
  Theorem C06_fills_every_missing : forall (t : table T leaf) r,
      valid T t0 tadd dom leaf leaf_val t -> sums_nonempty T leaf t ->
      fill_covers T leaf leaf_fill t -> 0 < length t ->
      forall v, In v (scope_of T leaf t (length t - 1)) -> mpe_row t r v <> None.
  Proof. exact (mpe_fills_missing T t0 t1 tadd tmul sel dom leaf leaf_val leaf_fill). Qed.

  Theorem C06_descent_covers : forall (t : table T leaf) r,
      valid T t0 tadd dom leaf leaf_val t -> sums_nonempty T leaf t -> forall i, i < length t ->
      forall v, In v (scope_of T leaf t i) ->
      exists l, In l (nth i (picks T t0 t1 tadd tmul sel leaf leaf_val t r) []) /\ l < length t /\
                is_leaf_at T leaf t l /\ In v (scope_of T leaf t l).
  Proof. exact (picks_cover T t0 t1 tadd tmul sel dom leaf leaf_val). Qed.
End C06_circuit.

Section C06_clt.
  Variable T : Type.
  Variables (t0 t1 : T) (tadd tmul : T -> T -> T).
  Hypothesis SRth : semi_ring_theory t0 t1 tadd tmul (@eq T).
  Variable sel : T -> T -> bool.
  Hypothesis tadd_sel : forall a b, tadd a b = if sel a b then a else b.   (* tadd = max *)

  (* Chow-Liu trees: the decoded completion attains the max-product value of the evidence, which by
     C02_clt_marginal (instantiated with tadd = max) is the maximum over all completions *)
  Theorem C06_clt_exact : forall t : ctree T, NoDup (vars T t) -> forall pv r,
      up T t0 t1 tadd tmul t pv (apply_assign (assign T t0 t1 tadd tmul sel t pv r) r) = up T t0 t1 tadd tmul t pv r.
  Proof. exact (clt_mpe_exact T t0 t1 tadd tmul SRth sel tadd_sel). Qed.

  (* on the completed row the value is the ordinary joint probability (no addition is used) *)
  Theorem C06_clt_joint_indep : forall (tadd' : T -> T -> T) (t0' : T) (t : ctree T) pv r,
      (forall v, In v (vars T t) -> r v <> None) ->
      up T t0 t1 tadd tmul t pv r = up T t0' t1 tadd' tmul t pv r.
  Proof. exact (up_complete_indep T t0 t1 tadd tmul). Qed.

  Theorem C06_clt_assigns_only_missing : forall (t : ctree T) pv r v,
      In v (map fst (assign T t0 t1 tadd tmul sel t pv r)) -> In v (vars T t) /\ r v = None.
  Proof. exact (assign_vars T t0 t1 tadd tmul sel). Qed.
  Theorem C06_clt_assigns_all_missing : forall (t : ctree T) pv r v,
      In v (vars T t) -> r v = None -> In v (map fst (assign T t0 t1 tadd tmul sel t pv r)).
  Proof. exact (assign_covers T t0 t1 tadd tmul sel). Qed.
End C06_clt.

(* the intended instance exists: max-times on the non-negative rationals is a selective commutative
   semiring, so C06_clt_exact applies to the max-product messages the code computes *)
Theorem C06_clt_exact_maxtimes : forall t : ctree nnq, NoDup (vars nnq t) -> forall pv r,
    up nnq nn0 nn1 nnmax nnmul t pv (apply_assign (assign nnq nn0 nn1 nnmax nnmul nnsel t pv r) r) =
    up nnq nn0 nn1 nnmax nnmul t pv r.
Proof. exact clt_mpe_exact_maxtimes. Qed.

Print Assumptions C06_preserves_observed.
Print Assumptions C06_clt_exact_maxtimes.
Print Assumptions C06_fills_every_missing.
Print Assumptions C06_descent_covers.
Print Assumptions C06_clt_exact.
Print Assumptions C06_clt_joint_indep.
Print Assumptions C06_clt_assigns_only_missing.
Print Assumptions C06_clt_assigns_all_missing.

(* ---- positivity clause ---- *)
(* generic form: over any carrier with a positivity / non-negativity pair closed under the semiring
   operations, the completion computed by the descent has a positive value whenever the evidence has;
   node_side collects the per-node conditions (leaf values non-negative, determined by the leaf scope
   and kept positive by the leaf's own fill; sum weights non-negative, at least one child) *)
Theorem C06_positive : forall (T : Type) (t0 t1 : T) (tadd tmul : T -> T -> T) (pos nonneg : T -> Prop),
    nonneg t0 -> nonneg t1 -> pos t1 ->
    (forall a b, nonneg a -> nonneg b -> nonneg (tadd a b)) -> (forall a b, nonneg a -> nonneg b -> nonneg (tmul a b)) ->
    (forall a b, nonneg a -> nonneg b -> pos (tadd a b) -> pos a \/ pos b) ->
    (forall a b, pos a -> nonneg b -> pos (tadd a b)) -> (forall a b, nonneg a -> pos b -> pos (tadd a b)) ->
    (forall a b, nonneg a -> nonneg b -> pos (tmul a b) -> pos a /\ pos b) -> (forall a b, pos a -> pos b -> pos (tmul a b)) ->
    ~ pos t0 ->
    forall sel : T -> T -> bool,
    (forall a b, sel a b = true -> pos b -> pos a) -> (forall a b, sel a b = false -> pos a -> pos b) ->
    forall (dom : nat -> list Z) (leaf : Type) (leaf_val : leaf -> row -> T) (leaf_fill : leaf -> row -> list (nat * Z))
           (t : table T leaf) (r : row),
    valid T t0 tadd dom leaf leaf_val t -> Forall (node_side T pos nonneg leaf leaf_val leaf_fill) t -> t <> [] ->
    pos (val T t0 t1 tadd tmul leaf leaf_val t (length t - 1) r) ->
    pos (val T t0 t1 tadd tmul leaf leaf_val t (length t - 1) (mpe_row T t0 t1 tadd tmul sel leaf leaf_val leaf_fill t r)).
Proof. exact mpe_row_pos. Qed.

(* Chow-Liu trees: decoding with MAX-product messages keeps the SUM-product probability positive *)
Theorem C06_clt_positive : forall (T : Type) (t0 t1 : T) (tadd tmx tmul : T -> T -> T) (pos nonneg : T -> Prop),
    nonneg t0 -> nonneg t1 -> pos t1 -> ~ pos t0 ->
    (forall a b, nonneg a -> nonneg b -> nonneg (tadd a b)) -> (forall a b, nonneg a -> nonneg b -> nonneg (tmul a b)) ->
    (forall a b, nonneg a -> nonneg b -> pos (tadd a b) -> pos a \/ pos b) ->
    (forall a b, pos a -> nonneg b -> pos (tadd a b)) -> (forall a b, nonneg a -> pos b -> pos (tadd a b)) ->
    (forall a b, nonneg a -> nonneg b -> pos (tmul a b) -> pos a /\ pos b) -> (forall a b, pos a -> pos b -> pos (tmul a b)) ->
    forall sel : T -> T -> bool,
    (forall a b, tmx a b = if sel a b then a else b) ->
    (forall a b, sel a b = true -> pos b -> pos a) -> (forall a b, sel a b = false -> pos a -> pos b) ->
    forall t : ctree T, ct_nonneg T nonneg t -> NoDup (vars T t) -> forall pv r,
    pos (up T t0 t1 tadd tmul t pv r) ->
    pos (up T t0 t1 tadd tmul t pv (apply_assign (assign T t0 t1 tmx tmul sel t pv r) r)).
Proof. exact clt_decode_pos. Qed.

(* the instance the correspondence runs: exact rationals, built-in leaves (tables and CLTs), np.argmax
   tie rule; side_b is the decidable side condition evaluated on every generated circuit *)
Theorem C06_positive_qc : forall (dom : nat -> list Z) (t : qtable) (r : row),
    valid Qc 0%Qc Qcplus dom qleaf qleaf_val t -> side_b t = true -> t <> [] ->
    (0 < qroot t r)%Qc -> (0 < qroot t (qmpe sel_first t r))%Qc.
Proof. exact mpe_positive_qc. Qed.
Print Assumptions C06_positive.
Print Assumptions C06_clt_positive.
Print Assumptions C06_positive_qc.
