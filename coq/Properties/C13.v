(* Properties/C13.v — JSON save/load round trip preserves structure and parameters
   (deeprob/spn/structure/io.py).  Model: Model/Json.v (generic), Model/JsonRun.v (Qc instance). *)
From Coq Require Import List Arith ZArith QArith Qabs Qcanon Bool Reals.
From DV Require Import Model.Json Model.JsonRun Proofs.JsonFacts Proofs.Round8Facts Proofs.CltGuardReal.
Import ListNotations.
Close Scope R_scope.

Section C13_generic.
  Variable T : Type.
  Variable rnd : T -> T.                                       (* the format's rounding *)
  Variable sum_ok : list T -> bool.                            (* Sum constructor guard *)
  Variable leaf_ok : lclass -> list nat -> list (jval T) -> bool.  (* leaf constructor guards *)
  Variable clt_ok : list nat -> list (option nat) -> list (jval T) -> bool.

  (* For EVERY circuit (any size, any sharing) whose ids are distinct with root id 0, in which no
     parent lists a child twice, and whose rounded parameters pass the constructor guards:
     loading what save wrote succeeds and yields, node by node, the same id, kind, scope and child
     order, with every float parameter replaced by its rounding (integers and nulls unchanged). *)
  Theorem C13_structure : forall t : list (snode T),
      NoDup (map (@sid T) t) ->
      (forall n, In n t -> NoDup (skids n)) ->
      (forall n c, In n t -> In c (skids n) -> In c (map (@sid T) t)) ->
      In 0%nat (map (@sid T) t) ->
      (forall n, In n t -> node_guard T rnd sum_ok leaf_ok n) ->
      graph_to_spn T sum_ok leaf_ok (spn_to_graph T rnd t) = OK (map (expected T rnd) t).
  Proof. exact (roundtrip_structure T rnd sum_ok leaf_ok). Qed.

  (* what "expected" is, field by field *)
  Theorem C13_expected_fields : forall n : snode T,
      lid (expected T rnd n) = sid n /\ lscope (expected T rnd n) = sscope n /\
      lkids (expected T rnd n) = map Some (skids n) /\
      lkd (expected T rnd n) = match skd n with
                               | SSum ws => SSum (map rnd ws)
                               | SProd => SProd
                               | SLeaf c ps => SLeaf c (map (round_val T rnd) ps)
                               end.
  Proof. exact (expected_fields T rnd). Qed.

  (* stand-alone Chow-Liu trees of every size: scope, predecessor vector and (rounded) CPTs come back *)
  Theorem C13_clt_roundtrip : forall c : cltj T,
      length (cj_scope c) = length (cj_tree c) -> length (cj_params c) = length (cj_tree c) ->
      count_none (cj_tree c) = 1%nat ->
      forallb (reaches_root (cj_tree c) (length (cj_tree c))) (seq 0%nat (length (cj_tree c))) = true ->
      clt_ok (cj_scope c) (cj_tree c) (map (round_val T rnd) (cj_params c)) = true ->
      graph_to_clt T clt_ok (clt_to_graph T rnd c) = OK (cexpected T rnd c).
  Proof. exact (clt_roundtrip T rnd clt_ok). Qed.
End C13_generic.

(* |round8 q - q| <= 5e-9 for every rational q *)
Theorem C13_round8_bound : forall x : Qc, (Qabs (this (round8 x) - this x) <= 5 # 1000000000)%Q.
Proof. exact round8_bound. Qed.

(* saving a loaded file again writes the same numbers (exact arithmetic; float32 storage is outside) *)
Theorem C13_round8_idem : forall x : Qc, round8 (round8 x) = round8 x.
Proof. exact round8_idem. Qed.

(* C13_guards_pass is proved for sums / Categorical / Isotonic vectors (np.isclose(sum, 1) on exact
   sums), Bernoulli and Gaussian.  Missing for the full statement: the float summation inside np.sum
   and the BinaryCLT guard np.allclose(exp(params).sum(axis=2), 1) (needs exp), hence `_partial`. *)
Theorem C13_guards_pass_partial :
  (forall (ws : list Qc) (delta : Q),
      (Qabs (this (qcsum ws) - 1) <= delta)%Q ->
      (inject_Z (Z.of_nat (length ws)) * (5 # 1000000000) + delta <= 1001 # 100000000)%Q ->
      sum_ok (map round8 ws) = true) /\
  (forall ws : list Qc, qcsum ws = 1%Qc -> (length ws <= 2000)%nat -> sum_ok (map round8 ws) = true) /\
  (forall sc p, leaf_ok CBernoulli sc [JNum p] = true -> leaf_ok CBernoulli sc [JNum (round8 p)] = true) /\
  (forall sc m sd, leaf_ok CGaussian sc [JNum m; JNum sd] = true ->
                   leaf_ok CGaussian sc [JNum (round8 m); JNum (round8 sd)] = true).
Proof.
  split; [exact sum_ok_after_rounding|]. split; [exact normalised_sum_ok|].
  split; [exact bernoulli_guard_after_rounding| exact gaussian_guard_after_rounding].
Qed.

(* the BinaryCLT guard np.allclose(exp(params).sum(axis=2), 1) over the reals: a table row p_1..p_k > 0 summing to
   one, saved as ln p_j + delta_j with |delta_j| <= d <= 1e-6 (8-decimal rounding: 5e-9), is still accepted.  What
   keeps C13_guards_pass `_partial` is only the float summation inside np.sum / np.exp. *)
Theorem C13_clt_guard_after_rounding : forall (d : R) (ps ds : list R), (0 <= d <= 1 / 1000000)%R -> length ps = length ds ->
  Forall (fun p => (0 < p)%R) ps -> CltGuardReal.rsum ps = 1%R -> Forall (fun e => (Rabs e <= d)%R) ds ->
  allclose1 (CltGuardReal.rsum (saved_row ps ds)).
Proof. exact clt_guard_after_rounding. Qed.

(* the bound 2000 cannot be dropped: 7000 equal weights (exact sum 1) are rejected after rounding
   (recorded finding many-entries-isclose) *)
Theorem C13_many_entries_refuted :
  qcsum (repeat (qq 1 7000) n7000) = 1%Qc /\ sum_ok (map round8 (repeat (qq 1 7000) n7000)) = false.
Proof. exact many_entries_refuted. Qed.

(* the hypothesis "no parent lists a child twice" cannot be dropped (recorded finding
   duplicate-child-edge): Sum(children=[a, a]) keeps one edge and loads with a None child *)
Theorem C13_multi_edge_refuted :
  gedges (qspn_to_graph dup_circuit) = [((1%nat, 0%nat), 1%nat)] /\
  exists ns, qgraph_to_spn (qspn_to_graph dup_circuit) = OK ns /\ map (@lkids Qc) ns = [[None; Some 1%nat]; []].
Proof. exact multi_edge_refuted. Qed.

(* the pinned Gaussian constructor (stddev > 1e-5) rejected the stddev that fit() clamps to *)
Theorem C13_gauss_min_sigma_pinned_refuted :
  round8 sigma_min = sigma_min /\ gauss_ok_pinned (round8 sigma_min) = false /\
  leaf_ok CGaussian [0%nat] [JNum 0%Qc; JNum (round8 sigma_min)] = true.
Proof. exact gauss_min_sigma_pinned_refuted. Qed.

Print Assumptions C13_structure.
Print Assumptions C13_expected_fields.
Print Assumptions C13_clt_roundtrip.
Print Assumptions C13_round8_bound.
Print Assumptions C13_round8_idem.
Print Assumptions C13_guards_pass_partial.
Print Assumptions C13_many_entries_refuted.
Print Assumptions C13_multi_edge_refuted.
Print Assumptions C13_gauss_min_sigma_pinned_refuted.
Print Assumptions C13_clt_guard_after_rounding.
