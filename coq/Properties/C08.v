(* Properties/C08.v — parallel evaluation equals sequential evaluation under every thread schedule. *)
From Coq Require Import List Arith Bool.
From DV Require Import Model.Core Model.Sched Proofs.SchedFacts Proofs.LayerFacts Proofs.ParallelFacts.
Import ListNotations.

Section C08_layers.
  Variable T : Type.
  Variable leaf : Type.
  (* the layering (Kahn counting from the root): every child lies in a strictly deeper layer than each
     of its parents — for every children-first DAG table, any sharing *)
  Theorem C08_layering : forall t : table T leaf, wft T leaf t -> forall j k x, j < length t ->
      In k (nkids (nth j t (dummy_node T leaf))) -> nth j (layer_of T leaf t) None = Some x ->
      exists y, nth k (layer_of T leaf t) None = Some y /\ x < y.
  Proof. exact (layering T leaf). Qed.
  Theorem C08_root_layer : forall t : table T leaf, wft T leaf t -> 0 < length t ->
      nth (length t - 1) (layer_of T leaf t) None = Some 0.
  Proof. exact (root_layer T leaf). Qed.

  (* bottom-up (likelihood / log_likelihood / the forward pass of mpe, sample): the tasks of one
     layer — one atomic row write each, computed from the children's rows — commute, so EVERY
     interleaving of them ends in the memory of the sequential order *)
  Variable V : Type.
  Variable nf : node T leaf -> list V -> V.
  Theorem C08_bottom_up : forall t : table T leaf, wft T leaf t -> forall l s m,
      interleave nat V (map (fun n => [fw_act T leaf V nf t n]) (layer T leaf t l)) s ->
      mem_eq nat V (exec nat V s m) (exec nat V (map (fw_act T leaf V nf t) (layer T leaf t l)) m).
  Proof. exact (bottom_up_layer_schedule T leaf V nf). Qed.
End C08_layers.

Section C08_schedules.
  Variable loc : Type.
  Variable leqb : loc -> loc -> bool.
  Hypothesis leqb_spec : forall a b, reflect (a = b) (leqb a b).
  Variable V : Type.

  (* any two interleavings of pairwise-commuting atomic actions agree at every location *)
  Theorem C08_schedule_independent : forall ts s1 s2 m,
      pairwise_commute loc V (concat ts) -> Forall (respects loc V) (concat ts) ->
      interleave loc V ts s1 -> interleave loc V ts s2 -> mem_eq loc V (exec loc V s1 m) (exec loc V s2 m).
  Proof. exact (interleave_det loc V). Qed.
  Theorem C08_equals_sequential : forall ts s m,
      pairwise_commute loc V (concat ts) -> Forall (respects loc V) (concat ts) ->
      interleave loc V ts s -> mem_eq loc V (exec loc V s m) (exec loc V (concat ts) m).
  Proof. exact (interleave_sequential loc V). Qed.

  (* top-down (mpe / sample): the tasks of a layer consist of ATOMIC joins into the children's mask
     rows (the lock makes `masks[c] |= v` one action; joins into the SAME row commute because `or` is
     commutative and associative) and of writes to pairwise distinct cells of x; if no action reads
     another action's target (layering: a node's own mask row and the lls are never written in its
     layer), every schedule gives the sequential result — no mask update is lost *)
  Variable join : V -> V -> V.
  Hypothesis join_comm : forall a b, join a b = join b a.
  Hypothesis join_assoc : forall a b c, join a (join b c) = join (join a b) c.
  Theorem C08_top_down_locked : forall l : list (aspec loc V),
      Forall (fun a => reads loc V (fn loc V a) (rds loc V a)) l ->
      ForallOrdPairs (independent loc V) l ->
      pairwise_commute loc V (map (act_of loc leqb V join) l) /\ Forall (respects loc V) (map (act_of loc leqb V join) l).
  Proof. exact (mixed_layer_commute loc leqb leqb_spec V join join_comm join_assoc). Qed.

  (* a location that no action of a layer targets keeps its value at every point of every schedule *)
  Theorem C08_read_stable : forall s l, Forall (fun a => untouched loc V a l) s -> forall m, exec loc V s m l = m l.
  Proof. exact (read_stable loc V). Qed.
End C08_schedules.

(* without the lock the update is a read followed by a write and a schedule loses a parent's rows *)
Theorem C08_pinned_refuted :
  interleave nat nat [p_task1; p_task2] [p_rd 1; p_rd 2; p_wr 1 1; p_wr 2 2] /\
  exec nat nat [p_rd 1; p_rd 2; p_wr 1 1; p_wr 2 2] p_m0 0 = 2 /\
  exec nat nat (p_task1 ++ p_task2) p_m0 0 = 3.
Proof. exact td_pinned_refuted. Qed.

Print Assumptions C08_layering.
Print Assumptions C08_root_layer.
Print Assumptions C08_bottom_up.
Print Assumptions C08_schedule_independent.
Print Assumptions C08_equals_sequential.
Print Assumptions C08_top_down_locked.
Print Assumptions C08_read_stable.
Print Assumptions C08_pinned_refuted.
