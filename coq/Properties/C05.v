(* Properties/C05.v — learned mixture weights are the training-row proportions of their children. *)
From Coq Require Import List Arith Bool.
From Coq Require Import Reals.
From DV Require Import Model.LearnSpn Proofs.LearnSpnFacts Proofs.MleProportions.
Import ListNotations.
Close Scope R_scope.
Open Scope nat_scope.

(* For EVERY list of oracle answers (every behaviour of the row splitter, the column splitter and
   the zero-variance test, truthful or not, including splitters that fail on one slice and succeed on
   its sibling), every thresholds and every training matrix shape: at every reachable state of the
   LearnSPN task queue, for every sum node, the rows of the children already attached followed by the
   rows of its pending tasks in queue order are exactly its row groups, in order. *)
Theorem C05_aligned_reachable : forall min_rows min_cols rows cols answers,
    aligned (run min_rows min_cols answers (init rows cols)) /\ wfs (run min_rows min_cols answers (init rows cols)).
Proof. exact run_aligned. Qed.

Theorem C05_aligned_step : forall min_rows min_cols s ans,
    aligned s -> wfs s -> aligned (step min_rows min_cols s ans) /\ wfs (step min_rows min_cols s ans).
Proof. exact step_inv. Qed.

(* When learn_spn returns (the queue is empty): child i of every sum node was built from slice i of
   that sum's rows; the weight attached to it is |slice i| / |rows| (Model/LearnSpnRun.v:
   arena_tree), i.e. the fraction of the sum's training rows routed to that child. *)
Theorem C05_weights_are_proportions : forall min_rows min_cols rows cols answers,
    let s := run min_rows min_cols answers (init rows cols) in
    queue s = [] -> forall p gs, p < length (arena s) -> akind_of (nth p (arena s) dummy_anode) = ASum gs ->
    kid_rows (arena s) (nth p (arena s) dummy_anode) = gs.
Proof. exact run_weights_are_proportions. Qed.

(* the pinned tail re-queue violates it on a 5-answer history; the repaired front re-queue does not *)
Theorem C05_pinned_refuted :
  let s := pin_final (step_pinned 2 1) in
  queue s = [] /\ akind_of (nth 1 (arena s) dummy_anode) = ASum [[0; 1; 2]; [3]] /\
  kid_rows (arena s) (nth 1 (arena s) dummy_anode) = [[3]; [0; 1; 2]].
Proof. exact learnspn_pinned_refuted. Qed.

(* "Equivalently the weights are the maximum-likelihood mixture proportions for the clustering the learner
   itself chose": for the row groups gs of a sum node (group i routed to child i, at least one row in all),
   the routing log-likelihood sum_i |g_i| ln w_i over strictly positive weight vectors summing to one is maximal at
   w_i = |g_i| / |rows| (Gibbs' inequality over the reals; 0 ln 0 = 0 for an empty group), and those
   proportions lie on the simplex. *)
Theorem C05_proportions_are_mle : forall (gs : list (list nat)) (ws : list R), length gs = length ws ->
  0 < length (concat gs) -> Forall (fun w => (0 < w)%R) ws -> rsum ws = 1%R ->
  (routing_ll (group_counts gs) ws <= routing_ll (group_counts gs) (proportions (group_counts gs)))%R.
Proof. exact group_proportions_are_mle. Qed.

Theorem C05_proportions_on_simplex : forall ns : list R, Forall (fun k => (0 <= k)%R) ns -> (0 < rsum ns)%R ->
  rsum (proportions ns) = 1%R /\ Forall (fun w => (0 <= w)%R) (proportions ns).
Proof. exact proportions_simplex. Qed.

Print Assumptions C05_aligned_reachable.
Print Assumptions C05_aligned_step.
Print Assumptions C05_weights_are_proportions.
Print Assumptions C05_pinned_refuted.
Print Assumptions C05_proportions_are_mle.
Print Assumptions C05_proportions_on_simplex.
