(* Properties/C05.v — learned mixture weights are the training-row proportions of their children. *)
From Coq Require Import List Arith Bool.
From DV Require Import Model.LearnSpn Proofs.LearnSpnFacts.
Import ListNotations.

(* For EVERY list of oracle answers (every behaviour of the row splitter, the column splitter and
   the zero-variance test, truthful or not, including splitters that fail on one slice and succeed on
   its sibling), every thresholds and every training matrix shape: at every reachable state of the
   LearnSPN task queue, for every sum node, the rows of the children already attached followed by the
   rows of its pending tasks in queue order are exactly its row groups, in order. *)
Theorem C05_aligned_reachable : forall min_rows min_cols rows cols answers,
    aligned (run min_rows min_cols answers (init rows cols)) /\ wfs (run min_rows min_cols answers (init rows cols)).
Proof. exact run_aligned. Qed.

Theorem C05_aligned_step : forall min_rows min_cols s ans,
    aligned s -> wfs s -> aligned (step min_rows min_cols s ans) /\ wfs (step min_rows min_cols s ans).
Proof. exact step_inv. Qed.

(* When learn_spn returns (the queue is empty): child i of every sum node was built from slice i of
   that sum's rows; the weight attached to it is |slice i| / |rows| (Model/LearnSpnRun.v:
   arena_tree), i.e. the fraction of the sum's training rows routed to that child. *)
Theorem C05_weights_are_proportions : forall min_rows min_cols rows cols answers,
    let s := run min_rows min_cols answers (init rows cols) in
    queue s = [] -> forall p gs, p < length (arena s) -> akind_of (nth p (arena s) dummy_anode) = ASum gs ->
    kid_rows (arena s) (nth p (arena s) dummy_anode) = gs.
Proof. exact run_weights_are_proportions. Qed.

(* the pinned tail re-queue violates it on a 5-answer history; the repaired front re-queue does not *)
Theorem C05_pinned_refuted :
  let s := pin_final (step_pinned 2 1) in
  queue s = [] /\ akind_of (nth 1 (arena s) dummy_anode) = ASum [[0; 1; 2]; [3]] /\
  kid_rows (arena s) (nth 1 (arena s) dummy_anode) = [[3]; [0; 1; 2]].
Proof. exact learnspn_pinned_refuted. Qed.

Print Assumptions C05_aligned_reachable.
Print Assumptions C05_aligned_step.
Print Assumptions C05_weights_are_proportions.
Print Assumptions C05_pinned_refuted.
