(* Properties/C19.v — moment queries return exact moments (statements only; proofs in Proofs/). *)
From Coq Require Import List Arith ZArith Ring Field.
From DV Require Import Model.Core Model.Leaves Model.Moments Gen.MomentsSrc
  Proofs.CoreFacts Proofs.MomentFacts Proofs.MomentStats.
Import ListNotations.

Section C19_moment.
  Variable T : Type.
  Variables (t0 t1 : T) (tadd tmul : T -> T -> T).
  Hypothesis SRth : semi_ring_theory t0 t1 tadd tmul (@eq T).
  Variable ofZ : Z -> T.
  Variable dom : nat -> list Z.
  Let leaf := leaf T.
  Let lval := leaf_val T t0 t1 tadd tmul.

  (* For every valid DAG table with discrete leaves, every order k and every variable j of the root
     scope: the k-th raw moment returned for j is  sum_a  val(a) * a_j^k  over ALL assignments a. *)
  Theorem C19_moment : forall (k j : nat) (t : table T leaf),
      valid T t0 tadd dom leaf lval t -> Forall (dleaf_ok T t0 t1 tadd dom) t -> 0 < length t ->
      let root := length t - 1 in
      NoDup (scope_of T leaf t root) -> In j (scope_of T leaf t root) ->
      moment_at T t0 t1 tadd tmul ofZ t k j =
      sum_compl T t0 tadd dom (scope_of T leaf t root)
        (fun a => tmul (val T t0 t1 tadd tmul leaf lval t root a) (cellpow T t1 tmul ofZ k j a)) row_none.
  Proof. exact (moment_exact T t0 t1 tadd tmul SRth ofZ dom). Qed.

  Theorem C19_order0 : forall t scope,
      moment_query T t0 t1 tadd tmul ofZ t 0%Z scope = Some (map (fun _ => t1) scope).
  Proof. reflexivity. Qed.

  Theorem C19_negative_rejected : forall t order scope, (order < 0)%Z ->
      moment_query T t0 t1 tadd tmul ofZ t order scope = None.
  Proof. intros t order scope H. unfold moment_query. apply Z.ltb_lt in H. now rewrite H. Qed.
End C19_moment.

Section C19_stats.
  Variable T : Type.
  Variables (t0 t1 : T) (tadd tmul tsub : T -> T -> T) (topp : T -> T) (tdiv : T -> T -> T) (tinv : T -> T).
  Hypothesis Fth : field_theory t0 t1 tadd tmul tsub topp tdiv tinv (@eq T).
  Variable pow15 : T -> T.
  Variable mom : nat -> T.
  Let tnum := tnum T t0 t1 tadd.
  Let cm2 := cm2 T t0 t1 tadd tmul tsub mom.
  Let cm3 := cm3 T t0 t1 tadd tmul tsub mom.
  Let cm4 := cm4 T t0 t1 tadd tmul tsub mom.

  (* the source of moments.py, translated on this run, against the textbook definitions *)
  Theorem C19_expectation : expectation_src T mom = mom 1.
  Proof. exact (expectation_ok T mom). Qed.
  Theorem C19_variance : variance_src T tmul tsub mom = cm2.
  Proof. exact (variance_ok T t0 t1 tadd tmul tsub topp tdiv tinv Fth mom). Qed.
  Theorem C19_skewness : skewness_src T tmul tsub tdiv tnum pow15 mom = tdiv cm3 (pow15 cm2).
  Proof. exact (skewness_ok T t0 t1 tadd tmul tsub topp tdiv tinv Fth pow15 mom). Qed.
  Theorem C19_kurtosis : cm2 <> t0 ->
      kurtosis_src T tadd tmul tsub tdiv topp tnum mom = tsub (tdiv cm4 (tmul cm2 cm2)) (tnum 3).
  Proof. exact (kurtosis_ok T t0 t1 tadd tmul tsub topp tdiv tinv Fth mom). Qed.

  (* cm2, cm3, cm4 are E[(X-mu)^n] for every finite distribution (binomial expansion) *)
  Theorem C19_central3_is_expectation : forall ps mu,
      E T t0 tadd tmul ps (fun _ => t1) = t1 ->
      E T t0 tadd tmul ps (fun x => tmul (tmul (tsub x mu) (tsub x mu)) (tsub x mu)) =
      tsub (tadd (tsub (E T t0 tadd tmul ps (fun x => tmul (tmul x x) x))
                       (tmul (tmul (tnum 3) mu) (E T t0 tadd tmul ps (fun x => tmul x x))))
                 (tmul (tmul (tnum 3) (tmul mu mu)) (E T t0 tadd tmul ps (fun x => x))))
           (tmul (tmul mu mu) mu).
  Proof. exact (central3 T t0 t1 tadd tmul tsub topp tdiv tinv Fth). Qed.
End C19_stats.

Print Assumptions C19_moment.
Print Assumptions C19_order0.
Print Assumptions C19_negative_rejected.
Print Assumptions C19_expectation.
Print Assumptions C19_variance.
Print Assumptions C19_skewness.
Print Assumptions C19_kurtosis.
Print Assumptions C19_central3_is_expectation.
