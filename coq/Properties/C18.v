(* Properties/C18.v — cutset networks evaluate their OR-tree semantics and are normalised.
   Statements only; proofs in Proofs/CnetFacts.v (model: Model/Cnet.v). *)
From Coq Require Import List Arith ZArith Ring Bool.
From DV Require Import Model.Core Model.Clt Model.Check Model.Cnet
  Proofs.CoreFacts Proofs.CltFacts Proofs.CnetFacts Proofs.CnetExamples.
Import ListNotations.
Local Open Scope nat_scope.

Section C18.
  Variable T : Type.
  Variables (t0 t1 : T) (tadd tmul : T -> T -> T).
  Hypothesis SRth : semi_ring_theory t0 t1 tadd tmul (@eq T).
  Let ornode := ornode T.
  Let cnet_val := cnet_val T t0 t1 tadd tmul.
  Let cnet_gat := cnet_gat T t0 t1 tadd tmul.
  Let cnet_pos := cnet_pos T t0 t1 tmul.
  Let wf_cnet := wf_cnet T t0.
  Let norm_cnet := norm_cnet T t0 t1 tadd.

  (* --- the OR-tree semantics: the branch weight selected by the value of the cut variable times
     the value of the selected child; the Chow-Liu tree at the leaf reached --- *)
  Theorem C18_semantics_cut0 : forall sc v w0 w1 (l rr : ornode) r, r v = Some 0%Z ->
      cnet_val (OCut sc v w0 w1 l rr) r = tmul w0 (cnet_val l r).
  Proof. exact (cnet_val_cut0 T t0 t1 tadd tmul). Qed.
  Theorem C18_semantics_cut1 : forall sc v w0 w1 (l rr : ornode) r, r v = Some 1%Z ->
      cnet_val (OCut sc v w0 w1 l rr) r = tmul w1 (cnet_val rr r).
  Proof. exact (cnet_val_cut1 T t0 t1 tadd tmul). Qed.
  Theorem C18_semantics_leaf : forall sc c r,
      cnet_val (OLeaf sc c) r = clt_val T t0 t1 tadd tmul c r.
  Proof. exact (cnet_val_leaf T t0 t1 tadd tmul). Qed.

  (* --- the code's evaluation.  (a) For EVERY batch X (any number of rows) and every tree, the
     iterative FIFO evaluation of BinaryCNet.log_likelihood (queue of (node, row_indices,
     col_indices), accumulator updated through index arrays) returns, for row i, the positional
     single-row evaluation of that row. --- *)
  Theorem C18_code_batch_rowwise : forall (X : matrix) (c : ornode) w,
      cnet_batch T t0 t1 tmul c X w = map (fun i => cnet_pos c (prow X (seq 0 w) i)) (seq 0 (length X)).
  Proof. exact (cnet_batch_rowwise T t0 t1 tadd tmul SRth). Qed.

  (* (b) On every well-formed network whose leaf CLTs have a predecessor-free root with two equal
     CPT rows, and on every binary row, the positional evaluation (cut column found by
     `scope.index(or_id)`, columns deleted by position, vectorised CLT gather on the remaining
     columns, the root reading the last column) is the OR-tree semantics of the row read by
     VARIABLE ID, with the leaves evaluated by message passing - the function the normalisation
     theorems below speak about (gather = message passing: Proofs/CltGather.v). *)
  Theorem C18_code_semantics : forall n : ornode, wf_cnet n -> groot_ok T t0 n ->
      forall xs, length xs = length (osc T n) -> binary xs ->
      cnet_pos n xs = cnet_val n (row_of (osc T n) xs).
  Proof. exact (cnet_pos_val T t0 t1 tadd tmul SRth). Qed.

  (* --- the three facts and their consequences, for every well-formed network of any size --- *)
  Theorem C18_local : forall n : ornode, wf_cnet n -> forall r v c,
      ~ In v (osc T n) -> cnet_val n (upd r v c) = cnet_val n r.
  Proof. exact (cnet_local T t0 t1 tadd tmul). Qed.

  Theorem C18_marginal : forall n : ornode, wf_cnet n -> forall vs, NoDup vs -> forall r,
      (forall v, In v vs -> In v (osc T n) /\ r v = None) ->
      cnet_val n r = sum_compl T t0 tadd (fun _ => dom2) vs (cnet_val n) r.
  Proof. exact (cnet_marginal T t0 t1 tadd tmul SRth). Qed.

  (* the sum over ALL binary rows equals the value of the all-missing row, whatever the parameters *)
  Theorem C18_total_mass : forall n : ornode, wf_cnet n ->
      sum_compl T t0 tadd (fun _ => dom2) (osc T n) (cnet_val n) row_none = cnet_val n row_none.
  Proof. exact (cnet_total_mass T t0 t1 tadd tmul SRth). Qed.

  (* ... and it is one when the branch weights and the CPT rows are normalised *)
  Theorem C18_normalised : forall n : ornode, wf_cnet n -> norm_cnet n ->
      sum_compl T t0 tadd (fun _ => dom2) (osc T n) (cnet_val n) row_none = t1.
  Proof. exact (cnet_normalised T t0 t1 tadd tmul SRth). Qed.
End C18.

Section C18_fit.
  Variable T : Type.
  Variables (t0 t1 : T) (tadd : T -> T -> T).
  (* the oracles: which column to cut or not to split at all (entropy / BDeu / BIC scores, thresholds),
     the left weight, the CLT learner; the data set *)
  Variable choose : list nat -> list nat -> list nat -> option nat.
  Variable weight0 : list nat -> list nat -> T.
  Variable tsub : T -> T -> T.
  Variable fitclt : list nat -> list nat -> list nat -> clt T.
  Variable X : matrix.
  Let grow := grow T t1 choose weight0 tsub fitclt X.

  (* for EVERY oracle, data set and fuel: the object left in `self` after copying the temporary
     root's attributes can be evaluated, has the requested scope, and is well-formed as soon as the
     CLT learner returns leaves with property P (P := fun _ _ => True gives the skeleton: scopes,
     cut variables in scope, children scopes = scope with the cut position deleted) *)
  Theorem C18_fit_wf : forall P : list nat -> clt T -> Prop,
      (forall sc ris cis, NoDup sc -> sc <> [] -> P sc (fitclt sc ris cis)) ->
      forall fuel sc ris cis, NoDup sc -> sc <> [] ->
      exists c, fit_self T (grow fuel sc ris cis) = Some c /\ wf_gen T P c /\ osc T c = sc.
  Proof. exact (fit_wf T t1 choose weight0 tsub fitclt X). Qed.

  (* including the case in which the learner decides not to split at the root *)
  Theorem C18_fit_root_unsplit : forall fuel sc ris cis, choose sc ris cis = None ->
      fit_self T (grow fuel sc ris cis) = Some (OLeaf sc (fitclt sc ris cis)).
  Proof. exact (fit_root_unsplit T t1 choose weight0 tsub fitclt X). Qed.

  (* weights w and 1 - w, normalised CLTs: the learned network is normalised *)
  Theorem C18_fit_normalised : (forall a, tadd a (tsub t1 a) = t1) ->
      (forall sc ris cis, rows_norm T t1 tadd (clt_tree T t0 (fitclt sc ris cis))) ->
      forall fuel sc ris cis, norm_cnet T t0 t1 tadd (grow fuel sc ris cis).
  Proof. exact (grow_norm T t0 t1 tadd choose weight0 tsub fitclt X). Qed.
End C18_fit.

Section C18_check.
  Variable T : Type.
  Variables (t0 t1 : T) (tadd : T -> T -> T).
  Variable teqb : T -> T -> bool.
  Hypothesis teqb_sound : forall a b, teqb a b = true -> a = b.
  (* the per-run certificate evaluated on every learned object implies the hypotheses above *)
  Theorem C18_checker_sound : forall n : ornode T, wf_cnetb T t0 n = true -> wf_cnet T t0 n.
  Proof. exact (wf_cnetb_sound T t0). Qed.
  Theorem C18_root_checker_sound : forall n : ornode T, groot_okb T t0 teqb n = true -> groot_ok T t0 n.
  Proof. exact (groot_okb_sound T t0 teqb teqb_sound). Qed.
  Theorem C18_norm_checker_sound : forall n : ornode T,
      norm_cnetb T t0 t1 tadd teqb n = true -> norm_cnet T t0 t1 tadd n.
  Proof. exact (norm_cnetb_sound T t0 t1 tadd teqb teqb_sound). Qed.
End C18_check.

Print Assumptions C18_semantics_cut0.
Print Assumptions C18_semantics_cut1.
Print Assumptions C18_semantics_leaf.
Print Assumptions C18_code_batch_rowwise.
Print Assumptions C18_code_semantics.
Print Assumptions C18_local.
Print Assumptions C18_marginal.
Print Assumptions C18_total_mass.
Print Assumptions C18_normalised.
Print Assumptions C18_fit_wf.
Print Assumptions C18_fit_root_unsplit.
Print Assumptions C18_fit_normalised.
Print Assumptions C18_checker_sound.
Print Assumptions C18_root_checker_sound.
Print Assumptions C18_norm_checker_sound.
