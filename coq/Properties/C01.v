(* Properties/C01.v — complete-evidence inference is the circuit semantics; it is normalised;
   likelihood and log-likelihood agree.  Statements only; proofs in Proofs/. *)
From Coq Require Import List Arith ZArith Ring Reals.
From DV Require Import Model.Core Model.Clt Model.Leaves Model.Check Model.LogDomain
  Proofs.CoreFacts Proofs.CheckFacts Proofs.LogFacts Proofs.LogReal Proofs.Examples.
Import ListNotations.
Local Open Scope nat_scope.

Section C01.
  Variable T : Type.
  Variables (t0 t1 : T) (tadd tmul : T -> T -> T).
  Hypothesis SRth : semi_ring_theory t0 t1 tadd tmul (@eq T).
  Variable dom : nat -> list Z.
  Variable leaf : Type.
  Variable leaf_val : leaf -> row -> T.
  Let table := table T leaf.
  Let val := val T t0 t1 tadd tmul leaf leaf_val.
  Let vals := vals T t0 t1 tadd tmul leaf leaf_val.

  (* the evaluated table IS the mixture/product semantics: the value of the node appended last is
     its node function applied to its children's values, and appending nodes never changes the
     values of earlier ones (any sharing, arity, scope labelling) *)
  Theorem C01_semantics_last : forall (t : table) n r,
      val (t ++ [n]) (length t) r = node_val T t0 t1 tadd tmul leaf leaf_val n (vals t r) r.
  Proof. exact (val_last T t0 t1 tadd tmul leaf leaf_val). Qed.
  Theorem C01_semantics_prefix : forall (t t' : table) i r, i < length t -> val (t ++ t') i r = val t i r.
  Proof. exact (val_prefix T t0 t1 tadd tmul leaf leaf_val). Qed.

  (* every valid circuit with normalised weights and leaves sums to one over the whole domain *)
  Theorem C01_normalised : forall t : table,
      valid T t0 tadd dom leaf leaf_val t -> normalised T t0 t1 tadd leaf leaf_val t ->
      forall i, i < length t -> NoDup (scope_of T leaf t i) ->
      sum_compl T t0 tadd dom (scope_of T leaf t i) (val t i) row_none = t1.
  Proof. exact (total_mass_one T t0 t1 tadd tmul SRth dom leaf leaf_val). Qed.
End C01.

Section C01_check.
  Variable T : Type.
  Variables (t0 t1 : T) (tadd tmul : T -> T -> T).
  Hypothesis SRth : semi_ring_theory t0 t1 tadd tmul (@eq T).
  Variable teqb : T -> T -> bool.
  Hypothesis teqb_sound : forall a b, teqb a b = true -> a = b.
  (* the per-run certificate: the boolean checker evaluated on every generated / learned circuit
     implies the hypotheses of the theorems for the built-in leaf families *)
  Theorem C01_checker_sound : forall doms t,
      valid_b T t0 t1 tadd teqb doms [] t = true ->
      valid T t0 tadd (Check.dom doms) (Leaves.leaf T) (leaf_val T t0 t1 tadd tmul) t /\
      normalised T t0 t1 tadd (Leaves.leaf T) (leaf_val T t0 t1 tadd tmul) t.
  Proof. exact (valid_b_sound T t0 t1 tadd tmul SRth teqb teqb_sound). Qed.
End C01_check.

Section C01_log.
  Variables T L : Type.
  Variables (t0 t1 : T) (tadd tmul : T -> T -> T).
  Variable l0 : L.
  Variable lprod : list L -> L.
  Variable lse : list T -> list L -> L.
  Variable leaf : Type.
  Variable leaf_ll : leaf -> row -> L.
  Variable leaf_val : leaf -> row -> T.
  Variable ex : L -> T.
  (* log-likelihood and likelihood agree at EVERY node for every homomorphism ex *)
  Theorem C01_log_hom : forall (t : table T leaf) r, ex l0 = t0 ->
      Forall (hom_node T L t0 t1 tadd tmul lprod lse leaf leaf_ll leaf_val ex r) t ->
      map ex (lvals T L l0 lprod lse leaf leaf_ll t r) = vals T t0 t1 tadd tmul leaf leaf_val t r.
  Proof. exact (log_hom T L t0 t1 tadd tmul l0 lprod lse leaf leaf_ll leaf_val ex). Qed.
End C01_log.

(* the real instance: exp(LL) = L at every node, logsumexp with non-negative weights *)
Theorem C01_log_hom_R : forall (leaf : Type) (leaf_ll : leaf -> row -> lR) (leaf_val : leaf -> row -> R)
    (t : table R leaf) r,
    Forall (wts_nonneg leaf) t -> Forall (leaf_consistent leaf leaf_ll leaf_val r) t ->
    map exR (lvals R lR None lprodR lseR leaf leaf_ll t r) = vals R 0%R 1%R Rplus Rmult leaf leaf_val t r.
Proof. exact log_hom_R. Qed.

Theorem C01_iso_consistent : exR (Some (ln eps32)) = eps32.
Proof. exact iso_consistent. Qed.

Print Assumptions C01_semantics_last.
Print Assumptions C01_semantics_prefix.
Print Assumptions C01_normalised.
Print Assumptions C01_checker_sound.
Print Assumptions C01_log_hom.
Print Assumptions C01_log_hom_R.
Print Assumptions C01_iso_consistent.
