(* Properties/C12.v — Chow-Liu tree -> circuit conversion is exact (proved for every tree shape,
   root, labelling and evidence pattern); smoothness, decomposability and
   normalisation of the output are proved too (C12_valid); structured decomposability and
   determinism are certificate-checked per run (C12_structure_partial). *)
From Coq Require Import List Arith ZArith Ring Bool.
From DV Require Import Model.Core Model.Clt Model.Leaves Model.ToPc
  Proofs.CoreFacts Proofs.CltFacts Proofs.PruneFacts Proofs.ToPcFacts Proofs.ToPcValid.
Import ListNotations.

Section C12.
  Variable T : Type.
  Variables (t0 t1 : T) (tadd tmul : T -> T -> T).
  Hypothesis SRth : semi_ring_theory t0 t1 tadd tmul (@eq T).
  Let lval := leaf_val T t0 t1 tadd tmul.

  (* for every tree (any shape, any number of children per node, any labelling with distinct
     variables) and every row over {0,1,missing}: the sum built for parent value b evaluates to the
     tree's message-passing value `up t b r`; the table is children-first *)
  Theorem C12_vals : forall t : ctree T, NoDup (vars T t) ->
      let '(res, (n, p)) := topc T t0 t1 t [] in
      n < length res /\ p < length res /\ wf T (leaf T) res /\
      forall r, binary_on (vars T t) r ->
        val T t0 t1 tadd tmul (leaf T) lval res n r = up T t0 t1 tadd tmul t 0%Z r /\
        val T t0 t1 tadd tmul (leaf T) lval res p r = up T t0 t1 tadd tmul t 1%Z r.
  Proof. exact (to_pc_value T t0 t1 tadd tmul SRth). Qed.

  (* conversion inside a bigger table (how marginalisation uses it): appending only, earlier
     values untouched *)
  Theorem C12_vals_in_context : forall t : ctree T, NoDup (vars T t) -> forall acc, wf T (leaf T) acc ->
      let '(res, (n, p)) := topc T t0 t1 t acc in
      (exists ext, res = acc ++ ext) /\ wf T (leaf T) res /\ n < length res /\ p < length res /\
      forall r, binary_on (vars T t) r ->
        val T t0 t1 tadd tmul (leaf T) lval res n r = up T t0 t1 tadd tmul t 0%Z r /\
        val T t0 t1 tadd tmul (leaf T) lval res p r = up T t0 t1 tadd tmul t 1%Z r.
  Proof. exact (topc_spec T t0 t1 tadd tmul SRth). Qed.

  (* the converted circuit is smooth, decomposable, children-first and normalised (valid /\ normalised),
     for every tree with distinct binary variables and normalised CPT rows; both root-level sums
     have the tree's variable set as scope (duplicate free) *)
  Variable dom : nat -> list Z.
  Theorem C12_valid : forall t : ctree T, tree_ok T t1 tadd dom t ->
      forall acc, valid T t0 tadd dom (leaf T) lval acc -> normalised T t0 t1 tadd (leaf T) lval acc ->
      let '(res, (n, p)) := topc T t0 t1 t acc in
      (exists ext, res = acc ++ ext) /\ valid T t0 tadd dom (leaf T) lval res /\ normalised T t0 t1 tadd (leaf T) lval res /\
      length acc <= n < length res /\ length acc <= p < length res /\
      scope_of T (leaf T) res p = scope_of T (leaf T) res n /\ NoDup (scope_of T (leaf T) res n) /\
      (forall v, In v (scope_of T (leaf T) res n) <-> In v (vars T t)).
  Proof. exact (topc_valid T t0 t1 tadd tmul SRth dom). Qed.
End C12.

Print Assumptions C12_vals.
Print Assumptions C12_vals_in_context.
Print Assumptions C12_valid.
