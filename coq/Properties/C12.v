(* Properties/C12.v — Chow-Liu tree -> circuit conversion is exact (proved for every tree shape,
   root, labelling and evidence pattern); smoothness, decomposability and
   normalisation of the output are proved too (C12_valid), and so are determinism
   (C12_deterministic) and structured decomposability (C12_structured). *)
From Coq Require Import List Arith ZArith Ring Bool.
From DV Require Import Model.Core Model.Clt Model.Leaves Model.ToPc
  Proofs.CoreFacts Proofs.CltFacts Proofs.PruneFacts Proofs.ToPcFacts Proofs.ToPcValid Proofs.ToPcStruct.
Import ListNotations.

Section C12.
  Variable T : Type.
  Variables (t0 t1 : T) (tadd tmul : T -> T -> T).
  Hypothesis SRth : semi_ring_theory t0 t1 tadd tmul (@eq T).
  Let lval := leaf_val T t0 t1 tadd tmul.

  (* for every tree (any shape, any number of children per node, any labelling with distinct
     variables) and every row over {0,1,missing}: the sum built for parent value b evaluates to the
     tree's message-passing value `up t b r`; the table is children-first *)
  Theorem C12_vals : forall t : ctree T, NoDup (vars T t) ->
      let '(res, (n, p)) := topc T t0 t1 t [] in
      n < length res /\ p < length res /\ wf T (leaf T) res /\
      forall r, binary_on (vars T t) r ->
        val T t0 t1 tadd tmul (leaf T) lval res n r = up T t0 t1 tadd tmul t 0%Z r /\
        val T t0 t1 tadd tmul (leaf T) lval res p r = up T t0 t1 tadd tmul t 1%Z r.
  Proof. exact (to_pc_value T t0 t1 tadd tmul SRth). Qed.

  (* conversion inside a bigger table (how marginalisation uses it): appending only, earlier
     values untouched *)
  Theorem C12_vals_in_context : forall t : ctree T, NoDup (vars T t) -> forall acc, wf T (leaf T) acc ->
      let '(res, (n, p)) := topc T t0 t1 t acc in
      (exists ext, res = acc ++ ext) /\ wf T (leaf T) res /\ n < length res /\ p < length res /\
      forall r, binary_on (vars T t) r ->
        val T t0 t1 tadd tmul (leaf T) lval res n r = up T t0 t1 tadd tmul t 0%Z r /\
        val T t0 t1 tadd tmul (leaf T) lval res p r = up T t0 t1 tadd tmul t 1%Z r.
  Proof. exact (topc_spec T t0 t1 tadd tmul SRth). Qed.

  (* the converted circuit is smooth, decomposable, children-first and normalised (valid /\ normalised),
     for every tree with distinct binary variables and normalised CPT rows; both root-level sums
     have the tree's variable set as scope (duplicate free) *)
  Variable dom : nat -> list Z.
  Theorem C12_valid : forall t : ctree T, tree_ok T t1 tadd dom t ->
      forall acc, valid T t0 tadd dom (leaf T) lval acc -> normalised T t0 t1 tadd (leaf T) lval acc ->
      let '(res, (n, p)) := topc T t0 t1 t acc in
      (exists ext, res = acc ++ ext) /\ valid T t0 tadd dom (leaf T) lval res /\ normalised T t0 t1 tadd (leaf T) lval res /\
      length acc <= n < length res /\ length acc <= p < length res /\
      scope_of T (leaf T) res p = scope_of T (leaf T) res n /\ NoDup (scope_of T (leaf T) res n) /\
      (forall v, In v (scope_of T (leaf T) res n) <-> In v (vars T t)).
  Proof. exact (topc_valid T t0 t1 tadd tmul SRth dom). Qed.

  (* deterministic: every sum node of the output has exactly two children and, on every row that observes
     the sum's variable (0 or 1), one of the two evaluates to zero — at most one child is non-zero on
     every complete input *)
  Theorem C12_deterministic : forall t : ctree T, NoDup (vars T t) ->
      let '(res, _) := topc T t0 t1 t [] in
      forall j ws, j < length res -> nkind (nth j res (dummy_node T (leaf T))) = KSum ws ->
        exists v a b, In v (nscope (nth j res (dummy_node T (leaf T)))) /\
          nkids (nth j res (dummy_node T (leaf T))) = [a; b] /\
          forall r, (r v = Some 0%Z \/ r v = Some 1%Z) ->
            val T t0 t1 tadd tmul (leaf T) lval res a r = t0 \/ val T t0 t1 tadd tmul (leaf T) lval res b r = t0.
  Proof. exact (to_pc_deterministic T t0 t1 tadd tmul SRth). Qed.

  (* structured-decomposable: the scopes of any two product nodes are nested or disjoint (they are the
     variable sets of subtrees of the one Chow-Liu tree) *)
  Theorem C12_structured : forall t : ctree T, NoDup (vars T t) ->
      let '(res, _) := topc T t0 t1 t [] in
      forall j1 j2, j1 < length res -> j2 < length res -> is_prod T res j1 -> is_prod T res j2 ->
        lam (nscope (nth j1 res (dummy_node T (leaf T)))) (nscope (nth j2 res (dummy_node T (leaf T)))).
  Proof. exact (to_pc_structured T t0 t1 tadd tmul SRth). Qed.
End C12.

Print Assumptions C12_vals.
Print Assumptions C12_vals_in_context.
Print Assumptions C12_valid.
Print Assumptions C12_deterministic.
Print Assumptions C12_structured.
